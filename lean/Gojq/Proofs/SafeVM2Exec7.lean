/-
  C08 (bytecode checker, layer 2): closures and calls — `forktryend`, `pushpc`, `callpc`, `call`, `callrec`.
-/
import Gojq.Proofs.SafeVM2Exec6
set_option linter.unusedSimpArgs false
set_option linter.unusedVariables false
namespace Gojq.SafeVM
open Gojq Gojq.VM

variable {S : SC} {Ct : Cert}

theorem exec2_forktryend (C : Checked S) (C2 : Checked2 S Ct) {x : ExtRec} {l : L} {e : Env}
    (hc : codeAt S l.pc = some .forktryend) (hI1 : Inv S l e) (hI2 : Inv2 S Ct l e) :
    WP2 (exec .forktryend x l) (Post2 S Ct) e := by
  obtain ⟨A, hV, G, R, hF2, hmode⟩ := both_cases hI1 hI2
  rcases hmode with ⟨hb, hM, hM2⟩ | ⟨hb, hN, hN2⟩
  · simp only [exec, hb, if_true]
    apply WP2.pure
    exact Post2.brk_here (Fr2.refl e) hV rfl R hF2 (fun _ _ => BConf2.triv hc rfl)
  · obtain ⟨herr, a, succs, ha, hst, hsucc, hpc, hp, hconf⟩ := hN.unpack C hc
    obtain ⟨a2, succs2, idF, nv, na, ha2, hsa, hlen, hst2, hsucc2, _, _, hcur⟩ := hN2.unpack C2 hc
    simp only [step1, Option.some.injEq] at hst; subst hst; rw [hpc] at hsucc
    simp only [step2, hsa, Option.some.injEq] at hst2; subst hst2; rw [hpc] at hsucc2
    rw [if_neg (by simp [isScope])] at hcur
    simp only [exec, hb]
    exact fork2_normal C hV R hF2 (succ1 hsucc2) (succ_code (succ1 hsucc)) hcur (BConf2.triv hc rfl)

theorem findId_cons_ne {j : Int} {sc : Scope} {xs : List (Int × Scope)} {id : Int} (h : sc.id ≠ id) :
    findId ((j, sc) :: xs) id = findId xs id := by
  unfold findId
  simp only [List.find?_cons]
  have : (sc.id == id) = false := by simpa using h
  simp [this]

theorem findId_cons_eq {j : Int} {sc : Scope} {xs : List (Int × Scope)} {id : Int} (h : sc.id = id) :
    findId ((j, sc) :: xs) id = some (j, sc) := by
  unfold findId
  simp [List.find?_cons, h]

theorem capOK_inv {idF : Int} {sl : List Kind} {idt : Int} (h : capOK Ct idF sl idt = true) :
    (∀ x ∈ Ct.availOf idt, x = idt ∨ x ∈ Ct.availOf idF) ∧
    (∀ xi ∈ Ct.assumeOf idt, (xi.1 = idF ∧ 0 ≤ xi.2 ∧ Ct.stabOf xi ≠ .any ∧ kget sl xi.2.toNat = Ct.stabOf xi) ∨
      (xi.1 ≠ idF ∧ xi ∈ Ct.assumeOf idF)) := by
  unfold capOK at h
  simp only [Bool.and_eq_true, List.all_eq_true, Bool.or_eq_true, beq_iff_eq, List.contains_iff_mem] at h
  refine ⟨fun x hx => ?_, fun xi hxi => ?_⟩
  · rcases h.1 x hx with h' | h'
    · exact .inl h'
    · exact .inr (by simpa using h')
  · have := h.2 xi hxi
    split at this
    · rename_i heq
      simp only [Bool.and_eq_true, decide_eq_true_eq, bne_iff_ne, ne_eq, beq_iff_eq] at this
      exact .inl ⟨by simpa using heq, this.1.1, this.1.2, this.2⟩
    · rename_i hne
      exact .inr ⟨by simpa using hne, by simpa using this⟩

/-- a function / closure of scope `idt ≠ idF` entered (or captured) from the current frame finds what
    it needs on the chain starting at the current frame -/
theorem vgood_cap {e : Env} {A : AView} (hV : View e A) (R : RegInv S Ct e) {jt : Int} {sct : Scope}
    {rest : List (Int × Scope)} (hfr : A.frames = (jt, sct) :: rest) {sl : List Kind}
    (hslc : SlotCl S Ct e.scopes.data e.values jt sct sl) {idt : Int} (hcap : capOK Ct sct.id sl idt = true)
    (hne : idt ≠ sct.id) : Good S Ct e.scopes.data e.values (.v idt jt) := by
  have hmem := hV.frames_le (jt, sct) (by rw [hfr]; simp)
  have hjR : jt ≤ Rg e.scopes := by have := index_le_Rg e.scopes; omega
  obtain ⟨xs, hch, hchx, hav, hres, hgood⟩ := R.chain hmem.1 hjR hmem.2.2
  obtain ⟨c1, c2⟩ := capOK_inv hcap
  refine .v hch ?_ ?_ ?_
  · intro x hx
    rcases c1 x hx with h | h
    · exact .inl h
    · right
      rcases hav x h with h' | ⟨p, hp, hpid⟩
      · exact ⟨(jt, sct), by simp, h'.symm⟩
      · exact ⟨p, by simp [hp], hpid⟩
  · intro xi hxi
    rcases c2 xi hxi with ⟨h1, _⟩ | ⟨h1, h2⟩
    · rw [findId_cons_eq h1.symm]; rfl
    · rw [findId_cons_ne (Ne.symm h1)]; exact hres xi h2
  · intro xi hxi p hp
    rcases c2 xi hxi with ⟨h1, h0, hst, hk⟩ | ⟨h1, h2⟩
    · rw [findId_cons_eq h1.symm] at hp
      cases hp
      have := hslc xi.2.toNat _ (kget_some hk hst) hst
      rw [Int.toNat_of_nonneg h0] at this
      exact this
    · rw [findId_cons_ne (Ne.symm h1)] at hp
      exact hgood xi h2 p hp

/-- the caller as a suspended activation, from the successor the verifier accepted for the call -/
theorem susp_of_succ {d vs} {pc : Int} {a2 : Abs2} {idF : Int} (hs : SuccOK2 Ct (pc + 1, { a2 with ks := [], sl := resume Ct idF a2.sl }))
    {jt : Int} {sct : Scope} {rest : List (Int × Scope)} (hid : idOf S a2.fn = some sct.id) (hidF : sct.id = idF)
    (hslc : SlotCl S Ct d vs jt sct a2.sl) (hsusp : Susp S Ct d vs sct.pc rest) :
    Susp S Ct d vs pc ((jt, sct) :: rest) := by
  obtain ⟨b, hb, hacc⟩ := hs
  unfold Abs2.accepts at hacc
  simp only [Bool.and_eq_true, beq_iff_eq] at hacc
  refine ⟨b, hb, by rw [hacc.1.1]; exact hid, ⟨?_, ?_⟩, ?_, hsusp⟩
  · intro i k hk
    by_cases hne : k = .any
    · exact .inl hne
    · have := slAccept_get hacc.2 i k hk hne
      exact .inr (by rw [hidF]; exact (resume_get this hne).2)
  · intro n k hk
    refine Classical.byContradiction (fun hne => ?_)
    have := ksAccept_get hacc.1.2 n k hk hne
    simp at this
  · exact (hslc.resume idF).weaken hacc.2

theorem exec2_pushpc (C : Checked S) (C2 : Checked2 S Ct) {t : Int} {x : ExtRec} {l : L} {e : Env}
    (hc : codeAt S l.pc = some (.pushpc t)) (hI1 : Inv S l e) (hI2 : Inv2 S Ct l e) :
    WP2 (exec (.pushpc t) x l) (Post2 S Ct) e := by
  obtain ⟨hb, A, hV, G, hN, R, hF2, hN2⟩ := both_normal hI1 hI2 hc rfl
  obtain ⟨herr, a, succs, ha, hst, hsucc, hpc, hp, hconf⟩ := hN.unpack C hc
  obtain ⟨a2, succs2, idF, nv, na, ha2, hsa, hlen, hst2, hsucc2, _, _, hcur⟩ := hN2.unpack C2 hc
  simp only [step1] at hst
  split at hst
  · rename_i k hk
    split at hst
    · rename_i hk1
      subst hk1
      simp only [Option.some.injEq] at hst; subst hst; rw [hpc] at hsucc
      simp only [step2, hsa] at hst2
      split at hst2
      · rename_i idt nvt nat hsct
        split at hst2
        · rename_i hcond
          simp only [Bool.and_eq_true, bne_iff_ne, ne_eq] at hcond
          obtain ⟨hne, hcap⟩ := hcond
          simp only [Option.some.injEq] at hst2; subst hst2; rw [hpc] at hsucc2
          rw [if_neg (by simp [isScope])] at hcur
          obtain ⟨jt, sct, rest, hfr, hid, hslc, hstc, hsusp⟩ := hcur
          have hidF : sct.id = idF := by
            rw [idOf_eq hsa] at hid; exact (Option.some.inj hid).symm
          have hs := hV.scopes
          rw [hfr] at hs
          obtain ⟨hidx, hj0⟩ := hs.index_cons
          have hmem := hV.frames_le (jt, sct) (by rw [hfr]; simp)
          have hjR : jt ≤ Rg e.scopes := by have := index_le_Rg e.scopes; omega
          obtain ⟨sc', hb', ho1, ho2, _⟩ := R.reg jt hj0 hjR
          have hsc' : sc' = sct := by rw [hmem.2.2] at hb'; exact (Option.some.inj hb').symm
          rw [hsc'] at ho1 ho2
          simp only [exec]
          apply WP2.step (getEnv_eq _)
          apply WP2.step (push_eq _ _)
          apply WP2.pure
          refine Post2.fall_stack (e := e) (A' := { A with stk := ((e.stack.push (.clo t e.scopes.index)).index, .clo t e.scopes.index) :: A.stk })
            ⟨rfl, rfl, rfl, rfl⟩ (hV.push _) rfl rfl R hF2 (succ1 hsucc2) (succ_code (succ1 hsucc)) ?_
          refine ⟨jt, sct, rest, hfr, hid, hslc, hstc.push ?_, hsusp⟩
          show Good S Ct e.scopes.data e.values (.g .clo (.clo t e.scopes.index) jt)
          rw [hidx]
          refine .clo (sc := sct) (entryHI_target hk) hj0 (Int.le_refl _) hmem.2.2 (by omega) hsct ?_
          have hne' : idt ≠ sct.id := by rw [hidF]; exact hne
          rw [effOuter, if_neg (Ne.symm hne')]
          exact vgood_cap hV R hfr hslc (by rw [hidF]; exact hcap) hne'
        · simp at hst2
      · simp at hst2
    · simp at hst
  · simp at hst

theorem scopeAtI_code {t : Int} {idt : Int} {nv na : Nat} (h : scopeAtI S.code t = some (idt, nv, na)) :
    0 ≤ t ∧ ∃ vars nargs, codeAt S t = some (.scope idt vars nargs) ∧ scopeAt S.code t.toNat = some (idt, nv, na) := by
  unfold scopeAtI at h
  split at h
  · rename_i h0
    refine ⟨h0, ?_⟩
    have h' := h
    unfold scopeAt at h'
    cases hc : S.code[t.toNat]? with
    | none => rw [hc] at h'; simp at h'
    | some i =>
      rw [hc] at h'
      cases i <;> simp at h'
      rename_i id vars nargs
      obtain ⟨rfl, _, _⟩ := h'
      exact ⟨vars, nargs, by unfold codeAt; simp [h0, hc], h⟩
  · simp at h

/-- entering the function at `t` from a call instruction -/
theorem enter_scope (C2 : Checked2 S Ct) {l' : L} {e' : Env} {A' : AView} (hV' : View e' A') (R' : RegInv S Ct e')
    (hF2' : ForksConf2 S Ct e'.scopes.data e'.values A'.forks) {idt : Int} {nv na : Nat}
    (hsc : scopeAtI S.code l'.pc = some (idt, nv, na)) (hE : EntryConf2 S Ct l' e' A' idt na) :
    Post2 S Ct (.jump, l') e' := by
  obtain ⟨h0, vars, nargs, hct, hsa⟩ := scopeAtI_code hsc
  obtain ⟨a, ha, _⟩ := C2.entry l'.pc _ hct rfl
  refine ⟨A', hV', R', hF2', a, _, ha, hct, ?_⟩
  rw [if_pos (by simp [isScope])]
  exact ⟨idt, nv, na, hsa, hE⟩

theorem isClo_inv {k : Kind} (h : isClo k = true) : k = .clo ∨ k = .cloL := by
  cases k <;> simp [isClo] at h ⊢

theorem good_clo_inv {d vs} {v : V} {m : Int} (h : Good S Ct d vs (.g .clo v m)) :
    ∃ t idx sc idt nv na, v = .clo t idx ∧ S.target t = true ∧ 0 ≤ idx ∧ idx ≤ m ∧ blockAt d idx = some sc ∧
      sc.outerindex < idx ∧ scopeAtI S.code t = some (idt, nv, na) ∧ Good S Ct d vs (.v idt (effOuter sc idx idt)) := by
  cases h with
  | clo ht h0 hm hb ho hsc hv => exact ⟨_, _, _, _, _, _, rfl, ht, h0, hm, hb, ho, hsc, hv⟩

/-- a checked closure target has no closure parameters -/
theorem target_nargs {t : Int} {idt : Int} {nv na : Nat} (ht : S.target t = true)
    (hsc : scopeAtI S.code t = some (idt, nv, na)) : na = 0 := by
  have h1 := target_entry ht
  unfold entryHI at h1
  unfold scopeAtI at hsc
  split at h1
  · rename_i h0
    rw [if_pos h0] at hsc
    unfold entryH at h1
    unfold scopeAt at hsc
    cases hc : S.code[t.toNat]? with
    | none => rw [hc] at hsc; simp at hsc
    | some i =>
      rw [hc] at hsc h1
      cases i <;> simp at hsc
      rename_i id vars nargs
      simp only at h1
      split at h1
      · simp only [Option.some.injEq] at h1
        omega
      · cases h1
  · cases h1

theorem exec2_callpc (C : Checked S) (C2 : Checked2 S Ct) {x : ExtRec} {l : L} {e : Env}
    (hc : codeAt S l.pc = some .callpc) (hI1 : Inv S l e) (hI2 : Inv2 S Ct l e) :
    WP2 (exec .callpc x l) (Post2 S Ct) e := by
  obtain ⟨hb, A, hV, G, hN, R, hF2, hN2⟩ := both_normal hI1 hI2 hc rfl
  obtain ⟨herr, a, succs, ha, hst, hsucc, hpc, hp, hconf⟩ := hN.unpack C hc
  obtain ⟨a2, succs2, idF, nv, na, ha2, hsa, hlen, hst2, hsucc2, _, _, hcur⟩ := hN2.unpack C2 hc
  simp only [step1] at hst
  split at hst
  · rename_i hh
    simp only [Option.some.injEq] at hst; subst hst; rw [hpc] at hsucc
    simp only [step2, hsa] at hst2
    split at hst2
    · rename_i hclo
      simp only [Option.some.injEq] at hst2; subst hst2; rw [hpc] at hsucc2
      rw [if_neg (by simp [isScope])] at hcur hconf
      obtain ⟨jt, sct, rest, hfr, hid, hslc, hstc, hsusp⟩ := hcur
      have hidF : sct.id = idF := by
        rw [idOf_eq hsa] at hid; exact (Option.some.inj hid).symm
      obtain ⟨j, v, r, hstk⟩ := hconf.cons_of_pos (by omega)
      obtain ⟨nx, hpop, hV1, G1, hv⟩ := pop_spec hV G hstk
      rw [hstk] at hstc
      have hkv := hstc.head
      simp only at hkv
      -- the popped value is a good closure created at or below the current frame
      have hg : Good S Ct e.scopes.data e.values (.g .clo v jt) := by
        unfold KOK at hkv
        rcases isClo_inv hclo with h | h <;> rw [h] at hkv
        · exact hkv.g_mono (by omega)
        · exact hkv
      obtain ⟨t, idx, sc, idt, nvt, nat, rfl, ht, hi0, him, hbi, hoi, hsct, hvg⟩ := good_clo_inv hg
      have hmem := hV.frames_le (jt, sct) (by rw [hfr]; simp)
      have hjR : jt ≤ Rg e.scopes := by have := index_le_Rg e.scopes; omega
      simp only [exec]
      apply WP2.step hpop
      simp only
      apply WP2.pure
      refine enter_scope C2 (A' := { A with stk := r }) hV1 (R.fr ⟨rfl, rfl, rfl, rfl⟩) hF2 hsct ?_
      have hna : nat = 0 := target_nargs ht hsct
      subst hna
      have hs := hV.scopes
      rw [hfr] at hs
      obtain ⟨hidx, hj0⟩ := hs.index_cons
      refine ⟨?_, by show idx ≤ Rg e.scopes; omega, ⟨fun _ => ?_, fun h => by have := (codeAt_range hc).1; simp only at h; omega⟩,
        fun n hn => absurd hn (by omega), .inl ⟨(codeAt_range hc).1, ?_⟩⟩
      · show Good S Ct e.scopes.data e.values (.v idt (match blockAt e.scopes.data idx with | some sc => effOuter sc idx idt | none => idx))
        rw [hbi]
        exact hvg
      · show (match blockAt e.scopes.data idx with | some sc => effOuter sc idx idt | none => idx) ≤ e.scopes.index
        rw [hbi, hidx]
        simp only
        unfold effOuter
        split <;> omega
      · show Susp S Ct e.scopes.data e.values l.pc A.frames
        rw [hfr]
        exact susp_of_succ (succ1 hsucc2) hid hidF hslc hsusp
    · simp at hst2
  · simp at hst

theorem exec2_call (C : Checked S) (C2 : Checked2 S Ct) {t : Int} {x : ExtRec} {l : L} {e : Env}
    (hc : codeAt S l.pc = some (.call t)) (hI1 : Inv S l e) (hI2 : Inv2 S Ct l e) :
    WP2 (exec (.call t) x l) (Post2 S Ct) e := by
  obtain ⟨A, hV, G, R, hF2, hmode⟩ := both_cases hI1 hI2
  rcases hmode with ⟨hb, hM, hM2⟩ | ⟨hb, hN, hN2⟩
  · simp only [exec, hb, if_true]
    apply WP2.pure
    exact Post2.brk_here (Fr2.refl e) hV rfl R hF2 (fun _ _ => BConf2.triv hc rfl)
  · obtain ⟨herr, a, succs, ha, hst, hsucc, hpc, hp, hconf⟩ := hN.unpack C hc
    obtain ⟨a2, succs2, idF, nv, na, ha2, hsa, hlen, hst2, hsucc2, _, _, hcur⟩ := hN2.unpack C2 hc
    simp only [step2, hsa] at hst2
    split at hst2
    · rename_i idt nvt nat hsct
      split at hst2
      · rename_i hcond
        simp only [Bool.and_eq_true, Bool.or_eq_true, beq_iff_eq, List.all_eq_true, List.mem_range] at hcond
        obtain ⟨hcap, hargs⟩ := hcond
        simp only [Option.some.injEq] at hst2; subst hst2; rw [hpc] at hsucc2
        rw [if_neg (by simp [isScope])] at hcur hconf
        obtain ⟨jt, sct, rest, hfr, hid, hslc, hstc, hsusp⟩ := hcur
        have hidF : sct.id = idF := by
          rw [idOf_eq hsa] at hid; exact (Option.some.inj hid).symm
        have hs := hV.scopes
        rw [hfr] at hs
        obtain ⟨hidx, hj0⟩ := hs.index_cons
        have hmem := hV.frames_le (jt, sct) (by rw [hfr]; simp)
        have hjR : jt ≤ Rg e.scopes := by have := index_le_Rg e.scopes; omega
        obtain ⟨sc', hb', ho1, ho2, hvg⟩ := R.reg jt hj0 hjR
        have hsc' : sc' = sct := by rw [hmem.2.2] at hb'; exact (Option.some.inj hb').symm
        rw [hsc'] at ho1 ho2 hvg
        simp only [exec]
        rw [if_neg (by rw [hb]; simp)]
        apply WP2.step (getEnv_eq _)
        apply WP2.pure
        refine enter_scope C2 hV R hF2 hsct ?_
        refine ⟨?_, by show e.scopes.index ≤ Rg e.scopes; omega,
          ⟨fun _ => ?_, fun h => by have := (codeAt_range hc).1; simp only at h; omega⟩, ?_, .inl ⟨(codeAt_range hc).1, ?_⟩⟩
        · show Good S Ct e.scopes.data e.values
            (.v idt (match blockAt e.scopes.data e.scopes.index with | some sc => effOuter sc e.scopes.index idt | none => e.scopes.index))
          rw [hidx, hmem.2.2]
          simp only
          unfold effOuter
          split
          · rename_i heq
            rw [← heq]; exact hvg
          · rename_i hne
            rcases hcap with h | h
            · exact absurd (by rw [hidF, h]) hne
            · exact vgood_cap hV R hfr hslc (by rw [hidF]; exact h) (Ne.symm hne)
        · show (match blockAt e.scopes.data e.scopes.index with | some sc => effOuter sc e.scopes.index idt | none => e.scopes.index) ≤ e.scopes.index
          rw [hidx, hmem.2.2]
          simp only
          unfold effOuter
          split <;> omega
        · intro n hn
          have hk := hargs n hn
          rcases isClo_inv hk with h | h
          · obtain ⟨p, hp, hg⟩ := hstc (n + 1) .clo (kget_some h (by decide)) (by decide)
            exact ⟨p, hp, by rw [hidx]; exact Good.g_mono hg (by omega)⟩
          · obtain ⟨p, hp, hg⟩ := hstc (n + 1) .cloL (kget_some h (by decide)) (by decide)
            exact ⟨p, hp, by rw [hidx]; exact hg⟩
        · show Susp S Ct e.scopes.data e.values l.pc A.frames
          rw [hfr]
          exact susp_of_succ (succ1 hsucc2) hid hidF hslc hsusp
      · simp at hst2
    · simp at hst2

theorem exec2_callrec (C : Checked S) (C2 : Checked2 S Ct) {t : Int} {x : ExtRec} {l : L} {e : Env}
    (hc : codeAt S l.pc = some (.callrec t)) (hI1 : Inv S l e) (hI2 : Inv2 S Ct l e) :
    WP2 (exec (.callrec t) x l) (Post2 S Ct) e := by
  obtain ⟨hb, A, hV, G, hN, R, hF2, hN2⟩ := both_normal hI1 hI2 hc rfl
  obtain ⟨a2, succs2, idF, nv, na, ha2, hsa, hlen, hst2, hsucc2, _, _, hcur⟩ := hN2.unpack C2 hc
  simp only [step2, hsa] at hst2
  split at hst2
  · rename_i hcond
    simp only [Bool.and_eq_true, beq_iff_eq] at hcond
    obtain ⟨ht, hna⟩ := hcond
    rw [if_neg (by simp [isScope])] at hcur
    obtain ⟨jt, sct, rest, hfr, hid, hslc, hstc, hsusp⟩ := hcur
    have hidF : sct.id = idF := by
      rw [idOf_eq hsa] at hid; exact (Option.some.inj hid).symm
    have hs := hV.scopes
    rw [hfr] at hs
    obtain ⟨hidx, hj0⟩ := hs.index_cons
    have hmem := hV.frames_le (jt, sct) (by rw [hfr]; simp)
    have hjR : jt ≤ Rg e.scopes := by have := index_le_Rg e.scopes; omega
    obtain ⟨sc', hb', ho1, ho2, hvg⟩ := R.reg jt hj0 hjR
    have hsc' : sc' = sct := by rw [hmem.2.2] at hb'; exact (Option.some.inj hb').symm
    rw [hsc'] at ho1 ho2 hvg
    have hsct : scopeAtI S.code t = some (idF, nv, na) := by
      unfold scopeAtI; rw [ht]; simp [hsa]
    simp only [exec]
    apply WP2.step (getEnv_eq _)
    apply WP2.pure
    refine enter_scope C2 hV R hF2 hsct ?_
    subst hna
    refine ⟨?_, by show e.scopes.index ≤ Rg e.scopes; omega, ⟨fun h => by simp only at h; omega, fun _ j' sc' rest' hfr' => ?_⟩,
      fun n hn => absurd hn (by omega), .inr ⟨rfl, rfl, jt, sct, rest, hfr, hsusp⟩⟩
    rotate_left
    · show (match blockAt e.scopes.data e.scopes.index with | some sc => effOuter sc e.scopes.index idF | none => e.scopes.index) ≤ sc'.saveindex
      rw [hfr] at hfr'
      simp only [List.cons.injEq, Prod.mk.injEq] at hfr'
      obtain ⟨⟨_, rfl⟩, _⟩ := hfr'
      rw [hidx, hmem.2.2]
      simp only
      rw [effOuter, if_pos hidF]
      exact ho1
    show Good S Ct e.scopes.data e.values
      (.v idF (match blockAt e.scopes.data e.scopes.index with | some sc => effOuter sc e.scopes.index idF | none => e.scopes.index))
    rw [hidx, hmem.2.2]
    simp only
    rw [effOuter, if_pos hidF, ← hidF]
    exact hvg
  · simp at hst2

end Gojq.SafeVM

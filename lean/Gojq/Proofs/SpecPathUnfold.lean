/-
  Helper lemmas for Props/C02Path.lean, part 4: one unfolding lemma per function of the mutual
  evaluator `Spec.eval` (Model/Spec.lean).  Every lemma is `rfl`: the right-hand side is the body
  of the definition, verbatim (a few sub-terms are named by the `def`s of this file so that the
  proofs can refer to them).  A change of one evaluator function breaks exactly one lemma here.
  Core Lean only.
-/
import Gojq.Model.Spec
namespace Gojq.Spec
open Gojq

/-! ### fuel 0 -/

theorem eval_zero (cfg : Cfg) (env : Env) (q : Query) (s : St) : eval 0 cfg env q s = .outOfFuel := rfl
theorem evalBinNative_zero (cfg : Cfg) (env : Env) (name : String) (l r : Query) (s : St) :
    evalBinNative 0 cfg env name l r s = .outOfFuel := rfl
theorem evalTerm_zero (cfg : Cfg) (env : Env) (t : Term) (s : St) : evalTerm 0 cfg env t s = .outOfFuel := rfl
theorem evalIndex_zero (cfg : Cfg) (env : Env) (t : Term) (i : Index) (s : St) :
    evalIndex 0 cfg env t i s = .outOfFuel := rfl
theorem evalCore_zero (cfg : Cfg) (env : Env) (c : TermCore) (s : St) : evalCore 0 cfg env c s = .outOfFuel := rfl
theorem evalStr_zero (cfg : Cfg) (env : Env) (str : Str) (fmt : Option String) (s : St) :
    evalStr 0 cfg env str fmt s = .outOfFuel := rfl
theorem evalFormat_zero (cfg : Cfg) (env : Env) (fmt : String) (s : St) : evalFormat 0 cfg env fmt s = .outOfFuel := rfl
theorem evalObject_zero (cfg : Cfg) (env : Env) (kvs : List ObjKV) (acc : List (JV × JV)) (s : St) (ctx : Option PCtx) :
    evalObject 0 cfg env kvs acc s ctx = .outOfFuel := rfl
theorem evalAlts_zero (cfg : Cfg) (env : Env) (allPats pats : List Pattern) (xv : JV) (xid : Ident) (body : Query) (s : St) :
    evalAlts 0 cfg env allPats pats xv xid body s = .outOfFuel := rfl
theorem bindPattern_zero (cfg : Cfg) (env : Env) (p : Pattern) (xv : JV) (xid : Ident) (ctx : Option PCtx) :
    bindPattern 0 cfg env p xv xid ctx = PatRes.fail .fuel := rfl
theorem evalCall_zero (cfg : Cfg) (env : Env) (name : String) (args : List Query) (s : St) :
    evalCall 0 cfg env name args s = .outOfFuel := rfl
theorem callDef_zero (cfg : Cfg) (callerEnv fenv : Env) (params : List String) (body : Query) (args : List Query) (s : St) :
    callDef 0 cfg callerEnv fenv params body args s = .outOfFuel := rfl
theorem evalAssign_zero (cfg : Cfg) (env : Env) (l r : Query) (s : St) : evalAssign 0 cfg env l r s = .outOfFuel := rfl
theorem evalModify_zero (cfg : Cfg) (env : Env) (l : Query) (f : Query ⊕ (String × JV)) (s : St) :
    evalModify 0 cfg env l f s = .outOfFuel := rfl
theorem evalArithUpdate_zero (cfg : Cfg) (env : Env) (name : String) (l r : Query) (s : St) :
    evalArithUpdate 0 cfg env name l r s = .outOfFuel := rfl

/-! ### `eval` -/

theorem eval_term (n : Nat) (cfg : Cfg) (env : Env) (ds : List FuncDef) (t : Term) (s : St) :
    eval (n+1) cfg env (.term ds t) s = evalTerm n cfg (env.defs ds) t s := rfl

theorem eval_bind (n : Nat) (cfg : Cfg) (env : Env) (ds : List FuncDef) (src : Query) (pats : List Pattern)
    (body : Query) (s : St) :
    eval (n+1) cfg env (.bind ds src pats body) s =
      (eval n cfg (env.defs ds) src (withCtx none s)).bind fun x =>
        evalAlts n cfg (env.defs ds) pats pats x.v x.id body s := rfl

theorem eval_binop (fuel : Nat) (cfg : Cfg) (env0 : Env) (ds : List FuncDef) (op : Op) (l r : Query) (s : St) :
    eval (fuel+1) cfg env0 (.binop ds op l r) s =
      let env := env0.defs ds
      match op with
      | .pipe => (eval fuel cfg env l s).bind fun x => eval fuel cfg env r x
      | .comma => (eval fuel cfg env l s).append fun _ => eval fuel cfg env r s
      | .alt =>
        let rl := eval fuel cfg env l s
        let truthy := rl.outs.filter fun x => !isFalsy x.v
        match rl.stop with
        | .done => if truthy.isEmpty then eval fuel cfg env r s else ⟨truthy, .done⟩
        | st => if truthy.isEmpty then ⟨[], st⟩ else ⟨truthy, st⟩
      | .and =>
        (eval fuel cfg env l (withCtx none s)).bind fun x =>
          if isFalsy x.v then .one (computed s (.bool false))
          else (eval fuel cfg env r (withCtx none s)).bind fun y => .one (computed s (.bool (!isFalsy y.v)))
      | .or =>
        (eval fuel cfg env l (withCtx none s)).bind fun x =>
          if !isFalsy x.v then .one (computed s (.bool true))
          else (eval fuel cfg env r (withCtx none s)).bind fun y => .one (computed s (.bool (!isFalsy y.v)))
      | .add => evalBinNative fuel cfg env "_add" l r s
      | .sub => evalBinNative fuel cfg env "_subtract" l r s
      | .mul => evalBinNative fuel cfg env "_multiply" l r s
      | .div => evalBinNative fuel cfg env "_divide" l r s
      | .mod => evalBinNative fuel cfg env "_modulo" l r s
      | .eq => evalBinNative fuel cfg env "_equal" l r s
      | .ne => evalBinNative fuel cfg env "_notequal" l r s
      | .gt => evalBinNative fuel cfg env "_greater" l r s
      | .lt => evalBinNative fuel cfg env "_less" l r s
      | .ge => evalBinNative fuel cfg env "_greatereq" l r s
      | .le => evalBinNative fuel cfg env "_lesseq" l r s
      | .assign => evalAssign fuel cfg env l r s
      | .modify => evalModify fuel cfg env l (.inl r) s
      | .updAdd => evalArithUpdate fuel cfg env "_add" l r s
      | .updSub => evalArithUpdate fuel cfg env "_subtract" l r s
      | .updMul => evalArithUpdate fuel cfg env "_multiply" l r s
      | .updDiv => evalArithUpdate fuel cfg env "_divide" l r s
      | .updMod => evalArithUpdate fuel cfg env "_modulo" l r s
      | .updAlt => evalArithUpdate fuel cfg env "_alternative" l r s := by
  cases op <;> rfl

/-! ### `evalTerm` -/

/-- the body of `evalTerm` as a function of the reversed suffix list -/
def evalTermRev (fuel : Nat) (cfg : Cfg) (env : Env) (core : TermCore) (s : St) : List Suffix → Res
  | [] => evalCore fuel cfg env core s
  | last :: revInit =>
    let t' : Term := .mk core revInit.reverse
    match last with
    | .iter => (evalTerm fuel cfg env t' s).bind fun x => iterate x
    | .index i => evalIndex fuel cfg env t' i s
    | .optional =>
      match revInit with
      | (.index i) :: revInit' =>
        let t'' : Term := .mk core revInit'.reverse
        (evalTerm fuel cfg env t'' s).bind fun x =>
          catchAll (evalIndex fuel cfg env (.mk .identity []) i x)
      | .iter :: revInit' =>
        let t'' : Term := .mk core revInit'.reverse
        (evalTerm fuel cfg env t'' s).bind fun x => catchAll (iterate x)
      | _ => catchAll (evalTerm fuel cfg env t' s)

theorem evalTerm_succ (fuel : Nat) (cfg : Cfg) (env : Env) (core : TermCore) (sfx : List Suffix) (s : St) :
    evalTerm (fuel+1) cfg env (.mk core sfx) s = evalTermRev fuel cfg env core s sfx.reverse := by
  simp only [evalTerm, evalTermRev]
  cases sfx.reverse with
  | nil => rfl
  | cons last revInit =>
    cases last with
    | iter => rfl
    | index i => rfl
    | optional =>
      cases revInit with
      | nil => rfl
      | cons a b => cases a <;> rfl

/-! ### `evalIndex` -/

/-- the last step of every index form: navigate from `x` by the key `k` -/
def navStep (x : St) (k : JV) : Res :=
  match funcIndex2 x.v k with
  | .ok w => navigated x k w
  | .error e => .fail e

/-- the last step of the slice form -/
def sliceStep (x st en : St) : Res :=
  match funcSlice x.v en.v st.v with
  | .ok w => navigated x (.obj [(B "end", en.v), (B "start", st.v)]) w
  | .error e => .fail e

/-- an optional slice bound -/
def evalOptBound (fuel : Nat) (cfg : Cfg) (env : Env) (s : St) (q : Option Query) : Res :=
  match q with
  | none => .one { v := .null }
  | some q => eval fuel cfg env q (withCtx none s)

theorem evalIndex_succ (fuel : Nat) (cfg : Cfg) (env : Env) (t : Term) (i : Index) (s : St) :
    evalIndex (fuel+1) cfg env t i s =
      match i with
      | .name n => (evalTerm fuel cfg env t s).bind fun x => navStep x (.str n)
      | .str (.lit b) => (evalTerm fuel cfg env t s).bind fun x => navStep x (.str b)
      | .str str =>
        (evalStr fuel cfg env str none (withCtx none s)).bind fun k =>
          (evalTerm fuel cfg env t s).bind fun x => navStep x k.v
      | .at q =>
        (eval fuel cfg env q (withCtx none s)).bind fun k =>
          (evalTerm fuel cfg env t s).bind fun x => navStep x k.v
      | .slice a b =>
        (evalOptBound fuel cfg env s a).bind fun st =>
          (evalOptBound fuel cfg env s b).bind fun en =>
            (evalTerm fuel cfg env t s).bind fun x => sliceStep x st en := by
  cases i with
  | name n => rfl
  | str str => cases str <;> rfl
  | «at» q => rfl
  | slice a b => rfl

/-! ### `evalCore` -/

/-- `try body catch c` given the result `r` of the body -/
def tryResult (fuel : Nat) (cfg : Cfg) (env : Env) (catch_ : Option Query) (s : St) (r : Res) : Res :=
  match r.stop with
  | .err (.brk _) | .err (.halt _ _) => r
  | .err e =>
    match catch_ with
    | none => ⟨r.outs, .done⟩
    | some c =>
      let msg : Option JV := match e with
        | .user v => some v
        | e => (errMessage e).map .str
      match msg with
      | none => ⟨r.outs, .unmodelled "catch: message of a built-in error not computed by the model"⟩
      | some m =>
        let caught : St := { v := m, id := if isContainer m then .unknown else .fresh, ctx := s.ctx }
        (⟨r.outs, .done⟩ : Res).append fun _ => eval fuel cfg env c caught
  | _ => r

/-- `reduce` after the start value `st0` -/
def reduceFrom (fuel : Nat) (cfg : Cfg) (env : Env) (src : Query) (pat : Pattern) (update : Query) (s st0 : St) : Res :=
  let rs := eval fuel cfg env src { s with ctx := st0.ctx }
  let step := reduceStep (fun x => bindPattern fuel cfg env pat x.v x.id x.ctx)
    (fun x env' sv sid => eval fuel cfg env' update { v := sv, id := sid, ctx := x.ctx })
  match rs.outs.foldl step (.ok (st0.v, st0.id)) with
  | .error st => ⟨[], st⟩
  | .ok (sv, sid) =>
    match rs.stop with
    | .done => .one { v := sv, id := sid, ctx := st0.ctx }
    | st => ⟨[], st⟩

/-- `foreach` after the start value `st0` -/
def foreachFrom (fuel : Nat) (cfg : Cfg) (env : Env) (src : Query) (pat : Pattern) (update : Query)
    (extract : Option Query) (s st0 : St) : Res :=
  let rs := eval fuel cfg env src { s with ctx := st0.ctx }
  foreachLoop (fun x => bindPattern fuel cfg env pat x.v x.id x.ctx)
    (fun x env' sv sid => eval fuel cfg env' update { v := sv, id := sid, ctx := x.ctx })
    (fun env' u => match extract with
      | none => Res.one u
      | some e => eval fuel cfg env' e u)
    rs.stop rs.outs st0.v st0.id []

theorem evalCore_succ (fuel : Nat) (cfg : Cfg) (env : Env) (core : TermCore) (s : St) :
    evalCore (fuel+1) cfg env core s =
      match core with
      | .identity => .one s
      | .recurse => evalCall fuel cfg env "recurse" [] s
      | .null => .one (computed s .null)
      | .true_ => .one (computed s (.bool true))
      | .false_ => .one (computed s (.bool false))
      | .number text =>
        (match parseNumberLit text with
        | some n => .one (computed s (.num n))
        | none => .unmodelled s!"number literal {text}")
      | .str str => evalStr fuel cfg env str none s
      | .format fmt none => evalFormat fuel cfg env fmt s
      | .format fmt (some str) => evalStr fuel cfg env str (some fmt) s
      | .index i => evalIndex fuel cfg env (.mk .identity []) i s
      | .query q => eval fuel cfg env q s
      | .unary op t =>
        (evalTerm fuel cfg env t s).bind fun x =>
          let name := if op == .sub then "_negate" else "_plus"
          nativeRes x name (callNative name x.v []) [x.v]
      | .array none => .one (computed s (.arr []))
      | .array (some q) =>
        let r := eval fuel cfg env q s
        (match r.stop with
        | .done => .one (computed s (.arr (r.outs.map (·.v))))
        | st => ⟨[], st⟩)
      | .object kvs => evalObject fuel cfg env kvs [] s s.ctx
      | .if_ c t elifs e =>
        (eval fuel cfg env c (withCtx none s)).bind fun x =>
          if !isFalsy x.v then eval fuel cfg env t s
          else match elifs with
            | (c', t') :: rest => evalCore fuel cfg env (.if_ c' t' rest e) s
            | [] => match e with
              | some e => eval fuel cfg env e s
              | none => .one s
      | .try_ body catch_ => tryResult fuel cfg env catch_ s (eval fuel cfg env body s)
      | .reduce src pat start update =>
        (eval fuel cfg env start s).bind fun st0 => reduceFrom fuel cfg env src pat update s st0
      | .foreach src pat start update extract =>
        (eval fuel cfg env start s).bind fun st0 => foreachFrom fuel cfg env src pat update extract s st0
      | .label name body =>
        let id := fuel
        let r := eval fuel cfg (env.push (.label name id)) body s
        (match r.stop with
        | .err (.brk id') => if id' == id then ⟨r.outs, .done⟩ else r
        | _ => r)
      | .break_ name =>
        (match lookupLabel name env.bs with
        | some id => .fail (.brk id)
        | none => .unmodelled "break: label not defined (compile error)")
      | .func name args => evalCall fuel cfg env name args s := by
  cases core with
  | format fmt str => cases str <;> rfl
  | array q => cases q <;> rfl
  | _ => rfl

/-! ### `evalStr`, `evalFormat` -/

/-- one part of an interpolated string -/
def strPart (fuel : Nat) (cfg : Cfg) (env : Env) (fmt : Option String) (s : St) (p : Query) (ctx : Option PCtx) : Res :=
  let isStrLit : Bool := match p with
    | .term _ (.mk (.str _) []) => true
    | _ => false
  if isStrLit then eval fuel cfg env p { s with ctx := ctx }
  else (eval fuel cfg env p { s with ctx := ctx }).bind fun x =>
    evalFormat fuel cfg env (fmt.getD "@text") x

theorem evalStr_succ (fuel : Nat) (cfg : Cfg) (env : Env) (str : Str) (fmt : Option String) (s : St) :
    evalStr (fuel+1) cfg env str fmt s =
      match str with
      | .lit b => .one (computed s (.str b))
      | .interp parts => interpK (strPart fuel cfg env fmt s) s parts.reverse s.ctx := by
  cases str <;> rfl

/-- `@format` is one native call on the input -/
theorem evalFormat_succ (fuel : Nat) (cfg : Cfg) (env : Env) (fmt : String) (s : St) :
    ∃ name r given, evalFormat (fuel+1) cfg env fmt s = nativeRes s name r given := by
  simp only [evalFormat]
  split
  · exact ⟨_, _, _, rfl⟩
  · exact ⟨_, _, _, rfl⟩

/-! ### `evalObject` -/

/-- the key of one entry, evaluated on `s0` -/
def objKeyRes (fuel : Nat) (cfg : Cfg) (env : Env) (key : ObjKey) (val : Option Query) (s0 : St) : Res :=
  match key with
  | .name k => .one (computed s0 (.str k))
  | .var name =>
    (match val with
     | none => Res.one (computed s0 (.str (B (dropFirst name))))
     | some _ => evalCall fuel cfg env name [] s0)
  | .str str => evalStr fuel cfg env str none s0
  | .query q => eval fuel cfg env q s0

/-- the value of one entry given its evaluated key `k` (`s1` = `s` with the context after the key) -/
def objValRes (fuel : Nat) (cfg : Cfg) (env : Env) (key : ObjKey) (val : Option Query) (s : St) (k : St) (s1 : St) : Res :=
  match val with
  | some q => eval fuel cfg env q s1
  | none => match key with
    | .name kk => (match funcIndex2 s.v (.str kk) with
        | .ok w => navigated s1 (.str kk) w
        | .error e => .fail e)
    | .var name => evalCall fuel cfg env name [] s1
    | .str (.lit kk) => (match funcIndex2 s.v (.str kk) with
        | .ok w => navigated s1 (.str kk) w
        | .error e => .fail e)
    | .str _ => (match funcIndex2 s.v k.v with
        | .ok w => .one (computed s1 w)
        | .error e => .fail e)
    | .query _ => .unmodelled "object: (query) key without value"

theorem evalObject_succ (fuel : Nat) (cfg : Cfg) (env : Env) (kvs : List ObjKV) (acc : List (JV × JV)) (s : St)
    (ctx : Option PCtx) :
    evalObject (fuel+1) cfg env kvs acc s ctx =
      match kvs with
      | [] =>
        (match acc.reverse.find? (fun (k, _) => match k with | .str _ => false | _ => true) with
        | some (k, _) => .fail (.builtin "objectKeyNotString" [k])
        | none =>
          .one { v := JV.mkObj (acc.filterMap fun (k, v) => match k with | .str b => some (b, v) | _ => none),
                 id := .fresh, ctx := ctx })
      | .mk key val :: rest =>
        (objKeyRes fuel cfg env key val { s with ctx := ctx }).bind fun k =>
          (objValRes fuel cfg env key val s k { s with ctx := k.ctx }).bind fun v =>
            evalObject fuel cfg env rest (acc ++ [(k.v, v.v)]) s v.ctx := by
  cases kvs with
  | nil => rfl
  | cons kv rest => cases kv; rfl

/-! ### `evalAlts`, `bindPattern` -/

/-- one alternative of `?//`: bind the pattern, run the body for every environment, then the
    pattern's own stop -/
def altAttempt (fuel : Nat) (cfg : Cfg) (env0 : Env) (p : Pattern) (xv : JV) (xid : Ident) (body : Query) (s : St) : Res :=
  let pr := bindPattern fuel cfg env0 p xv xid none
  (forEnvs pr.envs fun env' => eval fuel cfg env' body s).append fun _ => ⟨[], pr.stop⟩

theorem evalAlts_nil (fuel : Nat) (cfg : Cfg) (env : Env) (allPats : List Pattern) (xv : JV) (xid : Ident)
    (body : Query) (s : St) :
    evalAlts (fuel+1) cfg env allPats [] xv xid body s = .empty := rfl

theorem evalAlts_one (fuel : Nat) (cfg : Cfg) (env : Env) (allPats : List Pattern) (p : Pattern) (xv : JV) (xid : Ident)
    (body : Query) (s : St) :
    evalAlts (fuel+1) cfg env allPats [p] xv xid body s =
      altAttempt fuel cfg (if allPats.length > 1 then nullVars allPats env else env) p xv xid body s := rfl

theorem evalAlts_cons2 (fuel : Nat) (cfg : Cfg) (env : Env) (allPats : List Pattern) (p p2 : Pattern) (rest : List Pattern)
    (xv : JV) (xid : Ident) (body : Query) (s : St) :
    evalAlts (fuel+1) cfg env allPats (p :: p2 :: rest) xv xid body s =
      let attempt := altAttempt fuel cfg (nullVars allPats env) p xv xid body s
      match attempt.stop with
      | .err _ => (⟨attempt.outs.map ({ · with pend := true }), .done⟩ : Res).append fun _ =>
          evalAlts fuel cfg env allPats (p2 :: rest) xv xid body s
      | _ => ⟨attempt.outs.map ({ · with pend := true }), attempt.stop⟩ := rfl

/-- the keys an object-pattern entry denotes -/
def patKeys (fuel : Nat) (cfg : Cfg) (xv : JV) (xid : Ident) (env' : Env) (key : ObjKey) : KeysRes :=
  match key with
  | .name k => ([.str k], .done)
  | .var n => ([.str (B (dropFirst n))], .done)
  | .str (.lit b) => ([.str b], .done)
  | .str str =>
    let r := evalStr fuel cfg env' str none { v := xv, id := xid }
    (r.outs.map (·.v), r.stop)
  | .query q =>
    let r := eval fuel cfg env' q { v := xv, id := xid }
    (r.outs.map (·.v), r.stop)

theorem bindPattern_succ (fuel : Nat) (cfg : Cfg) (env : Env) (p : Pattern) (xv : JV) (xid : Ident) (ctx : Option PCtx) :
    bindPattern (fuel+1) cfg env p xv xid ctx =
      match p with
      | .var n => PatRes.ok [env.push (.var n xv xid)]
      | .array ps =>
        (match xv with
        | .null | .arr _ =>
          bindArrayK (fun env' p w wid => bindPattern fuel cfg env' p w wid ctx) xv xid ps 0 (PatRes.ok [env])
        | v => PatRes.fail (.err (errExpectedArray v)))
      | .object kvs =>
        bindObjectK (patKeys fuel cfg xv xid)
          (fun env' p w wid => bindPattern fuel cfg env' p w wid ctx) xv xid kvs (PatRes.ok [env]) := by
  cases p with
  | var n => rfl
  | array ps => rfl
  | object kvs => rfl

/-! ### `evalCall`, `callDef` -/

/-- what `path(f)` emits for one output `x` of `f` -/
def pathEmit (s x : St) : Res :=
  match x.ctx with
  | none => .unmodelled "path: tracking context lost"
  | some c =>
    match pathIntact x c with
    | some true => .one (computed s (.arr c.path))
    | some false => .fail (.builtin "invalidPath" [x.v])
    | none => .unmodelled "pathIntact: pointer identity not decidable in the model"

/-- the state `path(f)` evaluates `f` on: a new tracking context rooted at the current value -/
def pathStart (fuel : Nat) (s : St) : St :=
  let rootId : Ident := match s.id with
    | .known r p => .known r p
    | _ => .known (fuel + 1) []
  { v := s.v, id := rootId, ctx := some { path := [], w := s.v, wid := rootId } }

/-- `getpath(p)` given the evaluated argument `pv` -/
def getpathEmit (s pv : St) : Res :=
  match pv.v with
  | .arr path =>
    match getpathV s.v path with
    | .error e => .fail e
    | .ok w =>
      match s.ctx with
      | none => .one { v := w, id := path.foldl childIdent s.id, ctx := none }
      | some c =>
        match pathIntact s c with
        | some true =>
          let wid := path.foldl childIdent c.wid
          .one { v := w, id := wid, ctx := some { path := c.path ++ path, w := w, wid := wid } }
        | some false => .fail (.builtin "invalidPath" [s.v])
        | none => .unmodelled "pathIntact: pointer identity not decidable in the model"
  | _ => .fail (errFunc1 "getpath" s.v pv.v)

/-- the special forms and natives of `evalCall` (its last branch), verbatim -/
def nativeCall (fuel : Nat) (cfg : Cfg) (env : Env) (name : String) (args : List Query) (s : St) : Res :=
  match name, args with
  | "empty", [] => .empty
  | "env", [] => .one (computed s (.obj []))
  | "not", [] => .one (computed s (.bool (isFalsy s.v)))
  | "path", [f] => (eval fuel cfg env f (pathStart fuel s)).bind fun x => pathEmit s x
  | "getpath", [p] => (eval fuel cfg env p (withCtx none s)).bind fun pv => getpathEmit s pv
  | "_range", [a, b, c] =>
    (eval fuel cfg env c s).bind fun cv =>
      (eval fuel cfg env b { s with ctx := cv.ctx }).bind fun bv =>
        (eval fuel cfg env a { s with ctx := bv.ctx }).bind fun av =>
          let isNum (v : JV) := match v with | .num _ => true | _ => false
          if !isNum av.v then .fail (errFunc0 "range" av.v)
          else if !isNum bv.v then .fail (errFunc0 "range" bv.v)
          else if !isNum cv.v then .fail (errFunc0 "range" cv.v)
          else match rangeList (fuel * 4 + 64) av.v bv.v cv.v with
            | some xs => ⟨xs.map fun x => computed av x, .done⟩
            | none => .outOfFuel
  | "_last", [g] =>
    let r := eval fuel cfg env g s
    (match r.stop with
     | .done => (match r.outs.getLast? with
       | some l => .one l
       | none => .empty)
     | st => ⟨[], st⟩)
  | "setpath", [p, v] =>
    (eval fuel cfg env v s).bind fun nv =>
      (eval fuel cfg env p { s with ctx := nv.ctx }).bind fun pv =>
        match pv.v with
        | .arr path =>
          (match setpathV s.v path nv.v with
           | .ok u => .one (computed pv u)
           | .error (.builtin "UNMODELLED" _) => .unmodelled "setpath"
           | .error e => .fail e)
        | other => .fail (errFunc1 "setpath" s.v other)
  | "input", [] | "inputs", [] | "debug", _ | "stderr", _ | "input_line_number", _
  | "now", _ | "localtime", _ | "builtins", _ | "modulemeta", _ | "halt_error", _ | "$__prog_args", _ =>
    .unmodelled s!"{name}: ambient or option-dependent"
  | _, _ =>
    evalArgsK (fun a ctx => eval fuel cfg env a { s with ctx := ctx }) args.reverse s.ctx [] fun vals ctx =>
      nativeRes { s with ctx := ctx } name (callNative name s.v vals) (s.v :: vals)

theorem evalCall_succ (fuel : Nat) (cfg : Cfg) (env : Env) (name : String) (args : List Query) (s : St) :
    evalCall (fuel+1) cfg env name args s =
      match lookupCall name args.length env.bs with
      | .var v id => .one { v := v, id := id, ctx := s.ctx }
      | .clo body cenv => eval fuel cfg cenv body s
      | .fn params body fenv _ => callDef fuel cfg env fenv params body args s
      | .none =>
        if name.startsWith "$" then
          if name == "$ENV" then .one (computed s (.obj []))
          else if name == "$__loc__" then .unmodelled "$__loc__"
          else .unmodelled s!"variable {name} not defined (compile error)"
        else
        match cfg.builtins.find name args.length with
        | some d =>
          callDef fuel cfg env (Env.empty.push (.fn d.name d.params d.body true)) d.params d.body args s
        | none => nativeCall fuel cfg env name args s := rfl

theorem callDef_succ (fuel : Nat) (cfg : Cfg) (callerEnv fenv : Env) (params : List String) (body : Query)
    (args : List Query) (s : St) :
    callDef (fuel+1) cfg callerEnv fenv params body args s =
      let envClo := (params.zip args).foldl (fun e (p, a) =>
        e.push (.clo (if p.startsWith "$" then dropFirst p else p) a callerEnv)) fenv
      let valueParams := (params.zip args).filter fun (p, _) => p.startsWith "$"
      bindValsK (fun a => eval fuel cfg callerEnv a (withCtx none s)) (fun env' => eval fuel cfg env' body s)
        valueParams envClo := rfl

/-! ### update operators -/

/-- `l = r` when `l` is the constant path `path`, for one output `x` of `r` -/
def assignConst (s : St) (path : List JV) (x : St) : Res :=
  match path.foldlM (fun w k => funcIndex2 w k) s.v with
  | .error e => .fail e
  | .ok _ =>
    match setpathV s.v path x.v with
    | .ok v => .one (resultOf [s.v, x.v] x v)
    | .error (.builtin "UNMODELLED" _) => .unmodelled "setpath"
    | .error e => .fail e

/-- `l = r` through the enumerated paths, for one output `x` of `r` -/
def assignPaths (s : St) (ps : List (List JV) × Stop) (x : St) : Res :=
  let (paths, pstop) := ps
  let res := paths.foldl (fun (acc : Except Err JV) p =>
    match acc with
    | .error e => .error e
    | .ok v => setpathV v p x.v) (.ok s.v)
  match res with
  | .error (.builtin "UNMODELLED" _) => .unmodelled "setpath"
  | .error e => .fail e
  | .ok v =>
    match pstop with
    | .done => .one (if paths.isEmpty then s else resultOf [s.v, x.v] s v)
    | st => ⟨[], st⟩

theorem evalAssign_succ (fuel : Nat) (cfg : Cfg) (env : Env) (l r : Query) (s : St) :
    evalAssign (fuel+1) cfg env l r s =
      match constPath l with
      | some path => (eval fuel cfg env r s).bind fun x => assignConst s path x
      | none => (eval fuel cfg env r (withCtx none s)).bind fun x =>
          assignPaths s (evalPaths fuel cfg env l s) x := by
  simp only [evalAssign]
  cases constPath l <;> rfl

/-- the end of `l |= f`: the folded value `v`, the paths to delete, how the enumeration ended -/
def modifyFinish (s : St) (paths : List (List JV)) (pstop : Stop)
    (folded : Except Stop (JV × List (List JV))) : Res :=
  match folded with
  | .error st => ⟨[], st⟩
  | .ok (v, dels) =>
    match pstop with
    | .done =>
      (match dels with
       | [] => .one (if paths.isEmpty then s
                     else if paths.any (·.isEmpty) then { v := v, id := .unknown, ctx := s.ctx }
                     else resultOf [s.v] s v)
       | _ :: _ => nativeRes s "delpaths" (callNative "delpaths" v [.arr (dels.map .arr)]) [v])
    | st => ⟨[], st⟩

/-- `l |= f` only LOOKS at the outputs of sub-evaluations for their values: its result is
    `modifyFinish` of some fold -/
theorem evalModify_succ (fuel : Nat) (cfg : Cfg) (env : Env) (l : Query) (f : Query ⊕ (String × JV)) (s : St) :
    ∃ paths pstop folded, evalModify (fuel+1) cfg env l f s = modifyFinish s paths pstop folded := by
  simp only [evalModify]
  rcases evalPaths fuel cfg env l s with ⟨paths, pstop⟩
  exact ⟨paths, pstop, _, rfl⟩

theorem evalArithUpdate_succ (fuel : Nat) (cfg : Cfg) (env : Env) (name : String) (l r : Query) (s : St) :
    evalArithUpdate (fuel+1) cfg env name l r s =
      (eval fuel cfg env r (withCtx none s)).bind fun x =>
        evalModify fuel cfg env l (.inr (name, x.v)) s := rfl

theorem evalPaths_succ (fuel : Nat) (cfg : Cfg) (env : Env) (l : Query) (s : St) :
    evalPaths (fuel+1) cfg env l s =
      let r := evalCall fuel cfg env "path" [l] (withCtx none s)
      if r.outs.any (·.pend) then ([], .unmodelled "update through paths emitted under a pending `?//` alternative")
      else (r.outs.map fun o => match o.v with | .arr p => p | _ => [], r.stop) := rfl

end Gojq.Spec

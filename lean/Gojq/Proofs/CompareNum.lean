/-
  Helper lemmas for C11, part 1: numbers.  `float64(z)` (`roundInt`) is exact below 2^53 and keeps
  magnitude ≥ 2^53 above, hence on the property's domain `cmpNum` is the order of the exact values.
  Core Lean only.
-/
import Gojq.Model.Compare
namespace Gojq

theorem pow2_natCast (k : Nat) : pow2 (k : Int) = ((2 ^ k : Nat) : Rat) := by
  unfold pow2
  rw [Rat.zpow_natCast]
  simp [Rat.natCast_pow]

theorem pow2_pos (e : Int) : 0 < pow2 e := Rat.zpow_pos (by decide)

theorem pow2_add (a b : Int) : pow2 (a + b) = pow2 a * pow2 b := Rat.zpow_add (by decide) a b

theorem ilog2_natCast (n : Nat) (h : 1 ≤ n) : ilog2 (n : Rat) = (Nat.log2 n : Int) := by
  unfold ilog2
  have h1 : Nat.log2 1 = 0 := by decide
  simp only [Rat.num_natCast, Rat.den_natCast, Int.toNat_natCast, h1]
  have : pow2 ((n.log2 : Int) - ((0 : Nat) : Int)) ≤ (n : Rat) := by
    simp only [Int.natCast_zero, Int.sub_zero]
    rw [pow2_natCast]
    exact Rat.natCast_le_natCast.mpr (Nat.log2_self_le (by omega))
  simp only [this, if_true]
  simp
theorem roundHalfEven_intCast (k : Int) : roundHalfEven (k : Rat) = k := by
  unfold roundHalfEven
  simp only [Rat.floor_intCast]
  have : ((k : Rat) - (k : Rat)) < 1 / 2 := by grind
  simp [this]

theorem floor_le_roundHalfEven (m : Rat) : m.floor ≤ roundHalfEven m := by
  unfold roundHalfEven
  simp only []
  split
  · omega
  · split
    · omega
    · split <;> omega

theorem abs_intCast (z : Int) : (if (z : Rat) < 0 then -(z : Rat) else (z : Rat)) = ((z.natAbs : Nat) : Rat) := by
  have h : ((z.natAbs : Nat) : Rat) = ((z.natAbs : Int) : Rat) := rfl
  rw [h]
  split
  · rename_i h
    have : z < 0 := by
      have := (Rat.intCast_lt_intCast (a := z) (b := 0)).mp (by simpa using h)
      exact this
    rw [← Rat.intCast_neg]
    congr 1
    omega
  · rename_i h
    have : ¬ z < 0 := fun hz => h (by
      have := (Rat.intCast_lt_intCast (a := z) (b := 0)).mpr hz
      simpa using this)
    congr 1
    omega

theorem roundInt_eq (z : Int) (hz : z ≠ 0) :
    roundInt z =
      (let u : Int := (Nat.log2 z.natAbs : Int) - 52
       let m := roundHalfEven (((z.natAbs : Nat) : Rat) / pow2 u)
       let r : Rat := (m : Rat) * pow2 u
       if pow2 1024 ≤ r then .inf (decide ((z : Rat) < 0))
       else if m == 0 then (if (z : Rat) < 0 then .nzero else .flt 0)
       else .flt (if (z : Rat) < 0 then -r else r)) := by
  unfold roundInt roundRat
  have h0 : ((z : Rat) == 0) = false := by
    simp [hz]
  simp only [h0, Bool.false_eq_true, if_false]
  rw [abs_intCast, ilog2_natCast _ (by omega)]
  have hu : ulpExp (Nat.log2 z.natAbs : Int) = (Nat.log2 z.natAbs : Int) - 52 := by
    unfold ulpExp
    split
    · omega
    · rfl
  rw [hu]

theorem pow2_neg_natCast (k : Nat) : pow2 (-(k : Int)) = (((2 ^ k : Nat) : Rat))⁻¹ := by
  unfold pow2
  rw [Rat.zpow_neg]
  have := pow2_natCast k
  unfold pow2 at this
  rw [this]

theorem natCast_pos_pow (k : Nat) : (0 : Rat) < ((2 ^ k : Nat) : Rat) :=
  Rat.natCast_pos.mpr (Nat.pow_pos (by decide))

theorem pow2_1024 : pow2 1024 = ((2 ^ 1024 : Nat) : Rat) := pow2_natCast 1024

set_option exponentiation.threshold 1100 in
/-- `float64(z)` is exact below 2^53 -/
theorem roundInt_small (z : Int) (h : z.natAbs < 2 ^ 53) : roundInt z = .flt (z : Rat) := by
  by_cases hz : z = 0
  · subst hz; decide +kernel
  rw [roundInt_eq z hz]
  have hn : z.natAbs ≠ 0 := by omega
  have he : z.natAbs.log2 < 53 := (Nat.log2_lt hn).mpr h
  obtain ⟨k, hk⟩ : ∃ k : Nat, (z.natAbs.log2 : Int) - 52 = -(k : Int) := ⟨52 - z.natAbs.log2, by omega⟩
  simp only [hk]
  rw [pow2_neg_natCast]
  have hp := natCast_pos_pow k
  have hdiv : ((z.natAbs : Nat) : Rat) / (((2 ^ k : Nat) : Rat))⁻¹ = (((z.natAbs * 2 ^ k : Nat) : Int) : Rat) := by
    rw [Rat.div_def, Rat.inv_inv, ← Rat.natCast_mul]; rfl
  rw [hdiv, roundHalfEven_intCast]
  have hr : ((((z.natAbs * 2 ^ k : Nat) : Int) : Rat)) * (((2 ^ k : Nat) : Rat))⁻¹ = ((z.natAbs : Nat) : Rat) := by
    have : ((((z.natAbs * 2 ^ k : Nat) : Int) : Rat)) = ((z.natAbs : Nat) : Rat) * ((2 ^ k : Nat) : Rat) := by
      rw [← Rat.natCast_mul]; rfl
    rw [this, Rat.mul_assoc, Rat.mul_inv_cancel _ (Rat.ne_of_gt hp), Rat.mul_one]
  rw [hr]
  have h1 : ¬ pow2 1024 ≤ ((z.natAbs : Nat) : Rat) := by
    rw [pow2_1024, Rat.natCast_le_natCast]
    have : (2:Nat) ^ 53 < 2 ^ (1024 : Nat) := Nat.pow_lt_pow_right (by decide) (by decide)
    omega
  have h2 : ((((z.natAbs * 2 ^ k : Nat) : Int)) == 0) = false := by
    have : 0 < z.natAbs * 2 ^ k := Nat.mul_pos (by omega) (Nat.pow_pos (by decide))
    rw [beq_eq_false_iff_ne]
    generalize z.natAbs * 2 ^ k = w at this
    omega
  simp only [h1, h2, if_false, Bool.false_eq_true]
  congr 1
  rw [← abs_intCast]
  split <;> simp
/-- `float64(z)` / `bigToFloat(z)` of an integer of magnitude ≥ 2^53 has magnitude ≥ 2^53 (or overflows) -/
theorem roundInt_large (z : Int) (h : 2 ^ 53 ≤ z.natAbs) :
    roundInt z = .inf (decide ((z : Rat) < 0)) ∨
    ∃ r : Rat, ((2 ^ 53 : Nat) : Rat) ≤ r ∧ roundInt z = .flt (if (z : Rat) < 0 then -r else r) := by
  have hz : z ≠ 0 := by
    intro h0; subst h0; simp at h
  rw [roundInt_eq z hz]
  have hn : z.natAbs ≠ 0 := by omega
  have he : 53 ≤ z.natAbs.log2 := (Nat.le_log2 hn).mpr h
  obtain ⟨k, hk, hk1⟩ : ∃ k : Nat, (z.natAbs.log2 : Int) - 52 = (k : Int) ∧ k + 52 = z.natAbs.log2 :=
    ⟨z.natAbs.log2 - 52, by omega, by omega⟩
  simp only [hk]
  rw [pow2_natCast]
  have hp := natCast_pos_pow k
  generalize hm : roundHalfEven (((z.natAbs : Nat) : Rat) / ((2 ^ k : Nat) : Rat)) = m
  -- m ≥ 2^52
  have hm52 : ((2 ^ 52 : Nat) : Int) ≤ m := by
    rw [← hm]
    refine Int.le_trans ?_ (floor_le_roundHalfEven _)
    rw [Rat.le_floor_iff]
    have h1 : (((2 ^ 52 : Nat) : Int) : Rat) = ((2 ^ 52 : Nat) : Rat) := rfl
    rw [h1]
    have h2 : ((2 ^ 52 : Nat) : Rat) * ((2 ^ k : Nat) : Rat) ≤ ((z.natAbs : Nat) : Rat) := by
      rw [← Rat.natCast_mul, Rat.natCast_le_natCast, ← Nat.pow_add, Nat.add_comm, hk1]
      exact Nat.log2_self_le hn
    have h3 := Rat.mul_le_mul_of_nonneg_right h2 (Rat.le_of_lt (Rat.inv_pos.mpr hp))
    rw [Rat.mul_assoc, Rat.mul_inv_cancel _ (Rat.ne_of_gt hp), Rat.mul_one] at h3
    exact h3
  have hk2 : (2 : Nat) ≤ 2 ^ k := by
    have : 2 ^ 1 ≤ 2 ^ k := Nat.pow_le_pow_right (by decide) (by omega)
    simpa using this
  have hr : ((2 ^ 53 : Nat) : Rat) ≤ (m : Rat) * ((2 ^ k : Nat) : Rat) := by
    have a1 : (((2 ^ 52 : Nat) : Int) : Rat) ≤ (m : Rat) := Rat.intCast_le_intCast.mpr hm52
    have a2 : ((2 : Nat) : Rat) ≤ ((2 ^ k : Nat) : Rat) := Rat.natCast_le_natCast.mpr hk2
    have a3 := Rat.mul_le_mul_of_nonneg_right a1 (Rat.le_of_lt hp)
    have a4 := Rat.mul_le_mul_of_nonneg_left a2 (c := (((2 ^ 52 : Nat) : Int) : Rat)) (by decide)
    have a5 : (((2 ^ 52 : Nat) : Int) : Rat) * ((2 : Nat) : Rat) = ((2 ^ 53 : Nat) : Rat) := by decide +kernel
    rw [a5] at a4
    exact Rat.le_trans a4 a3
  split
  · left; rfl
  · right
    have hm0 : (m == 0) = false := by
      rw [beq_eq_false_iff_ne]
      have : (0:Int) < ((2 ^ 52 : Nat) : Int) := by decide
      omega
    simp only [hm0, Bool.false_eq_true, if_false]
    exact ⟨_, hr, rfl⟩

/-- a finite float carrier -/
def Num.finF : Num → Bool
  | .flt _ => true
  | .nzero => true
  | _ => false

theorem cmpFloat_fin (a b : Num) (ha : a.finF) (hb : b.finF) : cmpFloat a b = cmpRat a.val b.val := by
  cases a <;> cases b <;> simp [Num.finF] at ha hb <;>
    first
    | decide
    | (simp only [Num.val]
       unfold cmpFloat cmpRat
       simp only [fltLt, fltEq, Num.isNaN, Num.toRat?, Bool.or_false, decide_eq_true_eq])

theorem cmpInt_eq_cmpRat (l r : Int) : cmpInt l r = cmpRat (l : Rat) (r : Rat) := by
  unfold cmpInt cmpRat
  simp only [Rat.intCast_lt_intCast, Rat.intCast_inj]

theorem cmpFloat_neginf (b : Num) (hb : b.finF) : cmpFloat (.inf true) b = .lt := by
  cases b <;> simp [Num.finF] at hb <;> simp [cmpFloat, fltLt, Num.isNaN]
theorem cmpFloat_posinf (b : Num) (hb : b.finF) : cmpFloat (.inf false) b = .gt := by
  cases b <;> simp [Num.finF] at hb <;> simp [cmpFloat, fltLt, fltEq, Num.isNaN]
theorem cmpFloat_neginf_r (b : Num) (hb : b.finF) : cmpFloat b (.inf true) = .gt := by
  cases b <;> simp [Num.finF] at hb <;> simp [cmpFloat, fltLt, fltEq, Num.isNaN]
theorem cmpFloat_posinf_r (b : Num) (hb : b.finF) : cmpFloat b (.inf false) = .lt := by
  cases b <;> simp [Num.finF] at hb <;> simp [cmpFloat, fltLt, Num.isNaN]


theorem tame_fin (b : Num) (hb : b.tame) : (∃ z, b = .int z) ∨ (b.finF ∧ -(two53 : Rat) < b.val ∧ b.val < (two53 : Rat)) := by
  cases b with
  | int z => exact Or.inl ⟨z, rfl⟩
  | flt q => simp [Num.tame] at hb; exact Or.inr ⟨rfl, hb.1, hb.2⟩
  | nzero => exact Or.inr ⟨rfl, by decide, by decide⟩
  | nan => simp [Num.tame] at hb
  | inf s => simp [Num.tame] at hb

theorem cmpRat_lt {x y : Rat} (h : x < y) : cmpRat x y = .lt := by
  unfold cmpRat; simp [h]
theorem cmpRat_gt {x y : Rat} (h : y < x) : cmpRat x y = .gt := by
  unfold cmpRat
  have h1 : ¬ x < y := by grind
  have h2 : ¬ x = y := by grind
  simp [h1, h2]

theorem int_large_neg (z : Int) (h : ¬ z.natAbs < 2 ^ 53) (hz : (z : Rat) < 0) : (z : Rat) ≤ -(two53 : Rat) := by
  have hz' : z < 0 := by
    have := (Rat.intCast_lt_intCast (a := z) (b := 0)).mp (by simpa using hz); exact this
  rw [← Rat.intCast_neg, Rat.intCast_le_intCast]; unfold two53; omega

theorem int_large_pos (z : Int) (h : ¬ z.natAbs < 2 ^ 53) (hz : ¬ (z : Rat) < 0) : (two53 : Rat) ≤ (z : Rat) := by
  have hz' : ¬ z < 0 := fun h' => hz (by
    have := (Rat.intCast_lt_intCast (a := z) (b := 0)).mpr h'; simpa using this)
  rw [Rat.intCast_le_intCast]; unfold two53; omega

theorem two53_cast : ((2 ^ 53 : Nat) : Rat) = (two53 : Rat) := by decide +kernel

theorem cmpFloat_roundInt_left (z : Int) (b : Num) (hb : b.finF)
    (h1 : -(two53 : Rat) < b.val) (h2 : b.val < (two53 : Rat)) :
    cmpFloat (roundInt z) b = cmpRat (z : Rat) b.val := by
  by_cases hs : z.natAbs < 2 ^ 53
  · rw [roundInt_small z hs, cmpFloat_fin _ _ rfl hb]; rfl
  · rcases roundInt_large z (by omega) with h | ⟨r, hr, h⟩
    · rw [h]
      by_cases hz : (z : Rat) < 0
      · have := int_large_neg z hs hz
        simp only [hz, decide_true]
        rw [cmpFloat_neginf _ hb]
        generalize b.val = y at *
        rw [cmpRat_lt (by grind)]
      · have := int_large_pos z hs hz
        simp only [hz, decide_false]
        rw [cmpFloat_posinf _ hb]
        generalize b.val = y at *
        rw [cmpRat_gt (by grind)]
    · rw [h, cmpFloat_fin _ _ rfl hb]
      rw [two53_cast] at hr
      show cmpRat (if (z : Rat) < 0 then -r else r) b.val = cmpRat (z : Rat) b.val
      generalize b.val = y at *
      by_cases hz : (z : Rat) < 0
      · have := int_large_neg z hs hz
        simp only [hz, if_true]
        rw [cmpRat_lt (by grind), cmpRat_lt (by grind)]
      · have := int_large_pos z hs hz
        simp only [hz, if_false]
        rw [cmpRat_gt (by grind), cmpRat_gt (by grind)]

theorem cmpFloat_roundInt_right (z : Int) (b : Num) (hb : b.finF)
    (h1 : -(two53 : Rat) < b.val) (h2 : b.val < (two53 : Rat)) :
    cmpFloat b (roundInt z) = cmpRat b.val (z : Rat) := by
  by_cases hs : z.natAbs < 2 ^ 53
  · rw [roundInt_small z hs, cmpFloat_fin _ _ hb rfl]; rfl
  · rcases roundInt_large z (by omega) with h | ⟨r, hr, h⟩
    · rw [h]
      by_cases hz : (z : Rat) < 0
      · have := int_large_neg z hs hz
        simp only [hz, decide_true]
        rw [cmpFloat_neginf_r _ hb]
        generalize b.val = y at *
        rw [cmpRat_gt (by grind)]
      · have := int_large_pos z hs hz
        simp only [hz, decide_false]
        rw [cmpFloat_posinf_r _ hb]
        generalize b.val = y at *
        rw [cmpRat_lt (by grind)]
    · rw [h, cmpFloat_fin _ _ hb rfl]
      rw [two53_cast] at hr
      show cmpRat b.val (if (z : Rat) < 0 then -r else r) = cmpRat b.val (z : Rat)
      generalize b.val = y at *
      by_cases hz : (z : Rat) < 0
      · have := int_large_neg z hs hz
        simp only [hz, if_true]
        rw [cmpRat_gt (by grind), cmpRat_gt (by grind)]
      · have := int_large_pos z hs hz
        simp only [hz, if_false]
        rw [cmpRat_lt (by grind), cmpRat_lt (by grind)]

theorem toFlt_fin (b : Num) (hb : b.finF) : b.toFlt = b := by
  cases b <;> simp [Num.finF] at hb <;> rfl

/-- on the property's domain `Compare` on numbers is the order of the exact values -/
theorem cmpNum_exact (a b : Num) (ha : a.tame) (hb : b.tame) : cmpNum a b = cmpRat a.val b.val := by
  rcases tame_fin a ha with ⟨l, rfl⟩ | ⟨fa, a1, a2⟩ <;> rcases tame_fin b hb with ⟨r, rfl⟩ | ⟨fb, b1, b2⟩
  · exact cmpInt_eq_cmpRat l r
  · have : cmpNum (.int l) b = cmpFloat (roundInt l) b := by
      cases b <;> simp [Num.finF] at fb <;> rfl
    rw [this, cmpFloat_roundInt_left l b fb b1 b2]; rfl
  · have : cmpNum a (.int r) = cmpFloat a (roundInt r) := by
      cases a <;> simp [Num.finF] at fa <;> rfl
    rw [this, cmpFloat_roundInt_right r a fa a1 a2]; rfl
  · have : cmpNum a b = cmpFloat a b := by
      cases a <;> simp [Num.finF] at fa <;> cases b <;> simp [Num.finF] at fb <;> rfl
    rw [this, cmpFloat_fin a b fa fb]
end Gojq

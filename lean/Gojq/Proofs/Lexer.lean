/-
  Helper lemmas about the lexer model (Model/Lexer.lean): every scanner stays inside the unread
  source, `next` never performs its unchecked index on an exhausted source, hence `lex` only
  moves forward inside the source and never panics.  Core Lean only.
-/
import Gojq.Model.Lexer
namespace Gojq.Lexer
open Gojq

theorem identLen_le (r : Bytes) : identLen r ≤ r.length := by
  induction r with
  | nil => simp [identLen]
  | cons c r ih => simp only [identLen]; split <;> simp <;> omega

theorem scanIdentOrModule_le (r : Bytes) : (scanIdentOrModule r).1 ≤ r.length := by
  have h1 := identLen_le r
  simp only [scanIdentOrModule]
  split
  · rename_i c r2 heq
    have hl : (r.drop (identLen r)).length = (58 :: 58 :: c :: r2).length := by rw [heq]
    simp at hl
    have h2 := identLen_le r2
    split <;> simp <;> omega
  · simpa using h1

theorem scanNumber_le (st : NumState) (r : Bytes) : (scanNumber st r).1 ≤ r.length := by
  induction r generalizing st with
  | nil => cases st <;> simp [scanNumber]
  | cons c r ih =>
    unfold scanNumber
    have h1 := ih .lead; have h2 := ih .float; have h3 := ih .expSign; have h4 := ih .expLead; have h5 := ih .exp
    have h6 := ih st
    cases st <;> simp <;> (repeat' split) <;> simp_all <;> omega

theorem hexPrefix_le (r : Bytes) : hexPrefix r ≤ r.length := by
  unfold hexPrefix
  repeat' split
  all_goals simp <;> omega

/-- what `scanString` promises about the positions it reports (`tot` = scan start + unread length) -/
def StrScan.inBounds (tot : Nat) : StrScan → Prop
  | .invalidEscape e l => e ≤ tot ∧ l ≤ e
  | .interp j => j + 2 ≤ tot
  | .quote j => j + 1 ≤ tot
  | .unterminated => True

theorem scanString_bounds (r : Bytes) (k : Nat) : ∀ tot, k + r.length ≤ tot → (scanString r k).inBounds tot := by
  fun_induction scanString r k <;> intro tot htot <;> (try simp only [List.length_cons] at htot)
  all_goals first
    | (rename_i ih; exact ih tot (by omega))
    | (simp only [StrScan.inBounds]; omega)
    | trivial
    | (simp only [StrScan.inBounds]
       refine ⟨Nat.le_trans (Nat.add_le_add_left (hexPrefix_le _) _) ?_, by omega⟩
       (try simp only [List.length_cons]); omega)

def Next.inBounds (n tot : Nat) : Next → Prop
  | .char _ w => n < w ∧ w ≤ tot
  | .eof m => m ≤ tot
  | .panic => False

theorem inBounds_mono {n n' tot : Nat} {x : Next} (h : x.inBounds n' tot) (hn : n ≤ n') : x.inBounds n tot := by
  cases x <;> simp only [Next.inBounds] at * <;> omega

theorem nextAux_bounds (mode : Mode) (r : Bytes) (n : Nat) :
    (mode = .normal → r ≠ []) → ∀ tot, n + r.length ≤ tot → (nextAux mode r n).inBounds n tot := by
  fun_induction nextAux mode r n <;> intro hne tot htot <;> (try simp only [List.length_cons] at htot)
  all_goals first
    | (exfalso; exact hne rfl rfl)
    | (simp only [Next.inBounds]; omega)
    | (rename_i ih
       refine inBounds_mono (ih ?_ tot (by omega)) (by omega)
       first | (intro _ h; simp_all; done) | (intro h; cases h; done))

theorem decodeRune_width (c : UInt8) (r : Bytes) :
    1 ≤ (Utf8.decodeRune (c :: r)).2.1 ∧ (Utf8.decodeRune (c :: r)).2.1 ≤ r.length + 1 := by
  simp only [Utf8.decodeRune]
  repeat' split
  all_goals simp_all <;> omega

theorem scanStringTok_le (b : Bool) (o : Option UInt8) (r : Bytes) : (scanStringTok b o r).n ≤ r.length := by
  have h := scanString_bounds r 0 r.length (by omega)
  simp only [scanStringTok]
  split <;> simp only [StrScan.inBounds, *] at h <;> (repeat' split) <;> simp_all <;> omega

theorem peek_pos {r : Bytes} {c : UInt8} (h : (peek r == c) = true) (hc : c ≠ 0) : 1 ≤ r.length := by
  cases r with
  | nil => simp [peek] at h; exact absurd h.symm hc
  | cons _ _ => simp

theorem peek_pos2 {r : Bytes} {c d : UInt8} (h : (peek r == c) = true) (h2 : (peek (r.drop 1) == d) = true)
    (hd : d ≠ 0) : 2 ≤ r.length := by
  cases r with
  | nil => simp [peek] at h2; exact absurd h2.symm hd
  | cons _ r =>
    cases r with
    | nil => simp [peek] at h2; exact absurd h2.symm hd
    | cons _ _ => simp

theorem ite_n_le {c : Prop} [Decidable c] {a b : Scan} {m : Nat} (ha : c → a.n ≤ m) (hb : ¬c → b.n ≤ m) :
    (if c then a else b).n ≤ m := by
  split
  · exact ha ‹_›
  · exact hb ‹_›

theorem scanTok_le (b : Bool) (ch : UInt8) (r : Bytes) : (scanTok b ch r).n ≤ r.length := by
  have h1 := identLen_le r
  have h2 := scanIdentOrModule_le r
  have h3 := scanNumber_le .lead r
  have h4 := scanNumber_le .float r
  have h5 := scanStringTok_le b (some ch) r
  have h6 := (decodeRune_width ch r).2
  simp only [scanTok]
  repeat' (apply ite_n_le <;> intro _)
  all_goals first
    | exact h5
    | exact Nat.sub_le_of_le_add h6
    | (dsimp only; omega)
    | (simp only [List.length_cons, List.length_nil]; omega)
    | (simp only [List.length_cons, List.length_nil]
       have := peek_pos2 ‹(peek r == _) = true› ‹(peek (List.drop 1 r) == _) = true› (by decide); omega)
    | (simp only [List.length_cons, List.length_nil]; have := peek_pos ‹(peek r == _) = true› (by decide); omega)
    | (simp only [List.length_cons, List.length_nil]
       rename_i hh; simp only [Bool.and_eq_true] at hh
       have := peek_pos2 hh.1 hh.2 (by decide); omega)


theorem commit_conserves (s : LState) (w : Nat) (sc : Scan) (h : w + sc.n ≤ s.rest.length) :
    (commit s w sc).2.2.offset + (commit s w sc).2.2.rest.length = s.offset + s.rest.length := by
  simp only [commit, List.length_drop]; omega

theorem next_bounds (r : Bytes) (h : r ≠ []) : (next r).inBounds 0 r.length :=
  nextAux_bounds .normal r 0 (fun _ => h) r.length (by omega)

/-- Lex only moves forward inside the source: consumed + unread is invariant -/
theorem lex_conserves (s : LState) :
    (lex s).2.2.offset + (lex s).2.2.rest.length = s.offset + s.rest.length := by
  unfold lex
  split
  · exact commit_conserves s 0 _ (by simp)
  · split
    · exact commit_conserves s 0 _ (by have := scanStringTok_le true none s.rest; omega)
    · rename_i hne _
      have hb := next_bounds s.rest (by intro h; simp [h] at hne)
      split
      · rename_i heq; rw [heq] at hb; (try exact hb.elim)
      · rename_i n heq; rw [heq] at hb; exact commit_conserves s n _ (by simpa [Next.inBounds] using hb)
      · rename_i ch w heq
        rw [heq] at hb
        have := scanTok_le s.inString ch (s.rest.drop w)
        simp only [List.length_drop] at this
        exact commit_conserves s w _ (by simp only [Next.inBounds] at hb; omega)

/-- the unchecked index `l.source[l.offset]` of `next` is never reached with an exhausted source -/
theorem lex_total (s : LState) (h : s.panicked = false) : (lex s).2.2.panicked = false := by
  unfold lex
  split
  · simpa [commit] using h
  · split
    · simpa [commit] using h
    · rename_i hne _
      have hb := next_bounds s.rest (by intro h; simp [h] at hne)
      split
      · rename_i heq; rw [heq] at hb; (try exact hb.elim)
      · simpa [commit] using h
      · simpa [commit] using h

open Gojq.Generated.Lalr

/-- the new `l.token` (if Lex assigns it) fits into `m` + the bytes the scan consumed -/
def Scan.tokOk (m : Nat) (sc : Scan) : Prop := ∀ t, sc.token = some t → t.length ≤ m + sc.n

theorem ite_tokOk {c : Prop} [Decidable c] {a b : Scan} {m : Nat} (ha : c → a.tokOk m) (hb : ¬c → b.tokOk m) :
    (if c then a else b).tokOk m := by
  split
  · exact ha ‹_›
  · exact hb ‹_›

theorem scanStringTok_tokOk (b : Bool) (o : Option UInt8) (r : Bytes) :
    (scanStringTok b o r).tokOk (if o.isSome then 1 else 0) := by
  have h := scanString_bounds r 0 r.length (by omega)
  simp only [scanStringTok]
  cases hs : scanString r 0 <;> rw [hs] at h <;> simp only [StrScan.inBounds] at h <;> simp only [] <;>
    (repeat' split) <;> intro t ht <;>
    simp only [Option.some.injEq, reduceCtorEq] at ht <;> (try subst ht) <;>
    (try simp [List.length_take]) <;> (try omega) <;> (try (exfalso; simp_all; done))

theorem scanStringTok_ty (b : Bool) (o : Option UInt8) (r : Bytes) : 128 ≤ (scanStringTok b o r).ty := by
  simp only [scanStringTok]
  repeat' split
  all_goals (dsimp only; decide)

theorem scanTok_tokOk (b : Bool) (ch : UInt8) (r : Bytes) : (scanTok b ch r).tokOk 1 := by
  have h5 : (scanStringTok b (some ch) r).tokOk 1 := by simpa using scanStringTok_tokOk b (some ch) r
  simp only [scanTok]
  repeat' (apply ite_tokOk <;> intro _)
  all_goals first
    | exact h5
    | (intro t ht; simp only [Option.some.injEq, reduceCtorEq] at ht; done)
    | (intro t ht; simp only [Option.some.injEq] at ht; subst ht
       simp [List.length_take] <;> omega)


/-- the recorded token fits before the recorded offset -/
def TokInv (s : LState) : Prop := s.token.length ≤ s.offset

/-- holds once `Lex` has run: a single-byte token type means at least one byte was consumed -/
def Read (s : LState) : Prop := s.tokenType ≠ eof → s.tokenType < 128 → 1 ≤ s.offset

theorem commit_tokInv (s : LState) (w m : Nat) (sc : Scan) (h : TokInv s) (hm : m ≤ w) (hsc : sc.tokOk m) :
    TokInv (commit s w sc).2.2 := by
  simp only [commit, TokInv] at *
  cases ht : sc.token with
  | none => simp; omega
  | some t => have := hsc t ht; simp; omega

theorem lex_tokInv (s : LState) (h : TokInv s) : TokInv (lex s).2.2 ∧ Read (lex s).2.2 := by
  unfold lex
  split
  · exact ⟨commit_tokInv s 0 0 _ h (by omega) (by intro t ht; simp at ht; subst ht; simp), by simp [commit, Read]⟩
  · split
    · refine ⟨commit_tokInv s 0 0 _ h (by omega) (by simpa using scanStringTok_tokOk true none s.rest), ?_⟩
      have := scanStringTok_ty true none s.rest
      simp only [commit, Read]; intro _ h2; omega
    · rename_i hne _
      have hb := next_bounds s.rest (by intro h; simp [h] at hne)
      split
      · rename_i heq; rw [heq] at hb; (try exact hb.elim)
      · exact ⟨commit_tokInv s _ 0 _ h (by omega) (by intro t ht; simp at ht; subst ht; simp), by simp [commit, Read]⟩
      · rename_i ch w heq
        rw [heq] at hb
        simp only [Next.inBounds] at hb
        refine ⟨commit_tokInv s w 1 _ h (by omega) (scanTok_tokOk _ _ _), ?_⟩
        simp only [commit, Read]; intro _ _; omega

theorem parseError_token_le (s : LState) (h : TokInv s) (hr : Read s) :
    (parseError s).token.length ≤ (parseError s).offset := by
  simp only [parseError]
  split
  · rename_i hc
    simp only [Bool.and_eq_true, bne_iff_ne, ne_eq, decide_eq_true_eq] at hc
    simpa using hr hc.1 hc.2
  · exact h

/-! white space before a token -/

theorem white_ne_hash {w : UInt8} (h : isWhite w = true) : (w == 35) = false := by
  simp only [isWhite, Bool.or_eq_true, beq_iff_eq] at h
  rcases h with ((h | h) | h) | h <;> subst h <;> decide

theorem next_white (g : Bytes) (c : UInt8) (X : Bytes) (n : Nat) (hg : ∀ w ∈ g, isWhite w = true)
    (hc : isWhite c = false) (hh : (c == 35) = false) :
    nextAux .normal (g ++ c :: X) n = .char c (n + g.length + 1) := by
  induction g generalizing n with
  | nil => simp [nextAux, hc, hh]
  | cons w g ih =>
    have hw := hg w (by simp)
    have := ih (n + 1) (fun w' hw' => hg w' (by simp [hw']))
    simp [nextAux, hw, white_ne_hash hw]
    rw [this]; simp only [Next.char.injEq, true_and]; omega

theorem next_white_end (g : Bytes) (n : Nat) (hg : ∀ w ∈ g, isWhite w = true) (hne : g ≠ []) :
    nextAux .normal g n = .eof (n + g.length) := by
  induction g generalizing n with
  | nil => exact absurd rfl hne
  | cons w g ih =>
    have hw := hg w (by simp)
    cases g with
    | nil => simp [nextAux, hw, white_ne_hash hw]
    | cons w2 g2 =>
      have := ih (n + 1) (fun w' hw' => hg w' (by simp [hw'])) (by simp)
      rw [nextAux]
      simp only [beq_self_eq_true, if_true, white_ne_hash hw, Bool.false_eq_true, if_false, hw, Bool.not_true,
        List.isEmpty_cons]
      rw [this]; simp only [List.length_cons, Next.eof.injEq]; omega

end Gojq.Lexer

/-
  Helper lemmas about the lexer model (Model/Lexer.lean): every scanner stays inside the unread
  source, `next` never performs its unchecked index on an exhausted source, hence `lex` only
  moves forward inside the source and never panics.  Core Lean only.
-/
import Gojq.Model.Lexer
namespace Gojq.Lexer
open Gojq

theorem identLen_le (r : Bytes) : identLen r ≤ r.length := by
  induction r with
  | nil => simp [identLen]
  | cons c r ih => simp only [identLen]; split <;> simp <;> omega

theorem scanIdentOrModule_le (r : Bytes) : (scanIdentOrModule r).1 ≤ r.length := by
  have h1 := identLen_le r
  simp only [scanIdentOrModule]
  split
  · rename_i c r2 heq
    have hl : (r.drop (identLen r)).length = (58 :: 58 :: c :: r2).length := by rw [heq]
    simp at hl
    have h2 := identLen_le r2
    split <;> simp <;> omega
  · simpa using h1

theorem scanNumber_le (st : NumState) (r : Bytes) : (scanNumber st r).1 ≤ r.length := by
  induction r generalizing st with
  | nil => cases st <;> simp [scanNumber]
  | cons c r ih =>
    unfold scanNumber
    have h1 := ih .lead; have h2 := ih .float; have h3 := ih .expSign; have h4 := ih .expLead; have h5 := ih .exp
    have h6 := ih st
    cases st <;> simp <;> (repeat' split) <;> simp_all <;> omega

theorem hexPrefix_le (r : Bytes) : hexPrefix r ≤ r.length := by
  unfold hexPrefix
  repeat' split
  all_goals simp <;> omega

/-- what `scanString` promises about the positions it reports (`tot` = scan start + unread length) -/
def StrScan.inBounds (tot : Nat) : StrScan → Prop
  | .invalidEscape e l => e ≤ tot ∧ l ≤ e
  | .interp j => j + 2 ≤ tot
  | .quote j => j + 1 ≤ tot
  | .unterminated => True

theorem scanString_bounds (r : Bytes) (k : Nat) : ∀ tot, k + r.length ≤ tot → (scanString r k).inBounds tot := by
  fun_induction scanString r k <;> intro tot htot <;> (try simp only [List.length_cons] at htot)
  all_goals first
    | (rename_i ih; exact ih tot (by omega))
    | (simp only [StrScan.inBounds]; omega)
    | trivial
    | (simp only [StrScan.inBounds]
       refine ⟨Nat.le_trans (Nat.add_le_add_left (hexPrefix_le _) _) ?_, by omega⟩
       (try simp only [List.length_cons]); omega)

def Next.inBounds (n tot : Nat) : Next → Prop
  | .char _ w => n < w ∧ w ≤ tot
  | .eof m => m ≤ tot
  | .panic => False

theorem inBounds_mono {n n' tot : Nat} {x : Next} (h : x.inBounds n' tot) (hn : n ≤ n') : x.inBounds n tot := by
  cases x <;> simp only [Next.inBounds] at * <;> omega

theorem nextAux_bounds (mode : Mode) (r : Bytes) (n : Nat) :
    (mode = .normal → r ≠ []) → ∀ tot, n + r.length ≤ tot → (nextAux mode r n).inBounds n tot := by
  fun_induction nextAux mode r n <;> intro hne tot htot <;> (try simp only [List.length_cons] at htot)
  all_goals first
    | (exfalso; exact hne rfl rfl)
    | (simp only [Next.inBounds]; omega)
    | (rename_i ih
       refine inBounds_mono (ih ?_ tot (by omega)) (by omega)
       first | (intro _ h; simp_all; done) | (intro h; cases h; done))

theorem decodeRune_width (c : UInt8) (r : Bytes) :
    1 ≤ (Utf8.decodeRune (c :: r)).2.1 ∧ (Utf8.decodeRune (c :: r)).2.1 ≤ r.length + 1 := by
  simp only [Utf8.decodeRune]
  repeat' split
  all_goals simp_all <;> omega

theorem scanStringTok_le (b : Bool) (o : Option UInt8) (r : Bytes) : (scanStringTok b o r).n ≤ r.length := by
  have h := scanString_bounds r 0 r.length (by omega)
  simp only [scanStringTok]
  split <;> simp only [StrScan.inBounds, *] at h <;> (repeat' split) <;> simp_all <;> omega

theorem peek_pos {r : Bytes} {c : UInt8} (h : (peek r == c) = true) (hc : c ≠ 0) : 1 ≤ r.length := by
  cases r with
  | nil => simp [peek] at h; exact absurd h.symm hc
  | cons _ _ => simp

theorem peek_pos2 {r : Bytes} {c d : UInt8} (h : (peek r == c) = true) (h2 : (peek (r.drop 1) == d) = true)
    (hd : d ≠ 0) : 2 ≤ r.length := by
  cases r with
  | nil => simp [peek] at h2; exact absurd h2.symm hd
  | cons _ r =>
    cases r with
    | nil => simp [peek] at h2; exact absurd h2.symm hd
    | cons _ _ => simp

theorem ite_n_le {c : Prop} [Decidable c] {a b : Scan} {m : Nat} (ha : c → a.n ≤ m) (hb : ¬c → b.n ≤ m) :
    (if c then a else b).n ≤ m := by
  split
  · exact ha ‹_›
  · exact hb ‹_›

theorem scanTok_le (b : Bool) (ch : UInt8) (r : Bytes) : (scanTok b ch r).n ≤ r.length := by
  have h1 := identLen_le r
  have h2 := scanIdentOrModule_le r
  have h3 := scanNumber_le .lead r
  have h4 := scanNumber_le .float r
  have h5 := scanStringTok_le b (some ch) r
  have h6 := (decodeRune_width ch r).2
  simp only [scanTok]
  repeat' (apply ite_n_le <;> intro _)
  all_goals first
    | exact h5
    | exact Nat.sub_le_of_le_add h6
    | (dsimp only; omega)
    | (simp only [List.length_cons, List.length_nil]; omega)
    | (simp only [List.length_cons, List.length_nil]
       have := peek_pos2 ‹(peek r == _) = true› ‹(peek (List.drop 1 r) == _) = true› (by decide); omega)
    | (simp only [List.length_cons, List.length_nil]; have := peek_pos ‹(peek r == _) = true› (by decide); omega)
    | (simp only [List.length_cons, List.length_nil]
       rename_i hh; simp only [Bool.and_eq_true] at hh
       have := peek_pos2 hh.1 hh.2 (by decide); omega)


theorem commit_conserves (s : LState) (w : Nat) (sc : Scan) (h : w + sc.n ≤ s.rest.length) :
    (commit s w sc).2.2.offset + (commit s w sc).2.2.rest.length = s.offset + s.rest.length := by
  simp only [commit, List.length_drop]; omega

theorem next_bounds (r : Bytes) (h : r ≠ []) : (next r).inBounds 0 r.length :=
  nextAux_bounds .normal r 0 (fun _ => h) r.length (by omega)

/-- Lex only moves forward inside the source: consumed + unread is invariant -/
theorem lex_conserves (s : LState) :
    (lex s).2.2.offset + (lex s).2.2.rest.length = s.offset + s.rest.length := by
  unfold lex
  split
  · exact commit_conserves s 0 _ (by simp)
  · split
    · exact commit_conserves s 0 _ (by have := scanStringTok_le true none s.rest; omega)
    · rename_i hne _
      have hb := next_bounds s.rest (by intro h; simp [h] at hne)
      split
      · rename_i heq; rw [heq] at hb; (try exact hb.elim)
      · rename_i n heq; rw [heq] at hb; exact commit_conserves s n _ (by simpa [Next.inBounds] using hb)
      · rename_i ch w heq
        rw [heq] at hb
        have := scanTok_le s.inString ch (s.rest.drop w)
        simp only [List.length_drop] at this
        exact commit_conserves s w _ (by simp only [Next.inBounds] at hb; omega)

/-- the unchecked index `l.source[l.offset]` of `next` is never reached with an exhausted source -/
theorem lex_total (s : LState) (h : s.panicked = false) : (lex s).2.2.panicked = false := by
  unfold lex
  split
  · simpa [commit] using h
  · split
    · simpa [commit] using h
    · rename_i hne _
      have hb := next_bounds s.rest (by intro h; simp [h] at hne)
      split
      · rename_i heq; rw [heq] at hb; (try exact hb.elim)
      · simpa [commit] using h
      · simpa [commit] using h

end Gojq.Lexer

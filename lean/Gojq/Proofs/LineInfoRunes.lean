/-
  Helper lemmas for C17, part 2: rune boundaries. `trimLastInvalidRune` on texts made of complete
  runes (`RuneChunk`: byte chunks `utf8.DecodeRune` accepts, U+FFFD excluded), hence what `excerpt`
  returns on valid UTF-8 lines, and the width of such texts.
-/
import Gojq.Proofs.LineInfo
namespace Gojq.Cli
open Gojq

/-- a chunk of bytes that `utf8.DecodeRune` accepts as one complete rune (U+FFFD included) -/
def RuneChunk (c : Bytes) : Prop :=
  c ≠ [] ∧ (Utf8.decodeRune c).2 = (c.length, true)

theorem isCont_iff (b : UInt8) : Utf8.isCont b = true ↔ 0x80 ≤ b.toNat ∧ b.toNat ≤ 0xBF := by
  simp [Utf8.isCont]

/-! `decodeRune` by the range of the lead byte -/
theorem dr_ascii (b0 : UInt8) (rest : Bytes) (h : b0.toNat < 0x80) :
    Utf8.decodeRune (b0 :: rest) = (b0.toNat, 1, true) := by
  unfold Utf8.decodeRune; simp only; rw [if_pos h]

theorem dr_bad (b0 : UInt8) (rest : Bytes) (h : 0x80 ≤ b0.toNat) (h' : b0.toNat < 0xC2 ∨ 0xF5 ≤ b0.toNat) :
    Utf8.decodeRune (b0 :: rest) = (Utf8.runeError, 1, false) := by
  unfold Utf8.decodeRune; simp only
  rcases h' with h' | h'
  · rw [if_neg (by omega), if_pos h']
  · rw [if_neg (by omega), if_neg (by omega), if_neg (by omega), if_neg (by omega), if_neg (by omega)]

theorem dr_two_short (b0 : UInt8) (h : 0xC2 ≤ b0.toNat) (h' : b0.toNat < 0xE0) :
    Utf8.decodeRune [b0] = (Utf8.runeError, 1, false) := by
  unfold Utf8.decodeRune; simp only
  rw [if_neg (by omega), if_neg (by omega), if_pos h']

theorem dr_two (b0 b1 : UInt8) (t : Bytes) (h : 0xC2 ≤ b0.toNat) (h' : b0.toNat < 0xE0) :
    Utf8.decodeRune (b0 :: b1 :: t) =
      if Utf8.isCont b1 then ((b0.toNat % 32) * 64 + b1.toNat % 64, 2, true) else (Utf8.runeError, 1, false) := by
  unfold Utf8.decodeRune; simp only
  rw [if_neg (by omega), if_neg (by omega), if_pos h']

theorem dr_three_short (b0 : UInt8) (rest : Bytes) (hr : rest.length ≤ 1) (h : 0xE0 ≤ b0.toNat) (h' : b0.toNat < 0xF0) :
    Utf8.decodeRune (b0 :: rest) = (Utf8.runeError, 1, false) := by
  unfold Utf8.decodeRune; simp only
  rw [if_neg (by omega), if_neg (by omega), if_neg (by omega), if_pos h']
  match rest, hr with
  | [], _ => rfl
  | [_], _ => rfl

def cond3 (b0 b1 b2 : UInt8) : Bool :=
  (if b0.toNat == 0xE0 then 0xA0 else 0x80) ≤ b1.toNat && b1.toNat ≤ (if b0.toNat == 0xED then 0x9F else 0xBF) && Utf8.isCont b2

def cond4 (b0 b1 b2 b3 : UInt8) : Bool :=
  (if b0.toNat == 0xF0 then 0x90 else 0x80) ≤ b1.toNat && b1.toNat ≤ (if b0.toNat == 0xF4 then 0x8F else 0xBF) && Utf8.isCont b2 && Utf8.isCont b3

theorem cond3_cont {b0 b1 b2 : UInt8} (h : cond3 b0 b1 b2 = true) : Utf8.isCont b1 = true ∧ Utf8.isCont b2 = true := by
  simp only [cond3, Bool.and_eq_true, decide_eq_true_eq] at h
  obtain ⟨⟨hlo, hhi⟩, h2⟩ := h
  refine ⟨?_, h2⟩
  rw [isCont_iff]
  constructor
  · split at hlo <;> omega
  · split at hhi <;> omega

theorem cond4_cont {b0 b1 b2 b3 : UInt8} (h : cond4 b0 b1 b2 b3 = true) :
    Utf8.isCont b1 = true ∧ Utf8.isCont b2 = true ∧ Utf8.isCont b3 = true := by
  simp only [cond4, Bool.and_eq_true, decide_eq_true_eq] at h
  obtain ⟨⟨⟨hlo, hhi⟩, h2⟩, h3⟩ := h
  refine ⟨?_, h2, h3⟩
  rw [isCont_iff]
  constructor
  · split at hlo <;> omega
  · split at hhi <;> omega

theorem dr_three (b0 b1 b2 : UInt8) (t : Bytes) (h : 0xE0 ≤ b0.toNat) (h' : b0.toNat < 0xF0) :
    Utf8.decodeRune (b0 :: b1 :: b2 :: t) =
      if cond3 b0 b1 b2 then ((b0.toNat % 16) * 4096 + (b1.toNat % 64) * 64 + b2.toNat % 64, 3, true)
      else (Utf8.runeError, 1, false) := by
  unfold Utf8.decodeRune; simp only
  rw [if_neg (by omega), if_neg (by omega), if_neg (by omega), if_pos h']
  rfl

theorem dr_four_short (b0 : UInt8) (rest : Bytes) (hr : rest.length ≤ 2) (h : 0xF0 ≤ b0.toNat) (h' : b0.toNat < 0xF5) :
    Utf8.decodeRune (b0 :: rest) = (Utf8.runeError, 1, false) := by
  unfold Utf8.decodeRune; simp only
  rw [if_neg (by omega), if_neg (by omega), if_neg (by omega), if_neg (by omega), if_pos h']
  match rest, hr with
  | [], _ => rfl
  | [_], _ => rfl
  | [_, _], _ => rfl

theorem dr_four (b0 b1 b2 b3 : UInt8) (t : Bytes) (h : 0xF0 ≤ b0.toNat) (h' : b0.toNat < 0xF5) :
    Utf8.decodeRune (b0 :: b1 :: b2 :: b3 :: t) =
      if cond4 b0 b1 b2 b3 then ((b0.toNat % 8) * 262144 + (b1.toNat % 64) * 4096 + (b2.toNat % 64) * 64 + b3.toNat % 64, 4, true)
      else (Utf8.runeError, 1, false) := by
  unfold Utf8.decodeRune; simp only
  rw [if_neg (by omega), if_neg (by omega), if_neg (by omega), if_neg (by omega), if_pos h']
  rfl

/-- the four shapes of a complete rune; `decodeRune` depends only on the chunk, not on what follows -/
theorem RuneChunk.shape {c : Bytes} (h : RuneChunk c) :
    (∃ b0, c = [b0] ∧ b0.toNat < 0x80) ∨
    (∃ b0 b1, c = [b0, b1] ∧ 0xC2 ≤ b0.toNat ∧ b0.toNat < 0xE0 ∧ Utf8.isCont b1 = true) ∨
    (∃ b0 b1 b2, c = [b0, b1, b2] ∧ 0xE0 ≤ b0.toNat ∧ b0.toNat < 0xF0 ∧ Utf8.isCont b1 = true ∧ Utf8.isCont b2 = true) ∨
    (∃ b0 b1 b2 b3, c = [b0, b1, b2, b3] ∧ 0xF0 ≤ b0.toNat ∧ b0.toNat < 0xF5 ∧ Utf8.isCont b1 = true ∧ Utf8.isCont b2 = true ∧ Utf8.isCont b3 = true) := by
  obtain ⟨hne, hdec⟩ := h
  cases c with
  | nil => exact absurd rfl hne
  | cons b0 rest =>
    by_cases h0 : b0.toNat < 0x80
    · rw [dr_ascii _ _ h0] at hdec
      left
      refine ⟨b0, ?_, h0⟩
      cases rest with
      | nil => rfl
      | cons _ _ => simp at hdec
    · by_cases hbad : b0.toNat < 0xC2 ∨ 0xF5 ≤ b0.toNat
      · rw [dr_bad _ _ (by omega) hbad] at hdec; simp at hdec
      · by_cases h2 : b0.toNat < 0xE0
        · right; left
          match rest with
          | [] => rw [dr_two_short _ (by omega) h2] at hdec; simp at hdec
          | b1 :: t =>
            rw [dr_two _ _ _ (by omega) h2] at hdec
            split at hdec
            · rename_i hc
              refine ⟨b0, b1, ?_, by omega, h2, hc⟩
              cases t with
              | nil => rfl
              | cons _ _ => simp at hdec
            · simp at hdec
        · by_cases h3 : b0.toNat < 0xF0
          · right; right; left
            match rest with
            | [] => rw [dr_three_short _ _ (by simp) (by omega) h3] at hdec; simp at hdec
            | [_] => rw [dr_three_short _ _ (by simp) (by omega) h3] at hdec; simp at hdec
            | b1 :: b2 :: t =>
              rw [dr_three _ _ _ _ (by omega) h3] at hdec
              split at hdec
              · rename_i hc
                refine ⟨b0, b1, b2, ?_, by omega, h3, (cond3_cont hc).1, (cond3_cont hc).2⟩
                cases t with
                | nil => rfl
                | cons _ _ => simp at hdec
              · simp at hdec
          · right; right; right
            match rest with
            | [] => rw [dr_four_short _ _ (by simp) (by omega) (by omega)] at hdec; simp at hdec
            | [_] => rw [dr_four_short _ _ (by simp) (by omega) (by omega)] at hdec; simp at hdec
            | [_, _] => rw [dr_four_short _ _ (by simp) (by omega) (by omega)] at hdec; simp at hdec
            | b1 :: b2 :: b3 :: t =>
              rw [dr_four _ _ _ _ _ (by omega) (by omega)] at hdec
              split at hdec
              · rename_i hc
                refine ⟨b0, b1, b2, b3, ?_, by omega, by omega, (cond4_cont hc).1, (cond4_cont hc).2.1, (cond4_cont hc).2.2⟩
                cases t with
                | nil => rfl
                | cons _ _ => simp at hdec
              · simp at hdec

end Gojq.Cli

namespace Gojq.Cli
open Gojq

theorem getElem?_append_add (pre c : Bytes) (m : Nat) : (pre ++ c)[pre.length + m]? = c[m]? := by
  rw [List.getElem?_append_right (by omega)]; congr 1; omega

theorem drop_append_add (pre c : Bytes) (m : Nat) : (pre ++ c).drop (pre.length + m) = c.drop m := by
  rw [List.drop_append]
  have : pre.drop (pre.length + m) = [] := List.drop_of_length_le (by omega)
  rw [this]; simp

theorem take_append_add (pre c : Bytes) (m : Nat) : (pre ++ c).take (pre.length + m) = pre ++ c.take m := by
  rw [List.take_append]
  have : pre.take (pre.length + m) = pre := List.take_of_length_le (by omega)
  rw [this]; simp

theorem not_lt_of_cont {b : UInt8} (h : Utf8.isCont b = true) : ¬ b.toNat < 0x80 := by
  have := (isCont_iff b).mp h; omega

theorem runeStart_of_ge {b : UInt8} (h : 0xC0 ≤ b.toNat) : runeStart b = true := by
  have : Utf8.isCont b = false := by
    cases hc : Utf8.isCont b with
    | false => rfl
    | true => have := (isCont_iff b).mp hc; omega
  simp [runeStart, this]

theorem not_runeStart_of_cont {b : UInt8} (h : Utf8.isCont b = true) : runeStart b = false := by
  simp [runeStart, h]

/-- one step of `trimLoop` on `pre ++ c` at position `|pre| + m` (`m < |c|`) -/
theorem trimLoop_step (pre c : Bytes) (st m : Nat) (b : UInt8) (hb : c[m]? = some b) :
    trimLoop (pre ++ c) (st + 1) (pre.length + m + 1) =
      if b.toNat < 0x80 then (pre ++ c).take (pre.length + m + 1)
      else if runeStart b then
        if (Utf8.decodeRune (c.drop m)).1 == Utf8.runeError && (Utf8.decodeRune (c.drop m)).2.1 ≤ 1 then pre ++ c.take m
        else pre ++ c
      else trimLoop (pre ++ c) st (pre.length + m) := by
  rw [trimLoop, getElem?_append_add, hb]
  simp only [drop_append_add, take_append_add]

end Gojq.Cli

namespace Gojq.Cli
open Gojq

/-- `trimLastInvalidRune` on a text ending in a lead byte followed by at most two continuation
    bytes: the loop walks back to the lead byte and decodes from there -/
theorem trim_lead_conts (pre : Bytes) (b0 : UInt8) (conts : Bytes) (hb0 : 0xC0 ≤ b0.toNat)
    (hc : ∀ b, b ∈ conts → Utf8.isCont b = true) (hl : conts.length ≤ 2) :
    trimLastInvalidRune (pre ++ b0 :: conts) =
      if (Utf8.decodeRune (b0 :: conts)).1 == Utf8.runeError && (Utf8.decodeRune (b0 :: conts)).2.1 ≤ 1 then pre
      else pre ++ b0 :: conts := by
  have h0 : ¬ b0.toNat < 0x80 := by omega
  have hrs := runeStart_of_ge hb0
  match conts, hc, hl with
  | [], _, _ =>
    have e : trimLastInvalidRune (pre ++ [b0]) = trimLoop (pre ++ [b0]) (2 + 1) (pre.length + 0 + 1) := by
      simp [trimLastInvalidRune]
    rw [e, trimLoop_step pre [b0] 2 0 b0 rfl, if_neg h0, hrs]
    simp
  | [c1], hc, _ =>
    have hc1 := hc c1 (by simp)
    have e : trimLastInvalidRune (pre ++ [b0, c1]) = trimLoop (pre ++ [b0, c1]) (2 + 1) (pre.length + 1 + 1) := by
      simp [trimLastInvalidRune]
    rw [e, trimLoop_step pre [b0, c1] 2 1 c1 rfl, if_neg (not_lt_of_cont hc1), not_runeStart_of_cont hc1]
    simp only [Bool.false_eq_true, if_false]
    rw [show pre.length + 1 = pre.length + 0 + 1 from rfl, trimLoop_step pre [b0, c1] 1 0 b0 rfl, if_neg h0, hrs]
    simp
  | [c1, c2], hc, _ =>
    have hc1 := hc c1 (by simp)
    have hc2 := hc c2 (by simp)
    have e : trimLastInvalidRune (pre ++ [b0, c1, c2]) = trimLoop (pre ++ [b0, c1, c2]) (2 + 1) (pre.length + 2 + 1) := by
      simp [trimLastInvalidRune]
    rw [e, trimLoop_step pre [b0, c1, c2] 2 2 c2 rfl, if_neg (not_lt_of_cont hc2), not_runeStart_of_cont hc2]
    simp only [Bool.false_eq_true, if_false]
    rw [show pre.length + 2 = pre.length + 1 + 1 from rfl, trimLoop_step pre [b0, c1, c2] 1 1 c1 rfl,
      if_neg (not_lt_of_cont hc1), not_runeStart_of_cont hc1]
    simp only [Bool.false_eq_true, if_false]
    rw [show pre.length + 1 = pre.length + 0 + 1 from rfl, trimLoop_step pre [b0, c1, c2] 0 0 b0 rfl, if_neg h0, hrs]
    simp

/-- three trailing continuation bytes: the loop gives up and keeps everything -/
theorem trim_three_conts (pre : Bytes) (c1 c2 c3 : UInt8)
    (h1 : Utf8.isCont c1 = true) (h2 : Utf8.isCont c2 = true) (h3 : Utf8.isCont c3 = true) :
    trimLastInvalidRune (pre ++ [c1, c2, c3]) = pre ++ [c1, c2, c3] := by
  have e : trimLastInvalidRune (pre ++ [c1, c2, c3]) = trimLoop (pre ++ [c1, c2, c3]) (2 + 1) (pre.length + 2 + 1) := by
    simp [trimLastInvalidRune]
  rw [e, trimLoop_step pre [c1, c2, c3] 2 2 c3 rfl, if_neg (not_lt_of_cont h3), not_runeStart_of_cont h3]
  simp only [Bool.false_eq_true, if_false]
  rw [show pre.length + 2 = pre.length + 1 + 1 from rfl, trimLoop_step pre [c1, c2, c3] 1 1 c2 rfl,
    if_neg (not_lt_of_cont h2), not_runeStart_of_cont h2]
  simp only [Bool.false_eq_true, if_false]
  rw [show pre.length + 1 = pre.length + 0 + 1 from rfl, trimLoop_step pre [c1, c2, c3] 0 0 c1 rfl,
    if_neg (not_lt_of_cont h1), not_runeStart_of_cont h1]
  simp [trimLoop]

theorem trim_ascii_end (pre : Bytes) (b0 : UInt8) (h : b0.toNat < 0x80) :
    trimLastInvalidRune (pre ++ [b0]) = pre ++ [b0] := by
  have e : trimLastInvalidRune (pre ++ [b0]) = trimLoop (pre ++ [b0]) (2 + 1) (pre.length + 0 + 1) := by
    simp [trimLastInvalidRune]
  rw [e, trimLoop_step pre [b0] 2 0 b0 rfl, if_pos h]
  exact List.take_of_length_le (by simp)

/-- T1: a text that ends with a complete rune is kept -/
theorem trim_complete (pre c : Bytes) (h : RuneChunk c) : trimLastInvalidRune (pre ++ c) = pre ++ c := by
  have hdec := h.2
  rcases h.shape with ⟨b0, rfl, h0⟩ | ⟨b0, b1, rfl, h1, h2, hc1⟩ | ⟨b0, b1, b2, rfl, h1, h2, hc1, hc2⟩ | ⟨b0, b1, b2, b3, rfl, h1, h2, hc1, hc2, hc3⟩
  · exact trim_ascii_end pre b0 h0
  · rw [trim_lead_conts pre b0 [b1] (by omega) (by simpa using hc1) (by simp)]
    have hw : (Utf8.decodeRune [b0, b1]).2.1 = 2 := by rw [hdec]; rfl
    rw [if_neg (by rw [hw]; simp)]
  · rw [trim_lead_conts pre b0 [b1, b2] (by omega) (by simp [hc1, hc2]) (by simp)]
    have hw : (Utf8.decodeRune [b0, b1, b2]).2.1 = 3 := by rw [hdec]; rfl
    rw [if_neg (by rw [hw]; simp)]
  · have := trim_three_conts (pre ++ [b0]) b1 b2 b3 hc1 hc2 hc3
    simpa using this

/-- T2: a text that ends inside a rune loses exactly the incomplete rune -/
theorem trim_partial (pre c : Bytes) (h : RuneChunk c) (j : Nat) (hj0 : 0 < j) (hj : j < c.length) :
    trimLastInvalidRune (pre ++ c.take j) = pre := by
  rcases h.shape with ⟨b0, rfl, h0⟩ | ⟨b0, b1, rfl, h1, h2, hc1⟩ | ⟨b0, b1, b2, rfl, h1, h2, hc1, hc2⟩ | ⟨b0, b1, b2, b3, rfl, h1, h2, hc1, hc2, hc3⟩
  · simp at hj; omega
  · have : j = 1 := by simp at hj; omega
    subst this
    simp only [List.take_succ_cons, List.take_zero]
    rw [trim_lead_conts pre b0 [] (by omega) (by simp) (by simp), dr_two_short b0 h1 h2]; simp
  · have : j = 1 ∨ j = 2 := by simp at hj; omega
    rcases this with rfl | rfl
    · simp only [List.take_succ_cons, List.take_zero]
      rw [trim_lead_conts pre b0 [] (by omega) (by simp) (by simp), dr_three_short b0 [] (by simp) h1 h2]; simp
    · simp only [List.take_succ_cons, List.take_zero]
      rw [trim_lead_conts pre b0 [b1] (by omega) (by simpa using hc1) (by simp), dr_three_short b0 [b1] (by simp) h1 h2]; simp
  · have : j = 1 ∨ j = 2 ∨ j = 3 := by simp at hj; omega
    rcases this with rfl | rfl | rfl
    · simp only [List.take_succ_cons, List.take_zero]
      rw [trim_lead_conts pre b0 [] (by omega) (by simp) (by simp), dr_four_short b0 [] (by simp) h1 h2]; simp
    · simp only [List.take_succ_cons, List.take_zero]
      rw [trim_lead_conts pre b0 [b1] (by omega) (by simpa using hc1) (by simp), dr_four_short b0 [b1] (by simp) h1 h2]; simp
    · simp only [List.take_succ_cons, List.take_zero]
      rw [trim_lead_conts pre b0 [b1, b2] (by omega) (by simp [hc1, hc2]) (by simp), dr_four_short b0 [b1, b2] (by simp) h1 h2]; simp

end Gojq.Cli

namespace Gojq.Cli
open Gojq

theorem RuneChunk.length_pos {c : Bytes} (h : RuneChunk c) : 1 ≤ c.length ∧ c.length ≤ 4 := by
  rcases h.shape with ⟨b0, rfl, _⟩ | ⟨b0, b1, rfl, _⟩ | ⟨b0, b1, b2, rfl, _⟩ | ⟨b0, b1, b2, b3, rfl, _⟩ <;> simp

theorem trim_nil : trimLastInvalidRune [] = [] := by simp [trimLastInvalidRune, trimLoop]

/-- a text made of complete runes is kept whole -/
theorem trim_flatten (cs : List Bytes) (h : ∀ c, c ∈ cs → RuneChunk c) :
    trimLastInvalidRune cs.flatten = cs.flatten := by
  rcases List.eq_nil_or_concat cs with rfl | ⟨init, c, rfl⟩
  · exact trim_nil
  · rw [List.concat_eq_append] at h ⊢
    rw [List.flatten_append]
    simp only [List.flatten_cons, List.flatten_nil, List.append_nil]
    exact trim_complete _ c (h c (by simp))

/-- where byte position `n` falls in a list of non-empty chunks -/
theorem split_at (cs : List Bytes) (hne : ∀ c, c ∈ cs → 1 ≤ c.length) : ∀ n, n ≤ cs.flatten.length →
    ∃ cs1 cs2, cs = cs1 ++ cs2 ∧ cs1.flatten.length ≤ n ∧
      (cs2 = [] ∧ n = cs1.flatten.length ∨ ∃ c t, cs2 = c :: t ∧ n < cs1.flatten.length + c.length) := by
  induction cs with
  | nil => intro n hn; exact ⟨[], [], rfl, by simp, Or.inl ⟨rfl, by simpa using hn⟩⟩
  | cons c t ih =>
    intro n hn
    by_cases hlt : n < c.length
    · exact ⟨[], c :: t, rfl, by simp, Or.inr ⟨c, t, rfl, by simpa using hlt⟩⟩
    · have hn' : n - c.length ≤ t.flatten.length := by
        simp only [List.flatten_cons, List.length_append] at hn; omega
      obtain ⟨cs1, cs2, heq, h1, h2⟩ := ih (fun c hc => hne c (by simp [hc])) (n - c.length) hn'
      refine ⟨c :: cs1, cs2, by rw [heq]; rfl, ?_, ?_⟩
      · simp only [List.flatten_cons, List.length_append]; omega
      · simp only [List.flatten_cons, List.length_append]
        rcases h2 with ⟨h2, h3⟩ | ⟨c', t', h2, h3⟩
        · left; exact ⟨h2, by omega⟩
        · right; exact ⟨c', t', h2, by omega⟩

/-- two splits of one list of non-empty chunks: the one with the shorter text is a prefix of the other -/
theorem prefix_of_flatten_le {a1 a2 b1 b2 : List Bytes} (h : a1 ++ a2 = b1 ++ b2)
    (hne : ∀ c, c ∈ a1 → 1 ≤ c.length) (hle : a1.flatten.length ≤ b1.flatten.length) :
    ∃ m, b1 = a1 ++ m ∧ a2 = m ++ b2 := by
  rcases List.append_eq_append_iff.mp h with ⟨m, h1, h2⟩ | ⟨m, h1, h2⟩
  · exact ⟨m, h1, h2⟩
  · -- a1 = b1 ++ m with |a1.flatten| ≤ |b1.flatten| forces m = []
    have hm : m = [] := by
      cases m with
      | nil => rfl
      | cons x xs =>
        have hx : 1 ≤ x.length := hne x (by rw [h1]; simp)
        have : a1.flatten.length = b1.flatten.length + (x :: xs).flatten.length := by
          rw [h1, List.flatten_append, List.length_append]
        simp only [List.flatten_cons, List.length_append] at this
        omega
    subst hm
    exact ⟨[], by simpa using h1.symm, by simpa using h2.symm⟩

/-- `trimLastInvalidRune` of a prefix of a rune-structured text is the text up to the last rune
    boundary at or before the cut -/
theorem trim_take_chunks (cs : List Bytes) (h : ∀ c, c ∈ cs → RuneChunk c) (n : Nat) (hn : n ≤ cs.flatten.length) :
    ∃ cs1 cs2, cs = cs1 ++ cs2 ∧ trimLastInvalidRune (cs.flatten.take n) = cs1.flatten ∧
      cs1.flatten.length ≤ n ∧ n ≤ cs1.flatten.length + 3 ∧ (cs2 = [] → n = cs.flatten.length) ∧
      (∀ c t, cs2 = c :: t → n < cs1.flatten.length + c.length) := by
  obtain ⟨cs1, cs2, heq, h1, h2⟩ := split_at cs (fun c hc => (h c hc).length_pos.1) n hn
  have hcs1 : ∀ c, c ∈ cs1 → RuneChunk c := fun c hc => h c (by rw [heq]; simp [hc])
  rcases h2 with ⟨h2, h3⟩ | ⟨c, t, h2, h3⟩
  · subst h2
    simp only [List.append_nil] at heq
    subst heq
    refine ⟨cs, [], by simp, ?_, h1, by omega, fun _ => h3, by simp⟩
    rw [h3, List.take_length]; exact trim_flatten cs h
  · subst h2
    have hc : RuneChunk c := h c (by rw [heq]; simp)
    have hcl := hc.length_pos
    refine ⟨cs1, c :: t, heq, ?_, h1, by omega, by simp, ?_⟩
    · have htake : cs.flatten.take n = cs1.flatten ++ c.take (n - cs1.flatten.length) := by
        rw [heq, List.flatten_append, List.flatten_cons]
        have e : n = cs1.flatten.length + (n - cs1.flatten.length) := by omega
        conv => lhs; rw [e]
        rw [take_append_add, List.take_append]
        have : t.flatten.take (n - cs1.flatten.length - c.length) = [] := by
          rw [show n - cs1.flatten.length - c.length = 0 by omega]; rfl
        rw [this, List.append_nil]
      rw [htake]
      by_cases hj : n - cs1.flatten.length = 0
      · rw [hj]; simp only [List.take_zero, List.append_nil]; exact trim_flatten cs1 hcs1
      · exact trim_partial _ c hc _ (by omega) (by omega)
    · intro c' t' hct
      cases hct
      exact h3

end Gojq.Cli

namespace Gojq.Cli
open Gojq

/-- **Excerpt and caret on rune-structured lines.** If the line is a sequence of complete runes and
    the offending byte lies in the rune `c`, the excerpt consists of whole runes — a suffix `pre'` of
    the runes before `c`, `c` itself and a prefix `post'` of the runes after it — and the caret's byte
    index is the length of `pre'`. -/
theorem excerpt_runes (pre post : List Bytes) (c : Bytes) (j : Nat) (off : Int)
    (h : ∀ x, x ∈ pre ++ c :: post → RuneChunk x) (hj : j < c.length)
    (hoff : (max (off - 1) 0).toNat = pre.flatten.length + j) :
    ∃ pre1 pre' post' post'', pre = pre1 ++ pre' ∧ post = post' ++ post'' ∧
      excerpt (pre ++ c :: post).flatten off = ((pre' ++ c :: post').flatten, pre'.flatten.length) := by
  have hc : RuneChunk c := h c (by simp)
  have hcl := hc.length_pos
  have hLlen : (pre ++ c :: post).flatten.length = pre.flatten.length + c.length + post.flatten.length := by
    simp [List.flatten_append, Nat.add_assoc]
  have ho : min (max (off - 1) 0).toNat (pre ++ c :: post).flatten.length = pre.flatten.length + j := by
    rw [hoff, hLlen]; omega
  -- Step A: the skip
  have hA : ∃ pre1 pre', pre = pre1 ++ pre' ∧
      (if pre.flatten.length + j > 48 then (trimLastInvalidRune ((pre ++ c :: post).flatten.take (pre.flatten.length + j - 48))).length else 0)
        = pre1.flatten.length ∧ pre'.flatten.length + j ≤ 51 := by
    by_cases hbig : pre.flatten.length + j > 48
    · rw [if_pos hbig]
      obtain ⟨cs1, cs2, heq, htrim, h1, h2, h3, _⟩ :=
        trim_take_chunks (pre ++ c :: post) h (pre.flatten.length + j - 48) (by rw [hLlen]; omega)
      obtain ⟨m, hm1, hm2⟩ := prefix_of_flatten_le (a1 := cs1) (a2 := cs2) (b1 := pre) (b2 := c :: post) heq.symm
        (fun x hx => (h x (by rw [heq]; simp [hx])).length_pos.1) (by omega)
      refine ⟨cs1, m, hm1, by rw [htrim], ?_⟩
      have : pre.flatten.length = cs1.flatten.length + m.flatten.length := by
        rw [hm1, List.flatten_append, List.length_append]
      omega
    · rw [if_neg hbig]
      exact ⟨[], pre, rfl, rfl, by omega⟩
  obtain ⟨pre1, pre', hpre, hskip, ho1⟩ := hA
  have hPlen : pre.flatten.length = pre1.flatten.length + pre'.flatten.length := by
    rw [hpre, List.flatten_append, List.length_append]
  -- the line after the skip
  have hL1 : (pre ++ c :: post).flatten.drop pre1.flatten.length = (pre' ++ c :: post).flatten := by
    rw [hpre, List.append_assoc, List.flatten_append, List.drop_left]
  have h' : ∀ x, x ∈ pre' ++ c :: post → RuneChunk x := by
    intro x hx; apply h; rw [hpre]
    simp only [List.mem_append, List.mem_cons] at hx ⊢
    rcases hx with hx | hx | hx
    · exact Or.inl (Or.inr hx)
    · exact Or.inr (Or.inl hx)
    · exact Or.inr (Or.inr hx)
  have hL1len : (pre' ++ c :: post).flatten.length = pre'.flatten.length + c.length + post.flatten.length := by
    simp [List.flatten_append, Nat.add_assoc]
  -- Step B: the 64-byte cut
  obtain ⟨e1, e2, heq2, htrim2, hb1, hb2, hb3, hb4⟩ :=
    trim_take_chunks (pre' ++ c :: post) h' (min 64 (pre' ++ c :: post).flatten.length) (Nat.min_le_right _ _)
  have hcover : (pre' ++ [c]).flatten.length ≤ e1.flatten.length := by
    have e : (pre' ++ [c]).flatten.length = pre'.flatten.length + c.length := by simp [List.flatten_append]
    rw [e]
    cases e2 with
    | nil =>
      have := hb3 rfl
      have h2 : (pre' ++ c :: post).flatten.length = e1.flatten.length := by rw [heq2]; simp
      omega
    | cons x t =>
      have := hb4 x t rfl
      have hx := (h' x (by rw [heq2]; simp)).length_pos
      by_cases h64 : 64 ≤ (pre' ++ c :: post).flatten.length
      · rw [Nat.min_eq_left h64] at hb1 hb2; omega
      · -- the cut is the whole rest of the line, so nothing can follow it
        have h2 : (pre' ++ c :: post).flatten.length = e1.flatten.length + x.length + t.flatten.length := by
          rw [heq2]; simp [List.flatten_append, Nat.add_assoc]
        rw [Nat.min_eq_right (by omega)] at this
        omega
  obtain ⟨post', hp1, hp2⟩ := prefix_of_flatten_le (a1 := pre' ++ [c]) (a2 := post) (b1 := e1) (b2 := e2)
    (by rw [← heq2]; simp) (fun x hx => (h' x (by
      simp only [List.mem_append, List.mem_cons, List.not_mem_nil, or_false] at hx ⊢
      rcases hx with hx | hx
      · exact Or.inl hx
      · exact Or.inr (Or.inl hx))).length_pos.1) hcover
  have hE : e1 = pre' ++ c :: post' := by rw [hp1]; simp
  -- Step C: the caret
  have hex' : ∀ x, x ∈ pre' ++ c :: post' → RuneChunk x := by
    intro x hx; apply h'; rw [hp2]
    simp only [List.mem_append, List.mem_cons] at hx ⊢
    rcases hx with hx | hx | hx
    · exact Or.inl hx
    · exact Or.inr (Or.inl hx)
    · exact Or.inr (Or.inr (Or.inl hx))
  have hL2len : (pre' ++ c :: post').flatten.length = pre'.flatten.length + c.length + post'.flatten.length := by
    simp [List.flatten_append, Nat.add_assoc]
  have hk : trimLastInvalidRune ((pre' ++ c :: post').flatten.take (pre'.flatten.length + j)) = pre'.flatten := by
    have htake : (pre' ++ c :: post').flatten.take (pre'.flatten.length + j) = pre'.flatten ++ c.take j := by
      rw [List.flatten_append, List.flatten_cons, take_append_add, List.take_append]
      have : post'.flatten.take (j - c.length) = [] := by
        rw [show j - c.length = 0 by omega]; rfl
      rw [this, List.append_nil]
    rw [htake]
    by_cases hj0 : j = 0
    · subst hj0; simp only [List.take_zero, List.append_nil]
      exact trim_flatten pre' (fun x hx => hex' x (by simp [hx]))
    · exact trim_partial _ c hc j (by omega) hj
  refine ⟨pre1, pre', post', e2, hpre, hp2, ?_⟩
  simp only [excerpt, ho, hskip, hL1, htrim2, hE]
  have hlt : pre.flatten.length + j - pre1.flatten.length < (pre' ++ c :: post').flatten.length := by
    rw [hL2len]; omega
  rw [if_pos hlt]
  have : pre.flatten.length + j - pre1.flatten.length = pre'.flatten.length + j := by omega
  rw [this, hk]

end Gojq.Cli

namespace Gojq.Cli
open Gojq

/-- `decodeRune` looks only at the rune's own bytes -/
theorem RuneChunk.decode_append {c : Bytes} (h : RuneChunk c) (rest : Bytes) :
    Utf8.decodeRune (c ++ rest) = Utf8.decodeRune c := by
  rcases h.shape with ⟨b0, rfl, h0⟩ | ⟨b0, b1, rfl, h1, h2, _⟩ | ⟨b0, b1, b2, rfl, h1, h2, _⟩ | ⟨b0, b1, b2, b3, rfl, h1, h2, _⟩
  · simp only [List.cons_append, List.nil_append]; rw [dr_ascii _ _ h0, dr_ascii _ _ h0]
  · simp only [List.cons_append, List.nil_append]; rw [dr_two _ _ _ h1 h2, dr_two _ _ _ h1 h2]
  · simp only [List.cons_append, List.nil_append]; rw [dr_three _ _ _ _ h1 h2, dr_three _ _ _ _ h1 h2]
  · simp only [List.cons_append, List.nil_append]; rw [dr_four _ _ _ _ _ h1 h2, dr_four _ _ _ _ _ h1 h2]

theorem runesAux_flatten (cs : List Bytes) (h : ∀ c, c ∈ cs → RuneChunk c) : ∀ fuel, cs.flatten.length ≤ fuel →
    Utf8.runesAux fuel cs.flatten = cs.map (fun c => (Utf8.decodeRune c).1) := by
  induction cs with
  | nil => intro fuel _; cases fuel <;> rfl
  | cons c t ih =>
    intro fuel hf
    have hc := h c (by simp)
    have hcl := hc.length_pos
    simp only [List.flatten_cons, List.length_append] at hf
    cases fuel with
    | zero => omega
    | succ f =>
      obtain ⟨b0, r, hcr⟩ : ∃ b0 r, c = b0 :: r := by
        cases c with
        | nil => simp at hcl
        | cons b0 r => exact ⟨b0, r, rfl⟩
      have hdec := hc.2
      simp only [List.flatten_cons, List.map_cons]
      have hrw : Utf8.runesAux (f + 1) (c ++ t.flatten) =
          (Utf8.decodeRune (c ++ t.flatten)).1 :: Utf8.runesAux f ((c ++ t.flatten).drop (max (Utf8.decodeRune (c ++ t.flatten)).2.1 1)) := by
        rw [hcr]; rfl
      rw [hrw, hc.decode_append]
      have hw : (Utf8.decodeRune c).2.1 = c.length := by rw [hdec]
      rw [hw, Nat.max_eq_left hcl.1, List.drop_left, ih (fun x hx => h x (by simp [hx])) f (by omega)]

/-- the width of a rune-structured text is the sum of the widths of its runes -/
theorem strWidth_flatten (w : Nat → Nat) (cs : List Bytes) (h : ∀ c, c ∈ cs → RuneChunk c) :
    strWidth w cs.flatten = (cs.map (fun c => w (Utf8.decodeRune c).1)).sum := by
  unfold strWidth Utf8.runes
  rw [runesAux_flatten cs h _ (Nat.le_refl _), List.map_map]; rfl

end Gojq.Cli

namespace Gojq.Cli
open Gojq

/-- the same when the offending position is the end of the line (a terminator byte, or beyond the
    text): the excerpt is a suffix of the line's runes and the caret stands at its end -/
theorem excerpt_runes_end (cs : List Bytes) (off : Int) (h : ∀ x, x ∈ cs → RuneChunk x)
    (hoff : cs.flatten.length ≤ (max (off - 1) 0).toNat) :
    ∃ pre1 pre', cs = pre1 ++ pre' ∧ excerpt cs.flatten off = (pre'.flatten, pre'.flatten.length) := by
  have ho : min (max (off - 1) 0).toNat cs.flatten.length = cs.flatten.length := by omega
  have hA : ∃ pre1 pre', cs = pre1 ++ pre' ∧
      (if cs.flatten.length > 48 then (trimLastInvalidRune (cs.flatten.take (cs.flatten.length - 48))).length else 0)
        = pre1.flatten.length ∧ pre'.flatten.length ≤ 51 := by
    by_cases hbig : cs.flatten.length > 48
    · rw [if_pos hbig]
      obtain ⟨cs1, cs2, heq, htrim, h1, h2, _, _⟩ := trim_take_chunks cs h (cs.flatten.length - 48) (by omega)
      refine ⟨cs1, cs2, heq, by rw [htrim], ?_⟩
      have : cs.flatten.length = cs1.flatten.length + cs2.flatten.length := by
        rw [heq, List.flatten_append, List.length_append]
      omega
    · rw [if_neg hbig]
      exact ⟨[], cs, rfl, rfl, by simpa using (by omega : cs.flatten.length ≤ 51)⟩
  obtain ⟨pre1, pre', hcs, hskip, hlen⟩ := hA
  have hL1 : cs.flatten.drop pre1.flatten.length = pre'.flatten := by
    rw [hcs, List.flatten_append, List.drop_left]
  have hp' : ∀ x, x ∈ pre' → RuneChunk x := fun x hx => h x (by rw [hcs]; simp [hx])
  have htake : pre'.flatten.take (min 64 pre'.flatten.length) = pre'.flatten :=
    List.take_of_length_le (by omega)
  refine ⟨pre1, pre', hcs, ?_⟩
  simp only [excerpt, ho, hskip, hL1, htake, trim_flatten pre' hp']
  have hcl : cs.flatten.length = pre1.flatten.length + pre'.flatten.length := by
    rw [hcs, List.flatten_append, List.length_append]
  rw [if_neg (by omega)]

end Gojq.Cli

namespace Gojq.Cli
open Gojq

theorem excerpt_congr (L : Bytes) (off off' : Int) (h : (max (off - 1) 0).toNat = (max (off' - 1) 0).toNat) :
    excerpt L off = excerpt L off' := by
  simp only [excerpt, h]

/-- an offset ≤ 0 (the value used when the error carries no position) behaves as offset 1 -/
theorem getLineByOffset_nonpos (w : Nat → Nat) (str : Bytes) (off : Int) (h : off ≤ 0) :
    getLineByOffset w str off = getLineByOffset w str 1 := by
  have key : getLineByOffset' str off = getLineByOffset' str 1 := by
    simp only [getLineByOffset']
    rw [lineLoop, lineLoop]
    cases hs : scanNext str with
    | none =>
      simp only
      rw [excerpt_congr [] off 1 (by omega)]
    | some p =>
      obtain ⟨l, adv⟩ := p
      have hadv : 1 ≤ adv := by
        cases str with
        | nil => simp [scanNext] at hs
        | cons a r =>
          obtain ⟨adv', hsc, h1, _⟩ := scanNext_spec (a :: r) (by simp)
          rw [hs] at hsc
          cases hsc
          exact h1
      simp only
      rw [if_pos (by omega), if_pos (by omega)]
      simp only
      rw [excerpt_congr l (off - ((0 : Nat) : Int)) (1 - ((0 : Nat) : Int)) (by omega)]
  simp only [getLineByOffset, key]

end Gojq.Cli

namespace Gojq.Cli
open Gojq

/-- on a text made of complete runes, the conversion of `yamlParseError.Error` maps the character
    index `i` to the byte offset of the `i`-th rune (the text's length when there are fewer) -/
theorem charToByte_flatten (cs : List Bytes) (h : ∀ c, c ∈ cs → RuneChunk c) : ∀ (fuel i pos : Nat),
    cs.flatten.length ≤ fuel → charToByte fuel cs.flatten i pos = pos + (cs.take i).flatten.length := by
  induction cs with
  | nil => intro fuel i pos _; cases fuel <;> simp [charToByte]
  | cons c t ih =>
    intro fuel i pos hf
    have hc := h c (by simp)
    have hcl := hc.length_pos
    simp only [List.flatten_cons, List.length_append] at hf
    obtain ⟨b0, r, hcr⟩ : ∃ b0 r, c = b0 :: r := by
      cases c with
      | nil => simp at hcl
      | cons b0 r => exact ⟨b0, r, rfl⟩
    cases fuel with
    | zero => omega
    | succ f =>
      cases i with
      | zero => rw [List.flatten_cons, hcr]; simp [charToByte]
      | succ i =>
        have hrw : charToByte (f + 1) (c ++ t.flatten) (i + 1) pos =
            charToByte f ((c ++ t.flatten).drop (max (Utf8.decodeRune (c ++ t.flatten)).2.1 1)) i
              (pos + max (Utf8.decodeRune (c ++ t.flatten)).2.1 1) := by
          rw [hcr]; rfl
        have hw : (Utf8.decodeRune c).2.1 = c.length := by rw [hc.2]
        rw [List.flatten_cons, hrw, hc.decode_append, hw, Nat.max_eq_left hcl.1, List.drop_left,
          ih (fun x hx => h x (by simp [hx])) f i _ (by omega)]
        simp only [List.take_succ_cons, List.flatten_cons, List.length_append]; omega

end Gojq.Cli

/-
  The printer's output satisfies the adjacency condition, part 4: rewriting lemmas for `itemsOKF`
  token by token, and `stops` before the safe bytes for every token class.
-/
import Gojq.Proofs.SpacedEnd
namespace Gojq.RefTerm
open Gojq Gojq.Lexer Gojq.Printer

theorem itemsOKF_tok (fol : Bytes) (last : Option UInt8) (m : Bool) (stk : List Nat) (t : Tok) (r : List Item) :
    itemsOKF fol last m stk (.t t :: r) =
      (t.wf && (t.inStrTok == m) && stops t (render (lastOr t.spell last) r ++ fol) &&
        itemsOKF fol (lastOr t.spell last) (if (stepStk t stk).2 then true else t.modeAfter) (stepStk t stk).1 r) := rfl

theorem itemsOKF_plain (fol : Bytes) (last : Option UInt8) (m : Bool) (stk : List Nat) (t : Tok) (r : List Item)
    (h : plainStk t = true) :
    itemsOKF fol last m stk (.t t :: r) =
      (t.wf && (t.inStrTok == m) && stops t (render (lastOr t.spell last) r ++ fol) &&
        itemsOKF fol (lastOr t.spell last) t.modeAfter stk r) := by
  rw [itemsOKF_tok, stepStk_plain t stk h]; rfl

@[simp] theorem itemsOKF_nil' (fol : Bytes) (last : Option UInt8) (m : Bool) (stk : List Nat) :
    itemsOKF fol last m stk [] = true := rfl
@[simp] theorem itemsOKF_sp (fol : Bytes) (last : Option UInt8) (m : Bool) (stk : List Nat) (r : List Item) :
    itemsOKF fol last m stk (.sp :: r) = (!m && itemsOKF fol (some 32) false stk r) := rfl

@[simp] theorem itemsOKF_ch (fol : Bytes) (last : Option UInt8) (m : Bool) (stk : List Nat) (b : UInt8) (r : List Item)
    (h1 : b ≠ 40) (h2 : b ≠ 41) :
    itemsOKF fol last m stk (.t (.ch b) :: r) =
      (okCh b && !m && stops (.ch b) (render (some b) r ++ fol) && itemsOKF fol (some b) false stk r) := by
  rw [itemsOKF_plain]
  · cases m <;> simp [Tok.wf, Tok.inStrTok, Tok.modeAfter, Tok.spell, lastOr]
  · unfold plainStk; split <;> simp_all

@[simp] theorem itemsOKF_open (fol : Bytes) (last : Option UInt8) (m : Bool) (stk : List Nat) (r : List Item) :
    itemsOKF fol last m stk (.t (.ch 40) :: r) = (!m && itemsOKF fol (some 40) false (openStk stk) r) := by
  rw [itemsOKF_tok, stepStk_open]
  cases m <;> simp [Tok.wf, Tok.inStrTok, Tok.modeAfter, Tok.spell, lastOr, okCh, isSolo, stops]

@[simp] theorem itemsOKF_close (fol : Bytes) (last : Option UInt8) (m : Bool) (stk : List Nat) (r : List Item) :
    itemsOKF fol last m (openStk stk) (.t (.ch 41) :: r) = (!m && itemsOKF fol (some 41) false stk r) := by
  rw [itemsOKF_tok, stepStk_close]
  cases m <;> simp [Tok.wf, Tok.inStrTok, Tok.modeAfter, Tok.spell, lastOr, okCh, isSolo, stops]

@[simp] theorem itemsOKF_closeQ (fol : Bytes) (last : Option UInt8) (m : Bool) (stk : List Nat) (r : List Item) :
    itemsOKF fol last m (0 :: stk) (.t (.ch 41) :: r) = (!m && itemsOKF fol (some 41) true stk r) := by
  rw [itemsOKF_tok, stepStk_closeQ]
  cases m <;> simp [Tok.wf, Tok.inStrTok, Tok.modeAfter, Tok.spell, lastOr, okCh, isSolo, stops]

@[simp] theorem itemsOKF_strQuery (fol : Bytes) (last : Option UInt8) (m : Bool) (stk : List Nat) (r : List Item) :
    itemsOKF fol last m stk (.t .strQuery :: r) = (m && itemsOKF fol (some 40) false (0 :: stk) r) := by
  rw [itemsOKF_tok, stepStk_strQuery]
  cases m <;> simp [Tok.wf, Tok.inStrTok, Tok.modeAfter, Tok.spell, lastOr, stops]

theorem itemsOKF_ident (fol : Bytes) (last : Option UInt8) (m : Bool) (stk : List Nat) (s : Bytes) (r : List Item) :
    itemsOKF fol last m stk (.t (.ident s) :: r) =
      (((.ident s) : Tok).wf && (((.ident s) : Tok).inStrTok == m) && stops (.ident s) (render (lastOr ((.ident s) : Tok).spell last) r ++ fol) &&
        itemsOKF fol (lastOr ((.ident s) : Tok).spell last) false stk r) := itemsOKF_plain fol last m stk _ r rfl
theorem itemsOKF_modIdent (fol : Bytes) (last : Option UInt8) (m : Bool) (stk : List Nat) (s : Bytes) (r : List Item) :
    itemsOKF fol last m stk (.t (.modIdent s) :: r) =
      (((.modIdent s) : Tok).wf && (((.modIdent s) : Tok).inStrTok == m) && stops (.modIdent s) (render (lastOr ((.modIdent s) : Tok).spell last) r ++ fol) &&
        itemsOKF fol (lastOr ((.modIdent s) : Tok).spell last) false stk r) := itemsOKF_plain fol last m stk _ r rfl
theorem itemsOKF_var (fol : Bytes) (last : Option UInt8) (m : Bool) (stk : List Nat) (s : Bytes) (r : List Item) :
    itemsOKF fol last m stk (.t (.var s) :: r) =
      (((.var s) : Tok).wf && (((.var s) : Tok).inStrTok == m) && stops (.var s) (render (lastOr ((.var s) : Tok).spell last) r ++ fol) &&
        itemsOKF fol (lastOr ((.var s) : Tok).spell last) false stk r) := itemsOKF_plain fol last m stk _ r rfl
theorem itemsOKF_modVar (fol : Bytes) (last : Option UInt8) (m : Bool) (stk : List Nat) (s : Bytes) (r : List Item) :
    itemsOKF fol last m stk (.t (.modVar s) :: r) =
      (((.modVar s) : Tok).wf && (((.modVar s) : Tok).inStrTok == m) && stops (.modVar s) (render (lastOr ((.modVar s) : Tok).spell last) r ++ fol) &&
        itemsOKF fol (lastOr ((.modVar s) : Tok).spell last) false stk r) := itemsOKF_plain fol last m stk _ r rfl
theorem itemsOKF_index (fol : Bytes) (last : Option UInt8) (m : Bool) (stk : List Nat) (s : Bytes) (r : List Item) :
    itemsOKF fol last m stk (.t (.index s) :: r) =
      (((.index s) : Tok).wf && (((.index s) : Tok).inStrTok == m) && stops (.index s) (render (lastOr ((.index s) : Tok).spell last) r ++ fol) &&
        itemsOKF fol (lastOr ((.index s) : Tok).spell last) false stk r) := itemsOKF_plain fol last m stk _ r rfl
theorem itemsOKF_number (fol : Bytes) (last : Option UInt8) (m : Bool) (stk : List Nat) (s : Bytes) (r : List Item) :
    itemsOKF fol last m stk (.t (.number s) :: r) =
      (((.number s) : Tok).wf && (((.number s) : Tok).inStrTok == m) && stops (.number s) (render (lastOr ((.number s) : Tok).spell last) r ++ fol) &&
        itemsOKF fol (lastOr ((.number s) : Tok).spell last) false stk r) := itemsOKF_plain fol last m stk _ r rfl
theorem itemsOKF_format (fol : Bytes) (last : Option UInt8) (m : Bool) (stk : List Nat) (s : Bytes) (r : List Item) :
    itemsOKF fol last m stk (.t (.format s) :: r) =
      (((.format s) : Tok).wf && (((.format s) : Tok).inStrTok == m) && stops (.format s) (render (lastOr ((.format s) : Tok).spell last) r ++ fol) &&
        itemsOKF fol (lastOr ((.format s) : Tok).spell last) false stk r) := itemsOKF_plain fol last m stk _ r rfl
theorem itemsOKF_kw (fol : Bytes) (last : Option UInt8) (m : Bool) (stk : List Nat) (w : Kw) (r : List Item) :
    itemsOKF fol last m stk (.t (.kw w) :: r) =
      (((.kw w) : Tok).wf && (((.kw w) : Tok).inStrTok == m) && stops (.kw w) (render (lastOr ((.kw w) : Tok).spell last) r ++ fol) &&
        itemsOKF fol (lastOr ((.kw w) : Tok).spell last) false stk r) := itemsOKF_plain fol last m stk _ r rfl
theorem itemsOKF_recurse (fol : Bytes) (last : Option UInt8) (m : Bool) (stk : List Nat)  (r : List Item) :
    itemsOKF fol last m stk (.t .recurse :: r) =
      ((.recurse : Tok).wf && ((.recurse : Tok).inStrTok == m) && stops .recurse (render (lastOr (.recurse : Tok).spell last) r ++ fol) &&
        itemsOKF fol (lastOr (.recurse : Tok).spell last) false stk r) := itemsOKF_plain fol last m stk _ r rfl
theorem itemsOKF_op (fol : Bytes) (last : Option UInt8) (m : Bool) (stk : List Nat) (o : BOp) (r : List Item) :
    itemsOKF fol last m stk (.t (.op o) :: r) =
      (((.op o) : Tok).wf && (((.op o) : Tok).inStrTok == m) && stops (.op o) (render (lastOr ((.op o) : Tok).spell last) r ++ fol) &&
        itemsOKF fol (lastOr ((.op o) : Tok).spell last) false stk r) := itemsOKF_plain fol last m stk _ r rfl
theorem itemsOKF_destAlt (fol : Bytes) (last : Option UInt8) (m : Bool) (stk : List Nat)  (r : List Item) :
    itemsOKF fol last m stk (.t .destAlt :: r) =
      ((.destAlt : Tok).wf && ((.destAlt : Tok).inStrTok == m) && stops .destAlt (render (lastOr (.destAlt : Tok).spell last) r ++ fol) &&
        itemsOKF fol (lastOr (.destAlt : Tok).spell last) false stk r) := itemsOKF_plain fol last m stk _ r rfl
theorem itemsOKF_str (fol : Bytes) (last : Option UInt8) (m : Bool) (stk : List Nat) (v : Bytes) (r : List Item) :
    itemsOKF fol last m stk (.t (.str v) :: r) =
      (((.str v) : Tok).wf && (((.str v) : Tok).inStrTok == m) && stops (.str v) (render (lastOr ((.str v) : Tok).spell last) r ++ fol) &&
        itemsOKF fol (lastOr ((.str v) : Tok).spell last) false stk r) := itemsOKF_plain fol last m stk _ r rfl
theorem itemsOKF_chunk (fol : Bytes) (last : Option UInt8) (m : Bool) (stk : List Nat) (v : Bytes) (r : List Item) :
    itemsOKF fol last m stk (.t (.chunk v) :: r) =
      (((.chunk v) : Tok).wf && (((.chunk v) : Tok).inStrTok == m) && stops (.chunk v) (render (lastOr ((.chunk v) : Tok).spell last) r ++ fol) &&
        itemsOKF fol (lastOr ((.chunk v) : Tok).spell last) true stk r) := itemsOKF_plain fol last m stk _ r rfl
theorem itemsOKF_strStart (fol : Bytes) (last : Option UInt8) (m : Bool) (stk : List Nat)  (r : List Item) :
    itemsOKF fol last m stk (.t .strStart :: r) =
      ((.strStart : Tok).wf && ((.strStart : Tok).inStrTok == m) && stops .strStart (render (lastOr (.strStart : Tok).spell last) r ++ fol) &&
        itemsOKF fol (lastOr (.strStart : Tok).spell last) true stk r) := itemsOKF_plain fol last m stk _ r rfl
theorem itemsOKF_strEnd (fol : Bytes) (last : Option UInt8) (m : Bool) (stk : List Nat)  (r : List Item) :
    itemsOKF fol last m stk (.t .strEnd :: r) =
      ((.strEnd : Tok).wf && ((.strEnd : Tok).inStrTok == m) && stops .strEnd (render (lastOr (.strEnd : Tok).spell last) r ++ fol) &&
        itemsOKF fol (lastOr (.strEnd : Tok).spell last) false stk r) := itemsOKF_plain fol last m stk _ r rfl

theorem itemsOKF_nameTok (fol : Bytes) (last : Option UInt8) (m : Bool) (stk : List Nat) (n : Bytes) (r : List Item) :
    itemsOKF fol last m stk (.t (nameTok n) :: r) =
      ((nameTok n).wf && ((nameTok n).inStrTok == m) && stops (nameTok n) (render (lastOr (nameTok n).spell last) r ++ fol) &&
        itemsOKF fol (lastOr (nameTok n).spell last) false stk r) := by
  rw [itemsOKF_plain _ _ _ _ _ _ (plainStk_nameTok n), modeAfter_nameTok]
theorem itemsOKF_keyTok (fol : Bytes) (last : Option UInt8) (m : Bool) (stk : List Nat) (n : Bytes) (r : List Item) :
    itemsOKF fol last m stk (.t (keyTok n) :: r) =
      ((keyTok n).wf && ((keyTok n).inStrTok == m) && stops (keyTok n) (render (lastOr (keyTok n).spell last) r ++ fol) &&
        itemsOKF fol (lastOr (keyTok n).spell last) false stk r) := by
  rw [itemsOKF_plain _ _ _ _ _ _ (plainStk_keyTok n), modeAfter_keyTok]
theorem itemsOKF_opTok (fol : Bytes) (last : Option UInt8) (m : Bool) (stk : List Nat) (o : BOp) (r : List Item) :
    itemsOKF fol last m stk (.t (opTok o) :: r) =
      ((opTok o).wf && ((opTok o).inStrTok == m) && stops (opTok o) (render (lastOr (opTok o).spell last) r ++ fol) &&
        itemsOKF fol (lastOr (opTok o).spell last) false stk r) := by
  rw [itemsOKF_plain _ _ _ _ _ _ (plainStk_opTok o), modeAfter_opTok]

/-! ### `stops` before a safe head byte, by token class (the content of the token does not matter) -/

theorem stops_class_safe (t : Tok) (ch : UInt8) (r : Bytes) (hc : safeHead ch = true)
    (ht : match t with | .ch _ => false | .chunk _ => false | .strStart => false | .bad _ => false | _ => true) :
    stops t (ch :: r) = true := by
  obtain ⟨h1, h2, h3, h4, h5, h6, h7⟩ := safeHead_props ch hc
  cases t with
  | op o => cases o <;> simp [stops, peek_cons, h4]
  | ident s | kw w | var s =>
    simp only [stops, peek_cons, h1, Bool.not_false, Bool.true_and]
    split
    · next heq => injection heq with e _; subst e; simp at h7
    · rfl
  | _ => simp_all [stops, peek_cons]

@[simp] theorem safeHead_32 : safeHead 32 = true := rfl
@[simp] theorem safeHead_10 : safeHead 10 = true := rfl
@[simp] theorem safeHead_41 : safeHead 41 = true := rfl
@[simp] theorem safeHead_93 : safeHead 93 = true := rfl
@[simp] theorem safeHead_125 : safeHead 125 = true := rfl
@[simp] theorem safeHead_44 : safeHead 44 = true := rfl
@[simp] theorem safeHead_59 : safeHead 59 = true := rfl
@[simp] theorem safeHead_91 : safeHead 91 = true := rfl
@[simp] theorem safeHead_63 : safeHead 63 = true := rfl
@[simp] theorem safeHead_40 : safeHead 40 = true := rfl

theorem safeB_safeHead (lb : Option UInt8) (ch : UInt8) (r : Bytes) (h : safeHead ch = true) :
    safeB lb (ch :: r) = true := by
  simp only [safeHead, Bool.or_eq_true, beq_iff_eq] at h
  simp only [safeB, Bool.or_eq_true, beq_iff_eq, Bool.and_eq_true]
  exact Or.inl (Or.inl h)

/-- the last byte after a well-formed token -/
theorem lastOr_wf (t : Tok) (last : Option UInt8) (h : t.wf = true) : lastOr t.spell last = t.spell.getLast? := by
  have := Tok.wf_spell_ne t h
  unfold lastOr
  cases hg : t.spell.getLast? with
  | none => simp [List.getLast?_eq_none_iff] at hg; rw [hg] at this; simp at this
  | some b => rfl

/-- the last token of a sequence stops before a safe continuation -/
theorem stops_last (t : Tok) (last : Option UInt8) (fol : Bytes) (hwf : t.wf = true) (hn : t.inStrTok = false)
    (hs : t ≠ .strStart) (h : safeB (lastOr t.spell last) fol = true) : stops t fol = true := by
  rw [lastOr_wf t last hwf] at h
  exact stops_of_safe t fol hwf hn hs h

end Gojq.RefTerm

/-
  C08 (bytecode checker, layer 2): the instructions that call out of the loop (`object`, `index`,
  `indexarray`, native calls, `iter`, `pathend`) never touch the scope stack, the variable slots or
  `env.offset`; at most they push ONE fork that saves the current state.  Proved by a small calculus
  over the primitives, so that layer 2 can re-use layer 1's result for them instead of running
  them symbolically again.
-/
import Gojq.Proofs.SafeVM2Exec1
set_option linter.unusedSimpArgs false
set_option linter.unusedVariables false
namespace Gojq.SafeVM
open Gojq Gojq.VM

/-- at most one fork was pushed, saving the current scope stack and offset -/
def FrF (pc : Int) (e e' : Env) : Prop :=
  Fr2 e e' ∨ (∃ f, e'.forks = f :: e.forks ∧ f.pc = pc ∧ f.offset = e.offset ∧
    (f.scopeindex, f.scopelimit) = e.scopes.save.1 ∧ e'.scopes = e.scopes.save.2 ∧
    e'.values = e.values ∧ e'.offset = e.offset)

/-- the panic sites a quiet instruction may reach; `arr` = the failed `.([]any)` of the `getpath` tail is allowed -/
def noEnvClo (arr : Bool) (s : Site) : Prop := s ≠ .envIndex ∧ s ≠ .assertClosure ∧ (arr = false → s ≠ .assertArray)

/-- sub-computations that keep scopes, forks, values, offset -/
def Q2 (arr : Bool) {α : Type} (m : M α) : Prop :=
  ∀ e, match m e with
    | .ok _ e' => Fr2 e e'
    | .panic s => noEnvClo arr s
    | .stuck _ => True

/-- … or push one fork -/
def QF (arr : Bool) {α : Type} (pc : Int) (m : M α) : Prop :=
  ∀ e, match m e with
    | .ok _ e' => FrF pc e e'
    | .panic s => noEnvClo arr s
    | .stuck _ => True

variable {arr : Bool}

def okRes (l : L) (r : Ctl × L) : Prop := (r.1 = .fall ∨ r.1 = .brk) ∧ r.2.pc = l.pc

def Quiet2 (arr : Bool) (l : L) (m : M (Ctl × L)) : Prop :=
  ∀ e, match m e with
    | .ok r e' => Fr2 e e' ∧ okRes l r
    | .panic s => noEnvClo arr s
    | .stuck _ => True

def QuietF (arr : Bool) (l : L) (m : M (Ctl × L)) : Prop :=
  ∀ e, match m e with
    | .ok r e' => FrF l.pc e e' ∧ okRes l r
    | .panic s => noEnvClo arr s
    | .stuck _ => True

theorem Q2.pure {α : Type} (a : α) : Q2 arr (pure a : M α) := fun e => Fr2.refl e
theorem Q2.panic {α : Type} {s : Site} (h : noEnvClo arr s) : Q2 arr (VM.panic s : M α) := fun _ => h
theorem Q2.stuck {α : Type} {w : String} : Q2 arr (VM.stuck w : M α) := fun _ => trivial

theorem Q2.bind {α β : Type} {m : M α} {f : α → M β} (hm : Q2 arr m) (hf : ∀ a, Q2 arr (f a)) : Q2 arr (m >>= f) := by
  intro e
  show match M.bind m f e with | .ok _ e' => Fr2 e e' | .panic s => noEnvClo arr s | .stuck _ => True
  have h1 := hm e
  unfold M.bind
  cases hme : m e with
  | ok a e1 =>
    rw [hme] at h1
    simp only
    have h2 := hf a e1
    cases hfe : f a e1 with
    | ok b e2 => rw [hfe] at h2; exact h1.trans h2
    | panic s => rw [hfe] at h2; exact h2
    | stuck w => trivial
  | panic s => rw [hme] at h1; exact h1
  | stuck w => trivial

theorem Q2.push (v : V) : Q2 arr (push v) := fun e => ⟨rfl, rfl, rfl, rfl⟩
theorem Q2.pop : Q2 arr pop := by
  intro e
  unfold VM.pop
  cases h : e.stack.pop? with
  | some p => exact ⟨rfl, rfl, rfl, rfl⟩
  | none => exact ⟨by decide, by decide, fun _ => by decide⟩
theorem Q2.tracking : Q2 arr tracking := fun e => Fr2.refl e
theorem Q2.pathsPush (v : V) : Q2 arr (pathsPush v) := fun e => ⟨rfl, rfl, rfl, rfl⟩
theorem Q2.pathsPop : Q2 arr pathsPop := by
  intro e
  unfold VM.pathsPop
  cases h : e.paths.pop? with
  | some p => exact ⟨rfl, rfl, rfl, rfl⟩
  | none => exact ⟨by decide, by decide, fun _ => by decide⟩
theorem Q2.pathsTop : Q2 arr pathsTop := by
  intro e
  unfold VM.pathsTop
  cases h : e.paths.top? with
  | some p => exact Fr2.refl e
  | none => exact ⟨by decide, by decide, fun _ => by decide⟩
theorem Q2.asJV (v : V) : Q2 arr (asJV v) := by
  cases v <;> first | exact Q2.pure _ | exact Q2.stuck
theorem Q2.extCall (x : ExtRec) : Q2 arr (extCall x) := by
  intro e
  unfold VM.extCall
  cases h : x.call with
  | some p => exact Fr2.refl e
  | none => trivial
theorem Q2.modify (f : Env → Env) (h : ∀ e, Fr2 e (f e)) : Q2 arr (modifyEnv f) := fun e => h e
theorem Q2.getEnv : Q2 arr getEnv := fun e => Fr2.refl e

theorem Q2.pathIntact (x : ExtRec) : Q2 arr (pathIntact x) := by
  unfold VM.pathIntact
  refine Q2.bind Q2.pathsTop (fun w => ?_)
  split
  · split
    · exact Q2.pure _
    · exact Q2.stuck
  · exact Q2.panic ⟨by decide, by decide, fun _ => by decide⟩

theorem Q2.pathBroken (x : ExtRec) : Q2 arr (pathBroken x) := by
  unfold VM.pathBroken
  refine Q2.bind Q2.tracking (fun b => ?_)
  split
  · exact Q2.bind (Q2.pathIntact x) (fun _ => Q2.pure _)
  · exact Q2.pure _

theorem Q2.poppathsLoop : ∀ (n : Nat) (acc : List JV), Q2 arr (poppathsLoop n acc) := by
  intro n
  induction n with
  | zero => intro acc; exact Q2.stuck
  | succ n ih =>
    intro acc
    unfold VM.poppathsLoop
    refine Q2.bind Q2.pathsPop (fun p => ?_)
    split
    · exact Q2.pure _
    · exact Q2.bind (Q2.asJV _) (fun _ => ih _)
    · exact Q2.panic ⟨by decide, by decide, fun _ => by decide⟩

theorem Q2.poppaths : Q2 arr poppaths := fun e => Q2.poppathsLoop _ _ e

theorem Q2.pushPaths (w : V) : ∀ (ps : List JV), Q2 arr (pushPaths w ps) := by
  intro ps
  induction ps with
  | nil => exact Q2.pure _
  | cons p ps ih =>
    unfold VM.pushPaths
    exact Q2.bind (Q2.pathsPush _) (fun _ => ih)

theorem Q2.popArgs : ∀ (n : Nat), Q2 arr (popArgs n) := by
  intro n
  induction n with
  | zero => exact Q2.pure _
  | succ n ih =>
    unfold VM.popArgs
    exact Q2.bind Q2.pop (fun _ => Q2.bind ih (fun _ => Q2.pure _))

theorem Q2.objectLoop (x : ExtRec) : ∀ (n : Nat) (m : List (Bytes × JV)), Q2 arr (objectLoop x n m) := by
  intro n
  induction n with
  | zero => intro m; exact Q2.pure _
  | succ n ih =>
    intro m
    unfold VM.objectLoop
    refine Q2.bind Q2.pop (fun v => Q2.bind Q2.pop (fun k => ?_))
    split
    · exact Q2.bind (Q2.asJV _) (fun _ => ih _)
    · exact Q2.pure _

theorem bind_panic_eq {α β : Type} {m : M α} {f : α → M β} {e : Env} {s : Site} (h : m e = .panic s) :
    (m >>= f) e = .panic s := by
  show M.bind m f e = _
  unfold M.bind; rw [h]

theorem QF.pushforkOver (v : V) (pc : Int) : QF arr pc (pushforkOver v pc) := by
  intro e
  unfold VM.pushforkOver
  rw [bind_ok_eq (push_eq _ _), bind_ok_eq (pushfork_eq _ _)]
  cases h : (pushforkEnv pc { e with stack := e.stack.push v }).stack.pop? with
  | some p =>
    have hp : pop (pushforkEnv pc { e with stack := e.stack.push v }) =
        .ok p.1 { (pushforkEnv pc { e with stack := e.stack.push v }) with stack := p.2 } := by
      unfold VM.pop; rw [h]
    rw [bind_ok_eq hp]
    right
    exact ⟨_, rfl, rfl, rfl, rfl, rfl, rfl, rfl⟩
  | none =>
    have hp : pop (pushforkEnv pc { e with stack := e.stack.push v }) = .panic .stackPop := by
      unfold VM.pop; rw [h]
    rw [bind_panic_eq hp]
    exact ⟨by decide, by decide, fun _ => by decide⟩

theorem Quiet2.pure {l : L} {r : Ctl × L} (h : okRes l r) : Quiet2 arr l (pure r) := fun e => ⟨Fr2.refl e, h⟩
theorem Quiet2.panic {l : L} {s : Site} (h : noEnvClo arr s) : Quiet2 arr l (VM.panic s) := fun _ => h
theorem Quiet2.stuck {l : L} {w : String} : Quiet2 arr l (VM.stuck w) := fun _ => trivial

theorem Quiet2.bind {α : Type} {l : L} {m : M α} {f : α → M (Ctl × L)} (hm : Q2 arr m) (hf : ∀ a, Quiet2 arr l (f a)) :
    Quiet2 arr l (m >>= f) := by
  intro e
  show match M.bind m f e with | .ok r e' => Fr2 e e' ∧ okRes l r | .panic s => noEnvClo arr s | .stuck _ => True
  have h1 := hm e
  unfold M.bind
  cases hme : m e with
  | ok a e1 =>
    rw [hme] at h1
    simp only
    have h2 := hf a e1
    cases hfe : f a e1 with
    | ok b e2 => rw [hfe] at h2; exact ⟨h1.trans h2.1, h2.2⟩
    | panic s => rw [hfe] at h2; exact h2
    | stuck w => trivial
  | panic s => rw [hme] at h1; exact h1
  | stuck w => trivial

theorem QuietF.of2 {l : L} {m : M (Ctl × L)} (h : Quiet2 arr l m) : QuietF arr l m := by
  intro e
  have := h e
  cases hme : m e with
  | ok r e' => rw [hme] at this; exact ⟨.inl this.1, this.2⟩
  | panic s => rw [hme] at this; exact this
  | stuck w => trivial

theorem FrF.after {pc : Int} {e e1 e2 : Env} (h : FrF pc e e1) (g : Fr2 e1 e2) : FrF pc e e2 := by
  rcases h with h | ⟨f, h1, h2, h3, h4, h5, h6, h7⟩
  · exact .inl (h.trans g)
  · exact .inr ⟨f, by rw [g.2.1, h1], h2, h3, h4, by rw [g.1, h5], by rw [g.2.2.1, h6], by rw [g.2.2.2, h7]⟩

theorem FrF.before {pc : Int} {e e1 e2 : Env} (h : Fr2 e e1) (g : FrF pc e1 e2) : FrF pc e e2 := by
  rcases g with g | ⟨f, h1, h2, h3, h4, h5, h6, h7⟩
  · exact .inl (h.trans g)
  · exact .inr ⟨f, by rw [h1, h.2.1], h2, by rw [h3, h.2.2.2], by rw [h4, h.1], by rw [h5, h.1],
      by rw [h6, h.2.2.1], by rw [h7, h.2.2.2]⟩

theorem QuietF.bind2 {α : Type} {l : L} {m : M α} {f : α → M (Ctl × L)} (hm : Q2 arr m) (hf : ∀ a, QuietF arr l (f a)) :
    QuietF arr l (m >>= f) := by
  intro e
  show match M.bind m f e with | .ok r e' => FrF l.pc e e' ∧ okRes l r | .panic s => noEnvClo arr s | .stuck _ => True
  have h1 := hm e
  unfold M.bind
  cases hme : m e with
  | ok a e1 =>
    rw [hme] at h1
    simp only
    have h2 := hf a e1
    cases hfe : f a e1 with
    | ok b e2 => rw [hfe] at h2; exact ⟨FrF.before h1 h2.1, h2.2⟩
    | panic s => rw [hfe] at h2; exact h2
    | stuck w => trivial
  | panic s => rw [hme] at h1; exact h1
  | stuck w => trivial

theorem QuietF.bindF {α : Type} {l : L} {m : M α} {f : α → M (Ctl × L)} (hm : QF arr l.pc m) (hf : ∀ a, Quiet2 arr l (f a)) :
    QuietF arr l (m >>= f) := by
  intro e
  show match M.bind m f e with | .ok r e' => FrF l.pc e e' ∧ okRes l r | .panic s => noEnvClo arr s | .stuck _ => True
  have h1 := hm e
  unfold M.bind
  cases hme : m e with
  | ok a e1 =>
    rw [hme] at h1
    simp only
    have h2 := hf a e1
    cases hfe : f a e1 with
    | ok b e2 => rw [hfe] at h2; exact ⟨FrF.after h1 h2.1, h2.2⟩
    | panic s => rw [hfe] at h2; exact h2
    | stuck w => trivial
  | panic s => rw [hme] at h1; exact h1
  | stuck w => trivial

macro "q2_tac" : tactic => `(tactic| first
  | exact Q2.push _ | exact Q2.pop | exact Q2.tracking | exact Q2.pathIntact _ | exact Q2.pathsPush _
  | exact Q2.asJV _ | exact Q2.pushPaths _ _ | exact Q2.pathsPop | exact Q2.poppaths | exact Q2.pathBroken _
  | exact Q2.extCall _ | exact Q2.popArgs _ | exact Q2.objectLoop _ _ _ | exact Q2.getEnv
  | exact Q2.modify _ (fun _ => ⟨rfl, rfl, rfl, rfl⟩))

macro "quiet2_tac" : tactic => `(tactic| repeat' (first
  | exact Quiet2.pure ⟨Or.inl rfl, rfl⟩ | exact Quiet2.pure ⟨Or.inr rfl, rfl⟩
  | exact Quiet2.panic ⟨by decide, by decide, fun _ => by decide⟩
  | exact Quiet2.panic ⟨by decide, by decide, fun h => by cases h⟩ | exact Quiet2.stuck
  | refine Quiet2.bind (by q2_tac) (fun _ => ?_)
  | split))

macro "quietF_tac" : tactic => `(tactic| repeat' (first
  | exact QuietF.of2 (Quiet2.pure ⟨Or.inl rfl, rfl⟩) | exact QuietF.of2 (Quiet2.pure ⟨Or.inr rfl, rfl⟩)
  | exact QuietF.of2 (Quiet2.panic ⟨by decide, by decide, fun _ => by decide⟩)
  | exact QuietF.of2 (Quiet2.panic ⟨by decide, by decide, fun h => by cases h⟩) | exact QuietF.of2 Quiet2.stuck
  | refine QuietF.bind2 (by q2_tac) (fun _ => ?_)
  | (refine QuietF.bindF (QF.pushforkOver _ _) (fun _ => ?_); quiet2_tac)
  | split))

theorem quiet_object (n : Int) (x : ExtRec) (l : L) : QuietF false l (exec (.object n) x l) := by
  simp only [exec]
  quietF_tac

theorem quiet_index (k : JV) (x : ExtRec) (l : L) : QuietF false l (exec (.index k) x l) := by
  simp only [exec, exec.execIndex]
  quietF_tac

theorem quiet_indexarray (k : JV) (x : ExtRec) (l : L) : QuietF false l (exec (.indexarray k) x l) := by
  simp only [exec, exec.execIndex]
  quietF_tac

theorem quiet_pathend (x : ExtRec) (l : L) : QuietF false l (exec .pathend x l) := by
  simp only [exec]
  quietF_tac

theorem quiet_iter (x : ExtRec) (l : L) : QuietF false l (exec .iter x l) := by
  simp only [exec, iterEmit, iterInvalid]
  quietF_tac

theorem quiet_callNative (kind : NativeKind) (argc : Int) (x : ExtRec) (l : L) : QuietF true l (exec (.callNative kind argc) x l) := by
  simp only [exec]
  quietF_tac

/-! ## what a quiet instruction does to the view -/

def forkKeys (fs : List FView) : List (Int × List (Int × Scope)) := fs.map fun f => (f.pc, f.frames)

theorem ForksConf2.iff_keys {S : SC} {Ct : Cert} {d vs} {fs : List FView} :
    ForksConf2 S Ct d vs fs ↔ ∀ k ∈ forkKeys fs, BConf2 S Ct d vs k.1 k.2 := by
  unfold ForksConf2 forkKeys
  constructor
  · intro h k hk
    obtain ⟨f, hf, rfl⟩ := List.mem_map.mp hk
    exact h f hf
  · intro h f hf
    exact h (f.pc, f.frames) (List.mem_map.mpr ⟨f, hf, rfl⟩)

theorem forkKeys_eq : ∀ {fs gs : List FView}, fs.map (·.pc) = gs.map (·.pc) → fs.map (·.frames) = gs.map (·.frames) →
    forkKeys fs = forkKeys gs
  | [], [], _, _ => rfl
  | [], _ :: _, h, _ => by simp at h
  | _ :: _, [], h, _ => by simp at h
  | f :: fs, g :: gs, h1, h2 => by
    simp only [List.map_cons, List.cons.injEq] at h1 h2
    simp only [forkKeys, List.map_cons, List.cons.injEq]
    exact ⟨by rw [h1.1, h2.1], forkKeys_eq h1.2 h2.2⟩

theorem view_fr2 {e e' : Env} {A A' : AView} (hV : View e A) (hV' : View e' A') (h : Fr2 e e') :
    A'.frames = A.frames ∧ forkKeys A'.forks = forkKeys A.forks := by
  obtain ⟨h1, h2, _, _⟩ := h
  have c := hV'.scopes
  rw [h1, h2] at c
  have hp := hV'.pcs
  rw [h2] at hp
  exact ⟨c.chain.unique hV.scopes.chain,
    forkKeys_eq (by rw [← hp, hV.pcs]) (Olds.unique c.olds hV.scopes.olds)⟩

theorem view_frF {pc : Int} {e e' : Env} {A A' : AView} (hV : View e A) (hV' : View e' A') (h : FrF pc e e') :
    A'.frames = A.frames ∧ (forkKeys A'.forks = forkKeys A.forks ∨ forkKeys A'.forks = (pc, A.frames) :: forkKeys A.forks) := by
  rcases h with h | ⟨f, h1, h2, h3, h4, h5, h6, h7⟩
  · have := view_fr2 hV hV' h
    exact ⟨this.1, .inl this.2⟩
  · obtain ⟨s0, s1, s2, s3⟩ := save_facts e.scopes
    have c := hV'.scopes
    rw [h5, h1] at c
    have hch : ChainI e.scopes.data e.scopes.index A'.frames := by
      have := c.chain; rw [s1, s2] at this; exact this
    have hfr := hch.unique hV.scopes.chain
    refine ⟨hfr, .inr ?_⟩
    have hp := hV'.pcs
    rw [h1] at hp
    cases hA' : A'.forks with
    | nil => rw [hA'] at hp; simp at hp
    | cons g rest =>
      rw [hA'] at hp c
      simp only [List.map_cons, List.cons.injEq, scSaved] at hp c
      have ho := c.olds
      rw [s1] at ho
      obtain ⟨ho1, ho2⟩ := ho
      have hidx : f.scopeindex = e.scopes.index := by
        have := congrArg Prod.fst h4; rw [s0] at this; exact this
      simp only at ho1
      rw [hidx] at ho1
      have hgf := ho1.unique hV.scopes.chain
      simp only [forkKeys, List.map_cons, List.cons.injEq]
      refine ⟨by rw [← hp.1, h2, hgf], ?_⟩
      exact forkKeys_eq (by rw [← hp.2, hV.pcs]) (Olds.unique ho2 hV.scopes.olds)

end Gojq.SafeVM

/-
  Composition lemmas for C17 (Props/C17Window.lean): what `getLineByOffset` computes on a WINDOW
  `inp[pos : e]` of a text, in terms of what it computes on the whole text.

  * `excerptO L o`  — the part of `getLineByOffset` after the line loop, for the clamped position `o`
    of the offending byte within its line `L` (`excerpt L off = excerptO L (clamp off)`).
  * `getLineByOffset'_drop` / `getLineByOffset'_take` — on a suffix / prefix of the text the loop finds
    the true line clipped to the suffix / prefix, and the same position in it.
  * `excerptO_drop` / `excerptO_take` — clipping the line on the left / right does not change the
    excerpt nor the caret when enough of the line is kept (≥ 51 bytes before the offending byte, or
    the whole left part; ≥ 64 bytes from the line start and ≥ 16 from the offending byte, or the
    whole right part).
-/
import Gojq.Proofs.LineInfo
namespace Gojq.Cli
open Gojq

/-! ## `excerpt` as a function of the clamped position -/

/-- the body of `excerpt` for the clamped position `o` (`o ≤ |linestr|`) -/
def excerptO (linestr : Bytes) (o : Nat) : Bytes × Nat :=
  let skip := if o > 48 then (trimLastInvalidRune (linestr.take (o - 48))).length else 0
  let linestr := linestr.drop skip
  let o := o - skip
  let linestr := trimLastInvalidRune (linestr.take (min 64 linestr.length))
  let o := if o < linestr.length then (trimLastInvalidRune (linestr.take o)).length else linestr.length
  (linestr, o)

theorem excerpt_eq_excerptO (L : Bytes) (off : Int) :
    excerpt L off = excerptO L (min (max (off - 1) 0).toNat L.length) := rfl

/-- `getLineByOffset'` through the specification vocabulary and `excerptO` -/
theorem getLineByOffset'_specO (str : Bytes) (hne : str ≠ []) (q : Nat) :
    getLineByOffset' str ((q : Int) + 1) =
      ((excerptO (trueLine str (min q (str.length - 1)))
          (min (q - lineStart str (min q (str.length - 1))) (trueLine str (min q (str.length - 1))).length)).1,
       1 + termsBefore str (min q (str.length - 1)),
       (excerptO (trueLine str (min q (str.length - 1)))
          (min (q - lineStart str (min q (str.length - 1))) (trueLine str (min q (str.length - 1))).length)).2) := by
  obtain ⟨rel, heq, hrel⟩ := getLineByOffset'_spec str hne q
  rw [heq, excerpt_eq_excerptO, hrel]

/-! ## `trimLastInvalidRune` looks at the last three bytes only -/

theorem trimLoop_drop (s : Bytes) (d : Nat) : ∀ steps i1, d + steps ≤ i1 →
    trimLoop (s.drop d) steps (i1 - d) = (trimLoop s steps i1).drop d := by
  intro steps
  induction steps with
  | zero => intro i1 _; simp [trimLoop]
  | succ st ih =>
    intro i1 h
    obtain ⟨i, rfl⟩ : ∃ i, i1 = i + 1 := ⟨i1 - 1, by omega⟩
    have e1 : i + 1 - d = (i - d) + 1 := by omega
    rw [e1, trimLoop, trimLoop]
    have hget : (s.drop d)[i - d]? = s[i]? := by
      rw [List.getElem?_drop]; congr 1; omega
    rw [hget]
    cases hb : s[i]? with
    | none => rfl
    | some b =>
      simp only
      have hdd : (s.drop d).drop (i - d) = s.drop i := by
        rw [List.drop_drop]; congr 1; omega
      rw [hdd]
      split
      · rw [List.drop_take]; congr 1; omega
      · split
        · split
          · rw [List.drop_take]
          · rfl
        · exact ih i (by omega)

/-- dropping `d` bytes in front of a string that keeps ≥ 3 bytes commutes with the trimming -/
theorem trim_drop (s : Bytes) (d : Nat) (h : d + 3 ≤ s.length) :
    trimLastInvalidRune (s.drop d) = (trimLastInvalidRune s).drop d := by
  unfold trimLastInvalidRune
  rw [List.length_drop]
  exact trimLoop_drop s d 3 s.length h

/-! ## clipping the line on the left -/

theorem excerptO_drop (L : Bytes) (d o : Nat) (ho : o ≤ L.length) (h : d = 0 ∨ d + 51 ≤ o) :
    excerptO (L.drop d) (o - d) = excerptO L o := by
  rcases h with rfl | h
  · simp
  · have hlen : (L.take (o - 48)).length = o - 48 := by rw [List.length_take]; omega
    have htl := trim_length (L.take (o - 48))
    have htd : trimLastInvalidRune ((L.drop d).take (o - d - 48)) = (trimLastInvalidRune (L.take (o - 48))).drop d := by
      rw [← trim_drop _ _ (by omega), List.drop_take]
      congr 2; omega
    unfold excerptO
    rw [if_pos (by omega), if_pos (by omega), htd, List.length_drop]
    generalize hsk : (trimLastInvalidRune (L.take (o - 48))).length = skip at *
    have e1 : (L.drop d).drop (skip - d) = L.drop skip := by
      rw [List.drop_drop]; congr 1; omega
    have e2 : o - d - (skip - d) = o - skip := by omega
    simp only [e1, e2]

/-! ## clipping the line on the right -/

theorem excerptO_take (L : Bytes) (r o : Nat) (_hor : o ≤ r)
    (h : L.length ≤ r ∨ (64 ≤ r ∧ o + 16 ≤ r)) :
    excerptO (L.take r) o = excerptO L o := by
  rcases h with h | ⟨h64, h16⟩
  · rw [List.take_of_length_le h]
  · by_cases hr : L.length ≤ r
    · rw [List.take_of_length_le hr]
    · have htt : (L.take r).take (o - 48) = L.take (o - 48) := by
        rw [List.take_take]; congr 1; omega
      unfold excerptO
      rw [htt]
      generalize hsk : (if o > 48 then (trimLastInvalidRune (L.take (o - 48))).length else 0) = skip
      have hskip : skip + 64 ≤ r := by
        have htl := trim_length (L.take (o - 48))
        have hlen : (L.take (o - 48)).length ≤ o - 48 := by rw [List.length_take]; omega
        rw [← hsk]; split <;> omega
      have e1 : ((L.take r).drop skip).take (min 64 ((L.take r).drop skip).length)
          = (L.drop skip).take (min 64 (L.drop skip).length) := by
        rw [List.drop_take, List.take_take, List.length_take, List.length_drop]
        congr 1; omega
      simp only [e1]

/-! ## the line loop on a suffix of the text -/

theorem lineStart_drop (s : Bytes) (pos p : Nat) :
    lineStart (s.drop pos) p = max (lineStart s (pos + p)) pos - pos := by
  induction p with
  | zero => have := lineStart_le s pos; simp only [lineStart, Nat.add_zero]; omega
  | succ p ih =>
    rw [← Nat.add_assoc]
    simp only [lineStart, termEndsAt_drop, ih]
    split <;> omega

theorem lineStart_noterm (s : Bytes) : ∀ P j, lineStart s P ≤ j → j < P → termEndsAt s j = false := by
  intro P
  induction P with
  | zero => intro j _ h; omega
  | succ P ih =>
    intro j h1 h2
    simp only [lineStart] at h1
    split at h1
    · omega
    · rename_i hf
      by_cases hj : j = P
      · subst hj; simpa using hf
      · exact ih j h1 (by omega)

theorem termEndsAt_cons_succ (a : UInt8) (X : Bytes) (j : Nat) : termEndsAt (a :: X) (j + 1) = termEndsAt X j := by
  simp [termEndsAt]

/-- dropping `d` bytes that lie inside a line (no terminator ends within the first `d + p` bytes)
    drops `d` bytes of the line -/
theorem takeWhile_drop_noterm : ∀ (d : Nat) (X : Bytes) (p : Nat), (∀ j, j < d + p → termEndsAt X j = false) →
    (X.drop d).takeWhile (fun b => !isNL b) = (X.takeWhile (fun b => !isNL b)).drop d := by
  intro d
  induction d with
  | zero => intro X p _; simp
  | succ d ih =>
    intro X p h
    cases X with
    | nil => simp
    | cons a X =>
      rw [List.drop_succ_cons]
      by_cases hfa : isNL a = true
      · have htw : (a :: X).takeWhile (fun b => !isNL b) = [] := by simp [List.takeWhile, hfa]
        rw [htw, List.drop_nil]
        have h0 := h 0 (by omega)
        simp only [isNL, Bool.or_eq_true, beq_iff_eq] at hfa
        rcases hfa with rfl | rfl
        · simp [termEndsAt] at h0
        · -- CR: the next byte is LF
          have hX0 : X[0]? = some LF := by
            have hne2 : (some CR == some LF) = false := by decide
            simpa [termEndsAt, hne2] using h0
          by_cases h1 : 1 < d + 1 + p
          · have := h 1 h1
            simp [termEndsAt, hX0] at this
          · have hd : d = 0 := by omega
            subst hd
            cases X with
            | nil => simp
            | cons x X =>
              have : x = LF := by simpa using hX0
              subst this
              simp [isNL]
      · have hfa' : (!isNL a) = true := by simpa using hfa
        have htw : (a :: X).takeWhile (fun b => !isNL b) = a :: X.takeWhile (fun b => !isNL b) := by
          simp [List.takeWhile, hfa']
        rw [htw, List.drop_succ_cons]
        exact ih X p (fun j hj => by rw [← termEndsAt_cons_succ a]; exact h (j + 1) (by omega))

theorem trueLine_drop (s : Bytes) (pos p : Nat) :
    trueLine (s.drop pos) p = (trueLine s (pos + p)).drop (max (lineStart s (pos + p)) pos - lineStart s (pos + p)) := by
  have hle := lineStart_le s (pos + p)
  unfold trueLine
  rw [lineStart_drop, List.drop_drop]
  by_cases hc : pos ≤ lineStart s (pos + p)
  · have e1 : pos + (max (lineStart s (pos + p)) pos - pos) = lineStart s (pos + p) := by omega
    have e2 : max (lineStart s (pos + p)) pos - lineStart s (pos + p) = 0 := by omega
    rw [e1, e2, List.drop_zero]
  · have e1 : pos + (max (lineStart s (pos + p)) pos - pos) = lineStart s (pos + p) + (pos - lineStart s (pos + p)) := by omega
    have e2 : max (lineStart s (pos + p)) pos - lineStart s (pos + p) = pos - lineStart s (pos + p) := by omega
    rw [e1, e2, ← List.drop_drop]
    apply takeWhile_drop_noterm _ _ p
    intro j hj
    rw [termEndsAt_drop]
    exact lineStart_noterm s (pos + p) _ (by omega) (by omega)

/-- **`getLineByOffset` on a suffix of the text.** For the relative 1-based offset `q+1` in
    `s[pos:]`: with `p` the offending byte of `s` (clamped to the last byte), `L` its line, `ls` the
    line's start and `d = max ls pos - ls` the number of bytes of `L` that lie before the suffix, the
    loop finds `L[d:]` and the same position in it; the line count is the number of terminators
    between `pos` and `p`. -/
theorem getLineByOffset'_drop (s : Bytes) (pos q : Nat) (hpos : pos < s.length) :
    getLineByOffset' (s.drop pos) ((q : Int) + 1) =
      ((excerptO ((trueLine s (min (pos + q) (s.length - 1))).drop
            (max (lineStart s (min (pos + q) (s.length - 1))) pos - lineStart s (min (pos + q) (s.length - 1))))
          (min (pos + q - lineStart s (min (pos + q) (s.length - 1))) (trueLine s (min (pos + q) (s.length - 1))).length
            - (max (lineStart s (min (pos + q) (s.length - 1))) pos - lineStart s (min (pos + q) (s.length - 1))))).1,
       1 + (termsBefore s (min (pos + q) (s.length - 1)) - termsBefore s pos),
       (excerptO ((trueLine s (min (pos + q) (s.length - 1))).drop
            (max (lineStart s (min (pos + q) (s.length - 1))) pos - lineStart s (min (pos + q) (s.length - 1))))
          (min (pos + q - lineStart s (min (pos + q) (s.length - 1))) (trueLine s (min (pos + q) (s.length - 1))).length
            - (max (lineStart s (min (pos + q) (s.length - 1))) pos - lineStart s (min (pos + q) (s.length - 1))))).2) := by
  have hne : s.drop pos ≠ [] := by
    intro h; have := congrArg List.length h; simp at this; omega
  rw [getLineByOffset'_specO _ hne]
  have hdl : (s.drop pos).length = s.length - pos := List.length_drop
  have hp : min (pos + q) (s.length - 1) = pos + min q ((s.drop pos).length - 1) := by omega
  rw [hp]
  generalize min q ((s.drop pos).length - 1) = p' at *
  have hp'q : p' ≤ q := by omega
  have hle := lineStart_le s (pos + p')
  rw [trueLine_drop, lineStart_drop, termsBefore_add s pos p', List.length_drop]
  generalize lineStart s (pos + p') = ls at *
  generalize (trueLine s (pos + p')).length = n
  have e1 : min (q - (max ls pos - pos)) (n - (max ls pos - ls)) = min (pos + q - ls) n - (max ls pos - ls) := by omega
  have e2 : termsBefore s pos + termsBefore (s.drop pos) p' - termsBefore s pos = termsBefore (s.drop pos) p' := by omega
  rw [e1, e2]

/-! ## the line loop on a prefix of the text -/

theorem lineStart_take (s : Bytes) (e q : Nat) (h : q < e) : lineStart (s.take e) q = lineStart s q := by
  induction q with
  | zero => rfl
  | succ q ih => rw [lineStart, lineStart, ih (by omega), termEndsAt_take _ _ _ (by omega)]

theorem takeWhile_take (f : UInt8 → Bool) : ∀ (l : Bytes) (n : Nat), (l.take n).takeWhile f = (l.takeWhile f).take n := by
  intro l
  induction l with
  | nil => intro n; simp
  | cons a l ih =>
    intro n
    cases n with
    | zero => simp
    | succ n =>
      rw [List.take_succ_cons]
      by_cases hfa : f a = true
      · simp [List.takeWhile, hfa, ih]
      · have : f a = false := by simpa using hfa
        simp [List.takeWhile, this]

theorem trueLine_take (s : Bytes) (e q : Nat) (h : q < e) :
    trueLine (s.take e) q = (trueLine s q).take (e - lineStart s q) := by
  unfold trueLine
  rw [lineStart_take _ _ _ h, List.drop_take, takeWhile_take]

/-- **`getLineByOffset` on a prefix of the text** that contains the offending byte `q`: the loop
    finds the true line clipped at the prefix's end, the same position in it and the same count. -/
theorem getLineByOffset'_take (s : Bytes) (e q : Nat) (hq : q < e) (he : e ≤ s.length) :
    getLineByOffset' (s.take e) ((q : Int) + 1) =
      ((excerptO ((trueLine s q).take (e - lineStart s q)) (min (q - lineStart s q) (trueLine s q).length)).1,
       1 + termsBefore s q,
       (excerptO ((trueLine s q).take (e - lineStart s q)) (min (q - lineStart s q) (trueLine s q).length)).2) := by
  have hlen : (s.take e).length = e := by rw [List.length_take]; omega
  have hne : s.take e ≠ [] := by
    intro h; have := congrArg List.length h; rw [hlen] at this; simp at this; omega
  rw [getLineByOffset'_specO _ hne, hlen]
  have hp : min q (e - 1) = q := by omega
  have hle := lineStart_le s q
  rw [hp, trueLine_take _ _ _ hq, lineStart_take _ _ _ hq, termsBefore_take _ _ _ hq, List.length_take]
  have e1 : min (q - lineStart s q) (min (e - lineStart s q) (trueLine s q).length)
      = min (q - lineStart s q) (trueLine s q).length := by omega
  rw [e1]

end Gojq.Cli

namespace Gojq.Cli
open Gojq

/-! ## windows `inp[pos : pos+m]` -/

theorem termsBefore_mono (s : Bytes) (a b : Nat) (h : a ≤ b) : termsBefore s a ≤ termsBefore s b := by
  obtain ⟨d, rfl⟩ : ∃ d, b = a + d := ⟨b - a, by omega⟩
  rw [termsBefore_add]; omega

/-- the offending byte lies on its line or on the (at most two-byte) terminator right after it -/
theorem le_line_end_aux : ∀ (X : Bytes) (t : Nat), (∀ j, j < t → termEndsAt X j = false) → t ≤ X.length →
    t ≤ (X.takeWhile (fun b => !isNL b)).length + 1 := by
  intro X
  induction X with
  | nil => intro t _ h; simp at h; omega
  | cons a X ih =>
    intro t h hl
    by_cases hfa : isNL a = true
    · have htw : (a :: X).takeWhile (fun b => !isNL b) = [] := by simp [List.takeWhile, hfa]
      rw [htw]
      simp only [List.length_nil, Nat.zero_add]
      by_cases ht : t ≤ 1
      · exact ht
      · exfalso
        have h0 := h 0 (by omega)
        simp only [isNL, Bool.or_eq_true, beq_iff_eq] at hfa
        rcases hfa with rfl | rfl
        · simp [termEndsAt] at h0
        · have hX0 : X[0]? = some LF := by
            have hne2 : (some CR == some LF) = false := by decide
            simpa [termEndsAt, hne2] using h0
          have := h 1 (by omega)
          simp [termEndsAt, hX0] at this
    · have hfa' : (!isNL a) = true := by simpa using hfa
      have htw : (a :: X).takeWhile (fun b => !isNL b) = a :: X.takeWhile (fun b => !isNL b) := by
        simp [List.takeWhile, hfa']
      rw [htw, List.length_cons]
      cases t with
      | zero => omega
      | succ t =>
        have := ih t (fun j hj => by rw [← termEndsAt_cons_succ a]; exact h (j + 1) (by omega))
          (by simpa using hl)
        omega

theorem le_line_end (s : Bytes) (P : Nat) (hP : P ≤ s.length) :
    P ≤ lineStart s P + (trueLine s P).length + 1 := by
  have hle := lineStart_le s P
  have := le_line_end_aux (s.drop (lineStart s P)) (P - lineStart s P)
    (fun j hj => by rw [termEndsAt_drop]; exact lineStart_noterm s P _ (by omega) (by omega))
    (by rw [List.length_drop]; omega)
  unfold trueLine
  omega

/-- the true line of byte `P` clipped to the window `[pos, e)` -/
def clipLine (inp : Bytes) (pos e P : Nat) : Bytes :=
  ((trueLine inp P).take (e - lineStart inp P)).drop (max (lineStart inp P) pos - lineStart inp P)

/-- position of the offending byte `P` in the clipped line (`q` = unclamped offending position) -/
def clipPos (inp : Bytes) (pos P q : Nat) : Nat :=
  min (q - lineStart inp P) (trueLine inp P).length - (max (lineStart inp P) pos - lineStart inp P)

/-- **The composition lemma, general form.** On the window `inp[pos : pos+m]`, for a relative
    1-based offset `q+1` inside it, `getLineByOffset` computes the excerpt and the caret from the
    true line of byte `pos+q` CLIPPED TO THE WINDOW, and counts the terminators between `pos` and
    that byte. -/
theorem getLineByOffset'_window (inp : Bytes) (pos m q : Nat) (hm : pos + m ≤ inp.length) (hq : q < m) :
    getLineByOffset' ((inp.drop pos).take m) ((q : Int) + 1) =
      ((excerptO (clipLine inp pos (pos + m) (pos + q)) (clipPos inp pos (pos + q) (pos + q))).1,
       1 + (termsBefore inp (pos + q) - termsBefore inp pos),
       (excerptO (clipLine inp pos (pos + m) (pos + q)) (clipPos inp pos (pos + q) (pos + q))).2) := by
  have hwin : (inp.drop pos).take m = (inp.take (pos + m)).drop pos := by
    rw [List.drop_take]; congr 1; omega
  have hlen : (inp.take (pos + m)).length = pos + m := by rw [List.length_take]; omega
  rw [hwin, getLineByOffset'_drop _ _ _ (by omega), hlen]
  have hp : min (pos + q) (pos + m - 1) = pos + q := by omega
  have hle := lineStart_le inp (pos + q)
  rw [hp, lineStart_take _ _ _ (by omega), trueLine_take _ _ _ (by omega), termsBefore_take _ _ _ (by omega),
    termsBefore_take _ _ _ (by omega), List.length_take]
  have e1 : min (pos + q - lineStart inp (pos + q)) (min (pos + m - lineStart inp (pos + q)) (trueLine inp (pos + q)).length)
      = min (pos + q - lineStart inp (pos + q)) (trueLine inp (pos + q)).length := by omega
  rw [e1]
  rfl

/-- `getLineByOffset` on the whole text, for an offending byte inside it -/
theorem getLineByOffset'_whole (inp : Bytes) (P : Nat) (hP : P < inp.length) :
    getLineByOffset' inp ((P : Int) + 1) =
      ((excerptO (trueLine inp P) (min (P - lineStart inp P) (trueLine inp P).length)).1,
       1 + termsBefore inp P,
       (excerptO (trueLine inp P) (min (P - lineStart inp P) (trueLine inp P).length)).2) := by
  have hne : inp ≠ [] := by intro h; subst h; simp at hP
  rw [getLineByOffset'_specO _ hne]
  have hp : min P (inp.length - 1) = P := by omega
  rw [hp]

/-- **When clipping changes nothing.** `Left`: the window starts at or before the line start, or
    ≥ 51 bytes before the offending position `ls + o` of the line. `Right`: the window reaches the
    end of the line, or ≥ 64 bytes beyond the line start and ≥ 16 bytes beyond the offending byte. -/
theorem clip_excerpt_eq (inp : Bytes) (pos e P : Nat) (hP : P < e)
    (hleft : pos ≤ lineStart inp P ∨ pos + 51 ≤ lineStart inp P + min (P - lineStart inp P) (trueLine inp P).length)
    (hright : lineStart inp P + (trueLine inp P).length ≤ e ∨ (lineStart inp P + 64 ≤ e ∧ P + 16 ≤ e)) :
    excerptO (clipLine inp pos e P) (clipPos inp pos P P) =
      excerptO (trueLine inp P) (min (P - lineStart inp P) (trueLine inp P).length) := by
  have hle := lineStart_le inp P
  unfold clipLine clipPos
  rw [excerptO_drop _ _ _ (by rw [List.length_take]; omega) (by omega)]
  exact excerptO_take _ _ _ (by omega) (by omega)

/-- the report in terms of `getLineByOffset'` -/
theorem jsonReport_syntax (w : Nat → Nat) (c : Bytes) (l : Nat) (off : Int) :
    jsonReport w c l (.syntax off) =
      { multi := decide ((getLineByOffset' c off).2.1 + l > 1), line := (getLineByOffset' c off).2.1 + l,
        linestr := (getLineByOffset' c off).1,
        column := strWidth w ((getLineByOffset' c off).1.take (getLineByOffset' c off).2.2) } := by
  simp only [jsonReport, getLineByOffset]
  rfl

theorem jsonReport_eof (w : Nat → Nat) (c : Bytes) (l : Nat) :
    jsonReport w c l .unexpectedEOF = jsonReport w c l (.syntax ((c.length : Int) + 1)) := by
  simp only [jsonReport]

/-- the report `jsonParseError.Error` prints when it is given the WHOLE input, no skipped lines and
    the absolute offset: the reference the window / re-read reports are compared with -/
def wholeReport (w : Nat → Nat) (inp : Bytes) (e : JsonErr) : Report := jsonReport w inp 0 e

/-- the report computed from the true line of byte `P` clipped to the window `[pos, e)`: line number
    of `P` in the whole text, excerpt and caret of `getLineByOffset`'s second half run on the clipped line -/
def clippedReport (w : Nat → Nat) (inp : Bytes) (pos e P : Nat) : Report :=
  { multi := decide (1 + termsBefore inp P > 1), line := 1 + termsBefore inp P,
    linestr := (excerptO (clipLine inp pos e P) (clipPos inp pos P P)).1,
    column := strWidth w ((excerptO (clipLine inp pos e P) (clipPos inp pos P P)).1.take
      (excerptO (clipLine inp pos e P) (clipPos inp pos P P)).2) }

/-- the report from a window, general form: everything is computed from the clipped line -/
theorem jsonReport_window (w : Nat → Nat) (inp : Bytes) (pos m q line : Nat) (hm : pos + m ≤ inp.length) (hq : q < m)
    (hl : line = termsBefore inp pos) :
    jsonReport w ((inp.drop pos).take m) line (.syntax ((q : Int) + 1)) = clippedReport w inp pos (pos + m) (pos + q) := by
  have hmono := termsBefore_mono inp pos (pos + q) (by omega)
  rw [jsonReport_syntax, getLineByOffset'_window inp pos m q hm hq, hl]
  have e1 : 1 + (termsBefore inp (pos + q) - termsBefore inp pos) + termsBefore inp pos = 1 + termsBefore inp (pos + q) := by omega
  simp only [e1]
  rfl

theorem wholeReport_syntax (w : Nat → Nat) (inp : Bytes) (P : Nat) (hP : P < inp.length) :
    wholeReport w inp (.syntax ((P : Int) + 1)) =
      { multi := decide (1 + termsBefore inp P > 1), line := 1 + termsBefore inp P,
        linestr := (excerptO (trueLine inp P) (min (P - lineStart inp P) (trueLine inp P).length)).1,
        column := strWidth w ((excerptO (trueLine inp P) (min (P - lineStart inp P) (trueLine inp P).length)).1.take
          (excerptO (trueLine inp P) (min (P - lineStart inp P) (trueLine inp P).length)).2) } := by
  unfold wholeReport
  rw [jsonReport_syntax, getLineByOffset'_whole inp P hP]
  rfl

/-- window report = whole report when the clipping is harmless -/
theorem jsonReport_window_eq_whole (w : Nat → Nat) (inp : Bytes) (pos m q line : Nat) (hm : pos + m ≤ inp.length) (hq : q < m)
    (hl : line = termsBefore inp pos)
    (hleft : pos ≤ lineStart inp (pos + q) ∨
      pos + 51 ≤ lineStart inp (pos + q) + min (pos + q - lineStart inp (pos + q)) (trueLine inp (pos + q)).length)
    (hright : lineStart inp (pos + q) + (trueLine inp (pos + q)).length ≤ pos + m ∨
      (lineStart inp (pos + q) + 64 ≤ pos + m ∧ pos + q + 16 ≤ pos + m)) :
    jsonReport w ((inp.drop pos).take m) line (.syntax ((q : Int) + 1)) = wholeReport w inp (.syntax (((pos + q : Nat) : Int) + 1)) := by
  rw [jsonReport_window w inp pos m q line hm hq hl, wholeReport_syntax w inp (pos + q) (by omega)]
  unfold clippedReport
  rw [clip_excerpt_eq inp pos (pos + m) (pos + q) (by omega) hleft hright]

end Gojq.Cli

namespace Gojq.Cli
open Gojq

/-! ## `io.ErrUnexpectedEOF`: the offset is one past the end of the window -/

/-- a window that reaches the end of the input, EOF error: same report as on the whole input
    provided the left clipping is harmless -/
theorem jsonReport_suffix_eof (w : Nat → Nat) (inp : Bytes) (pos line : Nat) (hpos : pos < inp.length)
    (hl : line = termsBefore inp pos)
    (hleft : pos ≤ lineStart inp (inp.length - 1) ∨
      pos + 51 ≤ lineStart inp (inp.length - 1) +
        min (inp.length - lineStart inp (inp.length - 1)) (trueLine inp (inp.length - 1)).length) :
    jsonReport w (inp.drop pos) line .unexpectedEOF = wholeReport w inp .unexpectedEOF := by
  have hne : inp ≠ [] := by intro h; subst h; simp at hpos
  have hmono := termsBefore_mono inp pos (inp.length - 1) (by omega)
  have hle := lineStart_le inp (inp.length - 1)
  unfold wholeReport
  rw [jsonReport_eof, jsonReport_eof, jsonReport_syntax, jsonReport_syntax, List.length_drop,
    getLineByOffset'_drop inp pos (inp.length - pos) hpos, getLineByOffset'_specO inp hne inp.length]
  have hp1 : min (pos + (inp.length - pos)) (inp.length - 1) = inp.length - 1 := by omega
  have hp2 : min inp.length (inp.length - 1) = inp.length - 1 := by omega
  have hp3 : pos + (inp.length - pos) = inp.length := by omega
  rw [hp1, hp2, hp3, hl]
  have hlinelen : (trueLine inp (inp.length - 1)).length ≤ inp.length - lineStart inp (inp.length - 1) := by
    unfold trueLine
    have := (List.takeWhile_prefix (l := inp.drop (lineStart inp (inp.length - 1))) (fun b => !isNL b)).length_le
    rw [List.length_drop] at this; exact this
  rw [← excerptO_drop (trueLine inp (inp.length - 1))
    (max (lineStart inp (inp.length - 1)) pos - lineStart inp (inp.length - 1))
    (min (inp.length - lineStart inp (inp.length - 1)) (trueLine inp (inp.length - 1)).length) (by omega) (by omega)]
  have e1 : 1 + (termsBefore inp (inp.length - 1) - termsBefore inp pos) + termsBefore inp pos
      = 1 + termsBefore inp (inp.length - 1) + 0 := by omega
  simp only [e1]

/-! ## the two paths of `jsonInputIter.Next` -/

/-- **Pipe, general form**: under the window invariant, a syntax error at absolute 1-based offset `F`
    beyond the last decoded value and within the bytes read is reported with the line number of
    byte `F-1` in the whole input and the excerpt / caret of its line clipped to the window. -/
theorem window_report_clipped_aux (w : Nat → Nat) {inp : Bytes} {s : Win} {le : Nat} (h : WinInv inp s le)
    (F : Nat) (h1 : le < F) (h2 : F ≤ s.offset + s.buf.length) (hcr : NoLoneCR inp) :
    s.report w (.syntax F) = clippedReport w inp s.offset (s.offset + s.buf.length) (F - 1) := by
  have hoff := h.le_end
  obtain ⟨q, rfl⟩ : ∃ q, F = s.offset + q + 1 := ⟨F - 1 - s.offset, by omega⟩
  have hq : q < s.buf.length := by omega
  have hrel : (((s.offset + q + 1 : Nat) : Int) - (s.offset : Int)) = (q : Int) + 1 := by omega
  have := jsonReport_window w inp s.offset s.buf.length q s.line h.bound hq
    (h.line_eq.trans (termsBefore_eq_countLF inp hcr s.offset).symm)
  rw [← h.buf_eq] at this
  simp only [Win.report]
  rw [hrel, this, Nat.add_sub_cancel]

theorem window_report_eq_whole_aux (w : Nat → Nat) {inp : Bytes} {s : Win} {le : Nat} (h : WinInv inp s le)
    (F : Nat) (h1 : le < F) (h2 : F ≤ s.offset + s.buf.length) (hcr : NoLoneCR inp)
    (hleft : s.offset ≤ lineStart inp (F - 1) ∨
      s.offset + 51 ≤ lineStart inp (F - 1) + min (F - 1 - lineStart inp (F - 1)) (trueLine inp (F - 1)).length)
    (hright : lineStart inp (F - 1) + (trueLine inp (F - 1)).length ≤ s.offset + s.buf.length ∨
      (lineStart inp (F - 1) + 64 ≤ s.offset + s.buf.length ∧ F + 15 ≤ s.offset + s.buf.length)) :
    s.report w (.syntax F) = wholeReport w inp (.syntax F) := by
  have hoff := h.le_end
  obtain ⟨q, rfl⟩ : ∃ q, F = s.offset + q + 1 := ⟨F - 1 - s.offset, by omega⟩
  have hq : q < s.buf.length := by omega
  have hrel : (((s.offset + q + 1 : Nat) : Int) - (s.offset : Int)) = (q : Int) + 1 := by omega
  rw [Nat.add_sub_cancel] at hleft hright
  have := jsonReport_window_eq_whole w inp s.offset s.buf.length q s.line h.bound hq
    (h.line_eq.trans (termsBefore_eq_countLF inp hcr s.offset).symm) hleft (by omega)
  rw [← h.buf_eq] at this
  simp only [Win.report]
  rw [hrel, this]
  congr 2

theorem window_eof_eq_whole_aux (w : Nat → Nat) {inp : Bytes} {s : Win} {le : Nat} (h : WinInv inp s le)
    (hall : s.offset + s.buf.length = inp.length) (hne : s.buf ≠ []) (hcr : NoLoneCR inp)
    (hleft : s.offset ≤ lineStart inp (inp.length - 1) ∨
      s.offset + 51 ≤ lineStart inp (inp.length - 1) +
        min (inp.length - lineStart inp (inp.length - 1)) (trueLine inp (inp.length - 1)).length) :
    s.report w .unexpectedEOF = wholeReport w inp .unexpectedEOF := by
  have hpos : 0 < s.buf.length := List.length_pos_iff.mpr hne
  have hb : s.buf = inp.drop s.offset := by
    rw [h.buf_eq]; apply List.take_of_length_le; rw [List.length_drop]; omega
  have := jsonReport_suffix_eof w inp s.offset s.line (by omega)
    (h.line_eq.trans (termsBefore_eq_countLF inp hcr s.offset).symm) hleft
  rw [← hb] at this
  simp only [Win.report]
  exact this

theorem trueLine_end_le (inp : Bytes) (P : Nat) (hP : P ≤ inp.length) :
    lineStart inp P + (trueLine inp P).length ≤ inp.length := by
  have hle := lineStart_le inp P
  unfold trueLine
  have := (List.takeWhile_prefix (l := inp.drop (lineStart inp P)) (fun b => !isNL b)).length_le
  rw [List.length_drop] at this; omega

theorem take_min_length (l : Bytes) (n : Nat) : l.take n = l.take (min n l.length) := by
  by_cases h : n ≤ l.length
  · rw [Nat.min_eq_left h]
  · rw [Nat.min_eq_right (by omega), List.take_of_length_le (by omega), List.take_of_length_le (Nat.le_refl _)]

/-- **Seekable input**: the chunked re-read loses nothing — for every buffer size ≥ 256 (16384 in
    the code) the report equals the one computed on the whole file. -/
theorem seek_report_eq_whole_aux (w : Nat → Nat) (bs : Nat) (hbs : 256 ≤ bs) (inp : Bytes) (F : Nat)
    (h1 : 1 ≤ F) (h2 : F ≤ inp.length) (hcr : NoLoneCR inp) :
    seekReport w bs inp (.syntax F) = wholeReport w inp (.syntax F) := by
  obtain ⟨pos', off', line', heq, _, hp2, hsum, hline, hsmall, hlow⟩ :=
    rereadLoop_spec bs (by omega) inp ((F : Int).toNat + 1) 0 F 0 (Nat.zero_le _) (by omega)
  simp only [seekReport, getContentsSeek, heq]
  have hoff1 : 1 ≤ off' := by rcases hlow with h | h <;> omega
  obtain ⟨q, rfl⟩ : ∃ q : Nat, off' = (q : Int) + 1 := ⟨(off' - 1).toNat, by omega⟩
  have hF : F = pos' + q + 1 := by omega
  subst hF
  have hq34 : q + 1 ≤ bs * 3 / 4 := by rcases hsmall with h | h <;> omega
  have hle := lineStart_le inp (pos' + q)
  have hend := le_line_end inp (pos' + q) (by omega)
  have hlen := trueLine_end_le inp (pos' + q) (by omega)
  rw [take_min_length, List.length_drop]
  have hl : line' = termsBefore inp pos' := by
    rw [hline, termsBefore_eq_countLF inp hcr]; simp
  have := jsonReport_window_eq_whole w inp pos' (min bs (inp.length - pos')) q line' (by omega) (by omega) hl
    (by rcases hlow with h | h <;> omega) (by omega)
  rw [this]
  congr 2

theorem seek_eof_eq_whole_aux (w : Nat → Nat) (bs : Nat) (hbs : 256 ≤ bs) (inp : Bytes) (hne : inp ≠ [])
    (hcr : NoLoneCR inp) :
    seekReport w bs inp .unexpectedEOF = wholeReport w inp .unexpectedEOF := by
  have hpos : 0 < inp.length := List.length_pos_iff.mpr hne
  obtain ⟨pos', off', line', heq, _, hp2, hsum, hline, hsmall, hlow⟩ :=
    rereadLoop_spec bs (by omega) inp (((inp.length : Nat) : Int).toNat + 1) 0 inp.length 0 (Nat.zero_le _) (by omega)
  simp only [seekReport, getContentsSeek, heq]
  have hle := lineStart_le inp (inp.length - 1)
  have hend := le_line_end inp (inp.length - 1) (by omega)
  have hlen := trueLine_end_le inp (inp.length - 1) (by omega)
  have hl : line' = termsBefore inp pos' := by
    rw [hline, termsBefore_eq_countLF inp hcr]; simp
  have hoff : off' = 0 ∨ ((bs / 4 : Nat) : Int) ≤ off' ∨ pos' = 0 := by
    rcases hlow with h | h
    · right; right; omega
    · right; left; exact h
  have hposlt : pos' < inp.length := by omega
  have htake : (inp.drop pos').take bs = inp.drop pos' := by
    apply List.take_of_length_le; rw [List.length_drop]; omega
  rw [htake]
  exact jsonReport_suffix_eof w inp pos' line' hposlt hl (by omega)

end Gojq.Cli

namespace Gojq.Cli
open Gojq

/-- excerpt and caret only: no hypothesis on the line counter (hence none on lone CRs) -/
theorem window_excerpt_eq_whole_aux (w : Nat → Nat) {inp : Bytes} {s : Win} {le : Nat} (h : WinInv inp s le)
    (F : Nat) (h1 : le < F) (h2 : F ≤ s.offset + s.buf.length)
    (hleft : s.offset ≤ lineStart inp (F - 1) ∨
      s.offset + 51 ≤ lineStart inp (F - 1) + min (F - 1 - lineStart inp (F - 1)) (trueLine inp (F - 1)).length)
    (hright : lineStart inp (F - 1) + (trueLine inp (F - 1)).length ≤ s.offset + s.buf.length ∨
      (lineStart inp (F - 1) + 64 ≤ s.offset + s.buf.length ∧ F + 15 ≤ s.offset + s.buf.length)) :
    (s.report w (.syntax F)).linestr = (wholeReport w inp (.syntax F)).linestr ∧
    (s.report w (.syntax F)).column = (wholeReport w inp (.syntax F)).column := by
  have hoff := h.le_end
  obtain ⟨q, rfl⟩ : ∃ q, F = s.offset + q + 1 := ⟨F - 1 - s.offset, by omega⟩
  have hq : q < s.buf.length := by omega
  have hrel : (((s.offset + q + 1 : Nat) : Int) - (s.offset : Int)) = (q : Int) + 1 := by omega
  have hcast : (((s.offset + q + 1 : Nat) : Int)) = ((s.offset + q : Nat) : Int) + 1 := by omega
  rw [Nat.add_sub_cancel] at hleft hright
  simp only [Win.report]
  rw [hrel, hcast, wholeReport_syntax w inp (s.offset + q) (by have := h.bound; omega), jsonReport_syntax]
  have hw := getLineByOffset'_window inp s.offset s.buf.length q h.bound hq
  rw [← h.buf_eq] at hw
  rw [hw, clip_excerpt_eq inp s.offset (s.offset + s.buf.length) (s.offset + q) (by omega) hleft (by omega)]
  simp only [and_self]

end Gojq.Cli

/-
  C08 (bytecode checker, layer 2): opcodes that only touch the data stack, the paths stack, counters.
-/
import Gojq.Proofs.SafeVM2Exec1
set_option linter.unusedSimpArgs false
set_option linter.unusedVariables false
namespace Gojq.SafeVM
open Gojq Gojq.VM

variable {S : SC} {Ct : Cert}

theorem exec2_nop (C : Checked S) (C2 : Checked2 S Ct) {x : ExtRec} {l : L} {e : Env}
    (hc : codeAt S l.pc = some .nop) (hI1 : Inv S l e) (hI2 : Inv2 S Ct l e) : WP2 (exec .nop x l) (Post2 S Ct) e := by
  obtain ⟨hb, A, hV, G, hN, R, hF2, hN2⟩ := both_normal hI1 hI2 hc rfl
  obtain ⟨herr, a, succs, ha, hst, hsucc, hpc, hp, hconf⟩ := hN.unpack C hc
  obtain ⟨a2, succs2, idF, nv, na, ha2, hsa, hlen, hst2, hsucc2, _, _, hcur⟩ := hN2.unpack C2 hc
  simp only [step1, Option.some.injEq] at hst; subst hst; rw [hpc] at hsucc
  simp only [step2, hsa, Option.some.injEq] at hst2; subst hst2; rw [hpc] at hsucc2
  rw [if_neg (by simp [isScope])] at hcur
  simp only [exec]
  apply WP2.pure
  exact Post2.fall_stack (Fr2.refl e) hV rfl rfl R hF2 (succ1 hsucc2) (succ_code (succ1 hsucc)) hcur

theorem exec2_expbegin (C : Checked S) (C2 : Checked2 S Ct) {x : ExtRec} {l : L} {e : Env}
    (hc : codeAt S l.pc = some .expbegin) (hI1 : Inv S l e) (hI2 : Inv2 S Ct l e) :
    WP2 (exec .expbegin x l) (Post2 S Ct) e := by
  obtain ⟨hb, A, hV, G, hN, R, hF2, hN2⟩ := both_normal hI1 hI2 hc rfl
  obtain ⟨herr, a, succs, ha, hst, hsucc, hpc, hp, hconf⟩ := hN.unpack C hc
  obtain ⟨a2, succs2, idF, nv, na, ha2, hsa, hlen, hst2, hsucc2, _, _, hcur⟩ := hN2.unpack C2 hc
  simp only [step1, Option.some.injEq] at hst; subst hst; rw [hpc] at hsucc
  simp only [step2, hsa, Option.some.injEq] at hst2; subst hst2; rw [hpc] at hsucc2
  rw [if_neg (by simp [isScope])] at hcur
  simp only [exec]
  apply WP2.step (modifyEnv_eq _ _)
  apply WP2.pure
  exact Post2.fall_stack (e := e) (A' := A) ⟨rfl, rfl, rfl, rfl⟩ (hV.fr ⟨rfl, rfl, rfl, rfl, rfl⟩) rfl rfl R hF2
    (succ1 hsucc2) (succ_code (succ1 hsucc)) hcur

theorem exec2_expend (C : Checked S) (C2 : Checked2 S Ct) {x : ExtRec} {l : L} {e : Env}
    (hc : codeAt S l.pc = some .expend) (hI1 : Inv S l e) (hI2 : Inv2 S Ct l e) :
    WP2 (exec .expend x l) (Post2 S Ct) e := by
  obtain ⟨hb, A, hV, G, hN, R, hF2, hN2⟩ := both_normal hI1 hI2 hc rfl
  obtain ⟨herr, a, succs, ha, hst, hsucc, hpc, hp, hconf⟩ := hN.unpack C hc
  obtain ⟨a2, succs2, idF, nv, na, ha2, hsa, hlen, hst2, hsucc2, _, _, hcur⟩ := hN2.unpack C2 hc
  simp only [step1, Option.some.injEq] at hst; subst hst; rw [hpc] at hsucc
  simp only [step2, hsa, Option.some.injEq] at hst2; subst hst2; rw [hpc] at hsucc2
  rw [if_neg (by simp [isScope])] at hcur
  simp only [exec]
  apply WP2.step (modifyEnv_eq _ _)
  apply WP2.pure
  exact Post2.fall_stack (e := e) (A' := A) ⟨rfl, rfl, rfl, rfl⟩ (hV.fr ⟨rfl, rfl, rfl, rfl, rfl⟩) rfl rfl R hF2
    (succ1 hsucc2) (succ_code (succ1 hsucc)) hcur

theorem exec2_push (C : Checked S) (C2 : Checked2 S Ct) {v : JV} {x : ExtRec} {l : L} {e : Env}
    (hc : codeAt S l.pc = some (.push (isArrJV v))) (hI1 : Inv S l e) (hI2 : Inv2 S Ct l e) :
    WP2 (exec (.push v) x l) (Post2 S Ct) e := by
  obtain ⟨hb, A, hV, G, hN, R, hF2, hN2⟩ := both_normal hI1 hI2 hc rfl
  obtain ⟨herr, a, succs, ha, hst, hsucc, hpc, hp, hconf⟩ := hN.unpack C hc
  obtain ⟨a2, succs2, idF, nv, na, ha2, hsa, hlen, hst2, hsucc2, _, _, hcur⟩ := hN2.unpack C2 hc
  simp only [step1, Option.some.injEq] at hst; subst hst; rw [hpc] at hsucc
  simp only [step2, hsa, Option.some.injEq] at hst2; subst hst2; rw [hpc] at hsucc2
  rw [if_neg (by simp [isScope])] at hcur
  simp only [exec]
  apply WP2.step (push_eq _ _)
  apply WP2.pure
  refine Post2.fall_stack (e := e) (A' := { A with stk := ((e.stack.push (.jv v)).index, .jv v) :: A.stk })
    ⟨rfl, rfl, rfl, rfl⟩ (hV.push _) rfl rfl R hF2 (succ1 hsucc2) (succ_code (succ1 hsucc)) ?_
  refine hcur.restack (fun j sc rest _ hst => hst.push ?_)
  cases hv : isArrJV v with
  | false => exact trivial
  | true =>
    cases v <;> simp [isArrJV] at hv
    exact Good.arr

theorem exec2_pop (C : Checked S) (C2 : Checked2 S Ct) {x : ExtRec} {l : L} {e : Env}
    (hc : codeAt S l.pc = some .pop) (hI1 : Inv S l e) (hI2 : Inv2 S Ct l e) : WP2 (exec .pop x l) (Post2 S Ct) e := by
  obtain ⟨hb, A, hV, G, hN, R, hF2, hN2⟩ := both_normal hI1 hI2 hc rfl
  obtain ⟨herr, a, succs, ha, hst, hsucc, hpc, hp, hconf⟩ := hN.unpack C hc
  obtain ⟨a2, succs2, idF, nv, na, ha2, hsa, hlen, hst2, hsucc2, _, _, hcur⟩ := hN2.unpack C2 hc
  simp only [step1] at hst
  split at hst
  · rename_i hh
    simp only [Option.some.injEq] at hst; subst hst; rw [hpc] at hsucc
    simp only [step2, hsa, Option.some.injEq] at hst2; subst hst2; rw [hpc] at hsucc2
    rw [if_neg (by simp [isScope])] at hcur hconf
    obtain ⟨i, v, r, hstk⟩ := hconf.cons_of_pos hh
    obtain ⟨nx, hpop, hV1, G1, hv⟩ := pop_spec hV G hstk
    simp only [exec]
    apply WP2.step hpop
    apply WP2.pure
    refine Post2.fall_stack (e := e) (A' := { A with stk := r }) ⟨rfl, rfl, rfl, rfl⟩ hV1 rfl rfl R hF2
      (succ1 hsucc2) (succ_code (succ1 hsucc)) ?_
    exact hcur.restack (fun j sc rest _ hst => by rw [hstk] at hst; exact hst.tail)
  · simp at hst

theorem exec2_dup (C : Checked S) (C2 : Checked2 S Ct) {x : ExtRec} {l : L} {e : Env}
    (hc : codeAt S l.pc = some .dup) (hI1 : Inv S l e) (hI2 : Inv2 S Ct l e) : WP2 (exec .dup x l) (Post2 S Ct) e := by
  obtain ⟨hb, A, hV, G, hN, R, hF2, hN2⟩ := both_normal hI1 hI2 hc rfl
  obtain ⟨herr, a, succs, ha, hst, hsucc, hpc, hp, hconf⟩ := hN.unpack C hc
  obtain ⟨a2, succs2, idF, nv, na, ha2, hsa, hlen, hst2, hsucc2, _, _, hcur⟩ := hN2.unpack C2 hc
  simp only [step1] at hst
  split at hst
  · rename_i hh
    simp only [Option.some.injEq] at hst; subst hst; rw [hpc] at hsucc
    simp only [step2, hsa, Option.some.injEq] at hst2; subst hst2; rw [hpc] at hsucc2
    rw [if_neg (by simp [isScope])] at hcur hconf
    obtain ⟨i, v, r, hstk⟩ := hconf.cons_of_pos hh
    obtain ⟨nx, hpop, hV1, G1, hv⟩ := pop_spec hV G hstk
    simp only [exec]
    apply WP2.step hpop
    apply WP2.step (push_eq _ _)
    apply WP2.step (push_eq _ _)
    apply WP2.pure
    refine Post2.fall_stack (e := e) (A' := { A with stk := _ :: _ :: r }) ⟨rfl, rfl, rfl, rfl⟩ ((hV1.push v).push v) rfl rfl R hF2
      (succ1 hsucc2) (succ_code (succ1 hsucc)) ?_
    refine hcur.restack (fun j sc rest _ hst => ?_)
    rw [hstk] at hst
    have h1 := hst.tail.push (p := ((({ e.stack with index := nx } : Stack V).push v).index, v)) hst.head
    exact h1.push (p := (_, v)) hst.head
  · simp at hst

theorem exec2_const (C : Checked S) (C2 : Checked2 S Ct) {w : JV} {x : ExtRec} {l : L} {e : Env}
    (hc : codeAt S l.pc = some .const) (hI1 : Inv S l e) (hI2 : Inv2 S Ct l e) :
    WP2 (exec (.const w) x l) (Post2 S Ct) e := by
  obtain ⟨hb, A, hV, G, hN, R, hF2, hN2⟩ := both_normal hI1 hI2 hc rfl
  obtain ⟨herr, a, succs, ha, hst, hsucc, hpc, hp, hconf⟩ := hN.unpack C hc
  obtain ⟨a2, succs2, idF, nv, na, ha2, hsa, hlen, hst2, hsucc2, _, _, hcur⟩ := hN2.unpack C2 hc
  simp only [step1] at hst
  split at hst
  · rename_i hh
    simp only [Option.some.injEq] at hst; subst hst; rw [hpc] at hsucc
    simp only [step2, hsa, Option.some.injEq] at hst2; subst hst2; rw [hpc] at hsucc2
    rw [if_neg (by simp [isScope])] at hcur hconf
    obtain ⟨i, v, r, hstk⟩ := hconf.cons_of_pos hh
    obtain ⟨nx, hpop, hV1, G1, hv⟩ := pop_spec hV G hstk
    simp only [exec]
    apply WP2.step hpop
    apply WP2.step (push_eq _ _)
    apply WP2.pure
    refine Post2.fall_stack (e := e) (A' := { A with stk := _ :: r }) ⟨rfl, rfl, rfl, rfl⟩ (hV1.push _) rfl rfl R hF2
      (succ1 hsucc2) (succ_code (succ1 hsucc)) ?_
    refine hcur.restack (fun j sc rest _ hst => ?_)
    rw [hstk] at hst
    exact hst.tail.push (p := (_, .jv w)) trivial
  · simp at hst

theorem exec2_jump (C : Checked S) (C2 : Checked2 S Ct) {t : Int} {x : ExtRec} {l : L} {e : Env}
    (hc : codeAt S l.pc = some (.jump t)) (hI1 : Inv S l e) (hI2 : Inv2 S Ct l e) :
    WP2 (exec (.jump t) x l) (Post2 S Ct) e := by
  obtain ⟨hb, A, hV, G, hN, R, hF2, hN2⟩ := both_normal hI1 hI2 hc rfl
  obtain ⟨herr, a, succs, ha, hst, hsucc, hpc, hp, hconf⟩ := hN.unpack C hc
  obtain ⟨a2, succs2, idF, nv, na, ha2, hsa, hlen, hst2, hsucc2, _, _, hcur⟩ := hN2.unpack C2 hc
  simp only [step1, Option.some.injEq] at hst; subst hst
  simp only [step2, hsa, Option.some.injEq] at hst2; subst hst2
  rw [if_neg (by simp [isScope])] at hcur
  simp only [exec]
  apply WP2.pure
  exact Post2.jump_stack (Fr2.refl e) hV rfl rfl R hF2 rfl (succ1 hsucc2) (succ_code (succ1 hsucc)) hcur

theorem exec2_jumpifnot (C : Checked S) (C2 : Checked2 S Ct) {t : Int} {x : ExtRec} {l : L} {e : Env}
    (hc : codeAt S l.pc = some (.jumpifnot t)) (hI1 : Inv S l e) (hI2 : Inv2 S Ct l e) :
    WP2 (exec (.jumpifnot t) x l) (Post2 S Ct) e := by
  obtain ⟨hb, A, hV, G, hN, R, hF2, hN2⟩ := both_normal hI1 hI2 hc rfl
  obtain ⟨herr, a, succs, ha, hst, hsucc, hpc, hp, hconf⟩ := hN.unpack C hc
  obtain ⟨a2, succs2, idF, nv, na, ha2, hsa, hlen, hst2, hsucc2, _, _, hcur⟩ := hN2.unpack C2 hc
  simp only [step1] at hst
  split at hst
  · rename_i hh
    simp only [Option.some.injEq] at hst; subst hst; rw [hpc] at hsucc
    simp only [step2, hsa, Option.some.injEq] at hst2; subst hst2; rw [hpc] at hsucc2
    rw [if_neg (by simp [isScope])] at hcur hconf
    obtain ⟨i, v, r, hstk⟩ := hconf.cons_of_pos hh
    obtain ⟨nx, hpop, hV1, G1, hv⟩ := pop_spec hV G hstk
    have hcur' : Cur S Ct e.scopes.data e.values { a2 with ks := a2.ks.tail } r A.frames :=
      hcur.restack (fun j sc rest _ hst => by rw [hstk] at hst; exact hst.tail)
    simp only [exec]
    apply WP2.step hpop
    split
    · apply WP2.pure
      exact Post2.jump_stack (e := e) (A' := { A with stk := r }) ⟨rfl, rfl, rfl, rfl⟩ hV1 rfl rfl R hF2 rfl
        (succ2 hsucc2).2 (succ_code (succ2 hsucc).2) hcur'
    · apply WP2.pure
      exact Post2.jump_stack (e := e) (A' := { A with stk := r }) ⟨rfl, rfl, rfl, rfl⟩ hV1 rfl rfl R hF2 rfl
        (succ2 hsucc2).2 (succ_code (succ2 hsucc).2) hcur'
    · apply WP2.pure
      exact Post2.fall_stack (e := e) (A' := { A with stk := r }) ⟨rfl, rfl, rfl, rfl⟩ hV1 rfl rfl R hF2
        (succ2 hsucc2).1 (succ_code (succ2 hsucc).1) hcur'
  · simp at hst

theorem exec2_pathbegin (C : Checked S) (C2 : Checked2 S Ct) {x : ExtRec} {l : L} {e : Env}
    (hc : codeAt S l.pc = some .pathbegin) (hI1 : Inv S l e) (hI2 : Inv2 S Ct l e) :
    WP2 (exec .pathbegin x l) (Post2 S Ct) e := by
  obtain ⟨hb, A, hV, G, hN, R, hF2, hN2⟩ := both_normal hI1 hI2 hc rfl
  obtain ⟨herr, a, succs, ha, hst, hsucc, hpc, hp, hconf⟩ := hN.unpack C hc
  obtain ⟨a2, succs2, idF, nv, na, ha2, hsa, hlen, hst2, hsucc2, _, _, hcur⟩ := hN2.unpack C2 hc
  simp only [step1] at hst
  split at hst
  · rename_i hh
    simp only [Option.some.injEq] at hst; subst hst; rw [hpc] at hsucc
    simp only [step2, hsa, Option.some.injEq] at hst2; subst hst2; rw [hpc] at hsucc2
    rw [if_neg (by simp [isScope])] at hcur hconf
    obtain ⟨i, v, r, hstk⟩ := hconf.cons_of_pos hh
    simp only [exec]
    apply WP2.step (getEnv_eq _)
    apply WP2.step (pathsPush_eq _ _)
    have hV1 := pathsPush_view hV (.jv (.num (.int e.expdepth)))
    have G1 : GInv S { e with paths := e.paths.push (.jv (.num (.int e.expdepth))) } := G.fr ⟨rfl, rfl, rfl, rfl, rfl⟩
    obtain ⟨htop, _⟩ := stackTop_spec hV1 G1 hstk
    apply WP2.step htop
    apply WP2.step (pathsPush_eq _ _)
    have hV2 := pathsPush_view hV1 (.pv (.jv .null) v)
    apply WP2.step (modifyEnv_eq _ _)
    apply WP2.pure
    exact Post2.fall_stack (e := e) (A' := { A with paths := _ }) ⟨rfl, rfl, rfl, rfl⟩ (hV2.fr ⟨rfl, rfl, rfl, rfl, rfl⟩)
      rfl rfl R hF2 (succ1 hsucc2) (succ_code (succ1 hsucc)) hcur
  · simp at hst

theorem exec2_backtrack (C : Checked S) (C2 : Checked2 S Ct) {x : ExtRec} {l : L} {e : Env}
    (hc : codeAt S l.pc = some .backtrack) (hI1 : Inv S l e) (hI2 : Inv2 S Ct l e) :
    WP2 (exec .backtrack x l) (Post2 S Ct) e := by
  obtain ⟨A, hV, G, R, hF2, _⟩ := both_cases hI1 hI2
  simp only [exec]
  apply WP2.pure
  exact Post2.brk_here (Fr2.refl e) hV rfl R hF2 (fun _ _ => BConf2.triv hc rfl)

end Gojq.SafeVM

/-
  C08 (bytecode checker): every opcode keeps the invariant — part 3: the instructions that call out
  of the loop (natives, `funcIndex2`, iterators) and the path-tracking tails.
-/
import Gojq.Proofs.SafeVMExec2
set_option linter.unusedSimpArgs false
set_option linter.unusedVariables false
namespace Gojq.SafeVM
open Gojq Gojq.VM

/-! ## computations that leave stack, scopes, forks, values and offset alone -/

/-- `m` only touches the paths stack and the counters, and panics only at uncovered sites -/
def FrM {α : Type} (m : M α) : Prop :=
  ∀ e, match m e with
    | .ok _ e' => Fr e e'
    | .panic s => covered s = false
    | .stuck _ => True

theorem FrM.pure {α : Type} (a : α) : FrM (pure a : M α) := fun e => Fr.refl e

theorem FrM.bind {α β : Type} {m : M α} {f : α → M β} (hm : FrM m) (hf : ∀ a, FrM (f a)) : FrM (m >>= f) := by
  intro e
  show match M.bind m f e with | .ok _ e' => Fr e e' | .panic s => covered s = false | .stuck _ => True
  have h1 := hm e
  unfold M.bind
  cases hme : m e with
  | ok a e1 =>
    rw [hme] at h1
    simp only
    have h2 := hf a e1
    cases hfe : f a e1 with
    | ok b e2 => rw [hfe] at h2; exact h1.trans h2
    | panic s => rw [hfe] at h2; exact h2
    | stuck w => trivial
  | panic s => rw [hme] at h1; exact h1
  | stuck w => trivial

theorem FrM.panic {α : Type} {s : Site} (h : covered s = false) : FrM (VM.panic s : M α) := fun _ => h
theorem FrM.stuck {α : Type} {w : String} : FrM (VM.stuck w : M α) := fun _ => trivial

theorem FrM.tracking : FrM tracking := fun e => Fr.refl e
theorem FrM.pathsPush (v : V) : FrM (pathsPush v) := fun e => ⟨rfl, rfl, rfl, rfl, rfl⟩
theorem FrM.pathsPop : FrM pathsPop := by
  intro e
  unfold VM.pathsPop
  cases h : e.paths.pop? with
  | some p => exact ⟨rfl, rfl, rfl, rfl, rfl⟩
  | none => rfl
theorem FrM.pathsTop : FrM pathsTop := by
  intro e
  unfold VM.pathsTop
  cases h : e.paths.top? with
  | some p => exact Fr.refl e
  | none => rfl
theorem FrM.asJV (v : V) : FrM (asJV v) := by
  cases v <;> first | exact FrM.pure _ | exact FrM.stuck
theorem FrM.extCall (x : ExtRec) : FrM (extCall x) := by
  intro e
  unfold VM.extCall
  cases h : x.call with
  | some p => exact Fr.refl e
  | none => trivial
theorem FrM.modify (f : Env → Env) (h : ∀ e, Fr e (f e)) : FrM (modifyEnv f) := fun e => h e

theorem FrM.pathIntact (x : ExtRec) : FrM (pathIntact x) := by
  unfold VM.pathIntact
  refine FrM.bind FrM.pathsTop (fun w => ?_)
  split
  · split
    · exact FrM.pure _
    · exact FrM.stuck
  · exact FrM.panic rfl

theorem FrM.pathBroken (x : ExtRec) : FrM (pathBroken x) := by
  unfold VM.pathBroken
  refine FrM.bind FrM.tracking (fun b => ?_)
  split
  · exact FrM.bind (FrM.pathIntact x) (fun _ => FrM.pure _)
  · exact FrM.pure _

theorem FrM.poppathsLoop : ∀ (n : Nat) (acc : List JV), FrM (poppathsLoop n acc) := by
  intro n
  induction n with
  | zero => intro acc; exact FrM.stuck
  | succ n ih =>
    intro acc
    unfold VM.poppathsLoop
    refine FrM.bind FrM.pathsPop (fun p => ?_)
    split
    · exact FrM.pure _
    · exact FrM.bind (FrM.asJV _) (fun _ => ih _)
    · exact FrM.panic rfl

theorem FrM.poppaths : FrM poppaths := fun e => FrM.poppathsLoop _ _ e

theorem FrM.pushPaths (w : V) : ∀ (ps : List JV), FrM (pushPaths w ps) := by
  intro ps
  induction ps with
  | nil => exact FrM.pure _
  | cons p ps ih =>
    unfold VM.pushPaths
    exact FrM.bind (FrM.pathsPush _) (fun _ => ih)

/-- run a frame-preserving computation first -/
theorem WP.frM {α β : Type} {m : M α} (hm : FrM m) {f : α → M β} {Q : β → Env → Prop} {e : Env}
    (h : ∀ a e', Fr e e' → WP (f a) Q e') : WP (m >>= f) Q e := by
  apply WP.bind
  have := hm e
  unfold WP
  cases hme : m e with
  | ok a e' => rw [hme] at this; exact h a e' this
  | panic s => rw [hme] at this; exact this
  | stuck w => trivial

/-! ## tails: after the result is pushed, only the paths stack is touched -/

/-- `m` ends by falling through with the registers unchanged, or by raising one of the loop's own
    errors; it only touches the paths stack -/
def Tail (x : ExtRec) (l : L) (m : M (Ctl × L)) : Prop :=
  ∀ e, match m e with
    | .ok r e' => Fr e e' ∧ (r = (.fall, l) ∨ ∃ k, r = (.brk, { l with err := some (vmErr k x) }))
    | .panic s => covered s = false
    | .stuck _ => True

theorem Tail.fall (x : ExtRec) (l : L) : Tail x l (pure (.fall, l)) := fun e => ⟨Fr.refl e, .inl rfl⟩
theorem Tail.brk (x : ExtRec) (l : L) (k : VMErrKind) : Tail x l (pure (.brk, { l with err := some (vmErr k x) })) :=
  fun e => ⟨Fr.refl e, .inr ⟨k, rfl⟩⟩
theorem Tail.panic {x : ExtRec} {l : L} {s : Site} (h : covered s = false) : Tail x l (VM.panic s) := fun _ => h
theorem Tail.stuck {x : ExtRec} {l : L} {w : String} : Tail x l (VM.stuck w) := fun _ => trivial

theorem Tail.bind {α : Type} {x : ExtRec} {l : L} {m : M α} {f : α → M (Ctl × L)} (hm : FrM m)
    (hf : ∀ a, Tail x l (f a)) : Tail x l (m >>= f) := by
  intro e
  show match M.bind m f e with
    | .ok r e' => Fr e e' ∧ (r = (.fall, l) ∨ ∃ k, r = (.brk, { l with err := some (vmErr k x) }))
    | .panic s => covered s = false | .stuck _ => True
  have h1 := hm e
  unfold M.bind
  cases hme : m e with
  | ok a e1 =>
    rw [hme] at h1
    simp only
    have h2 := hf a e1
    cases hfe : f a e1 with
    | ok b e2 => rw [hfe] at h2; exact ⟨h1.trans h2.1, h2.2⟩
    | panic s => rw [hfe] at h2; exact h2
    | stuck w => trivial
  | panic s => rw [hme] at h1; exact h1
  | stuck w => trivial

/-- a tail run from a state that satisfies the invariant of the fall-through successor -/
theorem WP.tail {S : SC} {x : ExtRec} {l : L} {m : M (Ctl × L)} (ht : Tail x l m) {e : Env} {A : AView}
    (hV : View e A) (G : GInv S e) (hF : ForksConf S A.forks) (hb : l.backtrack = false)
    (hN : NMode S { l with pc := l.pc + 1 } e A) {i : Shape} (hc : codeAt S l.pc = some i) (hi : trivB i = true) :
    WP m (Post S) e := by
  have := ht e
  unfold WP
  cases hme : m e with
  | ok r e' =>
    rw [hme] at this
    obtain ⟨hfr, hr⟩ := this
    rcases hr with rfl | ⟨k, rfl⟩
    · refine Post.fall (hV.fr hfr) (G.fr hfr) hF hb ?_
      obtain ⟨h1, a, ins, h2, h3, h4, h5⟩ := hN
      refine ⟨h1, a, ins, h2, h3, h4, ?_⟩
      rw [hfr.2.1]; exact h5
    · exact Post.brk (hV.fr hfr) (G.fr hfr) hF
        (fun er h => by simp only [Option.some.injEq] at h; subst h; rfl)
        (fun _ _ => BConf.triv hc hi)
  | panic s => rw [hme] at this; exact this
  | stuck w => trivial

/-! ## `bad`, `index`, `indexarray` -/

theorem exec_bad {S : SC} (C : Checked S) {x : ExtRec} {l : L} {e : Env}
    (hc : codeAt S l.pc = some .bad) (hI : Inv S l e) : WP (exec .bad x l) (Post S) e := by
  obtain ⟨hb, A, hV, G, hF, hN⟩ := hI.elimN hc rfl
  obtain ⟨herr, a, succs, ha, hst, hsucc, hpc, hp, hconf⟩ := hN.unpack C hc
  simp [step1] at hst

theorem extCall_some {x : ExtRec} {r : CallRes} (h : x.call = some r) (e : Env) : extCall x e = .ok r e := by
  unfold extCall; rw [h]

theorem WP.extCall {β : Type} {x : ExtRec} (hx : ExtOK x) {f : CallRes → M β} {Q : β → Env → Prop} {e : Env}
    (hend : WP (f .iterEnd) Q e) (hval : ∀ w, vpure w = true → WP (f (.val w)) Q e)
    (herr : ∀ er, epure er = true → WP (f (.err er)) Q e) : WP (VM.extCall x >>= f) Q e := by
  cases hcall : x.call with
  | none =>
    apply WP.bind
    unfold WP VM.extCall
    rw [hcall]
    trivial
  | some r =>
    apply WP.step (extCall_some hcall e)
    unfold ExtOK at hx
    rw [hcall] at hx
    cases r with
    | val w => exact hval w hx
    | err er => exact herr er hx
    | iterEnd => exact hend

theorem tail_index (x : ExtRec) (l : L) (k : JV) (w : V) :
    Tail x l (do
      if (← tracking) then
        if !(← pathIntact x) then pure (.brk, { l with err := some (vmErr .invalidPath x) }) else do
        pathsPush (.pv (.jv k) w)
        pure (.fall, l)
      else pure (.fall, l)) := by
  refine Tail.bind FrM.tracking (fun b => ?_)
  split
  · refine Tail.bind (FrM.pathIntact x) (fun ok => ?_)
    split
    · exact Tail.brk x l _
    · exact Tail.bind (FrM.pathsPush _) (fun _ => Tail.fall x l)
  · exact Tail.fall x l

theorem exec_execIndex {S : SC} (C : Checked S) {isArr : Bool} {k : JV} {x : ExtRec} (hx : ExtOK x) {l : L} {e : Env}
    {i : Shape} (hi : i = .index ∨ i = .indexarray)
    (hc : codeAt S l.pc = some i) (hI : Inv S l e) : WP (exec.execIndex x l isArr k) (Post S) e := by
  have hiT : trivB i = true := by rcases hi with rfl | rfl <;> rfl
  rcases hI.cases with ⟨hb, A, hV, G, hF, hM⟩ | ⟨hb, A, hV, G, hF, hN⟩
  · simp only [exec.execIndex, hb, if_true]
    apply WP.pure
    exact Post.brk_triv hV G hF hM hc hiT
  · obtain ⟨herr, a, succs, ha, hst, hsucc, hpc, hp, hconf⟩ := hN.unpack C hc
    have hst' : 1 ≤ a.h ∧ succs = [(l.pc + 1, a)] := by
      rcases hi with rfl | rfl <;> simp only [step1] at hst <;> split at hst <;> simp_all
    obtain ⟨hh, rfl⟩ := hst'
    rw [if_neg (by rcases hi with rfl | rfl <;> simp [isScope])] at hconf
    obtain ⟨j, v, r, hstk⟩ := hconf.cons_of_pos hh
    obtain ⟨nx, hpop, hV1, G1, hv⟩ := pop_spec hV G hstk
    simp only [exec.execIndex]
    rw [if_neg (by rw [hb]; simp)]
    apply WP.step hpop
    have hbrk : ∀ (kk : VMErrKind), WP (pure (Ctl.brk, { l with err := some (vmErr kk x) }) : M (Ctl × L))
        (Post S) { e with stack := { e.stack with index := nx } } := by
      intro kk
      apply WP.pure
      exact Post.brk hV1 G1 hF (fun er h => by simp only [Option.some.injEq] at h; subst h; rfl)
        (fun _ _ => BConf.triv hc hiT)
    have hext : WP (do
        match ← extCall x with
        | .iterEnd => stuck "ext: funcIndex2 answered by an iterator end"
        | .err er => pure (Ctl.brk, { l with err := some er })
        | .val w => do
          push w
          if (← tracking) then
            if !(← pathIntact x) then pure (Ctl.brk, { l with err := some (vmErr .invalidPath x) }) else do
            pathsPush (.pv (.jv k) w)
            pure (Ctl.fall, l)
          else pure (Ctl.fall, l) : M (Ctl × L)) (Post S) { e with stack := { e.stack with index := nx } } := by
      apply WP.extCall hx
      · exact WP.stuck
      · intro w hw
        apply WP.step (push_eq _ _)
        refine WP.tail (tail_index x l k w) (hV1.push w) (G1.push (vok_of_pure S _ w hw)) hF hb ?_ hc hiT
        exact NMode.fall (succ1 hsucc) herr hp (hconf.resize (by simp [hstk]))
      · intro er her
        apply WP.pure
        exact Post.brk hV1 G1 hF (fun er' h => by
          simp only [Option.some.injEq] at h; subst h; exact eok_of_pure S _ _ her)
          (fun _ _ => BConf.triv hc hiT)
    split <;> split <;> first | exact hbrk _ | exact hext

theorem exec_index {S : SC} (C : Checked S) {k : JV} {x : ExtRec} (hx : ExtOK x) {l : L} {e : Env}
    (hc : codeAt S l.pc = some .index) (hI : Inv S l e) : WP (exec (.index k) x l) (Post S) e := by
  simp only [exec]
  exact exec_execIndex C hx (.inl rfl) hc hI

theorem exec_indexarray {S : SC} (C : Checked S) {k : JV} {x : ExtRec} (hx : ExtOK x) {l : L} {e : Env}
    (hc : codeAt S l.pc = some .indexarray) (hI : Inv S l e) : WP (exec (.indexarray k) x l) (Post S) e := by
  simp only [exec]
  exact exec_execIndex C hx (.inr rfl) hc hI

/-! ## `object`, native calls, `pathend` -/

theorem objectLoop_spec {S : SC} (x : ExtRec) : ∀ (n : Nat) (m : List (Bytes × JV)) {e : Env} {A : AView},
    View e A → GInv S e → 2 * n ≤ A.stk.length →
    WP (objectLoop x n m) (fun r e' => ∃ stk', View e' { A with stk := stk' } ∧ GInv S e' ∧
      match r with
      | .ok _ => stk'.length + 2 * n = A.stk.length
      | .error er => ∃ k, er = vmErr k x) e := by
  intro n
  induction n with
  | zero =>
    intro m e A hV G _
    simp only [objectLoop]
    apply WP.pure
    exact ⟨A.stk, hV, G, by simp⟩
  | succ n ih =>
    intro m e A hV G hlen
    obtain ⟨i1, v1, r1, hs1⟩ : ∃ i v r, A.stk = (i, v) :: r := by
      cases h : A.stk with
      | nil => rw [h] at hlen; simp at hlen
      | cons q r => exact ⟨q.1, q.2, r, rfl⟩
    obtain ⟨i2, v2, r2, hs2⟩ : ∃ i v r, r1 = (i, v) :: r := by
      cases h : r1 with
      | nil => rw [hs1, h] at hlen; simp at hlen; omega
      | cons q r => exact ⟨q.1, q.2, r, rfl⟩
    obtain ⟨nx1, hp1, hV1, G1, _⟩ := pop_spec hV G hs1
    obtain ⟨nx2, hp2, hV2, G2, _⟩ := pop_spec (A := { A with stk := r1 }) hV1 G1 hs2
    have hlen2 : 2 * n ≤ r2.length := by rw [hs1, hs2] at hlen; simp at hlen; omega
    simp only [objectLoop]
    apply WP.step hp1
    apply WP.step hp2
    split
    · cases v1 with
      | jv j =>
        simp only [asJV]
        apply WP.step (rfl : (pure j : M JV) _ = .ok j _)
        refine WP.mono (ih _ (A := { A with stk := r2 }) hV2 G2 hlen2) ?_
        rintro r e' ⟨stk', h1, h2, h3⟩
        refine ⟨stk', h1, h2, ?_⟩
        cases r with
        | ok _ => simp only at h3 ⊢; rw [hs1, hs2]; simp; omega
        | error er => exact h3
      | _ => simp only [asJV]; apply WP.bind; exact WP.stuck
    · apply WP.pure
      exact ⟨r2, hV2, G2, _, rfl⟩

theorem exec_object {S : SC} (C : Checked S) {n : Int} {x : ExtRec} {l : L} {e : Env}
    (hc : codeAt S l.pc = some (.object n)) (hI : Inv S l e) : WP (exec (.object n) x l) (Post S) e := by
  rcases hI.cases with ⟨hb, A, hV, G, hF, hM⟩ | ⟨hb, A, hV, G, hF, hN⟩
  · simp only [exec, hb, if_true]
    apply WP.pure
    exact Post.brk_triv hV G hF hM hc rfl
  · obtain ⟨herr, a, succs, ha, hst, hsucc, hpc, hp, hconf⟩ := hN.unpack C hc
    simp only [step1] at hst
    split at hst
    · rename_i hh
      simp only [Option.some.injEq] at hst
      subst hst
      rw [hpc] at hsucc
      rw [if_neg (by simp [isScope])] at hconf
      have hlen : 2 * n.toNat ≤ A.stk.length := by have := hconf.2.2; omega
      simp only [exec]
      rw [if_neg (by rw [hb]; simp)]
      apply WP.bind
      refine WP.mono (objectLoop_spec x n.toNat [] hV G hlen) ?_
      rintro r e' ⟨stk', hV1, G1, hr⟩
      cases r with
      | error er =>
        obtain ⟨k, rfl⟩ := hr
        apply WP.pure
        exact Post.brk hV1 G1 hF (fun er h => by simp only [Option.some.injEq] at h; subst h; rfl)
          (fun _ _ => BConf.triv hc rfl)
      | ok m =>
        apply WP.step (push_eq _ _)
        apply WP.pure
        exact Post.fall (hV1.push _) (G1.push rfl) hF hb
          (NMode.fall (succ1 hsucc) herr hp (hconf.resize (by simp; omega)))
    · simp at hst

theorem popArgs_spec {S : SC} : ∀ (n : Nat) {e : Env} {A : AView}, View e A → GInv S e → n ≤ A.stk.length →
    WP (popArgs n) (fun args e' => ∃ stk', View e' { A with stk := stk' } ∧ GInv S e' ∧
      stk'.length + n = A.stk.length ∧ args.length = n) e := by
  intro n
  induction n with
  | zero =>
    intro e A hV G _
    simp only [popArgs]
    apply WP.pure
    exact ⟨A.stk, hV, G, by simp, rfl⟩
  | succ n ih =>
    intro e A hV G hlen
    obtain ⟨i1, v1, r1, hs1⟩ : ∃ i v r, A.stk = (i, v) :: r := by
      cases h : A.stk with
      | nil => rw [h] at hlen; simp at hlen
      | cons q r => exact ⟨q.1, q.2, r, rfl⟩
    obtain ⟨nx1, hp1, hV1, G1, _⟩ := pop_spec hV G hs1
    have hlen1 : n ≤ r1.length := by rw [hs1] at hlen; simp at hlen; omega
    simp only [popArgs]
    apply WP.step hp1
    apply WP.bind
    refine WP.mono (ih (A := { A with stk := r1 }) hV1 G1 hlen1) ?_
    rintro args e' ⟨stk', h1, h2, h3, h4⟩
    apply WP.pure
    exact ⟨stk', h1, h2, by simp only at h3 ⊢; rw [hs1]; simp; omega, by simp [h4]⟩

macro "frm_tac" : tactic => `(tactic| first
  | exact FrM.tracking | exact FrM.pathIntact _ | exact FrM.pathsPush _ | exact FrM.asJV _
  | exact FrM.pushPaths _ _ | exact FrM.pathsPop | exact FrM.poppaths | exact FrM.pathBroken _)

macro "tail_tac" : tactic => `(tactic| repeat' (first
  | exact Tail.fall _ _ | exact Tail.brk _ _ _ | exact Tail.panic rfl | exact Tail.stuck
  | (rename_i hcontra; exact absurd hcontra (List.cons_ne_nil _ _))
  | refine Tail.bind (by frm_tac) (fun _ => ?_)
  | split))

theorem exec_callNative {S : SC} (C : Checked S) {kind : NativeKind} {argc : Int} {x : ExtRec} (hx : ExtOK x)
    {l : L} {e : Env} (hc : codeAt S l.pc = some (.callNative kind argc)) (hI : Inv S l e) :
    WP (exec (.callNative kind argc) x l) (Post S) e := by
  rcases hI.cases with ⟨hb, A, hV, G, hF, hM⟩ | ⟨hb, A, hV, G, hF, hN⟩
  · simp only [exec, hb, if_true]
    apply WP.pure
    exact Post.brk_triv hV G hF hM hc rfl
  · obtain ⟨herr, a, succs, ha, hst, hsucc, hpc, hp, hconf⟩ := hN.unpack C hc
    simp only [step1] at hst
    split at hst
    · rename_i hh
      obtain ⟨hneed, h32, hah⟩ := hh
      simp only [Option.some.injEq] at hst
      subst hst
      rw [hpc] at hsucc
      rw [if_neg (by simp [isScope])] at hconf
      have h0 : 0 ≤ argc := by cases kind <;> simp only [nativeNeed] at hneed <;> omega
      obtain ⟨j, v, r, hstk⟩ := hconf.cons_of_pos (by omega)
      obtain ⟨nx, hpop, hV1, G1, hv⟩ := pop_spec hV G hstk
      have hlenr : argc.toNat ≤ r.length := by
        have := hconf.2.2; rw [hstk] at this; simp at this; omega
      simp only [exec]
      rw [if_neg (by rw [hb]; simp)]
      apply WP.step hpop
      rw [if_neg (by omega)]
      apply WP.bind
      refine WP.mono (popArgs_spec argc.toNat (A := { A with stk := r }) hV1 G1 hlenr) ?_
      rintro args e2 ⟨stk2, hV2, G2, hl2, hargs⟩
      simp only at hl2
      apply WP.extCall hx
      · exact WP.stuck
      · intro w hw
        apply WP.step (push_eq _ _)
        refine WP.tail (x := x) ?_ (hV2.push w) (G2.push (vok_of_pure S _ w hw)) hF hb ?_ hc rfl
        · refine Tail.bind FrM.tracking (fun b => ?_)
          split
          · cases kind with
            | other => exact Tail.fall _ _
            | index =>
              simp only [nativeNeed] at hneed
              obtain ⟨a0, a1, rest, rfl⟩ : ∃ a0 a1 rest, args = a0 :: a1 :: rest := by
                match args, hargs with
                | a0 :: a1 :: rest, _ => exact ⟨a0, a1, rest, rfl⟩
                | [_], h => simp at h; omega
                | [], h => simp at h; omega
              simp only
              tail_tac
            | slice =>
              simp only [nativeNeed] at hneed
              obtain ⟨a0, a1, a2, rest, rfl⟩ : ∃ a0 a1 a2 rest, args = a0 :: a1 :: a2 :: rest := by
                match args, hargs with
                | a0 :: a1 :: a2 :: rest, _ => exact ⟨a0, a1, a2, rest, rfl⟩
                | [_, _], h => simp at h; omega
                | [_], h => simp at h; omega
                | [], h => simp at h; omega
              simp only
              tail_tac
            | getpath =>
              simp only [nativeNeed] at hneed
              obtain ⟨a0, rest, rfl⟩ : ∃ a0 rest, args = a0 :: rest := by
                match args, hargs with
                | a0 :: rest, _ => exact ⟨a0, rest, rfl⟩
                | [], h => simp at h; omega
              simp only
              tail_tac
          · exact Tail.fall _ _
        · exact NMode.fall (succ1 hsucc) herr hp (hconf.resize (by simp [hstk]; omega))
      · intro er her
        apply WP.pure
        exact Post.brk hV2 G2 hF (fun er' h => by
          simp only [Option.some.injEq] at h; subst h; exact eok_of_pure S _ _ her)
          (fun _ _ => BConf.triv hc rfl)
    · simp at hst

theorem exec_pathend {S : SC} (C : Checked S) {x : ExtRec} {l : L} {e : Env}
    (hc : codeAt S l.pc = some .pathend) (hI : Inv S l e) : WP (exec .pathend x l) (Post S) e := by
  rcases hI.cases with ⟨hb, A, hV, G, hF, hM⟩ | ⟨hb, A, hV, G, hF, hN⟩
  · simp only [exec, hb, if_true]
    apply WP.pure
    exact Post.brk_triv hV G hF hM hc rfl
  · obtain ⟨herr, a, succs, ha, hst, hsucc, hpc, hp, hconf⟩ := hN.unpack C hc
    simp only [step1] at hst
    split at hst
    · rename_i hh
      simp only [Option.some.injEq] at hst
      subst hst
      rw [hpc] at hsucc
      rw [if_neg (by simp [isScope])] at hconf
      obtain ⟨j1, v1, r1, hs1⟩ := hconf.cons_of_pos (by omega)
      obtain ⟨j2, v2, r2, hs2⟩ : ∃ i v r, r1 = (i, v) :: r := by
        cases h : r1 with
        | nil => have := hconf.2.2; rw [hs1, h] at this; simp at this; omega
        | cons q r => exact ⟨q.1, q.2, r, rfl⟩
      obtain ⟨nx1, hp1, hV1, G1, _⟩ := pop_spec hV G hs1
      obtain ⟨nx2, hp2, hV2, G2, _⟩ := pop_spec (A := { A with stk := r1 }) hV1 G1 hs2
      simp only [exec]
      rw [if_neg (by rw [hb]; simp)]
      apply WP.step hp1
      apply WP.step hp2
      apply WP.frM (FrM.pathIntact x)
      intro ok e3 hfr3
      split
      · apply WP.pure
        exact Post.brk (hV2.fr hfr3) (G2.fr hfr3) hF (fun er h => by simp only [Option.some.injEq] at h; subst h; rfl)
          (fun _ _ => BConf.triv hc rfl)
      · apply WP.frM FrM.poppaths
        intro ps e4 hfr4
        apply WP.step (push_eq _ _)
        have hV5 := ((hV2.fr hfr3).fr hfr4).push (.jv (.arr ps))
        have G5 := ((G2.fr hfr3).fr hfr4).push (v := .jv (.arr ps)) rfl
        apply WP.frM FrM.pathsPop
        intro d e6 hfr6
        split
        · apply WP.step (modifyEnv_eq _ _)
          apply WP.pure
          refine Post.fall ((hV5.fr hfr6).fr ⟨rfl, rfl, rfl, rfl, rfl⟩) ((G5.fr hfr6).fr ⟨rfl, rfl, rfl, rfl, rfl⟩) hF hb ?_
          exact NMode.fall (succ1 hsucc) herr hp (hconf.resize (by simp [hs1, hs2]; omega))
        · exact WP.panic rfl
    · simp at hst

/-! ## `iter` -/

theorem pok_enumFrom (S : SC) (n : Int) : ∀ (vs : List JV) (i : Int), pok S n (enumFrom i vs) = true
  | [], _ => rfl
  | v :: vs, i => by
    simp only [enumFrom, pok, Bool.and_eq_true]
    exact ⟨rfl, pok_enumFrom S n vs (i + 1)⟩

theorem pok_map_kvs (S : SC) (n : Int) : ∀ (kvs : List (Bytes × JV)),
    pok S n (kvs.map fun (k, v) => (V.jv (.str k), V.jv v)) = true
  | [] => rfl
  | kv :: kvs => by
    simp only [List.map_cons, pok, Bool.and_eq_true]
    exact ⟨rfl, pok_map_kvs S n kvs⟩

theorem insertKV_ne_nil (kv : Bytes × JV) (l : List (Bytes × JV)) : insertKV kv l ≠ [] := by
  cases l with
  | nil => simp [insertKV]
  | cons a r => simp only [insertKV]; split <;> simp

theorem sortKVs_ne_nil {kvs : List (Bytes × JV)} (h : kvs ≠ []) : sortKVs kvs ≠ [] := by
  cases kvs with
  | nil => exact absurd rfl h
  | cons kv r => simp only [sortKVs, List.foldr_cons]; exact insertKV_ne_nil _ _

/-- the tail of `opiter` once the (non-empty) list is known: `A` is the view AFTER the pop -/
theorem iterEmit_spec {S : SC} {l l' : L} {e : Env} {A : AView} {a : Abs} (hV : View e A) (G : GInv S e)
    (hF : ForksConf S A.forks) (hc : codeAt S l.pc = some .iter) (ha : annAt S l.pc = some a)
    (hs : SuccOK S (l.pc + 1, a)) (hh : 1 ≤ a.h) (hconf : HConf S (A.forks ≠ []) (a.h - 1) A.stk A.frames)
    (hp : a.pend = true → A.forks ≠ []) (hl1 : l'.pc = l.pc) (hl2 : l'.err = none) (hl3 : l'.backtrack = false)
    {xs : List (V × V)} (hne : xs ≠ []) (hpok : pok S e.scopes.data.size xs = true) :
    WP (iterEmit l.pc l' xs) (Post S) e := by
  cases xs with
  | nil => exact absurd rfl hne
  | cons pv rest =>
    obtain ⟨p, w⟩ := pv
    simp only [pok, Bool.and_eq_true] at hpok
    obtain ⟨hw, hrest⟩ := hpok
    have hs' : SuccOK S (l'.pc + 1, a) := by rw [hl1]; exact hs
    have htail : ∀ (e1 : Env) (A1 : AView), View e1 A1 → GInv S e1 → ForksConf S A1.forks →
        (a.pend = true → A1.forks ≠ []) → HConf S (A1.forks ≠ []) (a.h - 1) A1.stk A1.frames →
        e1.scopes.data = e.scopes.data →
        WP (do push w
               if (← tracking) then do
                 pathsPush (.pv p w)
                 pure (Ctl.fall, l')
               else pure (Ctl.fall, l') : M (Ctl × L)) (Post S) e1 := by
      intro e1 A1 hV1 G1 hF1 hp1 hc1 hd1
      apply WP.step (push_eq _ _)
      have hV2 := hV1.push w
      have G2 := G1.push (v := w) (by simp only [VOK]; rw [hd1]; exact hw)
      have hN : NMode S { l' with pc := l'.pc + 1 }
          { e1 with stack := e1.stack.push w } { A1 with stk := ((e1.stack.push w).index, w) :: A1.stk } :=
        NMode.fall hs' hl2 hp1 (hc1.resize (by simp; omega))
      apply WP.frM FrM.tracking
      intro b e3 hfr3
      have hN3 : NMode S { l' with pc := l'.pc + 1 } e3 { A1 with stk := ((e1.stack.push w).index, w) :: A1.stk } := by
        obtain ⟨h1, a', ins, h2, h3, h4, h5⟩ := hN
        refine ⟨h1, a', ins, h2, h3, h4, ?_⟩
        rw [hfr3.2.1]; exact h5
      split
      · apply WP.frM (FrM.pathsPush _)
        intro _ e4 hfr4
        apply WP.pure
        refine Post.fall ((hV2.fr hfr3).fr hfr4) ((G2.fr hfr3).fr hfr4) hF1 hl3 ?_
        obtain ⟨h1, a', ins, h2, h3, h4, h5⟩ := hN3
        refine ⟨h1, a', ins, h2, h3, h4, ?_⟩
        rw [hfr4.2.1]; exact h5
      · apply WP.pure
        exact Post.fall (hV2.fr hfr3) (G2.fr hfr3) hF1 hl3 hN3
    simp only [iterEmit]
    split
    · rename_i hr
      have hv : VOK S e (.pvs rest) := by
        simp only [VOK, vok, Bool.and_eq_true]
        exact ⟨hr, hrest⟩
      obtain ⟨e1, j, hpf, hV1, G1, hd, _⟩ := pushforkOver_spec hV G hv l.pc
      apply WP.step hpf
      refine htail e1 _ hV1 G1 ?_ (fun _ => by simp) (hconf.mono (fun _ => by simp) (Nat.le_refl _)) hd
      refine ForksConf.cons (fun err => ?_) hF
      unfold BConf; simp only [hc]
      exact ⟨a, ha, hconf.resize (by simp; omega), hp⟩
    · exact htail e A hV G hF hp hconf rfl

theorem exec_iter {S : SC} (C : Checked S) {x : ExtRec} (hx : ExtOK x) {l : L} {e : Env}
    (hc : codeAt S l.pc = some .iter) (hI : Inv S l e) : WP (exec .iter x l) (Post S) e := by
  -- both modes provide the same configuration
  have key : ∃ A a, View e A ∧ GInv S e ∧ ForksConf S A.forks ∧ annAt S l.pc = some a ∧
      HConf S (A.forks ≠ []) a.h A.stk A.frames ∧ (a.pend = true → A.forks ≠ []) ∧
      eokO S e.scopes.data.size l.err := by
    rcases hI.cases with ⟨hb, A, hV, G, hF, hM⟩ | ⟨hb, A, hV, G, hF, hN⟩
    · have hB := hM.conf hc
      unfold BConf at hB
      simp only [hc] at hB
      obtain ⟨a, ha, hconf, hp⟩ := hB
      exact ⟨A, a, hV, G, hF, ha, hconf, hp, hM.1⟩
    · obtain ⟨herr, a, succs, ha, hst, hsucc, hpc, hp, hconf⟩ := hN.unpack C hc
      rw [if_neg (by simp [isScope])] at hconf
      exact ⟨A, a, hV, G, hF, ha, hconf, hp, by rw [herr]; exact eokO_none _ _⟩
  obtain ⟨A, a, hV, G, hF, ha, hconf, hp, heo⟩ := key
  obtain ⟨_, succs, hst, hsucc, hpc⟩ := C.step l.pc a _ ha hc
  simp only [step1] at hst
  split at hst
  · rename_i hh
    simp only [Option.some.injEq] at hst
    subst hst
    rw [hpc] at hsucc
    have hs := succ1 hsucc
    simp only [exec]
    split
    · -- a pending error: break
      apply WP.pure
      refine Post.brk hV G hF heo (fun hf _ => ?_)
      unfold BConf; simp only [hc]
      exact ⟨a, ha, hconf.mono (fun h => h hf) (Nat.le_refl _), fun hb => hp hb hf⟩
    · rename_i hnone
      have herr : l.err = none := by cases h : l.err <;> simp_all
      obtain ⟨j, v, r, hstk⟩ := hconf.cons_of_pos hh
      obtain ⟨nx, hpop, hV1, G1, hv⟩ := pop_spec hV G hstk
      have hconf1 : HConf S (A.forks ≠ []) (a.h - 1) r A.frames := hconf.resize (by simp [hstk]; omega)
      apply WP.step hpop
      -- the three ways out that do not emit
      have hbrk0 : WP (pure (Ctl.brk, { l with backtrack := false }) : M (Ctl × L)) (Post S)
          { e with stack := { e.stack with index := nx } } := by
        apply WP.pure
        exact Post.brk hV1 G1 hF (by simp only [herr]; exact eokO_none _ _) (fun _ h => by simp [herr] at h)
      have hempty : ∀ (k : VMErrKind),
          WP (do push .emptyIter; pure (Ctl.brk, { l with backtrack := false, err := some (vmErr k x) }) : M (Ctl × L))
          (Post S) { e with stack := { e.stack with index := nx } } := by
        intro k
        apply WP.step (push_eq _ _)
        apply WP.pure
        refine Post.brk (hV1.push _) (G1.push rfl) hF
          (fun er h => by simp only [Option.some.injEq] at h; subst h; rfl) (fun hf _ => ?_)
        unfold BConf; simp only [hc]
        exact ⟨a, ha, (hconf.mono (fun h => h hf) (Nat.le_refl _)).resize (by simp [hstk]), fun hb => hp hb hf⟩
      have hemit : ∀ (xs : List (V × V)), xs ≠ [] → pok S e.scopes.data.size xs = true →
          WP (iterEmit l.pc { l with backtrack := false } xs) (Post S) { e with stack := { e.stack with index := nx } } :=
        fun xs h1 h2 => iterEmit_spec (l' := { l with backtrack := false }) hV1 G1 hF hc ha hs hh hconf1 hp rfl herr rfl h1 h2
      have hcont : ∀ (xs : List (V × V)) (emp : Bool), (emp = false → xs ≠ [] ∧ pok S e.scopes.data.size xs = true) →
          WP (do if (← pathBroken x) then iterInvalid x { l with backtrack := false }
                 else if emp then pure (Ctl.brk, { l with backtrack := false })
                 else iterEmit l.pc { l with backtrack := false } xs : M (Ctl × L)) (Post S)
            { e with stack := { e.stack with index := nx } } := by
        intro xs emp hxs
        apply WP.frM (FrM.pathBroken x)
        intro b e3 hfr3
        have hd3 : e3.scopes.data = e.scopes.data := by rw [hfr3.2.1]
        split
        · simp only [iterInvalid]
          apply WP.step (push_eq _ _)
          apply WP.pure
          refine Post.brk ((hV1.fr hfr3).push _) ((G1.fr hfr3).push rfl) hF
            (fun er h => by simp only [Option.some.injEq] at h; subst h; rfl) (fun hf _ => ?_)
          unfold BConf; simp only [hc]
          exact ⟨a, ha, (hconf.mono (fun h => h hf) (Nat.le_refl _)).resize (by simp [hstk]), fun hb => hp hb hf⟩
        · split
          · apply WP.pure
            exact Post.brk (hV1.fr hfr3) (G1.fr hfr3) hF (by simp only [herr]; exact eokO_none _ _)
              (fun _ h => by simp [herr] at h)
          · rename_i hemp
            obtain ⟨h1, h2⟩ := hxs (by simpa using hemp)
            exact iterEmit_spec (l' := { l with backtrack := false }) (hV1.fr hfr3) (G1.fr hfr3) hF hc ha hs hh hconf1 hp rfl herr rfl h1
              (by rw [hd3]; exact h2)
      split
      · -- []pathValue
        rename_i xs
        simp only [VOK, vok, Bool.and_eq_true] at hv
        exact hemit xs (by intro h; rw [h] at hv; simp at hv) hv.2
      · -- array
        rename_i vs
        refine hcont (enumFrom 0 vs) vs.isEmpty (fun hemp => ⟨?_, pok_enumFrom S _ vs 0⟩)
        cases vs with
        | nil => simp at hemp
        | cons v0 vs => simp [enumFrom]
      · -- object
        rename_i kvs
        refine hcont _ kvs.isEmpty (fun hemp => ⟨?_, pok_map_kvs S _ _⟩)
        have : kvs ≠ [] := by intro h; rw [h] at hemp; simp at hemp
        have := sortKVs_ne_nil this
        intro hm
        exact this (List.map_eq_nil_iff.mp hm)
      · exact hbrk0
      · -- a Go iterator
        rename_i hnd
        apply WP.extCall hx
        · exact hbrk0
        · intro w hw
          obtain ⟨e1, j', hpf, hV2, G2, hd, _⟩ := pushforkOver_spec hV1 G1 (v := .iter hnd) rfl l.pc
          apply WP.step hpf
          apply WP.step (push_eq _ _)
          apply WP.pure
          refine Post.fall (hV2.push w) (G2.push (vok_of_pure S _ w hw)) ?_ rfl ?_
          · refine ForksConf.cons (fun err => ?_) hF
            unfold BConf; simp only [hc]
            exact ⟨a, ha, hconf.resize (by simp [hstk]), hp⟩
          · exact NMode.fall hs herr (fun _ => by simp)
              ((hconf.mono (fun _ => by simp) (Nat.le_refl _)).resize (by simp [hstk]))
        · intro er her
          obtain ⟨e1, j', hpf, hV2, G2, hd, _⟩ := pushforkOver_spec hV1 G1 (v := .iter hnd) rfl l.pc
          apply WP.step hpf
          apply WP.pure
          refine Post.brk hV2 G2 ?_ (fun er' h => by
            simp only [Option.some.injEq] at h; subst h; exact eok_of_pure S _ _ her) (fun hf _ => by simp at hf)
          refine ForksConf.cons (fun err => ?_) hF
          unfold BConf; simp only [hc]
          exact ⟨a, ha, hconf.resize (by simp [hstk]), hp⟩
      · exact hempty _
  · simp at hst

end Gojq.SafeVM

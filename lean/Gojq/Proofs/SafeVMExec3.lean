/-
  C08 (bytecode checker): every opcode keeps the invariant — part 3: the instructions that call out
  of the loop (natives, `funcIndex2`, iterators) and the path-tracking tails.
-/
import Gojq.Proofs.SafeVMExec2
set_option linter.unusedSimpArgs false
set_option linter.unusedVariables false
namespace Gojq.SafeVM
open Gojq Gojq.VM

/-! ## path-tracking helpers -/

theorem WP.asJV {β : Type} (v : V) {f : JV → M β} {Q : β → Env → Prop} {e : Env}
    (h : ∀ j, WP (f j) Q e) : WP (VM.asJV v >>= f) Q e := by
  cases v with
  | jv j => exact WP.step (rfl : VM.asJV (.jv j) e = .ok j e) (h j)
  | _ => apply WP.bind; exact WP.stuck

theorem WP.tracking {β : Type} {e : Env} {A : AView} (hV : View e A) {f : Bool → M β} {Q : β → Env → Prop}
    (h : ∀ b, (b = true → A.paths ≠ []) → WP (f b) Q e) : WP (VM.tracking >>= f) Q e := by
  obtain ⟨b, hb, hne⟩ := tracking_spec hV
  exact WP.step hb (h b hne)

theorem WP.pathIntact {β : Type} {e : Env} {A : AView} (hV : View e A) (hP : POK A.paths) (hne : A.paths ≠ [])
    (x : ExtRec) {f : Bool → M β} {Q : β → Env → Prop} (h : ∀ b, WP (f b) Q e) :
    WP (VM.pathIntact x >>= f) Q e := by
  rcases pathIntact_spec hV hP hne x with ⟨b, hb⟩ | ⟨w, hw⟩
  · exact WP.step hb (h b)
  · apply WP.bind; unfold WP; rw [hw]; trivial

theorem WP.pathBroken {β : Type} {e : Env} {A : AView} (hV : View e A) (hP : POK A.paths)
    (x : ExtRec) {f : Bool → M β} {Q : β → Env → Prop} (h : ∀ b, WP (f b) Q e) :
    WP (VM.pathBroken x >>= f) Q e := by
  obtain ⟨b, hb, hne⟩ := tracking_spec hV
  have this : (∃ b', VM.pathBroken x e = .ok b' e) ∨ (∃ w, VM.pathBroken x e = .stuck w) := by
    unfold VM.pathBroken
    show (∃ b', M.bind VM.tracking _ e = .ok b' e) ∨ (∃ w, M.bind VM.tracking _ e = .stuck w)
    simp only [M.bind, hb]
    cases b with
    | false => exact .inl ⟨false, rfl⟩
    | true =>
      simp only [if_true]
      show (∃ b', M.bind (VM.pathIntact x) _ e = .ok b' e) ∨ (∃ w, M.bind (VM.pathIntact x) _ e = .stuck w)
      rcases pathIntact_spec hV hP (hne rfl) x with ⟨b2, hb2⟩ | ⟨w, hw⟩
      · simp only [M.bind, hb2]; exact .inl ⟨_, rfl⟩
      · simp only [M.bind, hw]; exact .inr ⟨_, rfl⟩
  rcases this with ⟨b', hb'⟩ | ⟨w, hw⟩
  · exact WP.step hb' (h b')
  · apply WP.bind; unfold WP; rw [hw]; trivial

/-- the invariant of a successor does not look at the paths stack beyond its number of segments -/
theorem NMode.repath {S : SC} {l : L} {e : Env} {A : AView} (hN : NMode S l e A) {pa' : List (Int × V)}
    (hs : segs A.paths ≤ segs pa') : NMode S l e { A with paths := pa' } := by
  obtain ⟨h1, a, ins, h2, h3, h4, h5⟩ := hN
  refine ⟨h1, a, ins, h2, h3, h4, ?_⟩
  split
  · rename_i hsc
    rw [if_pos hsc] at h5
    obtain ⟨⟨hfr, hE⟩, hidx⟩ := h5
    refine ⟨⟨hfr, ?_⟩, hidx⟩
    rcases hE with ⟨a1, a2, a3, a4, a5⟩ | ⟨a1, a2, a3, a4⟩
    · exact .inl ⟨a1, a2, a3, a4, Nat.le_trans a5 hs⟩
    · exact .inr ⟨a1, a2, a3, Nat.le_trans a4 hs⟩
  · rename_i hsc
    rw [if_neg hsc] at h5
    exact ⟨h5.ne, h5.fr, h5.len, Nat.le_trans h5.plen hs⟩

theorem NMode.env {S : SC} {l : L} {e e' : Env} {A : AView} (hN : NMode S l e A)
    (h : e'.scopes = e.scopes) : NMode S l e' A := by
  obtain ⟨h1, a, ins, h2, h3, h4, h5⟩ := hN
  refine ⟨h1, a, ins, h2, h3, h4, ?_⟩
  rw [h]; exact h5

/-- the common end of a tracked instruction: `pathIntact`, then push one path entry and fall
    through — from a state that satisfies the invariant of the fall-through successor -/
theorem wp_tracked_end {S : SC} {x : ExtRec} {l : L} {e : Env} {A : AView} (hV : View e A) (G : GInv S e)
    (hF : ForksConf S A.forks) (hP : PathsInv A) (hb : l.backtrack = false)
    (hN : NMode S { l with pc := l.pc + 1 } e A) {i : Shape} (hc : codeAt S l.pc = some i) (hi : trivB i = true)
    (hne : A.paths ≠ []) {p w : V} (hp : p ≠ .jv .null) :
    WP (do if !(← VM.pathIntact x) then pure (Ctl.brk, { l with err := some (vmErr .invalidPath x) }) else do
           pathsPush (.pv p w)
           pure (Ctl.fall, l) : M (Ctl × L)) (Post S) e := by
  apply WP.pathIntact hV hP.1 hne x
  intro ok
  split
  · apply WP.pure
    exact Post.brk hV G hF hP (fun er h => by simp only [Option.some.injEq] at h; subst h; rfl)
      (fun _ _ => BConf.triv hc hi)
  · apply WP.step (pathsPush_eq _ _)
    apply WP.pure
    refine Post.fall (pathsPush_view hV _) (G.fr ⟨rfl, rfl, rfl, rfl, rfl⟩) hF ⟨POK.pv hp hne hP.1, hP.2⟩ hb ?_
    exact (hN.repath (by rw [segs_pv hp]; exact Nat.le_refl _)).env rfl

/-- not tracking: fall through -/
theorem Post.fall_here {S : SC} {l : L} {e : Env} {A : AView} (hV : View e A) (G : GInv S e)
    (hF : ForksConf S A.forks) (hP : PathsInv A) (hb : l.backtrack = false)
    (hN : NMode S { l with pc := l.pc + 1 } e A) : Post S (.fall, l) e :=
  Post.fall hV G hF hP hb hN

/-! ## `bad`, `index`, `indexarray` -/

theorem exec_bad {S : SC} (C : Checked S) {x : ExtRec} {l : L} {e : Env}
    (hc : codeAt S l.pc = some .bad) (hI : Inv S l e) : WP (exec .bad x l) (Post S) e := by
  obtain ⟨hb, A, hV, G, hF, hP, hN⟩ := hI.elimN hc rfl
  obtain ⟨herr, a, succs, ha, hst, hsucc, hpc, hp, hconf⟩ := hN.unpack C hc
  simp [step1] at hst

theorem extCall_some {x : ExtRec} {r : CallRes} (h : x.call = some r) (e : Env) : extCall x e = .ok r e := by
  unfold extCall; rw [h]

theorem WP.extCall {β : Type} {x : ExtRec} (hx : ExtOK x) {f : CallRes → M β} {Q : β → Env → Prop} {e : Env}
    (hend : x.call = some .iterEnd → WP (f .iterEnd) Q e)
    (hval : ∀ w, x.call = some (.val w) → vpure w = true → WP (f (.val w)) Q e)
    (herr : ∀ er, x.call = some (.err er) → epure er = true → WP (f (.err er)) Q e) : WP (VM.extCall x >>= f) Q e := by
  cases hcall : x.call with
  | none =>
    apply WP.bind
    unfold WP VM.extCall
    rw [hcall]
    trivial
  | some r =>
    apply WP.step (extCall_some hcall e)
    unfold ExtOK at hx
    rw [hcall] at hx
    cases r with
    | val w => exact hval w hcall hx
    | err er => exact herr er hcall hx
    | iterEnd => exact hend hcall

theorem nonNull_ne {k : JV} (h : nonNull k = true) : (V.jv k) ≠ .jv .null := by
  intro heq
  injection heq with heq
  subst heq
  simp [nonNull] at h

theorem exec_execIndex {S : SC} (C : Checked S) {isArr : Bool} {k : JV} {x : ExtRec} (hx : ExtOK x) {l : L} {e : Env}
    {i : Shape} (hi : i = .index (nonNull k) ∨ i = .indexarray (nonNull k))
    (hc : codeAt S l.pc = some i) (hI : Inv S l e) : WP (exec.execIndex x l isArr k) (Post S) e := by
  have hiT : trivB i = true := by rcases hi with rfl | rfl <;> rfl
  rcases hI.cases with ⟨hb, A, hV, G, hF, hP, hM⟩ | ⟨hb, A, hV, G, hF, hP, hN⟩
  · simp only [exec.execIndex, hb, if_true]
    apply WP.pure
    exact Post.brk_triv hV G hF hP hM hc hiT
  · obtain ⟨herr, a, succs, ha, hst, hsucc, hpc, hp, hconf⟩ := hN.unpack C hc
    have hst' : (1 ≤ a.h ∧ nonNull k = true) ∧ succs = [(l.pc + 1, a)] := by
      rcases hi with rfl | rfl <;> simp only [step1] at hst <;> split at hst <;> simp_all
    obtain ⟨⟨hh, hnn⟩, rfl⟩ := hst'
    rw [if_neg (by rcases hi with rfl | rfl <;> simp [isScope])] at hconf
    obtain ⟨j, v, r, hstk⟩ := hconf.cons_of_pos hh
    obtain ⟨nx, hpop, hV1, G1, hv⟩ := pop_spec hV G hstk
    simp only [exec.execIndex]
    rw [if_neg (by rw [hb]; simp)]
    apply WP.step hpop
    have hbrk : ∀ (kk : VMErrKind), WP (pure (Ctl.brk, { l with err := some (vmErr kk x) }) : M (Ctl × L))
        (Post S) { e with stack := { e.stack with index := nx } } := by
      intro kk
      apply WP.pure
      exact Post.brk hV1 G1 hF hP (fun er h => by simp only [Option.some.injEq] at h; subst h; rfl)
        (fun _ _ => BConf.triv hc hiT)
    have hext : WP (do
        match ← extCall x with
        | .iterEnd => stuck "ext: funcIndex2 answered by an iterator end"
        | .err er => pure (Ctl.brk, { l with err := some er })
        | .val w => do
          push w
          if (← tracking) then
            if !(← pathIntact x) then pure (Ctl.brk, { l with err := some (vmErr .invalidPath x) }) else do
            pathsPush (.pv (.jv k) w)
            pure (Ctl.fall, l)
          else pure (Ctl.fall, l) : M (Ctl × L)) (Post S) { e with stack := { e.stack with index := nx } } := by
      apply WP.extCall hx
      · intro _; exact WP.stuck
      · intro w _ hw
        apply WP.step (push_eq _ _)
        have hV2 := hV1.push w
        have G2 := G1.push (vok_of_pure S _ w hw)
        have hN2 : NMode S { l with pc := l.pc + 1 } { e with stack := ({ e.stack with index := nx } : Stack V).push w }
            { A with stk := ((({ e.stack with index := nx } : Stack V).push w).index, w) :: r } :=
          NMode.fall (succ1 hsucc) herr hp (hconf.resize (by simp [hstk]))
        apply WP.tracking hV2
        intro b hne
        split
        · exact wp_tracked_end hV2 G2 hF hP hb hN2 hc hiT (hne (by assumption)) (nonNull_ne hnn)
        · apply WP.pure
          exact Post.fall hV2 G2 hF hP hb hN2
      · intro er _ her
        apply WP.pure
        exact Post.brk hV1 G1 hF hP (fun er' h => by
          simp only [Option.some.injEq] at h; subst h; exact eok_of_pure S _ _ her)
          (fun _ _ => BConf.triv hc hiT)
    split <;> split <;> first | exact hbrk _ | exact hext

theorem exec_index {S : SC} (C : Checked S) {k : JV} {x : ExtRec} (hx : ExtOK x) {l : L} {e : Env}
    (hc : codeAt S l.pc = some (.index (nonNull k))) (hI : Inv S l e) : WP (exec (.index k) x l) (Post S) e := by
  simp only [exec]
  exact exec_execIndex C hx (.inl rfl) hc hI

theorem exec_indexarray {S : SC} (C : Checked S) {k : JV} {x : ExtRec} (hx : ExtOK x) {l : L} {e : Env}
    (hc : codeAt S l.pc = some (.indexarray (nonNull k))) (hI : Inv S l e) :
    WP (exec (.indexarray k) x l) (Post S) e := by
  simp only [exec]
  exact exec_execIndex C hx (.inr rfl) hc hI

/-! ## `object`, native calls, `pathend` -/

theorem objectLoop_spec {S : SC} (x : ExtRec) : ∀ (n : Nat) (m : List (Bytes × JV)) {e : Env} {A : AView},
    View e A → GInv S e → 2 * n ≤ A.stk.length →
    WP (objectLoop x n m) (fun r e' => ∃ stk', View e' { A with stk := stk' } ∧ GInv S e' ∧
      match r with
      | .ok _ => stk'.length + 2 * n = A.stk.length
      | .error er => ∃ k, er = vmErr k x) e := by
  intro n
  induction n with
  | zero =>
    intro m e A hV G _
    simp only [objectLoop]
    apply WP.pure
    exact ⟨A.stk, hV, G, by simp⟩
  | succ n ih =>
    intro m e A hV G hlen
    obtain ⟨i1, v1, r1, hs1⟩ : ∃ i v r, A.stk = (i, v) :: r := by
      cases h : A.stk with
      | nil => rw [h] at hlen; simp at hlen
      | cons q r => exact ⟨q.1, q.2, r, rfl⟩
    obtain ⟨i2, v2, r2, hs2⟩ : ∃ i v r, r1 = (i, v) :: r := by
      cases h : r1 with
      | nil => rw [hs1, h] at hlen; simp at hlen; omega
      | cons q r => exact ⟨q.1, q.2, r, rfl⟩
    obtain ⟨nx1, hp1, hV1, G1, _⟩ := pop_spec hV G hs1
    obtain ⟨nx2, hp2, hV2, G2, _⟩ := pop_spec (A := { A with stk := r1 }) hV1 G1 hs2
    have hlen2 : 2 * n ≤ r2.length := by rw [hs1, hs2] at hlen; simp at hlen; omega
    simp only [objectLoop]
    apply WP.step hp1
    apply WP.step hp2
    split
    · cases v1 with
      | jv j =>
        simp only [asJV]
        apply WP.step (rfl : (pure j : M JV) _ = .ok j _)
        refine WP.mono (ih _ (A := { A with stk := r2 }) hV2 G2 hlen2) ?_
        rintro r e' ⟨stk', h1, h2, h3⟩
        refine ⟨stk', h1, h2, ?_⟩
        cases r with
        | ok _ => simp only at h3 ⊢; rw [hs1, hs2]; simp; omega
        | error er => exact h3
      | _ => simp only [asJV]; apply WP.bind; exact WP.stuck
    · apply WP.pure
      exact ⟨r2, hV2, G2, _, rfl⟩

theorem exec_object {S : SC} (C : Checked S) {n : Int} {x : ExtRec} {l : L} {e : Env}
    (hc : codeAt S l.pc = some (.object n)) (hI : Inv S l e) : WP (exec (.object n) x l) (Post S) e := by
  rcases hI.cases with ⟨hb, A, hV, G, hF, hP, hM⟩ | ⟨hb, A, hV, G, hF, hP, hN⟩
  · simp only [exec, hb, if_true]
    apply WP.pure
    exact Post.brk_triv hV G hF hP hM hc rfl
  · obtain ⟨herr, a, succs, ha, hst, hsucc, hpc, hp, hconf⟩ := hN.unpack C hc
    simp only [step1] at hst
    split at hst
    · rename_i hh
      simp only [Option.some.injEq] at hst
      subst hst
      rw [hpc] at hsucc
      rw [if_neg (by simp [isScope])] at hconf
      have hlen : 2 * n.toNat ≤ A.stk.length := by have := hconf.len; omega
      simp only [exec]
      rw [if_neg (by rw [hb]; simp)]
      apply WP.bind
      refine WP.mono (objectLoop_spec x n.toNat [] hV G hlen) ?_
      rintro r e' ⟨stk', hV1, G1, hr⟩
      cases r with
      | error er =>
        obtain ⟨k, rfl⟩ := hr
        apply WP.pure
        exact Post.brk hV1 G1 hF hP (fun er h => by simp only [Option.some.injEq] at h; subst h; rfl)
          (fun _ _ => BConf.triv hc rfl)
      | ok m =>
        apply WP.step (push_eq _ _)
        apply WP.pure
        exact Post.fall (hV1.push _) (G1.push rfl) hF hP hb
          (NMode.fall (succ1 hsucc) herr hp (hconf.resize (by simp; omega)))
    · simp at hst

/-- `popArgs n` pops exactly the top `n` entries, top first -/
theorem popArgs_spec {S : SC} : ∀ (n : Nat) {e : Env} {A : AView}, View e A → GInv S e → n ≤ A.stk.length →
    WP (popArgs n) (fun args e' => View e' { A with stk := A.stk.drop n } ∧ GInv S e' ∧
      args = (A.stk.take n).map (·.2)) e := by
  intro n
  induction n with
  | zero =>
    intro e A hV G _
    simp only [popArgs]
    apply WP.pure
    exact ⟨hV, G, by simp⟩
  | succ n ih =>
    intro e A hV G hlen
    obtain ⟨i1, v1, r1, hs1⟩ : ∃ i v r, A.stk = (i, v) :: r := by
      cases h : A.stk with
      | nil => rw [h] at hlen; simp at hlen
      | cons q r => exact ⟨q.1, q.2, r, rfl⟩
    obtain ⟨nx1, hp1, hV1, G1, _⟩ := pop_spec hV G hs1
    have hlen1 : n ≤ r1.length := by rw [hs1] at hlen; simp at hlen; omega
    simp only [popArgs]
    apply WP.step hp1
    apply WP.bind
    refine WP.mono (ih (A := { A with stk := r1 }) hV1 G1 hlen1) ?_
    rintro args e' ⟨h1, h2, h3⟩
    apply WP.pure
    refine ⟨?_, h2, ?_⟩
    · rw [hs1]; exact h1
    · rw [hs1, h3]; simp

theorem exec_callNative {S : SC} (C : Checked S) {kind : NativeKind} {argc : Int} {x : ExtRec} (hx : ExtOK x)
    {l : L} {e : Env} (hk : keyOK (.callNative kind argc) (stackList e.stack) x)
    (hc : codeAt S l.pc = some (.callNative kind argc)) (hI : Inv S l e) :
    WP (exec (.callNative kind argc) x l) (Post S) e := by
  rcases hI.cases with ⟨hb, A, hV, G, hF, hP, hM⟩ | ⟨hb, A, hV, G, hF, hP, hN⟩
  · simp only [exec, hb, if_true]
    apply WP.pure
    exact Post.brk_triv hV G hF hP hM hc rfl
  · obtain ⟨herr, a, succs, ha, hst, hsucc, hpc, hp, hconf⟩ := hN.unpack C hc
    simp only [step1] at hst
    split at hst
    · rename_i hh
      obtain ⟨hneed, h32, hah⟩ := hh
      simp only [Option.some.injEq] at hst
      subst hst
      rw [hpc] at hsucc
      rw [if_neg (by simp [isScope])] at hconf
      have h0 : 0 ≤ argc := by cases kind <;> simp only [nativeNeed] at hneed <;> omega
      obtain ⟨j, v, r, hstk⟩ := hconf.cons_of_pos (by omega)
      obtain ⟨nx, hpop, hV1, G1, hv⟩ := pop_spec hV G hstk
      have hlenr : argc.toNat ≤ r.length := by
        have := hconf.len; rw [hstk] at this; simp at this; omega
      rw [stackList_view hV, hstk] at hk
      simp only [exec]
      rw [if_neg (by rw [hb]; simp)]
      apply WP.step hpop
      rw [if_neg (by omega)]
      apply WP.bind
      refine WP.mono (popArgs_spec argc.toNat (A := { A with stk := r }) hV1 G1 hlenr) ?_
      rintro args e2 ⟨hV2, G2, hargs⟩
      simp only at hV2 hargs
      apply WP.extCall hx
      · intro _; exact WP.stuck
      · intro w hcall hw
        apply WP.step (push_eq _ _)
        have hV3 := hV2.push w
        have G3 := G2.push (vok_of_pure S _ w hw)
        have hN3 : NMode S { l with pc := l.pc + 1 } { e2 with stack := e2.stack.push w }
            { A with stk := ((e2.stack.push w).index, w) :: r.drop argc.toNat } :=
          NMode.fall (succ1 hsucc) herr hp (hconf.resize (by simp [hstk]; omega))
        apply WP.tracking hV3
        intro b hne
        split
        · rename_i hbt
          have hne' := hne hbt
          cases kind with
          | other =>
            apply WP.pure
            exact Post.fall hV3 G3 hF hP hb hN3
          | index =>
            simp only [keyOK, hcall] at hk
            obtain ⟨x0, a0, a1, r', hkr, hnull⟩ := hk
            simp only [nativeNeed] at hneed
            obtain ⟨q0, q1, rest, hr⟩ : ∃ q0 q1 rest, r = q0 :: q1 :: rest := by
              match r, hlenr with
              | q0 :: q1 :: rest, _ => exact ⟨q0, q1, rest, rfl⟩
              | [_], h => simp at h; omega
              | [], h => simp at h; omega
            rw [hr] at hkr
            simp only [List.map_cons, List.cons.injEq] at hkr
            rw [hargs, hr, take_map2 _ _ _ _ _ (by omega), hkr.2.2.1]
            simp only
            exact wp_tracked_end hV3 G3 hF hP hb hN3 hc rfl hne' hnull
          | slice =>
            simp only [nativeNeed] at hneed
            obtain ⟨q0, q1, q2, rest, hr⟩ : ∃ q0 q1 q2 rest, r = q0 :: q1 :: q2 :: rest := by
              match r, hlenr with
              | q0 :: q1 :: q2 :: rest, _ => exact ⟨q0, q1, q2, rest, rfl⟩
              | [_, _], h => simp at h; omega
              | [_], h => simp at h; omega
              | [], h => simp at h; omega
            rw [hargs, hr, take_map3 _ _ _ _ _ _ (by omega)]
            simp only
            apply WP.pathIntact hV3 hP.1 hne' x
            intro ok
            split
            · apply WP.pure
              exact Post.brk hV3 G3 hF hP (fun er h => by simp only [Option.some.injEq] at h; subst h; rfl)
                (fun _ _ => BConf.triv hc rfl)
            · apply WP.asJV
              intro je
              apply WP.asJV
              intro js
              apply WP.step (pathsPush_eq _ _)
              apply WP.pure
              have hp' : (V.jv (.obj [(Bytes.ofString "end", je), (Bytes.ofString "start", js)])) ≠ .jv .null := by
                intro h; injection h with h; cases h
              refine Post.fall (pathsPush_view hV3 _) (G3.fr ⟨rfl, rfl, rfl, rfl, rfl⟩) hF
                ⟨POK.pv hp' hne' hP.1, hP.2⟩ hb ?_
              exact (hN3.repath (by rw [segs_pv hp']; exact Nat.le_refl _)).env rfl
          | getpath =>
            simp only [keyOK, hcall] at hk
            obtain ⟨x0, ps, r', hkr, hnull⟩ := hk
            simp only [nativeNeed] at hneed
            obtain ⟨q0, rest, hr⟩ : ∃ q0 rest, r = q0 :: rest := by
              match r, hlenr with
              | q0 :: rest, _ => exact ⟨q0, rest, rfl⟩
              | [], h => simp at h; omega
            rw [hr] at hkr
            simp only [List.map_cons, List.cons.injEq] at hkr
            rw [hargs, hr, take_map1 _ _ _ _ (by omega), hkr.2.1]
            apply WP.pathIntact hV3 hP.1 hne' x
            intro ok
            split
            · apply WP.pure
              exact Post.brk hV3 G3 hF hP (fun er h => by simp only [Option.some.injEq] at h; subst h; rfl)
                (fun _ _ => BConf.triv hc rfl)
            · simp only
              obtain ⟨e4, pa4, h1, h2, h3, h4, h5, h6⟩ := pushPaths_spec hV3 hP.1 hne' w ps _ _ hV3 hP.1 hne' hnull
              apply WP.step h1
              apply WP.pure
              refine Post.fall h3 (G3.fr h2) hF ⟨h4, hP.2⟩ hb ?_
              exact (hN3.repath (by rw [h6]; exact Nat.le_refl _)).env h2.2.1
        · apply WP.pure
          exact Post.fall hV3 G3 hF hP hb hN3
      · intro er _ her
        apply WP.pure
        exact Post.brk hV2 G2 hF hP (fun er' h => by
          simp only [Option.some.injEq] at h; subst h; exact eok_of_pure S _ _ her)
          (fun _ _ => BConf.triv hc rfl)
    · simp at hst

theorem exec_pathend {S : SC} (C : Checked S) {x : ExtRec} {l : L} {e : Env}
    (hc : codeAt S l.pc = some .pathend) (hI : Inv S l e) : WP (exec .pathend x l) (Post S) e := by
  rcases hI.cases with ⟨hb, A, hV, G, hF, hP, hM⟩ | ⟨hb, A, hV, G, hF, hP, hN⟩
  · simp only [exec, hb, if_true]
    apply WP.pure
    exact Post.brk_triv hV G hF hP hM hc rfl
  · obtain ⟨herr, a, succs, ha, hst, hsucc, hpc, hp, hconf⟩ := hN.unpack C hc
    simp only [step1] at hst
    split at hst
    · rename_i hh
      obtain ⟨hh, hpd⟩ := hh
      simp only [Option.some.injEq] at hst
      subst hst
      rw [hpc] at hsucc
      rw [if_neg (by simp [isScope])] at hconf
      obtain ⟨j1, v1, r1, hs1⟩ := hconf.cons_of_pos (by omega)
      obtain ⟨j2, v2, r2, hs2⟩ : ∃ i v r, r1 = (i, v) :: r := by
        cases h : r1 with
        | nil => have := hconf.len; rw [hs1, h] at this; simp at this; omega
        | cons q r => exact ⟨q.1, q.2, r, rfl⟩
      obtain ⟨nx1, hp1, hV1, G1, _⟩ := pop_spec hV G hs1
      obtain ⟨nx2, hp2, hV2, G2, _⟩ := pop_spec (A := { A with stk := r1 }) hV1 G1 hs2
      -- at least one segment is open: the paths stack is not empty
      have hne : A.paths ≠ [] := by
        intro h
        have := hconf.plen
        rw [h] at this
        simp [segs] at this
        omega
      simp only [exec]
      rw [if_neg (by rw [hb]; simp)]
      apply WP.step hp1
      apply WP.step hp2
      apply WP.pathIntact hV2 hP.1 hne x
      intro ok
      split
      · apply WP.pure
        exact Post.brk hV2 G2 hF hP (fun er h => by simp only [Option.some.injEq] at h; subst h; rfl)
          (fun _ _ => BConf.triv hc rfl)
      · have hpp := poppaths_spec hV2 hP.1 hne
        apply WP.bind
        unfold WP
        cases hres : poppaths { e with stack := { ({ e.stack with index := nx1 } : Stack V) with index := nx2 } } with
        | panic s => rw [hres] at hpp; exact hpp
        | stuck w => trivial
        | ok ps e4 =>
          rw [hres] at hpp
          obtain ⟨hfr4, jd, d, rp, hV4, hPr, hseg⟩ := hpp
          simp only
          apply WP.step (push_eq _ _)
          have hV5 := hV4.push (.jv (.arr ps))
          have G5 := (G2.fr hfr4).push (v := .jv (.arr ps)) rfl
          obtain ⟨nxp, hpp2, hV6⟩ := pathsPop_spec hV5 rfl
          apply WP.step hpp2
          simp only
          apply WP.step (modifyEnv_eq _ _)
          apply WP.pure
          refine Post.fall (hV6.fr ⟨rfl, rfl, rfl, rfl, rfl⟩) (G5.fr ⟨rfl, rfl, rfl, rfl, rfl⟩) hF ⟨hPr, hP.2⟩ hb ?_
          refine NMode.fall (succ1 hsucc) herr hp ⟨hconf.ne, hconf.fr, ?_, ?_⟩
          · have := hconf.len; simp [hs1, hs2] at this ⊢; omega
          · have := hconf.plen
            have hseg' : segs rp + 1 = segs A.paths := hseg
            simp only at this ⊢; omega
    · simp at hst

/-! ## `iter` -/

theorem pok_enumFrom (S : SC) (n : Int) : ∀ (vs : List JV) (i : Int), pok S n (enumFrom i vs) = true
  | [], _ => rfl
  | v :: vs, i => by
    simp only [enumFrom, pok, Bool.and_eq_true]
    exact ⟨⟨rfl, rfl⟩, pok_enumFrom S n vs (i + 1)⟩

theorem pok_map_kvs (S : SC) (n : Int) : ∀ (kvs : List (Bytes × JV)),
    pok S n (kvs.map fun (k, v) => (V.jv (.str k), V.jv v)) = true
  | [] => rfl
  | kv :: kvs => by
    simp only [List.map_cons, pok, Bool.and_eq_true]
    exact ⟨⟨rfl, rfl⟩, pok_map_kvs S n kvs⟩

theorem insertKV_ne_nil (kv : Bytes × JV) (l : List (Bytes × JV)) : insertKV kv l ≠ [] := by
  cases l with
  | nil => simp [insertKV]
  | cons a r => simp only [insertKV]; split <;> simp

theorem sortKVs_ne_nil {kvs : List (Bytes × JV)} (h : kvs ≠ []) : sortKVs kvs ≠ [] := by
  cases kvs with
  | nil => exact absurd rfl h
  | cons kv r => simp only [sortKVs, List.foldr_cons]; exact insertKV_ne_nil _ _

/-- the tail of `opiter` once the (non-empty) list is known: `A` is the view AFTER the pop -/
theorem iterEmit_spec {S : SC} {l l' : L} {e : Env} {A : AView} {a : Abs} (hV : View e A) (G : GInv S e)
    (hF : ForksConf S A.forks) (hc : codeAt S l.pc = some .iter) (ha : annAt S l.pc = some a)
    (hP : PathsInv A)
    (hs : SuccOK S (l.pc + 1, a)) (hh : 1 ≤ a.h)
    (hconf : HConf S (A.forks ≠ []) { a with h := a.h - 1 } A.stk A.paths A.frames)
    (hp : a.pend = true → A.forks ≠ []) (hl1 : l'.pc = l.pc) (hl2 : l'.err = none) (hl3 : l'.backtrack = false)
    {xs : List (V × V)} (hne : xs ≠ []) (hpok : pok S e.scopes.data.size xs = true) :
    WP (iterEmit l.pc l' xs) (Post S) e := by
  cases xs with
  | nil => exact absurd rfl hne
  | cons pv rest =>
    obtain ⟨p, w⟩ := pv
    simp only [pok, Bool.and_eq_true] at hpok
    obtain ⟨⟨hw, hpn⟩, hrest⟩ := hpok
    have hpnn : p ≠ .jv .null := notNullV_ne hpn
    have hs' : SuccOK S (l'.pc + 1, a) := by rw [hl1]; exact hs
    have htail : ∀ (e1 : Env) (A1 : AView), View e1 A1 → GInv S e1 → ForksConf S A1.forks → PathsInv A1 →
        (a.pend = true → A1.forks ≠ []) → HConf S (A1.forks ≠ []) { a with h := a.h - 1 } A1.stk A1.paths A1.frames →
        e1.scopes.data = e.scopes.data →
        WP (do push w
               if (← tracking) then do
                 pathsPush (.pv p w)
                 pure (Ctl.fall, l')
               else pure (Ctl.fall, l') : M (Ctl × L)) (Post S) e1 := by
      intro e1 A1 hV1 G1 hF1 hP1 hp1 hc1 hd1
      apply WP.step (push_eq _ _)
      have hV2 := hV1.push w
      have G2 := G1.push (v := w) (by simp only [VOK]; rw [hd1]; exact hw)
      have hN : NMode S { l' with pc := l'.pc + 1 }
          { e1 with stack := e1.stack.push w } { A1 with stk := ((e1.stack.push w).index, w) :: A1.stk } :=
        NMode.fall hs' hl2 hp1 (hc1.resize (by simp; omega))
      apply WP.tracking hV2
      intro b hne
      split
      · rename_i hbt
        apply WP.step (pathsPush_eq _ _)
        apply WP.pure
        -- the path of an emitted element is an index or a key, never nil
        refine Post.fall (pathsPush_view hV2 _) (G2.fr ⟨rfl, rfl, rfl, rfl, rfl⟩) hF1
          ⟨POK.pv hpnn (hne hbt) hP1.1, hP1.2⟩ hl3 ?_
        exact (hN.repath (by rw [segs_pv hpnn]; exact Nat.le_refl _)).env rfl
      · apply WP.pure
        exact Post.fall hV2 G2 hF1 hP1 hl3 hN
    simp only [iterEmit]
    split
    · rename_i hr
      have hv : VOK S e (.pvs rest) := by
        simp only [VOK, vok, Bool.and_eq_true]
        exact ⟨hr, hrest⟩
      obtain ⟨e1, j, hpf, hV1, G1, hd, _⟩ := pushforkOver_spec hV G hv l.pc
      apply WP.step hpf
      refine htail e1 _ hV1 G1 ?_ (hP.pushfork _ _) (fun _ => List.cons_ne_nil _ _)
        (hconf.mono (fun _ => List.cons_ne_nil _ _)) hd
      refine ForksConf.cons (fun err => ?_) hF
      unfold BConf; simp only [hc]
      exact ⟨a, ha, hconf.resize (by simp; omega), hp⟩
    · exact htail e A hV G hF hP hp hconf rfl

theorem exec_iter {S : SC} (C : Checked S) {x : ExtRec} (hx : ExtOK x) {l : L} {e : Env}
    (hc : codeAt S l.pc = some .iter) (hI : Inv S l e) : WP (exec .iter x l) (Post S) e := by
  -- both modes provide the same configuration
  have key : ∃ A a, View e A ∧ GInv S e ∧ ForksConf S A.forks ∧ PathsInv A ∧ annAt S l.pc = some a ∧
      HConf S (A.forks ≠ []) a A.stk A.paths A.frames ∧ (a.pend = true → A.forks ≠ []) ∧
      eokO S e.scopes.data.size l.err := by
    rcases hI.cases with ⟨hb, A, hV, G, hF, hP, hM⟩ | ⟨hb, A, hV, G, hF, hP, hN⟩
    · have hB := hM.conf hc
      unfold BConf at hB
      simp only [hc] at hB
      obtain ⟨a, ha, hconf, hp⟩ := hB
      exact ⟨A, a, hV, G, hF, hP, ha, hconf, hp, hM.1⟩
    · obtain ⟨herr, a, succs, ha, hst, hsucc, hpc, hp, hconf⟩ := hN.unpack C hc
      rw [if_neg (by simp [isScope])] at hconf
      exact ⟨A, a, hV, G, hF, hP, ha, hconf, hp, by rw [herr]; exact eokO_none _ _⟩
  obtain ⟨A, a, hV, G, hF, hP, ha, hconf, hp, heo⟩ := key
  obtain ⟨_, succs, hst, hsucc, hpc⟩ := C.step l.pc a _ ha hc
  simp only [step1] at hst
  split at hst
  · rename_i hh
    simp only [Option.some.injEq] at hst
    subst hst
    rw [hpc] at hsucc
    have hs := succ1 hsucc
    simp only [exec]
    split
    · -- a pending error: break
      apply WP.pure
      refine Post.brk hV G hF hP heo (fun hf _ => ?_)
      unfold BConf; simp only [hc]
      exact ⟨a, ha, hconf.mono (fun h => h hf), fun hb => hp hb hf⟩
    · rename_i hnone
      have herr : l.err = none := by cases h : l.err <;> simp_all
      obtain ⟨j, v, r, hstk⟩ := hconf.cons_of_pos hh
      obtain ⟨nx, hpop, hV1, G1, hv⟩ := pop_spec hV G hstk
      have hconf1 : HConf S (A.forks ≠ []) { a with h := a.h - 1 } r A.paths A.frames := hconf.resize (by simp [hstk]; omega)
      apply WP.step hpop
      -- the three ways out that do not emit
      have hbrk0 : WP (pure (Ctl.brk, { l with backtrack := false }) : M (Ctl × L)) (Post S)
          { e with stack := { e.stack with index := nx } } := by
        apply WP.pure
        exact Post.brk hV1 G1 hF hP (by simp only [herr]; exact eokO_none _ _) (fun _ h => by simp [herr] at h)
      have hempty : ∀ (k : VMErrKind),
          WP (do push .emptyIter; pure (Ctl.brk, { l with backtrack := false, err := some (vmErr k x) }) : M (Ctl × L))
          (Post S) { e with stack := { e.stack with index := nx } } := by
        intro k
        apply WP.step (push_eq _ _)
        apply WP.pure
        refine Post.brk (hV1.push _) (G1.push rfl) hF hP
          (fun er h => by simp only [Option.some.injEq] at h; subst h; rfl) (fun hf _ => ?_)
        unfold BConf; simp only [hc]
        exact ⟨a, ha, (hconf.mono (fun h => h hf)).resize (by simp [hstk]), fun hb => hp hb hf⟩
      have hemit : ∀ (xs : List (V × V)), xs ≠ [] → pok S e.scopes.data.size xs = true →
          WP (iterEmit l.pc { l with backtrack := false } xs) (Post S) { e with stack := { e.stack with index := nx } } :=
        fun xs h1 h2 => iterEmit_spec (l' := { l with backtrack := false }) hV1 G1 hF hc ha hP hs hh hconf1 hp rfl herr rfl h1 h2
      have hcont : ∀ (xs : List (V × V)) (emp : Bool), (emp = false → xs ≠ [] ∧ pok S e.scopes.data.size xs = true) →
          WP (do if (← pathBroken x) then iterInvalid x { l with backtrack := false }
                 else if emp then pure (Ctl.brk, { l with backtrack := false })
                 else iterEmit l.pc { l with backtrack := false } xs : M (Ctl × L)) (Post S)
            { e with stack := { e.stack with index := nx } } := by
        intro xs emp hxs
        apply WP.pathBroken hV1 hP.1 x
        intro b
        split
        · simp only [iterInvalid]
          apply WP.step (push_eq _ _)
          apply WP.pure
          refine Post.brk (hV1.push _) (G1.push rfl) hF hP
            (fun er h => by simp only [Option.some.injEq] at h; subst h; rfl) (fun hf _ => ?_)
          unfold BConf; simp only [hc]
          exact ⟨a, ha, (hconf.mono (fun h => h hf)).resize (by simp [hstk]), fun hb => hp hb hf⟩
        · split
          · apply WP.pure
            exact Post.brk hV1 G1 hF hP (by simp only [herr]; exact eokO_none _ _)
              (fun _ h => by simp [herr] at h)
          · rename_i hemp
            obtain ⟨h1, h2⟩ := hxs (by simpa using hemp)
            exact iterEmit_spec (l' := { l with backtrack := false }) hV1 G1 hF hc ha hP hs hh hconf1 hp rfl herr rfl h1 h2
      split
      · -- []pathValue
        rename_i xs
        simp only [VOK, vok, Bool.and_eq_true] at hv
        exact hemit xs (by intro h; rw [h] at hv; simp at hv) hv.2
      · -- array
        rename_i vs
        refine hcont (enumFrom 0 vs) vs.isEmpty (fun hemp => ⟨?_, pok_enumFrom S _ vs 0⟩)
        cases vs with
        | nil => simp at hemp
        | cons v0 vs => simp [enumFrom]
      · -- object
        rename_i kvs
        refine hcont _ kvs.isEmpty (fun hemp => ⟨?_, pok_map_kvs S _ _⟩)
        have : kvs ≠ [] := by intro h; rw [h] at hemp; simp at hemp
        have := sortKVs_ne_nil this
        intro hm
        exact this (List.map_eq_nil_iff.mp hm)
      · exact hbrk0
      · -- a Go iterator
        rename_i hnd
        apply WP.extCall hx
        · intro _; exact hbrk0
        · intro w _ hw
          obtain ⟨e1, j', hpf, hV2, G2, hd, _⟩ := pushforkOver_spec hV1 G1 (v := .iter hnd) rfl l.pc
          apply WP.step hpf
          apply WP.step (push_eq _ _)
          apply WP.pure
          refine Post.fall (hV2.push w) (G2.push (vok_of_pure S _ w hw)) ?_ (hP.pushfork _ _) rfl ?_
          · refine ForksConf.cons (fun err => ?_) hF
            unfold BConf; simp only [hc]
            exact ⟨a, ha, hconf.resize (by simp [hstk]), hp⟩
          · exact NMode.fall hs herr (fun _ => List.cons_ne_nil _ _)
              ((hconf.mono (fun _ => List.cons_ne_nil _ _)).resize (by simp [hstk]))
        · intro er _ her
          obtain ⟨e1, j', hpf, hV2, G2, hd, _⟩ := pushforkOver_spec hV1 G1 (v := .iter hnd) rfl l.pc
          apply WP.step hpf
          apply WP.pure
          refine Post.brk hV2 G2 ?_ (hP.pushfork _ _) (fun er' h => by
            simp only [Option.some.injEq] at h; subst h; exact eok_of_pure S _ _ her) (fun hf _ => by simp at hf)
          refine ForksConf.cons (fun err => ?_) hF
          unfold BConf; simp only [hc]
          exact ⟨a, ha, hconf.resize (by simp [hstk]), hp⟩
      · exact hempty _
  · simp at hst

end Gojq.SafeVM

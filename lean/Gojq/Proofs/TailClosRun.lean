/-
  C04, the tail-call pass on programs WITH closures: whole runs on which no closure is CALLED.
  The turns of Proofs/TailClosDiagram.lean assembled into calls of `Next` and call histories, under a
  run-time guard on the ORIGINAL run (`historyGuardC`): no turn executes `callpc`, and no turn starts
  with a pending `break` error that carries a closure.  Programs may create closures (`pushpc`) and
  pass them around (store / load in argument slots).
-/
import Gojq.Proofs.TailClosCall
set_option linter.unusedSimpArgs false
set_option linter.unusedVariables false
namespace Gojq.TailVM
open Gojq Gojq.VM Gojq.OptVM Gojq.CloParam

/-! ## the guard -/

def turnOK (c : Array Instr) (l : L) : Bool :=
  (match c.getD l.pc.toNat .bad with
   | .callpc => false
   | _ => true) &&
  (match l.err with
   | some (.brk _ (.clo _ _)) => false
   | _ => true)

/-- the guard on one call of `Next` of the original run -/
def loopGuardC (c : Array Instr) (ext : Nat → ExtRec) : Nat → L → St → Bool
  | fuel, l, s =>
    turnOK c l &&
    match stepC c ext l s with
    | .fin _ _ => true
    | .cont l' s' =>
      match fuel with
      | 0 => true
      | fuel + 1 => loopGuardC c ext fuel l' s'

/-- … on the first `n` calls -/
def historyGuardC (c : Array Instr) (ext : Nat → ExtRec) (fuel : Nat) : Nat → St → Bool
  | 0, _ => true
  | n + 1, s => loopGuardC c ext fuel (entry ⟨c, never, ext⟩ s) s && historyGuardC c ext fuel n (nextC c ext fuel s).2

theorem loopGuardC_eq (c : Array Instr) (ext : Nat → ExtRec) (fuel : Nat) (l : L) (s : St) :
    loopGuardC c ext fuel l s =
      (turnOK c l &&
        match stepC c ext l s with
        | .fin _ _ => true
        | .cont l' s' =>
          match fuel with
          | 0 => true
          | fuel + 1 => loopGuardC c ext fuel l' s') := by
  rw [loopGuardC]

theorem turnOK_spec {c : Array Instr} {l : L} (h : turnOK c l = true) :
    c.getD l.pc.toNat .bad ≠ .callpc ∧ ∀ n p i, l.err ≠ some (.brk n (.clo p i)) := by
  unfold turnOK at h
  simp only [Bool.and_eq_true] at h
  refine ⟨?_, ?_⟩
  · intro hc; rw [hc] at h; simp at h
  · intro n p i he; rw [he] at h; simp at h

/-! ## one turn -/

/-- the diagram of one turn -/
def DiagramC (c c' d d' : Array Instr) (x : ExtRec) (lo lp : L) (eo ep : Env) : Prop :=
  match stepE c x lo eo with
  | .fin o ef => o.proper = true →
      ∃ o' ef', stepE c' x lp ep = .fin o' ef' ∧ OutR o o' ∧ CFRel d d' ef ef' ∧ tickAt c lo = tickAt c' lp
  | .cont lo1 eo1 =>
    (∃ lp1 ep1, stepE c' x lp ep = .cont lp1 ep1 ∧ CInv d d' lo1 lp1 eo1 ep1 ∧ tickAt c lo = tickAt c' lp) ∨
    (CInv d d' lo1 lp eo1 ep ∧ tickAt c lo = 0)

theorem kept_of_spec {c c' : Array Instr} (hshape : tailShapeCheck c = true) (hopt : optTailV c = some c')
    (i : Nat) (hk : kept (c.getD i .bad) = true) : kept (c'.getD i .bad) = true := by
  have hs := shapeOK_of_check hshape
  obtain ⟨hsize, hsite⟩ := optTailV_spec hs.fwd hopt
  rw [getD_eq] at hk ⊢
  cases hc : c[i]? with
  | none =>
    have : c'[i]? = none := by
      rw [Array.getElem?_eq_none_iff] at hc ⊢
      omega
    rw [this]; rfl
  | some a =>
    rw [hc] at hk
    rcases hsite i a hc with h1 | ⟨j, id, v, h1, _, _, _, h5⟩
    · rw [h1]; exact hk
    · rcases h5 with ⟨_, h5⟩ | ⟨_, h5⟩ <;> rw [h5] <;> rfl

/-- where the optimised run stands, its code has an instruction that `strip` keeps, if the original's has -/
theorem kept_opt {c c' : Array Instr} (hshape : tailShapeCheck c = true) (hopt : optTailV c = some c')
    {lo lp : L} {eo ep : Env} (h : CInv (c.map strip) (c'.map strip) lo lp eo ep)
    (hk : kept (c.getD lo.pc.toNat .bad) = true) : kept (c'.getD lp.pc.toNat .bad) = true := by
  obtain ⟨lm, em, hl, he, hI⟩ := h
  have hpcm : lm.pc = lo.pc := by rw [hl.rest]
  cases hI.mode with
  | sync hs _ =>
    rw [← hs, hpcm]
    exact kept_of_spec hshape hopt _ hk
  | detour _ hr _ =>
    obtain ⟨h0, hr⟩ := hr
    obtain ⟨a0, ha0, hst⟩ := strip_get hr
    have e := strip_eq hst (by intro v h; cases h) (by intro t h; cases h)
    subst e
    apply kept_of_spec hshape hopt
    rw [getD_eq, ha0]; rfl
  | callmid i j id _ hpc hj _ _ _ _ _ _ _ =>
    obtain ⟨a0, ha0, hst⟩ := strip_get hj
    have e := strip_eq hst (by intro v h; cases h) (by intro t h; cases h)
    subst e
    rw [hpc, getD_eq]
    have : ((i : Int)).toNat = i := by simp
    rw [this, ha0]; rfl

theorem diagram_of_guard {c c' : Array Instr} (hshape : tailShapeCheck c = true) (hopt : optTailV c = some c')
    (hnc : noCallrec c' = true) (x : ExtRec) {lo lp : L} {eo ep : Env}
    (h : CInv (c.map strip) (c'.map strip) lo lp eo ep) (hg : turnOK c lo = true) :
    DiagramC c c' (c.map strip) (c'.map strip) x lo lp eo ep := by
  obtain ⟨hncp, hE⟩ := turnOK_spec hg
  by_cases hk : kept (c.getD lo.pc.toNat .bad) = true
  · exact turn_closures hshape hopt hnc x h hk (kept_opt hshape hopt h hk) hE
  · -- `pushpc`
    have hins : ∃ t, c.getD lo.pc.toNat .bad = .pushpc t := by
      cases hc : c.getD lo.pc.toNat .bad <;> simp [hc, kept] at hk hncp ⊢
    obtain ⟨t, ht⟩ := hins
    by_cases h0 : 0 ≤ lo.pc
    · have hget : c[lo.pc.toNat]? = some (.pushpc t) := by
        rw [getD_eq] at ht
        cases hc : c[lo.pc.toNat]? with
        | none => rw [hc] at ht; cases ht
        | some a => rw [hc] at ht; simp only [Option.getD_some] at ht; rw [ht]
      obtain ⟨lo1, eo1, lp1, ep1, s1, s2, hC, t1, t2⟩ := pushpc_closures hshape hopt hnc x h t h0 hget
      unfold DiagramC
      rw [s1]
      exact .inl ⟨lp1, ep1, s2, hC, by rw [t1, t2]⟩
    · unfold DiagramC
      rw [stepE_neg c x lo eo (by omega)]
      intro hp; simp [Outcome.proper] at hp

/-! ## one call, call histories -/

def CFRelS (d d' : Array Instr) (s s' : St) : Prop := CFRel d d' s.env s'.env ∧ s.polls = s'.polls

theorem loopC_closures {c c' : Array Instr} (hshape : tailShapeCheck c = true) (hopt : optTailV c = some c')
    (hnc : noCallrec c' = true) (ext : Nat → ExtRec) :
    ∀ (fuel : Nat) (lo lp : L) (so sp : St), CInv (c.map strip) (c'.map strip) lo lp so.env sp.env →
    so.polls = sp.polls → loopGuardC c ext fuel lo so = true →
    (loopC c ext fuel lo so).1.proper = true →
    OutR (loopC c ext fuel lo so).1 (loopC c' ext fuel lp sp).1 ∧
      CFRelS (c.map strip) (c'.map strip) (loopC c ext fuel lo so).2 (loopC c' ext fuel lp sp).2 := by
  intro fuel
  induction fuel with
  | zero =>
    intro lo lp so sp hI hp hg hprop
    rw [loopGuardC_eq] at hg
    simp only [Bool.and_eq_true] at hg
    have hd := diagram_of_guard hshape hopt hnc (ext so.polls) hI hg.1
    unfold DiagramC at hd
    rw [loopC_zero] at hprop ⊢
    rw [loopC_zero]
    rw [stepC_eq] at hprop ⊢
    rw [stepC_eq, ← hp]
    cases hs : stepE c (ext so.polls) lo so.env with
    | fin o ef =>
      rw [hs] at hd hprop
      simp only [StepE.toStep] at hprop
      obtain ⟨o', ef', h1, h2, h3, h4⟩ := hd hprop
      rw [h1]
      exact ⟨h2, h3, by show so.polls + _ = so.polls + _; rw [h4]⟩
    | cont lo1 eo1 =>
      rw [hs] at hprop
      simp [StepE.toStep, Outcome.proper] at hprop
  | succ n ih =>
    intro lo lp so sp hI hp hg hprop
    rw [loopGuardC_eq] at hg
    simp only [Bool.and_eq_true] at hg
    obtain ⟨hg1, hg2⟩ := hg
    have hd := diagram_of_guard hshape hopt hnc (ext so.polls) hI hg1
    unfold DiagramC at hd
    rw [loopC_succ] at hprop ⊢
    rw [loopC_succ]
    rw [stepC_eq] at hprop hg2 ⊢
    rw [stepC_eq, ← hp]
    cases hs : stepE c (ext so.polls) lo so.env with
    | fin o ef =>
      rw [hs] at hd hprop
      simp only [StepE.toStep] at hprop
      obtain ⟨o', ef', h1, h2, h3, h4⟩ := hd hprop
      rw [h1]
      exact ⟨h2, h3, by show so.polls + _ = so.polls + _; rw [h4]⟩
    | cont lo1 eo1 =>
      rw [hs] at hd hprop hg2
      simp only [StepE.toStep] at hprop hg2
      rcases hd with ⟨lp1, ep1, h1, h2, h3⟩ | ⟨h2, h3⟩
      · rw [h1]
        exact ih lo1 lp1 ⟨eo1, so.polls + tickAt c lo⟩ ⟨ep1, so.polls + tickAt c' lp⟩ h2
          (by show so.polls + _ = so.polls + _; rw [h3]) hg2 hprop
      · have := ih lo1 lp ⟨eo1, so.polls + tickAt c lo⟩ sp h2 (by show so.polls + _ = _; rw [h3, hp]; rfl) hg2 hprop
        have hne : (loopC c' ext n lp sp).1 ≠ .outOfFuel := by
          intro hof
          have h1 := this.1
          rw [hof] at h1
          have := outR_proper h1 hprop
          cases hc : (loopC c ext n lo1 ⟨eo1, so.polls + tickAt c lo⟩).1 <;> rw [hc] at h1 hprop <;>
            simp [OutR, Outcome.proper] at h1 hprop
        have hmono := loopC_fuel_mono c' ext n lp sp hne
        rw [loopC_succ, stepC_eq, ← hp] at hmono
        rw [hmono]
        exact this

/-- call histories: under the guard, if every call of the original ends properly with an outcome that
    determines the outcomes related to it (a JSON outcome), the optimised code gives the same history -/
theorem historyC_closures {c c' : Array Instr} (hshape : tailShapeCheck c = true) (hopt : optTailV c = some c')
    (hnc : noCallrec c' = true) (ext : Nat → ExtRec) (fuel : Nat) :
    ∀ (n : Nat) (s s' : St), CFRelS (c.map strip) (c'.map strip) s s' → historyGuardC c ext fuel n s = true →
    (∀ o ∈ historyC c ext fuel n s, o.proper = true ∧ ∀ o', OutR o o' → o' = o) →
    historyC c' ext fuel n s' = historyC c ext fuel n s := by
  intro n
  induction n with
  | zero => intro s s' _ _ _; rfl
  | succ n ih =>
    intro s s' hF hg hp
    simp only [historyC, List.mem_cons, forall_eq_or_imp] at hp
    simp only [historyGuardC, Bool.and_eq_true] at hg
    have h1 := loopC_closures hshape hopt hnc ext fuel _ _ s s' (entry_cinv hshape hopt hnc ext hF.1) hF.2 hg.1
      hp.1.1
    have h2 := ih (nextC c ext fuel s).2 (nextC c' ext fuel s').2 h1.2 hg.2 hp.2
    simp only [historyC]
    rw [h2]
    congr 1
    exact hp.1.2 _ h1.1

theorem closures_refines {c c' : Array Instr} (hshape : tailShapeCheck c = true) (hopt : optTailV c = some c')
    (hnc : noCallrec c' = true) (ext : Nat → ExtRec) (fuel n : Nat) (input : V) (vars : List V)
    (hg : historyGuardC c ext fuel n (initSt input vars) = true)
    (hp : ∀ o ∈ historyC c ext fuel n (initSt input vars), o.proper = true ∧ ∀ o', OutR o o' → o' = o) :
    historyC c' ext fuel n (initSt input vars) = historyC c ext fuel n (initSt input vars) :=
  historyC_closures hshape hopt hnc ext fuel n _ _ ⟨initSt_cfrel c c' input vars, rfl⟩ hg hp

end Gojq.TailVM

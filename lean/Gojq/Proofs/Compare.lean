/-
  Helper lemmas for C11, part 2: `cmp` is a total preorder on the property's domain.
  The composition law of a three-way comparison is the Boolean `compat`; lexicographic
  combination preserves it (`compat_then`, checked over the finite type `Ordering`), which
  turns the mutual induction over `JV` / `List JV` / `List (Bytes × JV)` into bookkeeping.
  Core Lean only.
-/
import Gojq.Proofs.CompareNum
namespace Gojq

/-- `ac` is what composing `ab` (a vs b) with `bc` (b vs c) demands of a vs c:
    `eq ∘ o = o ∘ eq = o`, `lt ∘ lt = lt`, `gt ∘ gt = gt`; `lt ∘ gt` and `gt ∘ lt` demand nothing. -/
def compat (ab bc ac : Ordering) : Bool :=
  match ab, bc with
  | .eq, o => ac == o
  | o, .eq => ac == o
  | .lt, .lt => ac == .lt
  | .gt, .gt => ac == .gt
  | _, _ => true

theorem then_eq_match (o r : Ordering) : (match o with | .eq => r | o => o) = o.then r := by
  cases o <;> rfl

/-- lexicographic composition preserves the composition law; the tails matter only below equal heads -/
theorem compat_then (h1 h2 h3 t1 t2 t3 : Ordering) (hh : compat h1 h2 h3)
    (ht : h1 = .eq → h2 = .eq → compat t1 t2 t3) : compat (h1.then t1) (h2.then t2) (h3.then t3) := by
  cases h1 <;> cases h2 <;> cases h3 <;> simp [compat] at hh <;>
    cases t1 <;> cases t2 <;> cases t3 <;> simp [compat, Ordering.then] at ht ⊢

theorem compat_le {ab bc ac : Ordering} (h : compat ab bc ac) : ab ≠ .gt → bc ≠ .gt → ac ≠ .gt := by
  cases ab <;> cases bc <;> cases ac <;> simp [compat] at h ⊢
theorem compat_lt_le {ab bc ac : Ordering} (h : compat ab bc ac) : ab = .lt → bc ≠ .gt → ac = .lt := by
  cases ab <;> cases bc <;> cases ac <;> simp [compat] at h ⊢
theorem compat_le_lt {ab bc ac : Ordering} (h : compat ab bc ac) : ab ≠ .gt → bc = .lt → ac = .lt := by
  cases ab <;> cases bc <;> cases ac <;> simp [compat] at h ⊢
theorem compat_eq_eq {ab bc ac : Ordering} (h : compat ab bc ac) : ab = .eq → bc = .eq → ac = .eq := by
  cases ab <;> cases bc <;> cases ac <;> simp [compat] at h ⊢
theorem compat_eq_left {ab bc ac : Ordering} (h : compat ab bc ac) : ab = .eq → ac = bc := by
  cases ab <;> cases bc <;> cases ac <;> simp [compat] at h ⊢
theorem compat_eq_right {ab bc ac : Ordering} (h : compat ab bc ac) : bc = .eq → ac = ab := by
  cases ab <;> cases bc <;> cases ac <;> simp [compat] at h ⊢

/-! ### scalar comparators -/

theorem cmpRat_refl (x : Rat) : cmpRat x x = .eq := by
  unfold cmpRat; simp [Rat.lt_irrefl]
theorem cmpRat_swap (x y : Rat) : cmpRat y x = (cmpRat x y).swap := by
  unfold cmpRat
  repeat' split
  all_goals first | rfl | (exfalso; grind)
theorem cmpRat_compat (x y z : Rat) : compat (cmpRat x y) (cmpRat y z) (cmpRat x z) := by
  unfold cmpRat
  repeat' split
  all_goals first | rfl | (exfalso; grind)
theorem cmpRat_eq_iff (x y : Rat) : cmpRat x y = .eq ↔ x = y := by
  unfold cmpRat
  repeat' split
  all_goals simp_all
  all_goals grind

theorem cmpNat_refl (x : Nat) : cmpNat x x = .eq := by simp [cmpNat]
theorem cmpNat_swap (x y : Nat) : cmpNat y x = (cmpNat x y).swap := by
  unfold cmpNat
  repeat' split
  all_goals first | rfl | (exfalso; omega)
theorem cmpNat_compat (x y z : Nat) : compat (cmpNat x y) (cmpNat y z) (cmpNat x z) := by
  unfold cmpNat
  repeat' split
  all_goals first | rfl | (exfalso; omega)
theorem cmpNat_eq_iff (x y : Nat) : cmpNat x y = .eq ↔ x = y := by
  unfold cmpNat
  repeat' split
  all_goals simp_all
  all_goals omega
theorem cmpNat_lt_iff (x y : Nat) : cmpNat x y = .lt ↔ x < y := by
  unfold cmpNat
  repeat' split
  all_goals simp_all
/-! ### bytes and key lists -/

/-- three-way comparison of two bytes, as `Bytes.cmp` performs it -/
def cmpU8 (a b : UInt8) : Ordering := if a < b then .lt else if b < a then .gt else .eq

theorem cmpU8_refl (a : UInt8) : cmpU8 a a = .eq := by
  unfold cmpU8; simp
theorem cmpU8_swap (a b : UInt8) : cmpU8 b a = (cmpU8 a b).swap := by
  unfold cmpU8
  simp only [UInt8.lt_iff_toNat_lt]
  repeat' split
  all_goals first | rfl | (exfalso; omega)
theorem cmpU8_compat (a b c : UInt8) : compat (cmpU8 a b) (cmpU8 b c) (cmpU8 a c) := by
  unfold cmpU8
  simp only [UInt8.lt_iff_toNat_lt]
  repeat' split
  all_goals first | rfl | (exfalso; omega)
theorem cmpU8_eq_iff (a b : UInt8) : cmpU8 a b = .eq ↔ a = b := by
  unfold cmpU8
  rw [← UInt8.toNat_inj]
  repeat' split
  all_goals simp_all [UInt8.lt_iff_toNat_lt]
  all_goals omega

theorem then_eq (r : Ordering) : Ordering.then .eq r = r := rfl

theorem Bytes.cmp_cons (a b : UInt8) (as bs : Bytes) :
    Bytes.cmp (a :: as) (b :: bs) = (cmpU8 a b).then (Bytes.cmp as bs) := by
  simp only [Bytes.cmp, cmpU8]
  repeat' split
  all_goals rfl

theorem Bytes.cmp_refl : ∀ a : Bytes, Bytes.cmp a a = .eq
  | [] => rfl
  | x :: xs => by rw [Bytes.cmp_cons, cmpU8_refl, then_eq]; exact Bytes.cmp_refl xs

theorem Bytes.cmp_swap : ∀ a b : Bytes, Bytes.cmp b a = (Bytes.cmp a b).swap
  | [], [] => rfl
  | [], _ :: _ => rfl
  | _ :: _, [] => rfl
  | x :: xs, y :: ys => by
    rw [Bytes.cmp_cons, Bytes.cmp_cons, cmpU8_swap, Bytes.cmp_swap xs ys, Ordering.swap_then]

theorem compat_any_gt_gt (o : Ordering) : compat o .gt .gt := by cases o <;> rfl
theorem compat_lt_any_lt (o : Ordering) : compat .lt o .lt := by cases o <;> rfl
theorem compat_gt_lt_any (o : Ordering) : compat .gt .lt o := by cases o <;> rfl

theorem Bytes.cmp_compat : ∀ a b c : Bytes, compat (Bytes.cmp a b) (Bytes.cmp b c) (Bytes.cmp a c)
  | [], [], [] => rfl
  | [], [], _ :: _ => rfl
  | [], _ :: _, [] => rfl
  | [], _ :: _, _ :: _ => compat_lt_any_lt _
  | _ :: _, [], [] => rfl
  | _ :: _, [], _ :: _ => compat_gt_lt_any _
  | _ :: _, _ :: _, [] => compat_any_gt_gt _
  | x :: xs, y :: ys, z :: zs => by
    rw [Bytes.cmp_cons, Bytes.cmp_cons, Bytes.cmp_cons]
    exact compat_then _ _ _ _ _ _ (cmpU8_compat x y z) (fun _ _ => Bytes.cmp_compat xs ys zs)

theorem then_eq_eq_iff (o r : Ordering) : o.then r = .eq ↔ o = .eq ∧ r = .eq := by
  cases o <;> simp [Ordering.then]

theorem Bytes.cmp_eq_iff : ∀ a b : Bytes, Bytes.cmp a b = .eq ↔ a = b
  | [], [] => by simp [Bytes.cmp]
  | [], _ :: _ => by simp [Bytes.cmp]
  | _ :: _, [] => by simp [Bytes.cmp]
  | x :: xs, y :: ys => by
    rw [Bytes.cmp_cons, then_eq_eq_iff, cmpU8_eq_iff, Bytes.cmp_eq_iff xs ys]; simp

theorem cmpKeys_cons (k l : Bytes) (x y : JV) (xs ys : List (Bytes × JV)) :
    cmpKeys ((k, x) :: xs) ((l, y) :: ys) = (Bytes.cmp k l).then (cmpKeys xs ys) := by
  simp only [cmpKeys]; exact then_eq_match _ _

theorem cmpKeys_refl : ∀ a : List (Bytes × JV), cmpKeys a a = .eq
  | [] => rfl
  | (k, x) :: xs => by rw [cmpKeys_cons, Bytes.cmp_refl, then_eq]; exact cmpKeys_refl xs

theorem cmpKeys_swap : ∀ a b : List (Bytes × JV), cmpKeys b a = (cmpKeys a b).swap
  | [], [] => rfl
  | [], _ :: _ => rfl
  | _ :: _, [] => rfl
  | (k, x) :: xs, (l, y) :: ys => by
    rw [cmpKeys_cons, cmpKeys_cons, Bytes.cmp_swap k l, cmpKeys_swap xs ys, Ordering.swap_then]

theorem cmpKeys_compat : ∀ a b c : List (Bytes × JV), compat (cmpKeys a b) (cmpKeys b c) (cmpKeys a c)
  | [], [], [] => rfl
  | [], [], _ :: _ => rfl
  | [], _ :: _, [] => rfl
  | [], _ :: _, _ :: _ => compat_lt_any_lt _
  | _ :: _, [], [] => rfl
  | _ :: _, [], _ :: _ => compat_gt_lt_any _
  | _ :: _, _ :: _, [] => compat_any_gt_gt _
  | (k, x) :: xs, (l, y) :: ys, (m, z) :: zs => by
    rw [cmpKeys_cons, cmpKeys_cons, cmpKeys_cons]
    exact compat_then _ _ _ _ _ _ (Bytes.cmp_compat k l m) (fun _ _ => cmpKeys_compat xs ys zs)

theorem cmpKeys_eq_iff : ∀ a b : List (Bytes × JV), cmpKeys a b = .eq ↔ a.map (·.1) = b.map (·.1)
  | [], [] => by simp [cmpKeys]
  | [], _ :: _ => by simp [cmpKeys]
  | _ :: _, [] => by simp [cmpKeys]
  | (k, x) :: xs, (l, y) :: ys => by
    rw [cmpKeys_cons, then_eq_eq_iff, Bytes.cmp_eq_iff, cmpKeys_eq_iff xs ys]; simp

theorem cmpKeys_eq_length {a b : List (Bytes × JV)} (h : cmpKeys a b = .eq) : a.length = b.length := by
  have := congrArg List.length ((cmpKeys_eq_iff a b).mp h)
  simpa using this
/-! ### numbers on the domain -/
theorem cmpNum_refl (a : Num) (ha : a.tame) : cmpNum a a = .eq := by
  rw [cmpNum_exact a a ha ha, cmpRat_refl]
theorem cmpNum_swap (a b : Num) (ha : a.tame) (hb : b.tame) : cmpNum b a = (cmpNum a b).swap := by
  rw [cmpNum_exact a b ha hb, cmpNum_exact b a hb ha, cmpRat_swap]
theorem cmpNum_compat (a b c : Num) (ha : a.tame) (hb : b.tame) (hc : c.tame) :
    compat (cmpNum a b) (cmpNum b c) (cmpNum a c) := by
  rw [cmpNum_exact a b ha hb, cmpNum_exact b c hb hc, cmpNum_exact a c ha hc]
  exact cmpRat_compat _ _ _

/-! ### unfolding equations -/
theorem cmpList_cons (x y : JV) (xs ys : List JV) :
    cmpList (x :: xs) (y :: ys) = (cmp x y).then (cmpList xs ys) := by
  simp only [cmpList]; exact then_eq_match _ _
theorem cmpVals_cons (k l : Bytes) (x y : JV) (xs ys : List (Bytes × JV)) :
    cmpVals ((k, x) :: xs) ((l, y) :: ys) = (cmp x y).then (cmpVals xs ys) := by
  simp only [cmpVals]; exact then_eq_match _ _
theorem cmp_obj (a b : List (Bytes × JV)) : cmp (.obj a) (.obj b) = (cmpKeys a b).then (cmpVals a b) := by
  simp only [cmp]; exact then_eq_match _ _
theorem cmpVals_nil_left (b : List (Bytes × JV)) : cmpVals [] b = .eq := by
  cases b <;> simp [cmpVals]
theorem cmpVals_nil_right (a : List (Bytes × JV)) : cmpVals a [] = .eq := by
  cases a <;> simp [cmpVals]

theorem typeIndex_bool (b : Bool) : typeIndex (.bool b) = if b then 2 else 1 := by cases b <;> rfl

theorem cmp_of_typeIndex_ne (a b : JV) (h : typeIndex a ≠ typeIndex b) :
    cmp a b = cmpNat (typeIndex a) (typeIndex b) := by
  cases a <;> cases b <;> first | (simp only [cmp]; done) | exact absurd rfl h

theorem then_of_ne_eq {o : Ordering} (r : Ordering) (h : o ≠ .eq) : o.then r = o := by
  cases o <;> simp_all [Ordering.then]

/-- `Compare` is "type rank first, then the comparison inside the type" -/
theorem cmp_rank (a b : JV) : cmp a b = (cmpNat (typeIndex a) (typeIndex b)).then (cmp a b) := by
  by_cases h : typeIndex a = typeIndex b
  · rw [h, cmpNat_refl]; rfl
  · have h2 : cmpNat (typeIndex a) (typeIndex b) ≠ .eq := by rw [Ne, cmpNat_eq_iff]; exact h
    rw [then_of_ne_eq _ h2]; exact cmp_of_typeIndex_ne a b h

theorem compat_of_same_type (a b c : JV)
    (h : typeIndex a = typeIndex b → typeIndex b = typeIndex c → compat (cmp a b) (cmp b c) (cmp a c)) :
    compat (cmp a b) (cmp b c) (cmp a c) := by
  rw [cmp_rank a b, cmp_rank b c, cmp_rank a c]
  apply compat_then _ _ _ _ _ _ (cmpNat_compat _ _ _)
  intro h1 h2
  exact h ((cmpNat_eq_iff _ _).mp h1) ((cmpNat_eq_iff _ _).mp h2)


theorem tame_arr {xs : List JV} (h : (JV.arr xs).tame) : JV.tameList xs := by simpa [JV.tame] using h
theorem tame_obj {xs : List (Bytes × JV)} (h : (JV.obj xs).tame) : JV.tameKvs xs := by simpa [JV.tame] using h
theorem tame_num {n : Num} (h : (JV.num n).tame) : n.tame := by simpa [JV.tame] using h
theorem tameList_cons {x : JV} {xs : List JV} (h : JV.tameList (x :: xs)) : x.tame ∧ JV.tameList xs := by
  simpa [JV.tameList] using h
theorem tameKvs_cons {k : Bytes} {x : JV} {xs : List (Bytes × JV)} (h : JV.tameKvs ((k, x) :: xs)) :
    x.tame ∧ JV.tameKvs xs := by
  simpa [JV.tameKvs] using h

mutual
theorem cmp_refl (a : JV) (ha : a.tame) : cmp a a = .eq := by
  cases a with
  | null => simp only [cmp]; exact cmpNat_refl _
  | bool b => simp only [cmp]; exact cmpNat_refl _
  | num n => simp only [cmp]; exact cmpNum_refl n (tame_num ha)
  | str s => simp only [cmp]; exact Bytes.cmp_refl s
  | arr xs => simp only [cmp]; exact cmpList_refl xs (tame_arr ha)
  | obj kvs => rw [cmp_obj, cmpKeys_refl, then_eq]; exact cmpVals_refl kvs (tame_obj ha)
theorem cmpList_refl (a : List JV) (ha : JV.tameList a) : cmpList a a = .eq := by
  cases a with
  | nil => simp [cmpList]
  | cons x xs =>
    rw [cmpList_cons, cmp_refl x (tameList_cons ha).1, then_eq]
    exact cmpList_refl xs (tameList_cons ha).2
theorem cmpVals_refl (a : List (Bytes × JV)) (ha : JV.tameKvs a) : cmpVals a a = .eq := by
  cases a with
  | nil => simp [cmpVals]
  | cons kx xs =>
    obtain ⟨k, x⟩ := kx
    rw [cmpVals_cons, cmp_refl x (tameKvs_cons ha).1, then_eq]
    exact cmpVals_refl xs (tameKvs_cons ha).2
end

mutual
theorem cmp_swap (a b : JV) (ha : a.tame) (hb : b.tame) : cmp b a = (cmp a b).swap := by
  cases a with
  | null => cases b <;> simp only [cmp] <;> exact cmpNat_swap _ _
  | bool x => cases b <;> simp only [cmp] <;> exact cmpNat_swap _ _
  | num n =>
    cases b with
    | num m => simp only [cmp]; exact cmpNum_swap n m (tame_num ha) (tame_num hb)
    | _ => simp only [cmp]; exact cmpNat_swap _ _
  | str s =>
    cases b with
    | str t => simp only [cmp]; exact Bytes.cmp_swap s t
    | _ => simp only [cmp]; exact cmpNat_swap _ _
  | arr xs =>
    cases b with
    | arr ys => simp only [cmp]; exact cmpList_swap xs ys (tame_arr ha) (tame_arr hb)
    | _ => simp only [cmp]; exact cmpNat_swap _ _
  | obj xs =>
    cases b with
    | obj ys =>
      rw [cmp_obj, cmp_obj, cmpKeys_swap xs ys, cmpVals_swap xs ys (tame_obj ha) (tame_obj hb), Ordering.swap_then]
    | _ => simp only [cmp]; exact cmpNat_swap _ _
theorem cmpList_swap (a b : List JV) (ha : JV.tameList a) (hb : JV.tameList b) :
    cmpList b a = (cmpList a b).swap := by
  cases a with
  | nil => cases b <;> simp [cmpList]
  | cons x xs =>
    cases b with
    | nil => simp [cmpList]
    | cons y ys =>
      rw [cmpList_cons, cmpList_cons, cmp_swap x y (tameList_cons ha).1 (tameList_cons hb).1,
        cmpList_swap xs ys (tameList_cons ha).2 (tameList_cons hb).2, Ordering.swap_then]
theorem cmpVals_swap (a b : List (Bytes × JV)) (ha : JV.tameKvs a) (hb : JV.tameKvs b) :
    cmpVals b a = (cmpVals a b).swap := by
  cases a with
  | nil => rw [cmpVals_nil_left, cmpVals_nil_right]; rfl
  | cons kx xs =>
    cases b with
    | nil => rw [cmpVals_nil_left, cmpVals_nil_right]; rfl
    | cons ly ys =>
      obtain ⟨k, x⟩ := kx
      obtain ⟨l, y⟩ := ly
      rw [cmpVals_cons, cmpVals_cons, cmp_swap x y (tameKvs_cons ha).1 (tameKvs_cons hb).1,
        cmpVals_swap xs ys (tameKvs_cons ha).2 (tameKvs_cons hb).2, Ordering.swap_then]
end

theorem ctorIdx_of_typeIndex {a b : JV} (h : typeIndex a = typeIndex b) : a.ctorIdx = b.ctorIdx := by
  rcases a with _ | x | _ | _ | _ | _ <;> rcases b with _ | y | _ | _ | _ | _ <;>
    (try cases x) <;> (try cases y) <;> first | rfl | simp_all [typeIndex]

mutual
theorem cmp_compat (a b c : JV) (ha : a.tame) (hb : b.tame) (hc : c.tame) :
    compat (cmp a b) (cmp b c) (cmp a c) := by
  apply compat_of_same_type
  intro h1 h2
  have e1 := ctorIdx_of_typeIndex h1
  have e2 := ctorIdx_of_typeIndex h2
  cases a with
  | null =>
    cases b <;> first
      | (simp [JV.ctorIdx] at e1; done)
      | (cases c <;> first
          | (simp [JV.ctorIdx] at e2; done)
          | (simp only [cmp]; exact cmpNat_compat _ _ _))
  | bool x =>
    cases b <;> first
      | (simp [JV.ctorIdx] at e1; done)
      | (cases c <;> first
          | (simp [JV.ctorIdx] at e2; done)
          | (simp only [cmp]; exact cmpNat_compat _ _ _))
  | num n =>
    cases b <;> first
      | (simp [JV.ctorIdx] at e1; done)
      | (cases c <;> first
          | (simp [JV.ctorIdx] at e2; done)
          | (simp only [cmp]; exact cmpNum_compat _ _ _ (tame_num ha) (tame_num hb) (tame_num hc)))
  | str s =>
    cases b <;> first
      | (simp [JV.ctorIdx] at e1; done)
      | (cases c <;> first
          | (simp [JV.ctorIdx] at e2; done)
          | (simp only [cmp]; exact Bytes.cmp_compat _ _ _))
  | arr xs =>
    cases b <;> first
      | (simp [JV.ctorIdx] at e1; done)
      | (cases c <;> first
          | (simp [JV.ctorIdx] at e2; done)
          | (simp only [cmp]; exact cmpList_compat xs _ _ (tame_arr ha) (tame_arr hb) (tame_arr hc)))
  | obj xs =>
    cases b <;> first
      | (simp [JV.ctorIdx] at e1; done)
      | (cases c <;> first
          | (simp [JV.ctorIdx] at e2; done)
          | (rw [cmp_obj, cmp_obj, cmp_obj]
             refine compat_then _ _ _ _ _ _ (cmpKeys_compat _ _ _) (fun e1 e2 => ?_)
             exact cmpVals_compat xs _ _ (cmpKeys_eq_length e1) (cmpKeys_eq_length e2)
               (tame_obj ha) (tame_obj hb) (tame_obj hc)))
termination_by structural a
theorem cmpList_compat (a b c : List JV) (ha : JV.tameList a) (hb : JV.tameList b) (hc : JV.tameList c) :
    compat (cmpList a b) (cmpList b c) (cmpList a c) := by
  cases a with
  | nil =>
    cases b with
    | nil => cases c <;> rfl
    | cons y ys => cases c <;> simp only [cmpList] <;> first | rfl | exact compat_lt_any_lt _
  | cons x xs =>
    cases b with
    | nil => cases c <;> simp only [cmpList] <;> first | rfl | exact compat_gt_lt_any _
    | cons y ys =>
      cases c with
      | nil => simp only [cmpList]; exact compat_any_gt_gt _
      | cons z zs =>
        rw [cmpList_cons, cmpList_cons, cmpList_cons]
        exact compat_then _ _ _ _ _ _
          (cmp_compat x y z (tameList_cons ha).1 (tameList_cons hb).1 (tameList_cons hc).1)
          (fun _ _ => cmpList_compat xs ys zs (tameList_cons ha).2 (tameList_cons hb).2 (tameList_cons hc).2)
termination_by structural a
theorem cmpVals_compat (a b c : List (Bytes × JV)) (h1 : a.length = b.length) (h2 : b.length = c.length)
    (ha : JV.tameKvs a) (hb : JV.tameKvs b) (hc : JV.tameKvs c) :
    compat (cmpVals a b) (cmpVals b c) (cmpVals a c) := by
  cases a with
  | nil =>
    cases b with
    | nil => cases c with
      | nil => rfl
      | cons _ _ => simp at h2
    | cons _ _ => simp at h1
  | cons kx xs =>
    cases b with
    | nil => simp at h1
    | cons ly ys =>
      cases c with
      | nil => simp at h2
      | cons mz zs =>
        obtain ⟨k, x⟩ := kx
        obtain ⟨l, y⟩ := ly
        obtain ⟨m, z⟩ := mz
        rw [cmpVals_cons, cmpVals_cons, cmpVals_cons]
        exact compat_then _ _ _ _ _ _
          (cmp_compat x y z (tameKvs_cons ha).1 (tameKvs_cons hb).1 (tameKvs_cons hc).1)
          (fun _ _ => cmpVals_compat xs ys zs (by simpa using h1) (by simpa using h2)
            (tameKvs_cons ha).2 (tameKvs_cons hb).2 (tameKvs_cons hc).2)
termination_by structural a
end
/-! ### equality up to numeric value -/
mutual
  /-- `a ≃ b`: the same JSON value, numbers compared by exact value (`1 ≃ 1.0`, `-0 ≃ 0`) -/
  def JV.equiv : JV → JV → Bool
    | .null, .null => true
    | .bool a, .bool b => a == b
    | .num a, .num b => decide (a.val = b.val)
    | .str a, .str b => decide (a = b)
    | .arr a, .arr b => JV.equivList a b
    | .obj a, .obj b => JV.equivKvs a b
    | _, _ => false
  def JV.equivList : List JV → List JV → Bool
    | [], [] => true
    | x :: xs, y :: ys => JV.equiv x y && JV.equivList xs ys
    | _, _ => false
  def JV.equivKvs : List (Bytes × JV) → List (Bytes × JV) → Bool
    | [], [] => true
    | (k, x) :: xs, (l, y) :: ys => decide (k = l) && JV.equiv x y && JV.equivKvs xs ys
    | _, _ => false
end

theorem cmpNat_ne_of_ne {x y : Nat} (h : x ≠ y) : cmpNat x y ≠ .eq := by
  rw [Ne, cmpNat_eq_iff]; exact h

theorem cmp_ne_eq_of_ctorIdx_ne {a b : JV} (h : a.ctorIdx ≠ b.ctorIdx) : cmp a b ≠ .eq := by
  have hne : typeIndex a ≠ typeIndex b := fun e => h (ctorIdx_of_typeIndex e)
  rw [cmp_of_typeIndex_ne a b hne]; exact cmpNat_ne_of_ne hne

theorem eq_iff_cross (a b : JV) (h : a.ctorIdx ≠ b.ctorIdx) (he : a.equiv b = false) :
    cmp a b = .eq ↔ a.equiv b = true := by
  rw [he]; simp; exact cmp_ne_eq_of_ctorIdx_ne h

mutual
theorem cmp_eq_iff_equiv (a b : JV) (ha : a.tame) (hb : b.tame) : cmp a b = .eq ↔ a.equiv b = true := by
  cases a with
  | null => cases b <;> first | (simp only [cmp, JV.equiv]; simp [cmpNat_refl]; done) | exact eq_iff_cross _ _ (by simp [JV.ctorIdx]) (by simp only [JV.equiv])
  | bool x =>
    cases b with
    | bool y => simp only [cmp, JV.equiv]; cases x <;> cases y <;> decide
    | _ => exact eq_iff_cross _ _ (by simp [JV.ctorIdx]) (by simp only [JV.equiv])
  | num n =>
    cases b with
    | num m =>
      simp only [cmp, JV.equiv]
      rw [cmpNum_exact n m (tame_num ha) (tame_num hb), cmpRat_eq_iff]; simp
    | _ => exact eq_iff_cross _ _ (by simp [JV.ctorIdx]) (by simp only [JV.equiv])
  | str s =>
    cases b with
    | str t => simp only [cmp, JV.equiv]; rw [Bytes.cmp_eq_iff]; simp
    | _ => exact eq_iff_cross _ _ (by simp [JV.ctorIdx]) (by simp only [JV.equiv])
  | arr xs =>
    cases b with
    | arr ys => simp only [cmp, JV.equiv]; exact cmpList_eq_iff_equiv xs ys (tame_arr ha) (tame_arr hb)
    | _ => exact eq_iff_cross _ _ (by simp [JV.ctorIdx]) (by simp only [JV.equiv])
  | obj xs =>
    cases b with
    | obj ys =>
      rw [cmp_obj, then_eq_eq_iff]; simp only [JV.equiv]
      exact cmpKvs_eq_iff_equiv xs ys (tame_obj ha) (tame_obj hb)
    | _ => exact eq_iff_cross _ _ (by simp [JV.ctorIdx]) (by simp only [JV.equiv])
termination_by structural a
theorem cmpList_eq_iff_equiv (a b : List JV) (ha : JV.tameList a) (hb : JV.tameList b) :
    cmpList a b = .eq ↔ JV.equivList a b = true := by
  cases a with
  | nil => cases b <;> simp [cmpList, JV.equivList]
  | cons x xs =>
    cases b with
    | nil => simp [cmpList, JV.equivList]
    | cons y ys =>
      rw [cmpList_cons, then_eq_eq_iff, cmp_eq_iff_equiv x y (tameList_cons ha).1 (tameList_cons hb).1,
        cmpList_eq_iff_equiv xs ys (tameList_cons ha).2 (tameList_cons hb).2]
      simp [JV.equivList]
termination_by structural a
theorem cmpKvs_eq_iff_equiv (a b : List (Bytes × JV)) (ha : JV.tameKvs a) (hb : JV.tameKvs b) :
    (cmpKeys a b = .eq ∧ cmpVals a b = .eq) ↔ JV.equivKvs a b = true := by
  cases a with
  | nil => cases b <;> simp [cmpKeys, cmpVals, JV.equivKvs]
  | cons kx xs =>
    cases b with
    | nil => simp [cmpKeys, JV.equivKvs]
    | cons ly ys =>
      obtain ⟨k, x⟩ := kx
      obtain ⟨l, y⟩ := ly
      rw [cmpKeys_cons, cmpVals_cons, then_eq_eq_iff, then_eq_eq_iff, Bytes.cmp_eq_iff,
        cmp_eq_iff_equiv x y (tameKvs_cons ha).1 (tameKvs_cons hb).1]
      have ih := cmpKvs_eq_iff_equiv xs ys (tameKvs_cons ha).2 (tameKvs_cons hb).2
      simp only [JV.equivKvs, Bool.and_eq_true, decide_eq_true_eq]
      rw [← ih]
      constructor
      · rintro ⟨⟨h1, h2⟩, h3, h4⟩; exact ⟨⟨h1, h3⟩, h2, h4⟩
      · rintro ⟨⟨h1, h3⟩, h2, h4⟩; exact ⟨⟨h1, h2⟩, h3, h4⟩
termination_by structural a
end
end Gojq

/-
  C08 (bytecode checker): what stack.go's persistent stack DENOTES, generically in the element type
  (the data stack, the scope stack and the paths stack are the same structure).

  `ChainI data i xs` — `xs` is the list of (slot, value) along the `next` chain from slot `i`.
  `Prot saved m`     — stack.go's protection invariant: the (index, limit) pairs saved by the
                       pending forks lie at or below the limit in force, newest first.
  `SView s saved cur olds` — the stack `s` denotes `cur`, and the i-th saved pair denotes `olds[i]`.
  Each of push / pop / top / save / restore is then a list operation (`SView.push` …).
-/
import Gojq.Model.VM
set_option linter.unusedSimpArgs false
set_option linter.unusedVariables false
namespace Gojq.SafeVM
open Gojq Gojq.VM

variable {α : Type}

/-- `xs` is the list of (slot, value) along the `next` chain from slot `i`; links strictly decrease -/
inductive ChainI (data : Array (Block α)) : Int → List (Int × α) → Prop
  | nil {i : Int} : i < 0 → ChainI data i []
  | cons {i : Int} {v : α} {nx : Int} {xs : List (Int × α)} :
      0 ≤ i → data[i.toNat]? = some ⟨v, nx⟩ → nx < i → ChainI data nx xs → ChainI data i ((i, v) :: xs)

/-- a chain only depends on the slots at or below its start -/
theorem ChainI.frame {d d' : Array (Block α)} {i : Int} {xs : List (Int × α)} (h : ChainI d i xs)
    (hd : ∀ j : Nat, (j : Int) ≤ i → d'[j]? = d[j]?) : ChainI d' i xs := by
  induction h with
  | nil hi => exact .nil hi
  | cons h0 hb hn _ ih =>
    refine .cons h0 ?_ hn (ih ?_)
    · rw [hd _ (by omega)]; exact hb
    · intro j hj; exact hd j (by omega)

theorem ChainI.index_lt {d : Array (Block α)} {i : Int} {xs : List (Int × α)} (h : ChainI d i xs) : i < d.size := by
  cases h with
  | nil hi => omega
  | cons h0 hb hn _ =>
    have := (Array.getElem?_eq_some_iff.mp hb).1
    omega

theorem ChainI.nil_iff {d : Array (Block α)} {i : Int} (h : ChainI d i []) : i < 0 := by
  cases h with
  | nil hi => exact hi

theorem ChainI.head_index {d : Array (Block α)} {i j : Int} {v : α} {xs : List (Int × α)}
    (h : ChainI d i ((j, v) :: xs)) : j = i ∧ 0 ≤ i := by
  cases h with
  | cons h0 _ _ _ => exact ⟨rfl, h0⟩

/-- the chain from a slot is unique -/
theorem ChainI.unique {d : Array (Block α)} {i : Int} {xs ys : List (Int × α)} (h : ChainI d i xs)
    (g : ChainI d i ys) : xs = ys := by
  induction h generalizing ys with
  | nil hi =>
    cases g with
    | nil _ => rfl
    | cons g0 _ _ _ => omega
  | cons h0 hb hn _ ih =>
    cases g with
    | nil gi => omega
    | cons g0 gb gn gt =>
      rw [hb] at gb
      simp only [Option.some.injEq, Block.mk.injEq] at gb
      obtain ⟨rfl, rfl⟩ := gb
      rw [ih gt]

/-! ## `Stack.push` -/

theorem push_spec (s : Stack α) (v : α) (h1 : -1 ≤ s.limit) (h2 : s.limit < s.data.size)
    (h3 : s.index < s.data.size) :
    (s.push v).index = max s.index s.limit + 1 ∧ (s.push v).limit = s.limit ∧
    (s.push v).data[(max s.index s.limit + 1).toNat]? = some ⟨v, s.index⟩ ∧
    (∀ j : Nat, (j : Int) ≤ max s.index s.limit → (s.push v).data[j]? = s.data[j]?) ∧
    s.data.size ≤ (s.push v).data.size := by
  unfold Stack.push
  simp only
  split
  · rename_i hlt
    refine ⟨rfl, rfl, ?_, ?_, by simp⟩
    · simp [Array.getElem?_setIfInBounds, hlt]
    · intro j hj
      rw [Array.getElem?_setIfInBounds_ne]
      omega
  · rename_i hge
    have heq : (max s.index s.limit + 1).toNat = s.data.size := by omega
    refine ⟨rfl, rfl, ?_, ?_, by simp⟩
    · rw [heq]; simp
    · intro j hj
      have : j < s.data.size := by omega
      rw [Array.getElem?_push_lt this]
      simp [this]

/-- every block of the array after a push is an old block or the pushed one -/
theorem push_all (P : Block α → Prop) (s : Stack α) (v : α)
    (h : ∀ (j : Nat) (b : Block α), s.data[j]? = some b → P b) (hv : P ⟨v, s.index⟩) :
    ∀ (j : Nat) (b : Block α), (s.push v).data[j]? = some b → P b := by
  intro j b hb
  unfold Stack.push at hb
  simp only at hb
  split at hb
  · rename_i hlt
    by_cases hj : (max s.index s.limit + 1).toNat = j
    · subst hj
      simp [Array.getElem?_setIfInBounds, hlt] at hb
      rw [← hb]; exact hv
    · rw [Array.getElem?_setIfInBounds_ne hj] at hb
      exact h j b hb
  · by_cases hj : j < s.data.size
    · rw [Array.getElem?_push_lt hj] at hb
      exact h j b (by simp [hj]; simpa using hb)
    · by_cases hj2 : j = s.data.size
      · subst hj2
        simp at hb
        rw [← hb]; exact hv
      · simp [Array.getElem?_eq_none_iff.mpr (by simp; omega : (s.data.push ⟨v, s.index⟩).size ≤ j)] at hb

/-! ## protection of the saved (index, limit) pairs -/

/-- stack.go's protection invariant on the pairs saved by the pending forks (newest first): the
    newest saved an index and a limit at or below the limit in force, and the older ones are
    protected by the limit it saved -/
def Prot : List (Int × Int) → Int → Prop
  | [], _ => True
  | p :: rest, m => p.1 ≤ m ∧ p.2 ≤ m ∧ -1 ≤ p.2 ∧ Prot rest p.2

theorem Prot.mono : ∀ {ps : List (Int × Int)} {m m' : Int}, Prot ps m → m ≤ m' → Prot ps m'
  | [], _, _, _, _ => trivial
  | _ :: _, _, _, h, hm => ⟨Int.le_trans h.1 hm, Int.le_trans h.2.1 hm, h.2.2.1, h.2.2.2⟩

theorem Prot.index_le : ∀ {ps : List (Int × Int)} {m : Int}, Prot ps m → ∀ p ∈ ps, p.1 ≤ m
  | [], _, _, p, hp => by simp at hp
  | q :: rest, m, h, p, hp => by
    simp only [List.mem_cons] at hp
    rcases hp with rfl | hp
    · exact h.1
    · exact Prot.index_le (Prot.mono h.2.2.2 h.2.1) p hp

/-- the i-th saved pair denotes the i-th list -/
def Olds (data : Array (Block α)) : List (Int × Int) → List (List (Int × α)) → Prop
  | [], [] => True
  | p :: ps, o :: os => ChainI data p.1 o ∧ Olds data ps os
  | _, _ => False

theorem Olds.frame {d d' : Array (Block α)} {m : Int} :
    ∀ {ps : List (Int × Int)} {os : List (List (Int × α))}, Olds d ps os →
    (∀ p ∈ ps, p.1 ≤ m) → (∀ j : Nat, (j : Int) ≤ m → d'[j]? = d[j]?) → Olds d' ps os
  | [], [], _, _, _ => trivial
  | [], _ :: _, h, _, _ => h.elim
  | _ :: _, [], h, _, _ => h.elim
  | p :: ps, o :: os, h, hp, hd => by
    have := hp p (by simp)
    exact ⟨h.1.frame (fun j hj => hd j (by omega)),
      Olds.frame h.2 (fun q hq => hp q (by simp [hq])) hd⟩

theorem Olds.length : ∀ {d : Array (Block α)} {ps : List (Int × Int)} {os : List (List (Int × α))},
    Olds d ps os → ps.length = os.length
  | _, [], [], _ => rfl
  | _, [], _ :: _, h => h.elim
  | _, _ :: _, [], h => h.elim
  | _, _ :: ps, _ :: os, h => by simp [Olds.length h.2]

/-! ## the view of one stack -/

/-- the stack `s` denotes `cur`, the pairs `saved` (newest first) denote `olds`, and the saved
    chains are protected by the limit in force -/
structure SView (s : Stack α) (saved : List (Int × Int)) (cur : List (Int × α))
    (olds : List (List (Int × α))) : Prop where
  chain : ChainI s.data s.index cur
  lim : -1 ≤ s.limit ∧ s.limit < s.data.size
  prot : Prot saved s.limit
  olds : Olds s.data saved olds

theorem SView.index_eq {s : Stack α} {saved cur olds} (h : SView s saved cur olds) :
    match cur with
    | [] => s.index < 0
    | (i, _) :: _ => s.index = i ∧ 0 ≤ i := by
  cases cur with
  | nil => exact h.chain.nil_iff
  | cons p r =>
    obtain ⟨i, v⟩ := p
    have := h.chain.head_index
    exact ⟨this.1.symm, by rw [this.1]; exact this.2⟩

theorem SView.index_cons {s : Stack α} {saved olds} {i : Int} {v : α} {r : List (Int × α)}
    (h : SView s saved ((i, v) :: r) olds) : s.index = i ∧ 0 ≤ i := by
  have := h.chain.head_index
  exact ⟨this.1.symm, by rw [this.1]; exact this.2⟩

theorem SView.index_nil {s : Stack α} {saved olds} (h : SView s saved [] olds) : s.index < 0 :=
  h.chain.nil_iff

theorem SView.push {s : Stack α} {saved cur olds} (h : SView s saved cur olds) (v : α) :
    SView (s.push v) saved (((s.push v).index, v) :: cur) olds := by
  obtain ⟨c, lim, pr, ol⟩ := h
  obtain ⟨a1, a2, a3, a4, a5⟩ := push_spec s v lim.1 lim.2 c.index_lt
  refine ⟨?_, ?_, ?_, ?_⟩
  · rw [a1]
    exact .cons (by omega) a3 (by omega) (c.frame (fun j hj => a4 j (by omega)))
  · rw [a2]; exact ⟨lim.1, by omega⟩
  · rw [a2]; exact pr
  · exact ol.frame (Prot.index_le pr) (fun j hj => a4 j (by omega))

theorem SView.pop_nil {s : Stack α} {saved olds} (h : SView s saved [] olds) : s.pop? = none := by
  have := h.chain.nil_iff
  unfold Stack.pop? Stack.blockAt?
  simp [Int.not_le.mpr this]

theorem SView.top_nil {s : Stack α} {saved olds} (h : SView s saved [] olds) : s.top? = none := by
  have := h.chain.nil_iff
  unfold Stack.top? Stack.blockAt?
  simp [Int.not_le.mpr this]

theorem SView.pop_cons {s : Stack α} {saved olds} {i : Int} {v : α} {r : List (Int × α)}
    (h : SView s saved ((i, v) :: r) olds) :
    ∃ nx, s.pop? = some (v, { s with index := nx }) ∧ SView { s with index := nx } saved r olds ∧
      s.data[i.toNat]? = some ⟨v, nx⟩ ∧ s.index = i := by
  obtain ⟨c, lim, pr, ol⟩ := h
  cases c with
  | @cons _ _ nx _ h0 hb hn ct =>
    refine ⟨nx, ?_, ⟨ct, lim, pr, ol⟩, hb, rfl⟩
    unfold Stack.pop? Stack.blockAt?
    simp [h0, hb]

theorem SView.top_cons {s : Stack α} {saved olds} {i : Int} {v : α} {r : List (Int × α)}
    (h : SView s saved ((i, v) :: r) olds) : s.top? = some v := by
  obtain ⟨c, _, _, _⟩ := h
  cases c with
  | cons h0 hb hn ct =>
    unfold Stack.top? Stack.blockAt?
    simp [h0, hb]

theorem save_facts (s : Stack α) :
    s.save.1 = (s.index, s.limit) ∧ s.save.2.data = s.data ∧ s.save.2.index = s.index ∧
    s.save.2.limit = max s.index s.limit := by
  unfold Stack.save
  by_cases h : s.index > s.limit
  · rw [if_pos h]
    refine ⟨rfl, rfl, rfl, ?_⟩
    show s.index = _
    omega
  · rw [if_neg h]
    refine ⟨rfl, rfl, rfl, ?_⟩
    show s.limit = _
    omega

/-- `save`: the pair it returns denotes the current list -/
theorem SView.save {s : Stack α} {saved cur olds} (h : SView s saved cur olds) :
    SView s.save.2 (s.save.1 :: saved) cur (cur :: olds) := by
  obtain ⟨c, lim, pr, ol⟩ := h
  obtain ⟨a0, a1, a2, a3⟩ := save_facts s
  have hi := c.index_lt
  refine ⟨?_, ?_, ?_, ?_⟩
  · rw [a1, a2]; exact c
  · rw [a1, a3]; omega
  · rw [a0, a3]; exact ⟨by simp; omega, by simp; omega, by simp; omega, pr⟩
  · rw [a0, a1]; exact ⟨c, ol⟩

/-- `restore` of the newest saved pair: the stack denotes the list that pair denoted -/
theorem SView.restore {s : Stack α} {p : Int × Int} {saved cur old olds}
    (h : SView s (p :: saved) cur (old :: olds)) : SView (s.restore p.1 p.2) saved old olds := by
  obtain ⟨c, lim, pr, ol⟩ := h
  refine ⟨ol.1, ?_, pr.2.2.2, ol.2⟩
  show -1 ≤ p.2 ∧ p.2 < s.data.size
  have := pr.2.1; have := pr.2.2.1; omega

/-- dropping all saved pairs (a cancelled context sets `forks = nil`) -/
theorem SView.forget {s : Stack α} {saved cur olds} (h : SView s saved cur olds) : SView s [] cur [] :=
  ⟨h.chain, h.lim, trivial, trivial⟩

/-- `pop?` never changes the array -/
theorem pop?_data (s s' : Stack α) (v : α) (h : s.pop? = some (v, s')) :
    s'.data = s.data ∧ s'.limit = s.limit ∧ ∃ (j : Nat) (b : Block α), s.data[j]? = some b ∧ b.value = v ∧ s'.index = b.next := by
  unfold Stack.pop? at h
  split at h
  · rename_i b hb
    simp at h
    obtain ⟨rfl, rfl⟩ := h
    refine ⟨rfl, rfl, ?_⟩
    unfold Stack.blockAt? at hb
    split at hb
    · exact ⟨_, b, hb, rfl, rfl⟩
    · simp at hb
  · simp at h

theorem top?_data (s : Stack α) (v : α) (h : s.top? = some v) :
    ∃ (j : Nat) (b : Block α), s.data[j]? = some b ∧ b.value = v := by
  unfold Stack.top? at h
  split at h
  · rename_i b hb
    simp at h
    subst h
    unfold Stack.blockAt? at hb
    split at hb
    · exact ⟨_, b, hb, rfl⟩
    · simp at hb
  · simp at h

end Gojq.SafeVM

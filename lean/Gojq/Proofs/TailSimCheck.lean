/-
  Soundness of the static scan `tailWfCheck` (Model/TailVM.lean): code that passes it, together with
  the output of the pass `optTailV` when that output contains no `callrec`, satisfies the conditions
  `TailStatic` of the simulation; and the scans on the dumped instruction list are the scans on the
  interpreter code.
-/
import Gojq.Proofs.TailSimPass
set_option linter.unusedSimpArgs false
set_option linter.unusedVariables false
namespace Gojq.TailVM
open Gojq Gojq.VM Gojq.OptVM

/-- what the scan says, instruction by instruction -/
structure ShapeOK (c : Array Instr) : Prop where
  pos : 0 < c.size
  last : c[c.size - 1]? = some .ret
  first : ∃ id v n, c[0]? = some (.scope id v n)
  at_ : ∀ (pc : Nat) (ins : Instr), c[pc]? = some ins →
    shapeAtK (fun i => (c[i]?).map kindOf) c.size pc (kindOf ins) = true

theorem isScopeK_map {o : Option Instr} (h : isScopeK (o.map kindOf) = true) : ∃ id v n, o = some (.scope id v n) := by
  cases o with
  | none => simp [isScopeK] at h
  | some i => cases i <;> simp [isScopeK, kindOf] at h <;> exact ⟨_, _, _, rfl⟩

theorem isScopeK_map_false {o : Option Instr} (h : isScopeK (o.map kindOf) = false) :
    ¬ ∃ id v n, o = some (.scope id v n) := by
  rintro ⟨id, v, n, rfl⟩
  simp [isScopeK, kindOf] at h

theorem isJumpK_map {o : Option Instr} (h : isJumpK (o.map kindOf) = true) : ∃ u, o = some (.jump u) := by
  cases o with
  | none => simp [isJumpK] at h
  | some i => cases i <;> simp [isJumpK, kindOf] at h <;> exact ⟨_, rfl⟩

theorem shapeOK_of_check {c : Array Instr} (h : tailShapeCheck c = true) : ShapeOK c := by
  unfold tailShapeCheck shapeCheckK at h
  simp only [Bool.and_eq_true, decide_eq_true_eq, List.all_eq_true, List.mem_range] at h
  obtain ⟨⟨⟨h1, h2⟩, h3⟩, h4⟩ := h
  refine ⟨h1, ?_, isScopeK_map h3, ?_⟩
  · have h2' : (c[c.size - 1]?).map kindOf = some .ret := by simpa using h2
    cases hc : c[c.size - 1]? with
    | none => rw [hc] at h2'; simp at h2'
    | some i =>
      rw [hc] at h2'
      simp only [Option.map_some, Option.some.injEq] at h2'
      cases i <;> simp [kindOf] at h2'
      rfl
  · intro pc ins hins
    have hlt := (Array.getElem?_eq_some_iff.mp hins).1
    have := h4 pc hlt
    rw [hins] at this
    exact this

theorem ShapeOK.fwd {c : Array Instr} (h : ShapeOK c) : Fwd c := by
  intro i t hi
  have := h.at_ i _ hi
  simp only [kindOf, shapeAtK, Bool.and_eq_true, decide_eq_true_eq] at this
  exact this.1

theorem dead_of_Dead {c : Array Instr} {id : Int} (h : Dead c id) :
    deadK (fun i => (c[i]?).map kindOf) c.size id = true := by
  obtain ⟨j, hj⟩ := h
  have hlt := (Array.getElem?_eq_some_iff.mp hj).1
  unfold deadK
  rw [List.any_eq_true]
  refine ⟨j, List.mem_range.mpr hlt, ?_⟩
  simp only [hj]
  simp [kindOf]

/-- THE STATIC CONDITIONS HOLD: for code that passes the scan and the pass output without `callrec` -/
theorem tailStatic_of_check {c c' : Array Instr} (hwf : tailWfCheck c = true) (hopt : optTailV c = some c')
    (hnc : noCallrec c' = true) : TailStatic c c' := by
  unfold tailWfCheck at hwf
  simp only [Bool.and_eq_true] at hwf
  obtain ⟨hshape, hclo⟩ := hwf
  have hs := shapeOK_of_check hshape
  obtain ⟨hsize, hsite⟩ := optTailV_spec hs.fwd hopt
  have hclo' : ∀ (pc : Nat) (ins : Instr), c[pc]? = some ins → kindOf ins ≠ .clo := by
    intro pc ins hins
    unfold closureFree closureFreeK at hclo
    simp only [List.all_eq_true, List.mem_range] at hclo
    have := hclo pc (Array.getElem?_eq_some_iff.mp hins).1
    rw [hins] at this
    simpa using this
  have hnc' : ∀ (pc : Nat) (t : Int), c'[pc]? ≠ some (.callrec t) := by
    intro pc t hpc
    unfold noCallrec at hnc
    simp only [List.all_eq_true, List.mem_range] at hnc
    have := hnc pc (Array.getElem?_eq_some_iff.mp hpc).1
    rw [hpc] at this
    simp [kindOf] at this
  refine ⟨hsize, hs.pos, hs.last, hs.first, ?_, ?_, ?_, ?_, ?_, ?_⟩
  · intro i a ha
    rcases hsite i a ha with h1 | ⟨j, id, v, h1, h2, h3, h4, h5⟩
    · exact .inl h1
    · rcases h5 with ⟨hv, h5⟩ | ⟨_, h5⟩
      · subst hv
        exact .inr ⟨j, id, h1, h2, h3, h5, h4⟩
      · exact absurd h5 (hnc' i j)
  · intro i t hi
    have := hs.at_ i _ hi
    simp only [kindOf, shapeAtK, Bool.and_eq_true, decide_eq_true_eq] at this
    exact ⟨this.1, isScopeK_map this.2⟩
  · intro i a ha
    have h1 := hclo' i a ha
    have h2 := hs.at_ i a ha
    refine ⟨?_, ?_, ?_⟩
    · intro t e; subst e; exact h1 rfl
    · intro e; subst e; exact h1 rfl
    · intro t e; subst e; simp [kindOf, shapeAtK] at h2
  · intro t id v n ht h0
    have := hs.at_ t _ ht
    simp only [kindOf, shapeAtK, Bool.or_eq_true, beq_iff_eq] at this
    rcases this with h1 | h1
    · omega
    · exact isJumpK_map h1
  · intro i a t ha htg
    rintro ⟨h0, hsc⟩
    have := hs.at_ i a ha
    cases a <;> simp only [targetOf] at htg <;> try cases htg
    all_goals
      simp only [kindOf, shapeAtK, Bool.and_eq_true, Bool.not_eq_true', decide_eq_true_eq, Bool.and_eq_false_iff,
        decide_eq_false_iff_not] at this
    all_goals first
      | (rcases this with h1 | h1
         · exact h1 h0
         · exact isScopeK_map_false h1 hsc)
      | exact isScopeK_map_false this.2 hsc
  · intro i a id ha hv hd
    have := hs.at_ i a ha
    have hk : kindOf a = .var id := by
      cases a <;> simp only [varId] at hv <;> try cases hv
      all_goals rfl
    rw [hk] at this
    simp only [shapeAtK, Bool.not_eq_true'] at this
    rw [dead_of_Dead hd] at this
    cases this

/-! ## the scans on the dump -/

theorem kindOfView_viewT (i : Instr) : kindOfView (viewT i) = kindOf i := by
  cases i <;> rfl

theorem tailShapeCheckView_viewT (c : Array Instr) : tailShapeCheckView (c.map viewT) = tailShapeCheck c := by
  unfold tailShapeCheckView tailShapeCheck
  simp only [Array.size_map, Array.getElem?_map, Option.map_map]
  congr 1
  funext i
  cases c[i]? with
  | none => rfl
  | some x => simp [kindOfView_viewT]

theorem closureFreeView_viewT (c : Array Instr) : closureFreeView (c.map viewT) = closureFree c := by
  unfold closureFreeView closureFree
  simp only [Array.size_map, Array.getElem?_map, Option.map_map]
  congr 1
  funext i
  cases c[i]? with
  | none => rfl
  | some x => simp [kindOfView_viewT]

theorem noCallrecView_viewT (c : Array Instr) : noCallrecView (c.map viewT) = noCallrec c := by
  unfold noCallrecView noCallrec
  simp only [Array.size_map, Array.getElem?_map, Option.map_map]
  congr 1
  funext i
  cases c[i]? with
  | none => rfl
  | some x => simp [kindOfView_viewT]

end Gojq.TailVM

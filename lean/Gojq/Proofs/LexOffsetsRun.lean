/-
  C17.4 — positions.  A lexer state is placed in a source text (`At`), `slice src i j` is
  `src[i:j]`; one call of `Lex` from a placed state (`lex_step_at`); what `(*lexer).Error` reports
  after it (`reported_suffix`); the chain of tokens of a whole run of the lexer under arbitrary
  parser feedback (`Run`, `Chain`, `run_chain`); and the tie to `Parse`: the state in which the
  parser calls `yylex.Error` is the state right after some call of `Lex` in such a run
  (`parse_reject_after_lex`).  Core Lean only.
-/
import Gojq.Proofs.LexOffsets
import Gojq.Proofs.LALR
import Gojq.Model.Parse
namespace Gojq.Lexer
open Gojq Gojq.Generated.Lalr

/-- Go's `src[i:j]` -/
def slice (src : Bytes) (i j : Nat) : Bytes := (src.drop i).take (j - i)

/-- `s` is a lexer state over the source `src`: `l.offset ≤ len(src)`, the unread part is
    `src[l.offset:]` -/
def At (src : Bytes) (s : LState) : Prop := s.offset ≤ src.length ∧ s.rest = src.drop s.offset

theorem at_init (src : Bytes) : At src (LState.init src) := by simp [At, LState.init]

theorem slice_of_drop {src a b c : Bytes} {o : Nat} (h : src.drop o = a ++ b ++ c) :
    slice src (o + a.length) (o + a.length + b.length) = b := by
  unfold slice
  have : src.drop (o + a.length) = b ++ c := by
    rw [← List.drop_drop, h, List.append_assoc]; simp
  rw [this]
  have : o + a.length + b.length - (o + a.length) = b.length := by omega
  rw [this]; simp

theorem slice_length_le (src : Bytes) (i j : Nat) : (slice src i j).length ≤ j - i := by
  simp [slice, List.length_take]; omega

/-- `(*lexer).Error`: the token it reports from `l.tokenType` and `l.token` -/
def reportedTok (ty : Int) (tok : Bytes) : Bytes :=
  if ty != eof && ty < 128 then [UInt8.ofNat ty.toNat] else tok

theorem parseError_eq (s : LState) :
    parseError s = { offset := s.offset, token := reportedTok s.tokenType s.token, tokenType := s.tokenType } := rfl

theorem Classified.text_ne_nil {b : Bool} {ty : Int} {text : Bytes} {tok : Option Bytes} {rest : Bytes}
    (h : Classified b ty text tok rest) : text ≠ [] := by
  cases h with
  | single c _ _ _ ht _ => simp [ht]
  | plain _ _ hne _ => exact hne
  | nul _ ht _ => simp [ht]
  | badNumber _ hbad _ =>
    rcases hbad with ⟨c, t, _, ht, _⟩ | ⟨c, t, _, ht, _⟩ <;> simp [ht]
  | badEscape opn body esc _ _ hesc _ ht _ =>
    rcases hesc with ⟨x, he, _⟩ | ⟨hs, he, _⟩ <;> simp [ht, he]
  | unterminated _ _ _ _ _ _ hne _ _ => exact hne
  | strQuery _ _ ht _ => simp [ht]
  | strEnd _ _ ht _ => simp [ht]

theorem Classified.ne_eof {b : Bool} {ty : Int} {text : Bytes} {tok : Option Bytes} {rest : Bytes}
    (h : Classified b ty text tok rest) : ty ≠ eof := by
  cases h with
  | single c _ _ hty _ _ => rw [hty]; simp only [eof]; omega
  | plain _ hsp _ _ => intro h; exact hsp (Or.inl h)
  | nul hty _ _ => rw [hty]; decide
  | badNumber hty _ _ => rw [hty]; decide
  | badEscape _ _ _ _ _ _ hty _ _ => rw [hty]; decide
  | unterminated _ _ _ _ hty _ _ _ _ => rw [hty]; decide
  | strQuery _ hty _ _ => rw [hty]; decide
  | strEnd _ hty _ _ => rw [hty]; decide

/-- token types whose whole text is what `Error` reports -/
def Whole (ty : Int) : Prop :=
  ty ≠ tokInvalidEscapeSequence ∧ ty ≠ tokUnterminatedString ∧ ty ≠ tokStringQuery ∧ ty ≠ tokStringEnd

/-- token types for which `l.token` was not left over from an earlier token -/
def Fresh (ty : Int) : Prop := ty ≠ tokStringQuery ∧ ty ≠ tokStringEnd

theorem uint8_ofNat_toNat (c : UInt8) : UInt8.ofNat (Int.toNat (c.toNat : Int)) = c := by
  simp

/-- what `Error` reports right after a classified token is a suffix of the token's text — the
    whole text except for the two string-literal errors — unless the token is `\(` or the
    closing quote of an interpolated string, for which `l.token` is whatever it was before -/
theorem Classified.reported {b : Bool} {ty : Int} {text : Bytes} {tok : Option Bytes} {rest : Bytes}
    (h : Classified b ty text tok rest) (old : Bytes) (hf : Fresh ty) :
    (∃ p, text = p ++ reportedTok ty (tok.getD old)) ∧ (Whole ty → text = reportedTok ty (tok.getD old)) := by
  have big : ∀ t : Bytes, 128 ≤ ty → reportedTok ty t = t := by
    intro t h128
    simp only [reportedTok]
    have : ¬ ty < 128 := by omega
    simp [this]
  cases h with
  | single c h0 h128 hty ht htok =>
    have : reportedTok ty (tok.getD old) = [c] := by
      simp only [reportedTok, hty]
      have h1 : ((c.toNat : Int) != eof) = true := by simp only [eof, bne_iff_ne, ne_eq]; omega
      have h2 : (c.toNat : Int) < 128 := by omega
      simp [h1, h2]
    rw [this, ht]
    exact ⟨⟨[], rfl⟩, fun _ => rfl⟩
  | plain h128 _ _ htok =>
    rw [big _ h128, htok]
    exact ⟨⟨[], rfl⟩, fun _ => rfl⟩
  | nul hty _ htok =>
    rw [big _ (by rw [hty]; decide), htok]
    exact ⟨⟨[], rfl⟩, fun _ => rfl⟩
  | badNumber hty _ htok =>
    rw [big _ (by rw [hty]; decide), htok]
    exact ⟨⟨[], rfl⟩, fun _ => rfl⟩
  | badEscape opn body esc _ _ _ hty ht htok =>
    rw [big _ (by rw [hty]; decide), htok, ht]
    exact ⟨⟨opn ++ body, rfl⟩, fun hw => absurd hty hw.1⟩
  | unterminated opn body _ _ hty ht _ htok _ =>
    rw [big _ (by rw [hty]; decide), htok]
    exact ⟨⟨text, by simp⟩, fun hw => absurd hty hw.2.1⟩
  | strQuery _ hty _ _ => exact absurd hty hf.1
  | strEnd _ hty _ _ => exact absurd hty hf.2

/-- ONE CALL OF `Lex` FROM A PLACED STATE: the new state is placed, gap and text are the slices
    `src[l.offset : start]` and `src[start : l.offset']` -/
theorem lex_step_at (src : Bytes) (s : LState) (h : At src s) :
    ∃ gap text, LexStep s gap text ∧ At src (lex s).2.2 ∧
      src.drop s.offset = gap ++ text ++ src.drop (lex s).2.2.offset ∧
      gap = slice src s.offset (s.offset + gap.length) ∧
      text = slice src (s.offset + gap.length) (lex s).2.2.offset := by
  obtain ⟨gap, text, hstep⟩ := lex_step s
  have hs := hstep
  obtain ⟨h1, h2, -⟩ := hs
  obtain ⟨ho, hr⟩ := h
  rw [hr] at h1
  have hlen := congrArg List.length h1
  simp only [List.length_drop, List.length_append] at hlen
  have hrest : (lex s).2.2.rest = src.drop (lex s).2.2.offset := by
    rw [h2, Nat.add_assoc, ← List.drop_drop, h1, ← List.length_append]
    simp
  have hdrop : src.drop s.offset = gap ++ text ++ src.drop (lex s).2.2.offset := by rw [← hrest]; exact h1
  refine ⟨gap, text, hstep, ⟨by omega, hrest⟩, hdrop, ?_, ?_⟩
  · have : src.drop s.offset = [] ++ gap ++ (text ++ src.drop (lex s).2.2.offset) := by simp [hdrop]
    have := slice_of_drop this
    simpa using this.symm
  · rw [h2]; exact (slice_of_drop hdrop).symm

/-- WHAT `Error` REPORTS RIGHT AFTER A CALL OF `Lex`: the offset lies in the source and the token
    is the source text that ends there, `Token = src[Offset-len(Token) : Offset]` — unless the
    token just read is `\(` or the closing quote inside an interpolated string -/
theorem report_after_lex (src : Bytes) (s : LState) (h : At src s) (hf : Fresh (lex s).1) :
    (parseError (lex s).2.2).offset ≤ src.length ∧
    (parseError (lex s).2.2).token =
      slice src ((parseError (lex s).2.2).offset - (parseError (lex s).2.2).token.length) (parseError (lex s).2.2).offset := by
  obtain ⟨gap, text, hstep, hat, hdrop, -, -⟩ := lex_step_at src s h
  obtain ⟨h1, h2, h3, h4, h5⟩ := hstep
  refine ⟨hat.1, ?_⟩
  simp only [parseError_eq, h3]
  rcases h5 with ⟨he, ht, hr, htk, -⟩ | ⟨tok, hcl, htk, -, -⟩
  · rw [he, htk]
    simp [reportedTok, slice]
  · obtain ⟨⟨p, hp⟩, -⟩ := hcl.reported s.token hf
    rw [htk]
    have hd : src.drop s.offset = (gap ++ p) ++ reportedTok (lex s).1 (tok.getD s.token) ++ src.drop (lex s).2.2.offset := by
      rw [hdrop, hp]; simp
    have := slice_of_drop hd
    have ho : (lex s).2.2.offset = s.offset + (gap ++ p).length + (reportedTok (lex s).1 (tok.getD s.token)).length := by
      rw [h2, hp]; simp; omega
    rw [ho]
    have e : s.offset + (gap ++ p).length + (reportedTok (lex s).1 (tok.getD s.token)).length
        - (reportedTok (lex s).1 (tok.getD s.token)).length = s.offset + (gap ++ p).length := by omega
    rw [e]
    exact this.symm

/-! ### the chain of tokens of a run -/

/-- a token as the lexer returned it: where its text starts and ends in the source (`stop` is
    the value of `l.offset` after the call), its type, and what `Error` would report as
    `ParseError.Token` if the parser rejected it -/
structure Tok where
  start : Nat
  stop : Nat
  ty : Int
  reported : Bytes
  deriving Repr, DecidableEq

/-- the lexer states a parse can drive the lexer through, with the tokens returned so far
    (oldest first): calls of `Lex`, and the parser setting `l.inString` in between -/
inductive Run (src : Bytes) : LState → List Tok → Prop
  | init : Run src (LState.init src) []
  | lex {s : LState} {toks : List Tok} (gap text : Bytes) : Run src s toks → LexStep s gap text →
      Run src (lex s).2.2
        (toks ++ [{ start := s.offset + gap.length, stop := (lex s).2.2.offset, ty := (lex s).1,
                    reported := (parseError (lex s).2.2).token }])
  | feedback {s : LState} {toks : List Tok} (b : Bool) : Run src s toks → Run src { s with inString := b } toks

/-- the token `t`, read when the lexer stood at `prev`, is in its place -/
def TokOK (src : Bytes) (prev : Nat) (t : Tok) : Prop :=
  prev ≤ t.start ∧ t.start ≤ t.stop ∧ t.stop ≤ src.length ∧
  (if t.ty = eof then GapEnd (slice src prev t.start) ∧ t.start = t.stop ∧ t.stop = src.length
   else Gap (slice src prev t.start) ∧ t.start < t.stop) ∧
  (Fresh t.ty → t.reported = slice src (t.stop - t.reported.length) t.stop ∧ t.start ≤ t.stop - t.reported.length) ∧
  (Whole t.ty → t.reported = slice src t.start t.stop)

/-- every token starts at or after the end of the one before it (tokens are disjoint and in
    order), only white space and comments lie between them, and the last one ends at `upto` -/
def Chain (src : Bytes) : Nat → List Tok → Nat → Prop
  | p, [], q => p = q
  | p, t :: rest, q => TokOK src p t ∧ Chain src t.stop rest q

theorem Chain.snoc {src : Bytes} {p q : Nat} {toks : List Tok} {t : Tok} (h : Chain src p toks q) (ht : TokOK src q t) :
    Chain src p (toks ++ [t]) t.stop := by
  induction toks generalizing p with
  | nil => simp only [Chain] at h; subst h; exact ⟨ht, rfl⟩
  | cons x xs ih => exact ⟨h.1, ih h.2⟩

theorem lex_tokOK (src : Bytes) (s : LState) (h : At src s) (gap text : Bytes) (hstep : LexStep s gap text) :
    TokOK src s.offset { start := s.offset + gap.length, stop := (lex s).2.2.offset, ty := (lex s).1,
                         reported := (parseError (lex s).2.2).token } := by
  have hstep' := hstep
  obtain ⟨h1, h2, h3, h4, h5⟩ := hstep'
  obtain ⟨ho, hr⟩ := h
  rw [hr] at h1
  have hlen := congrArg List.length h1
  simp only [List.length_drop, List.length_append] at hlen
  have hrest : (lex s).2.2.rest = src.drop (lex s).2.2.offset := by
    rw [h2, Nat.add_assoc, ← List.drop_drop, h1, ← List.length_append]
    simp
  have hdrop : src.drop s.offset = gap ++ text ++ src.drop (lex s).2.2.offset := by rw [← hrest]; exact h1
  have hgap : slice src s.offset (s.offset + gap.length) = gap := by
    have : src.drop s.offset = [] ++ gap ++ (text ++ src.drop (lex s).2.2.offset) := by simp [hdrop]
    simpa using slice_of_drop this
  have htext : slice src (s.offset + gap.length) (lex s).2.2.offset = text := by
    rw [h2]; exact slice_of_drop hdrop
  have hrep := report_after_lex src s ⟨ho, hr⟩
  refine ⟨by simp, by simp [h2], by simp; omega, ?_, ?_, ?_⟩
  · simp only [hgap]
    rcases h5 with ⟨he, ht, hr', htk, hg⟩ | ⟨tok, hcl, htk, hg, -⟩
    · simp only [he, if_true]
      refine ⟨hg, by rw [h2, ht]; simp, ?_⟩
      rw [hr'] at hlen; simp at hlen; omega
    · simp only [hcl.ne_eof, if_false]
      have := hcl.text_ne_nil
      refine ⟨hg, ?_⟩
      rw [h2]
      have : 0 < text.length := by cases text with | nil => exact absurd rfl this | cons _ _ => simp
      omega
  · intro hf
    refine ⟨(hrep hf).2, ?_⟩
    simp only [parseError_eq, h3]
    rcases h5 with ⟨he, ht, hr', htk, hg⟩ | ⟨tok, hcl, htk, hg, -⟩
    · rw [he, htk]; simp [reportedTok, h2, ht]
    · obtain ⟨⟨p, hp⟩, -⟩ := hcl.reported s.token hf
      rw [htk, h2]
      have := congrArg List.length hp
      simp only [List.length_append] at this
      omega
  · intro hw
    simp only [parseError_eq, h3, htext]
    rcases h5 with ⟨he, ht, hr', htk, hg⟩ | ⟨tok, hcl, htk, hg, -⟩
    · rw [he, htk, ht]; simp [reportedTok]
    · rw [htk]
      exact ((hcl.reported s.token ⟨hw.2.2.1, hw.2.2.2⟩).2 hw).symm

/-- TOKEN POSITIONS OF A RUN: the state is placed in the source and the tokens returned so far
    form a chain from offset 0 to `l.offset` -/
theorem run_chain (src : Bytes) (s : LState) (toks : List Tok) (h : Run src s toks) :
    At src s ∧ Chain src 0 toks s.offset := by
  induction h with
  | init => exact ⟨at_init src, rfl⟩
  | lex gap text _ hstep ih =>
    obtain ⟨hat, hch⟩ := ih
    obtain ⟨_, _, _, hat', -⟩ := lex_step_at src _ hat
    exact ⟨hat', Chain.snoc hch (lex_tokOK src _ hat gap text hstep)⟩
  | feedback b _ ih => exact ih

/-! ### the tie to `Parse` -/

open Gojq.LALR in
/-- `s'` is the lexer state right after a call of `Lex` in a run over `src` (the parser may have
    set `l.inString` since) -/
def AfterLex (src : Bytes) (s' : LState) : Prop :=
  ∃ s0 toks b, Run src s0 toks ∧ s' = { (lex s0).2.2 with inString := b }

open Gojq.LALR in
/-- THE PARSER'S ERROR IS RAISED RIGHT AFTER A CALL OF `Lex`: when `Parse(src)` calls
    `yylex.Error`, the lexer is in the state some call of `Lex` left it in (up to `inString`), and
    that call was made from a state of a `Run` over `src`; an accepting parse ends in a `Run` state.
    Uses the table fact `simple_states_reduce` (a state that reads no look-ahead never has the
    error action). -/
theorem parse_reject_after_lex (src : Bytes) :
    match Parse.parse src with
    | .reject _ _ s' => AfterLex src s'
    | .accept _ s' => ∃ toks, Run src s' toks
    | .stuck => True := by
  have inv : (Parse.parse src).Ends2 (fun s => ∃ toks, Run src s toks) (AfterLex src) := by
    unfold Parse.parse start
    refine run_invariant_look Parse.source _ _ ?_ ?_ ?_ simple_states_reduce _ _ _ _ ?_ ?_
    · intro s ⟨toks, hr⟩
      obtain ⟨gap, text, hstep⟩ := lex_step s
      simp only [Parse.source]
      exact ⟨⟨_, Run.lex gap text hr hstep⟩, s, toks, (lex s).2.2.inString, hr, rfl⟩
    · intro r s ⟨toks, hr⟩
      simp only [Parse.source]
      split
      · exact ⟨toks, Run.feedback true hr⟩
      · exact ⟨toks, hr⟩
    · intro r s ⟨s0, toks, b, hr, he⟩
      simp only [Parse.source]
      split
      · exact ⟨s0, toks, true, hr, by rw [he]⟩
      · exact ⟨s0, toks, b, hr, he⟩
    · exact ⟨[], Run.init⟩
    · intro h; simp at h
  revert inv
  cases Parse.parse src <;> simp only [Outcome.Ends2] <;> intro h
  · exact h
  · exact h.2
  · trivial

theorem parseError_inString (s : LState) (b : Bool) : parseError { s with inString := b } = parseError s := rfl

end Gojq.Lexer

/-
  Lexing printed text, part 3: operators, identifiers, keywords, variables, module names, formats,
  field names, numbers.
-/
import Gojq.Proofs.RoundTripLexTok
namespace Gojq.RefTerm
open Gojq Gojq.Lexer Gojq.Generated.Lalr

/-! ### operators spelled with several bytes -/

@[simp] theorem peek_cons (c : UInt8) (r : Bytes) : peek (c :: r) = c := rfl

/-- what `scanTok` returns for a literal operator spelling -/
def opScan (sp : Bytes) : Scan :=
  { n := sp.length - 1, token := some sp, ty := (opEntry sp).1, lval := { operator := (opEntry sp).2 } }

theorem step_opScan (c : UInt8) (tail fol : Bytes) (t : Tok) (hw : isWhite c = false) (hh : (c == 35) = false)
    (hsc : scanTok false c (tail ++ fol) = opScan (c :: tail))
    (hty : ((opEntry (c :: tail)).1 == eof) = false)
    (hcl : classify false (opEntry (c :: tail)).1 { operator := (opEntry (c :: tail)).2 } = t) :
    LexStep false ((c :: tail) ++ fol) t fol false :=
  step_of_scan c (tail ++ fol) fol t _ hw hh hsc hty hcl (by simp [opScan])

theorem step_recurse (fol : Bytes) : LexStep false ([46, 46] ++ fol) .recurse fol false :=
  step_opScan 46 [46] fol _ (by decide) (by decide) (by simp [scanTok, opScan, isIdent, isNumber]) (by decide) (by decide)

theorem step_destAlt (fol : Bytes) : LexStep false ([63, 47, 47] ++ fol) .destAlt fol false :=
  step_opScan 63 [47, 47] fol _ (by decide) (by decide)
    (by simp [scanTok, opScan, isIdent, isNumber]) (by decide) (by decide)

theorem step_op (o : BOp) (fol : Bytes) (ho : isOpTok o = true) (h : stops (.op o) fol = true) :
    LexStep false (o.text ++ fol) (.op o) fol false := by
  cases o <;> simp only [isOpTok, Bool.false_eq_true] at ho <;> simp [stops] at h <;>
    exact step_opScan _ _ fol _ (by decide) (by decide)
      (by simp [scanTok, opScan, isIdent, isNumber, h]) (by decide) (by decide)

/-! ### identifiers -/

theorem isIdent_props (c : UInt8) (t : Bool) (h : isIdent c t = true) :
    isWhite c = false ∧ (c == 35) = false ∧ (c == 46) = false ∧ (c == 36) = false ∧ (c == 64) = false ∧
      (c == 34) = false ∧ (c == 58) = false := by
  refine ⟨?_, ?_, ?_, ?_, ?_, ?_, ?_⟩
  · simp only [isWhite, Bool.or_eq_false_iff, beq_eq_false_iff_ne]
    refine ⟨⟨⟨?_, ?_⟩, ?_⟩, ?_⟩ <;> (intro e; subst e; cases t <;> revert h <;> decide)
  all_goals (simp only [beq_eq_false_iff_ne]; intro e; subst e; cases t <;> revert h <;> decide)

theorem identStart_not_number (c : UInt8) (h : isIdent c false = true) : isNumber c = false := by
  simp only [isIdent, Bool.false_and, Bool.or_false, Bool.or_eq_true, Bool.and_eq_true, decide_eq_true_eq,
    beq_iff_eq] at h
  simp only [isNumber, Bool.and_eq_false_iff, decide_eq_false_iff_not, UInt8.not_le]
  rcases h with (h | h) | h
  · right; exact Nat.lt_of_lt_of_le (by decide : (57 : UInt8).toNat < (97 : UInt8).toNat) h.1
  · right; exact Nat.lt_of_lt_of_le (by decide : (57 : UInt8).toNat < (65 : UInt8).toNat) h.1
  · subst h; decide

theorem identLen_app (s fol : Bytes) (hs : ∀ x ∈ s, isIdent x true = true) (hf : isIdent (peek fol) true = false) :
    identLen (s ++ fol) = s.length := by
  induction s with
  | nil =>
    cases fol with
    | nil => rfl
    | cons c r => simp only [peek, List.headD_cons] at hf; simp [identLen, hf]
  | cons c s ih =>
    simp [identLen, hs c (by simp), ih (fun x hx => hs x (by simp [hx]))]

/-- no module separator follows -/
def noMod : Bytes → Bool
  | 58 :: 58 :: c :: _ => !isIdent c false
  | _ => true

theorem scanIdent_app (s fol : Bytes) (hs : ∀ x ∈ s, isIdent x true = true)
    (hf : isIdent (peek fol) true = false) (hm : noMod fol = true) :
    scanIdentOrModule (s ++ fol) = (s.length, false) := by
  unfold scanIdentOrModule
  simp only [identLen_app s fol hs hf, List.drop_left']
  split <;> simp_all [noMod]

theorem stops_ident {t : Tok} {fol : Bytes} (ht : t = .ident s ∨ t = .kw w ∨ t = .var s) (h : stops t fol = true) :
    isIdent (peek fol) true = false ∧ noMod fol = true := by
  rcases ht with rfl | rfl | rfl <;>
    (simp only [stops, Bool.and_eq_true, Bool.not_eq_true'] at h
     refine ⟨h.1, ?_⟩
     unfold noMod
     split <;> simp_all)

/-- `scanTok` on an identifier-shaped word that is not followed by a module separator -/
theorem scanTok_word (c0 : UInt8) (s' fol : Bytes) (h0 : isIdent c0 false = true)
    (hs : ∀ x ∈ s', isIdent x true = true) (hf : isIdent (peek fol) true = false) (hm : noMod fol = true) :
    scanTok false c0 (s' ++ fol) =
      { n := s'.length, token := some (c0 :: s'),
        ty := (bytesLookup (c0 :: s') keywords).getD tokIdent, lval := { token := c0 :: s' } } := by
  simp [scanTok, h0, scanIdent_app s' fol hs hf hm]

/-! keywords -/

theorem keywords_table : keywords = Kw.all.map (fun w => (w.text, w.code)) := by decide

theorem bytesLookup_map (n : Bytes) (l : List Kw) :
    bytesLookup n (l.map (fun w => (w.text, w.code))) = (l.find? (fun w => w.text == n)).map Kw.code := by
  induction l with
  | nil => rfl
  | cons w l ih =>
    simp only [List.map_cons, bytesLookup, List.find?_cons]
    by_cases h : n = w.text
    · subst h; simp
    · have h' : (w.text == n) = false := by simp; exact fun e => h e.symm
      simp [h, h', ih]

theorem bytesLookup_keywords (n : Bytes) : bytesLookup n keywords = (kwOfText n).map Kw.code := by
  rw [keywords_table, bytesLookup_map]; rfl

theorem kw_chars (w : Kw) : ∃ c0 s', w.text = c0 :: s' ∧ isIdent c0 false = true ∧ ∀ x ∈ s', isIdent x true = true := by
  cases w <;> exact ⟨_, _, rfl, by decide, by decide⟩

theorem kwOfText_self (w : Kw) : kwOfText w.text = some w := by cases w <;> rfl
theorem classify_kw (w : Kw) (lv : LVal) : classify false w.code lv = .kw w := by cases w <;> rfl
theorem kw_code_ne_eof (w : Kw) : (w.code == eof) = false := by cases w <;> rfl

theorem step_kw (w : Kw) (fol : Bytes) (h : stops (.kw w) fol = true) :
    LexStep false (w.text ++ fol) (.kw w) fol false := by
  obtain ⟨c0, s', e, h0, hs⟩ := kw_chars w
  obtain ⟨hf, hm⟩ := stops_ident (s := []) (w := w) (Or.inr (Or.inl rfl)) h
  obtain ⟨hw, hh, _⟩ := isIdent_props c0 false h0
  rw [e, List.cons_append]
  refine step_of_scan c0 (s' ++ fol) fol _ _ hw hh (scanTok_word c0 s' fol h0 hs hf hm) ?_ ?_ (by simp)
  · simp only [← e, bytesLookup_keywords, kwOfText_self, Option.map_some, Option.getD_some, kw_code_ne_eof]
  · simp only [← e, bytesLookup_keywords, kwOfText_self, Option.map_some, Option.getD_some, classify_kw]

theorem identName_split (s : Bytes) (h : isIdentName s = true) :
    ∃ c0 s', s = c0 :: s' ∧ isIdent c0 false = true ∧ ∀ x ∈ s', isIdent x true = true := by
  cases s with
  | nil => simp [isIdentName] at h
  | cons c0 s' =>
    simp only [isIdentName, Bool.and_eq_true, List.all_eq_true] at h
    exact ⟨c0, s', rfl, h.1, h.2⟩

theorem step_ident (s : Bytes) (fol : Bytes) (hs : isPlainIdent s = true) (h : stops (.ident s) fol = true) :
    LexStep false (s ++ fol) (.ident s) fol false := by
  simp only [isPlainIdent, Bool.and_eq_true, Option.isNone_iff_eq_none] at hs
  obtain ⟨c0, s', e, h0, hs'⟩ := identName_split s hs.1
  obtain ⟨hf, hm⟩ := stops_ident (s := s) (w := .and_) (Or.inl rfl) h
  obtain ⟨hw, hh, _⟩ := isIdent_props c0 false h0
  subst e
  rw [List.cons_append]
  refine step_of_scan c0 (s' ++ fol) fol _ _ hw hh (scanTok_word c0 s' fol h0 hs' hf hm) ?_ ?_ (by simp)
  · simp [bytesLookup_keywords, hs.2]; decide
  · simp [bytesLookup_keywords, hs.2]; rfl

end Gojq.RefTerm

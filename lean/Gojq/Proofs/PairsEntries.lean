/-
  Helper lemmas for Props/C13Pairs.lean, part 5: `to_entries` / `from_entries` at value level
  (Model/Pairs.lean): what `to_entries` yields on an object with distinct keys, what
  `from_entries` makes of such a list of entries, and that successive map assignment of sorted
  members is the object itself.
-/
import Gojq.Proofs.PairsPaths
namespace Gojq.Pairs
open Gojq Gojq.Stream

theorem B_key : B "key" = [107, 101, 121] := by decide +kernel
theorem B_value : B "value" = [118, 97, 108, 117, 101] := by decide +kernel

theorem field_entry_key (k v : JV) : field (entry k v) "key" = some k := by
  simp [field, entry, funcIndex2, kvLookup, pure, Except.pure]

theorem field_entry_value (k v : JV) : field (entry k v) "value" = some v := by
  simp [field, entry, funcIndex2, kvLookup, pure, Except.pure, B_key, B_value]

theorem has_entry_value (k v : JV) : funcHas (entry k v) (.str (B "value")) = .ok (.bool true) := by
  simp [funcHas, entry, kvLookup, pure, Except.pure, B_key, B_value]

theorem fromEntry_entry (k : Bytes) (v : JV) : fromEntry (entry (.str k) v) = some (k, v) := by
  simp [fromEntry, entryKey, entryValue, alt, field_entry_key, field_entry_value, has_entry_value, isFalsy]

theorem fromEntryList_entries : ∀ kvs : List (Bytes × JV),
    fromEntryList (kvs.map fun kv => entry (.str kv.1) kv.2) = some kvs
  | [] => rfl
  | (k, v) :: rest => by
    simp [fromEntryList, fromEntry_entry, fromEntryList_entries rest]

theorem kvLookup_of_mem_distinct (k : Bytes) (y : JV) : ∀ kvs : List (Bytes × JV), DistinctKeys kvs → (k, y) ∈ kvs →
    kvLookup k kvs = some y
  | [], _, h => by cases h
  | (k', v') :: rest, hn, hm => by
    simp only [DistinctKeys, List.pairwise_cons] at hn
    rcases List.mem_cons.mp hm with h | h
    · simp only [Prod.mk.injEq] at h
      obtain ⟨rfl, rfl⟩ := h
      simp [kvLookup]
    · have hne : k ≠ k' := hn.1 (k, y) h
      simp only [kvLookup, beq_iff_eq, hne, if_false]
      exact kvLookup_of_mem_distinct k y rest hn.2 h

theorem distinct_of_sorted : ∀ kvs : List (Bytes × JV), kvSorted kvs = true → DistinctKeys kvs
  | [], _ => List.Pairwise.nil
  | (k, x) :: rest, hs => by
    simp only [DistinctKeys, List.pairwise_cons]
    refine ⟨?_, distinct_of_sorted rest (sorted_tail k x rest hs)⟩
    intro p hp heq
    have hlt := sorted_head_lt k x rest hs p hp
    rw [heq, cmp_refl] at hlt
    cases hlt

/-- `to_entries` of an object whose members can all be looked up (distinct keys) -/
theorem entriesOf_obj (kvs : List (Bytes × JV)) : ∀ l : List (Bytes × JV), (∀ kv ∈ l, kvLookup kv.1 kvs = some kv.2) →
    entriesOf (.obj kvs) (l.map fun kv => .str kv.1) = some (l.map fun kv => entry (.str kv.1) kv.2)
  | [], _ => rfl
  | (k, v) :: rest, h => by
    have h1 := h (k, v) (by simp)
    have ih := entriesOf_obj kvs rest (fun kv hkv => h kv (by simp [hkv]))
    simp only [List.map_cons, entriesOf, funcIndex2, pure, Except.pure, ih] at h1 ⊢
    simp [h1]

theorem keysOf_obj (kvs : List (Bytes × JV)) : keysOf (.obj kvs) = some (kvs.map fun kv => .str kv.1) := by
  simp only [keysOf]

theorem toEntries_obj (kvs : List (Bytes × JV)) (hn : DistinctKeys kvs) :
    toEntries (.obj kvs) = some (.arr (kvs.map fun kv => entry (.str kv.1) kv.2)) := by
  have := entriesOf_obj kvs kvs (fun kv hkv => kvLookup_of_mem_distinct kv.1 kv.2 kvs hn hkv)
  simp only [toEntries, keysOf_obj, this]; rfl

theorem fromEntries_entries (kvs : List (Bytes × JV)) :
    fromEntries (.arr (kvs.map fun kv => entry (.str kv.1) kv.2)) = some (addPairs kvs) := by
  simp [fromEntries, valuesOf, fromEntryList_entries]

theorem foldl_insert_sorted : ∀ (l acc : List (Bytes × JV)), kvSorted l = true →
    (∀ p ∈ acc, ∀ q ∈ l, Bytes.cmp p.1 q.1 = .lt) →
    l.foldl (fun acc kv => kvInsert kv.1 kv.2 acc) acc = acc ++ l
  | [], acc, _, _ => by simp
  | (k, x) :: rest, acc, hs, hacc => by
    have hins : kvInsert k x acc = acc ++ [(k, x)] :=
      kvInsert_append k x acc (fun p hp => hacc p hp (k, x) (by simp))
    simp only [List.foldl_cons, hins]
    rw [foldl_insert_sorted rest (acc ++ [(k, x)]) (sorted_tail k x rest hs) ?_]
    · simp
    · intro p hp q hq
      rcases List.mem_append.mp hp with hp | hp
      · exact hacc p hp q (by simp [hq])
      · simp only [List.mem_singleton] at hp
        rw [hp]
        exact sorted_head_lt k x rest hs q hq

theorem addPairs_sorted (kvs : List (Bytes × JV)) (hs : kvSorted kvs = true) : addPairs kvs = .obj kvs := by
  simp only [addPairs]
  rw [foldl_insert_sorted kvs [] hs (by intro p hp; cases hp)]
  rfl

theorem addPairs_eq_mkObj (kvs : List (Bytes × JV)) : addPairs kvs = JV.mkObj kvs := rfl

theorem mapOpt_some : ∀ es : List JV, mapOpt some es = some es
  | [] => rfl
  | e :: es => by simp [mapOpt, mapOpt_some es]

end Gojq.Pairs

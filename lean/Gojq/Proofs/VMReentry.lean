/-
  The fork/stack invariant of the loop of `Next` and what it gives when a call returns an error:
  the saved `pc` points at an opcode that can `break loop`, and if that opcode is `opiter` the data
  stack has a poppable top (the value the last popped fork restored, or the `emptyIter{}` that
  `opiter` pushes before raising its own errors).  For arbitrary code.
-/
import Gojq.Proofs.VMExec
set_option linter.unusedSimpArgs false
set_option linter.unusedVariables false
namespace Gojq.VM

theorem exec_ok (ins : Instr) (x : ExtRec) (l : L) (e : Env) (ctl : Ctl) (l' : L) (e' : Env)
    (hw : StackWF e.stack) (hl : l.err.isSome = true → l.backtrack = true ∧ forkLike ins = true)
    (h : exec ins x l e = .ok (ctl, l') e') : R ins l.pc e e' ∧ Post ins l (ctl, l') := by
  have := exec_spec ins x l hl e e (R.refl _ _ e hw)
  unfold wp at this
  rw [h] at this
  exact this

/-! ## inversion of `opiter` -/

theorem pure_ok {α : Type} {a b : α} {e e' : Env} (h : (pure a : M α) e = .ok b e') : a = b ∧ e = e' := by
  have h' : Res.ok a e = Res.ok b e' := h
  simp at h'; exact h'

theorem pop_ok {v : V} {e e1 : Env} (h : pop e = .ok v e1) (hw : StackWF e.stack) :
    StackWF e1.stack ∧ e1.forks = e.forks := by
  unfold pop at h
  split at h
  · rename_i v' s' hp
    simp at h; obtain ⟨_, rfl⟩ := h
    exact ⟨(Stack.pop?_spec _ _ _ hp hw).2.2, rfl⟩
  · simp at h

theorem tracking_ok {b : Bool} {e e' : Env} (h : tracking e = .ok b e') : e' = e := by
  simp [tracking] at h; exact h.2.symm

theorem extCall_ok {x : ExtRec} {r : CallRes} {e e' : Env} (h : extCall x e = .ok r e') : e' = e := by
  unfold extCall at h; split at h <;> simp at h; exact h.2.symm

theorem pathsTop_ok {v : V} {e e' : Env} (h : pathsTop e = .ok v e') : e' = e := by
  unfold pathsTop at h; split at h <;> simp at h; exact h.2.symm

theorem pathIntact_ok {x : ExtRec} {b : Bool} {e e' : Env} (h : pathIntact x e = .ok b e') : e' = e := by
  unfold pathIntact at h
  obtain ⟨w, e1, h1, h2⟩ := bind_ok h
  have := pathsTop_ok h1; subst this
  cases w with
  | pv p v =>
    simp only at h2
    cases hx : x.intact with
    | none => simp [hx, stuck] at h2
    | some b' => simp only [hx] at h2; exact (pure_ok h2).2.symm
  | _ => simp [panic] at h2

theorem pathBroken_ok {x : ExtRec} {b : Bool} {e e' : Env} (h : pathBroken x e = .ok b e') : e' = e := by
  unfold pathBroken at h
  obtain ⟨t, e1, h1, h2⟩ := bind_ok h
  have := tracking_ok h1; subst this
  split at h2
  · obtain ⟨ok, e2, h3, h4⟩ := bind_ok h2
    have := pathIntact_ok h3; subst this
    exact (pure_ok h4).2.symm
  · exact (pure_ok h2).2.symm

theorem push_ok (v : V) (e : Env) : push v e = .ok () { e with stack := e.stack.push v } := rfl

theorem pushforkOver_forks {v : V} {pc : Int} {e e' : Env} (h : pushforkOver v pc e = .ok () e') : e'.forks ≠ [] := by
  unfold pushforkOver at h
  obtain ⟨_, e1, h1, h2⟩ := bind_ok h
  obtain ⟨_, e2, h3, h4⟩ := bind_ok h2
  obtain ⟨_, e3, h5, h6⟩ := bind_ok h4
  have := (pure_ok h6).2; subst this
  have hf2 : e2.forks ≠ [] := by
    simp [pushfork, modifyEnv] at h3
    rw [← h3]; simp
  unfold pop at h5
  split at h5
  · simp at h5; rw [← h5.2]; exact hf2
  · simp at h5

/-- value-only postconditions -/
def Val {α : Type} (φ : α → Prop) (m : M α) : Prop := ∀ e, wp m (fun a _ => φ a) e

theorem Val.pure {α : Type} {φ : α → Prop} {a : α} (h : φ a) : Val φ (pure a : M α) := fun _ => wp_pure h
theorem Val.bind {α β : Type} {φ : β → Prop} {m : M α} {f : α → M β} (hf : ∀ a, Val φ (f a)) : Val φ (m >>= f) := by
  intro e
  apply wp_bind
  unfold wp
  cases m e with
  | ok a e' => exact hf a e'
  | panic s => trivial
  | stuck w => trivial
theorem Val.panic {α : Type} {φ : α → Prop} {s : Site} : Val φ (panic s : M α) := fun _ => by simp [wp, VM.panic]

theorem iterEmit_fall {pc : Int} {l : L} {xs : List (V × V)} {e e' : Env} {c : Ctl} {l' : L}
    (h : iterEmit pc l xs e = .ok (c, l') e') : c = .fall := by
  have hv : Val (fun r : Ctl × L => r.1 = .fall) (iterEmit pc l xs) := by
    simp only [iterEmit]
    repeat' (first
      | exact Val.panic
      | (apply Val.pure; rfl)
      | refine Val.bind (fun _ => ?_)
      | split)
  have := hv e
  unfold wp at this
  rw [h] at this
  exact this

/-- when `opiter` breaks the loop with an error: either it was entered with the error (state
    untouched), or it pushed `emptyIter{}` (poppable top), or it pushed a fork -/
theorem iter_brk_err (x : ExtRec) (l : L) (e : Env) (l' : L) (e' : Env) (hw : StackWF e.stack)
    (h : exec .iter x l e = .ok (.brk, l') e') (herr : l'.err.isSome = true) :
    (l.err.isSome = true ∧ e' = e) ∨ TopOK e'.stack ∨ e'.forks ≠ [] := by
  simp only [exec] at h
  split at h
  · rename_i he
    have := pure_ok h
    exact .inl ⟨he, this.2.symm⟩
  · rename_i he
    have hnone : l.err = none := by cases hE : l.err <;> simp_all
    obtain ⟨v, e1, hpop, h⟩ := bind_ok h
    try dsimp only at h
    have hw1 := (pop_ok hpop hw).1
    have noerr : ∀ {e2 : Env}, (pure (Ctl.brk, ({ l with backtrack := false } : L)) : M (Ctl × L)) e1 = .ok (.brk, l') e2 → False := by
      intro e2 h
      have := (pure_ok h).1
      simp at this
      rw [← this] at herr
      simp [hnone] at herr
    have invalid : ∀ {e2 : Env}, iterInvalid x ({ l with backtrack := false } : L) e1 = .ok (.brk, l') e2 → TopOK e2.stack := by
      intro e2 h
      unfold iterInvalid at h
      obtain ⟨_, e3, h1, h2⟩ := bind_ok h
      rw [push_ok] at h1
      simp at h1; subst h1
      have := (pure_ok h2).2; subst this
      exact (Stack.push_wf _ _ hw1).2
    split at h
    · exact absurd (iterEmit_fall h) (by simp)
    · obtain ⟨b, e2, hb, k1⟩ := bind_ok h
      have := pathBroken_ok hb; subst this
      split at k1
      · exact .inr (.inl (invalid k1))
      · split at k1
        · exact (noerr k1).elim
        · exact absurd (iterEmit_fall k1) (by simp)
    · obtain ⟨b, e2, hb, k1⟩ := bind_ok h
      have := pathBroken_ok hb; subst this
      split at k1
      · exact .inr (.inl (invalid k1))
      · split at k1
        · exact (noerr k1).elim
        · exact absurd (iterEmit_fall k1) (by simp)
    · exact (noerr h).elim
    · obtain ⟨r, e2, hr, k1⟩ := bind_ok h
      have := extCall_ok hr; subst this
      split at k1
      · exact (noerr k1).elim
      · obtain ⟨_, e3, _, k2⟩ := bind_ok k1
        obtain ⟨_, e4, _, k3⟩ := bind_ok k2
        have := (pure_ok k3).1
        simp at this
      · obtain ⟨_, e3, hpf, k2⟩ := bind_ok k1
        have := (pure_ok k2).2; subst this
        exact .inr (.inr (pushforkOver_forks hpf))
    · obtain ⟨_, e3, h1, h2⟩ := bind_ok h
      rw [push_ok] at h1
      simp at h1; subst h1
      have := (pure_ok h2).2; subst this
      exact .inr (.inl (Stack.push_wf _ _ hw1).2)

/-! ## the invariant of the loop -/

/-- a pending fork points at a fork-like instruction, its saved stack index and limit are -1 or a
    slot, and a fork pushed by `opiter` has a value to restore on top -/
def ForkOK (P : Params) (size : Nat) (f : Fork) : Prop :=
  -1 ≤ f.stackindex ∧ f.stackindex < size ∧ -1 ≤ f.stacklimit ∧ f.stacklimit < size ∧
  ∃ ins, 0 ≤ f.pc ∧ P.code[f.pc.toNat]? = some ins ∧ forkLike ins = true ∧ (ins = .iter → 0 ≤ f.stackindex)

def EnvInv (P : Params) (e : Env) : Prop :=
  StackWF e.stack ∧ ∀ f ∈ e.forks, ForkOK P e.stack.data.size f

/-- a pending error is only ever carried to a fork-like instruction, in backtrack mode -/
def LInv (P : Params) (l : L) (e : Env) : Prop :=
  l.err.isSome = true → l.backtrack = true ∧
    ∃ ins, 0 ≤ l.pc ∧ P.code[l.pc.toNat]? = some ins ∧ forkLike ins = true ∧ (ins = .iter → TopOK e.stack)

/-- what the state left by an error return guarantees about the instruction at the saved `pc` -/
def ReentryOK (P : Params) (e : Env) : Prop :=
  0 ≤ e.pc ∧ ∀ ins, P.code[e.pc.toNat]? = some ins → isBreaker ins = true ∧ (ins = .iter → TopOK e.stack)

def StepInv (P : Params) : Step → Prop
  | .cont l' s' => EnvInv P s'.env ∧ LInv P l' s'.env
  | .fin o s' => EnvInv P s'.env ∧ ∀ e, o = .error e → ReentryOK P s'.env

theorem ForkOK.mono {P : Params} {n m : Nat} {f : Fork} (h : ForkOK P n f) (hnm : n ≤ m) : ForkOK P m f := by
  obtain ⟨a, b, c, d, e⟩ := h
  exact ⟨a, by omega, c, by omega, e⟩

theorem EnvInv.save {P : Params} {s : St} (h : EnvInv P s.env) (pc : Int) : EnvInv P (s.save pc).env := h

theorem unwind_inv (P : Params) (l : L) (s : St) (hE : EnvInv P s.env) (hpc : 0 ≤ l.pc)
    (hR : s.env.forks = [] → l.err.isSome = true → ∀ ins, P.code[l.pc.toNat]? = some ins →
      isBreaker ins = true ∧ (ins = .iter → TopOK s.env.stack)) :
    StepInv P (unwind P l s) := by
  unfold unwind
  split
  · rename_i hf
    unfold finish
    split
    · rename_i e he
      refine ⟨hE.save _, fun e' _ => ⟨hpc, ?_⟩⟩
      intro ins hins
      exact hR hf (by simp [he]) ins hins
    · exact ⟨hE.save _, fun e' h => by simp at h⟩
  · rename_i f rest hf
    obtain ⟨hw, hfk⟩ := hE
    have hfo : ForkOK P s.env.stack.data.size f := hfk f (by rw [hf]; simp)
    obtain ⟨a, b, c, d, ins, i0, i1, i2, i3⟩ := hfo
    obtain ⟨w1, w2, w3, w4, w5⟩ := hw
    refine ⟨⟨⟨a, b, c, d, w5⟩, fun g hg => hfk g (by rw [hf]; exact List.mem_cons_of_mem _ hg)⟩, ?_⟩
    intro _
    exact ⟨rfl, ins, i0, i1, i2, fun hi => ⟨i3 hi, b⟩⟩

theorem getD_some (code : Array Instr) (pc : Int) (h0 : 0 ≤ pc) (h1 : pc < code.size) :
    code[pc.toNat]? = some (code.getD pc.toNat .bad) := by
  have hlt : pc.toNat < code.size := (Int.toNat_lt h0).mpr h1
  simp [Array.getD, hlt]

/-- one turn keeps the invariant, and an error return leaves a re-enterable state -/
theorem step_inv (P : Params) (l : L) (s : St) (hE : EnvInv P s.env) (hL : LInv P l s.env) :
    StepInv P (step P l s) := by
  unfold step
  by_cases h1 : l.pc < P.code.size
  · by_cases h0 : l.pc < 0
    · simp only [h1, h0, if_true]
      exact ⟨hE.save _, fun e h => by simp at h⟩
    · have h0' : 0 ≤ l.pc := Int.not_lt.mp h0
      simp only [h1, h0, if_true, if_false]
      split
      · -- cancelled
        exact ⟨⟨hE.1, fun f hf => by simp [St.save] at hf⟩, fun e h => by simp at h⟩
      · have hins := getD_some P.code l.pc h0' h1
        generalize hI : P.code.getD l.pc.toNat .bad = ins at hins
        have hl : l.err.isSome = true → l.backtrack = true ∧ forkLike ins = true := by
          intro he
          obtain ⟨hb, ins', _, hc, hd, _⟩ := hL he
          rw [hins] at hc; simp at hc; subst hc
          exact ⟨hb, hd⟩
        split
        · exact ⟨hE.save _, fun e h => by simp at h⟩
        · exact ⟨hE.save _, fun e h => by simp at h⟩
        · rename_i ctl l' env' hex
          obtain ⟨⟨hw', hsz, new, hfk, hnew⟩, hpost⟩ := exec_ok ins _ l s.env ctl l' env' hE.1 hl hex
          have hE' : EnvInv P env' := by
            refine ⟨hw', fun f hf => ?_⟩
            rw [hfk] at hf
            rcases List.mem_append.mp hf with hf | hf
            · obtain ⟨a, b, c, d, e, g, i⟩ := hnew f hf
              exact ⟨c, d, e, g, ins, by rw [a]; exact h0', by rw [a]; exact hins, b, i⟩
            · exact (hE.2 f hf).mono hsz
          split
          · -- fall
            simp only [Post] at hpost
            exact ⟨hE', fun he => by simp [hpost] at he⟩
          · simp only [Post] at hpost
            exact ⟨hE', fun he => by simp [hpost] at he⟩
          · exact ⟨hE'.save _, fun e h => by simp at h⟩
          · -- break
            simp only [Post] at hpost
            apply unwind_inv P l' _ hE' (by rw [hpost.1]; exact h0')
            intro hf he ins2 hins2
            rw [hpost.1, hins] at hins2
            simp at hins2; subst hins2
            refine ⟨hpost.2, fun hi => ?_⟩
            subst hi
            rcases iter_brk_err _ l s.env l' env' hE.1 hex he with h | h | h
            · obtain ⟨_, ins', _, hc, _, hd⟩ := hL h.1
              rw [hins] at hc; simp at hc
              rw [h.2]; exact hd hc.symm
            · exact h
            · exact absurd hf h
  · simp only [h1, if_false]
    apply unwind_inv P l s hE (Int.le_trans (Int.natCast_nonneg _) (Int.not_lt.mp h1))
    intro _ he ins hins
    exfalso
    obtain ⟨_, ins', i0, hc, _⟩ := hL he
    have : l.pc.toNat < P.code.size := by
      have := Array.getElem?_eq_some_iff.mp hc
      exact this.1
    have := (Int.toNat_lt i0).mp this
    exact h1 this

/-- the whole loop: an error return leaves a re-enterable state, and the invariant survives the call -/
theorem loop_inv (P : Params) : ∀ (fuel : Nat) (l : L) (s : St), EnvInv P s.env → LInv P l s.env →
    EnvInv P (loop P fuel l s).2.env ∧ ∀ e, (loop P fuel l s).1 = .error e → ReentryOK P (loop P fuel l s).2.env := by
  intro fuel
  induction fuel with
  | zero =>
    intro l s hE hL
    have := step_inv P l s hE hL
    rw [loop_zero]
    cases hs : step P l s with
    | fin o s' => rw [hs] at this; exact this
    | cont l' s' => rw [hs] at this; exact ⟨this.1.save _, fun e h => by simp at h⟩
  | succ n ih =>
    intro l s hE hL
    have := step_inv P l s hE hL
    rw [loop_succ]
    cases hs : step P l s with
    | fin o s' => rw [hs] at this; exact this
    | cont l' s' => rw [hs] at this; exact ih l' s' this.1 this.2

theorem entry_linv (P : Params) (s : St) : LInv P (entry P s) s.env := by
  intro h; simp [entry] at h

/-- the invariant holds initially … -/
theorem initSt_inv (P : Params) (input : V) (vars : List V) : EnvInv P (initSt input vars).env := by
  have hwf0 : StackWF ({} : Stack V) := ⟨by decide, by decide, by decide, by decide, fun i h => by simp at h⟩
  have hfold : ∀ (vs : List V) (e : Env), StackWF e.stack → e.forks = [] →
      StackWF (vs.foldl (fun e v => { e with stack := e.stack.push v }) e).stack ∧
      (vs.foldl (fun e v => { e with stack := e.stack.push v }) e).forks = [] := by
    intro vs
    induction vs with
    | nil => intro e h1 h2; exact ⟨h1, h2⟩
    | cons v vs ih => intro e h1 h2; exact ih _ (Stack.push_wf _ _ h1).1 h2
  have := hfold vars.reverse { ({} : Env) with stack := ({} : Env).stack.push input } (Stack.push_wf _ _ hwf0).1 rfl
  refine ⟨this.1, fun f hf => ?_⟩
  unfold initSt at hf
  simp only at hf
  rw [this.2] at hf
  simp at hf

/-- … and is kept by every call, whatever its outcome -/
theorem next_inv (P : Params) (fuel : Nat) (s : St) (h : EnvInv P s.env) : EnvInv P (next P fuel s).2.env :=
  (loop_inv P fuel _ s h (entry_linv P s)).1

theorem after_inv (P : Params) (fuel : Nat) : ∀ (n : Nat) (s : St), EnvInv P s.env → EnvInv P (after P fuel n s).env := by
  intro n
  induction n with
  | zero => intro s h; exact h
  | succ n ih => intro s h; exact ih _ (next_inv P fuel s h)

/-! ## re-entering the instruction at the saved pc -/

/-- Re-entering any opcode that can `break loop`, other than `opiter` and `opforklabel`, with
    `backtrack = true` and no error does not look at the environment at all: it breaks again or
    (`opfork`) jumps to its target.  No panic, in any state. -/
theorem breaker_reentry (ins : Instr) (hb : isBreaker ins = true) (hi : ins ≠ .iter)
    (hl : ∀ a b, ins ≠ .forklabel a b) (x : ExtRec) (l : L) (e : Env)
    (hbt : l.backtrack = true) (herr : l.err = none) :
    ∃ ctl l', exec ins x l e = .ok (ctl, l') e := by
  cases ins <;> first
    | (simp [isBreaker] at hb; done)
    | exact absurd rfl hi
    | exact absurd rfl (hl _ _)
    | (simp only [exec, exec.execIndex, hbt, herr, if_true, Option.isSome_none, Option.isNone_none]; exact ⟨_, _, rfl⟩)

/-- the pop at the head of a re-entered `opiter` succeeds when the stack has a poppable top -/
theorem iter_reentry_pop (e : Env) (h : TopOK e.stack) : ∃ v e1, pop e = .ok v e1 := by
  obtain ⟨v, s', hp⟩ := Stack.pop?_of_top e.stack h
  exact ⟨v, { e with stack := s' }, by unfold pop; rw [hp]⟩

theorem unwind_no_panic (P : Params) (l : L) (s : St) (site : Site) (st : St) : unwind P l s ≠ .fin (.panic site) st := by
  intro h
  exact (unwind_fin P l s _ _ h).2.2.1 site rfl

theorem step_fin_backtrack (P : Params) (l : L) (s : St) (o : Outcome) (s' : St) (h : step P l s = .fin o s') :
    s'.env.backtrack = true := by
  have hu : ∀ (l : L) (s : St), unwind P l s = .fin o s' → s'.env.backtrack = true := by
    intro l s h
    unfold unwind at h
    split at h
    · unfold finish at h
      split at h <;> (simp at h; obtain ⟨_, rfl⟩ := h; rfl)
    · simp at h
  unfold step at h
  split at h
  · split at h
    · simp at h; obtain ⟨_, rfl⟩ := h; rfl
    · split at h
      · simp at h; obtain ⟨_, rfl⟩ := h; rfl
      · split at h
        · simp at h; obtain ⟨_, rfl⟩ := h; rfl
        · simp at h; obtain ⟨_, rfl⟩ := h; rfl
        · split at h
          · simp at h
          · simp at h
          · simp at h; obtain ⟨_, rfl⟩ := h; rfl
          · exact hu _ _ h
  · exact hu _ _ h

theorem loop_backtrack (P : Params) : ∀ (fuel : Nat) (l : L) (s : St), (loop P fuel l s).2.env.backtrack = true := by
  intro fuel
  induction fuel with
  | zero =>
    intro l s
    rw [loop_zero]
    cases hs : step P l s with
    | fin o s' => exact step_fin_backtrack P l s o s' hs
    | cont l' s' => rfl
  | succ n ih =>
    intro l s
    rw [loop_succ]
    cases hs : step P l s with
    | fin o s' => exact step_fin_backtrack P l s o s' hs
    | cont l' s' => exact ih l' s'

/-- if the instruction about to run returns normally, the turn is not a panic -/
theorem step_no_panic_of_exec (P : Params) (l : L) (s : St) (h0 : 0 ≤ l.pc) (h1 : l.pc < P.code.size)
    (hex : ∃ r e', exec (P.code.getD l.pc.toNat .bad) (P.ext s.polls) l s.env = .ok r e')
    (site : Site) (st : St) : step P l s ≠ .fin (.panic site) st := by
  obtain ⟨r, e', hex⟩ := hex
  intro h
  unfold step at h
  simp only [h1, Int.not_lt.mpr h0, if_true, if_false] at h
  split at h
  · simp at h
  · rw [hex] at h
    simp only at h
    split at h
    · simp at h
    · simp at h
    · simp at h
    · exact unwind_no_panic P _ _ site st h

end Gojq.VM

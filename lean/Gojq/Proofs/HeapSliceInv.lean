/-
  Helper lemmas for the slice extension of the heap model, part 2: the bookkeeping of `updS` under
  label uniqueness — one invariant `URes` carried along the recursion of `updS` (key, index and slice
  elements), from which unobservability of the in-place writes, re-establishment of the invariant of a
  `_modify` reduction, and liveness of the registered cells follow.  Core Lean only.
-/
import Gojq.Proofs.HeapSlice
namespace Gojq.Heap
open Gojq

/-- what `updS A f p v n` may assume: owned labels unique in `v`, the children of `v` top-closed, the
    inserted value holds no owned label, the counter is above every label in use -/
structure Hyp (A : List Nat) (f : Nat) (v n : T) : Prop where
  uniq : ∀ a ∈ A, v.ids.count a ≤ 1
  tck : ∀ x ∈ kidsOf v, tc A x.2
  hnA : ∀ a ∈ A, a ∉ n.ids
  hv : ∀ j ∈ v.ids, j < f
  hn : ∀ j ∈ n.ids, j < f
  hA : ∀ a ∈ A, a < f

/-- the labels of the part of `v` that an update through `p` replaces: the subtree at `p`, or the
    elements of the slice at `p` when `p` ends with a slice -/
def replG (p : PathS) (v : T) : List Nat :=
  match getpS p v with
  | some x => if endsWithSlice p then kidIds x else x.ids
  | none => []

/-- what `updS A f p v n = some r` guarantees under `Hyp` -/
structure URes (A : List Nat) (f : Nat) (p : PathS) (v n : T) (r : T × List Nat × Nat × Log) : Prop where
  hf : f ≤ r.2.2.1
  hA1 : ∀ a ∈ r.2.1, a ∈ A ∨ (f ≤ a ∧ a < r.2.2.1)
  keep : ∀ a ∈ A, a ∉ v.ids → a ∈ r.2.1
  hub : ∀ j ∈ r.1.ids, j < r.2.2.1
  base : p = [] → r = (n, A, f, [])
  root : p ≠ [] → ∃ rt o c ks, r.1 = .node rt o c ks ∧
    ((v.root? = some rt ∧ rt ∈ A ∧ rt ∈ r.2.1) ∨ (f ≤ rt ∧ rt < r.2.2.1 ∧ (rt ∈ r.2.1 ↔ ks ≠ [])))
  kcnt : p ≠ [] → ∀ a, a < f → (kidIds r.1).count a ≤ (kidIds v).count a + n.ids.count a
  fresh : ∀ a, f ≤ a → r.1.ids.count a ≤ 1
  logA : ∀ e ∈ r.2.2.2, e.1 ∈ A ∧ e.1 ∈ v.ids
  logne : ∀ e ∈ r.2.2.2, e.2 ≠ []
  logroot : ∀ e ∈ r.2.2.2, v.root? = some e.1 → r.1.root? = some e.1 ∧ e.1 ∈ r.2.1 ∧
    ∀ c ks, v = .node e.1 false c ks → c = ks.length → (kidsOf r.1).length = ks.length
  cons : ∀ e ∈ r.2.2.2, Heap.cons e.1 e.2 r.1
  tcr : tc r.2.1 r.1
  live : ∀ a ∈ r.2.1, a ∉ r.1.ids → a ∈ A ∧ (a ∉ v.ids ∨ a ∈ replG p v)

/-! ### consequences of `URes` in the form the steps use them -/

theorem kid_le_ids (t : T) (a : Nat) : (kidIds t).count a ≤ t.ids.count a := by
  rw [count_root_kid]; omega

/-- labels below the counter: the result holds no more of them than the old value and the inserted one -/
theorem URes.cnt {A f p v n r} (R : URes A f p v n r) : ∀ a, a < f → r.1.ids.count a ≤ v.ids.count a + n.ids.count a := by
  intro a ha
  by_cases hp : p = []
  · rw [R.base hp]; simp only []; omega
  · obtain ⟨rt, o, c, ks, hr, hcase⟩ := R.root hp
    have hk := R.kcnt hp a ha
    rw [count_root_kid r.1, count_root_kid v]
    rcases hcase with ⟨hv, _, _⟩ | ⟨hge, _, _⟩
    · have : r.1.root? = some rt := by rw [hr]; rfl
      rw [this, hv]; omega
    · have : r.1.root? = some rt := by rw [hr]; rfl
      rw [this]
      have : ¬ (some rt = some a) := by intro e; cases e; omega
      simp only [this, if_false]; omega

/-- the same for the labels below the root -/
theorem URes.kcnt' {A f p v n r} (R : URes A f p v n r) : ∀ a, a < f → (kidIds r.1).count a ≤ (kidIds v).count a + n.ids.count a := by
  intro a ha
  by_cases hp : p = []
  · rw [R.base hp]; simp only []; have := kid_le_ids n a; omega
  · exact R.kcnt hp a ha

/-- where the root of the result comes from -/
theorem URes.uroot {A f p v n r} (R : URes A f p v n r) : ∀ l, r.1.root? = some l →
    (v.root? = some l ∧ l ∈ A ∧ l ∈ r.2.1) ∨ (f ≤ l ∧ l < r.2.2.1 ∧ (l ∈ r.2.1 ↔ kidsOf r.1 ≠ [])) ∨
    (l ∈ n.ids ∧ p = []) := by
  intro l hl
  by_cases hp : p = []
  · right; right
    rw [R.base hp] at hl
    simp only [] at hl
    refine ⟨?_, hp⟩
    rw [ids_root_kid, hl]; simp
  · obtain ⟨rt, o, c, ks, hr, hcase⟩ := R.root hp
    rw [hr] at hl
    simp only [T.root?, Option.some.injEq] at hl
    subst hl
    rcases hcase with h | h
    · exact Or.inl h
    · right; left
      rw [hr]; exact h

/-- uniqueness of owned labels is re-established for the new allocator -/
theorem URes.uniq {A f p v n r} (R : URes A f p v n r) (H : Hyp A f v n) : ∀ a ∈ r.2.1, r.1.ids.count a ≤ 1 := by
  intro a ha
  rcases R.hA1 a ha with h | h
  · have := R.cnt a (H.hA a h)
    have := H.uniq a h
    have : n.ids.count a = 0 := List.count_eq_zero.mpr (H.hnA a h)
    omega
  · exact R.fresh a h.1

theorem URes.hAf {A f p v n r} (R : URes A f p v n r) (H : Hyp A f v n) : ∀ a ∈ r.2.1, a < r.2.2.1 := by
  intro a ha
  rcases R.hA1 a ha with h | h
  · have := H.hA a h; have := R.hf; omega
  · exact h.2

/-! ### `enter`, once more -/

theorem enter_root (e : PE) (v : T) (cell o fo) (h : enter e v = some (cell, o, fo)) :
    v.root? = cell.map (·.1) := by
  cases cell with
  | some ic =>
    obtain ⟨id, c⟩ := ic
    obtain ⟨o', ks, rfl⟩ := (enter_mem e v _ o fo h).1 id c rfl
    rfl
  | none =>
    cases v with
    | hole => simp [enter] at h
    | leaf s => rfl
    | node id ob c ks =>
      exfalso
      cases e with
      | key k =>
        cases ob <;> simp [enter] at h
      | idx i =>
        cases ob with
        | true => simp [enter] at h
        | false =>
          simp only [enter] at h
          split at h
          · cases h
          · simp only [Option.map_eq_some_iff] at h
            obtain ⟨_, _, h2⟩ := h
            simp at h2
          · split at h
            · cases h
            · simp at h

theorem enter_kidIds (e : PE) (v : T) (cell o fo) (h : enter e v = some (cell, o, fo)) :
    kidIds v = idsK fo.pre ++ fo.child.ids ++ idsK fo.post := by
  have h1 := enter_ids e v cell o fo h
  have h2 := ids_root_kid v
  rw [enter_root e v cell o fo h] at h2
  cases cell with
  | none => simpa [h2] using h1
  | some ic =>
    obtain ⟨id, c⟩ := ic
    rw [h2] at h1
    simpa using h1

theorem resolve_beyond_ge (i : Int) (len i' : Nat) (h : resolve i len = .beyond i') : len ≤ i' := by
  unfold resolve at h
  split at h
  · split at h <;> cases h
  · split at h
    · cases h
    · simp only [Res.beyond.injEq] at h
      omega

/-- an array whose capacity is its length (a view) keeps its length when written in place -/
theorem enter_len (e : PE) (v : T) (cell o fo) (h : enter e v = some (cell, o, fo)) (hfit : fo.fits = true) :
    ∀ id c ks, v = .node id false c ks → c = ks.length → fo.pre.length + 1 + fo.post.length = ks.length := by
  intro id c ks hv hc
  subst hv
  cases e with
  | key k => simp [enter] at h
  | idx i =>
    simp only [enter] at h
    split at h
    · cases h
    · simp only [Option.map_eq_some_iff] at h
      obtain ⟨⟨pre, x, post⟩, hs, h2⟩ := h
      simp only [Prod.mk.injEq] at h2
      obtain ⟨_, _, rfl⟩ := h2
      obtain ⟨k, hks, _⟩ := splitIdx_eq _ ks pre post x hs
      rw [hks]; simp; omega
    · rename_i i' hr
      split at h
      · cases h
      · simp only [Option.some.injEq, Prod.mk.injEq] at h
        obtain ⟨_, _, rfl⟩ := h
        simp only [decide_eq_true_eq] at hfit
        have := resolve_beyond_ge i ks.length i' hr
        omega

/-- key and index elements: the child `updS` recurses into satisfies `Hyp` again -/
theorem Hyp.child {A f v n} (H : Hyp A f v n) (e : PE) (cell o fo) (he : enter e v = some (cell, o, fo)) :
    Hyp A f fo.child n := by
  have hids := enter_ids e v cell o fo he
  refine ⟨?_, ?_, H.hnA, ?_, H.hn, H.hA⟩
  · intro a ha
    have := H.uniq a ha
    rw [hids] at this
    simp only [List.count_append] at this
    omega
  · have hc : tc A fo.child := by
      rcases (enter_mem e v cell o fo he).2 fo.child (Or.inl rfl) with h | ⟨id, o', c, ks, rfl, x, hx, hxe⟩
      · rw [h]; exact tc_null A
      · rw [← hxe]; exact H.tck x hx
    intro x hx
    cases hch : fo.child with
    | leaf s => rw [hch] at hx; simp [kidsOf] at hx
    | hole => rw [hch] at hx; simp [kidsOf] at hx
    | node id o' c ks =>
      rw [hch] at hx hc
      exact tc_kid hc x hx
  · intro j hj
    exact H.hv j (by rw [hids]; simp [hj])

theorem enter_sibs_tc {A f v n} (H : Hyp A f v n) (e : PE) (cell o fo) (he : enter e v = some (cell, o, fo)) :
    (∀ x ∈ fo.pre, tc A x.2) ∧ (∀ x ∈ fo.post, tc A x.2) := by
  have key : ∀ x ∈ fo.pre ++ fo.post, tc A x.2 := by
    intro x hx
    rcases (enter_mem e v cell o fo he).2 x.2 (Or.inr ⟨x, hx, rfl⟩) with h | ⟨id, o', c, ks, rfl, y, hy, hye⟩
    · rw [h]; exact tc_null A
    · rw [← hye]; exact H.tck y hy
  exact ⟨fun x hx => key x (by simp [hx]), fun x hx => key x (by simp [hx])⟩

/-! ### tree-level `getpath` with slices: one step -/

theorem enter_getpS (e : PE) (v : T) (cell o fo) (he : enter e v = some (cell, o, fo)) (p : PathS) :
    getpS (e.toS :: p) v = getpS p fo.child := by
  cases e with
  | key k =>
    cases v with
    | hole => simp [enter] at he
    | leaf s =>
      cases s <;> simp only [enter, Option.some.injEq, Prod.mk.injEq, reduceCtorEq] at he
      obtain ⟨_, _, rfl⟩ := he
      simp [getpS, PE.toS]
    | node id ob c ks =>
      cases ob with
      | false => simp [enter] at he
      | true =>
        simp only [enter, Option.some.injEq, Prod.mk.injEq] at he
        obtain ⟨_, _, rfl⟩ := he
        simp [getpS, PE.toS]
  | idx i =>
    cases v with
    | hole => simp [enter] at he
    | leaf s =>
      cases s <;> simp only [enter, reduceCtorEq] at he
      split at he
      · split at he
        · cases he
        · simp only [Option.some.injEq, Prod.mk.injEq] at he
          obtain ⟨_, _, rfl⟩ := he
          simp [getpS, PE.toS]
      · cases he
    | node id ob c ks =>
      cases ob with
      | true => simp [enter] at he
      | false =>
        simp only [enter] at he
        simp only [getpS, PE.toS]
        split at he
        · cases he
        · rename_i j hr
          simp only [Option.map_eq_some_iff] at he
          obtain ⟨⟨pre, y, post⟩, hs, h2⟩ := he
          simp only [Prod.mk.injEq] at h2
          obtain ⟨_, _, rfl⟩ := h2
          simp [hr, hs]
        · rename_i i' hr
          split at he
          · cases he
          · simp only [Option.some.injEq, Prod.mk.injEq] at he
            obtain ⟨_, _, rfl⟩ := he
            simp [hr]

theorem endsWithSlice_cons (e : PES) (p : PathS) (hp : p ≠ []) : endsWithSlice (e :: p) = endsWithSlice p := by
  cases p with
  | nil => exact absurd rfl hp
  | cons e' p' => cases e <;> rfl

theorem replG_enter (e : PE) (v : T) (cell o fo) (he : enter e v = some (cell, o, fo)) (p : PathS) :
    ∀ a, a ∈ replG p fo.child → a ∈ replG (e.toS :: p) v := by
  intro a ha
  unfold replG at ha ⊢
  rw [enter_getpS e v cell o fo he p]
  cases hx : getpS p fo.child with
  | none => rw [hx] at ha; simp at ha
  | some x =>
    rw [hx] at ha
    simp only [] at ha ⊢
    by_cases hp : p = []
    · subst hp
      simp only [getpS, Option.some.injEq] at hx
      subst hx
      have : endsWithSlice [e.toS] = false := by cases e <;> rfl
      simpa [this, endsWithSlice] using ha
    · rw [endsWithSlice_cons _ p hp]; exact ha

/-- below the first element, `replG` does not depend on the label and capacity of the array -/
theorem replG_label : ∀ (p : PathS), p ≠ [] → ∀ (l l' c c' : Nat) (ks : Kids),
    replG p (.node l false c ks) = replG p (.node l' false c' ks) := by
  intro p
  induction p with
  | nil => intro h; exact absurd rfl h
  | cons e p ih =>
    intro _ l l' c c' ks
    cases e with
    | key k => simp [replG, getpS]
    | idx i => simp only [replG, getpS]
    | slice s e =>
      by_cases hp : p = []
      · subst hp
        simp [replG, getpS, endsWithSlice, kidIds, kidsOf]
      · have := ih hp l l' (c - (sliceBounds s e ks.length).1) (c' - (sliceBounds s e ks.length).1)
          ((ks.drop (sliceBounds s e ks.length).1).take ((sliceBounds s e ks.length).2 - (sliceBounds s e ks.length).1))
        unfold replG at this ⊢
        simp only [getpS, endsWithSlice_cons _ p hp]
        exact this

/-! ### the base case -/

theorem URes.nil {A f v n} (H : Hyp A f v n) : URes A f [] v n (n, A, f, []) where
  hf := Nat.le_refl _
  hA1 := fun a h => Or.inl h
  keep := fun a h _ => h
  hub := H.hn
  base := fun _ => rfl
  root := fun h => absurd rfl h
  kcnt := fun h => absurd rfl h
  fresh := fun a ha => by
    have : n.ids.count a = 0 := List.count_eq_zero.mpr (fun hm => by have := H.hn a hm; omega)
    simp only []; omega
  logA := by simp
  logne := by simp
  logroot := by simp
  cons := by simp
  tcr := tc_of_disjoint _ _ (fun a ha hA => H.hnA a hA ha)
  live := fun a ha _ => ⟨ha, by
    by_cases hm : a ∈ v.ids
    · exact Or.inr (by simpa [replG, getpS, endsWithSlice] using hm)
    · exact Or.inl hm⟩

/-! ### the key/index step -/

theorem mem_idsK_of_mem {x : Bytes × T} {l : Kids} (hx : x ∈ l) {j : Nat} (hj : j ∈ x.2.ids) : j ∈ idsK l :=
  mem_idsK hx j hj

theorem URes.plugE {A f v n} (H : Hyp A f v n) (e : PE) (p : PathS) (cell o fo)
    (he : enter e v = some (cell, o, fo)) (r : T × List Nat × Nat × Log) (R : URes A f p fo.child n r) :
    URes A f (e.toS :: p) v n (plugE cell o fo r) := by
  have hids := enter_ids e v cell o fo he
  have hkid := enter_kidIds e v cell o fo he
  have hroot := enter_root e v cell o fo he
  have hpre : ∀ j ∈ idsK fo.pre, j < f := fun j hj => H.hv j (by rw [hids]; simp [hj])
  have hpost : ∀ j ∈ idsK fo.post, j < f := fun j hj => H.hv j (by rw [hids]; simp [hj])
  have hcnt := R.cnt
  have hvcount : ∀ a, v.ids.count a = (cellIds cell).count a +
      ((idsK fo.pre).count a + fo.child.ids.count a + (idsK fo.post).count a) := by
    intro a; rw [hids]; simp only [List.count_append]
  obtain ⟨tcpre, tcpost⟩ := enter_sibs_tc H e cell o fo he
  have sibKeep : ∀ j, j ∈ A → (idsK fo.pre).count j + (idsK fo.post).count j > 0 → j ∈ r.2.1 := by
    intro j hj hpos
    apply R.keep j hj
    intro hm
    have := count_pos_of_mem hm
    have := H.uniq j hj
    have := hvcount j
    omega
  have sibLt : ∀ (x : Bytes × T), x ∈ fo.pre ++ fo.post → ∀ j ∈ x.2.ids,
      j < f ∧ (idsK fo.pre).count j + (idsK fo.post).count j > 0 := by
    intro x hx j hj
    rcases List.mem_append.mp hx with hx | hx
    · have hm := mem_idsK_of_mem hx hj
      exact ⟨hpre j hm, by have := count_pos_of_mem hm; omega⟩
    · have hm := mem_idsK_of_mem hx hj
      exact ⟨hpost j hm, by have := count_pos_of_mem hm; omega⟩
  have sibAgree : ∀ (x : Bytes × T), x ∈ fo.pre ++ fo.post → ∀ j ∈ x.2.ids, (j ∈ A ↔ j ∈ r.2.1) := by
    intro x hx j hj
    obtain ⟨hjf, hpos⟩ := sibLt x hx j hj
    constructor
    · intro h; exact sibKeep j h hpos
    · intro h
      rcases R.hA1 j h with h2 | h2
      · exact h2
      · omega
  have consKids : ∀ e' ∈ r.2.2.2, consK e'.1 e'.2 (fo.pre ++ (fo.key, r.1) :: fo.post) := by
    intro e' he'
    obtain ⟨h1, h2⟩ := R.logA e' he'
    have := H.uniq e'.1 h1
    have := hvcount e'.1
    have := count_pos_of_mem h2
    rw [consK_append]
    refine ⟨consK_of_not_mem _ _ _ (not_mem_of_count_zero (by omega)), ?_, consK_of_not_mem _ _ _ (not_mem_of_count_zero (by omega))⟩
    exact R.cons e' he'
  -- a log entry of the recursion never carries the label of the root of `v`
  have logNotRoot : ∀ e' ∈ r.2.2.2, v.root? ≠ some e'.1 := by
    intro e' he' hr'
    obtain ⟨h1, h2⟩ := R.logA e' he'
    rw [hroot] at hr'
    cases cell with
    | none => simp at hr'
    | some ic =>
      obtain ⟨id, c⟩ := ic
      simp only [Option.map_some, Option.some.injEq] at hr'
      subst hr'
      have hu := H.uniq _ h1
      have hc := hvcount e'.1
      have hp := count_pos_of_mem h2
      simp only [cellIds_some, List.count_cons, List.count_nil, beq_self_eq_true, if_true] at hc
      omega
  rcases plugE_cases cell o fo r with ⟨id, c, hcell, hin, hfit, heq⟩ | ⟨c', A2, heq, hA2⟩
  · -- written in place
    rw [heq]
    subst hcell
    have hidv : id ∈ v.ids := by rw [hids]; simp
    have hidf : id < f := H.hv id hidv
    have hidA : id ∈ A := by
      rcases R.hA1 id hin with h | h
      · exact h
      · omega
    have hvroot : v.root? = some id := by rw [hroot]; rfl
    have hidonce : (idsK fo.pre).count id + fo.child.ids.count id + (idsK fo.post).count id = 0 := by
      have := H.uniq id hidA
      have := hvcount id
      simp only [cellIds_some, List.count_cons, List.count_nil, beq_self_eq_true, if_true] at this
      omega
    refine { hf := R.hf, hA1 := R.hA1, keep := ?_, hub := ?_, base := ?_, root := ?_, kcnt := ?_, fresh := ?_,
             logA := ?_, logne := ?_, logroot := ?_, cons := ?_, tcr := ?_, live := ?_ }
    · intro a ha hnv
      apply R.keep a ha
      intro hm; exact hnv (by rw [hids]; simp [hm])
    · intro j hj
      rw [ids_node_plug] at hj
      simp only [List.mem_cons, List.mem_append] at hj
      have := R.hf
      rcases hj with rfl | (hj | hj) | hj
      · show j < r.2.2.1; omega
      · have := hpre j hj; show j < r.2.2.1; omega
      · exact R.hub j hj
      · have := hpost j hj; show j < r.2.2.1; omega
    · intro h; cases h
    · intro _; exact ⟨id, o, c, _, rfl, Or.inl ⟨hvroot, hidA, hin⟩⟩
    · intro _ a ha
      show (kidIds (T.node id o c (fo.pre ++ (fo.key, r.1) :: fo.post))).count a ≤ _
      rw [hkid]
      simp only [kidIds, kidsOf, idsK_append, idsK, List.count_append]
      have := hcnt a ha
      omega
    · intro a ha
      show (T.node id o c (fo.pre ++ (fo.key, r.1) :: fo.post)).ids.count a ≤ 1
      rw [ids_node_plug]
      simp only [List.count_cons, List.count_append]
      rw [count_eq_zero_of_lt hpre ha, count_eq_zero_of_lt hpost ha]
      have := R.fresh a ha
      have : ¬ (id == a) = true := by simp; omega
      simp only [this, Bool.false_eq_true, if_false]; omega
    · intro e' he'
      simp only [List.mem_append, List.mem_singleton] at he'
      rcases he' with he' | rfl
      · exact ⟨(R.logA e' he').1, by rw [hids]; simp [(R.logA e' he').2]⟩
      · exact ⟨hidA, hidv⟩
    · intro e' he'
      simp only [List.mem_append, List.mem_singleton] at he'
      rcases he' with he' | rfl
      · exact R.logne e' he'
      · simp
    · intro e' he' hr'
      simp only [List.mem_append, List.mem_singleton] at he'
      rcases he' with he' | rfl
      · exact absurd hr' (logNotRoot e' he')
      · refine ⟨rfl, hin, ?_⟩
        intro c0 ks0 hv0 hc0
        have := enter_len e v _ o fo he hfit id c0 ks0 hv0 hc0
        simp only [kidsOf, List.length_append, List.length_cons]
        omega
    · intro e' he'
      simp only [List.mem_append, List.mem_singleton] at he'
      rcases he' with he' | rfl
      · refine ⟨?_, consKids e' he'⟩
        intro heq'
        exfalso
        exact logNotRoot e' he' (by rw [hvroot, heq'])
      · refine ⟨fun _ => rfl, ?_⟩
        apply consK_of_not_mem
        have h4 := hcnt id hidf
        have h5 : n.ids.count id = 0 := List.count_eq_zero.mpr (H.hnA id hidA)
        simp only [idsK_append, idsK, List.mem_append, not_or]
        exact ⟨not_mem_of_count_zero (by omega), not_mem_of_count_zero (by omega), not_mem_of_count_zero (by omega)⟩
    · show tc r.2.1 (T.node id o c (fo.pre ++ (fo.key, r.1) :: fo.post))
      simp only [tc]
      refine ⟨fun _ => ?_, fun hnin => absurd hin hnin⟩
      rw [tcK_iff]
      intro x hx
      simp only [List.mem_append, List.mem_cons] at hx
      rcases hx with hx | rfl | hx
      · exact tc_congr A _ x.2 (sibAgree x (by simp [hx])) (tcpre x hx)
      · exact R.tcr
      · exact tc_congr A _ x.2 (sibAgree x (by simp [hx])) (tcpost x hx)
    · intro a ha hnot
      rw [ids_node_plug] at hnot
      simp only [List.mem_cons, List.mem_append, not_or] at hnot
      obtain ⟨h0, ⟨h1, h2⟩, h3⟩ := hnot
      obtain ⟨g1, g2⟩ := R.live a ha h2
      refine ⟨g1, ?_⟩
      rcases g2 with g2 | g2
      · left
        rw [hids]
        simp only [cellIds_some, List.mem_append, List.mem_singleton, not_or]
        exact ⟨h0, ⟨h1, g2⟩, h3⟩
      · exact Or.inr (replG_enter e v _ o fo he p a g2)
  · -- a fresh registered copy
    rw [heq]
    have hA2sub : ∀ a ∈ A2, a ∈ r.2.1 := by
      rcases hA2 with ⟨hEq, _⟩ | ⟨id, c, _, _, hEq⟩
      · rw [hEq]; exact fun a h => h
      · rw [hEq]; exact fun a h => (List.mem_filter.mp h).1
    have hA2keep : ∀ a ∈ r.2.1, (∀ id c, cell = some (id, c) → a ≠ id) → a ∈ A2 := by
      intro a ha hne
      rcases hA2 with ⟨hEq, _⟩ | ⟨id, c, hc, _, hEq⟩
      · rw [hEq]; exact ha
      · rw [hEq]; exact List.mem_filter.mpr ⟨ha, by simpa using hne id c hc⟩
    have hA2not : ∀ id c, cell = some (id, c) → id ∉ A2 := by
      intro id c hc
      rcases hA2 with ⟨hEq, hnin⟩ | ⟨id', c'', hc', _, hEq⟩
      · rw [hEq]; exact hnin id c hc
      · rw [hc] at hc'
        simp only [Option.some.injEq, Prod.mk.injEq] at hc'
        obtain ⟨rfl, rfl⟩ := hc'
        rw [hEq]
        intro hm
        have := (List.mem_filter.mp hm).2
        simp at this
    have rootOnce : ∀ id c, cell = some (id, c) → id ∈ A →
        (idsK fo.pre).count id + fo.child.ids.count id + (idsK fo.post).count id = 0 := by
      intro id c hc hidA
      have := H.uniq id hidA
      have := hvcount id
      rw [hc] at this
      simp only [cellIds_some, List.count_cons, List.count_nil, beq_self_eq_true, if_true] at this
      omega
    refine { hf := Nat.le_succ_of_le R.hf, hA1 := ?_, keep := ?_, hub := ?_, base := ?_, root := ?_, kcnt := ?_,
             fresh := ?_, logA := ?_, logne := R.logne, logroot := ?_, cons := ?_, tcr := ?_, live := ?_ }
    · intro a ha
      rcases List.mem_cons.mp ha with rfl | ha
      · exact Or.inr ⟨R.hf, Nat.lt_succ_self _⟩
      · rcases R.hA1 a (hA2sub a ha) with h | h
        · exact Or.inl h
        · exact Or.inr ⟨h.1, Nat.lt_succ_of_lt h.2⟩
    · intro a ha hnv
      apply List.mem_cons_of_mem
      apply hA2keep a (R.keep a ha (fun hm => hnv (by rw [hids]; simp [hm])))
      intro id c hc heq'
      exact hnv (by rw [hids, hc, heq']; simp)
    · intro j hj
      rw [ids_node_plug] at hj
      simp only [List.mem_cons, List.mem_append] at hj
      have := R.hf
      rcases hj with rfl | (hj | hj) | hj
      · exact Nat.lt_succ_self _
      · have := hpre j hj; show j < r.2.2.1 + 1; omega
      · have := R.hub j hj; show j < r.2.2.1 + 1; omega
      · have := hpost j hj; show j < r.2.2.1 + 1; omega
    · intro h; cases h
    · intro _
      exact ⟨r.2.2.1, o, c', _, rfl, Or.inr ⟨R.hf, Nat.lt_succ_self _, ⟨fun _ => by simp, fun _ => List.mem_cons_self⟩⟩⟩
    · intro _ a ha
      show (kidIds (T.node r.2.2.1 o c' (fo.pre ++ (fo.key, r.1) :: fo.post))).count a ≤ _
      rw [hkid]
      simp only [kidIds, kidsOf, idsK_append, idsK, List.count_append]
      have := hcnt a ha
      omega
    · intro a ha
      show (T.node r.2.2.1 o c' (fo.pre ++ (fo.key, r.1) :: fo.post)).ids.count a ≤ 1
      rw [ids_node_plug]
      simp only [List.count_cons, List.count_append]
      rw [count_eq_zero_of_lt hpre ha, count_eq_zero_of_lt hpost ha]
      by_cases hfa : r.2.2.1 = a
      · subst hfa
        rw [count_eq_zero_of_lt R.hub (Nat.le_refl _)]
        simp
      · have := R.fresh a ha
        have : ¬ (r.2.2.1 == a) = true := by simpa using hfa
        simp only [this, Bool.false_eq_true, if_false]; omega
    · intro e' he'
      exact ⟨(R.logA e' he').1, by rw [hids]; simp [(R.logA e' he').2]⟩
    · intro e' he' hr'
      exact absurd hr' (logNotRoot e' he')
    · intro e' he'
      refine ⟨?_, consKids e' he'⟩
      intro heq'
      have := H.hA e'.1 (R.logA e' he').1
      have := R.hf
      omega
    · show tc (r.2.2.1 :: A2) (T.node r.2.2.1 o c' (fo.pre ++ (fo.key, r.1) :: fo.post))
      simp only [tc]
      refine ⟨fun _ => ?_, fun hnin => absurd (List.mem_cons_self) hnin⟩
      have a2 : ∀ j, j < r.2.2.1 → (j ∈ r.2.1 ∧ (∀ id c, cell = some (id, c) → j ≠ id) → j ∈ r.2.2.1 :: A2) ∧
          (j ∈ r.2.2.1 :: A2 → j ∈ r.2.1) := by
        intro j hj
        constructor
        · intro ⟨h1, h2⟩; exact List.mem_cons_of_mem _ (hA2keep j h1 h2)
        · intro hm
          rcases List.mem_cons.mp hm with rfl | hm
          · omega
          · exact hA2sub j hm
      have sib : ∀ (x : Bytes × T), x ∈ fo.pre ++ fo.post → tc A x.2 → tc (r.2.2.1 :: A2) x.2 := by
        intro x hx htx
        refine tc_congr A _ x.2 ?_ htx
        intro j hj
        obtain ⟨hjf, hpos⟩ := sibLt x hx j hj
        have := R.hf
        constructor
        · intro hm
          refine (a2 j (by omega)).1 ⟨(sibAgree x hx j hj).mp hm, ?_⟩
          intro id c hc heq'
          subst heq'
          have := rootOnce j c hc hm
          omega
        · intro hm
          exact (sibAgree x hx j hj).mpr ((a2 j (by omega)).2 hm)
      rw [tcK_iff]
      intro x hx
      simp only [List.mem_append, List.mem_cons] at hx
      rcases hx with hx | rfl | hx
      · exact sib x (by simp [hx]) (tcpre x hx)
      · refine tc_congr r.2.1 (r.2.2.1 :: A2) r.1 ?_ R.tcr
        intro j hj
        have hjf1 := R.hub j hj
        constructor
        · intro hm
          refine (a2 j hjf1).1 ⟨hm, ?_⟩
          intro id c hc heq'
          subst heq'
          rcases R.hA1 j hm with h2 | h2
          · have h0 := rootOnce j c hc h2
            have := hcnt j (H.hA j h2)
            have : n.ids.count j = 0 := List.count_eq_zero.mpr (H.hnA j h2)
            have := count_pos_of_mem hj
            omega
          · have : j ∈ v.ids := by rw [hids, hc]; simp
            have := H.hv j this
            omega
        · exact (a2 j hjf1).2
      · exact sib x (by simp [hx]) (tcpost x hx)
    · intro a ha hnot
      rw [ids_node_plug] at hnot
      simp only [List.mem_cons, List.mem_append, not_or] at hnot
      obtain ⟨h0, ⟨h1, h2⟩, h3⟩ := hnot
      rcases List.mem_cons.mp ha with rfl | ha2
      · exact absurd rfl h0
      · obtain ⟨g1, g2⟩ := R.live a (hA2sub a ha2) h2
        refine ⟨g1, ?_⟩
        rcases g2 with g2 | g2
        · left
          rw [hids]
          simp only [List.mem_append, not_or]
          refine ⟨?_, ⟨h1, g2⟩, h3⟩
          intro hc
          cases hcell : cell with
          | none => rw [hcell] at hc; simp at hc
          | some ic =>
            obtain ⟨id, c⟩ := ic
            rw [hcell] at hc
            simp only [cellIds_some, List.mem_singleton] at hc
            subst hc
            exact hA2not a c hcell ha2
        · exact Or.inr (replG_enter e v _ o fo he p a g2)

/-! ### the slice step -/

theorem not_mem_freeU (u : T) (uks : Kids) (A : List Nat) (l : Nat) (hl : u.root? = some l) (hne : uks ≠ []) :
    l ∉ freeU false u uks A := by
  unfold freeU
  have : uks.isEmpty = false := by cases uks <;> simp_all
  simp only [this, Bool.or_false, Bool.false_eq_true, if_false, hl]
  intro hm
  have := (List.mem_filter.mp hm).2
  simp at this

theorem freeU_same (u : T) (uks : Kids) (A : List Nat) : freeU true u uks A = A := by
  unfold freeU; simp

theorem enterSlice_ids (s e : Option Int) (v : T) (sf : SFocus) (h : enterSlice s e v = some sf) :
    v.root? = sf.cell.map (·.1) ∧ kidIds v = idsK sf.pre ++ idsK sf.mid ++ idsK sf.post ∧
    kidsOf v = sf.pre ++ sf.mid ++ sf.post ∧
    (∀ id c, sf.cell = some (id, c) → v = .node id false c (sf.pre ++ sf.mid ++ sf.post)) := by
  rcases enterSlice_cases s e v sf h with ⟨rfl, rfl⟩ | ⟨id, c, ks, rfl, hc, hks, _, _, _⟩
  · exact ⟨rfl, rfl, rfl, fun id c h => by cases h⟩
  · refine ⟨by rw [hc]; rfl, ?_, hks, ?_⟩
    · simp only [kidIds, kidsOf]; rw [hks, idsK_append, idsK_append]
    · intro id' c' h'
      rw [hc] at h'
      simp only [Option.some.injEq, Prod.mk.injEq] at h'
      obtain ⟨rfl, rfl⟩ := h'
      rw [← hks]

theorem view_ids (sf : SFocus) (f : Nat) : (view sf f).ids = (viewLabel sf f).1 :: idsK sf.mid := rfl
theorem view_kidIds (sf : SFocus) (f : Nat) : kidIds (view sf f) = idsK sf.mid := rfl
theorem view_root (sf : SFocus) (f : Nat) : (view sf f).root? = some (viewLabel sf f).1 := rfl

/-- the view `updS` recurses into satisfies `Hyp` again, for the counter after the view's label -/
theorem Hyp.view {A f v n} (H : Hyp A f v n) (s e : Option Int) (sf : SFocus) (he : enterSlice s e v = some sf) :
    Hyp A (viewLabel sf f).2 (view sf f) n := by
  obtain ⟨hroot, hkid, hkids, hnode⟩ := enterSlice_ids s e v sf he
  have hf0 := viewLabel_ge sf f
  have hmid : ∀ j ∈ idsK sf.mid, j < f := by
    intro j hj
    apply H.hv j
    rw [ids_root_kid, hkid]; simp [hj]
  refine ⟨?_, ?_, H.hnA, ?_, fun j hj => by have := H.hn j hj; omega, fun a ha => by have := H.hA a ha; omega⟩
  · intro a ha
    have h1 := H.uniq a ha
    rw [count_root_kid, hkid] at h1
    simp only [List.count_append] at h1
    rw [view_ids]
    simp only [List.count_cons]
    rcases viewLabel_cases sf f with ⟨_, id, c, hc, hvl, _⟩ | ⟨hvl, _, _⟩
    · rw [hvl]
      rw [hroot, hc] at h1
      simp only [Option.map_some, Option.some.injEq] at h1
      by_cases hia : id = a
      · subst hia; simp only [beq_self_eq_true, if_true] at h1 ⊢; omega
      · have : ¬ (id == a) = true := by simpa using hia
        simp only [this, Bool.false_eq_true, if_false]; omega
    · rw [hvl]
      have : ¬ (f == a) = true := by simp; have := H.hA a ha; omega
      simp only [this, Bool.false_eq_true, if_false]; omega
  · intro x hx
    apply H.tck x
    rw [hkids]
    simp only [Heap.view, kidsOf] at hx
    simp [hx]
  · intro j hj
    rw [view_ids] at hj
    rcases List.mem_cons.mp hj with rfl | hj
    · rcases viewLabel_cases sf f with ⟨h0, id, c, hc, hvl, _⟩ | ⟨hvl, h0, _⟩
      · rw [hvl, h0]
        apply H.hv id
        rw [hnode id c hc]; simp [T.ids]
      · rw [hvl, h0]; exact Nat.lt_succ_self _
    · have := hmid j hj; omega

theorem replG_slice (s e : Option Int) (p : PathS) (id c : Nat) (ks : Kids) (sf : SFocus)
    (he : enterSlice s e (.node id false c ks) = some sf) (l c' : Nat) :
    (p = [] → replG [.slice s e] (.node id false c ks) = idsK sf.mid) ∧
    (p ≠ [] → replG (.slice s e :: p) (.node id false c ks) = replG p (.node l false c' sf.mid)) := by
  simp only [enterSlice, Option.some.injEq] at he
  subst he
  constructor
  · intro _; simp [replG, getpS, endsWithSlice, kidIds, kidsOf]
  · intro hp
    have := replG_label p hp id l (c - (sliceBounds s e ks.length).1) c'
      ((ks.drop (sliceBounds s e ks.length).1).take ((sliceBounds s e ks.length).2 - (sliceBounds s e ks.length).1))
    rw [← this]
    unfold replG
    simp only [getpS, endsWithSlice_cons _ p hp]

end Gojq.Heap

/-
  Helper lemmas for Props/C02Path.lean, part 6: `nice`, a decidable sufficient condition for the
  hypothesis `Good` of the invariant (objects have distinct sorted keys, arrays are indexable by a
  Go `int`), preserved by every navigation step.  Core Lean only.
-/
import Gojq.Proofs.SpecPathNav
namespace Gojq.C02
open Gojq Gojq.Spec

/-! ### a decidable sufficient condition for `Good` -/

mutual
  /-- objects have strictly increasing keys (`JV.wf`) and arrays are no longer than a Go `int`
      can index — everywhere in the value -/
  def nice : JV → Bool
    | .arr xs => decide ((xs.length : Int) ≤ maxInt) && niceList xs
    | .obj kvs => kvSorted kvs && niceKvs kvs
    | _ => true
  def niceList : List JV → Bool
    | [] => true
    | x :: xs => nice x && niceList xs
  def niceKvs : List (Bytes × JV) → Bool
    | [] => true
    | (_, x) :: xs => nice x && niceKvs xs
end

theorem niceList_iff : ∀ (xs : List JV), niceList xs = true ↔ ∀ x ∈ xs, nice x = true
  | [] => by simp [niceList]
  | x :: xs => by simp [niceList, niceList_iff xs]

theorem niceKvs_iff : ∀ (kvs : List (Bytes × JV)), niceKvs kvs = true ↔ ∀ kx ∈ kvs, nice kx.2 = true
  | [] => by simp [niceKvs]
  | (k, x) :: kvs => by simp [niceKvs, niceKvs_iff kvs]

theorem nice_arr {xs : List JV} : nice (.arr xs) = true ↔ (xs.length : Int) ≤ maxInt ∧ ∀ x ∈ xs, nice x = true := by
  simp [nice, niceList_iff]

theorem nice_obj {kvs : List (Bytes × JV)} :
    nice (.obj kvs) = true ↔ kvSorted kvs = true ∧ ∀ kx ∈ kvs, nice kx.2 = true := by
  simp [nice, niceKvs_iff]

/-! `Bytes.cmp` is a strict order (as in Proofs/HeapAlgebra.lean; repeated to keep this file
    independent of the heap development) -/

theorem bcmp_refl : ∀ a : Bytes, Bytes.cmp a a = .eq
  | [] => rfl
  | a :: as => by
    simp only [Bytes.cmp]
    have : ¬ a < a := UInt8.lt_irrefl a
    simp [this, bcmp_refl as]

theorem bcmp_lt_trans : ∀ a b c : Bytes, Bytes.cmp a b = .lt → Bytes.cmp b c = .lt → Bytes.cmp a c = .lt
  | [], [], _, h, _ => by simp [Bytes.cmp] at h
  | [], _ :: _, [], _, h => by simp [Bytes.cmp] at h
  | [], _ :: _, _ :: _, _, _ => by simp [Bytes.cmp]
  | _ :: _, [], _, h, _ => by simp [Bytes.cmp] at h
  | _ :: _, _ :: _, [], _, h => by simp [Bytes.cmp] at h
  | a :: as, b :: bs, c :: cs, h1, h2 => by
    simp only [Bytes.cmp] at h1 h2 ⊢
    by_cases hab : a < b
    · by_cases hbc : b < c
      · simp [UInt8.lt_trans hab hbc]
      · simp only [hbc, if_false] at h2
        by_cases hcb : c < b
        · simp [hcb] at h2
        · have : b = c := UInt8.le_antisymm (UInt8.not_lt.mp hcb) (UInt8.not_lt.mp hbc)
          subst this; simp [hab]
    · simp only [hab, if_false] at h1
      by_cases hba : b < a
      · simp [hba] at h1
      · simp only [hba, if_false] at h1
        have : a = b := UInt8.le_antisymm (UInt8.not_lt.mp hba) (UInt8.not_lt.mp hab)
        subst this
        by_cases hbc : a < c
        · simp [hbc]
        · simp only [hbc, if_false] at h2 ⊢
          by_cases hcb : c < a
          · simp [hcb] at h2
          · simp only [hcb, if_false] at h2 ⊢
            exact bcmp_lt_trans as bs cs h1 h2

/-- in a sorted association list every key after the head is larger than the head -/
theorem kvSorted_head_lt : ∀ (k : Bytes) (v : JV) (rest : List (Bytes × JV)), kvSorted ((k, v) :: rest) = true →
    ∀ kx ∈ rest, Bytes.cmp k kx.1 = .lt
  | k, v, [], _, kx, h => by cases h
  | k, v, (k', v') :: rest, hs, kx, hmem => by
    simp only [kvSorted, Bool.and_eq_true, Bytes.lt, beq_iff_eq] at hs
    rcases List.mem_cons.mp hmem with rfl | hmem
    · exact hs.1
    · exact bcmp_lt_trans _ _ _ hs.1 (kvSorted_head_lt k' v' rest hs.2 kx hmem)

theorem kvSorted_tail : ∀ (k : Bytes) (v : JV) (rest : List (Bytes × JV)), kvSorted ((k, v) :: rest) = true →
    kvSorted rest = true
  | _, _, [], _ => rfl
  | _, _, (_, _) :: _, hs => by
    simp only [kvSorted, Bool.and_eq_true] at hs
    exact hs.2

/-- distinct keys: every binding of a sorted association list is the one `kvLookup` finds -/
theorem kvLookup_of_mem : ∀ (kvs : List (Bytes × JV)), kvSorted kvs = true →
    ∀ k x, (k, x) ∈ kvs → kvLookup k kvs = some x
  | [], _, k, x, h => by cases h
  | (k', v') :: rest, hs, k, x, hmem => by
    rcases List.mem_cons.mp hmem with h | hmem
    · simp only [Prod.mk.injEq] at h
      obtain ⟨rfl, rfl⟩ := h
      simp [kvLookup]
    · have hlt := kvSorted_head_lt k' v' rest hs (k, x) hmem
      have hne : (k == k') = false := by
        cases hkk : k == k' with
        | false => rfl
        | true =>
          have : k = k' := eq_of_beq hkk
          subst this
          rw [bcmp_refl] at hlt; cases hlt
      simp only [kvLookup, hne]
      exact kvLookup_of_mem rest (kvSorted_tail k' v' rest hs) k x hmem

theorem shallow_of_nice {v : JV} (h : nice v = true) : Shallow v := by
  cases v with
  | arr xs => exact (nice_arr.mp h).1
  | obj kvs => exact kvLookup_of_mem kvs (nice_obj.mp h).1
  | _ => exact True.intro

theorem kvLookup_mem : ∀ (kvs : List (Bytes × JV)) (k : Bytes) (x : JV), kvLookup k kvs = some x → (k, x) ∈ kvs
  | [], _, _, h => by cases h
  | (k', v') :: rest, k, x, h => by
    simp only [kvLookup] at h
    split at h
    · rename_i hk
      simp only [Option.some.injEq] at h
      rw [eq_of_beq hk, h]; exact List.mem_cons_self ..
    · exact List.mem_cons_of_mem _ (kvLookup_mem rest k x h)

theorem nice_getD {xs : List JV} (h : ∀ x ∈ xs, nice x = true) (i : Nat) : nice (xs.getD i .null) = true := by
  rw [List.getD_eq_getElem?_getD]
  cases hi : xs[i]? with
  | none => rfl
  | some x => exact h x (List.mem_of_getElem? hi)

theorem indicesList_length (vs xs : List JV) : (indicesList vs xs).length ≤ vs.length := by
  unfold indicesList
  split
  · simp
  · rename_i hne
    refine Nat.le_trans (List.length_filter_le _ _) ?_
    simp only [List.length_range]
    have : 0 < xs.length := by
      cases xs with
      | nil => simp at hne
      | cons _ _ => simp
    omega

theorem nice_funcSlice {v e s w : JV} (hv : nice v = true) (h : funcSlice v e s = .ok w) : nice w = true := by
  cases v with
  | null => simp only [funcSlice] at h; cases h; rfl
  | arr vs =>
    simp only [funcSlice, sliceArr] at h
    split at h
    · cases h
    · simp only [Except.ok.injEq] at h
      subst h
      obtain ⟨hlen, hall⟩ := nice_arr.mp hv
      refine nice_arr.mpr ⟨?_, ?_⟩
      · have h1 : ∀ a b : Nat, ((vs.drop a).take b).length ≤ vs.length := by
          intro a b; rw [List.length_take, List.length_drop]; omega
        have := h1 (‹Nat × Nat›).1 ((‹Nat × Nat›).2 - (‹Nat × Nat›).1)
        omega
      · intro x hx
        exact hall x (List.mem_of_mem_drop (List.mem_of_mem_take hx))
  | str b =>
    simp only [funcSlice, sliceStr] at h
    split at h
    · cases h
    · simp only [Except.ok.injEq] at h
      subst h; rfl
  | bool _ => simp [funcSlice, throw, throwThe, MonadExceptOf.throw] at h
  | num _ => simp [funcSlice, throw, throwThe, MonadExceptOf.throw] at h
  | obj _ => simp [funcSlice, throw, throwThe, MonadExceptOf.throw] at h

/-- one navigation step stays inside nice values -/
theorem nice_funcIndex2 {v k w : JV} (hv : nice v = true) (h : funcIndex2 v k = .ok w) : nice w = true := by
  cases k with
  | str key =>
    cases v with
    | null => simp only [funcIndex2] at h; cases h; rfl
    | obj kvs =>
      simp only [funcIndex2] at h
      cases h
      cases hl : kvLookup key kvs with
      | none => rfl
      | some x => exact (nice_obj.mp hv).2 (key, x) (kvLookup_mem kvs key x hl)
    | bool _ => cases h
    | num _ => cases h
    | str _ => cases h
    | arr _ => cases h
  | num n =>
    cases v with
    | null => simp only [funcIndex2] at h; cases h; rfl
    | arr vs =>
      simp only [funcIndex2] at h
      cases h
      unfold indexArr
      simp only
      split
      · exact nice_getD (nice_arr.mp hv).2 _
      · rfl
    | str b =>
      simp only [funcIndex2] at h
      cases h
      unfold indexStr
      simp only
      split <;> rfl
    | bool _ => cases h
    | num _ => cases h
    | obj _ => cases h
  | arr xs =>
    cases v with
    | null => simp only [funcIndex2] at h; cases h; rfl
    | arr vs =>
      simp only [funcIndex2] at h
      cases h
      refine nice_arr.mpr ⟨?_, ?_⟩
      · have := indicesList_length vs xs
        have hlen := (nice_arr.mp hv).1
        simp only [indicesArr, List.length_map]
        omega
      · intro x hx
        simp only [indicesArr, List.mem_map] at hx
        obtain ⟨i, _, rfl⟩ := hx
        rfl
    | bool _ => cases h
    | num _ => cases h
    | str _ => cases h
    | obj _ => cases h
  | obj kvs =>
    cases v with
    | null => simp only [funcIndex2] at h; cases h; rfl
    | _ =>
      simp only [funcIndex2] at h
      split at h
      · exact nice_funcSlice hv h
      · cases h
  | null => cases v <;> cases h
  | bool _ => cases v <;> cases h

/-- every value reachable from a nice value is nice -/
theorem nice_nav : ∀ (p : List JV) {v w : JV}, nice v = true → nav v p = .ok w → nice w = true
  | [], v, w, hv, h => by
    simp only [nav_nil, Except.ok.injEq] at h; subst h; exact hv
  | k :: rest, v, w, hv, h => by
    rw [nav_cons] at h
    cases h1 : funcIndex2 v k with
    | error e => rw [h1] at h; cases h
    | ok u =>
      rw [h1] at h
      exact nice_nav rest (nice_funcIndex2 hv h1) h

/-- `nice` (decidable) implies `Good` -/
theorem good_of_nice {v : JV} (h : nice v = true) : Good v :=
  fun p _ hw => shallow_of_nice (nice_nav p h hw)

end Gojq.C02

/-
  Helper lemmas for C16: the stream machine of Model/Cli/Stream.lean emits exactly the
  `tostream` events (complete documents) or a prefix of them followed by an error (cut
  documents).  Big-step relations `Emits` (segment of a run) and `Runs` (run to its end),
  tied to the executable `runAll` by `runAll_of_Runs`.
-/
import Gojq.Model.Cli.Stream
namespace Gojq.Stream
open Gojq

/-- states in which a value may start -/
def Good (t : St) : Prop := t = .top ∨ t = .arrStart ∨ t = .arrValue ∨ t = .objKey

inductive Pos where
  | boundary (s : S) (toks : List Tok)      -- between two calls of `next`
  | inloop (s : S) (toks : List Tok)        -- inside a call, prologue done

/-- successive calls of `next` emit `es` and stop at a call boundary `(s', toks')` -/
inductive Emits (me : Bool) (term : Term) : Pos → List JV → S → List Tok → Prop where
  | nil {s toks} : Emits me term (.boundary s toks) [] s toks
  | call {s toks s1 es s' toks'} : prologue s (more me toks) = some s1 →
      Emits me term (.inloop s1 toks) es s' toks' → Emits me term (.boundary s toks) es s' toks'
  | ev {s toks e s1 rest es s' toks'} : loop term s toks = .ev e s1 rest →
      Emits me term (.boundary s1 rest) es s' toks' → Emits me term (.inloop s toks) (e :: es) s' toks'

/-- successive calls of `next` emit `es` and then the run ends with `f` -/
inductive Runs (me : Bool) (term : Term) : Pos → List JV → Fin → Prop where
  | ppanic {s toks} : prologue s (more me toks) = none → Runs me term (.boundary s toks) [] .panic
  | call {s toks s1 es f} : prologue s (more me toks) = some s1 →
      Runs me term (.inloop s1 toks) es f → Runs me term (.boundary s toks) es f
  | ev {s toks e s1 rest es f} : loop term s toks = .ev e s1 rest →
      Runs me term (.boundary s1 rest) es f → Runs me term (.inloop s toks) (e :: es) f
  | eof {s toks} : loop term s toks = .eof → Runs me term (.inloop s toks) [] .eof
  | error {s toks} : loop term s toks = .error → Runs me term (.inloop s toks) [] .error
  | panic {s toks} : loop term s toks = .panic → Runs me term (.inloop s toks) [] .panic

variable {me : Bool} {term : Term}

theorem Emits.congr {s toks s2 toks2 es s' toks'} (h : loop term s toks = loop term s2 toks2)
    (e : Emits me term (.inloop s2 toks2) es s' toks') : Emits me term (.inloop s toks) es s' toks' := by
  cases e with
  | ev hl he => exact .ev (h.trans hl) he

theorem Runs.congr {s toks s2 toks2 es f} (h : loop term s toks = loop term s2 toks2)
    (e : Runs me term (.inloop s2 toks2) es f) : Runs me term (.inloop s toks) es f := by
  cases e with
  | ev hl he => exact .ev (h.trans hl) he
  | eof hl => exact .eof (h.trans hl)
  | error hl => exact .error (h.trans hl)
  | panic hl => exact .panic (h.trans hl)

theorem Emits.append {p es1 s1 t1 es2 s2 t2} (a : Emits me term p es1 s1 t1)
    (b : Emits me term (.boundary s1 t1) es2 s2 t2) : Emits me term p (es1 ++ es2) s2 t2 := by
  induction a with
  | nil => simpa using b
  | call hp _ ih => exact .call hp (ih b)
  | ev hl _ ih => exact .ev hl (ih b)

theorem Emits.thenRuns {p es1 s1 t1 es2 f} (a : Emits me term p es1 s1 t1)
    (b : Runs me term (.boundary s1 t1) es2 f) : Runs me term p (es1 ++ es2) f := by
  induction a with
  | nil => simpa using b
  | call hp _ ih => exact .call hp (ih b)
  | ev hl _ ih => exact .ev hl (ih b)

/-! ### the executable run agrees with `Runs` -/

/-- an event consumes at least one token -/
theorem loop_consumes : ∀ (toks : List Tok) (s : S) {e s1 rest}, loop term s toks = .ev e s1 rest →
    rest.length < toks.length
  | [], s, e, s1, rest, h => by
    cases term <;> simp only [loop] at h
    · split at h <;> cases h
    · cases h
  | t :: tl, s, e, s1, rest, h => by
    have ih := fun s' => @loop_consumes tl s' e s1 rest
    rcases s with ⟨rp, sts⟩
    rcases sts with _ | ⟨st, sts⟩
    · simp [loop] at h
    · cases t with
      | lbrack => simp only [loop] at h; have := ih _ h; simp; omega
      | lbrace => simp only [loop] at h; have := ih _ h; simp; omega
      | rbrack =>
        simp only [loop] at h
        split at h
        · split at h
          · cases h
          · cases h; simp
        · cases h; simp
      | rbrace =>
        simp only [loop] at h
        split at h <;> (cases h; simp)
      | atom v =>
        cases st <;> simp only [loop] at h <;>
          first
          | (cases h; simp)
          | (have := ih _ h; simp; omega)

/-- body of `runAll` after the prologue -/
def runLoop (me : Bool) (term : Term) (fuel : Nat) (s1 : S) (toks : List Tok) : List JV × Fin :=
  match loop term s1 toks with
  | .ev e s' rest => let r := runAll me term fuel s' rest; (e :: r.1, r.2)
  | .eof => ([], .eof)
  | .error => ([], .error)
  | .panic => ([], .panic)

theorem runAll_succ (fuel : Nat) (s : S) (toks : List Tok) :
    runAll me term (fuel + 1) s toks =
      match prologue s (more me toks) with
      | none => ([], .panic)
      | some s1 => runLoop me term fuel s1 toks := by
  simp only [runAll, next, runLoop]
  cases prologue s (more me toks) <;> rfl

theorem runAll_of_Runs' {p es f} (h : Runs me term p es f) :
    match p with
    | .boundary s toks => ∀ fuel, toks.length < fuel → runAll me term fuel s toks = (es, f)
    | .inloop s toks => ∀ fuel, toks.length ≤ fuel → runLoop me term fuel s toks = (es, f) := by
  induction h with
  | ppanic hp =>
    intro fuel hf
    obtain ⟨n, rfl⟩ : ∃ n, fuel = n + 1 := ⟨fuel - 1, by omega⟩
    rw [runAll_succ, hp]
  | call hp _ ih =>
    intro fuel hf
    obtain ⟨n, rfl⟩ : ∃ n, fuel = n + 1 := ⟨fuel - 1, by omega⟩
    rw [runAll_succ, hp]
    exact ih n (by omega)
  | ev hl _ ih =>
    intro fuel hf
    have hc := loop_consumes _ _ hl
    simp only [runLoop, hl]
    rw [ih fuel (by omega)]
  | eof hl => intro fuel _; simp only [runLoop, hl]
  | error hl => intro fuel _; simp only [runLoop, hl]
  | panic hl => intro fuel _; simp only [runLoop, hl]

/-- a derivation of `Runs` from the initial state is what the executable `run` computes -/
theorem run_of_Runs {toks es f} (h : Runs me term (.boundary init toks) es f) :
    run me term toks = (es, f) :=
  runAll_of_Runs' h _ (Nat.lt_succ_self _)

/-! ### complete documents -/

theorem tokens_cons (v : JV) : ∃ tk tl, tokens v = tk :: tl ∧ ∀ (m : Bool) (l : List Tok), more m (tk :: l) = true := by
  cases v <;> simp [tokens, more]

theorem more_tokens (m : Bool) (v : JV) (rest : List Tok) : more m (tokens v ++ rest) = true := by
  obtain ⟨tk, tl, h, hm⟩ := tokens_cons v
  rw [h]; exact hm m _

theorem idx_succ (i : Nat) : JV.num (Num.int ((i : Int) + 1)) = idxJV (i + 1) := by
  simp [idxJV]

/-- a scalar token in a state where a value may start -/
theorem loop_atom {rp : List JV} {t : St} {r : List St} {rest : List Tok} (v : JV) (hg : Good t) :
    loop term ⟨rp, t :: r⟩ (.atom v :: rest) = .ev (leafEv rp v) ⟨rp, adv t :: r⟩ rest := by
  rcases hg with rfl | rfl | rfl | rfl <;> simp [loop, adv]

theorem popEnd_adv {rp : List JV} {t : St} {r : List St} (hg : Good t) :
    popEnd ⟨rp, adv t :: r⟩ = some ⟨rp, adv t :: r⟩ := by
  rcases hg with rfl | rfl | rfl | rfl <;> simp [popEnd, adv]

mutual
/-- a value starting inside the loop at element path `rp` -/
theorem value_emits : ∀ (v : JV) (rp : List JV) (t : St) (r : List St) (rest : List Tok), Good t →
    ∃ so, Emits me term (.inloop ⟨rp, t :: r⟩ (tokens v ++ rest)) (spec rp v) so rest ∧
      popEnd so = some ⟨rp, adv t :: r⟩
  | .null, rp, t, r, rest, hg =>
    ⟨⟨rp, adv t :: r⟩, .ev (by simpa [tokens] using loop_atom _ hg) .nil, popEnd_adv hg⟩
  | .bool b, rp, t, r, rest, hg =>
    ⟨⟨rp, adv t :: r⟩, .ev (by simpa [tokens] using loop_atom _ hg) .nil, popEnd_adv hg⟩
  | .num n, rp, t, r, rest, hg =>
    ⟨⟨rp, adv t :: r⟩, .ev (by simpa [tokens] using loop_atom _ hg) .nil, popEnd_adv hg⟩
  | .str s, rp, t, r, rest, hg =>
    ⟨⟨rp, adv t :: r⟩, .ev (by simpa [tokens] using loop_atom _ hg) .nil, popEnd_adv hg⟩
  | .arr [], rp, t, r, rest, hg => by
    refine ⟨⟨rp, .arrEmptyEnd :: adv t :: r⟩, .ev ?_ .nil, by simp [popEnd]⟩
    simp [tokens, tokensL, loop]
  | .obj [], rp, t, r, rest, hg => by
    refine ⟨⟨rp, .objEmptyEnd :: adv t :: r⟩, .ev ?_ .nil, by simp [popEnd]⟩
    simp [tokens, tokensM, loop]
  | .arr (x :: xs), rp, t, r, rest, hg => by
    obtain ⟨so, he, hp⟩ := list_emits (x :: xs) (by simp) rp 0 .arrStart (adv t :: r) rest (Or.inl rfl)
    refine ⟨so, ?_, hp⟩
    simp only [spec]
    refine Emits.congr ?_ he
    simp [tokens, loop, List.append_assoc]
  | .obj ((k, x) :: kvs), rp, t, r, rest, hg => by
    obtain ⟨so, he, hp⟩ := members_emits ((k, x) :: kvs) (by simp) rp .objStart (adv t :: r) rest (Or.inl rfl)
    refine ⟨so, ?_, hp⟩
    simp only [spec]
    refine Emits.congr ?_ he
    simp [tokens, loop, List.append_assoc]
/-- the elements of a non-empty array from index `i`; `t` is `arrStart` for the first,
    `arrValue` after the prologue moved the index -/
theorem list_emits : ∀ (l : List JV), l ≠ [] → ∀ (rp : List JV) (i : Nat) (t : St) (r : List St) (rest : List Tok),
    (t = .arrStart ∨ t = .arrValue) →
    ∃ so, Emits me term (.inloop ⟨idxJV i :: rp, t :: r⟩ (tokensL l ++ .rbrack :: rest)) (specL rp i l) so rest ∧
      popEnd so = some ⟨rp, r⟩
  | [], h, _, _, _, _, _, _ => absurd rfl h
  | [x], _, rp, i, t, r, rest, ht => by
    obtain ⟨s1, he, hp⟩ := value_emits x (idxJV i :: rp) t r (.rbrack :: rest)
      (by rcases ht with rfl | rfl <;> simp [Good])
    have hadv : adv t = .arrValue := by rcases ht with rfl | rfl <;> rfl
    rw [hadv] at hp
    refine ⟨⟨idxJV i :: rp, .arrEnd :: r⟩, ?_, by simp [popEnd]⟩
    simp only [specL, tokensL, List.append_nil]
    refine Emits.append he (.call (s1 := ⟨idxJV i :: rp, .arrValue :: r⟩) ?_ (.ev ?_ .nil))
    · simp [prologue, hp, adjust, more]
    · simp [loop]
  | x :: y :: ys, _, rp, i, t, r, rest, ht => by
    obtain ⟨s1, he, hp⟩ := value_emits x (idxJV i :: rp) t r (tokensL (y :: ys) ++ .rbrack :: rest)
      (by rcases ht with rfl | rfl <;> simp [Good])
    have hadv : adv t = .arrValue := by rcases ht with rfl | rfl <;> rfl
    rw [hadv] at hp
    obtain ⟨so, he2, hp2⟩ := list_emits (y :: ys) (by simp) rp (i + 1) .arrValue r rest (Or.inr rfl)
    refine ⟨so, ?_, hp2⟩
    simp only [specL]
    have htok : tokensL (x :: y :: ys) ++ .rbrack :: rest = tokens x ++ (tokensL (y :: ys) ++ .rbrack :: rest) := by
      simp [tokensL, List.append_assoc]
    rw [htok]
    refine Emits.append he (.call ?_ he2)
    have hm : more me (tokensL (y :: ys) ++ .rbrack :: rest) = true := by
      simp only [tokensL, List.append_assoc]; exact more_tokens _ y _
    simp [prologue, hp, adjust, hm, idxJV]
/-- the members of a non-empty object; `t` is `objStart` for the first, `objValue` afterwards
    (the prologue has already dropped the previous key) -/
theorem members_emits : ∀ (l : List (Bytes × JV)), l ≠ [] → ∀ (rp : List JV) (t : St) (r : List St) (rest : List Tok),
    (t = .objStart ∨ t = .objValue) →
    ∃ so, Emits me term (.inloop ⟨rp, t :: r⟩ (tokensM l ++ .rbrace :: rest)) (specM rp l) so rest ∧
      popEnd so = some ⟨rp, r⟩
  | [], h, _, _, _, _, _ => absurd rfl h
  | [(k, x)], _, rp, t, r, rest, ht => by
    obtain ⟨s1, he, hp⟩ := value_emits x (.str k :: rp) .objKey r (.rbrace :: rest) (by simp [Good])
    simp only [adv] at hp
    refine ⟨⟨.str k :: rp, .objEnd :: r⟩, ?_, by simp [popEnd]⟩
    simp only [specM, tokensM, List.append_nil]
    have hloop : loop term ⟨rp, t :: r⟩ (.atom (.str k) :: (tokens x ++ .rbrace :: rest)) =
        loop term ⟨.str k :: rp, .objKey :: r⟩ (tokens x ++ .rbrace :: rest) := by
      rcases ht with rfl | rfl <;> simp [loop]
    refine Emits.congr (by simpa [List.append_assoc] using hloop) ?_
    refine Emits.append he (.call (s1 := ⟨.str k :: rp, .objValue :: r⟩) ?_ (.ev ?_ .nil))
    · simp [prologue, hp, adjust, more]
    · simp [loop]
  | (k, x) :: y :: ys, _, rp, t, r, rest, ht => by
    obtain ⟨s1, he, hp⟩ := value_emits x (.str k :: rp) .objKey r (tokensM (y :: ys) ++ .rbrace :: rest) (by simp [Good])
    simp only [adv] at hp
    obtain ⟨so, he2, hp2⟩ := members_emits (y :: ys) (by simp) rp .objValue r rest (Or.inr rfl)
    refine ⟨so, ?_, hp2⟩
    simp only [specM]
    have htok : tokensM ((k, x) :: y :: ys) ++ .rbrace :: rest =
        .atom (.str k) :: (tokens x ++ (tokensM (y :: ys) ++ .rbrace :: rest)) := by
      simp [tokensM, List.append_assoc]
    rw [htok]
    have hloop : loop term ⟨rp, t :: r⟩ (.atom (.str k) :: (tokens x ++ (tokensM (y :: ys) ++ .rbrace :: rest))) =
        loop term ⟨.str k :: rp, .objKey :: r⟩ (tokens x ++ (tokensM (y :: ys) ++ .rbrace :: rest)) := by
      rcases ht with rfl | rfl <;> simp [loop]
    refine Emits.congr hloop ?_
    refine Emits.append he (.call ?_ he2)
    have hm : more me (tokensM (y :: ys) ++ .rbrace :: rest) = true := by
      obtain ⟨k', y'⟩ := y
      simp [tokensM, more]
    simp [prologue, hp, adjust, hm]
end

/-- a whole document at the top level, from any call boundary whose pending pop leaves `init` -/
theorem doc_emits (v : JV) (s : S) (rest : List Tok) (hs : popEnd s = some init) :
    ∃ so, Emits me term (.boundary s (tokens v ++ rest)) (streamSpec v) so rest ∧ popEnd so = some init := by
  obtain ⟨so, he, hp⟩ := value_emits (me := me) (term := term) v [] .top [] rest (Or.inl rfl)
  refine ⟨so, .call ?_ he, by simpa [init, adv] using hp⟩
  simp [prologue, hs, adjust, init]

theorem docs_emits : ∀ (vs : List JV) (s : S) (rest : List Tok), popEnd s = some init →
    ∃ so, Emits me term (.boundary s (tokensDocs vs ++ rest)) (streamSpecDocs vs) so rest ∧ popEnd so = some init
  | [], s, rest, hs => ⟨s, by simpa [tokensDocs, streamSpecDocs] using Emits.nil, hs⟩
  | v :: vs, s, rest, hs => by
    obtain ⟨s1, he1, hp1⟩ := doc_emits (me := me) (term := term) v s (tokensDocs vs ++ rest) hs
    obtain ⟨so, he2, hp2⟩ := docs_emits vs s1 rest hp1
    refine ⟨so, ?_, hp2⟩
    simpa [tokensDocs, streamSpecDocs, List.append_assoc] using Emits.append he1 he2

theorem popEnd_init : popEnd init = some init := by simp [popEnd, init]

/-- at a document boundary with nothing left to read the run ends: io.EOF at a clean end,
    an error when the decoder reports one -/
theorem runs_end (s : S) (hs : popEnd s = some init) :
    Runs me term (.boundary s []) [] (match term with | .eof => .eof | .err => .error) := by
  refine .call (s1 := init) ?_ ?_
  · cases me <;> simp [prologue, hs, adjust, more, init]
  · cases term
    · exact .eof (by simp [loop, init])
    · exact .error (by simp [loop])

/-! ### cut documents: a proper prefix of a document's tokens, then the decoder fails -/

theorem runs_nil {rp : List JV} {t : St} {r : List St} (h : t ≠ .top ∨ term = .err) :
    Runs me term (.inloop ⟨rp, t :: r⟩ []) [] .error := by
  refine .error ?_
  cases term
  · rcases h with h | h
    · cases t <;> simp_all [loop]
    · cases h
  · simp [loop]

/-- cut right after an array element: whatever `More()` answers, the next call fails -/
theorem runs_cut_arr {s : S} {rp : List JV} {i : Nat} {r : List St}
    (hp : popEnd s = some ⟨idxJV i :: rp, .arrValue :: r⟩) : Runs me term (.boundary s []) [] .error := by
  cases me
  · exact .call (s1 := ⟨idxJV i :: rp, .arrValue :: r⟩) (by simp [prologue, hp, adjust, more])
      (runs_nil (Or.inl (by simp)))
  · refine .call (s1 := ⟨idxJV (i + 1) :: rp, .arrValue :: r⟩) ?_ (runs_nil (Or.inl (by simp)))
    rw [← idx_succ]
    simp only [prologue, hp, Option.bind_some, adjust, more, idxJV, if_true]

/-- cut right after an object member -/
theorem runs_cut_obj {s : S} {rp : List JV} {k : JV} {r : List St}
    (hp : popEnd s = some ⟨k :: rp, .objValue :: r⟩) : Runs me term (.boundary s []) [] .error := by
  cases me
  · exact .call (s1 := ⟨k :: rp, .objValue :: r⟩) (by simp [prologue, hp, adjust, more])
      (runs_nil (Or.inl (by simp)))
  · exact .call (s1 := ⟨rp, .objValue :: r⟩) (by simp [prologue, hp, adjust, more])
      (runs_nil (Or.inl (by simp)))

theorem singleton_split {α} {a : α} {pre suf : List α} (h : [a] = pre ++ suf) (hs : suf ≠ []) : pre = [] := by
  cases pre with
  | nil => rfl
  | cons b pre' =>
    simp only [List.cons_append, List.cons.injEq] at h
    have h2 : pre' ++ suf = [] := h.2.symm
    exact absurd (List.append_eq_nil_iff.mp h2).2 hs

/-- where a cut of `A ++ B` falls: strictly inside `A`, or at/after its end -/
theorem split_cases {α} {A B pre suf : List α} (h : A ++ B = pre ++ suf) :
    (∃ c', c' ≠ [] ∧ A = pre ++ c' ∧ suf = c' ++ B) ∨ (∃ a', pre = A ++ a' ∧ B = a' ++ suf) := by
  rcases List.append_eq_append_iff.mp h with ⟨a', h1, h2⟩ | ⟨c', h1, h2⟩
  · exact Or.inr ⟨a', h1, h2⟩
  · by_cases hc : c' = []
    · subst hc
      exact Or.inr ⟨[], by simpa using h1.symm, by simpa using h2.symm⟩
    · exact Or.inl ⟨c', hc, h1, h2⟩

theorem more_of_prefix {tk : Tok} {tl X a' suf : List Tok} (h : (tk :: tl) ++ X = a' ++ suf) (ha : a' ≠ [])
    (hm : ∀ (m : Bool) (l : List Tok), more m (tk :: l) = true) : more me a' = true := by
  cases a' with
  | nil => exact absurd rfl ha
  | cons b a'' =>
    simp only [List.cons_append, List.cons.injEq] at h
    rw [← h.1]; exact hm _ _

/-! tagged tokens: projections and the number of events of a complete value -/

mutual
theorem ttokens_fst : ∀ v : JV, (ttokens v).map Prod.fst = tokens v
  | .null => rfl
  | .bool _ => rfl
  | .num _ => rfl
  | .str _ => rfl
  | .arr xs => by simp [ttokens, tokens, ttokensL_fst xs]
  | .obj kvs => by simp [ttokens, tokens, ttokensM_fst kvs]
theorem ttokensL_fst : ∀ l : List JV, (ttokensL l).map Prod.fst = tokensL l
  | [] => rfl
  | x :: xs => by simp [ttokensL, tokensL, ttokens_fst x, ttokensL_fst xs]
theorem ttokensM_fst : ∀ l : List (Bytes × JV), (ttokensM l).map Prod.fst = tokensM l
  | [] => rfl
  | (k, x) :: xs => by simp [ttokensM, tokensM, ttokens_fst x, ttokensM_fst xs]
end

theorem completed_append (a b : List (Tok × Bool)) : completed (a ++ b) = completed a + completed b := by
  simp [completed, List.countP_append]

theorem completed_cons_false (t : Tok) (l : List (Tok × Bool)) : completed ((t, false) :: l) = completed l := by
  simp [completed]

theorem completed_cons_true (t : Tok) (l : List (Tok × Bool)) : completed ((t, true) :: l) = completed l + 1 := by
  simp [completed]

mutual
/-- one event per value-completing token -/
theorem spec_length : ∀ (v : JV) (rp : List JV), (spec rp v).length = completed (ttokens v)
  | .null, _ => rfl
  | .bool _, _ => rfl
  | .num _, _ => rfl
  | .str _, _ => rfl
  | .arr [], _ => rfl
  | .obj [], _ => rfl
  | .arr (x :: xs), rp => by
    have := specL_length (x :: xs) (by simp) rp 0
    simp only [spec, ttokens, completed_cons_false, completed_append, this]
    simp [completed]
  | .obj ((k, x) :: kvs), rp => by
    have := specM_length ((k, x) :: kvs) (by simp) rp
    simp only [spec, ttokens, completed_cons_false, completed_append, this]
    simp [completed]
theorem specL_length : ∀ (l : List JV), l ≠ [] → ∀ (rp : List JV) (i : Nat),
    (specL rp i l).length = completed (ttokensL l) + 1
  | [], h, _, _ => absurd rfl h
  | [x], _, rp, i => by
    simp [specL, ttokensL, spec_length x, completed]
  | x :: y :: ys, _, rp, i => by
    have := specL_length (y :: ys) (by simp) rp (i + 1)
    simp only [specL, List.length_append, spec_length x, this]
    rw [show ttokensL (x :: y :: ys) = ttokens x ++ ttokensL (y :: ys) from rfl, completed_append]
    omega
theorem specM_length : ∀ (l : List (Bytes × JV)), l ≠ [] → ∀ (rp : List JV),
    (specM rp l).length = completed (ttokensM l) + 1
  | [], h, _ => absurd rfl h
  | [(k, x)], _, rp => by
    simp [specM, ttokensM, spec_length x, completed]
  | (k, x) :: y :: ys, _, rp => by
    have := specM_length (y :: ys) (by simp) rp
    simp only [specM, List.length_append, spec_length x, this]
    rw [show ttokensM ((k, x) :: y :: ys) = (.atom (.str k), false) :: (ttokens x ++ ttokensM (y :: ys)) from rfl,
      completed_cons_false, completed_append]
    omega
end

theorem more_of_tprefix {tk : Tok} {b : Bool} {tl X a' suf : List (Tok × Bool)} (h : ((tk, b) :: tl) ++ X = a' ++ suf)
    (ha : a' ≠ []) (hm : ∀ (m : Bool) (l : List Tok), more m (tk :: l) = true) : more me (a'.map Prod.fst) = true := by
  cases a' with
  | nil => exact absurd rfl ha
  | cons c a'' =>
    simp only [List.cons_append, List.cons.injEq] at h
    rw [← h.1]; exact hm _ _

theorem ttokens_cons (v : JV) : ∃ tk b tl, ttokens v = (tk, b) :: tl ∧ ∀ (m : Bool) (l : List Tok), more m (tk :: l) = true := by
  cases v <;> simp [ttokens, more]

mutual
/-- a value cut strictly before its end: the events emitted are a prefix of its events, as
    many as value-completing tokens were read, then an error -/
theorem value_cut : ∀ (v : JV) (rp : List JV) (t : St) (r : List St) (pre suf : List (Tok × Bool)), Good t →
    ttokens v = pre ++ suf → suf ≠ [] → (pre ≠ [] ∨ t ≠ .top ∨ term = .err) →
    ∃ es, Runs me term (.inloop ⟨rp, t :: r⟩ (pre.map Prod.fst)) es .error ∧ es <+: spec rp v ∧
      es.length = completed pre
  | .null, rp, t, r, pre, suf, _, htok, hsuf, h => by
    have hp : pre = [] := singleton_split (by simpa [ttokens] using htok) hsuf
    subst hp
    exact ⟨[], runs_nil (h.resolve_left (by simp)), List.nil_prefix, rfl⟩
  | .bool b, rp, t, r, pre, suf, _, htok, hsuf, h => by
    have hp : pre = [] := singleton_split (by simpa [ttokens] using htok) hsuf
    subst hp
    exact ⟨[], runs_nil (h.resolve_left (by simp)), List.nil_prefix, rfl⟩
  | .num n, rp, t, r, pre, suf, _, htok, hsuf, h => by
    have hp : pre = [] := singleton_split (by simpa [ttokens] using htok) hsuf
    subst hp
    exact ⟨[], runs_nil (h.resolve_left (by simp)), List.nil_prefix, rfl⟩
  | .str s, rp, t, r, pre, suf, _, htok, hsuf, h => by
    have hp : pre = [] := singleton_split (by simpa [ttokens] using htok) hsuf
    subst hp
    exact ⟨[], runs_nil (h.resolve_left (by simp)), List.nil_prefix, rfl⟩
  | .arr [], rp, t, r, pre, suf, _, htok, hsuf, h => by
    cases pre with
    | nil => exact ⟨[], runs_nil (h.resolve_left (by simp)), List.nil_prefix, rfl⟩
    | cons tk pre' =>
      simp only [ttokens, ttokensL, List.nil_append, List.cons_append, List.cons.injEq] at htok
      obtain ⟨rfl, h2⟩ := htok
      have hp : pre' = [] := singleton_split h2 hsuf
      subst hp
      refine ⟨[], Runs.congr (s2 := ⟨idxJV 0 :: rp, .arrStart :: adv t :: r⟩) (toks2 := []) (by simp [loop]) ?_,
        List.nil_prefix, by simp [completed]⟩
      exact runs_nil (Or.inl (by simp))
  | .obj [], rp, t, r, pre, suf, _, htok, hsuf, h => by
    cases pre with
    | nil => exact ⟨[], runs_nil (h.resolve_left (by simp)), List.nil_prefix, rfl⟩
    | cons tk pre' =>
      simp only [ttokens, ttokensM, List.nil_append, List.cons_append, List.cons.injEq] at htok
      obtain ⟨rfl, h2⟩ := htok
      have hp : pre' = [] := singleton_split h2 hsuf
      subst hp
      refine ⟨[], Runs.congr (s2 := ⟨rp, .objStart :: adv t :: r⟩) (toks2 := []) (by simp [loop]) ?_,
        List.nil_prefix, by simp [completed]⟩
      exact runs_nil (Or.inl (by simp))
  | .arr (x :: xs), rp, t, r, pre, suf, _, htok, hsuf, h => by
    cases pre with
    | nil => exact ⟨[], runs_nil (h.resolve_left (by simp)), List.nil_prefix, rfl⟩
    | cons tk pre' =>
      simp only [ttokens, List.cons_append, List.cons.injEq] at htok
      obtain ⟨rfl, h2⟩ := htok
      obtain ⟨es, hr, hpre, hlen⟩ := list_cut (x :: xs) (by simp) rp 0 .arrStart (adv t :: r) pre' suf (Or.inl rfl) h2 hsuf
      refine ⟨es, Runs.congr (by simp [loop]) hr, ?_, by rw [completed_cons_false]; exact hlen⟩
      simpa only [spec] using hpre
  | .obj ((k, x) :: kvs), rp, t, r, pre, suf, _, htok, hsuf, h => by
    cases pre with
    | nil => exact ⟨[], runs_nil (h.resolve_left (by simp)), List.nil_prefix, rfl⟩
    | cons tk pre' =>
      simp only [ttokens, List.cons_append, List.cons.injEq] at htok
      obtain ⟨rfl, h2⟩ := htok
      obtain ⟨es, hr, hpre, hlen⟩ := members_cut ((k, x) :: kvs) (by simp) rp .objStart (adv t :: r) pre' suf (Or.inl rfl) h2 hsuf
      refine ⟨es, Runs.congr (by simp [loop]) hr, ?_, by rw [completed_cons_false]; exact hlen⟩
      simpa only [spec] using hpre
/-- the elements of a non-empty array (then `]`), cut before the end -/
theorem list_cut : ∀ (l : List JV), l ≠ [] → ∀ (rp : List JV) (i : Nat) (t : St) (r : List St) (pre suf : List (Tok × Bool)),
    (t = .arrStart ∨ t = .arrValue) → ttokensL l ++ [(.rbrack, true)] = pre ++ suf → suf ≠ [] →
    ∃ es, Runs me term (.inloop ⟨idxJV i :: rp, t :: r⟩ (pre.map Prod.fst)) es .error ∧ es <+: specL rp i l ∧
      es.length = completed pre
  | [], h, _, _, _, _, _, _, _, _, _ => absurd rfl h
  | [x], _, rp, i, t, r, pre, suf, ht, htok, hsuf => by
    have hg : Good t := by rcases ht with rfl | rfl <;> simp [Good]
    have hnt : t ≠ .top := by rcases ht with rfl | rfl <;> simp
    have hadv : adv t = .arrValue := by rcases ht with rfl | rfl <;> rfl
    simp only [ttokensL, List.append_nil] at htok
    rcases split_cases htok with ⟨c', hc, h1, _⟩ | ⟨a', h1, h2⟩
    · obtain ⟨es, hr, hpre, hlen⟩ := value_cut x (idxJV i :: rp) t r pre c' hg h1 hc (Or.inr (Or.inl hnt))
      exact ⟨es, hr, by simp only [specL]; exact hpre.trans (List.prefix_append _ _), hlen⟩
    · have ha : a' = [] := singleton_split h2 hsuf
      subst ha
      obtain ⟨s1, he, hp⟩ := value_emits (me := me) (term := term) x (idxJV i :: rp) t r [] hg
      rw [hadv] at hp
      refine ⟨spec (idxJV i :: rp) x, ?_, by simp only [specL]; exact List.prefix_append _ _,
        by rw [h1, List.append_nil]; exact spec_length x _⟩
      rw [h1, List.append_nil, ttokens_fst]
      simpa using Emits.thenRuns he (runs_cut_arr hp)
  | x :: y :: ys, _, rp, i, t, r, pre, suf, ht, htok, hsuf => by
    have hg : Good t := by rcases ht with rfl | rfl <;> simp [Good]
    have hnt : t ≠ .top := by rcases ht with rfl | rfl <;> simp
    have hadv : adv t = .arrValue := by rcases ht with rfl | rfl <;> rfl
    have htok' : ttokens x ++ (ttokensL (y :: ys) ++ [(.rbrack, true)]) = pre ++ suf := by
      simpa [ttokensL, List.append_assoc] using htok
    rcases split_cases htok' with ⟨c', hc, h1, _⟩ | ⟨a', h1, h2⟩
    · obtain ⟨es, hr, hpre, hlen⟩ := value_cut x (idxJV i :: rp) t r pre c' hg h1 hc (Or.inr (Or.inl hnt))
      exact ⟨es, hr, by simp only [specL]; exact hpre.trans (List.prefix_append _ _), hlen⟩
    · obtain ⟨s1, he, hp⟩ := value_emits (me := me) (term := term) x (idxJV i :: rp) t r (a'.map Prod.fst) hg
      rw [hadv] at hp
      rw [h1, List.map_append, ttokens_fst]
      by_cases ha : a' = []
      · subst ha
        refine ⟨spec (idxJV i :: rp) x, ?_, by simp only [specL]; exact List.prefix_append _ _,
          by rw [List.append_nil]; exact spec_length x _⟩
        simpa using Emits.thenRuns he (runs_cut_arr hp)
      · obtain ⟨es2, hr2, hpre2, hlen2⟩ := list_cut (y :: ys) (by simp) rp (i + 1) .arrValue r a' suf (Or.inr rfl) h2 hsuf
        obtain ⟨tk, b, tl, hty, hmy⟩ := ttokens_cons y
        have hm : more me (a'.map Prod.fst) = true := by
          have h2' : ((tk, b) :: tl) ++ (ttokensL ys ++ [(.rbrack, true)]) = a' ++ suf := by
            rw [← hty]; simpa [ttokensL, List.append_assoc] using h2
          exact more_of_tprefix h2' ha hmy
        refine ⟨spec (idxJV i :: rp) x ++ es2, Emits.thenRuns he (.call ?_ hr2), ?_, ?_⟩
        · simp [prologue, hp, adjust, hm, idxJV]
        · simp only [specL]; exact (List.prefix_append_right_inj _).mpr hpre2
        · rw [List.length_append, completed_append, spec_length x, hlen2]
/-- the members of a non-empty object (then `}`), cut before the end -/
theorem members_cut : ∀ (l : List (Bytes × JV)), l ≠ [] → ∀ (rp : List JV) (t : St) (r : List St) (pre suf : List (Tok × Bool)),
    (t = .objStart ∨ t = .objValue) → ttokensM l ++ [(.rbrace, true)] = pre ++ suf → suf ≠ [] →
    ∃ es, Runs me term (.inloop ⟨rp, t :: r⟩ (pre.map Prod.fst)) es .error ∧ es <+: specM rp l ∧
      es.length = completed pre
  | [], h, _, _, _, _, _, _, _, _ => absurd rfl h
  | [(k, x)], _, rp, t, r, pre, suf, ht, htok, hsuf => by
    have hnt : t ≠ .top := by rcases ht with rfl | rfl <;> simp
    cases pre with
    | nil => exact ⟨[], runs_nil (Or.inl hnt), List.nil_prefix, rfl⟩
    | cons tk pre' =>
      simp only [ttokensM, List.append_nil, List.cons_append, List.cons.injEq] at htok
      obtain ⟨rfl, htok⟩ := htok
      have hloop : ∀ p, loop term ⟨rp, t :: r⟩ (.atom (.str k) :: p) = loop term ⟨.str k :: rp, .objKey :: r⟩ p := by
        intro p; rcases ht with rfl | rfl <;> simp [loop]
      simp only [List.map_cons, completed_cons_false]
      rcases split_cases htok with ⟨c', hc, h1, _⟩ | ⟨a', h1, h2⟩
      · obtain ⟨es, hr, hpre, hlen⟩ := value_cut x (.str k :: rp) .objKey r pre' c' (by simp [Good]) h1 hc (Or.inr (Or.inl (by simp)))
        exact ⟨es, Runs.congr (hloop _) hr, by simp only [specM]; exact hpre.trans (List.prefix_append _ _), hlen⟩
      · have ha : a' = [] := singleton_split h2 hsuf
        subst ha
        obtain ⟨s1, he, hp⟩ := value_emits (me := me) (term := term) x (.str k :: rp) .objKey r [] (by simp [Good])
        simp only [adv] at hp
        refine ⟨spec (.str k :: rp) x, Runs.congr (hloop _) ?_, by simp only [specM]; exact List.prefix_append _ _,
          by rw [h1, List.append_nil]; exact spec_length x _⟩
        rw [h1, List.append_nil, ttokens_fst]
        simpa using Emits.thenRuns he (runs_cut_obj hp)
  | (k, x) :: y :: ys, _, rp, t, r, pre, suf, ht, htok, hsuf => by
    have hnt : t ≠ .top := by rcases ht with rfl | rfl <;> simp
    cases pre with
    | nil => exact ⟨[], runs_nil (Or.inl hnt), List.nil_prefix, rfl⟩
    | cons tk pre' =>
      have htok' : ((Tok.atom (.str k), false) : Tok × Bool) :: (ttokens x ++ (ttokensM (y :: ys) ++ [(.rbrace, true)])) = tk :: (pre' ++ suf) := by
        simpa [ttokensM, List.append_assoc] using htok
      simp only [List.cons.injEq] at htok'
      obtain ⟨rfl, htok'⟩ := htok'
      have hloop : ∀ p, loop term ⟨rp, t :: r⟩ (.atom (.str k) :: p) = loop term ⟨.str k :: rp, .objKey :: r⟩ p := by
        intro p; rcases ht with rfl | rfl <;> simp [loop]
      simp only [List.map_cons, completed_cons_false]
      rcases split_cases htok' with ⟨c', hc, h1, _⟩ | ⟨a', h1, h2⟩
      · obtain ⟨es, hr, hpre, hlen⟩ := value_cut x (.str k :: rp) .objKey r pre' c' (by simp [Good]) h1 hc (Or.inr (Or.inl (by simp)))
        exact ⟨es, Runs.congr (hloop _) hr, by simp only [specM]; exact hpre.trans (List.prefix_append _ _), hlen⟩
      · obtain ⟨s1, he, hp⟩ := value_emits (me := me) (term := term) x (.str k :: rp) .objKey r (a'.map Prod.fst) (by simp [Good])
        simp only [adv] at hp
        rw [h1, List.map_append, ttokens_fst]
        by_cases ha : a' = []
        · subst ha
          refine ⟨spec (.str k :: rp) x, Runs.congr (hloop _) ?_, by simp only [specM]; exact List.prefix_append _ _,
            by rw [List.append_nil]; exact spec_length x _⟩
          simpa using Emits.thenRuns he (runs_cut_obj hp)
        · obtain ⟨es2, hr2, hpre2, hlen2⟩ := members_cut (y :: ys) (by simp) rp .objValue r a' suf (Or.inr rfl) h2 hsuf
          have hm : more me (a'.map Prod.fst) = true := by
            obtain ⟨k', y'⟩ := y
            have h2' : ((Tok.atom (.str k'), false) :: (ttokens y' ++ ttokensM ys)) ++ [(.rbrace, true)] = a' ++ suf := by
              simpa [ttokensM, List.append_assoc] using h2
            exact more_of_tprefix h2' ha (by intro m l; simp [more])
          refine ⟨spec (.str k :: rp) x ++ es2, Runs.congr (hloop _) (Emits.thenRuns he (.call ?_ hr2)), ?_, ?_⟩
          · simp [prologue, hp, adjust, hm]
          · simp only [specM]; exact (List.prefix_append_right_inj _).mpr hpre2
          · rw [List.length_append, completed_append, spec_length x, hlen2]
end

/-- a top-level document cut before its end (after at least one token, or with a decoder error) -/
theorem doc_cut (v : JV) (s : S) (pre suf : List (Tok × Bool)) (hs : popEnd s = some init)
    (htok : ttokens v = pre ++ suf) (hsuf : suf ≠ []) (h : pre ≠ [] ∨ term = .err) :
    ∃ es, Runs me term (.boundary s (pre.map Prod.fst)) es .error ∧ es <+: streamSpec v ∧
      es.length = completed pre := by
  obtain ⟨es, hr, hpre, hlen⟩ := value_cut (me := me) (term := term) v [] .top [] pre suf (Or.inl rfl) htok hsuf
    (h.elim Or.inl (fun h => Or.inr (Or.inr h)))
  refine ⟨es, .call ?_ hr, hpre, hlen⟩
  cases hm : more me (pre.map Prod.fst) <;> simp [prologue, hs, adjust, init]

/-- a prefix of known length is a `take` -/
theorem prefix_eq_take {α} {es l : List α} (h : es <+: l) : es = l.take es.length := by
  obtain ⟨t, rfl⟩ := h
  simp

end Gojq.Stream

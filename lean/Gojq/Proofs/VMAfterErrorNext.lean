/-
  The `Next` call that FOLLOWS an error return: what its first turn does for every opcode that can
  be at the saved pc, when it returns `(nil, false)` at once, and why the state it starts from is a
  backtracking state like any other.  Helper lemmas for Props/C07AfterError.lean; arbitrary code.
-/
import Gojq.Proofs.VMAfterError
set_option linter.unusedSimpArgs false
set_option linter.unusedVariables false
namespace Gojq.VM

/-! ## the invariants depend on the code only -/

theorem EnvInv.congr {P Q : Params} (h : Q.code = P.code) {e : Env} (hE : EnvInv P e) : EnvInv Q e := by
  obtain ⟨hw, hf⟩ := hE
  refine ⟨hw, fun f hfm => ?_⟩
  obtain ⟨a, b, c, d, ins, i0, i1, i2, i3⟩ := hf f hfm
  exact ⟨a, b, c, d, ins, i0, by rw [h]; exact i1, i2, i3⟩

theorem LabelAt.congr {P Q : Params} (h : Q.code = P.code) {pc : Int} : LabelAt Q pc ↔ LabelAt P pc := by
  unfold LabelAt; rw [h]

theorem EnvInv2.congr {P Q : Params} (h : Q.code = P.code) {e : Env} (hE : EnvInv2 P e) : EnvInv2 Q e := by
  obtain ⟨a, b, c⟩ := hE
  refine ⟨a.congr h, fun f hf hl => b f hf ((LabelAt.congr h).mp hl), fun above f0 hd hl => c above f0 hd ((LabelAt.congr h).mp hl)⟩

theorem ReentryOK2.congr {P Q : Params} (h : Q.code = P.code) {e : Env} (hR : ReentryOK2 P e) : ReentryOK2 Q e := by
  obtain ⟨⟨a, b⟩, c, d⟩ := hR
  exact ⟨⟨a, fun ins hi => b ins (by rw [← h]; exact hi)⟩, c, fun hl => d ((LabelAt.congr h).mp hl)⟩

/-! ## a call is decided by its first turn when that turn ends it -/

theorem next_of_first_fin (Q : Params) (fuel : Nat) (s : St) (o : Outcome) (st : St)
    (h : step Q (entry Q s) s = .fin o st) : next Q fuel s = (o, st) := by
  unfold next
  cases fuel with
  | zero => rw [loop_zero, h]
  | succ n => rw [loop_succ, h]

/-- what a turn at an instruction does when the instruction breaks the loop, leaves no fork and no
    error: `(nil, false)` — or the context error if the poll finds the context cancelled -/
theorem step_brk_done (Q : Params) (l : L) (s : St) (h0 : 0 ≤ l.pc) (h1 : l.pc < Q.code.size)
    (l' : L) (e1 : Env)
    (hex : exec (Q.code.getD l.pc.toNat .bad) (Q.ext s.polls) l s.env = .ok (.brk, l') e1)
    (hf : e1.forks = []) (herr : l'.err = none) :
    step Q l s = (if Q.cancelled s.polls = true then .fin .ctxErr (cancelledSt Q s)
      else .fin .done (({ env := e1, polls := s.polls + 1 } : St).save Q.code.size)) := by
  by_cases hc : Q.cancelled s.polls = true
  · rw [step_cancelled Q l s ⟨h0, h1⟩ hc]; simp [hc]
  · unfold step
    simp only [h1, Int.not_lt.mpr h0, hc, if_true, if_false, hex]
    unfold unwind finish
    simp [hf, herr]

/-- … and when the pc is past the end with no fork left -/
theorem step_past_end_done (Q : Params) (l : L) (s : St) (h1 : ¬ l.pc < Q.code.size)
    (hf : s.env.forks = []) (herr : l.err = none) : step Q l s = .fin .done (s.save Q.code.size) := by
  unfold step
  simp only [h1, if_false]
  unfold unwind finish
  simp [hf, herr]

/-! ## re-entering the instruction at the saved pc, opcode by opcode -/

/-- every opcode that can `break loop`, other than `opfork`, `opiter`, `opforklabel`: re-entered with
    `backtrack = true` and no error it breaks again without touching the environment -/
theorem breaker_reentry_brk (ins : Instr) (hb : isBreaker ins = true) (hi : ins ≠ .iter)
    (hl : ∀ a b, ins ≠ .forklabel a b) (hf : ∀ t, ins ≠ .fork t) (x : ExtRec) (l : L) (e : Env)
    (hbt : l.backtrack = true) (herr : l.err = none) :
    ∃ l', exec ins x l e = .ok (.brk, l') e ∧ l'.err = none := by
  cases ins <;> first
    | (simp [isBreaker] at hb; done)
    | exact absurd rfl hi
    | exact absurd rfl (hl _ _)
    | exact absurd rfl (hf _)
    | (simp only [exec, exec.execIndex, hbt, herr, if_true, Option.isSome_none, Option.isNone_none, Option.map_none]
       exact ⟨_, rfl, by first | exact herr | rfl⟩)

/-- `opforklabel` re-entered with `backtrack = true` and no error: one pop, then `break loop` -/
theorem forklabel_reentry {a b : Int} (x : ExtRec) (l : L) (e : Env) (hbt : l.backtrack = true)
    (herr : l.err = none) (ht : TopOK e.stack) :
    ∃ e1, exec (.forklabel a b) x l e = .ok (.brk, l) e1 ∧ e1.forks = e.forks := by
  obtain ⟨v, s', hp⟩ := Stack.pop?_of_top e.stack ht
  refine ⟨{ e with stack := s' }, ?_, rfl⟩
  simp only [exec, hbt, if_true, herr]
  show M.bind pop _ e = _
  unfold M.bind pop
  rw [hp]
  rfl

/-- `opiter` re-entered with `backtrack = true`, no error and `emptyIter{}` on top: pop, then
    `break loop` -/
theorem iter_reentry_empty (x : ExtRec) (l : L) (e : Env) (herr : l.err = none)
    (ht : e.stack.top? = some .emptyIter) :
    ∃ e1, exec .iter x l e = .ok (.brk, { l with backtrack := false }) e1 ∧ e1.forks = e.forks := by
  unfold Stack.top? at ht
  cases hb : e.stack.blockAt? e.stack.index with
  | none => rw [hb] at ht; simp at ht
  | some blk =>
    rw [hb] at ht
    simp at ht
    have hp : e.stack.pop? = some (.emptyIter, { e.stack with index := blk.next }) := by
      unfold Stack.pop?; rw [hb, ← ht]
    refine ⟨{ e with stack := { e.stack with index := blk.next } }, ?_, rfl⟩
    simp only [exec, herr, Option.isSome_none, Bool.false_eq_true, if_false]
    show M.bind pop _ e = _
    unfold M.bind pop
    rw [hp]
    rfl

/-! ## the error was propagated: the turn that returned it did not touch the environment -/

/-- A fork-like opcode other than `opforklabel`, entered in backtrack mode WITH an error, that breaks
    the loop leaves the environment exactly as the popped fork restored it. -/
theorem propagated_untouched (ins : Instr) (x : ExtRec) (l : L) (e : Env) (l' : L) (e' : Env)
    (hfl : forkLike ins = true) (hlab : isLabel ins = false) (hbt : l.backtrack = true)
    (herr : l.err.isSome = true) (h : exec ins x l e = .ok (.brk, l') e') : e' = e ∧ l'.pc = l.pc := by
  cases ins <;> first
    | (simp [forkLike] at hfl; done)
    | (simp [isLabel] at hlab; done)
    | skip
  · -- fork
    simp only [exec, hbt, herr, if_true] at h
    obtain ⟨h1, h2⟩ := pure_ok h
    simp at h1
    exact ⟨h2.symm, by rw [← h1]⟩
  · -- forktrybegin
    simp only [exec, hbt, if_true] at h
    cases he : l.err with
    | none => simp [he] at herr
    | some er =>
      cases er <;> simp only [he] at h <;> first
        | (obtain ⟨h1, h2⟩ := pure_ok h
           simp at h1
           exact ⟨h2.symm, by rw [← h1]⟩)
        | (exfalso
           obtain ⟨_, e1, _, h2⟩ := bind_ok h
           obtain ⟨_, e2, _, h3⟩ := bind_ok h2
           have := (pure_ok h3).1
           simp at this)
  · -- forktryend
    simp only [exec, hbt, if_true] at h
    obtain ⟨h1, h2⟩ := pure_ok h
    simp at h1
    exact ⟨h2.symm, by rw [← h1]⟩
  · -- forkalt: an error is caught (jump), never a break
    simp only [exec, hbt, if_true] at h
    cases he : l.err with
    | none => simp [he] at herr
    | some er =>
      simp only [he, Option.isNone_some, Bool.false_eq_true, if_false] at h
      have := (pure_ok h).1
      simp at this
  · -- iter
    simp only [exec, herr, if_true] at h
    obtain ⟨h1, h2⟩ := pure_ok h
    simp at h1
    exact ⟨h2.symm, by rw [← h1]⟩

/-! ## the error was raised by the last turn: what is at the saved pc -/

/-- `opfork` never breaks the loop unless it was entered with an error -/
theorem fork_no_brk (t : Int) (x : ExtRec) (l : L) (e : Env) (l' : L) (e' : Env) (herr : l.err = none)
    (h : exec (.fork t) x l e = .ok (.brk, l') e') : False := by
  simp only [exec, herr, Option.isSome_none, Bool.false_eq_true, if_false] at h
  split at h
  · have := (pure_ok h).1; simp at this
  · obtain ⟨_, e1, _, h2⟩ := bind_ok h
    have := (pure_ok h2).1; simp at this

/-- when `opiter`, entered without an error, breaks the loop with an error and has pushed no fork,
    `emptyIter{}` is on top -/
theorem iter_own_error_top (x : ExtRec) (l : L) (e : Env) (l' : L) (e' : Env) (hw : StackWF e.stack)
    (hno : l.err = none) (h : exec .iter x l e = .ok (.brk, l') e') (herr : l'.err.isSome = true)
    (hf : e'.forks = []) : e'.stack.top? = some .emptyIter := by
  have top_push : ∀ (s : Stack V), StackWF s → (s.push .emptyIter).top? = some .emptyIter := by
    intro s hs
    obtain ⟨a, _, c⟩ := Stack.push_top s .emptyIter hs
    have h0 : 0 ≤ max s.index s.limit + 1 := by have := hs.1; have := hs.2.2.1; omega
    unfold Stack.top? Stack.blockAt?
    rw [a]
    simp only [h0, if_true, c]
  simp only [exec, hno, Option.isSome_none, Bool.false_eq_true, if_false] at h
  obtain ⟨v, e1, hpop, h⟩ := bind_ok h
  try dsimp only at h
  have hw1 := (pop_ok hpop hw).1
  have noerr : ∀ {l2 : L} {e0 e2 : Env}, l2.err = none →
      (pure (Ctl.brk, l2) : M (Ctl × L)) e0 = .ok (.brk, l') e2 → False := by
    intro l2 e0 e2 hl2 h
    have := (pure_ok h).1
    simp at this
    rw [← this] at herr
    simp [hl2] at herr
  have invalid : ∀ {l2 : L} {e2 : Env}, iterInvalid x l2 e1 = .ok (.brk, l') e2 →
      e2.stack.top? = some .emptyIter := by
    intro l2 e2 h
    unfold iterInvalid at h
    obtain ⟨_, e3, h1, h2⟩ := bind_ok h
    rw [push_ok] at h1
    simp at h1; subst h1
    have := (pure_ok h2).2; subst this
    exact top_push _ hw1
  split at h
  · exact absurd (iterEmit_fall h) (by simp)
  · obtain ⟨b, e2, hb, k1⟩ := bind_ok h
    have := pathBroken_ok hb; subst this
    split at k1
    · exact invalid k1
    · split at k1
      · exact (noerr rfl k1).elim
      · exact absurd (iterEmit_fall k1) (by simp)
  · obtain ⟨b, e2, hb, k1⟩ := bind_ok h
    have := pathBroken_ok hb; subst this
    split at k1
    · exact invalid k1
    · split at k1
      · exact (noerr rfl k1).elim
      · exact absurd (iterEmit_fall k1) (by simp)
  · exact (noerr rfl h).elim
  · obtain ⟨r, e2, hr, k1⟩ := bind_ok h
    have := extCall_ok hr; subst this
    split at k1
    · exact (noerr rfl k1).elim
    · obtain ⟨_, e3, _, k2⟩ := bind_ok k1
      obtain ⟨_, e4, _, k3⟩ := bind_ok k2
      have := (pure_ok k3).1
      simp at this
    · obtain ⟨_, e3, hpf, k2⟩ := bind_ok k1
      have := (pure_ok k2).2; subst this
      exact absurd hf (pushforkOver_forks hpf)
  · obtain ⟨_, e3, h1, h2⟩ := bind_ok h
    rw [push_ok] at h1
    simp at h1; subst h1
    have := (pure_ok h2).2; subst this
    exact top_push _ hw1

/-! ## the turn that ended a call -/

/-- the locals and the state at the beginning of the last turn of a run of the loop -/
def lastTurn (P : Params) : Nat → L → St → L × St
  | fuel, l, s =>
    match step P l s with
    | .fin _ _ => (l, s)
    | .cont l' s' =>
      match fuel with
      | 0 => (l, s)
      | fuel + 1 => lastTurn P fuel l' s'

theorem lastTurn_zero (P : Params) (l : L) (s : St) : lastTurn P 0 l s = (l, s) := by
  rw [lastTurn]; cases step P l s <;> rfl

theorem lastTurn_succ (P : Params) (n : Nat) (l : L) (s : St) :
    lastTurn P (n + 1) l s =
      match step P l s with
      | .fin _ _ => (l, s)
      | .cont l' s' => lastTurn P n l' s' := by
  rw [lastTurn]

/-- a call that returns an error was ended by its last turn, and the invariant held there -/
theorem loop_last_turn (P : Params) : ∀ (fuel : Nat) (l : L) (s : St) (e : Err) (s' : St),
    EnvInv P s.env → LInv P l s.env → loop P fuel l s = (.error e, s') →
    EnvInv P (lastTurn P fuel l s).2.env ∧ LInv P (lastTurn P fuel l s).1 (lastTurn P fuel l s).2.env ∧
      step P (lastTurn P fuel l s).1 (lastTurn P fuel l s).2 = .fin (.error e) s' := by
  intro fuel
  induction fuel with
  | zero =>
    intro l s e s' hE hL h
    rw [loop_zero] at h
    rw [lastTurn_zero]
    cases hs : step P l s with
    | fin o st => rw [hs] at h; simp at h; obtain ⟨rfl, rfl⟩ := h; exact ⟨hE, hL, rfl⟩
    | cont l1 s1 => rw [hs] at h; simp at h
  | succ n ih =>
    intro l s e s' hE hL h
    rw [loop_succ] at h
    rw [lastTurn_succ]
    have hinv := step_inv P l s hE hL
    cases hs : step P l s with
    | fin o st => rw [hs] at h; simp at h; obtain ⟨rfl, rfl⟩ := h; exact ⟨hE, hL, hs⟩
    | cont l1 s1 =>
      rw [hs] at h hinv
      exact ih l1 s1 e s' hinv.1 hinv.2 h

/-- a turn that returns an error: it was at an instruction, the instruction broke the loop, and no
    fork was left -/
theorem step_fin_error (P : Params) (l : L) (s : St) (e : Err) (s' : St)
    (h : step P l s = .fin (.error e) s') (hL : LInv P l s.env) :
    0 ≤ l.pc ∧ l.pc < P.code.size ∧ P.cancelled s.polls = false ∧
    ∃ l' e', exec (P.code.getD l.pc.toNat .bad) (P.ext s.polls) l s.env = .ok (.brk, l') e' ∧
      e'.forks = [] ∧ l'.err = some e ∧ s' = (({ env := e', polls := s.polls + 1 } : St).save l'.pc) := by
  have hu : ∀ (l2 : L) (s2 : St), unwind P l2 s2 = .fin (.error e) s' →
      s2.env.forks = [] ∧ l2.err = some e ∧ s' = s2.save l2.pc := by
    intro l2 s2 h
    unfold unwind at h
    split at h
    · rename_i hf
      unfold finish at h
      split at h
      · rename_i e1 he1
        simp at h
        exact ⟨hf, by rw [he1, h.1], h.2.symm⟩
      · simp at h
    · simp at h
  unfold step at h
  by_cases h1 : l.pc < P.code.size
  · by_cases h0 : l.pc < 0
    · simp [h1, h0] at h
    · have h0' : 0 ≤ l.pc := Int.not_lt.mp h0
      simp only [h1, h0, if_true, if_false] at h
      split at h
      · simp at h
      · rename_i hc
        refine ⟨h0', h1, by simpa using hc, ?_⟩
        split at h
        · simp at h
        · simp at h
        · rename_i ctl l' env' hex
          split at h
          · simp at h
          · simp at h
          · simp at h
          · obtain ⟨a, b, c⟩ := hu _ _ h
            exact ⟨l', env', hex, a, b, c⟩
  · exfalso
    simp only [h1, if_false] at h
    obtain ⟨_, b, _⟩ := hu _ _ h
    obtain ⟨_, ins', i0, hc, _⟩ := hL (by simp [b])
    have : l.pc.toNat < P.code.size := (Array.getElem?_eq_some_iff.mp hc).1
    exact h1 ((Int.toNat_lt i0).mp this)

/-! ## the next call ends at once -/

/-- the call that starts in `s'` returns `(nil, false)` at its first turn (or the context error if
    that turn's poll finds the context cancelled), at every fuel, and leaves a terminal state -/
def EndsNow (Q : Params) (s' : St) : Prop :=
  ∀ fuel, ∃ st, Terminal Q st ∧
    (next Q fuel s' = (.done, st) ∨ (Q.cancelled s'.polls = true ∧ next Q fuel s' = (.ctxErr, st)))

theorem endsNow_of_brk (Q : Params) (s' : St) (ins : Instr) (h0 : 0 ≤ s'.env.pc)
    (hins : Q.code[s'.env.pc.toNat]? = some ins)
    (hex : ∃ l' e1, exec ins (Q.ext s'.polls) (entry Q s') s'.env = .ok (.brk, l') e1 ∧ e1.forks = [] ∧ l'.err = none) :
    EndsNow Q s' := by
  obtain ⟨l', e1, hex, hf, herr⟩ := hex
  have hlt : s'.env.pc < (Q.code.size : Int) := (Int.toNat_lt h0).mp (Array.getElem?_eq_some_iff.mp hins).1
  have hgetD : Q.code.getD (entry Q s').pc.toNat .bad = ins := by
    show Q.code.getD s'.env.pc.toNat .bad = ins
    simp [Array.getD, (Array.getElem?_eq_some_iff.mp hins).1, (Array.getElem?_eq_some_iff.mp hins).2]
  have hst := step_brk_done Q (entry Q s') s' h0 hlt l' e1 (by rw [hgetD]; exact hex) hf herr
  intro fuel
  by_cases hc : Q.cancelled s'.polls = true
  · simp only [hc, if_true] at hst
    exact ⟨_, by simp [Terminal, cancelledSt], .inr ⟨hc, next_of_first_fin Q fuel s' _ _ hst⟩⟩
  · simp only [hc, if_false] at hst
    exact ⟨_, by simp [Terminal, St.save, hf], .inl (next_of_first_fin Q fuel s' _ _ hst)⟩

theorem endsNow_past_end (Q : Params) (s' : St) (h0 : 0 ≤ s'.env.pc) (hnone : Q.code[s'.env.pc.toNat]? = none)
    (hf : s'.env.forks = []) : EndsNow Q s' := by
  have hge : ¬ ((entry Q s').pc < (Q.code.size : Int)) := by
    show ¬ (s'.env.pc < (Q.code.size : Int))
    intro hlt
    have : s'.env.pc.toNat < Q.code.size := (Int.toNat_lt h0).mpr hlt
    simp [this] at hnone
  have hst := step_past_end_done Q (entry Q s') s' hge hf rfl
  intro fuel
  exact ⟨_, by simp [Terminal, St.save, hf], .inl (next_of_first_fin Q fuel s' _ _ hst)⟩

/-- the condition on the instruction at the saved pc under which the next call ends at once: it is
    not `opfork` (whose re-entry jumps to the alternative) and, if it is `opiter`, the value on top
    is the `emptyIter{}` pushed by `opiter`'s own error branches (not a restored iteration state) -/
def SavedEnds (code : Array Instr) (e : Env) : Prop :=
  match code[e.pc.toNat]? with
  | some (.fork _) => False
  | some .iter => e.stack.top? = some .emptyIter
  | _ => True

theorem endsNow_of_saved (P Q : Params) (hcode : Q.code = P.code) (s' : St) (hR : ReentryOK2 P s'.env)
    (hbt : s'.env.backtrack = true) (hs : SavedEnds P.code s'.env) : EndsNow Q s' := by
  obtain ⟨⟨hpc, hRR⟩, hforks, hlab⟩ := hR
  have hentry : (entry Q s').backtrack = true ∧ (entry Q s').err = none := ⟨hbt, rfl⟩
  unfold SavedEnds at hs
  cases hc : P.code[s'.env.pc.toNat]? with
  | none => exact endsNow_past_end Q s' hpc (by rw [hcode]; exact hc) hforks
  | some ins =>
    rw [hc] at hs
    obtain ⟨hb, _⟩ := hRR ins hc
    apply endsNow_of_brk Q s' ins hpc (by rw [hcode]; exact hc)
    cases ins with
    | fork t => exact hs.elim
    | iter =>
      obtain ⟨e1, h1, h2⟩ := iter_reentry_empty (Q.ext s'.polls) (entry Q s') s'.env hentry.2 hs
      exact ⟨_, e1, h1, by rw [h2]; exact hforks, rfl⟩
    | forklabel a b =>
      obtain ⟨e1, h1, h2⟩ := forklabel_reentry (a := a) (b := b) (Q.ext s'.polls) (entry Q s') s'.env hentry.1 hentry.2
        (hlab ⟨a, b, hc⟩)
      exact ⟨_, e1, h1, by rw [h2]; exact hforks, rfl⟩
    | _ =>
      obtain ⟨l', h1, h2⟩ := breaker_reentry_brk _ hb (by intro h; cases h) (by intro a b h; cases h)
        (by intro t h; cases h) (Q.ext s'.polls) (entry Q s') s'.env hentry.1 hentry.2
      exact ⟨l', s'.env, h1, hforks, h2⟩

/-- an error RAISED by the last turn (the turn was entered without an error) with no fork left:
    the saved pc is not at an `opfork`, and if it is at an `opiter`, `emptyIter{}` is on top -/
theorem savedEnds_of_raised (P : Params) (l : L) (s : St) (e : Err) (s' : St) (hw : StackWF s.env.stack)
    (hL : LInv P l s.env) (h : step P l s = .fin (.error e) s') (hno : l.err = none) :
    SavedEnds P.code s'.env := by
  obtain ⟨h0, h1, _, l', e', hex, hf, herr, rfl⟩ := step_fin_error P l s e s' h hL
  have hins := getD_some P.code l.pc h0 h1
  generalize hI : P.code.getD l.pc.toNat .bad = ins at hins hex
  have hpost := (exec_ok ins _ l s.env .brk l' e' hw (by intro he; simp [hno] at he) hex).2
  simp only [Post] at hpost
  unfold SavedEnds
  show match P.code[l'.pc.toNat]? with
    | some (.fork _) => False
    | some .iter => e'.stack.top? = some .emptyIter
    | _ => True
  rw [hpost.1, hins]
  cases ins with
  | fork t => exact fork_no_brk t _ l s.env l' e' hno hex
  | iter => exact iter_own_error_top _ l s.env l' e' hw hno hex (by simp [herr]) hf
  | _ => trivial

/-! ## backtracking states -/

/-- the loop is about to re-enter, in backtrack mode, an opcode that can `break loop`; the invariant
    holds; an opcode that pops first thing (`opiter`, `opforklabel`) finds a value -/
def BacktrackState (P : Params) (l : L) (e : Env) : Prop :=
  EnvInv2 P e ∧ l.backtrack = true ∧ 0 ≤ l.pc ∧
  ∀ ins, P.code[l.pc.toNat]? = some ins →
    isBreaker ins = true ∧ ((ins = .iter ∨ isLabel ins = true) → TopOK e.stack)

theorem forkLike_isBreaker (ins : Instr) (h : forkLike ins = true) : isBreaker ins = true := by
  cases ins <;> simp [forkLike] at h <;> rfl

/-- every fork pop of ordinary execution produces a backtracking state (at a fork-like opcode) -/
theorem unwind_backtrackState (P : Params) (l : L) (s : St) (hE : EnvInv2 P s.env) (l' : L) (s' : St)
    (h : unwind P l s = .cont l' s') :
    BacktrackState P l' s'.env ∧ ∃ ins, P.code[l'.pc.toNat]? = some ins ∧ forkLike ins = true := by
  have hx := unwind_extra P l s hE.2.1 hE.2.2
  unfold unwind at h hx
  split at h
  · simp at h
  · rename_i f rest hf
    simp only [hf] at hx
    have hx := hx (fun h0 => by simp at h0)
    simp at h
    obtain ⟨rfl, rfl⟩ := h
    obtain ⟨hw, hfk⟩ := hE.1
    have hfo : ForkOK P s.env.stack.data.size f := hfk f (by rw [hf]; simp)
    obtain ⟨a, b, c, d, ins, i0, i1, i2, i3⟩ := hfo
    obtain ⟨w1, w2, w3, w4, w5⟩ := hw
    have hEI : EnvInv P (popfork f rest s.env).1 :=
      ⟨⟨a, b, c, d, w5⟩, fun g hg => hfk g (by rw [hf]; exact List.mem_cons_of_mem _ hg)⟩
    refine ⟨⟨⟨hEI, hx.1, hx.2.1⟩, rfl, i0, fun ins' hins' => ?_⟩, ins, i1, i2⟩
    have : ins' = ins := by
      have h2 : P.code[f.pc.toNat]? = some ins' := hins'
      rw [i1] at h2; simpa using h2.symm
    subst this
    refine ⟨forkLike_isBreaker _ i2, fun hor => ?_⟩
    rcases hor with hi | hl
    · exact ⟨i3 hi, b⟩
    · exact ⟨hE.2.1 f (by rw [hf]; simp) ((labelAt_ins i1).mpr hl), b⟩

/-- the state left by an error return, entered by the next call, is a backtracking state -/
theorem reentry_backtrackState (P Q : Params) (hcode : Q.code = P.code) (s' : St) (hE : EnvInv2 P s'.env)
    (hR : ReentryOK2 P s'.env) (hbt : s'.env.backtrack = true) :
    BacktrackState Q (entry Q s') s'.env := by
  obtain ⟨⟨hpc, hRR⟩, hforks, hlab⟩ := hR
  refine ⟨hE.congr hcode, hbt, hpc, fun ins hins => ?_⟩
  have hins' : P.code[s'.env.pc.toNat]? = some ins := by rw [← hcode]; exact hins
  obtain ⟨hb, hi⟩ := hRR ins hins'
  refine ⟨hb, fun hor => ?_⟩
  rcases hor with h | h
  · exact hi h
  · exact hlab ((labelAt_ins hins').mpr h)

/-! ## the guard from a turn invariant -/

/-- the turns of a run: the first turn of every call, and every turn that follows a turn -/
inductive ReachTurn (P : Params) (fuel : Nat) (s0 : St) : L → St → Prop
  | entry (n : Nat) : ReachTurn P fuel s0 (entry P (after P fuel n s0)) (after P fuel n s0)
  | cont {l : L} {s : St} {l' : L} {s' : St} : ReachTurn P fuel s0 l s → step P l s = .cont l' s' →
      ReachTurn P fuel s0 l' s'

theorem loopGuard_of_reach (P : Params) (fuel0 : Nat) (s0 : St)
    (hall : ∀ l s, ReachTurn P fuel0 s0 l s → labelGuard P.code l s.env = true) :
    ∀ (fuel : Nat) (l : L) (s : St), ReachTurn P fuel0 s0 l s → loopGuard P fuel l s = true := by
  intro fuel
  induction fuel with
  | zero =>
    intro l s hr
    rw [loopGuard_zero, hall l s hr]
    cases step P l s <;> rfl
  | succ n ih =>
    intro l s hr
    rw [loopGuard_succ, hall l s hr]
    cases hs : step P l s with
    | fin o st => rfl
    | cont l' s' => simp only [Bool.true_and]; exact ih l' s' (.cont hr hs)

theorem historyGuard_of_reach (P : Params) (fuel : Nat) (s0 : St)
    (hall : ∀ l s, ReachTurn P fuel s0 l s → labelGuard P.code l s.env = true) :
    ∀ (n : Nat), historyGuard P fuel n s0 = true := by
  have key : ∀ (n k : Nat), historyGuard P fuel n (after P fuel k s0) = true := by
    intro n
    induction n with
    | zero => intro k; rfl
    | succ n ih =>
      intro k
      simp only [historyGuard, Bool.and_eq_true]
      refine ⟨loopGuard_of_reach P fuel s0 hall fuel _ _ (.entry k), ?_⟩
      have : (next P fuel (after P fuel k s0)).2 = after P fuel (k + 1) s0 := by
        have aux : ∀ (k : Nat) (s : St), after P fuel (k + 1) s = (next P fuel (after P fuel k s)).2 := by
          intro k
          induction k with
          | zero => intro s; rfl
          | succ k ihk => intro s; simp only [after] at ihk ⊢; exact ihk _
        exact (aux k s0).symm
      rw [this]
      exact ih (k + 1)
  intro n
  exact key n 0

end Gojq.VM

/-
  Helper definitions and lemmas for Props/C02Path.lean, part 1: the invariant of path tracking
  in `Spec.eval` and what the evaluator's primitives (`navigated`, `iterate`, `Res.bind`,
  `Res.append`, `nativeRes`, …) do to it.  Core Lean only.

  * `nav root p`   — value-level navigation EXACTLY as the evaluator navigates (a fold of
                     `funcIndex2`; it indexes strings, unlike `getpath`).
  * `SameVal a b`  — equality of values up to the sign of a floating-point zero (`pathIntact`
                     compares float64 with Go's `==`, under which `-0.0 == 0.0`).
  * `IdOK W v id`  — an identity `known r p` denotes the value found at `p` in root `W.ρ r`.
  * `CtxOK W ctx`  — the tracking context records a real location of `W.root`.
  * `EnvOK W env`  — every `$variable` of the environment (closures included) has `IdOK`.
  * `Post W b y`   — what every output state satisfies: `IdOK`, `CtxOK`, and tracking is on iff `b`.
-/
import Gojq.Proofs.SpecLaws
import Gojq.Props.C02
namespace Gojq.C02
open Gojq Gojq.Spec

/-! ### value-level navigation -/

/-- navigate `p` from `root` the way the evaluator does: one `funcIndex2` per key -/
def nav (root : JV) (p : List JV) : NRes := p.foldlM funcIndex2 root

theorem nav_nil (root : JV) : nav root [] = .ok root := rfl

theorem nav_append (root : JV) (p q : List JV) :
    nav root (p ++ q) = (nav root p >>= fun w => nav w q) := by
  simp only [nav, List.foldlM_append]

theorem nav_append_ok (root : JV) (p q : List JV) (w : JV) (h : nav root p = .ok w) :
    nav root (p ++ q) = nav w q := by
  rw [nav_append, h]; rfl

theorem nav_snoc (root : JV) (p : List JV) (k w : JV) (h : nav root p = .ok w) :
    nav root (p ++ [k]) = funcIndex2 w k := by
  rw [nav_append_ok root p [k] w h]
  simp only [nav, List.foldlM_cons, List.foldlM_nil]
  cases funcIndex2 w k <;> rfl

theorem nav_cons (root : JV) (k : JV) (p : List JV) :
    nav root (k :: p) = (funcIndex2 root k >>= fun w => nav w p) := by
  simp only [nav, List.foldlM_cons]

/-! ### equality up to the sign of zero -/

/-- a floating-point zero of either sign -/
def zeroNum : JV → Bool
  | .num .nzero => true
  | .num (.flt q) => q == 0
  | _ => false

/-- equal, or both a floating-point zero (`0.0` / `-0.0`) -/
def SameVal (a b : JV) : Prop := a = b ∨ (zeroNum a = true ∧ zeroNum b = true)

theorem SameVal.rfl' (a : JV) : SameVal a a := Or.inl rfl

theorem SameVal.symm {a b : JV} (h : SameVal a b) : SameVal b a := by
  rcases h with h | ⟨h1, h2⟩
  · exact Or.inl h.symm
  · exact Or.inr ⟨h2, h1⟩

theorem SameVal.trans {a b c : JV} (h : SameVal a b) (h' : SameVal b c) : SameVal a c := by
  rcases h with rfl | ⟨h1, h2⟩
  · exact h'
  · rcases h' with rfl | ⟨h3, h4⟩
    · exact Or.inr ⟨h1, h2⟩
    · exact Or.inr ⟨h1, h4⟩

/-- a value that is not a number is `SameVal` only to itself -/
theorem SameVal.eq_of_not_zero {a b : JV} (h : SameVal a b) (hb : zeroNum b = false) : a = b := by
  rcases h with h | ⟨_, h2⟩
  · exact h
  · rw [hb] at h2; cases h2

theorem SameVal.eq_of_not_zero_left {a b : JV} (h : SameVal a b) (ha : zeroNum a = false) : a = b := by
  rcases h with h | ⟨h1, _⟩
  · exact h
  · rw [ha] at h1; cases h1

/-- indexing a number is an error -/
theorem funcIndex2_num (n : Num) (k : JV) : ∃ e, funcIndex2 (.num n) k = .error e := by
  cases k with
  | null => exact ⟨_, rfl⟩
  | bool _ => exact ⟨_, rfl⟩
  | num _ => exact ⟨_, rfl⟩
  | str _ => exact ⟨_, rfl⟩
  | arr _ => exact ⟨_, rfl⟩
  | obj kvs =>
    simp only [funcIndex2]
    split
    · exact ⟨_, rfl⟩
    · exact ⟨_, rfl⟩

theorem zeroNum_false_of_index {v k w : JV} (h : funcIndex2 v k = .ok w) : zeroNum v = false := by
  cases v with
  | num n =>
    obtain ⟨e, he⟩ := funcIndex2_num n k
    rw [he] at h; cases h
  | _ => rfl

/-! ### worlds, identities, contexts -/

/-- the interpretation of the model's identities: the root of the `path(…)` activation under
    consideration and, for every root number, the value that root stands for -/
structure World where
  root : JV
  ρ : Nat → JV

/-- the identity `known r p` denotes the value at `p` under root `r` -/
def IdOK (W : World) (v : JV) (id : Ident) : Prop :=
  ∀ r p, id = .known r p → ∃ v0, nav (W.ρ r) p = .ok v0 ∧ SameVal v0 v

theorem IdOK.fresh (W : World) (v : JV) : IdOK W v .fresh := by
  intro r p h; cases h

theorem IdOK.unknown (W : World) (v : JV) : IdOK W v .unknown := by
  intro r p h; cases h

theorem IdOK.resultIdent (W : World) (given : List JV) (v : JV) : IdOK W v (resultIdent given v) := by
  unfold Spec.resultIdent
  split
  · exact IdOK.unknown W v
  · exact IdOK.fresh W v

/-- one navigation step keeps `IdOK` -/
theorem IdOK.child {W : World} {v : JV} {id : Ident} (h : IdOK W v id) {k w : JV}
    (hw : funcIndex2 v k = .ok w) : IdOK W w (childIdent id k) := by
  intro r p hp
  cases id with
  | known r' p' =>
    simp only [childIdent, Ident.known.injEq] at hp
    obtain ⟨rfl, rfl⟩ := hp
    obtain ⟨v0, hv0, hs⟩ := h r' p' rfl
    have : v0 = v := hs.eq_of_not_zero (zeroNum_false_of_index hw)
    subst this
    exact ⟨w, by rw [nav_snoc _ _ _ _ hv0, hw], SameVal.rfl' w⟩
  | fresh => simp [childIdent] at hp
  | unknown => simp [childIdent] at hp

/-- a whole path of navigation steps keeps `IdOK` -/
theorem IdOK.childs {W : World} : ∀ (path : List JV) {v : JV} {id : Ident}, IdOK W v id → ∀ {w : JV},
    nav v path = .ok w → IdOK W w (path.foldl childIdent id)
  | [], v, id, h, w, hw => by
    simp only [nav_nil, Except.ok.injEq] at hw; subst hw; exact h
  | k :: rest, v, id, h, w, hw => by
    rw [nav_cons] at hw
    cases h1 : funcIndex2 v k with
    | error e => rw [h1] at hw; cases hw
    | ok u =>
      rw [h1] at hw
      exact IdOK.childs rest (h.child h1) hw

/-- the tracking context records a real location of the root -/
def CtxOK (W : World) : Option PCtx → Prop
  | none => True
  | some c => (∃ w0, nav W.root c.path = .ok w0 ∧ SameVal w0 c.w) ∧ IdOK W c.w c.wid

/-- precondition on a state -/
def Pre (W : World) (s : St) : Prop := IdOK W s.v s.id ∧ CtxOK W s.ctx

/-- postcondition on an output state; `b` = "tracking was on in the input" -/
def Post (W : World) (b : Bool) (y : St) : Prop :=
  IdOK W y.v y.id ∧ CtxOK W y.ctx ∧ y.ctx.isSome = b

theorem Post.pre {W : World} {b : Bool} {y : St} (h : Post W b y) : Pre W y := ⟨h.1, h.2.1⟩

theorem Pre.post {W : World} {s : St} (h : Pre W s) : Post W s.ctx.isSome s := ⟨h.1, h.2, rfl⟩

theorem Post.trans {W : World} {b : Bool} {x y : St} (hx : Post W b x) (hy : Post W x.ctx.isSome y) :
    Post W b y := ⟨hy.1, hy.2.1, hy.2.2.trans hx.2.2⟩

/-- the state `s` with the context of `y` -/
theorem Pre.withCtxOf {W : World} {s : St} (hs : IdOK W s.v s.id) {ctx : Option PCtx} (hc : CtxOK W ctx) :
    Pre W { s with ctx := ctx } := ⟨hs, hc⟩

theorem Pre.noCtx {W : World} {s : St} (hs : Pre W s) : Pre W (withCtx none s) := ⟨hs.1, trivial⟩

theorem Post.computed {W : World} {s : St} (hs : Pre W s) (w : JV) : Post W s.ctx.isSome (computed s w) :=
  ⟨IdOK.fresh W w, hs.2, rfl⟩

theorem Post.resultOf {W : World} {s : St} (hs : CtxOK W s.ctx) (given : List JV) (w : JV) :
    Post W s.ctx.isSome (resultOf given s w) :=
  ⟨IdOK.resultIdent W given w, hs, rfl⟩

/-! ### predicates on all outputs of a result -/

/-- every output satisfies `Q` -/
def All (Q : St → Prop) (r : Res) : Prop := ∀ y ∈ r.outs, Q y

/-- `Q` does not look at the `pend` mark -/
def PendInv (Q : St → Prop) : Prop := ∀ y, Q y → Q { y with pend := true }

theorem Post.pendInv (W : World) (b : Bool) : PendInv (Post W b) := fun _ h => h

theorem PendInv.true : PendInv (fun _ => True) := fun _ h => h

theorem All.mono {Q Q' : St → Prop} {r : Res} (h : All Q r) (hq : ∀ y, Q y → Q' y) : All Q' r :=
  fun y hy => hq y (h y hy)

theorem All.triv (r : Res) : All (fun _ => True) r := fun _ _ => True.intro

theorem All.one {Q : St → Prop} {s : St} (h : Q s) : All Q (.one s) := by
  intro y hy; simp only [Res.one, List.mem_singleton] at hy; subst hy; exact h

theorem All.empty {Q : St → Prop} : All Q .empty := by
  intro y hy; simp [Res.empty] at hy

theorem All.fail {Q : St → Prop} (e : Err) : All Q (.fail e) := by
  intro y hy; simp [Res.fail] at hy

theorem All.unmodelled {Q : St → Prop} (why : String) : All Q (.unmodelled why) := by
  intro y hy; simp [Res.unmodelled] at hy

theorem All.outOfFuel {Q : St → Prop} : All Q .outOfFuel := by
  intro y hy; simp [Res.outOfFuel] at hy

theorem All.nil {Q : St → Prop} (st : Stop) : All Q ⟨[], st⟩ := by
  intro y hy; simp at hy

theorem All.mk {Q : St → Prop} {outs : List St} (st : Stop) (h : ∀ y ∈ outs, Q y) : All Q ⟨outs, st⟩ := h

/-- outputs are among those of another result -/
theorem All.of_subset {Q : St → Prop} {r r' : Res} (h : All Q r) (hs : ∀ y ∈ r'.outs, y ∈ r.outs) : All Q r' :=
  fun y hy => h y (hs y hy)

theorem All.bind {P Q : St → Prop} (hQ : PendInv Q) {r : Res} {f : St → Res}
    (hr : All P r) (hf : ∀ x, P x → All Q (f x)) : All Q (r.bind f) := by
  unfold Res.bind
  exact bindList_all Q hQ f r.stop r.outs (fun x hx => hf x (hr x hx))

theorem All.append {Q : St → Prop} {a : Res} {b : Unit → Res} (ha : All Q a) (hb : All Q (b ())) :
    All Q (a.append b) := by
  unfold Res.append
  split
  · intro y hy
    simp only [List.mem_append] at hy
    rcases hy with hy | hy
    · exact ha y hy
    · exact hb y hy
  · exact ha

theorem All.catchAll {Q : St → Prop} {r : Res} (h : All Q r) : All Q (catchAll r) := by
  unfold Spec.catchAll
  split <;> exact h

theorem All.nativeRes {W : World} {s : St} (hs : CtxOK W s.ctx) (name : String) (r : Option NRes) (given : List JV) :
    All (Post W s.ctx.isSome) (nativeRes s name r given) := by
  unfold Spec.nativeRes
  split
  · exact All.unmodelled _
  · exact All.one (Post.resultOf hs given _)
  · exact All.unmodelled _
  · exact All.fail _

theorem All.map_pend {Q : St → Prop} (hQ : PendInv Q) {outs : List St} (st : Stop) (h : ∀ y ∈ outs, Q y) :
    All Q ⟨outs.map ({ · with pend := true }), st⟩ := by
  intro y hy
  simp only [List.mem_map] at hy
  obtain ⟨z, hz, rfl⟩ := hy
  exact hQ z (h z hz)

theorem All.forEnvs {Q : St → Prop} {E : Env → Prop} (f : Env → Res) :
    ∀ (envs : List Env), (∀ e ∈ envs, E e) → (∀ e, E e → All Q (f e)) → All Q (forEnvs envs f) := by
  intro envs he hf
  unfold Spec.forEnvs
  suffices h : ∀ (acc : Res), All Q acc →
      All Q (envs.foldl (fun (acc : Res) env' => acc.append fun _ => f env') acc) from h _ All.empty
  induction envs with
  | nil => intro acc hacc; exact hacc
  | cons e es ih =>
    intro acc hacc
    simp only [List.foldl_cons]
    exact ih (fun e' he' => he e' (List.mem_cons_of_mem _ he')) _
      (All.append hacc (hf e (he e (List.mem_cons_self ..))))

/-! ### structural equality is equality -/
mutual
  theorem JV.eq_of_beq : ∀ a b : JV, JV.beq a b = true → a = b
    | .null, .null, _ => rfl
    | .bool a, .bool b, h => by simp only [JV.beq, beq_iff_eq] at h; rw [h]
    | .num a, .num b, h => by simp only [JV.beq, decide_eq_true_eq] at h; rw [h]
    | .str a, .str b, h => by simp only [JV.beq, beq_iff_eq] at h; rw [h]
    | .arr a, .arr b, h => by simp only [JV.beq] at h; rw [JV.eq_of_beqList a b h]
    | .obj a, .obj b, h => by simp only [JV.beq] at h; rw [JV.eq_of_beqKvs a b h]
    | .null, .bool _, h | .null, .num _, h | .null, .str _, h | .null, .arr _, h | .null, .obj _, h
    | .bool _, .null, h | .bool _, .num _, h | .bool _, .str _, h | .bool _, .arr _, h | .bool _, .obj _, h
    | .num _, .null, h | .num _, .bool _, h | .num _, .str _, h | .num _, .arr _, h | .num _, .obj _, h
    | .str _, .null, h | .str _, .bool _, h | .str _, .num _, h | .str _, .arr _, h | .str _, .obj _, h
    | .arr _, .null, h | .arr _, .bool _, h | .arr _, .num _, h | .arr _, .str _, h | .arr _, .obj _, h
    | .obj _, .null, h | .obj _, .bool _, h | .obj _, .num _, h | .obj _, .str _, h | .obj _, .arr _, h => by
      simp [JV.beq] at h
  theorem JV.eq_of_beqList : ∀ a b : List JV, JV.beqList a b = true → a = b
    | [], [], _ => rfl
    | x :: xs, y :: ys, h => by
      simp only [JV.beqList, Bool.and_eq_true] at h
      rw [JV.eq_of_beq x y h.1, JV.eq_of_beqList xs ys h.2]
    | [], _ :: _, h | _ :: _, [], h => by simp [JV.beqList] at h
  theorem JV.eq_of_beqKvs : ∀ a b : List (Bytes × JV), JV.beqKvs a b = true → a = b
    | [], [], _ => rfl
    | (k, x) :: xs, (l, y) :: ys, h => by
      simp only [JV.beqKvs, Bool.and_eq_true, beq_iff_eq] at h
      rw [h.1.1, JV.eq_of_beq x y h.1.2, JV.eq_of_beqKvs xs ys h.2]
    | [], _ :: _, h | _ :: _, [], h => by simp [JV.beqKvs] at h
end

theorem JV.eq_of_beq' {a b : JV} (h : (a == b) = true) : a = b := JV.eq_of_beq a b h

theorem JVList.eq_of_beq : ∀ {p q : List JV}, (p == q) = true → p = q
  | [], [], _ => rfl
  | x :: xs, y :: ys, h => by
    have h' : (x == y && xs == ys) = true := h
    simp only [Bool.and_eq_true] at h'
    rw [JV.eq_of_beq' h'.1, JVList.eq_of_beq h'.2]
  | [], _ :: _, h | _ :: _, [], h => by cases h

end Gojq.C02

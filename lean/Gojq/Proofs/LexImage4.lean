/-
  The lexer delivers well-formed tokens, part 4: the tokens of interpolated strings come in lexer
  order (`shapeOK`), hence `goodB (tokensOf src)` for EVERY source.
-/
import Gojq.Proofs.LexImage3
namespace Gojq.RefTerm
open Gojq Gojq.Lexer Gojq.Generated.Lalr
set_option linter.unusedSimpArgs false

/-- where `scanString` stops, seen from there -/
theorem scanString_drop (r : Bytes) (k0 : Nat) : ∀ k,
    (scanString r k0 = .interp k → ∃ j, k = k0 + j ∧ scanString (r.drop j) 0 = .interp 0) ∧
    (scanString r k0 = .quote k → ∃ j, k = k0 + j ∧ scanString (r.drop j) 0 = .quote 0) := by
  fun_induction scanString r k0
  case case3 c k hc e he a b c' d r4 hh ih =>
    intro K
    refine ⟨fun h => ?_, fun h => ?_⟩
    · obtain ⟨j, e1, e2⟩ := (ih K).1 h
      exact ⟨j + 6, by omega, by simpa using e2⟩
    · obtain ⟨j, e1, e2⟩ := (ih K).2 h
      exact ⟨j + 6, by omega, by simpa using e2⟩
  case case6 c k hc e r' hne he ih =>
    intro K
    refine ⟨fun h => ?_, fun h => ?_⟩
    · obtain ⟨j, e1, e2⟩ := (ih K).1 h
      exact ⟨j + 2, by omega, by simpa using e2⟩
    · obtain ⟨j, e1, e2⟩ := (ih K).2 h
      exact ⟨j + 2, by omega, by simpa using e2⟩
  case case7 c k hc e r' hne hne2 he =>
    intro K
    simp only [beq_iff_eq] at hc he
    subst hc he
    refine ⟨fun h => ?_, fun h => by simp at h⟩
    simp only [StrScan.interp.injEq] at h
    exact ⟨0, by omega, by rw [List.drop_zero, scanString.eq_def]; simp⟩
  case case9 c r k h92 h34 =>
    intro K
    simp only [beq_iff_eq] at h34
    subst h34
    refine ⟨fun h => by simp at h, fun h => ?_⟩
    simp only [StrScan.quote.injEq] at h
    exact ⟨0, by omega, by rw [List.drop_zero, scanString.eq_def]; simp⟩
  case case10 c r k h92 h34 ih =>
    intro K
    refine ⟨fun h => ?_, fun h => ?_⟩
    · obtain ⟨j, e1, e2⟩ := (ih K).1 h
      exact ⟨j + 1, by omega, by simpa using e2⟩
    · obtain ⟨j, e1, e2⟩ := (ih K).2 h
      exact ⟨j + 1, by omega, by simpa using e2⟩
  all_goals (intro K; constructor <;> intro h <;> simp at h)

theorem scanString_interp_drop (r : Bytes) (k : Nat) (h : scanString r 0 = .interp k) :
    scanString (r.drop k) 0 = .interp 0 ∧ k + 2 ≤ r.length := by
  obtain ⟨j, e1, e2⟩ := (scanString_drop r 0 k).1 h
  have hb := scanString_bounds r 0 r.length (by omega)
  rw [h] at hb
  have : j = k := by omega
  subst this
  exact ⟨e2, hb⟩

theorem scanString_quote_drop (r : Bytes) (k : Nat) (h : scanString r 0 = .quote k) :
    scanString (r.drop k) 0 = .quote 0 ∧ k + 1 ≤ r.length := by
  obtain ⟨j, e1, e2⟩ := (scanString_drop r 0 k).2 h
  have hb := scanString_bounds r 0 r.length (by omega)
  rw [h] at hb
  have : j = k := by omega
  subst this
  exact ⟨e2, hb⟩

/-! ### which token codes give the string tokens -/

theorem ite_ne {c : Prop} [Decidable c] {a b x : Tok} (ha : c → a ≠ x) (hb : ¬c → b ≠ x) :
    (if c then a else b) ≠ x := by
  split
  · exact ha ‹_›
  · exact hb ‹_›

theorem classify_eq_strStart (b : Bool) (ty : Int) (lv : LVal) (h : classify b ty lv = .strStart) :
    ty = tokStringStart := by
  apply Classical.byContradiction
  intro hne
  revert h
  unfold classify
  repeat' (apply ite_ne <;> intro _)
  all_goals first
    | (intro h; cases h; done)
    | (split <;> (intro h; cases h); done)
    | (rename_i h; cases h; done)
    | (rename_i h; have h' := beq_iff_eq.mp h; contradiction)
    | (split
       · intro h; cases h
       · split <;> (intro h; cases h))

theorem classify_false_ne_chunk (ty : Int) (lv : LVal) (x : Bytes) : classify false ty lv ≠ .chunk x := by
  have hne : True := trivial
  unfold classify
  repeat' (apply ite_ne <;> intro _)
  all_goals first
    | (intro h; cases h; done)
    | (split <;> (intro h; cases h); done)
    | (rename_i h; cases h; done)
    | (rename_i h; have h' := beq_iff_eq.mp h; contradiction)
    | (split
       · intro h; cases h
       · split <;> (intro h; cases h))

/-! ### only an opening quote before an interpolation gives `tokStringStart` -/

def ScSh (r : Bytes) (sc : Scan) : Prop :=
  sc.ty = tokStringStart → sc.inString = some true ∧ ∃ k, scanString (r.drop sc.n) 0 = .interp k

theorem ite_ScSh {r : Bytes} {c : Prop} [Decidable c] {a b : Scan} (ha : c → ScSh r a) (hb : ¬c → ScSh r b) :
    ScSh r (if c then a else b) := by
  split
  · exact ha ‹_›
  · exact hb ‹_›

theorem sh_of_ne {r : Bytes} {n : Nat} {tok : Option Bytes} {ty : Int} {lv : LVal} {is : Option Bool}
    (h : ty ≠ tokStringStart) : ScSh r { n := n, token := tok, ty := ty, lval := lv, inString := is } :=
  fun e => absurd e h

theorem scanStringTok_sh (q : UInt8) (r : Bytes) : ScSh r (scanStringTok false (some q) r) := by
  unfold scanStringTok
  cases hk : scanString r 0 with
  | unterminated => exact sh_of_ne (by decide)
  | invalidEscape e l => exact sh_of_ne (by decide)
  | interp k => intro _; exact ⟨rfl, k, by simpa using hk⟩
  | quote k => exact sh_of_ne (by decide)

theorem kw_code_ne_strStart (w : Kw) : w.code ≠ tokStringStart := by cases w <;> decide

theorem byte_ne_strStart (ch : UInt8) : ((ch.toNat : Nat) : Int) ≠ tokStringStart := by
  have := ch.toNat_lt
  simp only [tokStringStart]
  omega

theorem scanTok_sh (ch : UInt8) (r : Bytes) : ScSh r (scanTok false ch r) := by
  unfold scanTok
  simp only []
  repeat' (apply ite_ScSh <;> intro _)
  all_goals (try (exact scanStringTok_sh _ r))
  all_goals (try (exact sh_of_ne (by decide)))
  all_goals (try (exact sh_of_ne (byte_ne_strStart ch)))
  · refine sh_of_ne ?_
    split
    · decide
    · rw [bytesLookup_keywords]
      cases kwOfText (ch :: List.take (scanIdentOrModule r).fst r) with
      | none => decide
      | some w => exact kw_code_ne_strStart w
  · refine sh_of_ne ?_
    split <;> decide

/-! ### one call of `Lex`, by mode -/

theorem lx_false_shape (r : Bytes) (hne : ((lx r false).1 == eof) = false) :
    (lx r false).2.2.1.length < r.length ∧
    ((lx r false).1 = tokStringStart →
      (lx r false).2.2.2 = true ∧ ∃ k, scanString (lx r false).2.2.1 0 = .interp k) := by
  revert hne
  unfold lx lex
  simp only []
  split
  · intro h; simp [commit] at h
  · next hr =>
    have hr' : r ≠ [] := by intro e; simp [e] at hr
    have hb := next_bounds r hr'
    simp only [Bool.false_eq_true, if_false]
    split
    · intro h; simp at h
    · intro h; simp [commit] at h
    · next ch w hn =>
      intro _
      rw [hn] at hb
      simp only [Next.inBounds] at hb
      have hsh := scanTok_sh ch (r.drop w)
      simp only [commit, List.length_drop]
      refine ⟨by omega, fun hty => ?_⟩
      obtain ⟨h1, k, h2⟩ := hsh hty
      refine ⟨by simp [h1], k, ?_⟩
      rw [List.drop_drop] at h2
      exact h2

theorem lx_true (r : Bytes) (hr : r ≠ []) :
    lx r true = ((scanStringTok true none r).ty, (scanStringTok true none r).lval,
      r.drop (scanStringTok true none r).n, (scanStringTok true none r).inString.getD true) := by
  cases r with
  | nil => exact absurd rfl hr
  | cons c r => simp [lx, lex, commit]

theorem scanString_ne_nil {r : Bytes} {k : Nat} (h : scanString r 0 = .interp k ∨ scanString r 0 = .quote k) : r ≠ [] := by
  intro e; subst e; simp [scanString] at h

theorem step_query (r : Bytes) (h : scanString r 0 = .interp 0) : LexStep true r .strQuery (r.drop 2) false := by
  have hr := scanString_ne_nil (Or.inl h)
  unfold LexStep
  rw [lx_true r hr]
  simp only [scanStringTok, h, Bool.not_true, Bool.false_eq_true, if_false, beq_self_eq_true, if_true,
    Nat.add_one_ne_zero, beq_iff_eq, Nat.lt_irrefl, gt_iff_lt, Nat.zero_lt_succ]
  refine ⟨?_, ?_, ?_, ?_⟩ <;> first | rfl | decide | trivial

theorem step_end (r : Bytes) (h : scanString r 0 = .quote 0) : LexStep true r .strEnd (r.drop 1) false := by
  have hr := scanString_ne_nil (Or.inr h)
  unfold LexStep
  rw [lx_true r hr]
  simp only [scanStringTok, h, Bool.not_true, Bool.false_eq_true, if_false, beq_self_eq_true, if_true,
    Nat.add_one_ne_zero, beq_iff_eq, Nat.lt_irrefl, gt_iff_lt, Nat.zero_lt_succ]
  refine ⟨?_, ?_, ?_, ?_⟩ <;> first | rfl | decide | trivial

theorem step_chunkI (r : Bytes) (k : Nat) (h : scanString r 0 = .interp (k + 1)) :
    LexStep true r (.chunk (unquoteStr (r.take (k + 1)))) (r.drop (k + 1)) true := by
  have hr := scanString_ne_nil (Or.inl h)
  unfold LexStep
  rw [lx_true r hr]
  simp only [scanStringTok, h, Bool.not_true, Bool.false_eq_true, if_false, beq_self_eq_true, if_true,
    Nat.add_one_ne_zero, beq_iff_eq, Nat.lt_irrefl, gt_iff_lt, Nat.zero_lt_succ]
  refine ⟨?_, ?_, ?_, ?_⟩ <;> first | rfl | decide | trivial

theorem step_chunkQ (r : Bytes) (k : Nat) (h : scanString r 0 = .quote (k + 1)) :
    LexStep true r (.chunk (unquoteStr (r.take (k + 1)))) (r.drop (k + 1)) true := by
  have hr := scanString_ne_nil (Or.inr h)
  unfold LexStep
  rw [lx_true r hr]
  simp only [scanStringTok, h, Bool.not_true, Bool.false_eq_true, if_false, beq_self_eq_true, if_true,
    Nat.add_one_ne_zero, beq_iff_eq, Nat.lt_irrefl, gt_iff_lt, Nat.zero_lt_succ]
  refine ⟨?_, ?_, ?_, ?_⟩ <;> first | rfl | decide | trivial

theorem lx_true_bad (r : Bytes) (h : ∀ k, scanString r 0 ≠ .interp k ∧ scanString r 0 ≠ .quote k) :
    ((lx r true).1 == eof) = true ∨ (classify true (lx r true).1 (lx r true).2.1).isBad = true := by
  cases r with
  | nil => left; simp [lx, lex, commit]
  | cons c r =>
    right
    rw [lx_true (c :: r) (by simp)]
    simp only [scanStringTok]
    cases hk : scanString (c :: r) 0 with
    | unterminated => rfl
    | invalidEscape e l => rfl
    | interp k => exact absurd hk (h k).1
    | quote k => exact absurd hk (h k).2

/-! ### the order of the string tokens -/

theorem shapeOK_other (t : Tok) (rest : List Tok) (h1 : t ≠ .strStart) (h2 : ∀ x, t ≠ .chunk x) :
    shapeOK (t :: rest) = shapeOK rest := by
  cases t <;> first | rfl | exact absurd rfl h1 | exact absurd rfl (h2 _)

theorem shapeOK_bad (t : Tok) (h : t.isBad = true) : shapeOK [t] = true := by
  cases t <;> first | rfl | (simp [Tok.isBad] at h)

theorem shapeOK_start_query (rest : List Tok) : shapeOK (.strStart :: .strQuery :: rest) = shapeOK rest := by
  simp [shapeOK]
theorem shapeOK_start_chunk_query (x : Bytes) (rest : List Tok) :
    shapeOK (.strStart :: .chunk x :: .strQuery :: rest) = shapeOK rest := by
  simp [shapeOK]
theorem shapeOK_chunk_query (x : Bytes) (rest : List Tok) : shapeOK (.chunk x :: .strQuery :: rest) = shapeOK rest := by
  simp [shapeOK]
theorem shapeOK_chunk_end (x : Bytes) (rest : List Tok) : shapeOK (.chunk x :: .strEnd :: rest) = shapeOK rest := by
  simp [shapeOK]

theorem tkz_eof (f : Nat) (r : Bytes) (b : Bool) (stk : List Nat) (h : ((lx r b).1 == eof) = true) :
    tkz (f + 1) r b stk = [] := by
  simp [tkz, h]

theorem tkz_bad (f : Nat) (r : Bytes) (b : Bool) (stk : List Nat) (h : ((lx r b).1 == eof) = false)
    (hb : (classify b (lx r b).1 (lx r b).2.1).isBad = true) :
    tkz (f + 1) r b stk = [classify b (lx r b).1 (lx r b).2.1] := by
  simp [tkz, h, hb]

/-- the four situations: anywhere; just after the opening quote of an interpolated string; after
    the literal piece that follows it; after any literal piece -/
theorem tkz_shape (f : Nat) : ∀ (r : Bytes) (stk : List Nat), r.length < f →
    (∀ inStr, shapeOK (tkz f r inStr stk) = true) ∧
    ((∃ k, scanString r 0 = .interp k) → shapeOK (.strStart :: tkz f r true stk) = true) ∧
    (scanString r 0 = .interp 0 → ∀ x, shapeOK (.strStart :: .chunk x :: tkz f r true stk) = true) ∧
    ((scanString r 0 = .interp 0 ∨ scanString r 0 = .quote 0) → ∀ x, shapeOK (.chunk x :: tkz f r true stk) = true) := by
  induction f with
  | zero => intro r stk h; omega
  | succ f ih =>
    intro r stk hlen
    -- the steps inside a string
    have hQ : scanString r 0 = .interp 0 →
        tkz (f + 1) r true stk = .strQuery :: tkz f (r.drop 2) false (0 :: stk) ∧ (r.drop 2).length < f := by
      intro h
      have hb := (scanString_interp_drop r 0 h).2
      refine ⟨by rw [tkz_step f true r _ _ _ stk (step_query r h) rfl]; rfl, ?_⟩
      simp only [List.length_drop]; omega
    have hE : scanString r 0 = .quote 0 →
        tkz (f + 1) r true stk = .strEnd :: tkz f (r.drop 1) false stk ∧ (r.drop 1).length < f := by
      intro h
      have hb := (scanString_quote_drop r 0 h).2
      refine ⟨by rw [tkz_step f true r _ _ _ stk (step_end r h) rfl]; rfl, ?_⟩
      simp only [List.length_drop]; omega
    have hCI : ∀ k, scanString r 0 = .interp (k + 1) →
        tkz (f + 1) r true stk = .chunk (unquoteStr (r.take (k + 1))) :: tkz f (r.drop (k + 1)) true stk ∧
          (r.drop (k + 1)).length < f ∧ scanString (r.drop (k + 1)) 0 = .interp 0 := by
      intro k h
      have hb := scanString_interp_drop r (k + 1) h
      refine ⟨by rw [tkz_step f true r _ _ _ stk (step_chunkI r k h) rfl]; rfl, ?_, hb.1⟩
      simp only [List.length_drop]; omega
    have hCQ : ∀ k, scanString r 0 = .quote (k + 1) →
        tkz (f + 1) r true stk = .chunk (unquoteStr (r.take (k + 1))) :: tkz f (r.drop (k + 1)) true stk ∧
          (r.drop (k + 1)).length < f ∧ scanString (r.drop (k + 1)) 0 = .quote 0 := by
      intro k h
      have hb := scanString_quote_drop r (k + 1) h
      refine ⟨by rw [tkz_step f true r _ _ _ stk (step_chunkQ r k h) rfl]; rfl, ?_, hb.1⟩
      simp only [List.length_drop]; omega
    refine ⟨?_, ?_, ?_, ?_⟩
    · intro inStr
      cases inStr with
      | true =>
        cases hk : scanString r 0 with
        | interp k =>
          cases k with
          | zero =>
            obtain ⟨e, hl⟩ := hQ hk
            rw [e, shapeOK_other _ _ (by simp) (by simp)]
            exact (ih _ _ hl).1 false
          | succ k =>
            obtain ⟨e, hl, hs⟩ := hCI k hk
            rw [e]
            exact (ih _ _ hl).2.2.2 (Or.inl hs) _
        | quote k =>
          cases k with
          | zero =>
            obtain ⟨e, hl⟩ := hE hk
            rw [e, shapeOK_other _ _ (by simp) (by simp)]
            exact (ih _ _ hl).1 false
          | succ k =>
            obtain ⟨e, hl, hs⟩ := hCQ k hk
            rw [e]
            exact (ih _ _ hl).2.2.2 (Or.inr hs) _
        | unterminated =>
          rcases lx_true_bad r (by intro k; simp [hk]) with h | h
          · rw [tkz_eof f r true stk h]; rfl
          · by_cases he : ((lx r true).1 == eof) = true
            · rw [tkz_eof f r true stk he]; rfl
            · rw [tkz_bad f r true stk (by simpa using he) h]; exact shapeOK_bad _ h
        | invalidEscape a b =>
          rcases lx_true_bad r (by intro k; simp [hk]) with h | h
          · rw [tkz_eof f r true stk h]; rfl
          · by_cases he : ((lx r true).1 == eof) = true
            · rw [tkz_eof f r true stk he]; rfl
            · rw [tkz_bad f r true stk (by simpa using he) h]; exact shapeOK_bad _ h
      | false =>
        by_cases he : ((lx r false).1 == eof) = true
        · rw [tkz_eof f r false stk he]; rfl
        · have he' : ((lx r false).1 == eof) = false := by simpa using he
          by_cases hb : (classify false (lx r false).1 (lx r false).2.1).isBad = true
          · rw [tkz_bad f r false stk he' hb]; exact shapeOK_bad _ hb
          · have hb' : (classify false (lx r false).1 (lx r false).2.1).isBad = false := by simpa using hb
            obtain ⟨hl, hst⟩ := lx_false_shape r he'
            rw [tkz_step f false r _ _ _ stk ⟨he', rfl, rfl, rfl⟩ hb']
            by_cases hs : classify false (lx r false).1 (lx r false).2.1 = .strStart
            · obtain ⟨hfl, k, hk⟩ := hst (classify_eq_strStart _ _ _ hs)
              rw [hs, hfl]
              simp only [stepStk, Bool.false_eq_true, if_false]
              exact (ih _ _ (by omega)).2.1 ⟨k, hk⟩
            · rw [shapeOK_other _ _ hs (fun x => classify_false_ne_chunk _ _ x)]
              exact (ih _ _ (by omega)).1 _
    · rintro ⟨k, hk⟩
      cases k with
      | zero =>
        obtain ⟨e, hl⟩ := hQ hk
        rw [e, shapeOK_start_query]
        exact (ih _ _ hl).1 false
      | succ k =>
        obtain ⟨e, hl, hs⟩ := hCI k hk
        rw [e]
        exact (ih _ _ hl).2.2.1 hs _
    · intro hk x
      obtain ⟨e, hl⟩ := hQ hk
      rw [e, shapeOK_start_chunk_query]
      exact (ih _ _ hl).1 false
    · intro hk x
      rcases hk with hk | hk
      · obtain ⟨e, hl⟩ := hQ hk
        rw [e, shapeOK_chunk_query]
        exact (ih _ _ hl).1 false
      · obtain ⟨e, hl⟩ := hE hk
        rw [e, shapeOK_chunk_end]
        exact (ih _ _ hl).1 false

theorem tkz_wfI (f : Nat) : ∀ (r : Bytes) (inStr : Bool) (stk : List Nat),
    (tkz f r inStr stk).all Tok.wfI = true := by
  induction f with
  | zero => intro r inStr stk; rfl
  | succ f ih =>
    intro r inStr stk
    by_cases he : ((lx r inStr).1 == eof) = true
    · rw [tkz_eof f r inStr stk he]; rfl
    · have he' : ((lx r inStr).1 == eof) = false := by simpa using he
      have hw := lx_wfI r inStr
      by_cases hb : (classify inStr (lx r inStr).1 (lx r inStr).2.1).isBad = true
      · rw [tkz_bad f r inStr stk he' hb]; simp [hw]
      · have hb' : (classify inStr (lx r inStr).1 (lx r inStr).2.1).isBad = false := by simpa using hb
        rw [tkz_step f inStr r _ _ _ stk ⟨he', rfl, rfl, rfl⟩ hb']
        simp only [List.all_cons, hw, Bool.true_and]
        exact ih _ _ _

/-- THE LEXER DELIVERS GOOD TOKENS, for every source -/
theorem goodB_tokensOf (src : Bytes) : goodB (tokensOf src) = true := by
  rw [tokensOf_tkz]
  simp only [goodB, Bool.and_eq_true]
  exact ⟨tkz_wfI _ _ _ _, (tkz_shape _ src [] (by omega)).1 false⟩

end Gojq.RefTerm

/-
  Helper lemmas for C18 (Props/C18.lean): the lookup loop is a `find?` over the candidate
  list; what the scope bookkeeping of Model/Modules.lean leaves in the importer's scope.
-/
import Gojq.Model.Modules
namespace Gojq.Modules

deriving instance DecidableEq for Except

/-! ### lookup -/

theorem resolvePath_relative (env : Env) (s d : Path)
    (hrel : isAbsL s.toList = false) (h1 : hasPrefixL ['~', '/'] s.toList = false)
    (h2 : hasPrefixL "$ORIGIN/".toList s.toList = false) : resolvePath env s d = join [d, s] := by
  simp only [resolvePath, hrel, h1, h2, Bool.false_eq_true, if_false]

theorem lookupIn_eq_find (ex : Path → Bool) (name ext : String) (paths : List Path) :
    lookupIn ex name ext paths = (candidates name ext paths).find? ex := by
  induction paths with
  | nil => rfl
  | cons b rest ih =>
    simp only [lookupIn, candidates, List.find?]
    split
    · rename_i h; simp [h]
    · rename_i h
      simp only [h]
      split
      · rename_i h2; simp [h2]
      · rename_i h2; simp only [h2]; exact ih

/-! ### names left in scope -/

def nameArity (f : FuncInfo) : String × Nat := (f.name, f.argcnt)

def prefixNA (alias : String) (na : String × Nat) : String × Nat := (alias ++ "::" ++ na.1, na.2)

/-- the variables an import header pushes for its own data imports -/
def dataVars (depth : Nat) : List ITree → List VarInfo
  | [] => []
  | .data alias id :: rest =>
    ⟨"$" ++ alias, depth, "D:" ++ id⟩ :: ⟨"$" ++ alias ++ "::" ++ alias, depth, "D:" ++ id⟩ :: dataVars depth rest
  | .mod _ _ :: rest => dataVars depth rest
  | .fail _ :: rest => dataVars depth rest

theorem compileDef_spec {cfg : Cfg} {sc sc' : Scope} {d : Def} (h : compileDef cfg sc d = .ok sc') :
    sc'.funcs.map nameArity = sc.funcs.map nameArity ++ [(d.name, d.arity)]
      ∧ sc'.variables = sc.variables ∧ sc'.depth = sc.depth := by
  unfold compileDef at h
  split at h
  · cases h
  · cases h; simp [nameArity]

theorem compileDefs_spec {cfg : Cfg} : ∀ {ds : List Def} {sc sc' : Scope}, compileDefs cfg ds sc = .ok sc' →
    sc'.funcs.map nameArity = sc.funcs.map nameArity ++ ds.map (fun d => (d.name, d.arity))
      ∧ sc'.variables = sc.variables ∧ sc'.depth = sc.depth
  | [], sc, sc', h => by simp [compileDefs] at h; subst h; simp
  | d :: ds, sc, sc', h => by
    simp only [compileDefs] at h
    split at h
    · cases h
    · rename_i sc1 h1
      have ⟨a1, a2, a3⟩ := compileDef_spec h1
      have ⟨b1, b2, b3⟩ := compileDefs_spec h
      refine ⟨?_, ?_, ?_⟩
      · rw [b1, a1]; simp
      · rw [b2, a2]
      · rw [b3, a3]

theorem map_nameArity_prefixF (alias : String) (fs : List FuncInfo) :
    (fs.map (prefixF alias)).map nameArity = (fs.map nameArity).map (prefixNA alias) := by
  induction fs with
  | nil => rfl
  | cons f fs ih => simp [prefixF, nameArity, prefixNA]

mutual
  theorem compileMod_spec (cfg : Cfg) (hiso : cfg.isolate = true) :
      ∀ (t : MTree) (alias : String) (sc sc' : Scope), compileMod cfg t alias sc = .ok sc' →
        sc'.funcs.map nameArity = sc.funcs.map nameArity ++
            (if alias = "" then visibleMod t else (visibleMod t).map (prefixNA alias))
          ∧ sc'.variables = sc.variables ∧ sc'.depth = sc.depth
    | .node file imps defs, alias, sc, sc', h => by
      simp only [compileMod] at h
      split at h
      · -- include
        rename_i ha
        split at h
        · cases h
        · rename_i sc2 h2
          split at h
          · cases h
          · rename_i sc3 h3
            have ⟨a1, a2, a3⟩ := compileImports_spec cfg hiso imps _ _ h2
            have ⟨b1, b2, b3⟩ := compileDefs_spec h3
            cases h
            refine ⟨?_, ?_, ?_⟩
            · simp only [ha, if_true, visibleMod]
              rw [b1, a1]; simp
            · simp [b2, a2]
            · rfl
      · rename_i ha
        split at h
        · cases h
        · rename_i sc2 h2
          split at h
          · cases h
          · rename_i sc3 h3
            have ⟨a1, _, _⟩ := compileImports_spec cfg hiso imps _ _ h2
            have ⟨b1, _, _⟩ := compileDefs_spec h3
            cases h
            refine ⟨?_, rfl, rfl⟩
            simp only [ha, if_false, visibleMod, List.map_append, map_nameArity_prefixF]
            rw [b1, a1]; simp
  theorem compileImports_spec (cfg : Cfg) (hiso : cfg.isolate = true) :
      ∀ (imps : List ITree) (sc sc' : Scope), compileImports cfg imps sc = .ok sc' →
        sc'.funcs.map nameArity = sc.funcs.map nameArity ++ visibleImports imps
          ∧ sc'.variables = sc.variables ++ dataVars sc.depth imps ∧ sc'.depth = sc.depth
    | [], sc, sc', h => by
      simp [compileImports] at h; subst h; simp [visibleImports, dataVars]
    | .mod alias t :: rest, sc, sc', h => by
      simp only [compileImports] at h
      split at h
      · cases h
      · rename_i sc1 h1
        have ⟨a1, a2, a3⟩ := compileMod_spec cfg hiso t alias sc sc1 h1
        have ⟨b1, b2, b3⟩ := compileImports_spec cfg hiso rest sc1 sc' h
        refine ⟨?_, ?_, ?_⟩
        · rw [b1, a1]; simp only [visibleImports]; split <;> simp [prefixNA] <;> rfl
        · rw [b2, a2, a3]; simp [dataVars]
        · rw [b3, a3]
    | .data alias id :: rest, sc, sc', h => by
      simp only [compileImports] at h
      have ⟨b1, b2, b3⟩ := compileImports_spec cfg hiso rest _ sc' h
      refine ⟨?_, ?_, ?_⟩
      · rw [b1]; simp [pushData, createVariable, visibleImports]
      · rw [b2]; simp [pushData, createVariable, dataVars]
      · rw [b3]; simp [pushData, createVariable]
    | .fail e :: rest, sc, sc', h => by
      simp [compileImports] at h
end

/-! ### findLast -/

theorem findLast_append_singleton {α} (p : α → Bool) (xs : List α) (y : α) :
    findLast p (xs ++ [y]) = if p y then some y else findLast p xs := by
  induction xs with
  | nil => simp [findLast]
  | cons x xs ih =>
    simp only [List.cons_append, findLast, ih]
    by_cases hy : p y = true
    · simp [hy]
    · simp only [hy]
      cases findLast p xs <;> simp

theorem qualified_ne (alias : String) : ("$" ++ alias ++ "::" ++ alias == "$" ++ alias) = false := by
  have h : "$" ++ alias ++ "::" ++ alias ≠ "$" ++ alias := by
    intro h
    have h2 : ("$" ++ alias) ++ ("::" ++ alias) = ("$" ++ alias) ++ "" := by
      simp only [String.append_assoc, String.append_empty] at h ⊢
      exact h
    have h3 := (String.append_right_inj _).mp h2
    have h4 := congrArg String.length h3
    simp [String.length_append] at h4
  simpa using h

theorem lookupVar_pushData (sc : Scope) (alias id : String) :
    lookupVar (pushData sc alias id).variables ("$" ++ alias) = some ⟨"$" ++ alias, sc.depth, "D:" ++ id⟩
      ∧ lookupVar (pushData sc alias id).variables ("$" ++ alias ++ "::" ++ alias)
          = some ⟨"$" ++ alias ++ "::" ++ alias, sc.depth, "D:" ++ id⟩ := by
  constructor
  · simp only [lookupVar, pushData, createVariable, findLast_append_singleton, qualified_ne]
    simp
  · simp only [lookupVar, pushData, createVariable, findLast_append_singleton]
    simp

end Gojq.Modules

/-
  Helper lemmas for C18 (Props/C18.lean): the lookup loop is a `find?` over the candidate
  list; what the scope bookkeeping of Model/Modules.lean leaves in the importer's scope.
-/
import Gojq.Model.Modules
namespace Gojq.Modules

deriving instance DecidableEq for Except

/-! ### lookup -/

theorem resolvePath_relative (env : Env) (s d : Path)
    (hrel : isAbsL s.toList = false) (h1 : hasPrefixL ['~', '/'] s.toList = false)
    (h2 : hasPrefixL "$ORIGIN/".toList s.toList = false) : resolvePath env s d = join [d, s] := by
  simp only [resolvePath, hrel, h1, h2, Bool.false_eq_true, if_false]

theorem lookupIn_eq_find (ex : Path → Bool) (name ext : String) (paths : List Path) :
    lookupIn ex name ext paths = (candidates name ext paths).find? ex := by
  induction paths with
  | nil => rfl
  | cons b rest ih =>
    simp only [lookupIn, candidates, List.find?]
    split
    · rename_i h; simp [h]
    · rename_i h
      simp only [h]
      split
      · rename_i h2; simp [h2]
      · rename_i h2; simp only [h2]; exact ih

/-! ### names left in scope -/

def nameArity (f : FuncInfo) : String × Nat := (f.name, f.argcnt)

def prefixNA (alias : String) (na : String × Nat) : String × Nat := (alias ++ "::" ++ na.1, na.2)

/-- the variables an import header pushes for its own data imports -/
def dataVars (depth : Nat) : List ITree → List VarInfo
  | [] => []
  | .data alias id :: rest =>
    ⟨"$" ++ alias, depth, "D:" ++ id⟩ :: ⟨"$" ++ alias ++ "::" ++ alias, depth, "D:" ++ id⟩ :: dataVars depth rest
  | .mod _ _ :: rest => dataVars depth rest
  | .fail _ :: rest => dataVars depth rest

theorem compileDef_spec {cfg : Cfg} {sc sc' : Scope} {d : Def} (h : compileDef cfg sc d = .ok sc') :
    sc'.funcs.map nameArity = sc.funcs.map nameArity ++ [(d.name, d.arity)]
      ∧ sc'.variables = sc.variables ∧ sc'.depth = sc.depth := by
  unfold compileDef at h
  split at h
  · cases h
  · cases h; simp [nameArity]

theorem compileDefs_spec {cfg : Cfg} : ∀ {ds : List Def} {sc sc' : Scope}, compileDefs cfg ds sc = .ok sc' →
    sc'.funcs.map nameArity = sc.funcs.map nameArity ++ ds.map (fun d => (d.name, d.arity))
      ∧ sc'.variables = sc.variables ∧ sc'.depth = sc.depth
  | [], sc, sc', h => by simp [compileDefs] at h; subst h; simp
  | d :: ds, sc, sc', h => by
    simp only [compileDefs] at h
    split at h
    · cases h
    · rename_i sc1 h1
      have ⟨a1, a2, a3⟩ := compileDef_spec h1
      have ⟨b1, b2, b3⟩ := compileDefs_spec h
      refine ⟨?_, ?_, ?_⟩
      · rw [b1, a1]; simp
      · rw [b2, a2]
      · rw [b3, a3]

theorem map_nameArity_prefixF (alias : String) (fs : List FuncInfo) :
    (fs.map (prefixF alias)).map nameArity = (fs.map nameArity).map (prefixNA alias) := by
  induction fs with
  | nil => rfl
  | cons f fs ih => simp [prefixF, nameArity, prefixNA]

mutual
  theorem compileMod_spec (cfg : Cfg) (hiso : cfg.isolate = true) :
      ∀ (t : MTree) (alias : String) (sc sc' : Scope), compileMod cfg t alias sc = .ok sc' →
        sc'.funcs.map nameArity = sc.funcs.map nameArity ++
            (if alias = "" then visibleMod t else (visibleMod t).map (prefixNA alias))
          ∧ sc'.variables = sc.variables ∧ sc'.depth = sc.depth
    | .node file imps defs, alias, sc, sc', h => by
      simp only [compileMod] at h
      split at h
      · -- include
        rename_i ha
        split at h
        · cases h
        · rename_i sc2 h2
          split at h
          · cases h
          · rename_i sc3 h3
            have ⟨a1, a2, a3⟩ := compileImports_spec cfg hiso imps _ _ h2
            have ⟨b1, b2, b3⟩ := compileDefs_spec h3
            cases h
            refine ⟨?_, ?_, ?_⟩
            · simp only [ha, if_true, visibleMod]
              rw [b1, a1]; simp
            · simp [b2, a2]
            · rfl
      · rename_i ha
        split at h
        · cases h
        · rename_i sc2 h2
          split at h
          · cases h
          · rename_i sc3 h3
            have ⟨a1, _, _⟩ := compileImports_spec cfg hiso imps _ _ h2
            have ⟨b1, _, _⟩ := compileDefs_spec h3
            cases h
            refine ⟨?_, rfl, rfl⟩
            simp only [ha, if_false, visibleMod, List.map_append, map_nameArity_prefixF]
            rw [b1, a1]; simp
  theorem compileImports_spec (cfg : Cfg) (hiso : cfg.isolate = true) :
      ∀ (imps : List ITree) (sc sc' : Scope), compileImports cfg imps sc = .ok sc' →
        sc'.funcs.map nameArity = sc.funcs.map nameArity ++ visibleImports imps
          ∧ sc'.variables = sc.variables ++ dataVars sc.depth imps ∧ sc'.depth = sc.depth
    | [], sc, sc', h => by
      simp [compileImports] at h; subst h; simp [visibleImports, dataVars]
    | .mod alias t :: rest, sc, sc', h => by
      simp only [compileImports] at h
      split at h
      · cases h
      · rename_i sc1 h1
        have ⟨a1, a2, a3⟩ := compileMod_spec cfg hiso t alias sc sc1 h1
        have ⟨b1, b2, b3⟩ := compileImports_spec cfg hiso rest sc1 sc' h
        refine ⟨?_, ?_, ?_⟩
        · rw [b1, a1]; simp only [visibleImports]; split <;> simp [prefixNA] <;> rfl
        · rw [b2, a2, a3]; simp [dataVars]
        · rw [b3, a3]
    | .data alias id :: rest, sc, sc', h => by
      simp only [compileImports] at h
      have ⟨b1, b2, b3⟩ := compileImports_spec cfg hiso rest _ sc' h
      refine ⟨?_, ?_, ?_⟩
      · rw [b1]; simp [pushData, createVariable, visibleImports]
      · rw [b2]; simp [pushData, createVariable, dataVars]
      · rw [b3]; simp [pushData, createVariable]
    | .fail e :: rest, sc, sc', h => by
      simp [compileImports] at h
end

/-! ### findLast -/

theorem findLast_append_singleton {α} (p : α → Bool) (xs : List α) (y : α) :
    findLast p (xs ++ [y]) = if p y then some y else findLast p xs := by
  induction xs with
  | nil => simp [findLast]
  | cons x xs ih =>
    simp only [List.cons_append, findLast, ih]
    by_cases hy : p y = true
    · simp [hy]
    · simp only [hy]
      cases findLast p xs <;> simp

theorem qualified_ne (alias : String) : ("$" ++ alias ++ "::" ++ alias == "$" ++ alias) = false := by
  have h : "$" ++ alias ++ "::" ++ alias ≠ "$" ++ alias := by
    intro h
    have h2 : ("$" ++ alias) ++ ("::" ++ alias) = ("$" ++ alias) ++ "" := by
      simp only [String.append_assoc, String.append_empty] at h ⊢
      exact h
    have h3 := (String.append_right_inj _).mp h2
    have h4 := congrArg String.length h3
    simp [String.length_append] at h4
  simpa using h

theorem lookupVar_pushData (sc : Scope) (alias id : String) :
    lookupVar (pushData sc alias id).variables ("$" ++ alias) = some ⟨"$" ++ alias, sc.depth, "D:" ++ id⟩
      ∧ lookupVar (pushData sc alias id).variables ("$" ++ alias ++ "::" ++ alias)
          = some ⟨"$" ++ alias ++ "::" ++ alias, sc.depth, "D:" ++ id⟩ := by
  constructor
  · simp only [lookupVar, pushData, createVariable, findLast_append_singleton, qualified_ne]
    simp
  · simp only [lookupVar, pushData, createVariable, findLast_append_singleton]
    simp



/-! ### textual inclusion = import compilation (functions; no data imports) -/

mutual
  /-- no data imports and no load failures anywhere in the tree -/
  def pureMod : MTree → Bool
    | .node _ imps _ => pureImports imps
  def pureImports : List ITree → Bool
    | [] => true
    | .mod _ t :: rest => pureMod t && pureImports rest
    | .data _ _ :: _ => false
    | .fail _ :: _ => false
end

/-- every function call in the block refers to the definition being made or to an earlier
    definition of the block (`seen`) -/
def closedDefs (seen : List (String × Nat)) : List Def → Bool
  | [] => true
  | d :: ds =>
    d.calls.all (fun c => match c with
      | .fn n a => (n == d.name && a == d.arity) || seen.contains (n, a)
      | .var _ => true)
    && closedDefs (seen ++ [(d.name, d.arity)]) ds

mutual
  /-- the text of every module imported with an alias (at any depth) is closed -/
  def closedMod : MTree → Bool
    | .node _ imps _ => closedImports imps
  def closedImports : List ITree → Bool
    | [] => true
    | .mod alias t :: rest => (decide (alias = "") || closedDefs [] (inlineMod t)) && closedMod t && closedImports rest
    | .data _ _ :: rest => closedImports rest
    | .fail _ :: rest => closedImports rest
end

theorem findLast_append {α} (p : α → Bool) (xs ys : List α) :
    findLast p (xs ++ ys) = match findLast p ys with | some y => some y | none => findLast p xs := by
  induction xs with
  | nil => simp [findLast]; cases findLast p ys <;> rfl
  | cons x xs ih =>
    simp only [List.cons_append, findLast, ih]
    cases findLast p ys <;> simp

theorem findLast_map {α β} (f : α → β) (p : β → Bool) (xs : List α) :
    findLast p (xs.map f) = (findLast (p ∘ f) xs).map f := by
  induction xs with
  | nil => rfl
  | cons x xs ih =>
    simp only [List.map_cons, findLast, ih]
    cases findLast (p ∘ f) xs <;> simp [Function.comp]

theorem findLast_isSome_of_mem {α} (p : α → Bool) (xs : List α) (x : α) (hx : x ∈ xs) (hp : p x = true) :
    (findLast p xs).isSome = true := by
  induction xs with
  | nil => cases hx
  | cons y ys ih =>
    simp only [findLast]
    cases h : findLast p ys with
    | some z => simp
    | none =>
      rcases List.mem_cons.mp hx with rfl | h'
      · simp [hp]
      · have := ih h'; simp [h] at this

theorem prefixed_name_eq (a n m : String) : (a ++ "::" ++ n == a ++ "::" ++ m) = (n == m) := by
  by_cases h : n = m
  · subst h
    rw [beq_self_eq_true, beq_self_eq_true]
  · have h2 : a ++ "::" ++ n ≠ a ++ "::" ++ m := fun h' => h ((String.append_right_inj _).mp h')
    rw [beq_eq_false_iff_ne.mpr h, beq_eq_false_iff_ne.mpr h2]

theorem lookupFunc_prefixed (a : String) (F L : List FuncInfo) (n : String) (k : Nat)
    (h : (lookupFunc L n k).isSome = true) :
    lookupFunc (F ++ L.map (prefixF a)) (a ++ "::" ++ n) k = (lookupFunc L n k).map (prefixF a) := by
  unfold lookupFunc at *
  rw [findLast_append, findLast_map]
  have hcomp : ((fun f : FuncInfo => f.name == a ++ "::" ++ n && f.argcnt == k) ∘ prefixF a)
      = (fun f : FuncInfo => f.name == n && f.argcnt == k) := by
    funext f; simp [Function.comp, prefixF, prefixed_name_eq]
  rw [hcomp]
  cases hh : findLast (fun f : FuncInfo => f.name == n && f.argcnt == k) L with
  | none => simp [hh] at h
  | some f => simp

/-- scope used on the importing side while a block that came from `import … as a` is compiled -/
def outerScope (a : String) (F L : List FuncInfo) (V : List VarInfo) (d : Nat) : Scope :=
  { funcs := F ++ L.map (prefixF a), variables := V, depth := d }

theorem mem_names_lookup (L : List FuncInfo) (n : String) (k : Nat) (h : (L.map nameArity).contains (n, k) = true) :
    (lookupFunc L n k).isSome = true := by
  rw [List.contains_iff_mem, List.mem_map] at h
  obtain ⟨f, hf, hfe⟩ := h
  simp only [nameArity, Prod.mk.injEq] at hfe
  exact findLast_isSome_of_mem _ L f hf (by simp [hfe.1, hfe.2])

theorem resolveCall_renamed (cfg : Cfg) (a : String) (F L : List FuncInfo) (V : List VarInfo) (d d' : Nat)
    (self : String × Nat) (c : Call)
    (hc : match c with
      | .fn n k => ((n == self.1 && k == self.2) || (L.map nameArity).contains (n, k)) = true
      | .var _ => True) :
    resolveCall cfg (outerScope a F L V d) (some (a ++ "::" ++ self.1, self.2)) (prefixCall a c)
      = resolveCall cfg ⟨L, V, d'⟩ (some self) c := by
  cases c with
  | var n => simp [resolveCall, prefixCall, outerScope]
  | fn n k =>
    simp only [prefixCall, resolveCall]
    have hself : (some (a ++ "::" ++ self.1, self.2) == some (a ++ "::" ++ n, k)) = (some self == some (n, k)) := by
      cases self with
      | mk s1 s2 =>
        by_cases h1 : s1 = n <;> by_cases h2 : s2 = k
        · subst h1; subst h2; simp
        · have : (s1, s2) ≠ (n, k) := fun h => h2 (Prod.mk.inj h).2
          have h3 : (a ++ "::" ++ s1, s2) ≠ (a ++ "::" ++ n, k) := fun h => h2 (Prod.mk.inj h).2
          simp only [Option.some_beq_some]
          rw [beq_eq_false_iff_ne.mpr this, beq_eq_false_iff_ne.mpr h3]
        · have : (s1, s2) ≠ (n, k) := fun h => h1 (Prod.mk.inj h).1
          have h3 : (a ++ "::" ++ s1, s2) ≠ (a ++ "::" ++ n, k) :=
            fun h => h1 ((String.append_right_inj _).mp (Prod.mk.inj h).1)
          simp only [Option.some_beq_some]
          rw [beq_eq_false_iff_ne.mpr this, beq_eq_false_iff_ne.mpr h3]
        · have : (s1, s2) ≠ (n, k) := fun h => h1 (Prod.mk.inj h).1
          have h3 : (a ++ "::" ++ s1, s2) ≠ (a ++ "::" ++ n, k) := fun h => h2 (Prod.mk.inj h).2
          simp only [Option.some_beq_some]
          rw [beq_eq_false_iff_ne.mpr this, beq_eq_false_iff_ne.mpr h3]
    by_cases hs : (some self == some (n, k)) = true
    · simp only [hself, hs, if_true]
    · have hs' : (some self == some (n, k)) = false := by simpa using hs
      simp only [hself, hs', Bool.false_eq_true, if_false]
      have hne : ¬ ((n == self.1 && k == self.2) = true) := by
        intro h
        simp only [Bool.and_eq_true, beq_iff_eq] at h
        apply hs
        cases self; simp_all
      have hin : (L.map nameArity).contains (n, k) = true := by
        simp only [Bool.or_eq_true] at hc
        rcases hc with h | h
        · exact absurd h hne
        · exact h
      have hsome := mem_names_lookup L n k hin
      simp only [outerScope]
      rw [lookupFunc_prefixed a F L n k hsome]
      cases hl : lookupFunc L n k with
      | none => simp [hl] at hsome
      | some f => simp [prefixF]

def callOk (self : String × Nat) (seen : List (String × Nat)) (c : Call) : Bool :=
  match c with
  | .fn n k => (n == self.1 && k == self.2) || seen.contains (n, k)
  | .var _ => true

theorem resolveCalls_renamed (cfg : Cfg) (a : String) (F L : List FuncInfo) (V : List VarInfo) (d d' : Nat)
    (self : String × Nat) : ∀ (cs : List Call), cs.all (callOk self (L.map nameArity)) = true →
    resolveCalls cfg (outerScope a F L V d) (some (a ++ "::" ++ self.1, self.2)) (cs.map (prefixCall a))
      = resolveCalls cfg ⟨L, V, d'⟩ (some self) cs
  | [], _ => rfl
  | c :: cs, h => by
    simp only [List.all_cons, Bool.and_eq_true] at h
    have h1 := resolveCall_renamed cfg a F L V d d' self c (by
      cases c with
      | fn n k => simpa [callOk] using h.1
      | var n => trivial)
    simp only [List.map_cons, resolveCalls, h1, resolveCalls_renamed cfg a F L V d d' self cs h.2]

theorem closedDefs_cons (seen : List (String × Nat)) (d : Def) (ds : List Def) :
    closedDefs seen (d :: ds) = (d.calls.all (callOk (d.name, d.arity) seen) && closedDefs (seen ++ [(d.name, d.arity)]) ds) := by
  simp only [closedDefs]
  congr 2

/-- compiling a renamed closed block in the importer's scope = compiling the block on its own
    and prefixing the names afterwards -/
theorem compileDefs_renamed (cfg : Cfg) (a : String) (F : List FuncInfo) (V : List VarInfo) (d d' : Nat) :
    ∀ (ds : List Def) (L : List FuncInfo), closedDefs (L.map nameArity) ds = true →
    compileDefs cfg (renameDefs a ds) (outerScope a F L V d)
      = (compileDefs cfg ds ⟨L, V, d'⟩).map (fun s => outerScope a F s.funcs V d)
  | [], L, _ => by simp [renameDefs, compileDefs, Except.map]
  | dd :: ds, L, h => by
    rw [closedDefs_cons, Bool.and_eq_true] at h
    have hr := resolveCalls_renamed cfg a F L V d d' (dd.name, dd.arity) dd.calls h.1
    simp only [renameDefs, List.map_cons, compileDefs, compileDef]
    simp only at hr
    rw [hr]
    cases hres : resolveCalls cfg ⟨L, V, d'⟩ (some (dd.name, dd.arity)) dd.calls with
    | error e => simp [Except.map]
    | ok subs =>
      simp only
      have ih := compileDefs_renamed cfg a F V d d' ds (L ++ [⟨dd.name, dd.arity, render dd.tag subs⟩])
        (by simpa [nameArity] using h.2)
      have hsc : ({ funcs := (outerScope a F L V d).funcs ++ [⟨a ++ "::" ++ dd.name, dd.arity, render dd.tag subs⟩],
                    variables := (outerScope a F L V d).variables, depth := (outerScope a F L V d).depth } : Scope)
          = outerScope a F (L ++ [⟨dd.name, dd.arity, render dd.tag subs⟩]) V d := by
        simp [outerScope, prefixF]
      simp only [renameDefs] at ih
      rw [hsc, ih]

theorem compileDefs_append (cfg : Cfg) : ∀ (xs ys : List Def) (sc : Scope),
    compileDefs cfg (xs ++ ys) sc =
      match compileDefs cfg xs sc with
      | .error e => .error e
      | .ok s => compileDefs cfg ys s
  | [], ys, sc => by simp [compileDefs]
  | x :: xs, ys, sc => by
    simp only [List.cons_append, compileDefs]
    cases compileDef cfg sc x with
    | error e => rfl
    | ok s => exact compileDefs_append cfg xs ys s

theorem resolveCalls_depth (cfg : Cfg) (sc : Scope) (d : Nat) (self : Option (String × Nat)) :
    ∀ cs, resolveCalls cfg { sc with depth := d } self cs = resolveCalls cfg sc self cs
  | [] => rfl
  | c :: cs => by
    have h1 : resolveCall cfg { sc with depth := d } self c = resolveCall cfg sc self c := by
      cases c <;> rfl
    simp only [resolveCalls, h1, resolveCalls_depth cfg sc d self cs]

theorem compileDefs_depth (cfg : Cfg) (d : Nat) : ∀ (ds : List Def) (sc : Scope),
    compileDefs cfg ds { sc with depth := d } = (compileDefs cfg ds sc).map (fun s => { s with depth := d })
  | [], sc => by simp [compileDefs, Except.map]
  | x :: xs, sc => by
    simp only [compileDefs, compileDef, resolveCalls_depth]
    cases resolveCalls cfg sc (some (x.name, x.arity)) x.calls with
    | error e => simp [Except.map]
    | ok subs =>
      exact compileDefs_depth cfg d xs { sc with funcs := sc.funcs ++ [⟨x.name, x.arity, render x.tag subs⟩] }

mutual
  theorem compileMod_inline (cfg : Cfg) (hiso : cfg.isolate = true) :
      ∀ (t : MTree) (alias : String) (sc : Scope), pureMod t = true → closedMod t = true →
        (alias = "" ∨ closedDefs [] (inlineMod t) = true) → sc.variables.length ≤ cfg.globalcnt →
        compileMod cfg t alias sc
          = compileDefs cfg (if alias = "" then inlineMod t else renameDefs alias (inlineMod t)) sc
    | .node file imps defs, alias, sc, hp, hc, hcl, hv => by
      simp only [pureMod] at hp
      simp only [closedMod] at hc
      simp only [compileMod]
      split
      · -- include
        rename_i ha
        simp only [inlineMod]
        rw [compileImports_inline cfg hiso imps _ hp hc (by simpa using hv)]
        rw [compileDefs_append, compileDefs_depth]
        cases h1 : compileDefs cfg (inlineImports imps) sc with
        | error e => simp [Except.map]
        | ok s =>
          simp only [Except.map]
          rw [compileDefs_depth]
          cases h2 : compileDefs cfg defs s with
          | error e => simp [Except.map]
          | ok s3 =>
            have ⟨_, a2, a3⟩ := compileDefs_spec h1
            have ⟨_, b2, b3⟩ := compileDefs_spec h2
            simp only [Except.map]
            congr 1
            cases s3 with
            | mk f v dd =>
              simp only at b2 b3
              simp [b2, a2, b3, a3]
      · rename_i ha
        simp only [inlineMod]
        have htake : List.take (min cfg.globalcnt sc.variables.length) sc.variables = sc.variables := by
          rw [Nat.min_eq_right hv]; exact List.take_length
        rw [htake]
        rw [compileImports_inline cfg hiso imps _ hp hc (by simpa using hv)]
        have hclosed : closedDefs [] (inlineImports imps ++ defs) = true := by
          rcases hcl with h | h
          · exact absurd h ha
          · simpa [inlineMod] using h
        have hr := compileDefs_renamed cfg alias sc.funcs sc.variables sc.depth (sc.depth + 1)
          (inlineImports imps ++ defs) [] (by simpa using hclosed)
        have hsc : outerScope alias sc.funcs [] sc.variables sc.depth = sc := by
          cases sc; simp [outerScope]
        rw [hsc] at hr
        rw [hr, compileDefs_append]
        cases h1 : compileDefs cfg (inlineImports imps) ⟨[], sc.variables, sc.depth + 1⟩ with
        | error e => simp [Except.map]
        | ok s =>
          simp only [Except.map]
          cases h2 : compileDefs cfg defs s with
          | error e => rfl
          | ok s3 => simp [outerScope]
  theorem compileImports_inline (cfg : Cfg) (hiso : cfg.isolate = true) :
      ∀ (imps : List ITree) (sc : Scope), pureImports imps = true → closedImports imps = true →
        sc.variables.length ≤ cfg.globalcnt →
        compileImports cfg imps sc = compileDefs cfg (inlineImports imps) sc
    | [], sc, _, _, _ => by simp [compileImports, inlineImports, compileDefs]
    | .mod alias t :: rest, sc, hp, hc, hv => by
      simp only [pureImports, Bool.and_eq_true] at hp
      simp only [closedImports, Bool.and_eq_true, Bool.or_eq_true, decide_eq_true_eq] at hc
      simp only [compileImports, inlineImports]
      rw [compileMod_inline cfg hiso t alias sc hp.1 hc.1.2 hc.1.1 hv, compileDefs_append]
      cases h1 : compileDefs cfg (if alias = "" then inlineMod t else renameDefs alias (inlineMod t)) sc with
      | error e => rfl
      | ok s =>
        have ⟨_, a2, _⟩ := compileDefs_spec h1
        exact compileImports_inline cfg hiso rest s hp.2 hc.2 (by rw [a2]; exact hv)
    | .data _ _ :: rest, sc, hp, _, _ => by simp [pureImports] at hp
    | .fail _ :: rest, sc, hp, _, _ => by simp [pureImports] at hp
end


/-! ### modulemeta: the definition list is sorted -/


def defLe (a b : String × Nat) : Prop := defLt b a = false

theorem defLt_iff (a b : String × Nat) : defLt a b = true ↔ a.1 < b.1 ∨ (a.1 = b.1 ∧ a.2 < b.2) := by
  simp [defLt]

theorem defLe_total (a b : String × Nat) : defLe a b ∨ defLe b a := by
  unfold defLe
  by_cases h : defLt b a = true
  · right
    rw [defLt_iff] at h
    cases hh : defLt a b with
    | false => rfl
    | true =>
      rw [defLt_iff] at hh
      rcases h with h | ⟨h1, h2⟩ <;> rcases hh with hh | ⟨hh1, hh2⟩
      · exact absurd hh (String.lt_asymm h)
      · rw [hh1] at h; exact absurd h (String.lt_irrefl _)
      · rw [h1] at hh; exact absurd hh (String.lt_irrefl _)
      · omega
  · left; simpa using h

theorem defLe_trans (a b c : String × Nat) (h1 : defLe a b) (h2 : defLe b c) : defLe a c := by
  unfold defLe at *
  cases hh : defLt c a with
  | false => rfl
  | true =>
    exfalso
    rw [defLt_iff] at hh
    have n1 : ¬ (b.1 < a.1 ∨ (b.1 = a.1 ∧ b.2 < a.2)) := by rw [← defLt_iff]; simp [h1]
    have n2 : ¬ (c.1 < b.1 ∨ (c.1 = b.1 ∧ c.2 < b.2)) := by rw [← defLt_iff]; simp [h2]
    simp only [not_or, not_and] at n1 n2
    have ab : a.1 ≤ b.1 := String.not_lt.mp n1.1
    have bc : b.1 ≤ c.1 := String.not_lt.mp n2.1
    rcases hh with hh | ⟨e, hh⟩
    · exact absurd hh (String.not_lt.mpr (String.le_trans ab bc))
    · -- c.1 = a.1, so a.1 = b.1 = c.1
      have hba : b.1 ≤ a.1 := by rw [← e]; exact bc
      have eab : a.1 = b.1 := String.le_antisymm ab hba
      have ebc : c.1 = b.1 := by rw [e, eab]
      have := n1.2 eab.symm
      have := n2.2 ebc
      omega

theorem insertDef_mem (x y : String × Nat) (l : List (String × Nat)) : y ∈ insertDef x l ↔ y = x ∨ y ∈ l := by
  induction l with
  | nil => simp [insertDef]
  | cons z zs ih =>
    simp only [insertDef]
    split
    · simp only [List.mem_cons, ih]
      constructor
      · rintro (h | h | h)
        · exact Or.inr (Or.inl h)
        · exact Or.inl h
        · exact Or.inr (Or.inr h)
      · rintro (h | h | h)
        · exact Or.inr (Or.inl h)
        · exact Or.inl h
        · exact Or.inr (Or.inr h)
    · simp [List.mem_cons]

theorem insertDef_sorted (x : String × Nat) (l : List (String × Nat)) (h : l.Pairwise defLe) :
    (insertDef x l).Pairwise defLe := by
  induction l with
  | nil => simp [insertDef]
  | cons z zs ih =>
    simp only [insertDef]
    rw [List.pairwise_cons] at h
    split
    · rename_i hz
      rw [List.pairwise_cons]
      refine ⟨?_, ih h.2⟩
      intro y hy
      rcases (insertDef_mem x y zs).mp hy with rfl | hy
      · -- z ≤ x since z < x
        rcases defLe_total z y with h' | h'
        · exact h'
        · unfold defLe at h'; rw [hz] at h'; cases h'
      · exact h.1 y hy
    · rename_i hz
      have hxz : defLe x z := by unfold defLe; simpa using hz
      rw [List.pairwise_cons]
      refine ⟨?_, List.pairwise_cons.mpr h⟩
      intro y hy
      rcases List.mem_cons.mp hy with rfl | hy
      · exact hxz
      · exact defLe_trans _ _ _ hxz (h.1 y hy)

theorem sortDefs_sorted (l : List (String × Nat)) : (sortDefs l).Pairwise defLe := by
  induction l with
  | nil => simp [sortDefs]
  | cons x xs ih => exact insertDef_sorted x _ ih

theorem sortDefs_mem (y : String × Nat) (l : List (String × Nat)) : y ∈ sortDefs l ↔ y ∈ l := by
  induction l with
  | nil => simp [sortDefs]
  | cons x xs ih => simp [sortDefs, insertDef_mem, ih]

theorem sortDefs_length (l : List (String × Nat)) : (sortDefs l).length = l.length := by
  have hins : ∀ x (l : List (String × Nat)), (insertDef x l).length = l.length + 1 := by
    intro x l
    induction l with
    | nil => rfl
    | cons z zs ih => simp only [insertDef]; split <;> simp [ih]
  induction l with
  | nil => rfl
  | cons x xs ih => simp [sortDefs, hins, ih]


end Gojq.Modules

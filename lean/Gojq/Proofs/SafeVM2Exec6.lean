/-
  C08 (bytecode checker, layer 2): `store`, `append`, `forklabel`.
-/
import Gojq.Proofs.SafeVM2Store
set_option linter.unusedSimpArgs false
set_option linter.unusedVariables false
namespace Gojq.SafeVM
open Gojq Gojq.VM

variable {S : SC} {Ct : Cert}

theorem set_get {sl : List Kind} {i0 : Nat} {knew : Kind} {i : Nat} {k : Kind} (h : (sl.set i0 knew)[i]? = some k) :
    (i = i0 ∧ k = knew) ∨ (i ≠ i0 ∧ sl[i]? = some k) := by
  by_cases hi : i = i0
  · subst hi
    left
    rw [List.getElem?_set_self'] at h
    cases hs : sl[i]? with
    | none => rw [hs] at h; simp at h
    | some k0 => rw [hs] at h; simp at h; exact ⟨rfl, h.symm⟩
  · right
    rw [List.getElem?_set_ne (Ne.symm hi)] at h
    exact ⟨hi, h⟩

/-- the write of a variable slot of the current frame, from a state that satisfies the invariant -/
theorem store_post {l : L} {e : Env} {A : AView} (hV : View e A) (G : GInv S e) (R : RegInv S Ct e)
    (hF2 : ForksConf2 S Ct e.scopes.data e.values A.forks) {a2 : Abs2} {jt : Int} {sct : Scope}
    {rest : List (Int × Scope)} (hfr : A.frames = (jt, sct) :: rest) (hid : idOf S a2.fn = some sct.id)
    (hslc : SlotCl S Ct e.scopes.data e.values jt sct a2.sl) {ks' : List Kind}
    (hstc : StackCl S Ct e.scopes.data e.values jt ks' A.stk)
    (hsusp : Susp S Ct e.scopes.data e.values sct.pc rest)
    {i0 : Int} {nv : Nat} (h0 : 0 ≤ i0) (hnv : S.tab.lookup sct.id = some nv) (hi : i0 < nv) {w : V} {knew : Kind}
    (hstab : Ct.stabOf (sct.id, i0) = .any ∨ Ct.stabOf (sct.id, i0) = knew)
    (hknew : knew ≠ .any → Good S Ct e.scopes.data e.values (.g knew w (jt - 1)))
    (hs2 : SuccOK2 Ct (l.pc + 1, { a2 with ks := ks', sl := a2.sl.set i0.toNat knew }))
    (hs1 : ∃ i, codeAt S (l.pc + 1) = some i ∧ isScope i = false) {e' : Env}
    (he' : Fr2 { e with values := e.values.setIfInBounds (sct.offset + i0).toNat w } e') (hV' : View e' A) :
    Post2 S Ct (.fall, l) e' := by
  obtain ⟨i, hci, hns⟩ := hs1
  have c := storeCtx_of hV G R hfr h0 hnv hi (w := w) (by
    intro hne
    rcases hstab with h | h
    · exact absurd h hne
    · rw [h]; exact hknew (by rw [← h]; exact hne))
  have hfrm := hV.frames_le
  have hffrm := hV.fork_frames_le
  have hRg := index_le_Rg e.scopes
  have hd : e'.scopes.data = e.scopes.data := by rw [he'.1]
  have hv : e'.values = e.values.setIfInBounds (sct.offset + i0).toNat w := he'.2.2.1
  have hjt := hfrm (jt, sct) (by rw [hfr]; simp)
  refine ⟨A, hV', (c.reg R).fr he', ?_, ?_⟩
  · rw [hd, hv]
    exact c.forks (fun f hf p hp => ⟨by have := hffrm f hf p hp; omega, (hffrm f hf p hp).2.2⟩) hF2
  · refine NMode2.of_succ hs2 rfl hci hns ?_
    rw [hd, hv]
    refine ⟨jt, sct, rest, hfr, hid, ?_, c.stackCl (by omega) hstc, ?_⟩
    · -- the slots of the current frame
      intro i k hk hne
      rcases set_get hk with ⟨rfl, rfl⟩ | ⟨hii, hk'⟩
      · -- the written slot
        have hlt := c.hlt
        refine .s c.hbt (by omega) hnv (by rw [Int.toNat_of_nonneg h0]; exact hi) (v := w) ?_ ?_
        · rw [Int.toNat_of_nonneg h0]; simp [hlt]
        · exact c.good (hknew hne) (by simp only [J.bnd]; omega) trivial
      · refine c.good (hslc i k hk' hne) (by simp only [J.bnd]; omega) ?_
        intro _ hi'
        exact absurd (by omega : i = i0.toNat) hii
    · exact c.susp (fun p hp => by
        have := hfrm p (by rw [hfr]; simp [hp])
        exact ⟨by omega, this.2.2⟩) hsusp

theorem storeKind_ne {k : Kind} (h : storeKind k ≠ .any) : storeKind k = k ∧ k ≠ .cloL ∧ k ≠ .any := by
  cases k <;> simp [storeKind] at h ⊢

theorem exec2_store (C : Checked S) (C2 : Checked2 S Ct) {id i : Int} {x : ExtRec} {l : L} {e : Env}
    (hc : codeAt S l.pc = some (.store id i)) (hI1 : Inv S l e) (hI2 : Inv2 S Ct l e) :
    WP2 (exec (.store id i) x l) (Post2 S Ct) e := by
  obtain ⟨hb, A, hV, G, hN, R, hF2, hN2⟩ := both_normal hI1 hI2 hc rfl
  obtain ⟨herr, a, succs, ha, hst, hsucc, hpc, hp, hconf⟩ := hN.unpack C hc
  obtain ⟨a2, succs2, idF, nv, na, ha2, hsa, hlen, hst2, hsucc2, _, _, hcur⟩ := hN2.unpack C2 hc
  simp only [step1] at hst
  split at hst
  · rename_i hh
    obtain ⟨hh, hslot⟩ := hh
    simp only [Option.some.injEq] at hst; subst hst; rw [hpc] at hsucc
    simp only [step2, hsa] at hst2
    split at hst2
    · rename_i hcond
      simp only [Bool.and_eq_true, beq_iff_eq, decide_eq_true_eq, Bool.or_eq_true] at hcond
      obtain ⟨⟨⟨hidd, hi0⟩, hilt⟩, hstab⟩ := hcond
      simp only [Option.some.injEq] at hst2; subst hst2; rw [hpc] at hsucc2
      rw [if_neg (by simp [isScope])] at hcur hconf
      obtain ⟨jt, sct, rest, hfr, hid, hslc, hstc, hsusp⟩ := hcur
      have hidF : sct.id = idF := by
        rw [idOf_eq hsa] at hid; exact (Option.some.inj hid).symm
      subst hidd
      -- the operand resolves to the current frame
      have hs := hV.scopes
      rw [hfr] at hs
      obtain ⟨hidx, hj0⟩ := hs.index_cons
      have hmem := hV.frames_le (jt, sct) (by rw [hfr]; simp)
      obtain ⟨_, bt, hbt, hbtv⟩ := blockAt_get hmem.2.2
      have henv : envIndex id i e = .ok (sct.offset + i) e := by
        apply envIndex_eq
        unfold scopeWalk
        rw [hidx, if_neg (by omega), hbt]
        simp only [hbtv, hidF, if_true]
      obtain ⟨n, hn, _, hin⟩ := slotOK_inv hslot
      rw [← hidF] at hn
      obtain ⟨hofft, nt, hnt, hlet⟩ := G.slots _ _ hbt
      rw [hbtv, hn] at hnt; simp only [Option.some.injEq] at hnt; subst hnt
      rw [hbtv] at hofft hlet
      simp only at hofft hlet
      have hilt' : i < (n : Int) := by omega
      obtain ⟨j, v, r, hstk⟩ := hconf.cons_of_pos hh
      obtain ⟨nx, hpop, hV1, G1, hv⟩ := pop_spec hV G hstk
      obtain ⟨hset, hV2, G2⟩ := setValue_spec hV1 G1 (k := sct.offset + i) (v := v) (by omega) (by
        show sct.offset + i < (e.values.size : Int); omega) hv
      simp only [exec]
      apply WP2.step henv
      apply WP2.step hpop
      apply WP2.step hset
      apply WP2.pure
      -- the claims of the state after the pop are those before it
      rw [hstk] at hstc
      have hkv := hstc.head
      simp only at hkv
      refine store_post (e := { e with stack := { e.stack with index := nx } }) (A := { A with stk := r }) hV1 G1
        (R.fr ⟨rfl, rfl, rfl, rfl⟩) hF2 hfr hid hslc hstc.tail hsusp hi0 hn (by omega) (w := v)
        (knew := storeKind (kget a2.ks 0)) ?_ ?_ (succ1 hsucc2) (succ_code (succ1 hsucc)) ⟨rfl, rfl, rfl, rfl⟩ hV2
      · rw [hidF]
        rcases hstab with h | h
        · exact .inl h
        · exact .inr h
      · intro hne
        obtain ⟨h1, h2, h3⟩ := storeKind_ne hne
        rw [h1]
        unfold KOK at hkv
        cases hk : kget a2.ks 0 with
        | any => exact absurd hk h3
        | cloL => exact absurd hk h2
        | arr => rw [hk] at hkv; exact hkv
        | clo => rw [hk] at hkv; exact hkv
    · simp at hst2
  · simp at hst

theorem set_same : ∀ {sl : List Kind} {i : Nat} {k : Kind}, sl[i]? = some k → sl.set i k = sl
  | [], _, _, h => by simp at h
  | k0 :: ks, 0, k, h => by simp at h; simp [h]
  | k0 :: ks, i + 1, k, h => by simp at h; simp [set_same h]

theorem kget_some {sl : List Kind} {i : Nat} {k : Kind} (h : kget sl i = k) (hne : k ≠ .any) : sl[i]? = some k := by
  unfold kget at h
  cases hg : sl[i]? with
  | none => simp [List.getD, hg] at h; exact absurd h.symm hne
  | some k0 => simp [List.getD, hg] at h; rw [h]

theorem exec2_append (C : Checked S) (C2 : Checked2 S Ct) {id i : Int} {x : ExtRec} {l : L} {e : Env}
    (hc : codeAt S l.pc = some (.append id i)) (hI1 : Inv S l e) (hI2 : Inv2 S Ct l e) :
    WP2 (exec (.append id i) x l) (Post2 S Ct) e := by
  obtain ⟨hb, A, hV, G, hN, R, hF2, hN2⟩ := both_normal hI1 hI2 hc rfl
  obtain ⟨herr, a, succs, ha, hst, hsucc, hpc, hp, hconf⟩ := hN.unpack C hc
  obtain ⟨a2, succs2, idF, nv, na, ha2, hsa, hlen, hst2, hsucc2, _, _, hcur⟩ := hN2.unpack C2 hc
  simp only [step1] at hst
  split at hst
  · rename_i hh
    obtain ⟨hh, hslot⟩ := hh
    simp only [Option.some.injEq] at hst; subst hst; rw [hpc] at hsucc
    simp only [step2, hsa] at hst2
    split at hst2
    · rename_i hcond
      simp only [Bool.and_eq_true, beq_iff_eq, decide_eq_true_eq, Bool.or_eq_true] at hcond
      obtain ⟨⟨⟨hidd, hi0⟩, hkarr⟩, hstab⟩ := hcond
      simp only [Option.some.injEq] at hst2; subst hst2; rw [hpc] at hsucc2
      rw [if_neg (by simp [isScope])] at hcur hconf
      obtain ⟨jt, sct, rest, hfr, hid, hslc, hstc, hsusp⟩ := hcur
      have hidF : sct.id = idF := by
        rw [idOf_eq hsa] at hid; exact (Option.some.inj hid).symm
      subst hidd
      have hs := hV.scopes
      rw [hfr] at hs
      obtain ⟨hidx, hj0⟩ := hs.index_cons
      have hmem := hV.frames_le (jt, sct) (by rw [hfr]; simp)
      obtain ⟨_, bt, hbt, hbtv⟩ := blockAt_get hmem.2.2
      have henv : envIndex id i e = .ok (sct.offset + i) e := by
        apply envIndex_eq
        unfold scopeWalk
        rw [hidx, if_neg (by omega), hbt]
        simp only [hbtv, hidF, if_true]
      obtain ⟨n, hn, _, hin⟩ := slotOK_inv hslot
      rw [← hidF] at hn
      obtain ⟨hofft, nt, hnt, hlet⟩ := G.slots _ _ hbt
      rw [hbtv, hn] at hnt; simp only [Option.some.injEq] at hnt; subst hnt
      rw [hbtv] at hofft hlet
      simp only at hofft hlet
      have hilt' : i < (n : Int) := by omega
      -- the slot holds an array
      have hksl := kget_some hkarr (by decide)
      have hg := hslc i.toNat .arr hksl (by decide)
      rw [Int.toNat_of_nonneg hi0] at hg
      obtain ⟨v0, _, _, _, _, hv0, hgv0⟩ := hg.slot_inv
      obtain ⟨xs, rfl⟩ : ∃ xs, v0 = .jv (.arr xs) := by cases hgv0; exact ⟨_, rfl⟩
      have hget : getValue (sct.offset + i) e = .ok (.jv (.arr xs)) e := getValue_eq (by omega) hv0
      obtain ⟨j, v, r, hstk⟩ := hconf.cons_of_pos hh
      obtain ⟨nx, hpop, hV1, G1, hv⟩ := pop_spec hV G hstk
      simp only [exec]
      apply WP2.step henv
      apply WP2.step hget
      simp only
      apply WP2.step hpop
      cases v with
      | jv jv =>
        simp only [asJV]
        apply WP2.step (rfl : (pure jv : M JV) _ = .ok jv _)
        obtain ⟨hset, hV2, G2⟩ := setValue_spec hV1 G1 (k := sct.offset + i) (v := .jv (.arr (xs ++ [jv]))) (by omega) (by
          show sct.offset + i < (e.values.size : Int); omega) rfl
        apply WP2.step hset
        apply WP2.pure
        rw [hstk] at hstc
        have hs2' : SuccOK2 Ct (l.pc + 1, { a2 with ks := a2.ks.tail, sl := a2.sl.set i.toNat .arr }) := by
          rw [set_same hksl]; exact succ1 hsucc2
        refine store_post (e := { e with stack := { e.stack with index := nx } }) (A := { A with stk := r }) hV1 G1
          (R.fr ⟨rfl, rfl, rfl, rfl⟩) hF2 hfr hid hslc hstc.tail hsusp hi0 hn (by omega) (w := .jv (.arr (xs ++ [jv])))
          (knew := .arr) ?_ (fun _ => Good.arr) hs2' (succ_code (succ1 hsucc)) ⟨rfl, rfl, rfl, rfl⟩ hV2
        rw [hidF]
        rcases hstab with h | h
        · exact .inl h
        · exact .inr h
      | _ => simp only [asJV]; apply WP2.bind; exact WP2.stuck
    · simp at hst2
  · simp at hst

theorem bind_ok' {α β : Type} {m : M α} {f : α → M β} {e e2 : Env} {b : β} (h : (m >>= f) e = .ok b e2) :
    ∃ a e1, m e = .ok a e1 ∧ f a e1 = .ok b e2 := by
  have h' : M.bind m f e = .ok b e2 := h
  unfold M.bind at h'
  cases hm : m e with
  | ok a e1 => simp only [hm] at h'; exact ⟨a, e1, rfl, h'⟩
  | panic s => simp [hm] at h'
  | stuck w => simp [hm] at h'

theorem quiet_forklabel_bt (id i : Int) (x : ExtRec) {l : L} (hb : l.backtrack = true) :
    Quiet2 false l (exec (.forklabel id i) x l) := by
  simp only [exec, hb, if_true]
  quiet2_tac

theorem exec2_forklabel (C : Checked S) (C2 : Checked2 S Ct) {id i : Int} {x : ExtRec} {l : L} {e : Env}
    (h1 : WP (exec (.forklabel id i) x l) (Post S) e)
    (hc : codeAt S l.pc = some (.forklabel id i)) (hI1 : Inv S l e) (hI2 : Inv2 S Ct l e) :
    WP2 (exec (.forklabel id i) x l) (Post2 S Ct) e := by
  obtain ⟨A, hV, G, R, hF2, hmode⟩ := both_cases hI1 hI2
  rcases hmode with ⟨hb, hM, hM2⟩ | ⟨hb, hN, hN2⟩
  · -- backtrack mode: pop the label, break
    have hq := quiet_forklabel_bt id i x hb e
    unfold WP at h1
    unfold WP2
    cases hex : exec (.forklabel id i) x l e with
    | panic s =>
      rw [hex] at hq
      cases s <;> first | rfl | exact absurd rfl hq.1 | exact absurd rfl hq.2.1 | exact absurd rfl (hq.2.2 rfl)
    | stuck w => trivial
    | ok r e' =>
      rw [hex] at hq h1
      obtain ⟨hfr, hres⟩ := hq
      obtain ⟨A', hV', _, _, _, hpost⟩ := h1
      obtain ⟨hfrm, hkeys⟩ := view_fr2 hV hV' hfr
      have hd : e'.scopes.data = e.scopes.data := by rw [hfr.1]
      have hv : e'.values = e.values := hfr.2.2.1
      have hF2' : ForksConf2 S Ct e'.scopes.data e'.values A'.forks := by
        rw [hd, hv, ForksConf2.iff_keys, hkeys]; exact ForksConf2.iff_keys.mp hF2
      obtain ⟨ctl, l'⟩ := r
      obtain ⟨hctl, hpcr⟩ := hres
      simp only at hctl hpcr
      rcases hctl with rfl | rfl
      · -- never falls through in backtrack mode
        exfalso
        simp only [exec, hb, if_true] at hex
        obtain ⟨v1, e1, hp1, hrest⟩ := bind_ok' hex
        cases hle : l.err with
        | none => rw [hle] at hrest; cases hrest
        | some er =>
          rw [hle] at hrest
          cases er with
          | brk n v =>
            simp only at hrest
            cases hg : goEq v v1 with
            | eq b => rw [hg] at hrest; cases b <;> cases hrest
            | panic => rw [hg] at hrest; simp [VM.panic] at hrest
            | unknown => rw [hg] at hrest; simp [VM.stuck] at hrest
          | _ => cases hrest
      · refine ⟨A', hV', R.fr hfr, hF2', ?_⟩
        intro _ _
        simp only
        rw [hpcr]
        unfold BConf2; rw [hc]; trivial
  · obtain ⟨herr, a, succs, ha, hst, hsucc, hpc, hp, hconf⟩ := hN.unpack C hc
    obtain ⟨a2, succs2, idF, nv, na, ha2, hsa, hlen, hst2, hsucc2, _, _, hcur⟩ := hN2.unpack C2 hc
    simp only [step1] at hst
    split at hst
    · rename_i hh
      obtain ⟨hh, hslot⟩ := hh
      simp only [Option.some.injEq] at hst; subst hst; rw [hpc] at hsucc
      simp only [step2, hsa] at hst2
      split at hst2
      · rename_i hcond
        simp only [Bool.and_eq_true, beq_iff_eq, decide_eq_true_eq] at hcond
        obtain ⟨⟨⟨hidd, hi0⟩, hilt⟩, hstab⟩ := hcond
        simp only [Option.some.injEq] at hst2; subst hst2; rw [hpc] at hsucc2
        rw [if_neg (by simp [isScope])] at hcur hconf
        obtain ⟨jt, sct, rest, hfr, hid, hslc, hstc, hsusp⟩ := hcur
        have hidF : sct.id = idF := by
          rw [idOf_eq hsa] at hid; exact (Option.some.inj hid).symm
        subst hidd
        obtain ⟨e1, j1, hpf, hV1, G1, hd1, hidx1, hvals1, hoff1, hlabel1, _, _⟩ :=
          pushforkOver_spec hV G (v := .jv (.num (.int e.label))) rfl l.pc
        have hfrF : FrF l.pc e e1 := by
          have := QF.pushforkOver (arr := false) (.jv (.num (.int e.label))) l.pc e
          rw [hpf] at this; exact this
        have R1 := R.frF hfrF
        have hF21 : ForksConf2 S Ct e1.scopes.data e1.values
            ({ A with forks := ⟨l.pc, (j1, .jv (.num (.int e.label))) :: A.stk, A.frames, A.paths⟩ :: A.forks } : AView).forks := by
          rw [hd1, hvals1]
          intro f hf
          simp only [List.mem_cons] at hf
          rcases hf with rfl | hf
          · unfold BConf2; simp only [hc]
          · exact hF2 f hf
        -- the operand resolves to the current frame
        have hs := hV1.scopes
        simp only at hs
        rw [hfr] at hs
        obtain ⟨hidx, hj0⟩ := hs.index_cons
        have hmem := hV1.frames_le (jt, sct) (by simp only; rw [hfr]; simp)
        obtain ⟨_, bt, hbt, hbtv⟩ := blockAt_get hmem.2.2
        have henv : envIndex id i e1 = .ok (sct.offset + i) e1 := by
          apply envIndex_eq
          unfold scopeWalk
          rw [hidx, if_neg (by omega), hbt]
          simp only [hbtv, hidF, if_true]
        obtain ⟨n, hn, _, hin⟩ := slotOK_inv hslot
        rw [← hidF] at hn
        obtain ⟨hofft, nt, hnt, hlet⟩ := G1.slots _ _ hbt
        rw [hbtv, hn] at hnt; simp only [Option.some.injEq] at hnt; subst hnt
        rw [hbtv] at hofft hlet
        simp only at hofft hlet
        have hilt' : i < (n : Int) := by omega
        obtain ⟨hset, hV2, G2⟩ := setValue_spec hV1 G1 (k := sct.offset + i) (v := .jv (.num (.int e.label))) (by omega)
          (by omega) rfl
        simp only [exec]
        rw [if_neg (by rw [hb]; simp)]
        apply WP2.step (getEnv_eq _)
        apply WP2.step hpf
        apply WP2.step henv
        apply WP2.step hset
        apply WP2.step (modifyEnv_eq _ _)
        apply WP2.pure
        refine store_post (e := e1) hV1 G1 R1 hF21 (by simp only; exact hfr) hid (by rw [hd1, hvals1]; exact hslc)
          (ks' := a2.ks) (by rw [hd1, hvals1]; exact hstc) (by rw [hd1, hvals1]; exact hsusp) hi0 hn (by omega)
          (w := .jv (.num (.int e.label))) (knew := .any) (.inl (by rw [hidF]; exact hstab)) (fun h => absurd rfl h)
          (succ1 hsucc2) (succ_code (succ1 hsucc)) ⟨rfl, rfl, rfl, rfl⟩ (hV2.fr ⟨rfl, rfl, rfl, rfl, rfl⟩)
      · simp at hst2
    · simp at hst

end Gojq.SafeVM

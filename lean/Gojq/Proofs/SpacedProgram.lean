/-
  The printer's output satisfies the adjacency condition, program level: constant terms, module
  header, imports, definitions-only bodies.
-/
import Gojq.Proofs.SpacedAll
namespace Gojq.RefTerm
open Gojq Gojq.Lexer Gojq.Printer

mutual
  theorem endCT : ∀ (t : CTerm) (stk : List Nat), endMode false stk (itemsCT t) = (false, stk)
    | .obj kvs, stk => by simp [itemsCT, endCObj kvs]
    | .arr [], stk => by simp [itemsCT]
    | .arr (e :: es), stk => by simp [itemsCT, endMode_append, endCT e, endCTsT es]
    | .number s, stk => by simp [itemsCT]
    | .str v, stk => by simp [itemsCT]
    | .null, stk => by simp [itemsCT]
    | .true_, stk => by simp [itemsCT]
    | .false_, stk => by simp [itemsCT]
  theorem endCObj : ∀ (kvs : List CKV) (stk : List Nat), endMode false stk (itemsCObj kvs) = (false, stk)
    | [], stk => by simp [itemsCObj]
    | kv :: kvs, stk => by simp [itemsCObj, endMode_append, endCKV kv, endCKVsT kvs]
  theorem endCKV : ∀ (kv : CKV) (stk : List Nat), endMode false stk (itemsCKV kv) = (false, stk)
    | .mk true key v, stk => by simp [itemsCKV, endCT v]
    | .mk false key v, stk => by simp [itemsCKV, endCT v]
  theorem endCKVsT : ∀ (kvs : List CKV) (stk : List Nat), endMode false stk (itemsCKVsT kvs) = (false, stk)
    | [], stk => rfl
    | kv :: kvs, stk => by simp [itemsCKVsT, endMode_append, endCKV kv, endCKVsT kvs]
  theorem endCTsT : ∀ (es : List CTerm) (stk : List Nat), endMode false stk (itemsCTsT es) = (false, stk)
    | [], stk => rfl
    | e :: es, stk => by simp [itemsCTsT, endMode_append, endCT e, endCTsT es]
end

def SPCT (t : CTerm) : Prop := ∀ (last : Option UInt8) (stk : List Nat) (fol : Bytes),
  okCT t = true → safeB (endLast last (itemsCT t)) fol = true → itemsOKF fol last false stk (itemsCT t) = true
def SPCObj (kvs : List CKV) : Prop := ∀ (last : Option UInt8) (stk : List Nat) (fol : Bytes),
  okCKVs kvs = true → itemsOKF fol last false stk (itemsCObj kvs) = true
def SPCKV (kv : CKV) : Prop := ∀ (last : Option UInt8) (stk : List Nat) (fol : Bytes),
  okCKV kv = true → safeB (endLast last (itemsCKV kv)) fol = true → itemsOKF fol last false stk (itemsCKV kv) = true
def SPCKVsT (kvs : List CKV) : Prop := ∀ (last : Option UInt8) (stk : List Nat) (fol : Bytes),
  okCKVs kvs = true → itemsOKF (32 :: fol) last false stk (itemsCKVsT kvs) = true
def SPCTsT (es : List CTerm) : Prop := ∀ (last : Option UInt8) (stk : List Nat) (fol : Bytes),
  okCTs es = true → itemsOKF (93 :: fol) last false stk (itemsCTsT es) = true

theorem render_ckvsT_head (kvs : List CKV) (last : Option UInt8) (fol : Bytes) :
    ∃ ch rest, render last (itemsCKVsT kvs) ++ 32 :: fol = ch :: rest ∧ safeHead ch = true := by
  cases kvs with
  | nil => exact ⟨32, fol, rfl, rfl⟩
  | cons kv kvs => exact ⟨44, _, rfl, rfl⟩

theorem render_ctsT_head (es : List CTerm) (last : Option UInt8) (fol : Bytes) :
    ∃ ch rest, render last (itemsCTsT es) ++ 93 :: fol = ch :: rest ∧ safeHead ch = true := by
  cases es with
  | nil => exact ⟨93, fol, rfl, rfl⟩
  | cons e es => exact ⟨44, _, rfl, rfl⟩

theorem sp_ctAtom (t : CTerm) (tok : Tok) (hi : itemsCT t = [.t tok]) (hp : plainStk tok = true)
    (hwf : okCT t = true → tok.wf = true) (hn : tok.inStrTok = false) (hs : tok ≠ .strStart) : SPCT t := by
  intro last stk fol hok hf
  rw [hi] at hf ⊢
  simp only [endLast] at hf
  rw [itemsOKF_plain _ _ _ _ _ _ hp]
  simp [hwf hok, hn, render, stops_last tok last fol (hwf hok) hn hs hf]

mutual
  theorem spCT : (t : CTerm) → SPCT t
    | .obj kvs => fun last stk fol hok _ => by
      simp only [okCT] at hok
      simpa [itemsCT] using spCObj kvs last stk fol hok
    | .arr [] => fun last stk fol _ _ => by simp [itemsCT, okCh, isSolo, render, Tok.spell]
    | .arr (e :: es) => fun last stk fol hok _ => by
      simp only [okCT, okCTs, Bool.and_eq_true] at hok
      obtain ⟨ch, rest, e', hs⟩ := render_ctsT_head es (endLast (some 91) (itemsCT e)) fol
      simp [itemsCT, itemsOKF_append, endCT, endCTsT, okCh, isSolo, render, render_append, Tok.spell,
        spCTsT es _ _ _ hok.2]
      refine spCT e _ _ _ hok.1 ?_
      rw [e']; exact safeB_safeHead _ _ _ hs
    | .number s => sp_ctAtom _ (.number s) rfl rfl (fun h => by simpa [okCT, Tok.wf] using h) rfl (by simp)
    | .str v => sp_ctAtom _ (.str v) rfl rfl (fun h => by simpa [okCT, Tok.wf] using h) rfl (by simp)
    | .null => sp_ctAtom _ (.kw .null_) rfl rfl (fun _ => rfl) rfl (by simp)
    | .true_ => sp_ctAtom _ (.kw .true_) rfl rfl (fun _ => rfl) rfl (by simp)
    | .false_ => sp_ctAtom _ (.kw .false_) rfl rfl (fun _ => rfl) rfl (by simp)
  theorem spCObj : (kvs : List CKV) → SPCObj kvs
    | [] => fun last stk fol _ => by simp [itemsCObj, okCh, isSolo, render, Tok.spell]
    | kv :: kvs => fun last stk fol hok => by
      simp only [okCKVs, Bool.and_eq_true] at hok
      obtain ⟨ch, rest, e, hs⟩ := render_ckvsT_head kvs (endLast (some 32) (itemsCKV kv)) (125 :: fol)
      simp [itemsCObj, itemsOKF_append, endCKV, endCKVsT, okCh, isSolo, render, render_append, Tok.spell,
        spCKVsT kvs _ _ _ hok.2]
      refine spCKV kv _ _ _ hok.1 ?_
      rw [e]; exact safeB_safeHead _ _ _ hs
  theorem spCKV : (kv : CKV) → SPCKV kv
    | .mk true key v => fun last stk fol hok hf => by
      simp only [okCKV, if_true, Bool.and_eq_true] at hok
      simp only [itemsCKV, if_true, endLast] at hf
      simp only [itemsCKV, if_true]
      rw [itemsOKF_str]
      simp [Tok.wf, Tok.inStrTok, hok.1, render, Tok.spell, okCh, isSolo, spCT v _ _ _ hok.2 hf]
    | .mk false key v => fun last stk fol hok hf => by
      simp only [okCKV, Bool.false_eq_true, if_false, Bool.and_eq_true] at hok
      simp only [itemsCKV, Bool.false_eq_true, if_false, endLast] at hf
      simp only [itemsCKV, Bool.false_eq_true, if_false]
      rw [itemsOKF_keyTok]
      simp [wf_keyTok key (by simp [okKey, hok.1]), render, Tok.spell, okCh, isSolo, spCT v _ _ _ hok.2 hf]
  theorem spCKVsT : (kvs : List CKV) → SPCKVsT kvs
    | [] => fun _ _ _ _ => rfl
    | kv :: kvs => fun last stk fol hok => by
      simp only [okCKVs, Bool.and_eq_true] at hok
      obtain ⟨ch, rest, e, hs⟩ := render_ckvsT_head kvs (endLast (some 32) (itemsCKV kv)) fol
      simp [itemsCKVsT, itemsOKF_append, endCKV, okCh, isSolo, render, Tok.spell, spCKVsT kvs _ _ _ hok.2]
      refine spCKV kv _ _ _ hok.1 ?_
      rw [e]; exact safeB_safeHead _ _ _ hs
  theorem spCTsT : (es : List CTerm) → SPCTsT es
    | [] => fun _ _ _ _ => rfl
    | e :: es => fun last stk fol hok => by
      simp only [okCTs, Bool.and_eq_true] at hok
      obtain ⟨ch, rest, e', hs⟩ := render_ctsT_head es (endLast (some 32) (itemsCT e)) fol
      simp [itemsCTsT, itemsOKF_append, endCT, okCh, isSolo, render, Tok.spell, spCTsT es _ _ _ hok.2]
      refine spCT e _ _ _ hok.1 ?_
      rw [e']; exact safeB_safeHead _ _ _ hs
end

/-! ### imports, body, program -/

@[simp] theorem itemsOKF_nl (fol : Bytes) (last : Option UInt8) (m : Bool) (stk : List Nat) (r : List Item) :
    itemsOKF fol last m stk (.nl :: r) = (!m && itemsOKF fol (some 10) false stk r) := rfl

theorem endMeta (m : Option (List CKV)) (stk : List Nat) : endMode false stk (itemsMeta m) = (false, stk) := by
  cases m <;> simp [itemsMeta, endCObj]

theorem endImport (im : Import) (stk : List Nat) : endMode false stk (itemsImport im) = (false, stk) := by
  cases im <;> simp [itemsImport, endMode_append, endMeta]

theorem sp_import (im : Import) (last : Option UInt8) (stk : List Nat) (fol : Bytes) (hok : okImport im = true) :
    itemsOKF fol last false stk (itemsImport im) = true := by
  cases im with
  | import_ path a m =>
    simp only [okImport, Bool.and_eq_true] at hok
    obtain ⟨⟨hp, ha⟩, hm⟩ := hok
    have hwf := wf_keyTok a (okParam_key a ha)
    cases m with
    | none =>
      simp only [itemsImport, itemsMeta, List.nil_append]
      rw [itemsOKF_kw]; simp only [Tok.wf, Tok.inStrTok, render, Tok.spell, itemsOKF_sp]
      rw [itemsOKF_str]; simp only [Tok.wf, Tok.inStrTok, render, Tok.spell, itemsOKF_sp]
      rw [itemsOKF_kw]; simp only [Tok.wf, Tok.inStrTok, render, Tok.spell, itemsOKF_sp]
      rw [itemsOKF_keyTok]
      simp [hp, hwf, render, Tok.spell, okCh, isSolo]
    | some kvs =>
      simp only [itemsImport, itemsMeta, List.cons_append]
      rw [itemsOKF_kw]; simp only [Tok.wf, Tok.inStrTok, render, Tok.spell, itemsOKF_sp]
      rw [itemsOKF_str]; simp only [Tok.wf, Tok.inStrTok, render, Tok.spell, itemsOKF_sp]
      rw [itemsOKF_kw]; simp only [Tok.wf, Tok.inStrTok, render, Tok.spell, itemsOKF_sp]
      rw [itemsOKF_keyTok]
      simp [hp, hwf, render, Tok.spell, okCh, isSolo, itemsOKF_append, endCObj, spCObj kvs _ _ _ hm]
  | include_ path m =>
    simp only [okImport, Bool.and_eq_true] at hok
    obtain ⟨hp, hm⟩ := hok
    cases m with
    | none =>
      simp only [itemsImport, itemsMeta, List.nil_append]
      rw [itemsOKF_kw]; simp only [Tok.wf, Tok.inStrTok, render, Tok.spell, itemsOKF_sp]
      rw [itemsOKF_str]
      simp [Tok.wf, Tok.inStrTok, hp, render, Tok.spell, okCh, isSolo]
    | some kvs =>
      simp only [itemsImport, itemsMeta, List.cons_append]
      rw [itemsOKF_kw]; simp only [Tok.wf, Tok.inStrTok, render, Tok.spell, itemsOKF_sp]
      rw [itemsOKF_str]
      simp [Tok.wf, Tok.inStrTok, hp, render, Tok.spell, okCh, isSolo, itemsOKF_append, endCObj,
        spCObj kvs _ _ _ hm]

theorem sp_imports (is : List Import) (R : List Item) (stk : List Nat) (hok : is.all okImport = true)
    (hR : ∀ L, itemsOKF [] L false stk R = true) :
    ∀ last, itemsOKF [] last false stk (is.flatMap itemsImport ++ R) = true := by
  induction is with
  | nil => intro last; simpa using hR last
  | cons im is ih =>
    intro last
    simp only [List.all_cons, Bool.and_eq_true] at hok
    simp only [List.flatMap_cons, List.append_assoc]
    rw [itemsOKF_append]
    simp [endImport, ih hok.2, sp_import im _ _ _ hok.1]

theorem sp_bodyDefs (ds : List FuncDef) (stk : List Nat) (hok : ds.all okFD = true) :
    ∀ last, itemsOKF [] last false stk (ds.flatMap (fun fd => itemsFD fd ++ [Item.sp])) = true := by
  induction ds with
  | nil => intro _; rfl
  | cons fd ds ih =>
    intro last
    simp only [List.all_cons, Bool.and_eq_true] at hok
    simp only [List.flatMap_cons, List.append_assoc]
    rw [itemsOKF_append]
    simp [endFD, render, ih hok.2]
    exact spFD fd _ _ _ hok.1

theorem sp_body (b : Body) (hok : okBody b = true) : ∀ last, itemsOKF [] last false [] (itemsBody b) = true := by
  intro last
  cases b with
  | defs ds => exact sp_bodyDefs ds [] hok last
  | query q => exact spQ q last [] [] (OkQ_of true 1 q hok) rfl

/-- THE PRINTED TEXT OF A WHOLE PROGRAM satisfies the adjacency condition -/
theorem spaced_program (p : Program) (h : PrintableProgram p = true) :
    itemsOK none false [] (itemsProgram p) = true := by
  obtain ⟨md, imports, body⟩ := p
  simp only [PrintableProgram, Bool.and_eq_true] at h
  obtain ⟨⟨hm, hi⟩, hb⟩ := h
  rw [← itemsOKF_nil]
  have hrest := sp_imports imports (itemsBody body) [] hi (sp_body body hb)
  cases md with
  | none => simpa [itemsProgram] using hrest none
  | some kvs =>
    simp only [itemsProgram, List.cons_append, List.append_assoc]
    rw [itemsOKF_kw]; simp only [Tok.wf, Tok.inStrTok, render, Tok.spell, itemsOKF_sp]
    simp [itemsOKF_append, endCObj, okCh, isSolo, render, Tok.spell, hrest, spCObj kvs _ _ _ hm]

end Gojq.RefTerm

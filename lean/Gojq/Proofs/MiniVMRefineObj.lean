/-
  `compile_yields` for object construction `{(k₁): v₁, …, (kₙ): vₙ}` (C01.3): the code
  `store r; (load r; kᵢ; load r; vᵢ)ᵢ; object n` yields, for each output of k₁ (outermost), of v₁,
  …, of vₙ (innermost), the object `opobject` builds from the n pairs on the stack, and fails with
  the first error of a key / value, or with the key error of `opobject`.  The entries are a
  left-nested spine inside `Q`; the proof flattens it (`compile_spine`) and goes by induction on
  the list of the remaining entries, two `Yields.bind` per entry.  Core Lean only.
-/
import Gojq.Proofs.MiniVMRefine
namespace Gojq.MiniVM
variable [IterMsg]
set_option linter.unusedSectionVars false

theorem cy_objStart {code defs entry nf n} (hfun : FuncsOK code defs entry nf) (ihn : CY code defs entry nf n) :
    CYq code defs entry nf (n+1) .objStart := by
  intro g e p _ _ _ ρ v S F R fr o cp P _ _ _ _ _ _ hnd
  simp [eval, ND] at hnd

theorem cy_objSnoc {code defs entry nf n} (hfun : FuncsOK code defs entry nf) (ihn : CY code defs entry nf n) (init k v : Q) :
    CYq code defs entry nf (n+1) (.objSnoc init k v) := by
  intro g e p _ _ _ ρ v S F R fr o cp P _ _ _ _ _ _ hnd
  simp [eval, ND] at hnd

theorem cy_objSnocC {code defs entry nf n} (hfun : FuncsOK code defs entry nf) (ihn : CY code defs entry nf n) (init : Q) (key : V) (v : Q) :
    CYq code defs entry nf (n+1) (.objSnocC init key v) := by
  intro g e p _ _ _ ρ v S F R fr o cp P _ _ _ _ _ _ hnd
  simp [eval, ND] at hnd

/-- `delay q`: the code of `q`, the reference evaluation of `q` with one unit of fuel less -/
theorem cy_delay {code defs entry nf n} (hfun : FuncsOK code defs entry nf) (ihn : CY code defs entry nf n) (q : Q) :
    CYq code defs entry nf (n+1) (.delay q) := by
  intro g e p hep hseg hcl ρ v S F R fr o cp P htop hge hpar hP henv hoff hnd
  simp only [compile] at hseg hoff ⊢
  simp only [Q.Closed] at hcl
  simp only [Q.HasParam] at hpar
  simp only [eval] at hnd ⊢
  exact ihn q g e p hep hseg hcl ρ v S F R fr o cp P htop hge hpar hP henv hoff hnd

theorem bindG_nd {r : Res} {f : V → Res} (h : ND (r.bindG f).stop) : ND r.stop := by
  unfold Res.bindG at h
  rcases r with ⟨o, s⟩
  cases s <;> simp_all [ND]

theorem bindG_of_nd {r : Res} {f : V → Res} (h : ND r.stop) : r.bindG f = Res.bindL f r.outs r.stop := by
  unfold Res.bindG
  rcases r with ⟨o, s⟩
  cases s <;> simp_all [ND]

/-! ## the code of the entries, as a list -/

/-- the code of the entries `es` placed at `p`; `i0`: the register (of the scope `e`) holding the input -/
def compileEntries (entry : Name → Nat) (g : Ctx) (e i0 : Nat) : Nat → List (EKey × Q) → List Instr
  | _, [] => []
  | p, (.c key, v) :: rest =>
    [.push key, .load e i0] ++ compile entry g e (p+2) v ++
      compileEntries entry g e i0 (p + 2 + (compile entry g e (p+2) v).length) rest
  | p, (.q k, v) :: rest =>
    [.load e i0] ++ compile entry g e (p+1) k ++ [.load e i0] ++
      compile entry g e (p + 1 + (compile entry g e (p+1) k).length + 1) v ++
      compileEntries entry g e i0
        (p + 1 + (compile entry g e (p+1) k).length + 1 +
          (compile entry g e (p + 1 + (compile entry g e (p+1) k).length + 1) v).length) rest

theorem compileEntries_append (entry : Name → Nat) (g : Ctx) (e i0 : Nat) : ∀ (a : List (EKey × Q)) (p : Nat) (b : List (EKey × Q)),
    compileEntries entry g e i0 p (a ++ b) =
      compileEntries entry g e i0 p a ++ compileEntries entry g e i0 (p + (compileEntries entry g e i0 p a).length) b
  | [], p, b => by simp [compileEntries]
  | (.c key, v) :: a, p, b => by
    simp only [List.cons_append, compileEntries, compileEntries_append entry g e i0 a, List.append_assoc,
      List.length_append, List.length_cons, List.length_nil]
    generalize (compile entry g e (p + 2) v).length = lv
    generalize (compileEntries entry g e i0 (p + 2 + lv) a).length = la
    have e1 : p + (0 + (lv + la) + 1 + 1) = p + 2 + lv + la := by omega
    rw [e1]
  | (.q k, v) :: a, p, b => by
    simp only [List.cons_append, compileEntries, compileEntries_append entry g e i0 a, List.append_assoc,
      List.length_append, List.length_cons, List.length_nil]
    generalize (compile entry g e (p + 1) k).length = lk
    generalize (compile entry g e (p + 1 + lk + 1) v).length = lv
    generalize (compileEntries entry g e i0 (p + 1 + lk + 1 + lv) a).length = la
    have e1 : p + (0 + (lk + (0 + (lv + la) + 1)) + 1) = p + 1 + lk + 1 + lv + la := by omega
    rw [e1]

/-- the code of a spine is `store r` followed by the code of its entries -/
theorem compile_spine (entry : Name → Nat) : ∀ (sp : Q), sp.IsSpine → ∀ (g : Ctx) (e p : Nat),
    compile entry g e p sp = [.store e (p - e)] ++ compileEntries entry g e (p - e) (p+1) sp.entries := by
  intro sp
  induction sp with
  | objStart => intro _ g e p; simp [compile, Q.entries, compileEntries]
  | objSnoc init k v ihi _ _ =>
    intro h g e p
    simp only [Q.IsSpine] at h
    simp only [compile, Q.entries, ihi h g e p, compileEntries_append, compileEntries, List.append_assoc,
      List.length_append, List.length_cons, List.length_nil, List.append_nil]
    have e1 : p + (0 + 1 + (compileEntries entry g e (p - e) (p + 1) init.entries).length) + 1 =
        p + 1 + (compileEntries entry g e (p - e) (p + 1) init.entries).length + 1 := by omega
    rw [e1]
  | objSnocC init key v ihi _ =>
    intro h g e p
    simp only [Q.IsSpine] at h
    simp only [compile, Q.entries, ihi h g e p, compileEntries_append, compileEntries, List.append_assoc,
      List.length_append, List.length_cons, List.length_nil, List.append_nil]
    have e1 : p + (0 + 1 + (compileEntries entry g e (p - e) (p + 1) init.entries).length) + 2 =
        p + 1 + (compileEntries entry g e (p - e) (p + 1) init.entries).length + 2 := by omega
    rw [e1]
  | _ => intro h; simp [Q.IsSpine] at h

/-- well-scopedness of an entry: of its key query (if any) and of its value -/
def EntryClosed (nf : Nat) (vs : List Nat) (kv : EKey × Q) : Prop :=
  (match kv.1 with | .q k => k.Closed nf vs | .c _ => True) ∧ kv.2.Closed nf vs

/-- the entry uses the parameter -/
def EntryHasParam (kv : EKey × Q) : Prop :=
  (match kv.1 with | .q k => k.HasParam | .c _ => False) ∨ kv.2.HasParam

theorem spine_closed {nf : Nat} {vs : List Nat} : ∀ (sp : Q), sp.IsSpine → sp.Closed nf vs →
    ∀ kv ∈ sp.entries, EntryClosed nf vs kv := by
  intro sp
  induction sp with
  | objStart => intro _ _ kv h; simp [Q.entries] at h
  | objSnoc init k v ihi _ _ =>
    intro h hc kv hkv
    simp only [Q.IsSpine] at h
    simp only [Q.Closed] at hc
    simp only [Q.entries, List.mem_append, List.mem_singleton] at hkv
    rcases hkv with hkv | rfl
    · exact ihi h hc.1 kv hkv
    · exact hc.2
  | objSnocC init key v ihi _ =>
    intro h hc kv hkv
    simp only [Q.IsSpine] at h
    simp only [Q.Closed] at hc
    simp only [Q.entries, List.mem_append, List.mem_singleton] at hkv
    rcases hkv with hkv | rfl
    · exact ihi h hc.1 kv hkv
    · exact ⟨trivial, hc.2⟩
  | _ => intro h; simp [Q.IsSpine] at h

theorem spine_param : ∀ (sp : Q), sp.IsSpine → ∀ kv ∈ sp.entries, EntryHasParam kv → sp.HasParam := by
  intro sp
  induction sp with
  | objStart => intro _ kv h; simp [Q.entries] at h
  | objSnoc init k v ihi _ _ =>
    intro h kv hkv hp
    simp only [Q.IsSpine] at h
    simp only [Q.entries, List.mem_append, List.mem_singleton] at hkv
    simp only [Q.HasParam]
    rcases hkv with hkv | rfl
    · exact Or.inl (ihi h kv hkv hp)
    · exact Or.inr hp
  | objSnocC init key v ihi _ =>
    intro h kv hkv hp
    simp only [Q.IsSpine] at h
    simp only [Q.entries, List.mem_append, List.mem_singleton] at hkv
    simp only [Q.HasParam]
    rcases hkv with hkv | rfl
    · exact Or.inl (ihi h kv hkv hp)
    · rcases hp with hp | hp
      · exact hp.elim
      · exact Or.inr hp
  | _ => intro h; simp [Q.IsSpine] at h

/-! ## `opobject` -/

/-- the stack cells of the evaluated pairs, LAST entry first (on top): value above key -/
def stk : List (V × V) → List SV
  | [] => []
  | (k, v) :: rest => .v v :: .v k :: stk rest

/-- `opobject` on the cells of the pairs computes `objOfPairsRev`, and leaves the stack below them
    when it succeeds -/
theorem popObject_stk : ∀ (rs : List (V × V)) (S : List SV) (m : List (Bytes × V)),
    ∃ S', popObject rs.length (stk rs ++ S) m = some (objOfPairsRev rs m, S') ∧
      (∀ m', objOfPairsRev rs m = .ok m' → S' = S) := by
  intro rs
  induction rs with
  | nil => intro S m; exact ⟨S, by simp [popObject, stk, objOfPairsRev], fun _ _ => rfl⟩
  | cons kv rs ih =>
    intro S m
    obtain ⟨k, v⟩ := kv
    cases k with
    | str s =>
      obtain ⟨S', h1, h2⟩ := ih S (if m.any (fun kv => kv.1 == s) then m else kvInsert s v m)
      exact ⟨S', by simpa [popObject, stk, objOfPairsRev] using h1, by simpa [objOfPairsRev] using h2⟩
    | _ => exact ⟨stk rs ++ S, by simp [popObject, stk, objOfPairsRev], by simp [objOfPairsRev]⟩

/-! ## the entries -/

/-- the remaining entries `es`, started with the pairs `acc` already evaluated on the stack -/
theorem obj_entries {code defs entry nf n} (ihn : CY code defs entry nf n)
    (g : Ctx) (e i0 : Nat) (ρ : Env) (x : V) (fr : List Frame) (P : Nat → Prop) (S : List SV)
    (htop : TopIs fr e) (hge : scopeOf entry g ≤ e) (hi0 : P (base fr + i0)) :
    ∀ (es : List (EKey × Q)) (p : Nat) (acc : List (V × V)) (F : List Fork) (R : Regs) (o : Nat) (cp : CP),
      e ≤ p → Seg code p (compileEntries entry g e i0 p es) →
      code[p + (compileEntries entry g e i0 p es).length]? = some (.object (acc.length + es.length)) →
      (∀ kv ∈ es, EntryClosed nf (g.vars.map (·.1)) kv) →
      (∀ kv ∈ es, EntryHasParam kv → ρ.clo ≠ .none) →
      (∀ a, P a → a < base fr + (p - e)) →
      R (base fr + i0) = .v x →
      EnvOK code entry nf P R fr ρ g →
      base fr + (p + (compileEntries entry g e i0 p es).length + 1 - e) ≤ o →
      ND (evalEntries (fun q y => eval defs n g ρ q y) x es acc).stop →
      Yields code (Own (base fr) e p ((compileEntries entry g e i0 p es).length + 1)) P o fr F
        (p + (compileEntries entry g e i0 p es).length + 1) S
        (.run p (stk acc.reverse ++ S) F false none R fr o cp)
        (evalEntries (fun q y => eval defs n g ρ q y) x es acc).outs
        (evalEntries (fun q y => eval defs n g ρ q y) x es acc).stop.toErr := by
  obtain ⟨ft, hres, hbase, _, _⟩ := htop.resolve
  intro es
  induction es with
  | nil =>
    intro p acc F R o cp _ _ hobj _ _ _ _ _ _ _
    simp only [compileEntries, List.length_nil, Nat.add_zero] at hobj ⊢
    obtain ⟨S', hpop, hS'⟩ := popObject_stk acc.reverse S []
    rw [List.length_reverse] at hpop
    simp only [evalEntries, objOfPairs]
    cases hr : objOfPairsRev acc.reverse [] with
    | ok m =>
      have hSS : S' = S := hS' m hr
      subst hSS
      rw [hr] at hpop
      simp only [Stop.toErr]
      exact .out (F' := []) (R1 := R) (o1 := o) (cp := cp) ForksOK.nil (Steps.one (by simp [step, hobj, hpop]))
        (Nat.le_refl _) EqOff.refl (fun _ => ⟨rfl, rfl⟩) (fun R2 _ => .done (.refl _) EqOff.refl)
    | error k =>
      rw [hr] at hpop
      simp only [Stop.toErr]
      exact .done (e := some (.keyNotStr k)) (Steps.one (by simp [step, hobj, hpop])) EqOff.refl
  | cons kv rest ih =>
    obtain ⟨key, v⟩ := kv
    cases key with
    | q k =>
      intro p acc F R o cp hep hseg hobj hcl hpar hP hRx henv hoff hnd
      simp only [compileEntries] at hseg hobj hoff ⊢
      generalize hck : compile entry g e (p+1) k = ck at hseg hobj hoff ⊢
      generalize hcv : compile entry g e (p + 1 + ck.length + 1) v = cv at hseg hobj hoff ⊢
      generalize hcr : compileEntries entry g e i0 (p + 1 + ck.length + 1 + cv.length) rest = cr at hseg hobj hoff ⊢
      have hlen : ([Instr.load e i0] ++ ck ++ [Instr.load e i0] ++ cv ++ cr).length = 1 + ck.length + 1 + cv.length + cr.length := by
        simp; omega
      rw [hlen] at hobj hoff ⊢
      have h0 : code[p]? = some (.load e i0) := by have := hseg 0 (by simp); simpa using this
      have hsk : Seg code (p+1) ck := by
        have := Seg.append_right (a := [Instr.load e i0]) (b := ck) (Seg.append_left (Seg.append_left (Seg.append_left hseg)))
        simpa using this
      have h1 : code[p + 1 + ck.length]? = some (.load e i0) := by
        have := Seg.head (Seg.append_right (a := [Instr.load e i0] ++ ck) (b := [Instr.load e i0]) (Seg.append_left (Seg.append_left hseg)))
        have e1 : p + ([Instr.load e i0] ++ ck).length = p + 1 + ck.length := by simp; omega
        rw [e1] at this; exact this
      have hsv : Seg code (p + 1 + ck.length + 1) cv := by
        have := Seg.append_right (a := [Instr.load e i0] ++ ck ++ [Instr.load e i0]) (b := cv) (Seg.append_left hseg)
        have e1 : p + ([Instr.load e i0] ++ ck ++ [Instr.load e i0]).length = p + 1 + ck.length + 1 := by simp; omega
        rw [e1] at this; exact this
      have hsr : Seg code (p + 1 + ck.length + 1 + cv.length) cr := by
        have := Seg.append_right (a := [Instr.load e i0] ++ ck ++ [Instr.load e i0] ++ cv) (b := cr) hseg
        have e1 : p + ([Instr.load e i0] ++ ck ++ [Instr.load e i0] ++ cv).length = p + 1 + ck.length + 1 + cv.length := by simp; omega
        rw [e1] at this; exact this
      have hclk : k.Closed nf (g.vars.map (·.1)) ∧ v.Closed nf (g.vars.map (·.1)) := hcl (.q k, v) (by simp)
      have hpark : (k.HasParam ∨ v.HasParam) → ρ.clo ≠ .none := hpar (.q k, v) (by simp)
      simp only [evalEntries] at hnd ⊢
      have hndk : ND (eval defs n g ρ k x).stop := bindG_nd hnd
      rw [bindG_of_nd hndk] at hnd ⊢
      let Sa := stk acc.reverse ++ S
      have start : Steps code (.run p Sa F false none R fr o cp) (.run (p+1) (.v x :: Sa) F false none R fr o cp) := by
        refine Steps.one ?_
        rw [step_load h0 hres, hbase, hRx]
      refine Yields.steps_left start EqOff.refl ?_
      have yk := ihn k g e (p+1) (by omega) (hck ▸ hsk) hclk.1 ρ x Sa F R fr o cp P htop hge
        (fun h => hpark (Or.inl h)) (fun a h => by have := hP a h; omega) henv (by rw [hck]; omega) hndk
      rw [hck] at yk
      have hexit : p + (1 + ck.length + 1 + cv.length + cr.length) + 1 = p + 1 + ck.length + 1 + cv.length + cr.length + 1 := by omega
      rw [hexit]
      have := Yields.bind
        (f := fun kk => (eval defs n g ρ v x).bindG fun vv => evalEntries (fun q y => eval defs n g ρ q y) x rest (acc ++ [(kk, vv)]))
        (R0 := R)
        (Oa := Own (base fr) e (p+1) ck.length)
        (Ob := Own (base fr) e (p + 1 + ck.length) (1 + cv.length + cr.length + 1))
        (O := Own (base fr) e p (1 + ck.length + 1 + cv.length + cr.length + 1))
        (p' := p + 1 + ck.length + 1 + cv.length + cr.length + 1) (S := S)
        (by intro i h; obtain ⟨j, h1, h2, h3⟩ := h; exact ⟨j, by omega, by omega, h3⟩)
        (by intro i h; obtain ⟨j, h1, h2, h3⟩ := h; exact ⟨j, by omega, by omega, h3⟩)
        (by intro i h h'; obtain ⟨j, h1, h2, h3⟩ := h; obtain ⟨k, k1, k2, k3⟩ := h'; omega)
        (by intro i h; obtain ⟨j, h1, h2, h3⟩ := h; omega)
        (by intro i h; have := hP i h; refine ⟨by omega, ?_⟩; intro h'; obtain ⟨j, h1, h2, h3⟩ := h'; omega)
        yk
        (fun kk G R' o1 cp' ho1 hR' hkk => by
          have hndv : ND (eval defs n g ρ v x).stop := bindG_nd hkk
          simp only [bindG_of_nd hndv] at hkk ⊢
          have hR'x : R' (base fr + i0) = .v x := by rw [← hR' _ hi0]; exact hRx
          have start2 : Steps code (.run (p + 1 + ck.length) (.v kk :: Sa) G false none R' fr o1 cp')
              (.run (p + 1 + ck.length + 1) (.v x :: .v kk :: Sa) G false none R' fr o1 cp') := by
            refine Steps.one ?_
            rw [step_load h1 hres, hbase, hR'x]
          refine Yields.steps_left start2 EqOff.refl ?_
          have yv := ihn v g e (p + 1 + ck.length + 1) (by omega) (hcv ▸ hsv) hclk.2 ρ x (.v kk :: Sa) G R' fr o1 cp' P htop hge
            (fun h => hpark (Or.inr h)) (fun a h => by have := hP a h; omega) (henv.congr hR') (by rw [hcv]; omega) hndv
          rw [hcv] at yv
          have := Yields.bind
            (f := fun vv => evalEntries (fun q y => eval defs n g ρ q y) x rest (acc ++ [(kk, vv)]))
            (R0 := R')
            (Oa := Own (base fr) e (p + 1 + ck.length + 1) cv.length)
            (Ob := Own (base fr) e (p + 1 + ck.length + 1 + cv.length) (cr.length + 1))
            (O := Own (base fr) e (p + 1 + ck.length) (1 + cv.length + cr.length + 1))
            (p' := p + 1 + ck.length + 1 + cv.length + cr.length + 1) (S := S)
            (by intro i h; obtain ⟨j, h1, h2, h3⟩ := h; exact ⟨j, by omega, by omega, h3⟩)
            (by intro i h; obtain ⟨j, h1, h2, h3⟩ := h; exact ⟨j, by omega, by omega, h3⟩)
            (by intro i h h'; obtain ⟨j, h1, h2, h3⟩ := h; obtain ⟨k, k1, k2, k3⟩ := h'; omega)
            (by intro i h; obtain ⟨j, h1, h2, h3⟩ := h; omega)
            (by intro i h; have := hP i h; refine ⟨by omega, ?_⟩; intro h'; obtain ⟨j, h1, h2, h3⟩ := h'; omega)
            yv
            (fun vv G2 R2 o2 cp2 ho2 hR2 hvv => by
              have hR2x : R2 (base fr + i0) = .v x := by rw [← hR2 _ hi0]; exact hR'x
              have hstk : stk (acc ++ [(kk, vv)]).reverse ++ S = .v vv :: .v kk :: Sa := by
                simp [stk, Sa]
              have hcnt : (acc ++ [(kk, vv)]).length + rest.length = acc.length + (rest.length + 1) := by
                simp; omega
              have y := ih (p + 1 + ck.length + 1 + cv.length) (acc ++ [(kk, vv)]) G2 R2 o2 cp2 (by omega)
                (hcr ▸ hsr)
                (by rw [hcr, hcnt]
                    have e1 : p + 1 + ck.length + 1 + cv.length + cr.length = p + (1 + ck.length + 1 + cv.length + cr.length) := by omega
                    rw [e1]; simpa using hobj)
                (fun kv h => hcl kv (by simp [h])) (fun kv h => hpar kv (by simp [h]))
                (fun a h => by have := hP a h; omega) hR2x ((henv.congr hR').congr hR2)
                (by rw [hcr]; omega) hvv
              rw [hcr, hstk] at y
              exact y)
            (eval defs n g ρ v x).stop rfl EqOn.refl hkk
          exact this)
        (eval defs n g ρ k x).stop rfl EqOn.refl hnd
      exact this

    | c key =>
      intro p acc F R o cp hep hseg hobj hcl hpar hP hRx henv hoff hnd
      simp only [compileEntries] at hseg hobj hoff ⊢
      generalize hcv : compile entry g e (p + 2) v = cv at hseg hobj hoff ⊢
      generalize hcr : compileEntries entry g e i0 (p + 2 + cv.length) rest = cr at hseg hobj hoff ⊢
      have hlen : ([Instr.push key, Instr.load e i0] ++ cv ++ cr).length = 2 + cv.length + cr.length := by
        simp; omega
      rw [hlen] at hobj hoff ⊢
      have h0 : code[p]? = some (.push key) := by have := hseg 0 (by simp); simpa using this
      have h1 : code[p+1]? = some (.load e i0) := by have := hseg 1 (by simp); simpa using this
      have hsv : Seg code (p + 2) cv := by
        have := Seg.append_right (a := [Instr.push key, Instr.load e i0]) (b := cv) (Seg.append_left hseg)
        simpa using this
      have hsr : Seg code (p + 2 + cv.length) cr := by
        have := Seg.append_right (a := [Instr.push key, Instr.load e i0] ++ cv) (b := cr) hseg
        have e1 : p + ([Instr.push key, Instr.load e i0] ++ cv).length = p + 2 + cv.length := by simp; omega
        rw [e1] at this; exact this
      have hclv : v.Closed nf (g.vars.map (·.1)) := (hcl (.c key, v) (by simp)).2
      have hparv : v.HasParam → ρ.clo ≠ .none := fun h => hpar (.c key, v) (by simp) (Or.inr h)
      simp only [evalEntries] at hnd ⊢
      have hndv : ND (eval defs n g ρ v x).stop := bindG_nd hnd
      rw [bindG_of_nd hndv] at hnd ⊢
      let Sa := stk acc.reverse ++ S
      have start : Steps code (.run p Sa F false none R fr o cp) (.run (p+2) (.v x :: .v key :: Sa) F false none R fr o cp) := by
        refine .head (c' := .run (p+1) (.v key :: Sa) F false none R fr o cp) (by simp [step, h0]) (Steps.one ?_)
        rw [step_load h1 hres, hbase, hRx]
      refine Yields.steps_left start EqOff.refl ?_
      have yv := ihn v g e (p+2) (by omega) (hcv ▸ hsv) hclv ρ x (.v key :: Sa) F R fr o cp P htop hge
        hparv (fun a h => by have := hP a h; omega) henv (by rw [hcv]; omega) hndv
      rw [hcv] at yv
      have hexit : p + (2 + cv.length + cr.length) + 1 = p + 2 + cv.length + cr.length + 1 := by omega
      rw [hexit]
      have := Yields.bind
        (f := fun vv => evalEntries (fun q y => eval defs n g ρ q y) x rest (acc ++ [(key, vv)]))
        (R0 := R)
        (Oa := Own (base fr) e (p+2) cv.length)
        (Ob := Own (base fr) e (p + 2 + cv.length) (cr.length + 1))
        (O := Own (base fr) e p (2 + cv.length + cr.length + 1))
        (p' := p + 2 + cv.length + cr.length + 1) (S := S)
        (by intro i h; obtain ⟨j, h1, h2, h3⟩ := h; exact ⟨j, by omega, by omega, h3⟩)
        (by intro i h; obtain ⟨j, h1, h2, h3⟩ := h; exact ⟨j, by omega, by omega, h3⟩)
        (by intro i h h'; obtain ⟨j, h1, h2, h3⟩ := h; obtain ⟨k, k1, k2, k3⟩ := h'; omega)
        (by intro i h; obtain ⟨j, h1, h2, h3⟩ := h; omega)
        (by intro i h; have := hP i h; refine ⟨by omega, ?_⟩; intro h'; obtain ⟨j, h1, h2, h3⟩ := h'; omega)
        yv
        (fun vv G2 R2 o2 cp2 ho2 hR2 hvv => by
          have hR2x : R2 (base fr + i0) = .v x := by rw [← hR2 _ hi0]; exact hRx
          have hstk : stk (acc ++ [(key, vv)]).reverse ++ S = .v vv :: .v key :: Sa := by
            simp [stk, Sa]
          have hcnt : (acc ++ [(key, vv)]).length + rest.length = acc.length + (rest.length + 1) := by
            simp; omega
          have y := ih (p + 2 + cv.length) (acc ++ [(key, vv)]) G2 R2 o2 cp2 (by omega)
            (hcr ▸ hsr)
            (by rw [hcr, hcnt]
                have e1 : p + 2 + cv.length + cr.length = p + (2 + cv.length + cr.length) := by omega
                rw [e1]; simpa using hobj)
            (fun kv h => hcl kv (by simp [h])) (fun kv h => hpar kv (by simp [h]))
            (fun a h => by have := hP a h; omega) hR2x (henv.congr hR2)
            (by rw [hcr]; omega) hvv
          rw [hcr, hstk] at y
          exact y)
        (eval defs n g ρ v x).stop rfl EqOn.refl hnd
      exact this

/-- `{(k₁): v₁, …, (kₙ): vₙ}` -/
theorem cy_obj {code defs entry nf n} (hfun : FuncsOK code defs entry nf) (ihn : CY code defs entry nf n) (sp : Q) :
    CYq code defs entry nf (n+1) (.obj sp) := by
  intro g e p hep hseg hcl ρ v S F R fr o cp P htop hge hpar hP henv hoff hnd
  simp only [Q.Closed] at hcl
  simp only [Q.HasParam] at hpar
  obtain ⟨hclsp, hspine, _⟩ := hcl
  obtain ⟨ft, hres, hbase, _, _⟩ := htop.resolve
  simp only [compile, compile_spine entry sp hspine] at hseg hoff ⊢
  generalize hce : compileEntries entry g e (p - e) (p+1) sp.entries = ce at hseg hoff ⊢
  have hlen : ([Instr.store e (p - e)] ++ ce ++ [Instr.object sp.entries.length]).length = 1 + ce.length + 1 := by
    simp; omega
  rw [hlen] at hoff ⊢
  have h0 : code[p]? = some (.store e (p - e)) := by have := hseg 0 (by simp); simpa using this
  have hse : Seg code (p+1) ce := by
    have := Seg.append_right (a := [Instr.store e (p - e)]) (b := ce) (Seg.append_left hseg)
    simpa using this
  have hobj : code[p + 1 + ce.length]? = some (.object sp.entries.length) := by
    have := Seg.head (Seg.append_right (a := [Instr.store e (p - e)] ++ ce) (b := [Instr.object sp.entries.length]) hseg)
    have e1 : p + ([Instr.store e (p - e)] ++ ce).length = p + 1 + ce.length := by simp; omega
    rw [e1] at this; exact this
  let r0 := base fr + (p - e)
  let R0 := R.set r0 (.v v)
  let P' : Nat → Prop := fun a => P a ∨ a = r0
  have hr0P : ¬ P r0 := by intro h; have := hP _ h; simp only [r0] at this; omega
  have hRR0 : EqOn P R R0 := by
    intro a ha; simp only [R0, Regs.set]; split
    · rename_i h; subst h; exact absurd ha hr0P
    · rfl
  have start : Steps code (.run p (.v v :: S) F false none R fr o cp) (.run (p+1) S F false none R0 fr o cp) := by
    refine Steps.one ?_
    rw [step_store h0 hres, hbase]
  have henv' : EnvOK code entry nf P' R0 fr ρ g := by
    have he := henv.congr hRR0
    refine ⟨he.1.monoP (fun a h => Or.inl h), ?_⟩
    intro y r hy
    obtain ⟨u, h1, h2, h3⟩ := he.2 y r hy
    exact ⟨u, h1, h2, Or.inl h3⟩
  simp only [eval] at hnd ⊢
  have y := obj_entries ihn g e (p - e) ρ v fr P' S htop hge (Or.inr rfl) sp.entries (p+1) [] F R0 o cp (by omega)
    (hce ▸ hse) (by rw [hce]; simpa using hobj) (spine_closed sp hspine hclsp)
    (fun kv h hp => hpar (spine_param sp hspine kv h hp))
    (fun a h => by
      rcases h with h | h
      · have := hP a h; omega
      · simp only [h, r0]; omega)
    (by simp [R0, Regs.set, r0]) henv' (by rw [hce]; omega) hnd
  rw [hce] at y
  have y' := y.mono (O' := Own (base fr) e p (1 + ce.length + 1)) (P' := P) (o' := o)
    (fun i h => by obtain ⟨j, h1, h2, h3⟩ := h; exact Or.inl ⟨j, by omega, by omega, h3⟩)
    (fun a h => by
      rcases h with h | h
      · exact Or.inr (Or.inl h)
      · exact Or.inl ⟨p, by omega, by omega, by simp [h, r0]⟩)
    (Nat.le_refl _)
  have hexit : p + (1 + ce.length + 1) = p + 1 + ce.length + 1 := by omega
  rw [hexit]
  refine Yields.steps_left start ?_ (by simpa [stk] using y')
  intro a ha
  have hne : a ≠ r0 := fun h => ha (Or.inl ⟨p, by omega, by omega, by simp [h, r0]⟩)
  simp [R0, Regs.set, hne]

end Gojq.MiniVM

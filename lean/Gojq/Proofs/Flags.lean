/- Helper lemmas for C15 `flags_spec` / C16 `args_binding` about Model/Cli/Flags.lean. -/
import Gojq.Model.Cli.Flags
namespace Gojq.Flags

/-- the four flags of kind map -/
def mapFlagNames : List Str := ["arg".toList, "argjson".toList, "slurpfile".toList, "rawfile".toList]

/-- the long flags that take one value and are not positional -/
def valueFlagNames : List Str := ["indent".toList, "library-path".toList]

theorem parse_dashdash (st : PS) (tl : List Str) (h : st.optsDone = false) :
    parse st (['-', '-'] :: tl) = parse { st with optsDone := true } tl := by
  simp [parse, classify, h]

theorem parse_done (st : PS) (a : Str) (tl : List Str) (h : st.optsDone = true) :
    parse st (a :: tl) = parse (addFree st a) tl := by
  simp [parse, classify, h]

theorem addFree_done (st : PS) (a : Str) : (addFree st a).optsDone = st.optsDone := by
  unfold addFree
  split <;> (try split) <;> rfl

theorem parse_all_free : ∀ (as : List Str) (st : PS), st.optsDone = true →
    parse st as = .ok (as.foldl addFree st).out
  | [], st, _ => rfl
  | a :: as, st, h => by
    rw [parse_done st a as h, parse_all_free as (addFree st a) (by rw [addFree_done]; exact h)]
    rfl

/-! ### map flags -/

theorem parse_map (st : PS) (f n v : Str) (tl : List Str) (hf : f ∈ mapFlagNames) (h : st.optsDone = false) :
    parse st (('-' :: '-' :: f) :: n :: v :: tl) = parse (bind st f n v) tl := by
  simp only [mapFlagNames, List.mem_cons, List.not_mem_nil, or_false] at hf
  rcases hf with rfl | rfl | rfl | rfl <;>
    simp [parse, classify, longAction, lookupLong, table, single, h]

theorem bind_done (st : PS) (f n v : Str) : (bind st f n v).optsDone = st.optsDone := by
  unfold bind; split <;> rfl

def argsOf : List (Str × Str × Str) → List Str
  | [] => []
  | (f, n, v) :: bs => ('-' :: '-' :: f) :: n :: v :: argsOf bs

def bindAll (st : PS) : List (Str × Str × Str) → PS
  | [] => st
  | (f, n, v) :: bs => bindAll (bind st f n v) bs

theorem bindAll_done : ∀ (bs : List (Str × Str × Str)) (st : PS), (bindAll st bs).optsDone = st.optsDone
  | [], _ => rfl
  | (f, n, v) :: bs, st => by rw [bindAll, bindAll_done bs, bind_done]

theorem parse_bindings : ∀ (bs : List (Str × Str × Str)) (st : PS) (tl : List Str),
    (∀ b ∈ bs, b.1 ∈ mapFlagNames) → st.optsDone = false →
    parse st (argsOf bs ++ tl) = parse (bindAll st bs) tl
  | [], _, _, _, _ => rfl
  | (f, n, v) :: bs, st, tl, hbs, h => by
    simp only [argsOf, List.cons_append]
    rw [parse_map st f n v _ (hbs (f, n, v) (by simp)) h]
    exact parse_bindings bs _ tl (fun b hb => hbs b (by simp [hb])) (by rw [bind_done]; exact h)

/-- the set of bound names is the set of names in the kept bindings -/
def KeysOK (st : PS) : Prop := ∀ n, n ∈ st.mapKeys ↔ ∃ b ∈ st.out.maps, b.2.1 = n

theorem bind_keysOK {st : PS} (hk : KeysOK st) (f n v : Str) : KeysOK (bind st f n v) := by
  unfold bind
  split
  · exact hk
  · intro m
    simp only [List.mem_cons, List.mem_append, List.not_mem_nil, or_false]
    constructor
    · rintro (rfl | hm)
      · exact ⟨(f, m, v), Or.inr rfl, rfl⟩
      · obtain ⟨b, hb, rfl⟩ := (hk m).mp hm
        exact ⟨b, Or.inl hb, rfl⟩
    · rintro ⟨b, hb | rfl, rfl⟩
      · exact Or.inr ((hk _).mpr ⟨b, hb, rfl⟩)
      · exact Or.inl rfl

theorem bind_other (st : PS) (f n v : Str) :
    (bind st f n v).out.bools = st.out.bools ∧ (bind st f n v).out.indent = st.out.indent ∧
    (bind st f n v).out.libs = st.out.libs ∧ (bind st f n v).out.args = st.out.args ∧
    (bind st f n v).out.jsonargs = st.out.jsonargs ∧ (bind st f n v).out.rest = st.out.rest := by
  unfold bind; split <;> simp

/-- looking a name up in the kept bindings finds its FIRST binding -/
theorem bindAll_find : ∀ (bs : List (Str × Str × Str)) (st : PS), KeysOK st → ∀ m : Str,
    (bindAll st bs).out.maps.find? (fun b => b.2.1 == m) = (st.out.maps ++ bs).find? (fun b => b.2.1 == m)
  | [], st, _, m => by simp [bindAll]
  | (f, n, v) :: bs, st, hk, m => by
    rw [bindAll, bindAll_find bs _ (bind_keysOK hk f n v) m]
    unfold bind
    split
    · rename_i hin
      simp only [List.contains_iff_mem] at hin
      obtain ⟨b, hb, hbn⟩ := (hk n).mp hin
      simp only [List.find?_append, List.find?_cons]
      by_cases hmn : n = m
      · subst hmn
        have : (st.out.maps.find? (fun b => b.2.1 == n)).isSome := by
          rw [List.find?_isSome]; exact ⟨b, hb, by simp [hbn]⟩
        obtain ⟨w, hw⟩ := Option.isSome_iff_exists.mp this
        simp [hw]
      · have : ((f, n, v).2.1 == m) = false := by simp [hmn]
        simp [this]
    · simp [List.append_assoc]

/-- no name is bound twice -/
theorem bindAll_nodup : ∀ (bs : List (Str × Str × Str)) (st : PS), KeysOK st →
    st.out.maps.Pairwise (fun a b => a.2.1 ≠ b.2.1) → (bindAll st bs).out.maps.Pairwise (fun a b => a.2.1 ≠ b.2.1)
  | [], _, _, h => h
  | (f, n, v) :: bs, st, hk, h => by
    rw [bindAll]
    refine bindAll_nodup bs _ (bind_keysOK hk f n v) ?_
    unfold bind
    split
    · exact h
    · rename_i hin
      simp only [List.contains_iff_mem] at hin
      simp only [List.pairwise_append, List.pairwise_cons, List.Pairwise.nil, List.not_mem_nil, false_imp_iff,
        implies_true, and_true, true_and, List.mem_singleton]
      refine ⟨h, ?_⟩
      intro a ha b hb heq
      subst hb
      exact hin ((hk n).mpr ⟨a, ha, heq⟩)

theorem bindAll_other : ∀ (bs : List (Str × Str × Str)) (st : PS),
    (bindAll st bs).out.bools = st.out.bools ∧ (bindAll st bs).out.indent = st.out.indent ∧
    (bindAll st bs).out.libs = st.out.libs ∧ (bindAll st bs).out.args = st.out.args ∧
    (bindAll st bs).out.jsonargs = st.out.jsonargs ∧ (bindAll st bs).out.rest = st.out.rest
  | [], _ => ⟨rfl, rfl, rfl, rfl, rfl, rfl⟩
  | (f, n, v) :: bs, st => by
    rw [bindAll]
    obtain ⟨a1, a2, a3, a4, a5, a6⟩ := bindAll_other bs (bind st f n v)
    obtain ⟨b1, b2, b3, b4, b5, b6⟩ := bind_other st f n v
    exact ⟨a1.trans b1, a2.trans b2, a3.trans b3, a4.trans b4, a5.trans b5, a6.trans b6⟩

/-! ### bundles -/

def BoolShort (c : Char) : Prop := ∃ sp, lookupShort c = some sp ∧ sp.kind = .bool

theorem boolShort_ne_dash {c : Char} (h : BoolShort c) : c ≠ '-' := by
  rintro rfl
  obtain ⟨sp, h1, _⟩ := h
  simp [lookupShort, table] at h1

theorem skipBundle_bools : ∀ cs : List Char, (∀ c ∈ cs, BoolShort c) → skipBundle cs = false
  | [], _ => rfl
  | c :: cs, h => by
    obtain ⟨sp, h1, h2⟩ := h c (by simp)
    simp [skipBundle, h1, h2, skipBundle_bools cs (fun d hd => h d (by simp [hd]))]

def specsOf (cs : List Char) : List Spec := cs.filterMap lookupShort

theorem bundle_bools : ∀ (cs : List Char) (acc : List Spec), (∀ c ∈ cs, BoolShort c) →
    bundle cs acc = .flags (acc.reverse ++ specsOf cs) none
  | [], acc, _ => by simp [bundle, specsOf]
  | c :: cs, acc, h => by
    obtain ⟨sp, h1, h2⟩ := h c (by simp)
    simp [bundle, h1, h2, specsOf, bundle_bools cs (sp :: acc) (fun d hd => h d (by simp [hd]))]

theorem classify_bundle (c : Char) (cs : List Char) (h : ∀ d ∈ c :: cs, BoolShort d) :
    classify false ('-' :: c :: cs) = .flags (specsOf (c :: cs)) none := by
  have hc : c ≠ '-' := boolShort_ne_dash (h c (by simp))
  have hs := skipBundle_bools (c :: cs) h
  have hb := bundle_bools (c :: cs) [] h
  unfold classify
  simp only [Bool.false_eq_true, if_false]
  split
  · rename_i heq; simp at heq; exact absurd heq.1 hc
  · rename_i heq; simp at heq; exact absurd heq.1 hc
  · rename_i heq
    simp only [List.cons.injEq, true_and] at heq
    obtain ⟨rfl, rfl⟩ := heq
    simp [hs, hb]
  · rename_i h1 h2 h3
    exact absurd rfl (h3 c cs)

theorem setBool_done (st : PS) (sp : Spec) : (setBool st sp).optsDone = st.optsDone := rfl

theorem foldl_setBool_done : ∀ (sps : List Spec) (st : PS), (sps.foldl setBool st).optsDone = st.optsDone
  | [], _ => rfl
  | sp :: sps, st => by simp [List.foldl_cons, foldl_setBool_done sps]; rfl

theorem parse_bundle (st : PS) (c : Char) (cs : List Char) (tl : List Str) (h : ∀ d ∈ c :: cs, BoolShort d)
    (hd : st.optsDone = false) :
    parse st (('-' :: c :: cs) :: tl) = parse ((specsOf (c :: cs)).foldl setBool st) tl := by
  simp [parse, hd, classify_bundle c cs h]

theorem parse_bools_seq : ∀ (cs : List Char) (st : PS) (tl : List Str), (∀ c ∈ cs, BoolShort c) → st.optsDone = false →
    parse st (cs.map (fun c => ['-', c]) ++ tl) = parse ((specsOf cs).foldl setBool st) tl
  | [], _, _, _, _ => by simp [specsOf]
  | c :: cs, st, tl, h, hd => by
    have h1 : ∀ d ∈ [c], BoolShort d := by intro d hd'; simp at hd'; rw [hd']; exact h c (by simp)
    simp only [List.map_cons, List.cons_append]
    rw [parse_bundle st c [] _ h1 hd, parse_bools_seq cs _ tl (fun d hd' => h d (by simp [hd'])) (by rw [foldl_setBool_done]; exact hd)]
    obtain ⟨sp, h2, _⟩ := h c (by simp)
    simp [specsOf, h2]

/-! ### --flag=value -/

theorem parse_indent_eq (st : PS) (v : Str) (tl : List Str) (hd : st.optsDone = false) :
    parse st (('-' :: '-' :: ("indent".toList ++ '=' :: v)) :: tl) = parse st (('-' :: '-' :: "indent".toList) :: v :: tl) := by
  simp [parse, classify, longAction, lookupLong, table, splitEq, single, hd]

theorem parse_lib_eq (st : PS) (v : Str) (tl : List Str) (hd : st.optsDone = false) :
    parse st (('-' :: '-' :: ("library-path".toList ++ '=' :: v)) :: tl) = parse st (('-' :: '-' :: "library-path".toList) :: v :: tl) := by
  simp [parse, classify, longAction, lookupLong, table, splitEq, single, hd]

theorem parse_map_eq (st : PS) (f n : Str) (tl : List Str) (hf : f ∈ mapFlagNames) (hd : st.optsDone = false) :
    parse st (('-' :: '-' :: (f ++ '=' :: n)) :: tl) = parse st (('-' :: '-' :: f) :: n :: tl) := by
  simp only [mapFlagNames, List.mem_cons, List.not_mem_nil, or_false] at hf
  rcases hf with rfl | rfl | rfl | rfl <;> cases tl <;>
    simp [parse, classify, longAction, lookupLong, table, splitEq, single, hd]

theorem classify_plain (a : Str) (h : a.head? ≠ some '-') : classify false a = .nonflag := by
  unfold classify
  simp only [Bool.false_eq_true, if_false]
  split <;> simp_all


/-! ### positional capture -/

theorem parse_free (st : PS) (a : Str) (tl : List Str) (hd : st.optsDone = false) (h : a.head? ≠ some '-') :
    parse st (a :: tl) = parse (addFree st a) tl := by
  simp [parse, hd, classify_plain a h]

theorem parse_args_flag (st : PS) (tl : List Str) (hd : st.optsDone = false) :
    parse st ("--args".toList :: tl) = parse (switchPositional st false) tl := by
  simp [parse, classify, longAction, lookupLong, table, single, hd]

theorem parse_jsonargs_flag (st : PS) (tl : List Str) (hd : st.optsDone = false) :
    parse st ("--jsonargs".toList :: tl) = parse (switchPositional st true) tl := by
  simp [parse, classify, longAction, lookupLong, table, single, hd]

theorem parse_positional_args : ∀ (xs : List Str) (st : PS), st.optsDone = false → st.positional = some false →
    st.out.rest ≠ [] → (∀ x ∈ xs, x.head? ≠ some '-') →
    parse st xs = .ok { st.out with args := st.out.args ++ xs.map some }
  | [], st, _, _, _, _ => by simp [parse]
  | x :: xs, st, hd, hp, hr, hx => by
    rw [parse_free st x xs hd (hx x (by simp))]
    have hne : st.out.rest.isEmpty = false := by cases h : st.out.rest <;> simp_all
    have ha : addFree st x = { st with out := { st.out with args := st.out.args ++ [some x] } } := by
      simp [addFree, hp, hne]
    rw [ha, parse_positional_args xs { st with out := { st.out with args := st.out.args ++ [some x] } } hd hp hr
      (fun y hy => hx y (by simp [hy]))]
    simp [List.append_assoc]

theorem positional_capture (q : Str) (xs : List Str) (hq : q.head? ≠ some '-') (hxs : ∀ x ∈ xs, x.head? ≠ some '-') :
    parseFlags ("--args".toList :: q :: xs) = .ok { rest := [q], args := xs.map some } := by
  unfold parseFlags
  rw [parse_args_flag _ _ rfl, parse_free _ q xs rfl hq]
  rw [parse_positional_args xs _ rfl rfl (by simp [addFree, switchPositional]) hxs]
  simp [addFree, switchPositional, padTo]

end Gojq.Flags

/-
  Round trip, part 7: interpolated strings, argument lists, function calls, `if`, `reduce`,
  `foreach`, formats.
-/
import Gojq.Proofs.RoundTripSuffix
import Gojq.Proofs.RoundTripNames
namespace Gojq.RefTerm
open Gojq

/-! ### interpolated strings -/

theorem pParts_end (f : Nat) (rest : List Tok) : pParts (f + 1) (.strEnd :: rest) = some ([], rest) := by
  rw [pParts]

theorem pParts_chunk (f : Nat) (v : Bytes) (X ts : List Tok) (ps : List Part) (h : pParts f X = some (ps, ts)) :
    pParts (f + 1) (.chunk v :: X) = some (.lit v :: ps, ts) := by
  rw [pParts]; simp [h]

theorem pParts_query (f : Nat) (X Y ts : List Tok) (q : Query) (ps : List Part)
    (h1 : pClimb f true 1 X = some (q, .ch 41 :: Y)) (h2 : pParts f Y = some (ps, ts)) :
    pParts (f + 1) (.strQuery :: X) = some (.q q :: ps, ts) := by
  rw [pParts]; simp [h1, h2, expect]

theorem parts_nil : RTParts [] := fun rest _ => ⟨1, fun f hf => by
  obtain ⟨k, rfl⟩ : ∃ k, f = k + 1 := ⟨f - 1, by omega⟩
  exact pParts_end k rest⟩

theorem parts_lit (v : Bytes) (ps : List Part) (ih : RTParts ps) : RTParts (.lit v :: ps) := fun rest hok => by
  simp only [okParts, Bool.and_eq_true] at hok
  obtain ⟨F, h⟩ := ih rest hok.2
  refine ⟨F + 1, fun f hf => ?_⟩
  obtain ⟨k, rfl⟩ : ∃ k, f = k + 1 := ⟨f - 1, by omega⟩
  have e : toks (itemsParts (.lit v :: ps)) ++ .strEnd :: rest =
      .chunk v :: (toks (itemsParts ps) ++ .strEnd :: rest) := by simp [itemsParts, itemsPart]
  rw [e]
  exact pParts_chunk k v _ rest ps (h k (by omega))

theorem parts_q (q : Query) (ps : List Part) (ihq : RTQ q) (ih : RTParts ps) : RTParts (.q q :: ps) :=
  fun rest hok => by
  simp only [okParts, okPart, Bool.and_eq_true] at hok
  obtain ⟨Fq, hQ⟩ := climb_stop q ihq true 1 (.ch 41) (toks (itemsParts ps) ++ .strEnd :: rest) hok.1 rfl
  obtain ⟨F, h⟩ := ih rest hok.2
  refine ⟨Fq + F + 1, fun f hf => ?_⟩
  obtain ⟨k, rfl⟩ : ∃ k, f = k + 1 := ⟨f - 1, by omega⟩
  have e : toks (itemsParts (.q q :: ps)) ++ .strEnd :: rest =
      .strQuery :: (toks (itemsQ q) ++ .ch 41 :: (toks (itemsParts ps) ++ .strEnd :: rest)) := by
    simp [itemsParts, itemsPart]
  rw [e]
  exact pParts_query k _ _ rest q ps (hQ k (by omega)) (h k (by omega))

theorem pPrimary_strI (f : Nat) (X ts : List Tok) (ps : List Part) (h : pParts f X = some (ps, ts)) :
    pPrimary (f + 1) (.strStart :: X) = some (.str (.interp ps), ts) := by
  rw [pPrimary]; simp [h]

theorem rt_strI (ps : List Part) (ih : RTParts ps) : RTT (.str (.interp ps)) := rtT_of_prim _ (fun rest hok _ => by
  simp only [okT, okS, Bool.and_eq_true] at hok
  obtain ⟨F, h⟩ := ih rest hok.2
  refine ⟨F + 1, fun g hg => ?_⟩
  obtain ⟨k, rfl⟩ : ∃ k, g = k + 1 := ⟨g - 1, by omega⟩
  have e : toks (itemsT (.str (.interp ps))) ++ rest = .strStart :: (toks (itemsParts ps) ++ .strEnd :: rest) := by
    simp [itemsT, itemsS]
  rw [e]
  exact pPrimary_strI k _ rest ps (h k (by omega)))

theorem pPrimary_formatLit (f : Nat) (s v : Bytes) (rest : List Tok) :
    pPrimary (f + 1) (.format s :: .str v :: rest) = some (.formatStr s (.lit v), rest) := by
  rw [pPrimary]

theorem pPrimary_formatI (f : Nat) (s : Bytes) (X ts : List Tok) (ps : List Part) (h : pParts f X = some (ps, ts)) :
    pPrimary (f + 1) (.format s :: .strStart :: X) = some (.formatStr s (.interp ps), ts) := by
  rw [pPrimary]; simp [h]

theorem rt_formatLit (s v : Bytes) : RTT (.formatStr s (.lit v)) :=
  rt_atom _ [.format s, .str v] (by simp [itemsT, itemsS])
  (fun g rest _ => by simp only [List.cons_append, List.nil_append]; exact pPrimary_formatLit g s v rest)

theorem rt_formatI (s : Bytes) (ps : List Part) (ih : RTParts ps) : RTT (.formatStr s (.interp ps)) :=
  rtT_of_prim _ (fun rest hok _ => by
  simp only [okT, okS, Bool.and_eq_true] at hok
  obtain ⟨F, h⟩ := ih rest hok.2.2
  refine ⟨F + 1, fun g hg => ?_⟩
  obtain ⟨k, rfl⟩ : ∃ k, g = k + 1 := ⟨g - 1, by omega⟩
  have e : toks (itemsT (.formatStr s (.interp ps))) ++ rest =
      .format s :: .strStart :: (toks (itemsParts ps) ++ .strEnd :: rest) := by simp [itemsT, itemsS]
  rw [e]
  exact pPrimary_formatI k s _ rest ps (h k (by omega)))

/-! ### argument lists and calls -/

theorem pArgsT_end (f : Nat) (rest : List Tok) : pArgsT (f + 1) (.ch 41 :: rest) = some ([], rest) := by
  rw [pArgsT]

theorem pArgsT_more (f : Nat) (X Y ts : List Tok) (q : Query) (qs : List Query)
    (h1 : pClimb f true 1 X = some (q, Y)) (h2 : pArgsT f Y = some (qs, ts)) :
    pArgsT (f + 1) (.ch 59 :: X) = some (q :: qs, ts) := by
  rw [pArgsT]; simp [h1, h2]

theorem argsT_head (qs : List Query) (rest : List Tok) :
    ∃ x r, toks (itemsArgsT qs) ++ .ch 41 :: rest = x :: r ∧ stopTok x = true := by
  cases qs with
  | nil => exact ⟨_, _, rfl, rfl⟩
  | cons q qs => exact ⟨.ch 59, _, by simp [itemsArgsT]; rfl, rfl⟩

theorem argsT_nil : RTArgsT [] := fun rest _ => ⟨1, fun f hf => by
  obtain ⟨k, rfl⟩ : ∃ k, f = k + 1 := ⟨f - 1, by omega⟩
  exact pArgsT_end k rest⟩

theorem argsT_cons (q : Query) (qs : List Query) (ihq : RTQ q) (ih : RTArgsT qs) : RTArgsT (q :: qs) :=
  fun rest hok => by
  simp only [okQs, Bool.and_eq_true] at hok
  obtain ⟨x, r, hx, hs⟩ := argsT_head qs rest
  obtain ⟨Fq, hQ⟩ := climb_stop q ihq true 1 x r hok.1 hs
  obtain ⟨F, h⟩ := ih rest hok.2
  refine ⟨Fq + F + 1, fun f hf => ?_⟩
  obtain ⟨k, rfl⟩ : ∃ k, f = k + 1 := ⟨f - 1, by omega⟩
  have e : toks (itemsArgsT (q :: qs)) ++ .ch 41 :: rest =
      .ch 59 :: (toks (itemsQ q) ++ (toks (itemsArgsT qs) ++ .ch 41 :: rest)) := by simp [itemsArgsT]
  rw [e]
  refine pArgsT_more k _ _ rest q qs ?_ (h k (by omega))
  rw [hx]; exact hQ k (by omega)

theorem pPrimary_call (f : Nat) (n : Bytes) (X Y ts : List Tok) (a : Query) (as : List Query)
    (h1 : pClimb f true 1 X = some (a, Y)) (h2 : pArgsT f Y = some (as, ts)) :
    pPrimary (f + 1) (.ident n :: .ch 40 :: X) = some (.func n (a :: as), ts) := by
  rw [pPrimary]; simp [h1, h2]

theorem pPrimary_modCall (f : Nat) (n : Bytes) (X Y ts : List Tok) (a : Query) (as : List Query)
    (h1 : pClimb f true 1 X = some (a, Y)) (h2 : pArgsT f Y = some (as, ts)) :
    pPrimary (f + 1) (.modIdent n :: .ch 40 :: X) = some (.func n (a :: as), ts) := by
  rw [pPrimary]; simp [h1, h2]

theorem rt_call (n : Bytes) (a : Query) (as : List Query) (iha : RTQ a) (ihas : RTArgsT as) :
    RTT (.func n (a :: as)) := rtT_of_prim _ (fun rest hok _ => by
  simp only [okT, Bool.and_eq_true, Bool.or_eq_true] at hok
  obtain ⟨⟨hn, ha⟩, has⟩ := hok
  obtain ⟨x, r, hx, hs⟩ := argsT_head as rest
  obtain ⟨Fq, hQ⟩ := climb_stop a iha true 1 x r ha hs
  obtain ⟨F, h⟩ := ihas rest has
  refine ⟨Fq + F + 1, fun g hg => ?_⟩
  obtain ⟨k, rfl⟩ : ∃ k, g = k + 1 := ⟨g - 1, by omega⟩
  have e : toks (itemsT (.func n (a :: as))) ++ rest =
      nameTok n :: .ch 40 :: (toks (itemsQ a) ++ (toks (itemsArgsT as) ++ .ch 41 :: rest)) := by simp [itemsT]
  have hQ' := hQ k (by omega)
  rw [← hx] at hQ'
  rw [e]
  rcases hn with hn | hn
  · simp only [isPlainIdent, Bool.and_eq_true] at hn
    rw [nameTok_ident n hn.1]
    exact pPrimary_call k n _ _ rest a as hQ' (h k (by omega))
  · rw [nameTok_modIdent n hn]
    exact pPrimary_modCall k n _ _ rest a as hQ' (h k (by omega)))

/-! ### `if` -/

theorem pIfRest_end (f : Nat) (rest : List Tok) : pIfRest (f + 1) (.kw .end_ :: rest) = some (.end_, rest) := by
  rw [pIfRest]

theorem pIfRest_else (f : Nat) (X ts : List Tok) (e : Query)
    (h : pClimb f true 1 X = some (e, .kw .end_ :: ts)) :
    pIfRest (f + 1) (.kw .else_ :: X) = some (.else_ e, ts) := by
  rw [pIfRest]; simp [h, expect]

theorem pIfRest_elif (f : Nat) (X Y Z ts : List Tok) (cnd t : Query) (r : IfRest)
    (h1 : pClimb f true 1 X = some (cnd, .kw .then_ :: Y)) (h2 : pClimb f true 1 Y = some (t, Z))
    (h3 : pIfRest f Z = some (r, ts)) :
    pIfRest (f + 1) (.kw .elif_ :: X) = some (.elif_ cnd t r, ts) := by
  rw [pIfRest]; simp [h1, h2, h3, expect]

theorem ifRest_head (r : IfRest) (rest : List Tok) :
    ∃ x r', toks (itemsIf r) ++ rest = x :: r' ∧ stopTok x = true := by
  cases r with
  | end_ => exact ⟨.kw .end_, _, by simp [itemsIf]; rfl, rfl⟩
  | else_ e => exact ⟨.kw .else_, _, by simp [itemsIf]; rfl, rfl⟩
  | elif_ c t r => exact ⟨.kw .elif_, _, by simp [itemsIf]; rfl, rfl⟩

theorem if_end : RTIf .end_ := fun rest _ => ⟨1, fun f hf => by
  obtain ⟨k, rfl⟩ : ∃ k, f = k + 1 := ⟨f - 1, by omega⟩
  have e : toks (itemsIf .end_) ++ rest = .kw .end_ :: rest := by simp [itemsIf]
  rw [e]; exact pIfRest_end k rest⟩

theorem if_else (q : Query) (ih : RTQ q) : RTIf (.else_ q) := fun rest hok => by
  simp only [okIf] at hok
  obtain ⟨F, h⟩ := climb_stop q ih true 1 (.kw .end_) rest hok rfl
  refine ⟨F + 1, fun f hf => ?_⟩
  obtain ⟨k, rfl⟩ : ∃ k, f = k + 1 := ⟨f - 1, by omega⟩
  have e : toks (itemsIf (.else_ q)) ++ rest = .kw .else_ :: (toks (itemsQ q) ++ .kw .end_ :: rest) := by
    simp [itemsIf]
  rw [e]; exact pIfRest_else k _ rest q (h k (by omega))

theorem if_elif (cnd t : Query) (r : IfRest) (ihc : RTQ cnd) (iht : RTQ t) (ihr : RTIf r) :
    RTIf (.elif_ cnd t r) := fun rest hok => by
  simp only [okIf, Bool.and_eq_true] at hok
  obtain ⟨⟨hc, ht⟩, hr⟩ := hok
  obtain ⟨x, r', hx, hs⟩ := ifRest_head r rest
  obtain ⟨Fc, hC⟩ := climb_stop cnd ihc true 1 (.kw .then_) (toks (itemsQ t) ++ (toks (itemsIf r) ++ rest)) hc rfl
  obtain ⟨Ft, hT⟩ := climb_stop t iht true 1 x r' ht hs
  obtain ⟨Fr, hR⟩ := ihr rest hr
  refine ⟨Fc + Ft + Fr + 1, fun f hf => ?_⟩
  obtain ⟨k, rfl⟩ : ∃ k, f = k + 1 := ⟨f - 1, by omega⟩
  have e : toks (itemsIf (.elif_ cnd t r)) ++ rest =
      .kw .elif_ :: (toks (itemsQ cnd) ++ .kw .then_ :: (toks (itemsQ t) ++ (toks (itemsIf r) ++ rest))) := by
    simp [itemsIf]
  have hT' := hT k (by omega)
  rw [← hx] at hT'
  rw [e]
  exact pIfRest_elif k _ _ _ rest cnd t r (hC k (by omega)) hT' (hR k (by omega))

theorem pPrimary_if (f : Nat) (X Y Z ts : List Tok) (cnd t : Query) (r : IfRest)
    (h1 : pClimb f true 1 X = some (cnd, .kw .then_ :: Y)) (h2 : pClimb f true 1 Y = some (t, Z))
    (h3 : pIfRest f Z = some (r, ts)) :
    pPrimary (f + 1) (.kw .if_ :: X) = some (.if_ cnd t r, ts) := by
  rw [pPrimary]; simp [h1, h2, h3, expect]

theorem rt_if (cnd t : Query) (r : IfRest) (ihc : RTQ cnd) (iht : RTQ t) (ihr : RTIf r) : RTT (.if_ cnd t r) :=
  rtT_of_prim _ (fun rest hok _ => by
  simp only [okT, Bool.and_eq_true] at hok
  obtain ⟨⟨hc, ht⟩, hr⟩ := hok
  obtain ⟨x, r', hx, hs⟩ := ifRest_head r rest
  obtain ⟨Fc, hC⟩ := climb_stop cnd ihc true 1 (.kw .then_) (toks (itemsQ t) ++ (toks (itemsIf r) ++ rest)) hc rfl
  obtain ⟨Ft, hT⟩ := climb_stop t iht true 1 x r' ht hs
  obtain ⟨Fr, hR⟩ := ihr rest hr
  refine ⟨Fc + Ft + Fr + 1, fun g hg => ?_⟩
  obtain ⟨k, rfl⟩ : ∃ k, g = k + 1 := ⟨g - 1, by omega⟩
  have e : toks (itemsT (.if_ cnd t r)) ++ rest =
      .kw .if_ :: (toks (itemsQ cnd) ++ .kw .then_ :: (toks (itemsQ t) ++ (toks (itemsIf r) ++ rest))) := by
    simp [itemsT]
  have hT' := hT k (by omega)
  rw [← hx] at hT'
  rw [e]
  exact pPrimary_if k _ _ _ rest cnd t r (hC k (by omega)) hT' (hR k (by omega)))

/-! ### `reduce`, `foreach` -/

theorem pPrimary_reduce (f : Nat) (X Y Z W ts : List Tok) (s a u : Query) (p : Pattern)
    (h1 : pClimb f false 3 X = some (s, .kw .as_ :: Y)) (h2 : pPattern f Y = some (p, .ch 40 :: Z))
    (h3 : pClimb f true 1 Z = some (a, .ch 59 :: W)) (h4 : pClimb f true 1 W = some (u, .ch 41 :: ts)) :
    pPrimary (f + 1) (.kw .reduce_ :: X) = some (.reduce s p a u, ts) := by
  rw [pPrimary]; simp [h1, h2, h3, h4, expect]

theorem rt_reduce (s : Query) (p : Pattern) (a u : Query) (ihs : RTQ s) (ihp : RTP p) (iha : RTQ a) (ihu : RTQ u) :
    RTT (.reduce s p a u) := rtT_of_prim _ (fun rest hok _ => by
  simp only [okT, Bool.and_eq_true] at hok
  obtain ⟨⟨⟨hs, hp⟩, ha⟩, hu⟩ := hok
  obtain ⟨Fs, hS⟩ := climb_as s ihs
    (toks (itemsP p) ++ .ch 40 :: (toks (itemsQ a) ++ .ch 59 :: (toks (itemsQ u) ++ .ch 41 :: rest))) hs
  obtain ⟨Fp, hP⟩ := ihp (.ch 40 :: (toks (itemsQ a) ++ .ch 59 :: (toks (itemsQ u) ++ .ch 41 :: rest))) hp
  obtain ⟨Fa, hA⟩ := climb_stop a iha true 1 (.ch 59) (toks (itemsQ u) ++ .ch 41 :: rest) ha rfl
  obtain ⟨Fu, hU⟩ := climb_stop u ihu true 1 (.ch 41) rest hu rfl
  refine ⟨Fs + Fp + Fa + Fu + 1, fun g hg => ?_⟩
  obtain ⟨k, rfl⟩ : ∃ k, g = k + 1 := ⟨g - 1, by omega⟩
  have e : toks (itemsT (.reduce s p a u)) ++ rest = .kw .reduce_ :: (toks (itemsQ s) ++ .kw .as_ ::
      (toks (itemsP p) ++ .ch 40 :: (toks (itemsQ a) ++ .ch 59 :: (toks (itemsQ u) ++ .ch 41 :: rest)))) := by
    simp [itemsT]
  rw [e]
  exact pPrimary_reduce k _ _ _ _ rest s a u p (hS k (by omega)) (hP k (by omega)) (hA k (by omega)) (hU k (by omega)))

theorem pPrimary_foreach (f : Nat) (X Y Z W ts : List Tok) (s a u : Query) (p : Pattern)
    (h1 : pClimb f false 3 X = some (s, .kw .as_ :: Y)) (h2 : pPattern f Y = some (p, .ch 40 :: Z))
    (h3 : pClimb f true 1 Z = some (a, .ch 59 :: W)) (h4 : pClimb f true 1 W = some (u, .ch 41 :: ts)) :
    pPrimary (f + 1) (.kw .foreach_ :: X) = some (.foreach s p a u, ts) := by
  rw [pPrimary]; simp [h1, h2, h3, h4, expect]

theorem pPrimary_foreach3 (f : Nat) (X Y Z W V ts : List Tok) (s a u e : Query) (p : Pattern)
    (h1 : pClimb f false 3 X = some (s, .kw .as_ :: Y)) (h2 : pPattern f Y = some (p, .ch 40 :: Z))
    (h3 : pClimb f true 1 Z = some (a, .ch 59 :: W)) (h4 : pClimb f true 1 W = some (u, .ch 59 :: V))
    (h5 : pClimb f true 1 V = some (e, .ch 41 :: ts)) :
    pPrimary (f + 1) (.kw .foreach_ :: X) = some (.foreach3 s p a u e, ts) := by
  rw [pPrimary]; simp [h1, h2, h3, h4, h5, expect]

theorem rt_foreach (s : Query) (p : Pattern) (a u : Query) (ihs : RTQ s) (ihp : RTP p) (iha : RTQ a) (ihu : RTQ u) :
    RTT (.foreach s p a u) := rtT_of_prim _ (fun rest hok _ => by
  simp only [okT, Bool.and_eq_true] at hok
  obtain ⟨⟨⟨hs, hp⟩, ha⟩, hu⟩ := hok
  obtain ⟨Fs, hS⟩ := climb_as s ihs
    (toks (itemsP p) ++ .ch 40 :: (toks (itemsQ a) ++ .ch 59 :: (toks (itemsQ u) ++ .ch 41 :: rest))) hs
  obtain ⟨Fp, hP⟩ := ihp (.ch 40 :: (toks (itemsQ a) ++ .ch 59 :: (toks (itemsQ u) ++ .ch 41 :: rest))) hp
  obtain ⟨Fa, hA⟩ := climb_stop a iha true 1 (.ch 59) (toks (itemsQ u) ++ .ch 41 :: rest) ha rfl
  obtain ⟨Fu, hU⟩ := climb_stop u ihu true 1 (.ch 41) rest hu rfl
  refine ⟨Fs + Fp + Fa + Fu + 1, fun g hg => ?_⟩
  obtain ⟨k, rfl⟩ : ∃ k, g = k + 1 := ⟨g - 1, by omega⟩
  have e : toks (itemsT (.foreach s p a u)) ++ rest = .kw .foreach_ :: (toks (itemsQ s) ++ .kw .as_ ::
      (toks (itemsP p) ++ .ch 40 :: (toks (itemsQ a) ++ .ch 59 :: (toks (itemsQ u) ++ .ch 41 :: rest)))) := by
    simp [itemsT]
  rw [e]
  exact pPrimary_foreach k _ _ _ _ rest s a u p (hS k (by omega)) (hP k (by omega)) (hA k (by omega)) (hU k (by omega)))

theorem rt_foreach3 (s : Query) (p : Pattern) (a u x : Query) (ihs : RTQ s) (ihp : RTP p) (iha : RTQ a)
    (ihu : RTQ u) (ihx : RTQ x) : RTT (.foreach3 s p a u x) := rtT_of_prim _ (fun rest hok _ => by
  simp only [okT, Bool.and_eq_true] at hok
  obtain ⟨⟨⟨⟨hs, hp⟩, ha⟩, hu⟩, hx⟩ := hok
  obtain ⟨Fs, hS⟩ := climb_as s ihs
    (toks (itemsP p) ++ .ch 40 :: (toks (itemsQ a) ++ .ch 59 :: (toks (itemsQ u) ++ .ch 59 :: (toks (itemsQ x) ++ .ch 41 :: rest)))) hs
  obtain ⟨Fp, hP⟩ := ihp (.ch 40 :: (toks (itemsQ a) ++ .ch 59 :: (toks (itemsQ u) ++ .ch 59 :: (toks (itemsQ x) ++ .ch 41 :: rest)))) hp
  obtain ⟨Fa, hA⟩ := climb_stop a iha true 1 (.ch 59) (toks (itemsQ u) ++ .ch 59 :: (toks (itemsQ x) ++ .ch 41 :: rest)) ha rfl
  obtain ⟨Fu, hU⟩ := climb_stop u ihu true 1 (.ch 59) (toks (itemsQ x) ++ .ch 41 :: rest) hu rfl
  obtain ⟨Fx, hX⟩ := climb_stop x ihx true 1 (.ch 41) rest hx rfl
  refine ⟨Fs + Fp + Fa + Fu + Fx + 1, fun g hg => ?_⟩
  obtain ⟨k, rfl⟩ : ∃ k, g = k + 1 := ⟨g - 1, by omega⟩
  have e : toks (itemsT (.foreach3 s p a u x)) ++ rest = .kw .foreach_ :: (toks (itemsQ s) ++ .kw .as_ ::
      (toks (itemsP p) ++ .ch 40 :: (toks (itemsQ a) ++ .ch 59 :: (toks (itemsQ u) ++ .ch 59 ::
        (toks (itemsQ x) ++ .ch 41 :: rest))))) := by
    simp [itemsT]
  rw [e]
  exact pPrimary_foreach3 k _ _ _ _ _ rest s a u x p (hS k (by omega)) (hP k (by omega)) (hA k (by omega))
    (hU k (by omega)) (hX k (by omega)))

end Gojq.RefTerm

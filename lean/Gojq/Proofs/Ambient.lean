/-
  Helper lemmas for Props/C19VM.lean: lockstep of two world-derived runs of the interpreter model
  (Model/Ambient.lean).  Core Lean only.
    * `requestOf_native_key`  — the request of a turn carries the (name, argument count) key of the
                                instruction that makes it;
    * `stepW_world_irrelevant`, `loopW_…`, `nextW_…`, `runW_…` — two worlds that agree on the allowed
                                callbacks give equal turns / calls / runs of code that calls only those;
    * `callsOnly_sound`, `callsOnlyView_view` — the decidable scan, on code and on the dump syntax;
    * `exec_call_irrelevant`  — an instruction that makes no request does not look at the call answer.
-/
import Gojq.Model.Ambient
namespace Gojq.Ambient
open Gojq Gojq.VM

/-! ## the request of a turn -/

theorem popArgs_length : ∀ (n : Nat) (e e' : Env) (args : List V), popArgs n e = .ok args e' → args.length = n := by
  intro n
  induction n with
  | zero =>
    intro e e' args h
    simp only [popArgs, pure, M.pure] at h
    cases h; rfl
  | succ n ih =>
    intro e e' args h
    simp only [popArgs, bind, M.bind, pure, M.pure] at h
    split at h
    · rename_i a e1 _
      split at h
      · rename_i rest e2 h2
        cases h
        simp [ih _ _ _ h2]
      · cases h
      · cases h
    · cases h
    · cases h

theorem operands_length {argc : Int} {e : Env} {x : V} {args : List V} (h : operands argc e = some (x, args)) :
    0 ≤ argc ∧ args.length = argc.toNat := by
  unfold operands at h
  split at h
  · split at h
    · cases h
    · rename_i hr
      split at h
      · rename_i as e2 h2
        cases h
        exact ⟨by omega, popArgs_length _ _ _ _ h2⟩
      · cases h
  · cases h

theorem indexReq_native {isArray : Bool} {k : JV} {l : L} {e : Env} {nm : String} {x : V} {args : List V}
    (h : indexReq isArray k l e = some (.native nm x args)) : nm = "_index" ∧ args.length = 2 := by
  unfold indexReq at h
  split at h
  · cases h
  · split at h
    · split at h
      · cases h
      · cases h; exact ⟨rfl, rfl⟩
    · cases h

/-- the request of a turn carries the key of the instruction that makes it -/
theorem requestOf_native_key {ins : Instr} {nm0 : String} {l : L} {e : Env} {nm : String} {x : V} {args : List V}
    (h : requestOf ins nm0 l e = some (.native nm x args)) : callKey (ins, nm0) = some (nm, args.length) := by
  cases ins <;> simp only [requestOf] at h <;> try (cases h; done)
  case callNative kind argc =>
    split at h
    · cases h
    · split at h
      · rename_i x' args' hop
        cases h
        have := operands_length hop
        simp [callKey, this.1, this.2]
      · cases h
  case index k =>
    obtain ⟨h1, h2⟩ := indexReq_native h
    simp [callKey, h1, h2]
  case indexarray k =>
    obtain ⟨h1, h2⟩ := indexReq_native h
    simp [callKey, h1, h2]
  case iter =>
    split at h
    · cases h
    · split at h <;> cases h

/-! ## the decidable scan -/

theorem callsOnly_sound {allowed : String → Nat → Bool} {nc : NCode} (h : callsOnly allowed nc = true) :
    CallsOnly allowed nc := by
  intro pc p hp k hk
  unfold callsOnly at h
  rw [Array.all_eq_true] at h
  obtain ⟨hlt, hget⟩ := Array.getElem?_eq_some_iff.mp hp
  have := h pc hlt
  rw [hget, hk] at this
  exact this

theorem CallsOnly.mono {a b : String → Nat → Bool} {nc : NCode} (h : CallsOnly a nc)
    (hab : ∀ nm k, a nm k = true → b nm k = true) : CallsOnly b nc :=
  fun pc p hp k hk => hab _ _ (h pc p hp k hk)

theorem callKeyView_viewA (p : Instr × String) : callKeyView (viewA p) = callKey p := by
  obtain ⟨i, nm⟩ := p
  cases i <;> first | rfl | (simp [viewA, callKeyView, callKey]; done)

/-- the scan of the dump is the scan of the code -/
theorem callsOnlyView_view (allowed : String → Nat → Bool) (nc : NCode) :
    callsOnlyView allowed (nc.map viewA) = callsOnly allowed nc := by
  unfold callsOnlyView callsOnly
  rw [Array.all_map]
  congr 1
  funext p
  simp only [Function.comp, callKeyView_viewA]

/-! ## the classification of names -/

theorem handPure_none {nm : String} {k : Nat} (h : handPure nm (some k) = true) : handPure nm none = true := by
  unfold handPure at h ⊢
  rw [List.any_eq_true] at h ⊢
  obtain ⟨x, hx, hp⟩ := h
  refine ⟨x, hx, ?_⟩
  simp only [Bool.and_eq_true] at hp ⊢
  exact ⟨⟨hp.1.1, trivial⟩, hp.2⟩

/-- a pure (name, argument count) has a pure name -/
theorem isPure_namePure {nm : String} {k : Nat} (h : isPure nm k = true) : namePure nm = true := by
  unfold isPure at h
  unfold namePure
  rcases (Bool.or_eq_true _ _).mp h with h1 | h2
  · apply (Bool.or_eq_true _ _).mpr
    left
    cases hf : Generated.NativeTable.table.find? (·.name == nm) with
    | none => rw [hf] at h1; cases h1
    | some e =>
      rw [hf] at h1
      simp only [Bool.and_eq_true] at h1
      exact h1.1
  · exact (Bool.or_eq_true _ _).mpr (Or.inr (handPure_none h2))

/-- by construction: an entry of the table with a Go callee is pure or its name is ambient -/
theorem table_entry_classified (e : Generated.NativeTable.Entry) (he : e ∈ Generated.NativeTable.table)
    (hc : (e.callee == "") = false) : entryPure e = true ∨ e.name ∈ ambientNames := by
  by_cases hamb : ambientCallees.contains e.callee = true
  · right
    unfold ambientNames
    apply List.mem_append_left
    exact List.mem_map.mpr ⟨e, List.mem_filter.mpr ⟨he, hamb⟩, rfl⟩
  · left
    unfold entryPure
    rw [hc]
    simpa using hamb

/-! ## lockstep -/

variable {W H : Type}

/-- a request made by a turn of checked code is allowed -/
theorem turnRequest_allowed {allowed : String → Nat → Bool} {nc : NCode} (hB : CallsOnly allowed nc)
    {cancelled : Nat → Bool} {l : L} {s : St} {nm : String} {x : V} {args : List V}
    (h : turnRequest nc cancelled l s = some (.native nm x args)) : allowed nm args.length = true := by
  unfold turnRequest at h
  split at h
  · rename_i hc
    have hlt : l.pc.toNat < nc.size := by omega
    have hget : nc[l.pc.toNat]? = some (nc.getD l.pc.toNat (.bad, "")) := by
      simp [Array.getD, hlt]
    exact hB _ _ hget _ (requestOf_native_key h)
  · cases h

theorem answer_world_irrelevant {sem : Sem W H} {allowed : String → Nat → Bool} {w₁ w₂ : W}
    (hA : Agree sem allowed w₁ w₂) (pc : Nat) (hid : Hid H) (req : Option Req)
    (hreq : ∀ nm x args, req = some (.native nm x args) → allowed nm args.length = true) :
    answer sem w₁ pc hid req = answer sem w₂ pc hid req := by
  cases req with
  | none => rfl
  | some r =>
    cases r with
    | native nm x args => simp only [answer, hA pc nm x args hid.h (hreq nm x args rfl)]
    | next k => rfl

theorem recordAt_world_irrelevant {sem : Sem W H} {allowed : String → Nat → Bool} {w₁ w₂ : W} {nc : NCode}
    (hA : Agree sem allowed w₁ w₂) (hB : CallsOnly allowed nc) (cancelled : Nat → Bool) (l : L) (s : St) (hid : Hid H) :
    recordAt sem w₁ nc cancelled l s hid = recordAt sem w₂ nc cancelled l s hid := by
  unfold recordAt
  rw [answer_world_irrelevant hA _ _ _ (fun nm x args h => turnRequest_allowed hB h)]

theorem stepW_world_irrelevant {sem : Sem W H} {allowed : String → Nat → Bool} {w₁ w₂ : W} {nc : NCode}
    (hA : Agree sem allowed w₁ w₂) (hB : CallsOnly allowed nc) (cancelled : Nat → Bool) (l : L) (s : St) (hid : Hid H) :
    stepW sem w₁ nc cancelled l s hid = stepW sem w₂ nc cancelled l s hid := by
  unfold stepW
  rw [recordAt_world_irrelevant hA hB]

theorem loopW_world_irrelevant {sem : Sem W H} {allowed : String → Nat → Bool} {w₁ w₂ : W} {nc : NCode}
    (hA : Agree sem allowed w₁ w₂) (hB : CallsOnly allowed nc) (cancelled : Nat → Bool) :
    ∀ (fuel : Nat) (l : L) (s : St) (hid : Hid H),
      loopW sem w₁ nc cancelled fuel l s hid = loopW sem w₂ nc cancelled fuel l s hid := by
  intro fuel
  induction fuel with
  | zero =>
    intro l s hid
    unfold loopW
    rw [stepW_world_irrelevant hA hB]
  | succ n ih =>
    intro l s hid
    unfold loopW
    rw [stepW_world_irrelevant hA hB]
    split
    · rfl
    · exact ih _ _ _

theorem nextW_world_irrelevant {sem : Sem W H} {allowed : String → Nat → Bool} {w₁ w₂ : W} {nc : NCode}
    (hA : Agree sem allowed w₁ w₂) (hB : CallsOnly allowed nc) (cancelled : Nat → Bool) (fuel : Nat) (s : St)
    (hid : Hid H) : nextW sem w₁ nc cancelled fuel s hid = nextW sem w₂ nc cancelled fuel s hid :=
  loopW_world_irrelevant hA hB cancelled fuel _ s hid

theorem runW_world_irrelevant {sem : Sem W H} {allowed : String → Nat → Bool} {w₁ w₂ : W} {nc : NCode}
    (hA : Agree sem allowed w₁ w₂) (hB : CallsOnly allowed nc) (cancelled : Nat → Bool) (fuel : Nat) :
    ∀ (n : Nat) (s : St) (hid : Hid H),
      runW sem w₁ nc cancelled fuel n s hid = runW sem w₂ nc cancelled fuel n s hid := by
  intro n
  induction n with
  | zero => intro s hid; rfl
  | succ n ih =>
    intro s hid
    simp only [runW]
    rw [nextW_world_irrelevant hA hB, ih]

/-! ## an instruction that makes no request does not look at the call answer -/

theorem objectLoop_call (x : ExtRec) (c : Option CallRes) : ∀ (n : Nat) (m : List (Bytes × JV)),
    objectLoop { x with call := c } n m = objectLoop x n m := by
  intro n
  induction n with
  | zero => intro m; rfl
  | succ n ih =>
    intro m
    simp only [objectLoop, ih]
    rfl

theorem execIndex_call_irrelevant (isArray : Bool) (k : JV) (x : ExtRec) (c : Option CallRes) (l : L) (e : Env)
    (h : indexReq isArray k l e = none) :
    exec.execIndex { x with call := c } l isArray k e = exec.execIndex x l isArray k e := by
  unfold indexReq at h
  unfold exec.execIndex
  split
  · rfl
  · rename_i hb
    rw [if_neg hb] at h
    simp only [bind, M.bind]
    split
    · rename_i v e1 hp
      rw [hp] at h
      simp only at h
      cases isArray
      · simp at h
      · cases v <;> first | rfl | (simp [notArray] at h; done) | skip
        rename_i j
        cases j <;> first | rfl | (simp [notArray] at h; done)
    · rfl
    · rfl

/-- `requestOf` covers every place where `VM.exec` consumes a call answer: when it says "no
    request", the result of the instruction does not depend on the `call` field of the record -/
theorem exec_call_irrelevant (ins : Instr) (nm : String) (x : ExtRec) (c : Option CallRes) (l : L) (e : Env)
    (h : requestOf ins nm l e = none) : exec ins { x with call := c } l e = exec ins x l e := by
  cases ins <;> try rfl
  case object n =>
    simp only [exec, objectLoop_call]
  case callNative kind argc =>
    simp only [requestOf] at h
    simp only [exec]
    split
    · rfl
    · rename_i hb
      rw [if_neg hb] at h
      simp only [bind, M.bind]
      unfold operands at h
      split
      · rename_i a e1 hp
        rw [hp] at h
        simp only at h
        split
        · rfl
        · rename_i hr
          rw [if_neg hr] at h
          simp only [M.bind]
          split
          · rename_i as e2 hpa
            rw [hpa] at h
            simp at h
          · rfl
          · rfl
      · rfl
      · rfl
  case index k =>
    simp only [requestOf] at h
    simp only [exec]
    exact execIndex_call_irrelevant false k x c l e h
  case indexarray k =>
    simp only [requestOf] at h
    simp only [exec]
    exact execIndex_call_irrelevant true k x c l e h
  case iter =>
    simp only [requestOf] at h
    simp only [exec]
    split
    · rfl
    · rename_i hb
      rw [if_neg hb] at h
      simp only [bind, M.bind]
      split
      · rename_i v e1 hp
        rw [hp] at h
        cases v <;> first | rfl | (simp at h; done) | skip
        rename_i j; cases j <;> rfl
      · rfl
      · rfl

end Gojq.Ambient

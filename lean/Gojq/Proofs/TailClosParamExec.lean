/-
  C04, groundwork (see Proofs/TailClosParam.lean): every opcode other than `callpc` respects `PRel`
  — the frame index inside closure values is opaque to it.
-/
import Gojq.Proofs.TailClosParam
set_option linter.unusedSimpArgs false
set_option linter.unusedVariables false
namespace Gojq.CloParam
open Gojq Gojq.VM

/-! ## locals -/

theorem LR.elim {l l' : L} (h : LR l l') : ∃ pc cp ix bt er er',
    l = ⟨pc, cp, ix, bt, er⟩ ∧ l' = ⟨pc, cp, ix, bt, er'⟩ ∧ OR ER er er' := by
  obtain ⟨pc, cp, ix, bt, er⟩ := l
  obtain ⟨pc', cp', ix', bt', er'⟩ := l'
  obtain ⟨herr, hrest⟩ := h
  simp only [L.mk.injEq] at hrest
  obtain ⟨rfl, rfl, rfl, rfl, _⟩ := hrest
  exact ⟨_, _, _, _, _, _, rfl, rfl, herr⟩

theorem LR.mk' {pc cp ix : Int} {bt : Bool} {er er' : Option Err} (h : OR ER er er') :
    LR ⟨pc, cp, ix, bt, er⟩ ⟨pc, cp, ix, bt, er'⟩ := ⟨h, rfl⟩

theorem OR.some_refl (e : Err) : OR ER (some e) (some e) := ER.refl e
theorem OR.none' : OR ER none none := trivial

theorem clr {c : Ctl} {l l' : L} (hc : CR c c) (h : LR l l') : CLR (c, l) (c, l') := ⟨hc, h⟩

theorem ER.message {e e' : Err} (h : ER e e') : e.message = e'.message := by
  induction h with
  | refl e => rfl
  | value _ => rfl
  | halt _ => rfl
  | brk n _ => rfl
  | tryEnd _ ih => simp only [Err.message]; exact ih

theorem clr_fall {l l' : L} (h : LR l l') : CLR (.fall, l) (.fall, l') := ⟨trivial, h⟩
theorem clr_jump {l l' : L} (h : LR l l') : CLR (.jump, l) (.jump, l') := ⟨trivial, h⟩
theorem clr_brk {l l' : L} (h : LR l l') : CLR (.brk, l) (.brk, l') := ⟨trivial, h⟩

/-- lists related element by element -/
inductive LVR : List V → List V → Prop
  | nil : LVR [] []
  | cons {a a' : V} {as as' : List V} : VR a a' → LVR as as' → LVR (a :: as) (a' :: as')

/-- one step of a proof that a computation respects the relation: a primitive applied to related
    (or identical) arguments, or a case split on a condition / value that is the same on both sides -/
macro "pc_step" : tactic => `(tactic| first
  | exact PC.panic _ | exact PC.stuck _
  | exact PC.pure (clr_fall (by assumption)) | exact PC.pure (clr_jump (by assumption))
  | exact PC.pure (clr_brk (by assumption))
  | exact PC.pure (clr_fall (LR.mk' (by first | assumption | exact OR.some_refl _ | exact OR.none' | (show ER _ _; assumption))))
  | exact PC.pure (clr_jump (LR.mk' (by first | assumption | exact OR.some_refl _ | exact OR.none' | (show ER _ _; assumption))))
  | exact PC.pure (clr_brk (LR.mk' (by first | assumption | exact OR.some_refl _ | exact OR.none' | (show ER _ _; assumption))))
  | exact PC.pure rfl | exact PC.pure trivial
  | refine PC.bind (PC.push (by first | assumption | exact VR.refl _)) (fun _ _ _ => ?_)
  | refine PC.bind (PC.pathsPush (by first | assumption | exact VR.refl _)) (fun _ _ _ => ?_)
  | refine PC.bind (PC.pushforkOver (by first | assumption | exact VR.refl _) _) (fun _ _ _ => ?_)
  | refine PC.bind (PC.pushfork _) (fun _ _ _ => ?_)
  | (refine PC.bind PC.tracking (fun b b' hb => ?_); subst hb)
  | (refine PC.bind (PC.pathIntact _) (fun b b' hb => ?_); subst hb)
  | (refine PC.bind (PC.envIndex _ _) (fun k k' hk => ?_); subst hk)
  | (refine PC.bind (PC.extCall _) (fun r r' hr => ?_); subst hr)
  | (refine PC.bind PC.popscope (fun r r' hr => ?_); subst hr)
  | (refine PC.bind (PC.asJV (by first | assumption | exact VR.refl _)) (fun j j' hj => ?_); subst hj)
  | refine PC.bind (PC.setValue _ (by first | assumption | exact VR.refl _)) (fun _ _ _ => ?_)
  | refine PC.bind PC.pop (fun v v' hv => ?_)
  | refine PC.bind PC.pathsPop (fun v v' hv => ?_)
  | refine PC.bind PC.stackTop (fun v v' hv => ?_)
  | refine PC.bind (PC.getValue _) (fun v v' hv => ?_)
  | split)

/-! ## the helper loops -/

theorem PC.popArgs : ∀ (n : Nat), PC LVR (popArgs n) (popArgs n) := by
  intro n
  induction n with
  | zero => unfold VM.popArgs; exact PC.pure .nil
  | succ n ih =>
    unfold VM.popArgs
    exact PC.bind PC.pop (fun a a' ha => PC.bind ih (fun r r' hr => PC.pure (.cons ha hr)))

theorem PC.objectLoop (x : ExtRec) : ∀ (n : Nat) (m : List (Bytes × JV)), PC Eq (objectLoop x n m) (objectLoop x n m) := by
  intro n
  induction n with
  | zero => intro m; unfold VM.objectLoop; exact PC.pure rfl
  | succ n ih =>
    intro m
    unfold VM.objectLoop
    refine PC.bind PC.pop (fun v v' hv => ?_)
    refine PC.bind PC.pop (fun k k' hk => ?_)
    cases hk with
    | refl k =>
      split
      · exact PC.bind (PC.asJV hv) (fun j j' hj => by subst hj; exact ih _)
      · exact PC.pure rfl
    | clo pc i j => exact PC.pure rfl
    | pv _ _ => exact PC.pure rfl

theorem PC.poppathsLoop : ∀ (fuel : Nat) (acc : List JV), PC Eq (poppathsLoop fuel acc) (poppathsLoop fuel acc) := by
  intro fuel
  induction fuel with
  | zero => intro acc; unfold VM.poppathsLoop; exact PC.stuck _
  | succ n ih =>
    intro acc
    unfold VM.poppathsLoop
    refine PC.bind PC.pathsPop (fun p p' hp => ?_)
    cases hp with
    | refl p =>
      split
      · exact PC.pure rfl
      · exact PC.bind (PC.asJV (.refl _)) (fun j j' hj => by subst hj; exact ih _)
      · exact PC.panic _
    | clo pc i j => exact PC.panic _
    | @pv a a' b b' hp1 hp2 =>
      cases hp1 with
      | refl _ =>
        cases a with
        | jv j =>
          cases j <;> first
            | exact PC.pure rfl
            | exact PC.bind (PC.asJV (.refl _)) (fun j j' hj => by subst hj; exact ih _)
        | _ => exact PC.bind (PC.asJV (.refl _)) (fun j j' hj => by subst hj; exact ih _)
      | clo pc i j => exact PC.bind (PC.asJV (.clo pc i j)) (fun j j' hj => by subst hj; exact ih _)
      | pv h1 h2 => exact PC.bind (PC.asJV (.pv h1 h2)) (fun j j' hj => by subst hj; exact ih _)

theorem PC.poppaths : PC Eq poppaths poppaths := by
  intro e e' he
  unfold VM.poppaths
  rw [← he.paths.2.2.1]
  exact PC.poppathsLoop _ _ e e' he

theorem PC.pushPaths {w w' : V} (hw : VR w w') : ∀ (ps : List JV), PC TT (pushPaths w ps) (pushPaths w' ps) := by
  intro ps
  induction ps with
  | nil => unfold VM.pushPaths; exact PC.pure trivial
  | cons p ps ih =>
    unfold VM.pushPaths
    exact PC.bind (PC.pathsPush (.pv (.refl _) hw)) (fun _ _ _ => ih)

theorem PC.pathBroken (x : ExtRec) : PC Eq (pathBroken x) (pathBroken x) := by
  unfold VM.pathBroken
  refine PC.bind PC.tracking (fun b b' hb => ?_)
  subst hb
  split
  · exact PC.bind (PC.pathIntact x) (fun o o' ho => by subst ho; exact PC.pure rfl)
  · exact PC.pure rfl

theorem PC.iterInvalid (x : ExtRec) {l l' : L} (hl : LR l l') : PC CLR (iterInvalid x l) (iterInvalid x l') := by
  obtain ⟨pc, cp, ix, bt, er, er', rfl, rfl, he⟩ := hl.elim
  unfold VM.iterInvalid
  exact PC.bind (PC.push (.refl _)) (fun _ _ _ => PC.pure ⟨trivial, LR.mk' (OR.some_refl _)⟩)

theorem PC.iterEmit (pc : Int) {l l' : L} (hl : LR l l') (xs : List (V × V)) :
    PC CLR (iterEmit pc l xs) (iterEmit pc l' xs) := by
  unfold VM.iterEmit
  cases xs with
  | nil => exact PC.panic _
  | cons pv rest =>
    obtain ⟨p, v⟩ := pv
    simp only
    repeat pc_step

/-- `pc_step`, or one of the helper loops -/
macro "pc_go" : tactic => `(tactic| first
  | pc_step
  | (refine PC.bind (PC.objectLoop _ _ _) (fun r r' hr => ?_); subst hr)
  | (refine PC.bind PC.poppaths (fun r r' hr => ?_); subst hr)
  | (refine PC.bind (PC.pathBroken _) (fun b b' hb => ?_); subst hb)
  | refine PC.bind (PC.pushPaths (by first | assumption | exact VR.refl _) _) (fun _ _ _ => ?_)
  | exact PC.iterEmit _ (by first | assumption | exact LR.mk' (by first | assumption | exact OR.none')) _
  | exact PC.iterInvalid _ (by first | assumption | exact LR.mk' (by first | assumption | exact OR.none')))

end Gojq.CloParam

/-
  Helper lemmas for C14 (Props/C14Frac.lean): the bounds of `.[a:b]` when `a`, `b` are arbitrary
  JSON numbers.  func.go: `slice` / `sliceString` convert the start with `toInt` and the end with
  `toIntCeil` (both through `floatToInt`: `int(x)` when `MinInt ≤ x < MaxInt`, else saturation; NaN ↦
  MinInt), then `clampIndex`.  The conversions are the shared model `Gojq.toInt?` / `Gojq.toIntCeil?`
  (Model/Native/Base.lean, Model/Arith.lean); here they are characterised in closed form:

      startBound n = satInt (truncation of n toward zero)        endBound n = satInt ⌈n⌉

  (`satInt` = saturation to the 64-bit `int` range, Model/Regex.lean.)
-/
import Gojq.Proofs.Regex
import Gojq.Model.Native.Base
namespace Gojq.Regex
open Gojq

/-- the `int` `toInt(s)` yields for a number `s` (start bound of a slice, index of `.[i]`) -/
def startBound (n : Num) : Int := (toInt? (.num n)).getD 0

/-- the `int` `toIntCeil(e)` yields for a number `e` (end bound of a slice) -/
def endBound (n : Num) : Int := (toIntCeil? (.num n)).getD 0

theorem toInt_num (n : Num) : toInt? (.num n) = some (startBound n) := by
  cases n <;> rfl

theorem toIntCeil_num (n : Num) : toIntCeil? (.num n) = some (endBound n) := by
  cases n <;> rfl

theorem rat_lt_of_lt_of_le {a b c : Rat} (h1 : a < b) (h2 : b ≤ c) : a < c := by
  apply Rat.not_le.mp; intro h; exact absurd h1 (Rat.not_lt.mpr (Rat.le_trans h2 h))

theorem rat_lt_of_le_of_lt {a b c : Rat} (h1 : a ≤ b) (h2 : b < c) : a < c := by
  apply Rat.not_le.mp; intro h; exact absurd h2 (Rat.not_lt.mpr (Rat.le_trans h h1))

theorem rat_lt_trans {a b c : Rat} (h1 : a < b) (h2 : b < c) : a < c :=
  rat_lt_of_lt_of_le h1 (Rat.le_of_lt h2)

/-- rounding toward zero: `int(x)` of Go on a float in range -/
def truncRat (q : Rat) : Int := if q < 0 then q.ceil else q.floor

theorem satInt_id (z : Int) (h1 : minInt ≤ z) (h2 : z ≤ maxInt) : satInt z = z := by
  unfold satInt; simp only [minInt, maxInt] at h1 h2
  split
  · omega
  · split <;> omega

theorem satInt_hi (z : Int) (h : maxInt ≤ z) : satInt z = maxInt := by
  unfold satInt; simp only [maxInt] at h ⊢
  split
  · omega
  · split <;> omega

theorem satInt_lo (z : Int) (h : z ≤ minInt) : satInt z = minInt := by
  unfold satInt; simp only [minInt] at h ⊢
  split
  · rfl
  · split <;> omega

theorem startBound_int (z : Int) : startBound (.int z) = satInt z := by
  rfl

theorem endBound_int (z : Int) : endBound (.int z) = satInt z := by
  rfl

theorem floatToInt_flt (q : Rat) : floatToInt (.flt q) = satInt (truncRat q) := by
  have hmin : (minInt : Rat) = ((minInt : Int) : Rat) := rfl
  have hmax : (9223372036854775808 : Rat) = ((9223372036854775808 : Int) : Rat) := by simp
  simp only [floatToInt]
  split
  · rename_i hr
    obtain ⟨hlo, hhi⟩ := hr
    by_cases hneg : q < 0
    · have hc : truncRat q = q.ceil := by simp [truncRat, hneg]
      rw [if_pos hneg, hc, ← Rat.ceil_eq_neg_floor_neg]
      symm; apply satInt_id
      · have : ((minInt : Int) : Rat) ≤ ((q.ceil : Int) : Rat) := Rat.le_trans (hmin ▸ hlo) Rat.le_ceil
        exact Rat.intCast_le_intCast.mp this
      · have : q.ceil ≤ 0 := Rat.ceil_le_iff.mpr (by simpa using Rat.le_of_lt hneg)
        simp only [maxInt]; omega
    · have hc : truncRat q = q.floor := by simp [truncRat, hneg]
      rw [if_neg hneg, hc]
      symm; apply satInt_id
      · have : (0 : Int) ≤ q.floor := Rat.le_floor_iff.mpr (by simpa using Rat.not_lt.mp hneg)
        simp only [minInt]; omega
      · have : q.floor < (9223372036854775808 : Int) := Rat.floor_lt_iff.mpr (hmax ▸ hhi)
        simp only [maxInt]; omega
  · rename_i hr
    split
    · rename_i hpos
      have hneg : ¬ q < 0 := fun h => absurd (rat_lt_trans h hpos) (Rat.lt_irrefl)
      have hc : truncRat q = q.floor := by simp [truncRat, hneg]
      have hbig : (9223372036854775808 : Rat) ≤ q := by
        apply Rat.not_lt.mp
        intro hlt
        apply hr
        refine ⟨?_, hlt⟩
        apply Rat.le_of_lt
        exact rat_lt_trans (by decide : (minInt : Rat) < 0) hpos
      rw [hc]
      symm; apply satInt_hi
      have : (9223372036854775808 : Int) ≤ q.floor := Rat.le_floor_iff.mpr (hmax ▸ hbig)
      simp only [maxInt]; omega
    · rename_i hnpos
      have hle0 : q ≤ 0 := Rat.not_lt.mp hnpos
      have hsmall : q < (minInt : Rat) := by
        apply Rat.not_le.mp
        intro hge
        apply hr
        refine ⟨hge, ?_⟩
        exact rat_lt_of_le_of_lt hle0 (by decide)
      have hneg : q < 0 := rat_lt_trans hsmall (by decide)
      have hc : truncRat q = q.ceil := by simp [truncRat, hneg]
      rw [hc]
      symm; apply satInt_lo
      exact Rat.ceil_le_iff.mpr (Rat.le_of_lt (hmin ▸ hsmall))

/-- **start bound of a finite float: truncation toward zero, saturated** -/
theorem startBound_flt (q : Rat) : startBound (.flt q) = satInt (truncRat q) := by
  show floatToInt (.flt q) = _
  exact floatToInt_flt q

/-- **end bound of a finite float: ceiling, saturated** -/
theorem endBound_flt (q : Rat) : endBound (.flt q) = satInt q.ceil := by
  show floatToInt (fceil (.flt q)) = _
  simp only [fceil]
  split
  · rename_i h
    have hc : q.ceil = 0 := by
      have := h; simp only [Bool.and_eq_true, beq_iff_eq, decide_eq_true_eq] at this; exact this.1
    rw [hc]; rfl
  · rw [floatToInt_flt]
    have : truncRat ((q.ceil : Int) : Rat) = q.ceil := by
      unfold truncRat; split
      · exact Rat.ceil_intCast _
      · exact Rat.floor_intCast _
    rw [this]

theorem startBound_special :
    startBound .nan = minInt ∧ startBound (.inf false) = maxInt ∧ startBound (.inf true) = minInt ∧
    startBound .nzero = 0 := ⟨rfl, rfl, rfl, rfl⟩

theorem endBound_special :
    endBound .nan = minInt ∧ endBound (.inf false) = maxInt ∧ endBound (.inf true) = minInt ∧
    endBound .nzero = 0 := ⟨rfl, rfl, rfl, rfl⟩

theorem startBound_range (n : Num) : minInt ≤ startBound n ∧ startBound n ≤ maxInt := by
  have hs : ∀ z, minInt ≤ satInt z ∧ satInt z ≤ maxInt := by
    intro z; unfold satInt; simp only [minInt, maxInt]
    split
    · omega
    · split <;> omega
  cases n with
  | int z => rw [startBound_int]; exact hs z
  | flt q => rw [startBound_flt]; exact hs _
  | nzero => exact ⟨by decide, by decide⟩
  | nan => exact ⟨by decide, by decide⟩
  | inf neg => cases neg <;> exact ⟨by decide, by decide⟩

theorem endBound_range (n : Num) : minInt ≤ endBound n ∧ endBound n ≤ maxInt := by
  have hs : ∀ z, minInt ≤ satInt z ∧ satInt z ≤ maxInt := by
    intro z; unfold satInt; simp only [minInt, maxInt]
    split
    · omega
    · split <;> omega
  cases n with
  | int z => rw [endBound_int]; exact hs z
  | flt q => rw [endBound_flt]; exact hs _
  | nzero => exact ⟨by decide, by decide⟩
  | nan => exact ⟨by decide, by decide⟩
  | inf neg => cases neg <;> exact ⟨by decide, by decide⟩

end Gojq.Regex

namespace Gojq.Regex
open Gojq

/-- `sliceString(v, e, s)` for number (or null = `none`) bounds: the conversions, then the integer model -/
def sliceStrNum (v : Bytes) (e st : Option Num) : Bytes := sliceStr v (e.map endBound) (st.map startBound)

/-- `slice(vs, e, s)` for number (or null) bounds -/
def sliceListNum {α : Type} (vs : List α) (e st : Option Num) : List α := sliceList vs (e.map endBound) (st.map startBound)

theorem floor_le_ceil_of_le {a b : Rat} (h : a ≤ b) : a.floor ≤ b.ceil :=
  Rat.intCast_le_intCast.mp (Rat.le_trans (Rat.le_trans (Rat.floor_le a) h) Rat.le_ceil)

/-- in range, the slice with float bounds `qa ≤ qb` selects elements `⌊qa⌋ … ⌈qb⌉-1` -/
theorem sliceListNum_in_range {α : Type} (cs : List α) (qa qb : Rat) (h0 : 0 ≤ qa) (hab : qa ≤ qb)
    (hb : qb ≤ ((cs.length : Int) : Rat)) (hl : (cs.length : Int) ≤ maxInt) :
    sliceListNum cs (some (.flt qb)) (some (.flt qa)) = (cs.drop qa.floor.toNat).take (qb.ceil.toNat - qa.floor.toNat) := by
  have hf0 : (0 : Int) ≤ qa.floor := Rat.le_floor_iff.mpr (by simpa using h0)
  have hfc : qa.floor ≤ qb.ceil := floor_le_ceil_of_le hab
  have hcl : qb.ceil ≤ (cs.length : Int) := Rat.ceil_le_iff.mpr hb
  have hneg : ¬ qa < 0 := Rat.not_lt.mpr h0
  have hmin : minInt ≤ 0 := by decide
  simp only [sliceListNum, Option.map_some, startBound_flt, endBound_flt, truncRat, if_neg hneg]
  rw [satInt_id _ (by omega) (by omega), satInt_id _ (by omega) (by omega)]
  generalize qa.floor = f at *
  generalize qb.ceil = c at *
  obtain ⟨k0, rfl⟩ : ∃ k0 : Nat, f = (k0 : Int) := ⟨f.toNat, by omega⟩
  obtain ⟨k1, rfl⟩ : ∃ k1 : Nat, c = (k1 : Int) := ⟨c.toNat, by omega⟩
  rw [sliceList_nat cs _ _ (by omega) (by omega)]
  simp

/-- a negative start `-len ≤ q ≤ -1` counts from the end and is rounded TOWARD the end:
    elements `len + ⌈q⌉ …` -/
theorem sliceListNum_neg_start {α : Type} (cs : List α) (q : Rat) (h1 : q ≤ -1)
    (h2 : ((-(cs.length : Int) : Int) : Rat) ≤ q) (hl : (cs.length : Int) ≤ maxInt) :
    sliceListNum cs none (some (.flt q)) = cs.drop ((cs.length : Int) + q.ceil).toNat := by
  have hc1 : q.ceil ≤ -1 := Rat.ceil_le_iff.mpr (by simpa using h1)
  have hc2 : -(cs.length : Int) ≤ q.ceil :=
    Rat.intCast_le_intCast.mp (Rat.le_trans h2 Rat.le_ceil)
  have hneg : q < 0 := rat_lt_of_le_of_lt h1 (by decide)
  have hmin : minInt ≤ -(cs.length : Int) := by simp only [minInt, maxInt] at hl ⊢; omega
  simp only [sliceListNum, Option.map_some, Option.map_none, startBound_flt, truncRat, if_pos hneg]
  rw [satInt_id _ (by omega) (by simp only [maxInt]; omega)]
  have hs : clampIndex q.ceil 0 (cs.length : Int) = (cs.length : Int) + q.ceil := by
    unfold clampIndex
    have hk : (if q.ceil < 0 then q.ceil + (cs.length : Int) else q.ceil) = q.ceil + (cs.length : Int) := if_pos (by omega)
    simp only [hk]
    rw [if_neg (by omega), if_pos (by omega)]; omega
  simp only [sliceList, hs]
  apply List.take_of_length_le
  rw [List.length_drop]; omega

/-- a start in `(-1, 0)` is truncated to 0: the WHOLE list (jq 1.7 rounds it to the last element) -/
theorem sliceListNum_small_neg_start {α : Type} (cs : List α) (q : Rat) (h1 : -1 < q) (h2 : q < 0) :
    sliceListNum cs none (some (.flt q)) = cs := by
  have hc0 : q.ceil ≤ 0 := Rat.ceil_le_iff.mpr (by simpa using Rat.le_of_lt h2)
  have hc1 : -1 < q.ceil := Rat.lt_ceil_iff.mpr (by simpa using h1)
  have hc : q.ceil = 0 := by omega
  simp only [sliceListNum, Option.map_some, Option.map_none, startBound_flt, truncRat, if_pos h2, hc]
  cases cs with
  | nil => rfl
  | cons x xs =>
    unfold sliceList clampIndex satInt
    simp

/-- an end in `(-1, 0)` is rounded up to -0 = 0, which is NOT negative: the EMPTY list
    (jq 1.7 counts it from the end and rounds up: the whole list) -/
theorem sliceListNum_small_neg_end {α : Type} (cs : List α) (q : Rat) (h1 : -1 < q) (h2 : q < 0) :
    sliceListNum cs (some (.flt q)) none = [] := by
  have hc0 : q.ceil ≤ 0 := Rat.ceil_le_iff.mpr (by simpa using Rat.le_of_lt h2)
  have hc1 : -1 < q.ceil := Rat.lt_ceil_iff.mpr (by simpa using h1)
  have hc : q.ceil = 0 := by omega
  simp only [sliceListNum, Option.map_some, Option.map_none, endBound_flt, hc]
  cases cs with
  | nil => rfl
  | cons x xs =>
    unfold sliceList clampIndex satInt
    simp

end Gojq.Regex

namespace Gojq.Regex
open Gojq

theorem clampIndex_low (i mn mx : Int) (h : i + mx ≤ mn) (hi : i ≤ mn) (hm : mn ≤ mx) : clampIndex i mn mx = mn := by
  unfold clampIndex
  simp only
  split <;> split <;> (try split) <;> omega

theorem clampIndex_high (i mn mx : Int) (h : mx ≤ i) (hm : mn ≤ mx) (h0 : 0 ≤ mx) : clampIndex i mn mx = mx := by
  unfold clampIndex
  simp only
  split <;> split <;> (try split) <;> omega

/-- a start at or below `-len` (after conversion: NaN, -∞, ≤ -len) selects everything -/
theorem sliceList_start_low {α : Type} (cs : List α) (i : Int) (h : i ≤ -(cs.length : Int)) :
    sliceList cs none (some i) = cs := by
  simp only [sliceList, clampIndex_low i 0 cs.length (by omega) (by omega) (by omega)]
  simp

/-- a start at or beyond `len` (+∞, huge) selects nothing -/
theorem sliceList_start_high {α : Type} (cs : List α) (i : Int) (h : (cs.length : Int) ≤ i) :
    sliceList cs none (some i) = [] := by
  simp only [sliceList, clampIndex_high i 0 cs.length h (by omega) (by omega)]
  simp

/-- an end at or below `-len` (NaN, -∞) selects nothing -/
theorem sliceList_end_low {α : Type} (cs : List α) (i : Int) (h : i ≤ -(cs.length : Int)) :
    sliceList cs (some i) none = [] := by
  simp only [sliceList, clampIndex_low i 0 cs.length (by omega) (by omega) (by omega)]
  simp

/-- an end at or beyond `len` (+∞, huge) selects everything -/
theorem sliceList_end_high {α : Type} (cs : List α) (i : Int) (h : (cs.length : Int) ≤ i) :
    sliceList cs (some i) none = cs := by
  simp only [sliceList, clampIndex_high i 0 cs.length h (by omega) (by omega)]
  simp

/-- non-finite bounds on a list of Go-representable length -/
theorem sliceListNum_nonfinite {α : Type} (cs : List α) (hl : (cs.length : Int) ≤ maxInt) :
    sliceListNum cs none (some .nan) = cs ∧ sliceListNum cs none (some (.inf true)) = cs ∧
    sliceListNum cs none (some (.inf false)) = [] ∧
    sliceListNum cs (some .nan) none = [] ∧ sliceListNum cs (some (.inf true)) none = [] ∧
    sliceListNum cs (some (.inf false)) none = cs := by
  have h1 : minInt ≤ -(cs.length : Int) := by simp only [minInt, maxInt] at hl ⊢; omega
  refine ⟨sliceList_start_low cs minInt h1, sliceList_start_low cs minInt h1, sliceList_start_high cs maxInt hl,
    sliceList_end_low cs minInt h1, sliceList_end_low cs minInt h1, sliceList_end_high cs maxInt hl⟩

end Gojq.Regex

/-
  Helper lemmas for the slice extension of the heap model, part 5: `delpaths` through slice paths.
  The allocator-based marking pass `markS` (in place or into copies, through views) followed by
  `deleteEmpty` denotes the allocator-free mark-then-sweep on plain values with holes
  (`markHS`, `sweepV` of Proofs/HeapDel.lean):
      eraseH (markS p t) = markHS p (eraseH t)                       (`markS_eraseH`)
      holes lie below owned cells with owned ancestors only          (`markS_ho`)
      abs (delpathsST A f ps v) = sweepV (markAllHS ps (eraseH v))   (`delpathsST_abs`)
  Core Lean only.
-/
import Gojq.Proofs.HeapFull
import Gojq.Proofs.HeapSliceChain
namespace Gojq.Heap
open Gojq

/-- the marking pass with slices on values with holes, without labels and allocator
    (func.go `update(v, path, struct{}{}, a)` for what it returns) -/
def markHS : PathS → HV → Option HV
  | [], _ => some .hole
  | e :: p, v =>
    match e, v with
    | _, .hole => some .hole
    | .key _, .leaf .null => some (.leaf .null)
    | .key k, .obj kvs =>
      match splitKeyH k kvs with
      | (pre, some x, post) => (markHS p x).map fun u => .obj (pre ++ (k, u) :: post)
      | _ => some (.obj kvs)
    | .idx _, .leaf .null => some (.leaf .null)
    | .idx i, .arr xs =>
      match resolve i xs.length with
      | .inr j => match xs[j]? with
        | some x => (markHS p x).map fun u => .arr (xs.set j u)
        | none => some (.arr xs)
      | _ => some (.arr xs)
    | .slice _ _, .leaf .null => some (.leaf .null)
    | .slice s e, .arr xs =>
      let b := sliceBounds s e xs.length
      let mid := (xs.drop b.1).take (b.2 - b.1)
      if mid.isEmpty then some (.arr xs)
      else match markHS p (.arr mid) with
        | some (.arr us) => some (.arr (xs.take b.1 ++ us ++ xs.drop b.2))
        | some .hole => some (.arr (xs.take b.1 ++ mid.map (fun _ => HV.hole) ++ xs.drop b.2))
        | _ => none
    | _, _ => none

/-- the marking loop -/
def markAllHS : List PathS → HV → Option HV
  | [], v => some v
  | p :: ps, v =>
    match markHS p v with
    | none => none
    | some v' => markAllHS ps v'

theorem eraseHA_take : ∀ (ks : Kids) (n : Nat), eraseHA (ks.take n) = (eraseHA ks).take n
  | [], n => by simp [eraseHA]
  | (_, t) :: ks, 0 => by simp [eraseHA]
  | (_, t) :: ks, n + 1 => by simp [eraseHA, eraseHA_take ks n]

theorem eraseHA_drop : ∀ (ks : Kids) (n : Nat), eraseHA (ks.drop n) = (eraseHA ks).drop n
  | [], n => by simp [eraseHA]
  | (_, t) :: ks, 0 => by simp [eraseHA]
  | (_, t) :: ks, n + 1 => by simp [eraseHA, eraseHA_drop ks n]

theorem eraseHA_holes (ks : Kids) : eraseHA (ks.map fun x => (x.1, T.hole)) = (eraseHA ks).map fun _ => HV.hole := by
  induction ks with
  | nil => simp [eraseHA]
  | cons y ys ih => obtain ⟨k, t⟩ := y; simp [eraseHA, eraseH, ih]

theorem plugDel_eraseH (id : Nat) (o : Bool) (c cCopy : Nat) (pre : Kids) (key : Bytes) (post : Kids)
    (r : T × List Nat × Nat × Log) :
    eraseH (plugDel id o c cCopy pre key post r).1 =
      if o then .obj (eraseHO pre ++ (key, eraseH r.1) :: eraseHO post) else .arr (eraseHA pre ++ eraseH r.1 :: eraseHA post) := by
  unfold plugDel
  simp only []
  split <;> exact eraseH_node_plug _ _ _ _ _ _ _

theorem markS_eraseH : ∀ (p : PathS) (t : T) (A : List Nat) (f : Nat) r,
    markS A f p t = some r → markHS p (eraseH t) = some (eraseH r.1) := by
  intro p
  induction p with
  | nil => intro t A f r h; simp only [markS, Option.some.injEq] at h; subst h; simp [markHS, eraseH]
  | cons e p ih =>
    intro t A f r h
    cases e with
    | key k =>
      simp only [markS] at h
      cases t with
      | hole => simp only [enterDel, Option.some.injEq] at h; subst h; simp [markHS, eraseH]
      | leaf s =>
        cases s <;> simp only [enterDel, Option.some.injEq, reduceCtorEq] at h
        subst h; simp [markHS, eraseH]
      | node id ob c ks =>
        cases ob with
        | false => simp [enterDel] at h
        | true =>
          simp only [enterDel] at h
          rcases hs : splitKey k ks with ⟨pre, ox, post⟩
          simp only [hs] at h
          have hE := splitKeyH_erase k ks
          simp only [hs] at hE
          cases ox with
          | none =>
            simp only [Option.some.injEq] at h
            subst h
            simp [markHS, eraseH, hE]
          | some x =>
            simp only [Option.map_eq_some_iff] at h
            obtain ⟨r1, hr1, rfl⟩ := h
            have hrec := ih x A f _ hr1
            simp only [eraseH, markHS, hE, Option.map_some, hrec, plugDel_eraseH, if_true]
    | idx i =>
      simp only [markS] at h
      cases t with
      | hole => simp only [enterDel, Option.some.injEq] at h; subst h; simp [markHS, eraseH]
      | leaf s =>
        cases s <;> simp only [enterDel, Option.some.injEq, reduceCtorEq] at h
        subst h; simp [markHS, eraseH]
      | node id ob c ks =>
        cases ob with
        | true => simp [enterDel] at h
        | false =>
          simp only [enterDel] at h
          simp only [eraseH, markHS, eraseHA_length]
          cases hr : resolve i ks.length with
          | neg => simp only [hr, Option.some.injEq] at h; subst h; simp [eraseH]
          | beyond b => simp only [hr, Option.some.injEq] at h; subst h; simp [eraseH]
          | inr j =>
            simp only [hr] at h
            cases hs : splitIdx j ks with
            | none =>
              simp only [hs, Option.some.injEq] at h
              subst h
              have := splitIdx_none j ks hs
              have hnone : (eraseHA ks)[j]? = none := by simp [eraseHA_length, this]
              simp [hnone, eraseH]
            | some r3 =>
              obtain ⟨pre, x, post⟩ := r3
              obtain ⟨k', hks, hlen⟩ := splitIdx_eq j ks pre post x hs
              simp only [hs, Option.map_eq_some_iff] at h
              obtain ⟨r1, hr1, rfl⟩ := h
              have hrec := ih x A f _ hr1
              have hget : (eraseHA ks)[j]? = some (eraseH x) := by
                rw [hks, eraseHA_append, ← hlen, ← eraseHA_length pre]
                simp [eraseHA]
              have hset : (eraseHA ks).set j (eraseH r1.1) = eraseHA pre ++ eraseH r1.1 :: eraseHA post := by
                rw [hks, eraseHA_append, ← hlen, ← eraseHA_length pre]
                simp [eraseHA]
              simp only [hget, hrec, Option.map_some, hset, plugDel_eraseH]
              simp
    | slice s e' =>
      simp only [markS] at h
      cases t with
      | hole => simp only [Option.some.injEq] at h; subst h; simp [markHS, eraseH]
      | leaf sc =>
        cases sc with
        | null =>
          simp only [enterSlice, List.isEmpty_nil, if_true, Option.some.injEq] at h
          subst h; simp [markHS, eraseH]
        | bool b => simp [enterSlice] at h
        | num n => simp [enterSlice] at h
        | str s' => simp [enterSlice] at h
      | node id ob c ks =>
        cases ob with
        | true => simp [enterSlice] at h
        | false =>
          simp only [enterSlice] at h
          simp only [eraseH, markHS, eraseHA_length]
          have hmidE : eraseHA ((ks.drop (sliceBounds s e' ks.length).1).take ((sliceBounds s e' ks.length).2 - (sliceBounds s e' ks.length).1)) =
              ((eraseHA ks).drop (sliceBounds s e' ks.length).1).take ((sliceBounds s e' ks.length).2 - (sliceBounds s e' ks.length).1) := by
            rw [eraseHA_take, eraseHA_drop]
          have hemp : (((eraseHA ks).drop (sliceBounds s e' ks.length).1).take ((sliceBounds s e' ks.length).2 - (sliceBounds s e' ks.length).1)).isEmpty =
              ((ks.drop (sliceBounds s e' ks.length).1).take ((sliceBounds s e' ks.length).2 - (sliceBounds s e' ks.length).1)).isEmpty := by
            rw [← hmidE]
            generalize (ks.drop (sliceBounds s e' ks.length).1).take ((sliceBounds s e' ks.length).2 - (sliceBounds s e' ks.length).1) = m
            cases m with
            | nil => simp [eraseHA]
            | cons y ys => obtain ⟨k, t⟩ := y; simp [eraseHA]
          split at h
          · rename_i hm
            simp only [Option.some.injEq] at h
            subst h
            simp only [hemp, hm, if_true, eraseH]
          · rename_i hm
            simp only [hemp, hm, Bool.false_eq_true, if_false]
            simp only [Option.bind_eq_some_iff] at h
            obtain ⟨r1, hr1, hp⟩ := h
            have hrec := ih _ A _ _ hr1
            simp only [view, eraseH] at hrec
            rw [hmidE] at hrec
            rw [hrec]
            -- the two shapes of the marked view
            unfold plugSliceDel at hp
            split at hp
            · rename_i hhole
              simp only [] at hp
              split at hp
              · simp only [Option.some.injEq] at hp
                subst hp
                rw [hhole]
                simp only [eraseH, eraseHA_append, eraseHA_holes, eraseHA_take, eraseHA_drop]
              · simp only [Option.some.injEq] at hp
                subst hp
                rw [hhole]
                simp only [eraseH, eraseHA_append, eraseHA_holes, eraseHA_take, eraseHA_drop]
            · obtain ⟨ul, uc, uks, hu, hcase⟩ := plugSlice_cases _ _ r1 r hp
              rw [hu]
              simp only [eraseH]
              rcases hcase with ⟨id', c', _, _, _, rfl⟩ | ⟨A2, rfl, _⟩
              · simp only [eraseH, eraseHA_append, eraseHA_take, eraseHA_drop]
              · simp only [eraseH, eraseHA_append, eraseHA_take, eraseHA_drop]

/-! ### holes stay below owned cells -/

mutual
  /-- `ho` only looks at the labels that occur in the tree: registered labels may be forgotten elsewhere -/
  theorem ho_congr (A A' : List Nat) : ∀ t : T, (∀ j ∈ t.ids, j ∈ A → j ∈ A') → ho A t → ho A' t
    | .hole, _, _ => trivial
    | .leaf _, _, _ => trivial
    | .node id _ _ ks, hA, h => by
      simp only [T.ids, List.mem_cons, forall_eq_or_imp] at hA
      simp only [ho] at h ⊢
      constructor
      · intro _
        by_cases hin : id ∈ A
        · exact hoK_congr A A' ks hA.2 (h.1 hin)
        · exact hoK_of_holeFreeK A' ks (h.2 hin)
      · intro hnin
        exact h.2 (fun hin => hnin (hA.1 hin))
  theorem hoK_congr (A A' : List Nat) : ∀ ks : Kids, (∀ j ∈ idsK ks, j ∈ A → j ∈ A') → hoK A ks → hoK A' ks
    | [], _, _ => trivial
    | (k, t) :: ks, hA, h => by
      simp only [idsK, List.mem_append] at hA
      rw [hoK_cons] at h ⊢
      exact ⟨ho_congr A A' t (fun j hj => hA j (Or.inl hj)) h.1, hoK_congr A A' ks (fun j hj => hA j (Or.inr hj)) h.2⟩
end

theorem idsK_holes (ks : Kids) : idsK (ks.map fun x => (x.1, T.hole)) = [] := by
  induction ks with
  | nil => rfl
  | cons y ys ih => simp only [List.map_cons, idsK, T.ids, List.nil_append]; exact ih

theorem hoK_holes (A : List Nat) (ks : Kids) : hoK A (ks.map fun x => (x.1, T.hole)) := by
  induction ks with
  | nil => trivial
  | cons y ys ih => simp only [List.map_cons, hoK]; exact ih

theorem ho_of_hoK {A : List Nat} {id : Nat} {o : Bool} {c : Nat} {ks : Kids} (h : hoK A ks) (hown : id ∈ A ∨ ks = []) :
    ho A (.node id o c ks) := by
  simp only [ho]
  refine ⟨fun _ => h, fun hnin => ?_⟩
  rcases hown with h1 | h1
  · exact absurd h1 hnin
  · rw [h1]; trivial

theorem hoK_of_ho {A : List Nat} {t : T} (h : ho A t) : hoK A (kidsOf t) := by
  cases t with
  | leaf s => trivial
  | hole => trivial
  | node id o c ks =>
    simp only [ho] at h
    simp only [kidsOf]
    by_cases hin : id ∈ A
    · exact h.1 hin
    · exact hoK_of_holeFreeK A ks (h.2 hin)

/-- what the marking pass guarantees, with the holes of `t` below owned cells or directly in `t` -/
structure MRes (A : List Nat) (f : Nat) (t : T) (r : T × List Nat × Nat × Log) : Prop where
  hf : f ≤ r.2.2.1
  hub : ∀ j ∈ r.1.ids, j < r.2.2.1
  keepOld : ∀ j ∈ A, j < f → j ∈ r.2.1
  hoR : hoK r.2.1 (kidsOf r.1)
  root : r.1 = .hole ∨ (r.1 = t ∧ r.2.1 = A) ∨
    ∃ l o c ks', r.1 = .node l o c ks' ∧ (l ∈ r.2.1 ∨ ks' = []) ∧ (t.root? = some l ∨ (f ≤ l ∧ ∀ j ∈ idsK ks', j < l))
  len : ∀ id c ks, t = .node id false c ks → r.1 = .hole ∨ ∃ id' c' ks', r.1 = .node id' false c' ks' ∧ ks'.length = ks.length

/-- the full `ho` of a result whose input satisfied `ho` -/
theorem MRes.ho {A f t r} (M : MRes A f t r) (ht : ho A t) : ho r.2.1 r.1 := by
  rcases M.root with h | ⟨h1, h2⟩ | ⟨l, o, c, ks', h1, h2, _⟩
  · rw [h]; trivial
  · rw [h1, h2]; exact ht
  · have := M.hoR
    rw [h1] at this ⊢
    exact ho_of_hoK this h2

theorem MRes.same (A : List Nat) (f : Nat) (t : T) (h : hoK A (kidsOf t)) (hv : ∀ j ∈ t.ids, j < f) : MRes A f t (t, A, f, []) where
  hf := Nat.le_refl _
  hub := hv
  keepOld := fun j hj _ => hj
  hoR := h
  root := Or.inr (Or.inl ⟨rfl, rfl⟩)
  len := fun id c ks ht => Or.inr ⟨id, c, ks, ht, rfl⟩

theorem hoK_mem_ho {A : List Nat} {ks : Kids} (h : hoK A ks) : ∀ x ∈ ks, ho A x.2 := by
  induction ks with
  | nil => intro x hx; cases hx
  | cons y ys ih =>
    obtain ⟨k, t⟩ := y
    rw [hoK_cons] at h
    intro x hx
    rcases List.mem_cons.mp hx with rfl | hx
    · exact h.1
    · exact ih h.2 x hx

theorem enterDel_at (e : PE) (t : T) (id : Nat) (o : Bool) (c cCopy : Nat) (pre : Kids) (key : Bytes) (child : T) (post : Kids)
    (h : enterDel e t = .at id o c cCopy pre key child post) : ∃ k', t = .node id o c (pre ++ (k', child) :: post) := by
  cases e with
  | key k =>
    cases t with
    | hole => simp [enterDel] at h
    | leaf s => cases s <;> simp [enterDel] at h
    | node id0 ob c0 ks =>
      cases ob with
      | false => simp [enterDel] at h
      | true =>
        simp only [enterDel] at h
        rcases hs : splitKey k ks with ⟨pre0, ox, post0⟩
        simp only [hs] at h
        cases ox with
        | none => simp at h
        | some x =>
          simp only [EnterDel.at.injEq] at h
          obtain ⟨rfl, rfl, rfl, _, rfl, rfl, rfl, rfl⟩ := h
          exact ⟨k, by rw [splitKey_found k ks _ _ _ hs]⟩
  | idx i =>
    cases t with
    | hole => simp [enterDel] at h
    | leaf s => cases s <;> simp [enterDel] at h
    | node id0 ob c0 ks =>
      cases ob with
      | true => simp [enterDel] at h
      | false =>
        simp only [enterDel] at h
        split at h
        · split at h
          · rename_i pre0 x post0 hs
            simp only [EnterDel.at.injEq] at h
            obtain ⟨rfl, rfl, rfl, _, rfl, _, rfl, rfl⟩ := h
            obtain ⟨k', hks, _⟩ := splitIdx_eq _ ks _ _ _ hs
            exact ⟨k', by rw [hks]⟩
          · cases h
        · cases h

/-- the key/index step of the marking pass -/
theorem MRes_plugDel (A : List Nat) (f : Nat) (id : Nat) (o : Bool) (c cCopy : Nat) (pre post : Kids) (k' key : Bytes) (child : T)
    (hk : hoK A (pre ++ (k', child) :: post)) (hv : ∀ j ∈ (T.node id o c (pre ++ (k', child) :: post)).ids, j < f)
    (r1 : T × List Nat × Nat × Log) (M : MRes A f child r1) :
    MRes A f (.node id o c (pre ++ (k', child) :: post)) (plugDel id o c cCopy pre key post r1) := by
  rw [hoK_append, hoK_cons] at hk
  obtain ⟨hpre, hchild, hpost⟩ := hk
  have hu := M.ho hchild
  have hidf : id < f := hv id (by simp [T.ids])
  have hpreL : ∀ j ∈ idsK pre, j < f := fun j hj => hv j (by rw [ids_node_plug]; simp [hj])
  have hpostL : ∀ j ∈ idsK post, j < f := fun j hj => hv j (by rw [ids_node_plug]; simp [hj])
  have hpre1 : hoK r1.2.1 pre := hoK_congr A _ pre (fun j hj hA => M.keepOld j hA (hpreL j hj)) hpre
  have hpost1 : hoK r1.2.1 post := hoK_congr A _ post (fun j hj hA => M.keepOld j hA (hpostL j hj)) hpost
  have hkids1 : hoK r1.2.1 (pre ++ (key, r1.1) :: post) := by
    rw [hoK_append, hoK_cons]; exact ⟨hpre1, hu, hpost1⟩
  have hf := M.hf
  have hlab : ∀ j ∈ idsK (pre ++ (key, r1.1) :: post), j < r1.2.2.1 := by
    intro j hj
    simp only [idsK_append, idsK, List.mem_append] at hj
    rcases hj with hj | hj | hj
    · have := hpreL j hj; omega
    · exact M.hub j hj
    · have := hpostL j hj; omega
  unfold plugDel
  simp only []
  split
  · rename_i hin
    refine ⟨hf, ?_, M.keepOld, hkids1, ?_, ?_⟩
    · intro j hj
      simp only [T.ids, List.mem_cons] at hj
      rcases hj with rfl | hj
      · show j < r1.2.2.1; omega
      · exact hlab j hj
    · exact Or.inr (Or.inr ⟨id, o, c, _, rfl, Or.inl hin, Or.inl rfl⟩)
    · intro id0 c0 ks0 ht
      injection ht with _ ho' _ hks
      subst ho'
      exact Or.inr ⟨id, c, _, rfl, by rw [← hks]; simp⟩
  · refine ⟨Nat.le_succ_of_le hf, ?_, fun j hj hjf => List.mem_cons_of_mem _ (M.keepOld j hj hjf), ?_, ?_, ?_⟩
    · intro j hj
      simp only [T.ids, List.mem_cons] at hj
      rcases hj with rfl | hj
      · exact Nat.lt_succ_self _
      · exact Nat.lt_succ_of_lt (hlab j hj)
    · exact hoK_mono r1.2.1 _ (fun a ha => List.mem_cons_of_mem _ ha) _ hkids1
    · exact Or.inr (Or.inr ⟨r1.2.2.1, o, cCopy, _, rfl, Or.inl List.mem_cons_self, Or.inr ⟨hf, hlab⟩⟩)
    · intro id0 c0 ks0 ht
      injection ht with _ ho' _ hks
      subst ho'
      exact Or.inr ⟨_, cCopy, _, rfl, by rw [← hks]; simp⟩

theorem hoK_parts {A : List Nat} {pre mid post : Kids} (h : hoK A (pre ++ mid ++ post)) : hoK A pre ∧ hoK A mid ∧ hoK A post := by
  rw [hoK_append, hoK_append] at h
  exact ⟨h.1.1, h.1.2, h.2⟩

theorem mem_filter_ne_of_not_mem {A : List Nat} {id a : Nat} (hid : id ∉ A) (ha : a ∈ A) : a ∈ A.filter (· ≠ id) :=
  List.mem_filter.mpr ⟨ha, by simpa using fun e : a = id => hid (e ▸ ha)⟩

/-- **the marking pass keeps the holes below owned cells**, paths with slices -/
theorem markS_mres : ∀ (p : PathS) (t : T) (A : List Nat) (f : Nat) r,
    markS A f p t = some r → hoK A (kidsOf t) → (∀ j ∈ t.ids, j < f) → (∀ a ∈ A, a < f) → MRes A f t r := by
  intro p
  induction p with
  | nil =>
    intro t A f r h _ _ _
    simp only [markS, Option.some.injEq] at h
    subst h
    exact ⟨Nat.le_refl _, by simp [T.ids], fun j hj _ => hj, trivial, Or.inl rfl, fun _ _ _ _ => Or.inl rfl⟩
  | cons e p ih =>
    intro t A f r h hk hv hA
    have stepE : ∀ (pe : PE), (match enterDel pe t with
          | .err => none
          | .same => some (t, A, f, [])
          | .at id o c cCopy pre key child post => (markS A f p child).map (plugDel id o c cCopy pre key post)) = some r →
        MRes A f t r := by
      intro pe h
      split at h
      · cases h
      · simp only [Option.some.injEq] at h; subst h; exact MRes.same A f t hk hv
      · rename_i id o c cCopy pre key child post hat
        simp only [Option.map_eq_some_iff] at h
        obtain ⟨r1, hr1, rfl⟩ := h
        obtain ⟨k', rfl⟩ := enterDel_at pe t id o c cCopy pre key child post hat
        simp only [kidsOf] at hk
        have hk' := hk
        rw [hoK_append, hoK_cons] at hk'
        have hchildL : ∀ j ∈ child.ids, j < f := fun j hj => hv j (by rw [ids_node_plug]; simp [hj])
        have M := ih child A f r1 hr1 (hoK_of_ho hk'.2.1) hchildL hA
        exact MRes_plugDel A f id o c cCopy pre post k' key child hk hv r1 M
    cases e with
    | key k => simp only [markS] at h; exact stepE (.key k) h
    | idx i => simp only [markS] at h; exact stepE (.idx i) h
    | slice s e' =>
      simp only [markS] at h
      split at h
      · simp only [Option.some.injEq] at h; subst h; exact MRes.same A f _ hk hv
      · split at h
        · cases h
        · rename_i hnh sf he
          split at h
          · simp only [Option.some.injEq] at h; subst h; exact MRes.same A f t hk hv
          · rename_i hmid
            simp only [Option.bind_eq_some_iff] at h
            obtain ⟨r1, hr1, hp⟩ := h
            obtain ⟨hroot, hkid, hkids, hnode⟩ := enterSlice_ids s e' t sf he
            -- the array is a node (the slice of `null` is empty)
            have hcell : ∃ id c, sf.cell = some (id, c) := by
              rcases enterSlice_cases s e' t sf he with ⟨_, rfl⟩ | ⟨id, c, ks, _, hc, _⟩
              · simp at hmid
              · exact ⟨id, c, hc⟩
            obtain ⟨id, c, hc⟩ := hcell
            have ht := hnode id c hc
            rw [hkids] at hk
            obtain ⟨hpre, hmidK, hpost⟩ := hoK_parts hk
            have hf0 := viewLabel_ge sf f
            have hidf : id < f := hv id (by rw [ht]; simp [T.ids])
            have hpart : ∀ j, (j ∈ idsK sf.pre ∨ j ∈ idsK sf.mid ∨ j ∈ idsK sf.post) → j < f := by
              intro j hj
              apply hv j
              rw [ids_root_kid, hkid]
              simp only [List.mem_append]
              rcases hj with h | h | h
              · exact Or.inr (Or.inl (Or.inl h))
              · exact Or.inr (Or.inl (Or.inr h))
              · exact Or.inr (Or.inr h)
            have hvl : ((viewLabel sf f).1 = f ∧ (viewLabel sf f).2 = f + 1) ∨ ((viewLabel sf f).1 = id ∧ (viewLabel sf f).2 = f) := by
              rcases viewLabel_cases sf f with ⟨h0, id', c', hc', h1, _⟩ | ⟨h1, h0, _⟩
              · rw [hc] at hc'
                simp only [Option.some.injEq, Prod.mk.injEq] at hc'
                exact Or.inr ⟨by rw [h1, hc'.1], h0⟩
              · exact Or.inl ⟨h1, h0⟩
            have hviewL : ∀ j ∈ (view sf f).ids, j < (viewLabel sf f).2 := by
              intro j hj
              rw [view_ids] at hj
              rcases List.mem_cons.mp hj with rfl | hj
              · rcases hvl with ⟨h1, h2⟩ | ⟨h1, h2⟩ <;> omega
              · have := hpart j (Or.inr (Or.inl hj)); omega
            have M := ih (view sf f) A (viewLabel sf f).2 r1 hr1 (by simpa [view, kidsOf] using hmidK) hviewL
              (fun a ha => by have := hA a ha; omega)
            have hMf := M.hf
            have hconf := markS_confined p (view sf f) A (viewLabel sf f).2 r1 hr1
            have hA1 : ∀ a ∈ r1.2.1, a ∈ A ∨ ((viewLabel sf f).2 ≤ a ∧ a < r1.2.2.1) := hconf.2.1
            have keep1 : ∀ j ∈ A, j < f → j ∈ r1.2.1 := fun j hj hjf => M.keepOld j hj (by omega)
            have hpre1 : hoK r1.2.1 sf.pre :=
              hoK_congr A _ _ (fun j hj hA' => keep1 j hA' (hpart j (Or.inl hj))) hpre
            have hpost1 : hoK r1.2.1 sf.post :=
              hoK_congr A _ _ (fun j hj hA' => keep1 j hA' (hpart j (Or.inr (Or.inr hj)))) hpost
            have hlenT : ∀ ks', (sf.pre ++ ks' ++ sf.post).length = (sf.pre ++ sf.mid ++ sf.post).length → True := fun _ _ => trivial
            -- the length of the marked view
            have hlenV := M.len (viewLabel sf f).1 sf.mid.length sf.mid rfl
            unfold plugSliceDel at hp
            split at hp
            · -- the path ended at the slice: every element of the range is marked
              rename_i hhole
              rw [hc] at hp
              simp only [] at hp
              have hkidsH : hoK r1.2.1 (sf.pre ++ sf.mid.map (fun x => (x.1, T.hole)) ++ sf.post) := by
                rw [hoK_append, hoK_append]; exact ⟨⟨hpre1, hoK_holes _ _⟩, hpost1⟩
              have hlabH : ∀ j ∈ idsK (sf.pre ++ sf.mid.map (fun x => (x.1, T.hole)) ++ sf.post), j < r1.2.2.1 := by
                intro j hj
                simp only [idsK_append, List.mem_append] at hj
                rcases hj with (hj | hj) | hj
                · have := hpart j (Or.inl hj); omega
                · rw [idsK_holes] at hj; cases hj
                · have := hpart j (Or.inr (Or.inr hj)); omega
              split at hp
              · rename_i hin
                simp only [Option.some.injEq] at hp
                subst hp
                refine ⟨by show f ≤ r1.2.2.1; omega, ?_, keep1, hkidsH, ?_, ?_⟩
                · intro j hj
                  simp only [T.ids, List.mem_cons] at hj
                  rcases hj with rfl | hj
                  · show j < r1.2.2.1; omega
                  · exact hlabH j hj
                · exact Or.inr (Or.inr ⟨id, false, c, _, rfl, Or.inl hin, Or.inl (by rw [hroot, hc]; rfl)⟩)
                · intro id0 c0 ks0 ht0
                  rw [ht] at ht0
                  injection ht0 with _ _ _ hks
                  exact Or.inr ⟨id, c, _, rfl, by rw [← hks]; simp⟩
              · simp only [Option.some.injEq] at hp
                subst hp
                refine ⟨by show f ≤ r1.2.2.1 + 1; omega, ?_, fun j hj hjf => List.mem_cons_of_mem _ (keep1 j hj hjf), ?_, ?_, ?_⟩
                · intro j hj
                  simp only [T.ids, List.mem_cons] at hj
                  rcases hj with rfl | hj
                  · exact Nat.lt_succ_self _
                  · exact Nat.lt_succ_of_lt (hlabH j hj)
                · exact hoK_mono r1.2.1 _ (fun a ha => List.mem_cons_of_mem _ ha) _ hkidsH
                · exact Or.inr (Or.inr ⟨r1.2.2.1, false, _, _, rfl, Or.inl List.mem_cons_self, Or.inr ⟨by omega, hlabH⟩⟩)
                · intro id0 c0 ks0 ht0
                  rw [ht] at ht0
                  injection ht0 with _ _ _ hks
                  exact Or.inr ⟨_, _, _, rfl, by rw [← hks]; simp⟩
            · -- the marked view is an array: its elements are copied back
              rename_i hnothole
              obtain ⟨ul, uc, uks, hu, hcase⟩ := plugSlice_cases _ _ r1 r hp
              have huksK : hoK r1.2.1 uks := by have := M.hoR; rw [hu] at this; exact this
              have huksL : ∀ j ∈ idsK uks, j < r1.2.2.1 := fun j hj => M.hub j (by rw [hu]; simp [T.ids, hj])
              have hlenU : uks.length = sf.mid.length := by
                rcases hlenV with h0 | ⟨id', c', ks', h1, h2⟩
                · rw [hu] at h0; cases h0
                · rw [hu] at h1; injection h1 with _ _ _ h3; rw [h3]; exact h2
              -- where the root of the marked view comes from
              have hul : ul = (viewLabel sf f).1 ∨ ((viewLabel sf f).2 ≤ ul ∧ ∀ j ∈ idsK uks, j < ul) := by
                rcases M.root with h0 | ⟨h1, _⟩ | ⟨l, o', c', ks', h1, _, h3⟩
                · rw [hu] at h0; cases h0
                · rw [hu] at h1
                  simp only [view] at h1
                  injection h1 with h4
                  exact Or.inl h4
                · rw [hu] at h1
                  injection h1 with h4 _ _ h5
                  subst h4 h5
                  rcases h3 with h3 | h3
                  · rw [view_root] at h3
                    exact Or.inl (Option.some.inj h3).symm
                  · exact Or.inr h3
              have hlabN : ∀ j ∈ idsK (sf.pre ++ uks ++ sf.post), j < r1.2.2.1 := by
                intro j hj
                simp only [idsK_append, List.mem_append] at hj
                rcases hj with (hj | hj) | hj
                · have := hpart j (Or.inl hj); omega
                · exact huksL j hj
                · have := hpart j (Or.inr (Or.inr hj)); omega
              have hfnot : (viewLabel sf f).2 = f + 1 → f ∉ r1.2.1 := by
                intro h2 hm
                rcases hA1 f hm with h1 | h1
                · have := hA f h1; omega
                · omega
              -- membership in the allocator after `u` is dropped, for a label that is not the root of `u`
              have keepU : ∀ (same : Bool) (B : List Nat), ∀ j ∈ B, ul ≠ j → j ∈ freeU same r1.1 uks B :=
                fun same B j hj hne => mem_freeU _ _ _ _ j hj (by rw [hu]; intro e; cases e; exact hne rfl)
              rcases hcase with ⟨id', c', hc', _, hin, rfl⟩ | ⟨A2, rfl, hA2⟩
              · -- in place
                rw [hc] at hc'
                simp only [Option.some.injEq, Prod.mk.injEq] at hc'
                obtain ⟨rfl, rfl⟩ := hc'
                have memA' : ∀ j ∈ r1.2.1, (j < f ∨ j ∈ idsK uks) → j ∈ freeU (ul == (viewLabel sf f).1) r1.1 uks r1.2.1 := by
                  intro j hj hor
                  rcases hul with h1 | h1
                  · rw [h1]; simp only [beq_self_eq_true]; rw [freeU_same]; exact hj
                  · apply keepU _ _ j hj
                    intro e
                    subst e
                    rcases hor with h2 | h2
                    · omega
                    · exact absurd (h1.2 ul h2) (Nat.lt_irrefl _)
                have hkidsN : hoK (freeU (ul == (viewLabel sf f).1) r1.1 uks r1.2.1) (sf.pre ++ uks ++ sf.post) := by
                  rw [hoK_append, hoK_append]
                  refine ⟨⟨?_, ?_⟩, ?_⟩
                  · exact hoK_congr _ _ _ (fun j hj hm => memA' j hm (Or.inl (hpart j (Or.inl hj)))) hpre1
                  · exact hoK_congr _ _ _ (fun j hj hm => memA' j hm (Or.inr hj)) huksK
                  · exact hoK_congr _ _ _ (fun j hj hm => memA' j hm (Or.inl (hpart j (Or.inr (Or.inr hj))))) hpost1
                refine ⟨by show f ≤ r1.2.2.1; omega, ?_, fun j hj hjf => memA' j (keep1 j hj hjf) (Or.inl hjf), hkidsN, ?_, ?_⟩
                · intro j hj
                  simp only [T.ids, List.mem_cons] at hj
                  rcases hj with rfl | hj
                  · show j < r1.2.2.1; omega
                  · exact hlabN j hj
                · exact Or.inr (Or.inr ⟨id, false, c, _, rfl, Or.inl (memA' id hin (Or.inl hidf)), Or.inl (by rw [hroot, hc]; rfl)⟩)
                · intro id0 c0 ks0 ht0
                  rw [ht] at ht0
                  injection ht0 with _ _ _ hks
                  exact Or.inr ⟨id, c, _, rfl, by rw [← hks]; simp [hlenU]⟩
              · -- into a new array: the array itself was not registered (its length is unchanged)
                have hidnot : id ∉ r1.2.1 := by
                  rcases hA2 with ⟨hn0, _⟩ | ⟨id', c', hc', hcond, _⟩
                  · rw [hc] at hn0; cases hn0
                  · rw [hc] at hc'
                    simp only [Option.some.injEq, Prod.mk.injEq] at hc'
                    obtain ⟨rfl, rfl⟩ := hc'
                    exact fun hin => hcond ⟨hlenU, hin⟩
                have hA2mem : ∀ j ∈ r1.2.1, j ∈ A2 := by
                  intro j hj
                  rcases hA2 with ⟨_, hEq⟩ | ⟨id', c', hc', _, hEq⟩
                  · rw [hEq]; exact hj
                  · rw [hc] at hc'
                    simp only [Option.some.injEq, Prod.mk.injEq] at hc'
                    obtain ⟨rfl, rfl⟩ := hc'
                    rw [hEq]; exact mem_filter_ne_of_not_mem hidnot hj
                have memA' : ∀ j ∈ r1.2.1, (j < f ∨ j ∈ idsK uks) →
                    j ∈ regFresh r1.2.2.1 (sf.pre ++ uks ++ sf.post) (freeU false r1.1 uks A2) := by
                  intro j hj hor
                  apply mem_regFresh
                  apply keepU _ _ j (hA2mem j hj)
                  intro e
                  subst e
                  rcases hul with h1 | h1
                  · -- the root of `u` is the label of the view: the array's own label, or the counter's
                    rcases hvl with ⟨h2, h2'⟩ | ⟨h2, _⟩
                    · rw [h1, h2] at hj; exact hfnot h2' hj
                    · rw [h1, h2] at hj; exact hidnot hj
                  · rcases hor with h2 | h2
                    · omega
                    · exact absurd (h1.2 ul h2) (Nat.lt_irrefl _)
                have hkidsN : hoK (regFresh r1.2.2.1 (sf.pre ++ uks ++ sf.post) (freeU false r1.1 uks A2)) (sf.pre ++ uks ++ sf.post) := by
                  rw [hoK_append, hoK_append]
                  refine ⟨⟨?_, ?_⟩, ?_⟩
                  · exact hoK_congr _ _ _ (fun j hj hm => memA' j hm (Or.inl (hpart j (Or.inl hj)))) hpre1
                  · exact hoK_congr _ _ _ (fun j hj hm => memA' j hm (Or.inr hj)) huksK
                  · exact hoK_congr _ _ _ (fun j hj hm => memA' j hm (Or.inl (hpart j (Or.inr (Or.inr hj))))) hpost1
                refine ⟨by show f ≤ r1.2.2.1 + 1; omega, ?_, fun j hj hjf => memA' j (keep1 j hj hjf) (Or.inl hjf), hkidsN, ?_, ?_⟩
                · intro j hj
                  simp only [T.ids, List.mem_cons] at hj
                  rcases hj with rfl | hj
                  · exact Nat.lt_succ_self _
                  · exact Nat.lt_succ_of_lt (hlabN j hj)
                · refine Or.inr (Or.inr ⟨r1.2.2.1, false, _, _, rfl, ?_, Or.inr ⟨by omega, hlabN⟩⟩)
                  by_cases hk0 : sf.pre ++ uks ++ sf.post = []
                  · exact Or.inr hk0
                  · exact Or.inl (regFresh_self _ _ _ hk0)
                · intro id0 c0 ks0 ht0
                  rw [ht] at ht0
                  injection ht0 with _ _ _ hks
                  exact Or.inr ⟨_, _, _, rfl, by rw [← hks]; simp [hlenU]⟩

/-! ### the whole `delpaths` -/

/-- `delpaths(ps)` with slices on plain values: mark every path in turn, then remove the holes — func.go's
    algorithm without allocator, labels and in-place writes (`specB []` embeds a value without holes) -/
def delpathsVS (ps : List PathS) (w : JV) : Option JV :=
  if ps.isEmpty then some w else (markAllHS ps (specB [] w)).map sweepV

theorem markAllS_spec : ∀ (ps : List PathS) (t : T) (A : List Nat) (f : Nat) (log0 : Log) r,
    markAllS ps (t, A, f, log0) = some r → ho A t → (∀ j ∈ t.ids, j < f) → (∀ a ∈ A, a < f) →
    markAllHS ps (eraseH t) = some (eraseH r.1) ∧ ho r.2.1 r.1 := by
  intro ps
  induction ps with
  | nil =>
    intro t A f log0 r h ht _ _
    simp only [markAllS, Option.some.injEq] at h
    subst h
    exact ⟨rfl, ht⟩
  | cons p ps ih =>
    intro t A f log0 r h ht hv hA
    simp only [markAllS] at h
    split at h
    · cases h
    · rename_i t1 A1 f1 log1 hm
      have M := markS_mres p t A f _ hm (hoK_of_ho ht) hv hA
      have hE := markS_eraseH p t A f _ hm
      have hc := markS_confined p t A f _ hm
      have hA1 : ∀ a ∈ A1, a < f1 := by
        intro a ha
        rcases hc.2.1 a ha with h1 | h1
        · have := hA a h1; have := hc.1; simp only [] at this; omega
        · exact h1.2
      obtain ⟨g1, g2⟩ := ih t1 A1 f1 (log0 ++ log1) r h (M.ho ht) M.hub hA1
      refine ⟨?_, g2⟩
      simp only [markAllHS, hE]
      exact g1

/-- **func.go's `delpaths` through slice paths denotes mark-then-sweep on plain values**: whatever the
    allocator owns, whichever containers are written in place, copied or dropped -/
theorem delpathsST_abs (A : List Nat) (f : Nat) (ps : List PathS) (v : T) r
    (hfree : holeFree v) (hv : ∀ j ∈ v.ids, j < f) (hA : ∀ a ∈ A, a < f) (h : delpathsST A f ps v = some r) :
    delpathsVS ps (abs v) = some (abs r.1) := by
  simp only [delpathsST] at h
  unfold delpathsVS
  split at h
  · rename_i hemp
    simp only [Option.some.injEq] at h
    subst h
    simp [hemp]
  · rename_i hemp
    simp only [hemp, Bool.false_eq_true, if_false]
    split at h
    · cases h
    · rename_i u A1 f1 log hm
      simp only [Option.some.injEq] at h
      subst h
      obtain ⟨g1, g2⟩ := markAllS_spec ps v A f [] _ hm (ho_of_holeFree A v hfree) hv hA
      rw [← eraseH_specB_nil v hfree, g1]
      simp only [Option.map_some, sweep_abs A1 u g2]

/-! ### on paths without slices this is the `delpaths` of Model/Heap.lean -/

theorem markHS_toS : ∀ (p : Path) (hv : HV), markHS (p.map PE.toS) hv = markH p hv := by
  intro p
  induction p with
  | nil => intro hv; rfl
  | cons e p ih =>
    intro hv
    cases e with
    | key k =>
      cases hv with
      | leaf s => cases s <;> simp [markHS, markH, PE.toS]
      | hole => simp [markHS, markH, PE.toS]
      | arr xs => simp [markHS, markH, PE.toS]
      | obj kvs =>
        simp only [List.map_cons, PE.toS, markHS, markH]
        rcases hs : splitKeyH k kvs with ⟨pre, ox, post⟩
        cases ox <;> simp [ih]
    | idx i =>
      cases hv with
      | leaf s => cases s <;> simp [markHS, markH, PE.toS]
      | hole => simp [markHS, markH, PE.toS]
      | obj kvs => simp [markHS, markH, PE.toS]
      | arr xs =>
        simp only [List.map_cons, PE.toS, markHS, markH]
        cases hr : resolve i xs.length with
        | neg => rfl
        | beyond b => rfl
        | inr j =>
          simp only []
          cases hx : xs[j]? <;> simp [ih]

theorem markAllH_spec (v0 : JV) (hwf : JV.wf v0 = true) : ∀ (ps done : List Path) (h h' : HV),
    h = specH done v0 → markAllHS (ps.map (List.map PE.toS)) h = some h' → h' = specH (done ++ ps) v0 := by
  intro ps
  induction ps with
  | nil => intro done h h' he hm; simp only [List.map_nil, markAllHS, Option.some.injEq] at hm; subst hm; simpa using he
  | cons p ps ih =>
    intro done h h' he hm
    simp only [List.map_cons, markAllHS, markHS_toS] at hm
    split at hm
    · cases hm
    · rename_i h1 hm1
      rw [he] at hm1
      have := markH_specH p done v0 h1 hwf hm1
      have := ih (done ++ [p]) h1 h' this hm
      simpa [List.append_assoc] using this

/-- on paths without slices, whenever mark-then-sweep succeeds it deletes exactly the positions the paths
    denote in the original value (the structural `delpaths` of Model/Heap.lean) -/
theorem delpathsVS_plain (ps : List Path) (w z : JV) (hwf : JV.wf w = true)
    (h : delpathsVS (ps.map (List.map PE.toS)) w = some z) : z = delpaths ps w := by
  unfold delpathsVS at h
  split at h
  · rename_i hemp
    simp only [Option.some.injEq] at h
    have : ps = [] := by cases ps <;> simp_all
    subst this h
    simp [delpaths, delv_nil]
  · simp only [Option.map_eq_some_iff] at h
    obtain ⟨h', hm, rfl⟩ := h
    have := markAllH_spec w hwf ps [] (specB [] w) h' (by simp [specH]) hm
    simp only [List.nil_append] at this
    rw [this, sweepV_specH]

/-! ### `_modify` in full -/

/-- the defining reduction of `|=` on values, paths with slices: the collected paths are deleted at the
    end, against the updated value -/
def modifyVFullS (qv : JV → Option JV) (ps : List PathS) (w : JV) : Option JV :=
  (modifyVAuxS qv ps w []).bind fun r => delpathsVS r.2 r.1

theorem holeFreeK_parts {pre mid post : Kids} : holeFreeK (pre ++ mid ++ post) ↔ holeFreeK pre ∧ holeFreeK mid ∧ holeFreeK post := by
  rw [holeFreeK_append, holeFreeK_append]; exact and_assoc

theorem plugE_holeFree (cell o fo) (r : T × List Nat × Nat × Log) (hpre : holeFreeK fo.pre) (hpost : holeFreeK fo.post)
    (hu : holeFree r.1) : holeFree (plugE cell o fo r).1 := by
  have hk : holeFreeK (fo.pre ++ (fo.key, r.1) :: fo.post) := by
    rw [holeFreeK_append]; simp only [holeFreeK]; exact ⟨hpre, hu, hpost⟩
  rcases plugE_cases cell o fo r with ⟨id, c, _, _, _, heq⟩ | ⟨c', A2, heq, _⟩ <;> (rw [heq]; exact hk)

theorem updS_holeFree : ∀ (p : PathS) (v n : T) (A : List Nat) (f : Nat) r,
    updS A f p v n = some r → holeFree v → holeFree n → holeFree r.1 := by
  intro p
  induction p with
  | nil => intro v n A f r h _ hn; simp only [updS, Option.some.injEq] at h; subst h; exact hn
  | cons e p ih =>
    intro v n A f r h hv hn
    have stepE : ∀ (pe : PE), (match enter pe v with
          | none => none
          | some (cell, o, fo) => (updS A f p fo.child n).map (plugE cell o fo)) = some r → holeFree r.1 := by
      intro pe h
      split at h
      · cases h
      · rename_i cell o fo he
        simp only [Option.map_eq_some_iff] at h
        obtain ⟨r1, hr1, rfl⟩ := h
        obtain ⟨hc, hpre, hpost⟩ := enter_holeFree pe v cell o fo he hv
        exact plugE_holeFree cell o fo r1 hpre hpost (ih _ _ _ _ _ hr1 hc hn)
    cases e with
    | key k => simp only [updS] at h; exact stepE (.key k) h
    | idx i => simp only [updS] at h; exact stepE (.idx i) h
    | slice s e' =>
      simp only [updS] at h
      split at h
      · cases h
      · rename_i sf he
        simp only [Option.bind_eq_some_iff] at h
        obtain ⟨r1, hr1, hp⟩ := h
        obtain ⟨_, _, hkids, _⟩ := enterSlice_ids s e' v sf he
        have hparts : holeFreeK sf.pre ∧ holeFreeK sf.mid ∧ holeFreeK sf.post := by
          cases v with
          | hole => simp [enterSlice] at he
          | leaf sc =>
            simp only [kidsOf] at hkids
            have h1 : sf.pre ++ sf.mid ++ sf.post = [] := hkids.symm
            simp only [List.append_eq_nil_iff] at h1
            rw [h1.1.1, h1.1.2, h1.2]; exact ⟨trivial, trivial, trivial⟩
          | node id o c ks =>
            simp only [kidsOf] at hkids
            simp only [holeFree] at hv
            rw [hkids] at hv
            exact holeFreeK_parts.mp hv
        have hu := ih _ _ _ _ _ hr1 (by simpa [view, holeFree] using hparts.2.1) hn
        obtain ⟨ul, uc, uks, hu1, hcase⟩ := plugSlice_cases sf _ r1 r hp
        rw [hu1] at hu
        simp only [holeFree] at hu
        have hk : holeFreeK (sf.pre ++ uks ++ sf.post) := holeFreeK_parts.mpr ⟨hparts.1, hu, hparts.2.2⟩
        rcases hcase with ⟨id, c, _, _, _, rfl⟩ | ⟨A2, rfl, _⟩ <;> exact hk

theorem getpS_holeFree : ∀ (p : PathS) (v x : T), getpS p v = some x → holeFree v → holeFree x := by
  intro p
  induction p with
  | nil => intro v x h hv; simp only [getpS, Option.some.injEq] at h; subst h; exact hv
  | cons e p ih =>
    intro v x h hv
    obtain ⟨ch, hch, hcase⟩ := getpS_step e p v x h
    rcases hcase with rfl | ⟨_, id, o, c, pre, k, post, rfl⟩ | ⟨s, e', id, c, c', pre, mid, post, _, rfl, rfl⟩
    · exact ih _ x hch holeFree_null
    · simp only [holeFree] at hv
      rw [holeFreeK_append] at hv
      simp only [holeFreeK] at hv
      exact ih _ x hch hv.2.1
    · simp only [holeFree] at hv
      exact ih _ x hch (by simpa [holeFree] using (holeFreeK_parts.mp hv).2.1)

theorem getpReleaseS_holeFree (A : List Nat) (f : Nat) (p : PathS) (v x' : T) (A1 : List Nat) (f1 : Nat)
    (h : getpReleaseS A f p v = some (x', A1, f1)) (hv : holeFree v) : holeFree x' := by
  cases hx : getpS p v with
  | none => simp [getpReleaseS, hx] at h
  | some x =>
    have hxf := getpS_holeFree p v x hx hv
    rw [getpReleaseS_of A f p v x hx] at h
    split at h
    · split at h
      · simp only [Option.some.injEq, Prod.mk.injEq] at h
        rw [← h.1]
        simpa [holeFree] using hxf
      · simp only [Option.some.injEq, Prod.mk.injEq] at h
        rw [← h.1]; exact hxf
    · simp only [Option.some.injEq, Prod.mk.injEq] at h
      rw [← h.1]; exact hxf

theorem modifyFullAuxS_sound (q : T → Nat → Option (T × Nat)) (qv : JV → Option JV) (hq : QOK' q)
    (habs : ∀ x f, (q x f).map (fun r => abs r.1) = qv (abs x)) :
    ∀ (ps : List PathS) (v : T) (A : List Nat) (f : Nat) (d : List PathS) r,
      Inv A f v → holeFree v → modifyFullAuxS q ps (v, A, f) d = some r →
      modifyVAuxS qv ps (abs v) d = some (abs r.1.1, r.2) ∧ Inv r.1.2.1 r.1.2.2 r.1.1 ∧ holeFree r.1.1 := by
  intro ps
  induction ps with
  | nil =>
    intro v A f d r inv hf h
    simp only [modifyFullAuxS, Option.some.injEq] at h
    subst h
    exact ⟨rfl, inv, hf⟩
  | cons p ps ih =>
    intro v A f d r inv hf h
    simp only [modifyFullAuxS] at h
    cases hg : getpReleaseS A f p v with
    | none => simp [hg] at h
    | some g =>
      obtain ⟨x', A1, f1⟩ := g
      simp only [hg] at h
      obtain ⟨x, hx, hA1, hxabs, hff1, _⟩ := getpReleaseS_eq A f p v x' A1 f1 hg
      have hxa : getpathS p (abs v) = some (abs x') := by rw [getpS_abs p v x hx, hxabs]
      have hx'f := getpReleaseS_holeFree A f p v x' A1 f1 hg hf
      have hab := habs x' f1
      cases hqx : q x' f1 with
      | none =>
        simp only [hqx] at h
        rw [hqx] at hab
        simp only [Option.map_none] at hab
        have R := relS_ok A p v x hx inv.top inv.uniq
        rw [← hA1] at R
        have inv' : Inv A1 f1 v :=
          ⟨fun a ha => inv.uniq a (R.sub a ha), R.tcv, fun j hj => by have := inv.hv j hj; omega,
           fun a ha => by have := inv.hA a (R.sub a ha); omega⟩
        obtain ⟨g1, g2⟩ := ih v A1 f1 (d ++ [p]) r inv' hf h
        refine ⟨?_, g2⟩
        simp only [modifyVAuxS, hxa, ← hab]
        exact g1
      | some nf =>
        obtain ⟨n, f2⟩ := nf
        simp only [hqx] at h
        rw [hqx] at hab
        simp only [Option.map_some] at hab
        cases hu : updS A1 f2 p v n with
        | none => simp [hu] at h
        | some r1 =>
          obtain ⟨v', A', f', log⟩ := r1
          simp only [hu] at h
          have hstep : modifyStepS (totalise q) (v, A, f) p = some (v', A', f', log) := by
            simp only [modifyStepS, hg, totalise, hqx, Option.getD_some]
            exact hu
          obtain ⟨inv', hcons, _, ⟨x2, A2, f3, hg2, _, hset⟩, _⟩ :=
            modifyStepS_sound (totalise q) (totalise_ok q hq) v A f p v' A' f' log hstep inv
          rw [hg] at hg2
          simp only [Option.some.injEq, Prod.mk.injEq] at hg2
          obtain ⟨rfl, rfl, rfl⟩ := hg2
          simp only [totalise, hqx, Option.getD_some] at hset
          rw [applyLog_id log v' hcons] at h
          have hnf : holeFree n := (hq x' f1 n f2 hqx).2.2 hx'f
          have hv'f : holeFree v' := updS_holeFree p v n _ _ _ hu hf hnf
          obtain ⟨g1, g2⟩ := ih v' A' f' d r inv' hv'f h
          refine ⟨?_, g2⟩
          simp only [modifyVAuxS, hxa, ← hab, hset]
          exact g1

/-- **`_modify` in full refines its defining reduction**, paths with slices -/
theorem modifyFullS_sound (q : T → Nat → Option (T × Nat)) (qv : JV → Option JV) (hq : QOK' q)
    (habs : ∀ x f, (q x f).map (fun r => abs r.1) = qv (abs x))
    (ps : List PathS) (v : T) (f : Nat) (hv : ∀ j ∈ v.ids, j < f) (hf : holeFree v)
    (r : T) (h : modifyFullS q ps v f = some r) : modifyVFullS qv ps (abs v) = some (abs r) := by
  simp only [modifyFullS] at h
  split at h
  · cases h
  · rename_i v' A' f' d haux
    obtain ⟨g1, g2, g3⟩ := modifyFullAuxS_sound q qv hq habs ps v [] f [] _ (inv_empty v f hv) hf haux
    simp only [Option.map_eq_some_iff] at h
    obtain ⟨r', hr', rfl⟩ := h
    simp only [modifyVFullS, g1, Option.bind_some]
    exact delpathsST_abs A' f' d v' r' g3 g2.hv g2.hA hr'

end Gojq.Heap

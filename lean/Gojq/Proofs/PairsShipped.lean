/-
  Helper lemmas for Props/C13Shipped.lean, part 1: the value-level description of a depth-first
  walk (`nodes`: relative path and sub-value of every node, pre- or post-order), the states the
  evaluator produces for those nodes in BOTH modes (`desc`: with and without path tracking), and
  the generic walk theorem `walk_val`: any fuel-indexed function that unfolds like
  `def r: ., (.[]? | r)` (pre-order) or `def r: (.[]? | r), .` (post-order) emits exactly the
  states of `nodes`, in order, for every value and every fuel from `C * (depth v + 1)` on.
  Core Lean only.
-/
import Gojq.Proofs.SpecPathUnfold
import Gojq.Proofs.SpecLaws
import Gojq.Model.Pairs
namespace Gojq.Pairs
open Gojq Gojq.Spec

/-! ### structural equality is reflexive -/

mutual
theorem JV.beq_rfl : ∀ a : JV, JV.beq a a = true
  | .null => rfl
  | .bool b => by simp [JV.beq]
  | .num n => by simp [JV.beq]
  | .str s => by simp [JV.beq]
  | .arr xs => by simp only [JV.beq]; exact JV.beqList_rfl xs
  | .obj kvs => by simp only [JV.beq]; exact JV.beqKvs_rfl kvs
theorem JV.beqList_rfl : ∀ a : List JV, JV.beqList a a = true
  | [] => rfl
  | x :: xs => by simp only [JV.beqList, JV.beq_rfl x, JV.beqList_rfl xs, Bool.and_self]
theorem JV.beqKvs_rfl : ∀ a : List (Bytes × JV), JV.beqKvs a a = true
  | [] => rfl
  | (k, x) :: xs => by simp only [JV.beqKvs, JV.beq_rfl x, JV.beqKvs_rfl xs, beq_self_eq_true, Bool.and_self]
end

theorem JV.beq_self (a : JV) : (a == a) = true := JV.beq_rfl a

theorem JVList.beq_self : ∀ p : List JV, (p == p) = true
  | [] => rfl
  | x :: xs => by
    show (x == x && xs == xs) = true
    rw [JV.beq_self x, JVList.beq_self xs]; rfl

theorem identEq_self (r : Nat) (p : List JV) : identEq (.known r p) (.known r p) = some true := by
  simp only [identEq, beq_self_eq_true, if_true, JVList.beq_self, Bool.or_self]
  split <;> rfl

/-! ### the states of a walk -/

/-- the state of the descendant reached by the relative path `q` from `s`, holding `w` — in both
    modes: without tracking (`s.ctx = none`) the identity is extended; with tracking the recorded
    path is extended too and the value last navigated to is `w` itself -/
def desc (s : St) (q : List JV) (w : JV) : St :=
  { v := w, id := q.foldl childIdent s.id,
    ctx := s.ctx.map fun c => { path := c.path ++ q, w := w, wid := q.foldl childIdent s.id } }

/-- a state a walk may start from: no pending `?//` alternative and, when paths are tracked, the
    value is the value last navigated to and its identity is a known location -/
structure Trk (s : St) : Prop where
  pend : s.pend = false
  ctx : ∀ c, s.ctx = some c → c.w = s.v ∧ c.wid = s.id ∧ ∃ r p, s.id = .known r p

theorem foldl_childIdent_known (r : Nat) : ∀ (q p : List JV), q.foldl childIdent (.known r p) = .known r (p ++ q)
  | [], p => by simp
  | k :: q, p => by
    simp only [List.foldl_cons, childIdent, foldl_childIdent_known r q (p ++ [k]), List.append_assoc, List.singleton_append]

theorem Trk.desc {s : St} (h : Trk s) (q : List JV) (w : JV) : Trk (desc s q w) := by
  refine ⟨rfl, ?_⟩
  intro c hc
  cases hs : s.ctx with
  | none => simp [Pairs.desc, hs] at hc
  | some c0 =>
    obtain ⟨_, _, r, p, hid⟩ := h.ctx c0 hs
    simp only [Pairs.desc, hs, Option.map_some, Option.some.injEq] at hc
    subst hc
    exact ⟨rfl, rfl, r, p ++ q, by simp only [Pairs.desc, hid, foldl_childIdent_known]⟩

theorem desc_desc (s : St) (q q' : List JV) (w w' : JV) : desc (desc s q w) q' w' = desc s (q ++ q') w' := by
  cases hs : s.ctx <;> simp [desc, hs, List.foldl_append, List.append_assoc]

theorem desc_nil {s : St} (h : Trk s) : desc s [] s.v = s := by
  rcases s with ⟨v, id, ctx, pend⟩
  have hp : pend = false := h.pend
  subst hp
  cases ctx with
  | none => rfl
  | some c =>
    obtain ⟨h1, h2, _⟩ := h.ctx c rfl
    rcases c with ⟨path, w, wid⟩
    simp only at h1 h2
    subst h1 h2
    simp [desc]

theorem one_bind_nopend (s : St) (f : St → Res) (h : s.pend = false) : (Res.one s).bind f = f s := by
  rw [one_bind_wrap, pendWrap, h]; rfl

/-! ### `.[]` from a walk state -/

/-- the (key, value) pairs of an array from index `i` on -/
def itemsFrom : Nat → List JV → List (JV × JV)
  | _, [] => []
  | i, x :: xs => (jvInt (i : Nat), x) :: itemsFrom (i + 1) xs

theorem itemsFrom_eq : ∀ (xs : List JV) (i : Nat),
    ((List.range' i xs.length).zip xs).map (fun (p : Nat × JV) => (jvInt (p.1 : Nat), p.2)) = itemsFrom i xs
  | [], _ => rfl
  | x :: xs, i => by
    simp only [List.length_cons, List.range'_succ, List.zip_cons_cons, List.map_cons, itemsFrom, itemsFrom_eq xs (i + 1)]

theorem iterItems_arr (xs : List JV) : iterItems (.arr xs) = some (itemsFrom 0 xs) := by
  simp only [iterItems, List.range_eq_range']
  rw [← itemsFrom_eq xs 0]

/-- the members of an object as (key, value) pairs -/
def itemsOf (kvs : List (Bytes × JV)) : List (JV × JV) := kvs.map fun (k, x) => (JV.str k, x)

theorem iterItems_obj (kvs : List (Bytes × JV)) : iterItems (.obj kvs) = some (itemsOf kvs) := rfl

theorem pathIntact_container (s : St) (c : PCtx) (items : List (JV × JV)) (hi : iterItems s.v = some items)
    (hw : c.w = s.v) (hwid : c.wid = s.id) (r : Nat) (p : List JV) (hid : s.id = .known r p) :
    pathIntact s c = some true := by
  rcases s with ⟨v, id, ctx, pend⟩
  rcases c with ⟨path, w, wid⟩
  simp only at hw hwid hid hi
  subst hw hwid hid
  cases w with
  | arr a =>
    simp only [pathIntact, identEq_self, bne_self_eq_false, Bool.false_eq_true, if_false, Bool.and_self]
    split <;> rfl
  | obj a => simp only [pathIntact, identEq_self, bne_self_eq_false, Bool.false_eq_true, if_false]
  | null => simp [iterItems] at hi
  | bool _ => simp [iterItems] at hi
  | num _ => simp [iterItems] at hi
  | str _ => simp [iterItems] at hi

/-- `.[]` on a container, in both modes: the children in order -/
theorem iterate_trk (s : St) (h : Trk s) (items : List (JV × JV)) (hi : iterItems s.v = some items) :
    iterate s = ⟨items.map fun kw => desc s [kw.1] kw.2, .done⟩ := by
  cases hs : s.ctx with
  | none =>
    simp only [iterate, hi, hs]
    congr 1
    apply List.map_congr_left
    intro kw _
    simp [desc, hs]
  | some c =>
    obtain ⟨h1, h2, r, p, hid⟩ := h.ctx c hs
    simp only [iterate, hi, hs, pathIntact_container s c items hi h1 h2 r p hid]
    congr 1
    apply List.map_congr_left
    intro kw _
    simp [desc, hs, h2]

/-- `.[]?` on a scalar: nothing -/
theorem iterate_scalar (s : St) (hi : iterItems s.v = none) : catchAll (iterate s) = ⟨[], .done⟩ := by
  simp only [iterate, hi, Res.fail, catchAll]

theorem catchAll_done (outs : List St) : catchAll ⟨outs, .done⟩ = ⟨outs, .done⟩ := rfl

/-! ### the nodes of a value, depth first -/

mutual
/-- (relative path, sub-value) of every node below the reversed prefix `rp`, depth first, the node
    itself before (`post = false`) or after (`post = true`) its children -/
def nodes (post : Bool) (rp : List JV) : JV → List (List JV × JV)
  | .arr xs => if post then nodesL post rp 0 xs ++ [(rp.reverse, .arr xs)] else (rp.reverse, .arr xs) :: nodesL post rp 0 xs
  | .obj kvs => if post then nodesM post rp kvs ++ [(rp.reverse, .obj kvs)] else (rp.reverse, .obj kvs) :: nodesM post rp kvs
  | .null => [(rp.reverse, .null)]
  | .bool b => [(rp.reverse, .bool b)]
  | .num n => [(rp.reverse, .num n)]
  | .str s => [(rp.reverse, .str s)]
def nodesL (post : Bool) (rp : List JV) (i : Nat) : List JV → List (List JV × JV)
  | [] => []
  | x :: xs => nodes post (jvInt (i : Nat) :: rp) x ++ nodesL post rp (i + 1) xs
def nodesM (post : Bool) (rp : List JV) : List (Bytes × JV) → List (List JV × JV)
  | [] => []
  | (k, x) :: kvs => nodes post (.str k :: rp) x ++ nodesM post rp kvs
end

mutual
/-- nesting depth: 0 for scalars, 1 for a container of scalars (or an empty one), … -/
def depth : JV → Nat
  | .arr xs => depthL xs + 1
  | .obj kvs => depthM kvs + 1
  | .null => 0
  | .bool _ => 0
  | .num _ => 0
  | .str _ => 0
def depthL : List JV → Nat
  | [] => 0
  | x :: xs => max (depth x) (depthL xs)
def depthM : List (Bytes × JV) → Nat
  | [] => 0
  | (_, x) :: kvs => max (depth x) (depthM kvs)
end

/-- the state of a node -/
def descN (s0 : St) (n : List JV × JV) : St := desc s0 n.1 n.2

/-- one unfolding of the walk: the node and the walk of its children, in the order `post` says -/
def stepRes (post : Bool) (s : St) (k : St → Res) : Res :=
  if post then ((catchAll (iterate s)).bind k).append fun _ => .one s
  else (Res.one s).append fun _ => (catchAll (iterate s)).bind k

theorem stepRes_leaf (post : Bool) (s : St) (k : St → Res) (hi : iterItems s.v = none) : stepRes post s k = .one s := by
  simp only [stepRes, iterate_scalar s hi]
  cases post <;> rfl

theorem stepRes_node (post : Bool) (s : St) (k : St → Res) (outs : List St) (sts : List St)
    (hi : catchAll (iterate s) = ⟨sts, .done⟩) (hk : Res.bindList k .done sts = ⟨outs, .done⟩) :
    stepRes post s k = ⟨if post then outs ++ [s] else s :: outs, .done⟩ := by
  simp only [stepRes, hi, Res.bind, hk]
  cases post <;> rfl

section walk
variable (R : Nat → St → Res) (C : Nat) (post : Bool)
variable (hstep : ∀ n s, Trk s → R (n + C) s = stepRes post s (R n))
variable (s0 : St) (h0 : Trk s0)
include hstep h0

mutual
/-- **the walk theorem**: with fuel `C * (depth v + 1)` or more, `R` started at the node below `rp`
    holding `v` emits exactly the states of `nodes post rp v`, in order, and ends normally -/
theorem walk_val : ∀ (v : JV) (rp : List JV) (m : Nat), C * (depth v + 1) ≤ m →
    R m (desc s0 rp.reverse v) = ⟨(nodes post rp v).map (descN s0), .done⟩
  | .null, rp, m, hm => by
    obtain ⟨n, rfl⟩ : ∃ n, m = n + C := ⟨m - C, by simp only [depth, Nat.zero_add, Nat.mul_one] at hm; omega⟩
    rw [hstep n _ (h0.desc _ _), stepRes_leaf _ _ _ rfl]; rfl
  | .bool b, rp, m, hm => by
    obtain ⟨n, rfl⟩ : ∃ n, m = n + C := ⟨m - C, by simp only [depth, Nat.zero_add, Nat.mul_one] at hm; omega⟩
    rw [hstep n _ (h0.desc _ _), stepRes_leaf _ _ _ rfl]; rfl
  | .num x, rp, m, hm => by
    obtain ⟨n, rfl⟩ : ∃ n, m = n + C := ⟨m - C, by simp only [depth, Nat.zero_add, Nat.mul_one] at hm; omega⟩
    rw [hstep n _ (h0.desc _ _), stepRes_leaf _ _ _ rfl]; rfl
  | .str x, rp, m, hm => by
    obtain ⟨n, rfl⟩ : ∃ n, m = n + C := ⟨m - C, by simp only [depth, Nat.zero_add, Nat.mul_one] at hm; omega⟩
    rw [hstep n _ (h0.desc _ _), stepRes_leaf _ _ _ rfl]; rfl
  | .arr xs, rp, m, hm => by
    simp only [depth, Nat.mul_succ] at hm
    obtain ⟨n, rfl⟩ : ∃ n, m = n + C := ⟨m - C, by omega⟩
    have hn : C * (depthL xs + 1) ≤ n := by simp only [Nat.mul_succ]; omega
    have hit := iterate_trk (desc s0 rp.reverse (.arr xs)) (h0.desc _ _) _ (iterItems_arr xs)
    have hkids := walk_list xs rp 0 n hn
    rw [hstep n _ (h0.desc _ _)]
    rw [stepRes_node post _ _ ((nodesL post rp 0 xs).map (descN s0)) _ (by rw [hit]; rfl)
      (by simpa only [desc_desc, List.reverse_cons, List.map_map] using hkids)]
    simp only [nodes]
    cases post <;> simp [descN]
  | .obj kvs, rp, m, hm => by
    simp only [depth, Nat.mul_succ] at hm
    obtain ⟨n, rfl⟩ : ∃ n, m = n + C := ⟨m - C, by omega⟩
    have hn : C * (depthM kvs + 1) ≤ n := by simp only [Nat.mul_succ]; omega
    have hit := iterate_trk (desc s0 rp.reverse (.obj kvs)) (h0.desc _ _) _ (iterItems_obj kvs)
    have hkids := walk_mem kvs rp n hn
    rw [hstep n _ (h0.desc _ _)]
    rw [stepRes_node post _ _ ((nodesM post rp kvs).map (descN s0)) _ (by rw [hit]; rfl)
      (by simpa only [desc_desc, List.reverse_cons, List.map_map, itemsOf] using hkids)]
    simp only [nodes]
    cases post <;> simp [descN]
theorem walk_list : ∀ (xs : List JV) (rp : List JV) (i n : Nat), C * (depthL xs + 1) ≤ n →
    Res.bindList (R n) .done ((itemsFrom i xs).map fun kw => desc s0 (kw.1 :: rp).reverse kw.2) =
      ⟨(nodesL post rp i xs).map (descN s0), .done⟩
  | [], _, _, _, _ => rfl
  | x :: xs, rp, i, n, hn => by
    have hx : C * (depth x + 1) ≤ n :=
      Nat.le_trans (Nat.mul_le_mul_left C (by simp only [depthL]; omega)) hn
    have hxs : C * (depthL xs + 1) ≤ n :=
      Nat.le_trans (Nat.mul_le_mul_left C (by simp only [depthL]; omega)) hn
    simp only [itemsFrom, List.map_cons]
    rw [bindList_cons_nopend _ _ _ _ rfl, walk_val x (jvInt (i : Nat) :: rp) n hx, walk_list xs rp (i + 1) n hxs]
    simp only [nodesL, List.map_append]
theorem walk_mem : ∀ (kvs : List (Bytes × JV)) (rp : List JV) (n : Nat), C * (depthM kvs + 1) ≤ n →
    Res.bindList (R n) .done ((itemsOf kvs).map fun kw => desc s0 (kw.1 :: rp).reverse kw.2) =
      ⟨(nodesM post rp kvs).map (descN s0), .done⟩
  | [], _, _, _ => rfl
  | (k, x) :: kvs, rp, n, hn => by
    have hx : C * (depth x + 1) ≤ n :=
      Nat.le_trans (Nat.mul_le_mul_left C (by simp only [depthM]; omega)) hn
    have hxs : C * (depthM kvs + 1) ≤ n :=
      Nat.le_trans (Nat.mul_le_mul_left C (by simp only [depthM]; omega)) hn
    simp only [itemsOf, List.map_cons]
    rw [bindList_cons_nopend _ _ _ _ rfl, walk_val x (.str k :: rp) n hx]
    have := walk_mem kvs rp n hxs
    simp only [itemsOf] at this
    rw [this]
    simp only [nodesM, List.map_append]
end

/-- the walk from the start state itself -/
theorem walk_root (m : Nat) (hm : C * (depth s0.v + 1) ≤ m) :
    R m s0 = ⟨(nodes post [] s0.v).map (descN s0), .done⟩ := by
  have := walk_val R C post hstep s0 h0 s0.v [] m hm
  rwa [List.reverse_nil, desc_nil h0] at this

end walk

end Gojq.Pairs

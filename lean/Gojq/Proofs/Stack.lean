/-
  The persistent stack of stack.go refines an immutable list (C01.1): invariant and the
  one-step simulation.  Proved directly on the literal (unshifted, `Int`-indexed) model.
  Core Lean only.
-/
import Gojq.Model.Stack
namespace Gojq.Stack

variable {α : Type}

/-- every block points strictly below itself (or to -1) -/
def WFd (data : Array (Block α)) : Prop :=
  ∀ i (h : i < data.size), -1 ≤ data[i].next ∧ data[i].next < (i : Int)

theorem getBlock?_of_lt {data : Array (Block α)} {i : Int} (h0 : 0 ≤ i) (h1 : i < data.size) :
    getBlock? data i = some (data[i.toNat]'(by omega)) := by
  unfold getBlock?
  rw [if_neg (by omega)]
  exact Array.getElem?_eq_getElem (by omega)

theorem getBlock?_neg {data : Array (Block α)} {i : Int} (h0 : i < 0) : getBlock? data i = none := by
  unfold getBlock?; rw [if_pos h0]

theorem chain_neg (data : Array (Block α)) (fuel : Nat) {i : Int} (h : i < 0) : chain data fuel i = [] := by
  cases fuel with
  | zero => rfl
  | succ n => simp [chain, getBlock?_neg h]

/-- under `WFd`, any fuel above the start position gives the same chain -/
theorem chain_fuel (data : Array (Block α)) (hw : WFd data) :
    ∀ (fuel : Nat) (t : Int), -1 ≤ t → t < fuel → t < data.size → chain data fuel t = chainFrom data t := by
  intro fuel
  induction fuel using Nat.strongRecOn with
  | _ fuel ih =>
    intro t ht0 htf hts
    unfold chainFrom
    by_cases hneg : t < 0
    · rw [chain_neg _ _ hneg, chain_neg _ _ hneg]
    · cases fuel with
      | zero => omega
      | succ fuel =>
        have e : (t + 1).toNat = t.toNat + 1 := by omega
        rw [e]
        have hlt : t.toNat < data.size := by omega
        simp only [chain, getBlock?_of_lt (by omega : 0 ≤ t) hts]
        have hn := hw t.toNat hlt
        congr 1
        rw [ih fuel (by omega) _ hn.1 (by omega) (by omega), ih t.toNat (by omega) _ hn.1 (by omega) (by omega)]

/-- chains depend only on the positions `≤ t` -/
theorem chain_agree (d d' : Array (Block α)) (hw : WFd d) :
    ∀ (fuel : Nat) (t : Int), t < d.size → t < d'.size →
      (∀ (i : Nat) (_ : (i : Int) ≤ t) (h1 : i < d.size) (h2 : i < d'.size), d[i] = d'[i]) →
      chain d fuel t = chain d' fuel t := by
  intro fuel
  induction fuel with
  | zero => intro t _ _ _; rfl
  | succ fuel ih =>
    intro t h1 h2 hag
    by_cases hneg : t < 0
    · rw [chain_neg _ _ hneg, chain_neg _ _ hneg]
    · have a1 : t.toNat < d.size := by omega
      have a2 : t.toNat < d'.size := by omega
      have e := hag t.toNat (by omega) a1 a2
      simp only [chain, getBlock?_of_lt (by omega : 0 ≤ t) h1, getBlock?_of_lt (by omega : 0 ≤ t) h2, ← e]
      congr 1
      have hn := hw t.toNat a1
      exact ih _ (by omega) (by omega) (fun i hi x y => hag i (by omega) x y)

theorem chainFrom_agree (d d' : Array (Block α)) (hw : WFd d) (t : Int) (h1 : t < d.size) (h2 : t < d'.size)
    (hag : ∀ (i : Nat) (_ : (i : Int) ≤ t) (h1 : i < d.size) (h2 : i < d'.size), d[i] = d'[i]) :
    chainFrom d t = chainFrom d' t :=
  chain_agree d d' hw _ t h1 h2 hag

/-- snapshots, most recent first, each protected by the limit in force after it: the
    snapshot `(t, l)` lies at positions `≤ lim`, still denotes the list saved with it, and the
    older snapshots are protected by ITS limit `l` -/
def SnapsOK (data : Array (Block α)) : Int → List (Int × Int) → List (List α) → Prop
  | _, [], [] => True
  | lim, (t, l) :: sn, c :: sv =>
    -1 ≤ t ∧ -1 ≤ l ∧ max t l ≤ lim ∧ chainFrom data t = c ∧ SnapsOK data l sn sv
  | _, _, _ => False

/-- the refinement invariant between the Go structure with its outstanding snapshots and the
    immutable list with its saved lists -/
structure Inv (s : Stack α) (sn : List (Int × Int)) (cur : List α) (sv : List (List α)) : Prop where
  wf : WFd s.data
  idx_lo : -1 ≤ s.index
  idx_hi : s.index < s.data.size
  lim_lo : -1 ≤ s.limit
  lim_hi : s.limit < s.data.size
  abs_eq : s.abs = cur
  snaps : SnapsOK s.data s.limit sn sv

theorem SnapsOK.mono_data {d d' : Array (Block α)} (hw : WFd d) (hsz : d.size ≤ d'.size) :
    ∀ {lim : Int} {sn sv}, lim < d.size →
      (∀ (i : Nat) (_ : (i : Int) ≤ lim) (h1 : i < d.size) (h2 : i < d'.size), d[i] = d'[i]) →
      SnapsOK d lim sn sv → SnapsOK d' lim sn sv := by
  intro lim sn
  induction sn generalizing lim with
  | nil => intro sv _ _ h; cases sv <;> simp_all [SnapsOK]
  | cons p sn ih =>
    intro sv hl hag h
    obtain ⟨t, l⟩ := p
    cases sv with
    | nil => simp [SnapsOK] at h
    | cons c sv =>
      simp only [SnapsOK] at h ⊢
      obtain ⟨h0, h0', h1, h2, h3⟩ := h
      refine ⟨h0, h0', h1, ?_, ih (by omega) (fun i hi a b => hag i (by omega) a b) h3⟩
      rw [← h2]
      exact (chainFrom_agree d d' hw t (by omega) (by omega) (fun i hi a b => hag i (by omega) a b)).symm

theorem SnapsOK.mono_lim {d : Array (Block α)} :
    ∀ {lim lim' : Int} {sn sv}, lim ≤ lim' → SnapsOK d lim sn sv → SnapsOK d lim' sn sv := by
  intro lim lim' sn sv hl h
  cases sn with
  | nil => cases sv <;> simp_all [SnapsOK]
  | cons p sn =>
    obtain ⟨t, l⟩ := p
    cases sv with
    | nil => simp [SnapsOK] at h
    | cons c sv =>
      simp only [SnapsOK] at h ⊢
      exact ⟨h.1, h.2.1, by omega, h.2.2.2⟩

/-- `push` never panics under the invariant, and what it returns -/
theorem push_eq {s : Stack α} (lo : -1 ≤ s.index) (ll : -1 ≤ s.limit) (v : α) :
    s.push v = some
      (if max s.index s.limit + 1 < s.data.size then
        { data := s.data.setIfInBounds (max s.index s.limit + 1).toNat ⟨v, s.index⟩,
          index := max s.index s.limit + 1, limit := s.limit }
       else { data := s.data.push ⟨v, s.index⟩, index := max s.index s.limit + 1, limit := s.limit }) := by
  unfold Stack.push
  simp only []
  split
  · rw [if_neg (by omega)]
  · rfl

/-- one operation: if the list-level step is defined, so is the Go step, and the invariant is
    carried over -/
theorem step_refines {s : Stack α} {sn cur sv} (inv : Inv s sn cur sv) (op : Op α) {cur' sv'}
    (hs : specStep (cur, sv) op = some (cur', sv')) :
    ∃ s' sn', implStep (s, sn) op = some (s', sn') ∧ Inv s' sn' cur' sv' := by
  obtain ⟨wf, il, ih, ll, lh, ab, snp⟩ := inv
  cases op with
  | push v =>
    simp only [specStep, Option.some.injEq, Prod.mk.injEq] at hs
    obtain ⟨rfl, rfl⟩ := hs
    simp only [implStep, push_eq il ll, Option.map_some]
    refine ⟨_, _, rfl, ?_⟩
    generalize hpos : max s.index s.limit + 1 = pos
    have hp0 : 0 ≤ pos := by omega
    have hpi : s.index < pos := by omega
    have hpl : s.limit < pos := by omega
    split
    · rename_i hlt
      -- overwrite a free block above both the top and the limit
      have hsz : (s.data.setIfInBounds pos.toNat ⟨v, s.index⟩).size = s.data.size := by simp
      have hag : ∀ (i : Nat) (_ : (i : Int) < pos) (h1 : i < s.data.size)
          (h2 : i < (s.data.setIfInBounds pos.toNat ⟨v, s.index⟩).size),
          s.data[i] = (s.data.setIfInBounds pos.toNat ⟨v, s.index⟩)[i] := by
        intro i hi h1 h2
        rw [Array.getElem_setIfInBounds]
        split
        · omega
        · rfl
      have wf' : WFd (s.data.setIfInBounds pos.toNat ⟨v, s.index⟩) := by
        intro i hi
        rw [Array.getElem_setIfInBounds]
        split
        · rename_i he; simp only []; omega
        · exact wf i (by simpa using hi)
      refine ⟨wf', by simp only []; omega, by simp only [hsz]; omega, ll, by simp only [hsz]; omega, ?_, ?_⟩
      · simp only [Stack.abs, chainFrom]
        have e : (pos + 1).toNat = pos.toNat + 1 := by omega
        rw [e]
        simp only [chain]
        rw [getBlock?_of_lt hp0 (by simp only [hsz]; omega)]
        have hget : (s.data.setIfInBounds pos.toNat ⟨v, s.index⟩)[pos.toNat]'(by simp only [hsz]; omega)
            = ⟨v, s.index⟩ := by simp
        simp only [hget]
        congr 1
        rw [chain_fuel _ wf' _ _ il (by omega) (by simp only [hsz]; omega)]
        rw [← ab]; simp only [Stack.abs]
        exact (chainFrom_agree _ _ wf _ ih (by simp only [hsz]; omega) (fun i hi a b => hag i (by omega) a b)).symm
      · exact SnapsOK.mono_data (lim := s.limit) wf (by simp) lh (fun i hi a b => hag i (by omega) a b) snp
    · rename_i hge
      have hpe : pos = s.data.size := by omega
      have hag : ∀ (i : Nat) (_ : (i : Int) < pos) (h1 : i < s.data.size)
          (h2 : i < (s.data.push ⟨v, s.index⟩).size), s.data[i] = (s.data.push ⟨v, s.index⟩)[i] := by
        intro i hi h1 h2
        rw [Array.getElem_push]; split
        · rfl
        · omega
      have wf' : WFd (s.data.push ⟨v, s.index⟩) := by
        intro i hi
        rw [Array.getElem_push]; split
        · exact wf i _
        · simp at hi ⊢; omega
      have hsz : (s.data.push ⟨v, s.index⟩).size = s.data.size + 1 := by simp
      refine ⟨wf', by simp only []; omega, by simp only [hsz]; omega, ll, by simp only [hsz]; omega, ?_, ?_⟩
      · simp only [Stack.abs, chainFrom]
        have e : (pos + 1).toNat = pos.toNat + 1 := by omega
        rw [e]
        simp only [chain]
        rw [getBlock?_of_lt hp0 (by simp only [hsz]; omega)]
        have e2 : pos.toNat = s.data.size := by omega
        simp only [e2, Array.getElem_push_eq]
        congr 1
        rw [chain_fuel _ wf' _ _ il (by omega) (by simp only [hsz]; omega)]
        rw [← ab]; simp only [Stack.abs]
        exact (chainFrom_agree _ _ wf _ ih (by simp only [hsz]; omega) (fun i hi a b => hag i (by omega) a b)).symm
      · exact SnapsOK.mono_data (lim := s.limit) wf (by simp) lh (fun i hi a b => hag i (by omega) a b) snp
  | pop =>
    cases cur with
    | nil => simp [specStep] at hs
    | cons x cur0 =>
      simp only [specStep, Option.some.injEq, Prod.mk.injEq] at hs
      obtain ⟨rfl, rfl⟩ := hs
      simp only [Stack.abs, chainFrom] at ab
      by_cases hneg : s.index < 0
      · rw [chain_neg _ _ hneg] at ab; cases ab
      · have e : (s.index + 1).toNat = s.index.toNat + 1 := by omega
        rw [e] at ab
        have hlt : s.index.toNat < s.data.size := by omega
        simp only [chain, getBlock?_of_lt (by omega : 0 ≤ s.index) ih, List.cons.injEq] at ab
        obtain ⟨hv, hc⟩ := ab
        have hn := wf s.index.toNat hlt
        refine ⟨{ s with index := s.data[s.index.toNat].next }, sn, ?_, ?_⟩
        · simp [implStep, Stack.pop, getBlock?_of_lt (by omega : 0 ≤ s.index) ih, hv]
        · refine ⟨wf, hn.1, by simp only []; omega, ll, lh, ?_, snp⟩
          simp only [Stack.abs]
          rw [← hc]
          exact (chain_fuel _ wf _ _ hn.1 (by omega) (by omega)).symm
  | save =>
    simp only [specStep, Option.some.injEq, Prod.mk.injEq] at hs
    obtain ⟨rfl, rfl⟩ := hs
    refine ⟨_, _, rfl, ?_⟩
    simp only [Stack.save]
    split
    · rename_i hgt
      refine ⟨wf, il, ih, il, ih, ab, ?_⟩
      simp only [SnapsOK]
      exact ⟨il, ll, by omega, ab, snp⟩
    · rename_i hle
      refine ⟨wf, il, ih, ll, lh, ab, ?_⟩
      simp only [SnapsOK]
      exact ⟨il, ll, by omega, ab, snp⟩
  | restore =>
    cases sv with
    | nil => simp [specStep] at hs
    | cons c sv0 =>
      simp only [specStep, Option.some.injEq, Prod.mk.injEq] at hs
      obtain ⟨rfl, rfl⟩ := hs
      cases sn with
      | nil => simp [SnapsOK] at snp
      | cons p sn0 =>
        obtain ⟨t, l⟩ := p
        simp only [SnapsOK] at snp
        obtain ⟨h0, h0', h1, h2, h3⟩ := snp
        refine ⟨s.restore t l, sn0, rfl, ?_⟩
        exact ⟨wf, h0, by simp only [Stack.restore]; omega, h0', by simp only [Stack.restore]; omega,
          by simpa [Stack.abs, Stack.restore] using h2, h3⟩

/-! ### the witness that the last-in-first-out discipline is needed -/

/-- `push 1; A := save; push 2; B := save; restore A` (out of order: `B` is still outstanding);
    `push 3; restore B`.  Returns what `B` denoted when it was taken and what it denotes when
    it is finally restored. -/
def nonLifoRun : Option (List Int × List Int) := do
  let s0 : Stack Int := Stack.new
  let s1 ← s0.push 1
  let (a, s2) := s1.save
  let s3 ← s2.push 2
  let (b, s4) := s3.save
  let s5 := s4.restore a.1 a.2
  let s6 ← s5.push 3
  let s7 := s6.restore b.1 b.2
  pure (s4.abs, s7.abs)

end Gojq.Stack

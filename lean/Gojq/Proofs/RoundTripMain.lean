/-
  Round trip: the chain  print → lex → reference parse  on Printable queries.
-/
import Gojq.Proofs.RoundTripAll
import Gojq.Proofs.RoundTripLexItems
namespace Gojq.RefTerm
open Gojq

/-- print, lex, parse with the reference parser: the identity on Printable, Spaced queries -/
theorem roundtrip_ref (q : Query) (hp : Printable q = true) (hs : Spaced q = true) :
    ∃ F, ∀ f, F ≤ f → refParseQ f (tokensOf (printQ q)) = some q := by
  unfold printQ
  rw [tokensOf_render _ hs]
  exact refParse_items q hp

end Gojq.RefTerm

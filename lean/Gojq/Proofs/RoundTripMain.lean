/-
  Round trip: the chain  print → lex → reference parse  on Printable queries.
-/
import Gojq.Proofs.RoundTripAll
import Gojq.Proofs.RoundTripLexItems
import Gojq.Proofs.SpacedAll
namespace Gojq.RefTerm
open Gojq

/-- print, lex, parse with the reference parser: the identity on Printable, Spaced queries -/
theorem roundtrip_ref (q : Query) (hp : Printable q = true) (hs : Spaced q = true) :
    ∃ F, ∀ f, F ≤ f → refParseQ f (tokensOf (printQ q)) = some q := by
  unfold printQ
  rw [tokensOf_render _ hs]
  exact refParse_items q hp

/-- PRINT, LEX, PARSE: the identity on Printable queries (the adjacency condition follows from
    Printable: `spaced_of_printable`) -/
theorem roundtrip_printable (q : Query) (hp : Printable q = true) :
    ∃ F, ∀ f, F ≤ f → refParseQ f (tokensOf (printQ q)) = some q :=
  roundtrip_ref q hp (spaced_of_printable q hp)

end Gojq.RefTerm

/-
  Round trip: the chain  print → lex → reference parse  on Printable queries.
-/
import Gojq.Proofs.RoundTripAll
import Gojq.Proofs.RoundTripLexItems
import Gojq.Proofs.SpacedAll
import Gojq.Proofs.SpacedProgram
import Gojq.Proofs.RoundTripProgram
import Gojq.Proofs.RoundTripLexGaps
import Gojq.Proofs.RoundTripImage
import Gojq.Proofs.RoundTripImage6
import Gojq.Proofs.RoundTripStrLit
import Gojq.Proofs.LexImage4
import Gojq.Proofs.RoundTripImageProgram
namespace Gojq.RefTerm
open Gojq

/-- print, lex, parse with the reference parser: the identity on Printable, Spaced queries -/
theorem roundtrip_ref (q : Query) (hp : Printable q = true) (hs : Spaced q = true) :
    ∃ F, ∀ f, F ≤ f → refParseQ f (tokensOf (printQ q)) = some q := by
  unfold printQ
  rw [tokensOf_render _ hs]
  exact refParse_items q hp

/-- PRINT, LEX, PARSE: the identity on Printable queries (the adjacency condition follows from
    Printable: `spaced_of_printable`) -/
theorem roundtrip_printable (q : Query) (hp : Printable q = true) :
    ∃ F, ∀ f, F ≤ f → refParseQ f (tokensOf (printQ q)) = some q :=
  roundtrip_ref q hp (spaced_of_printable q hp)

/-- PRINT, LEX, PARSE for whole programs (module header, imports with metadata, then function
    definitions only or a query) -/
theorem roundtrip_program (p : Program) (hp : PrintableProgram p = true) :
    ∃ F, ∀ f, F ≤ f → refParseF f (printProgram p) = some p := by
  unfold refParseF printProgram
  rw [tokensOf_render _ (spaced_program p hp)]
  exact pProgram_items p hp

/-- FOR EVERY SOURCE THE REFERENCE PARSER ACCEPTS: print the AST, lex, parse — the same AST.  No
    side condition: what the lexer delivers is well-formed (`goodB_tokensOf`), what the reference
    parser builds from it is Printable (`refParse_printable`). -/
theorem roundtrip_of_accepted (src : Bytes) (f : Nat) (q : Query)
    (h : refParseQ f (tokensOf src) = some q) :
    ∃ F, ∀ f', F ≤ f' → refParseQ f' (tokensOf (printQ q)) = some q :=
  roundtrip_printable q (refParse_printable f _ q (good_of_goodB _ (goodB_tokensOf src)) h)

/-- what the reference parser returns on any source is Printable -/
theorem printable_of_accepted (src : Bytes) (f : Nat) (q : Query)
    (h : refParseQ f (tokensOf src) = some q) : Printable q = true :=
  refParse_printable f _ q (good_of_goodB _ (goodB_tokensOf src)) h

/-- what the reference parser returns on any program source is a Printable program -/
theorem printableProgram_of_accepted (src : Bytes) (f : Nat) (p : Program) (h : refParseF f src = some p) :
    PrintableProgram p = true :=
  pProgram_printable f _ p (good_of_goodB _ (goodB_tokensOf src)) h

/-- FOR EVERY PROGRAM SOURCE THE REFERENCE PARSER ACCEPTS: print, lex, parse — the same program -/
theorem roundtrip_program_of_accepted (src : Bytes) (f : Nat) (p : Program) (h : refParseF f src = some p) :
    ∃ F, ∀ f', F ≤ f' → refParseF f' (printProgram p) = some p :=
  roundtrip_program p (printableProgram_of_accepted src f p h)

end Gojq.RefTerm

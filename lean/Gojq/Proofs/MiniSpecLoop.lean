/-
  Helper lemmas for Props/C01Tie.lean, part 2: the state-threading loops.  `Spec.eval` runs
  `reduce` as a fold of `reduceStep` over the outputs of the source and `foreach` as the
  accumulator-passing `foreachLoop` / `foreachEnvs` / `foreachOuts`; the mini reference evaluator
  uses the recursive `reduceL` / `foreachL`.  With a variable pattern (one environment per source
  output, never an error) the two agree in the sense of `Rel` (Proofs/MiniSpecRel.lean).
  Core Lean only.
-/
import Gojq.Proofs.MiniSpecRel
namespace Gojq.MiniSpec
open Gojq Gojq.MiniVM

/-! ### `reduce` -/

/-- `Spec.reduceStep` for a variable pattern: one update per source output -/
def redStepS (upd : Spec.St → JV → Spec.Ident → Spec.Res) (acc : Except Spec.Stop (JV × Spec.Ident)) (x : Spec.St) :
    Except Spec.Stop (JV × Spec.Ident) :=
  match acc with
  | .error e => .error e
  | .ok (sv, sid) =>
    match (upd x sv sid).stop with
    | .done => (match (upd x sv sid).outs.getLast? with
      | some l => .ok (l.v, l.id)
      | none => .ok (sv, sid))
    | st => .error st

theorem pendStop_false (st : Spec.Stop) : Spec.pendStop false st = st := by
  cases st <;> rfl

theorem reduceStep_var (envOf : Spec.St → Spec.Env) (upd : Spec.St → Spec.Env → JV → Spec.Ident → Spec.Res)
    (acc : Except Spec.Stop (JV × Spec.Ident)) (x : Spec.St) (hx : x.pend = false) :
    Spec.reduceStep (fun x => Spec.PatRes.ok [envOf x]) upd acc x =
      redStepS (fun x sv sid => upd x (envOf x) sv sid) acc x := by
  unfold Spec.reduceStep redStepS
  cases acc with
  | error e => rfl
  | ok st =>
    rcases st with ⟨sv, sid⟩
    simp only [Spec.PatRes.ok, List.foldl, hx, pendStop_false]
    cases hs : (upd x (envOf x) sv sid).stop <;> simp only []
    cases (upd x (envOf x) sv sid).outs.getLast? <;> rfl

/-- the end of `reduce`: the folded state is the one output, unless the source or an update
    did not end normally -/
def redFinS (stop : Spec.Stop) (ctx : Option Spec.PCtx) (acc : Except Spec.Stop (JV × Spec.Ident)) : Spec.Res :=
  match acc with
  | .error st => ⟨[], st⟩
  | .ok (sv, sid) =>
    match stop with
    | .done => .one { v := sv, id := sid, ctx := ctx }
    | st => ⟨[], st⟩

theorem reduceL_head_nd {upd : V → V → MiniVM.Res} {final : MiniVM.Stop} {w : V} {ws : List V} {s : V}
    (h : ND (reduceL upd final (w :: ws) s).stop) : ND (upd w s).stop := by
  unfold reduceL at h
  rcases hu : upd w s with ⟨o, st⟩
  rw [hu] at h
  cases st <;> simp_all [ND]

theorem getLast?_vals (o : List Spec.St) : (vals o).getLast? = o.getLast?.map (·.v) := by
  simp [vals, List.getLast?_map]

theorem Rel.reduce {b : Bool} (step : Except Spec.Stop (JV × Spec.Ident) → Spec.St → Except Spec.Stop (JV × Spec.Ident))
    (updS : Spec.St → JV → Spec.Ident → Spec.Res) (updm : V → V → MiniVM.Res)
    (hstep : ∀ acc x, x.pend = false → step acc x = redStepS updS acc x)
    (hupd : ∀ x sv sid, Clean x → ND (updm x.v sv).stop → Rel b (updS x sv sid) (updm x.v sv)) :
    ∀ (outs : List Spec.St) (st : Spec.Stop) (ym : List V) (stM : MiniVM.Stop) (sv : V) (sid : Spec.Ident),
      Rel b ⟨outs, st⟩ ⟨ym, stM⟩ → ND (reduceL updm stM ym sv).stop →
      Rel b (redFinS st none (outs.foldl step (.ok (sv, sid)))) (reduceL updm stM ym sv) := by
  have herr : ∀ (outs : List Spec.St) (e : Spec.Stop), (∀ x ∈ outs, Clean x) → outs.foldl step (.error e) = .error e := by
    intro outs e
    induction outs with
    | nil => intro _; rfl
    | cons x xs ih =>
      intro hc
      rw [List.foldl_cons, hstep _ _ (hc x (by simp)).2]
      exact ih (fun y hy => hc y (by simp [hy]))
  intro outs
  induction outs with
  | nil =>
    intro st ym stM sv sid h _
    simp only [List.foldl_nil]
    cases h with
    | done => exact Rel.one { v := sv, id := sid, ctx := none } ⟨rfl, rfl⟩
    | err _ e => exact .err [] e (by simp)
    | indef _ _ _ hc hi hp hb =>
      unfold redFinS
      cases st with
      | done => exact absurd rfl hi.ne_done
      | _ => exact .indef [] _ _ (by simp) hi List.nil_prefix hb
  | cons x xs ih =>
    intro st ym stM sv sid h hnd
    obtain ⟨ys, rfl, hx, htail⟩ := h.cons_inv
    have hndx := reduceL_head_nd hnd
    have hru := hupd x sv sid hx hndx
    rw [List.foldl_cons, hstep _ _ hx.2]
    unfold reduceL at hnd ⊢
    simp only [redStepS]
    generalize updS x sv sid = ru at hru ⊢
    generalize updm x.v sv = rum at hru hnd ⊢
    cases hru with
    | done o hc =>
      simp only [getLast?_vals] at hnd ⊢
      cases hl : o.getLast? with
      | none =>
        simp only [hl, Option.map_none, Option.getD_none] at hnd ⊢
        exact ih st ys stM sv sid htail hnd
      | some l =>
        simp only [hl, Option.map_some, Option.getD_some] at hnd ⊢
        exact ih st ys stM l.v l.id htail hnd
    | err o e hc =>
      simp only [herr xs _ htail.clean]
      exact .err [] e (by simp)
    | indef o s m hc hi hp hb =>
      cases s with
      | done => exact absurd rfl hi.ne_done
      | err e => exact absurd rfl (hi.ne_err e)
      | _ =>
        simp only [herr xs _ htail.clean]
        exact .indef [] _ _ (by simp) hi List.nil_prefix hb

/-! ### `foreach` -/

theorem foreachLoop_var (envOf : Spec.St → Spec.Env) (upd : Spec.St → Spec.Env → JV → Spec.Ident → Spec.Res)
    (ext : Spec.Env → Spec.St → Spec.Res) (final : Spec.Stop) (x : Spec.St) (rest : List Spec.St) (sv : JV)
    (sid : Spec.Ident) (acc : List Spec.St) (hx : x.pend = false) :
    Spec.foreachLoop (fun x => Spec.PatRes.ok [envOf x]) upd ext final (x :: rest) sv sid acc =
      (let ru := upd x (envOf x) sv sid
       let t := Spec.foreachOuts (ext (envOf x)) ru.stop ru.outs sv sid acc
       match t.1.stop with
       | .done => Spec.foreachLoop (fun x => Spec.PatRes.ok [envOf x]) upd ext final rest t.2.1 t.2.2 t.1.outs
       | st => ⟨t.1.outs, st⟩) := by
  simp only [Spec.foreachLoop, Spec.PatRes.ok, Spec.foreachEnvs, hx, pendStop_false]
  rcases ht : Spec.foreachOuts (ext (envOf x)) (upd x (envOf x) sv sid).stop (upd x (envOf x) sv sid).outs sv sid acc
    with ⟨⟨o, st⟩, sv', sid'⟩
  cases st <;> rfl

theorem getLast?_cons_getD (a d : V) (l : List V) : (a :: l).getLast?.getD d = l.getLast?.getD a := by
  simp [List.getLast?_cons]

theorem foreachOuts_rel {b : Bool} (extS : Spec.St → Spec.Res) (extm : V → MiniVM.Res)
    (hext : ∀ u, Clean u → ND (extm u.v).stop → Rel b (extS u) (extm u.v)) :
    ∀ (us : List Spec.St) (finalS : Spec.Stop) (um : List V) (finalM : MiniVM.Stop) (sv : JV) (sid : Spec.Ident)
      (acc : List Spec.St), (∀ x ∈ acc, Clean x) → Rel b ⟨us, finalS⟩ ⟨um, finalM⟩ →
      ND (Res.bindL extm um finalM).stop →
      Rel b (Spec.foreachOuts extS finalS us sv sid acc).1
          ⟨vals acc ++ (Res.bindL extm um finalM).outs, (Res.bindL extm um finalM).stop⟩ ∧
        ((Spec.foreachOuts extS finalS us sv sid acc).1.stop = .done →
          (Spec.foreachOuts extS finalS us sv sid acc).2.1 = um.getLast?.getD sv) := by
  intro us
  induction us with
  | nil =>
    intro finalS um finalM sv sid acc hacc h _
    simp only [Spec.foreachOuts]
    cases h with
    | done => exact ⟨by simpa [Res.bindL] using Rel.done (b := b) acc hacc, fun _ => rfl⟩
    | err _ e => exact ⟨by simpa [Res.bindL] using Rel.err (b := b) acc e hacc, fun h => by simp at h⟩
    | indef _ _ _ hc hi hp hb =>
      exact ⟨.indef acc _ _ hacc hi (List.prefix_append _ _) hb, fun h => absurd h hi.ne_done⟩
  | cons u urest ih =>
    intro finalS um finalM sv sid acc hacc h hnd
    obtain ⟨ys, rfl, hu, htail⟩ := h.cons_inv
    have hndu := bindL_head_nd hnd
    have hre := hext u hu hndu
    have hpre := bindL_outs_prefix extm u.v ys finalM
    simp only [Spec.foreachOuts]
    generalize extS u = re at hre ⊢
    generalize hmx : extm u.v = mx at hre
    cases hre with
    | done o hc =>
      rw [bindL_cons_done hmx] at hnd ⊢
      have hacc' : ∀ x ∈ acc ++ o, Clean x := by
        intro x hx
        rcases List.mem_append.mp hx with hx | hx
        · exact hacc x hx
        · exact hc x hx
      have := ih finalS ys finalM u.v u.id (acc ++ o) hacc' htail hnd
      simp only [vals_append, List.append_assoc] at this
      refine ⟨this.1, fun hd => ?_⟩
      rw [this.2 hd, getLast?_cons_getD]
    | err o e hc =>
      rw [bindL_cons_err hmx]
      have hacc' : ∀ x ∈ acc ++ o, Clean x := by
        intro x hx
        rcases List.mem_append.mp hx with hx | hx
        · exact hacc x hx
        · exact hc x hx
      exact ⟨by simpa using Rel.err (b := b) (acc ++ o) e hacc', fun h => by simp at h⟩
    | indef o s m hc hi hp hb =>
      rw [← hmx] at hp
      have hacc' : ∀ x ∈ acc ++ o, Clean x := by
        intro x hx
        rcases List.mem_append.mp hx with hx | hx
        · exact hacc x hx
        · exact hc x hx
      have hp' : vals (acc ++ o) <+: vals acc ++ (Res.bindL extm (u.v :: ys) finalM).outs := by
        simpa using (List.prefix_append_right_inj (vals acc)).mpr (hp.trans hpre)
      cases s with
      | done => exact absurd rfl hi.ne_done
      | err e => exact absurd rfl (hi.ne_err e)
      | fuel => exact ⟨.indef _ _ _ hacc' hi hp' hb, fun h => by simp at h⟩
      | unmodelled w => exact ⟨.indef _ _ _ hacc' hi hp' hb, fun h => by simp at h⟩

theorem Rel.foreach {b : Bool} (envOf : Spec.St → Spec.Env)
    (upd : Spec.St → Spec.Env → JV → Spec.Ident → Spec.Res) (ext : Spec.Env → Spec.St → Spec.Res)
    (updm : V → V → MiniVM.Res) (extm : V → V → MiniVM.Res)
    (hupd : ∀ x sv sid, Clean x → ND (updm x.v sv).stop → Rel b (upd x (envOf x) sv sid) (updm x.v sv))
    (hext : ∀ x u, Clean x → Clean u → ND (extm x.v u.v).stop → Rel b (ext (envOf x) u) (extm x.v u.v)) :
    ∀ (outs : List Spec.St) (final : Spec.Stop) (ym : List V) (finalM : MiniVM.Stop) (sv : JV) (sid : Spec.Ident)
      (acc : List Spec.St), (∀ x ∈ acc, Clean x) → Rel b ⟨outs, final⟩ ⟨ym, finalM⟩ →
      ND (foreachL updm extm finalM ym sv).stop →
      Rel b (Spec.foreachLoop (fun x => Spec.PatRes.ok [envOf x]) upd ext final outs sv sid acc)
        ⟨vals acc ++ (foreachL updm extm finalM ym sv).outs, (foreachL updm extm finalM ym sv).stop⟩ := by
  intro outs
  induction outs with
  | nil =>
    intro final ym finalM sv sid acc hacc h _
    simp only [Spec.foreachLoop]
    cases h with
    | done => simpa [foreachL] using Rel.done (b := b) acc hacc
    | err _ e => simpa [foreachL] using Rel.err (b := b) acc e hacc
    | indef _ _ _ hc hi hp hb => exact .indef acc _ _ hacc hi (List.prefix_append _ _) hb
  | cons x xs ih =>
    intro final ym finalM sv sid acc hacc h hnd
    obtain ⟨ys, rfl, hx, htail⟩ := h.cons_inv
    rw [foreachLoop_var _ _ _ _ _ _ _ _ _ hx.2]
    unfold foreachL at hnd ⊢
    obtain ⟨hndu, hg⟩ := guardND_nd hnd
    simp only [hg] at hnd ⊢
    obtain ⟨hndB, hndL⟩ := seq_nd hnd
    have hru := hupd x sv sid hx hndu
    generalize upd x (envOf x) sv sid = ru at hru ⊢
    generalize updm x.v sv = rum at hru hnd hndB hndL ⊢
    have hru' : Rel b ⟨ru.outs, ru.stop⟩ ⟨rum.outs, rum.stop⟩ := hru
    obtain ⟨h1, h2⟩ := foreachOuts_rel (ext (envOf x)) (extm x.v) (fun u hu => hext x u hx hu)
      ru.outs ru.stop rum.outs rum.stop sv sid acc hacc hru' hndB
    generalize Spec.foreachOuts (ext (envOf x)) ru.stop ru.outs sv sid acc = t at h1 h2 ⊢
    rcases t with ⟨⟨to, ts⟩, sv', sid'⟩
    generalize hB : Res.bindL (extm x.v) rum.outs rum.stop = B at h1 hnd hndB hndL ⊢
    rcases B with ⟨Bo, Bs⟩
    simp only at h1 h2 hndL ⊢
    cases ts with
    | done =>
      have := h1.of_done rfl
      simp only [Res.mk.injEq] at this
      obtain ⟨ho, rfl⟩ := this
      have hsv : sv' = rum.outs.getLast?.getD sv := h2 rfl
      subst hsv
      have := ih final ys finalM _ sid' to h1.clean htail (hndL rfl)
      simpa [Res.seq, ← ho, List.append_assoc] using this
    | err e =>
      obtain ⟨e', rfl, this⟩ := h1.of_err rfl
      simp only [Res.mk.injEq] at this
      obtain ⟨ho, rfl⟩ := this
      simpa [Res.seq, ← ho] using Rel.err (b := b) to e' h1.clean
    | fuel =>
      have hi : Indef .fuel := .inl rfl
      have hp := h1.prefix
      have hq := seq_outs_prefix ⟨Bo, Bs⟩ (foreachL updm extm finalM ys (rum.outs.getLast?.getD sv))
      exact .indef to _ _ h1.clean hi
        (hp.trans ((List.prefix_append_right_inj (vals acc)).mpr hq)) (fun hb => h1.nofuel hb)
    | unmodelled w =>
      have hi : Indef (.unmodelled w) := by
        rcases h1.stop_cases with h | ⟨e, h, _⟩ | h
        · simp at h
        · simp at h
        · exact h
      have hp := h1.prefix
      have hq := seq_outs_prefix ⟨Bo, Bs⟩ (foreachL updm extm finalM ys (rum.outs.getLast?.getD sv))
      exact .indef to _ _ h1.clean hi
        (hp.trans ((List.prefix_append_right_inj (vals acc)).mpr hq)) (by simp)

end Gojq.MiniSpec

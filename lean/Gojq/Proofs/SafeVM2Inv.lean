/-
  C08 (bytecode checker, layer 2): static facts of a verified certificate (`Checked2`) and the
  dynamic invariant (`Inv2`): every frame at or below the protected region of the scope stack is
  good, the variable ranges of those frames are disjoint and lie below `env.offset`, the current
  activation's annotated stack entries and slots hold good values of their kinds, and every
  suspended activation (a caller, the frame a fork restores) holds good values of the STABLE kinds
  its resumption point relies on.
-/
import Gojq.Proofs.SafeVM2Good
set_option linter.unusedSimpArgs false
set_option linter.unusedVariables false
namespace Gojq.SafeVM
open Gojq Gojq.VM

/-! ## static -/

def ann2At (Ct : Cert) (pc : Int) : Option Abs2 := if 0 ≤ pc then (Ct.ann[pc.toNat]?).join else none

def SuccOK2 (Ct : Cert) (s : Int × Abs2) : Prop := ∃ b, ann2At Ct s.1 = some b ∧ b.accepts s.2 = true

def idOf (S : SC) (fn : Nat) : Option Int := (scopeAt S.code fn).map (·.1)

structure Checked2 (S : SC) (Ct : Cert) : Prop where
  uniq : ∀ (pc pc' : Nat) (id : Int) (r r' : Nat × Nat), scopeAt S.code pc = some (id, r) → scopeAt S.code pc' = some (id, r') → pc = pc'
  root : ∃ id0 r, scopeAt S.code 0 = some (id0, r) ∧ (∀ x ∈ Ct.availOf id0, x = id0) ∧ Ct.assumeOf id0 = []
  asm : ∀ (pc : Nat) (id : Int) (r : Nat × Nat), scopeAt S.code pc = some (id, r) → ∀ xi ∈ Ct.assumeOf id,
    xi.1 ≠ id ∧ Ct.stabOf xi ≠ .any ∧ xi.1 ∈ Ct.availOf id ∧ slotOK S.tab xi.1 xi.2 = true
  step : ∀ (pc : Int) (a : Abs2) (ins : Shape), ann2At Ct pc = some a → codeAt S pc = some ins →
    (isScope ins = true → entryAbs2 S.code pc.toNat = some a) ∧
    (∃ idF nv na, scopeAt S.code a.fn = some (idF, nv, na) ∧ a.sl.length = nv) ∧
    ∃ succs, step2 S.code Ct pc.toNat a ins = some succs ∧ (∀ s ∈ succs, SuccOK2 Ct s) ∧ ((pc.toNat : Nat) : Int) = pc
  entry : ∀ (pc : Int) (ins : Shape), codeAt S pc = some ins → isScope ins = true →
    ∃ a, ann2At Ct pc = some a ∧ entryAbs2 S.code pc.toNat = some a

theorem succOK2_sound {S : SC} {Ct : Cert} {s : Int × Abs2} (h : succOK2 S.code Ct.ann s = true) : SuccOK2 Ct s := by
  unfold succOK2 at h
  simp only [Bool.and_eq_true, decide_eq_true_eq] at h
  obtain ⟨h0, h2⟩ := h
  cases ha : Ct.ann[s.1.toNat]? with
  | none => rw [ha] at h2; simp at h2
  | some ob =>
    cases ob with
    | none => rw [ha] at h2; simp at h2
    | some b =>
      rw [ha] at h2
      exact ⟨b, by unfold ann2At; simp [h0, ha], h2⟩

theorem entryTab_mem {code : Array Shape} {id : Int} {pc : Nat} :
    (id, pc) ∈ entryTab code ↔ ∃ r, scopeAt code pc = some (id, r) := by
  unfold entryTab scopeAt
  simp only [List.mem_filterMap, List.mem_range]
  constructor
  · rintro ⟨q, hq, hm⟩
    cases hc : code[q]? with
    | none => rw [hc] at hm; simp at hm
    | some i =>
      rw [hc] at hm
      cases i <;> simp at hm
      obtain ⟨rfl, rfl⟩ := hm
      rw [hc]; exact ⟨_, rfl⟩
  · rintro ⟨r, hr⟩
    refine ⟨pc, ?_, ?_⟩
    · cases hc : code[pc]? with
      | none => rw [hc] at hr; simp at hr
      | some i => exact (Array.getElem?_eq_some_iff.mp hc).1
    · cases hc : code[pc]? with
      | none => rw [hc] at hr; simp at hr
      | some i =>
        rw [hc] at hr
        cases i <;> simp at hr
        simp [hr.1]

theorem checked2_of_verify {S : SC} {Ct : Cert} (h : verify2 S.code Ct = true) : Checked2 S Ct := by
  unfold verify2 at h
  simp only [Bool.and_eq_true, beq_iff_eq, List.all_eq_true, List.mem_range] at h
  obtain ⟨⟨hsz, hcert⟩, hall⟩ := h
  unfold certOK at hcert
  simp only [Bool.and_eq_true, List.all_eq_true, beq_iff_eq, bne_iff_ne, ne_eq, Prod.forall] at hcert
  obtain ⟨⟨hu, hroot⟩, hasm⟩ := hcert
  have hstep : ∀ (pc : Int) (a : Abs2) (ins : Shape), ann2At Ct pc = some a → codeAt S pc = some ins →
      (isScope ins = true → entryAbs2 S.code pc.toNat = some a) ∧
      (∃ idF nv na, scopeAt S.code a.fn = some (idF, nv, na) ∧ a.sl.length = nv) ∧
      ∃ succs, step2 S.code Ct pc.toNat a ins = some succs ∧ (∀ s ∈ succs, SuccOK2 Ct s) ∧ ((pc.toNat : Nat) : Int) = pc := by
    intro pc a ins ha hc
    have hr := codeAt_range hc
    have hlt : pc.toNat < S.code.size := by unfold SC.size at hr; omega
    have hv := hall pc.toNat hlt
    unfold codeAt at hc
    unfold ann2At at ha
    simp only [hr.1, if_true] at hc ha
    unfold verifyAt2 at hv
    rw [hc] at hv
    cases hann : Ct.ann[pc.toNat]? with
    | none => rw [hann] at ha; simp at ha
    | some oa =>
      rw [hann] at ha hv
      cases oa with
      | none => simp at ha
      | some a' =>
        have ha : a' = a := by simpa using ha
        subst ha
        simp only [Bool.and_eq_true] at hv
        obtain ⟨⟨hv1, hv3⟩, hv2⟩ := hv
        refine ⟨?_, ?_, ?_⟩
        · intro hsc
          rw [if_pos hsc] at hv1
          simpa using hv1
        · cases hsa : scopeAt S.code a'.fn with
          | none => rw [hsa] at hv3; simp at hv3
          | some r =>
            rw [hsa] at hv3
            obtain ⟨idF, nv, na⟩ := r
            exact ⟨idF, nv, na, rfl, by simpa using hv3⟩
        · cases hst : step2 S.code Ct pc.toNat a' ins with
          | none => rw [hst] at hv2; simp at hv2
          | some succs =>
            rw [hst] at hv2
            simp only [List.all_eq_true] at hv2
            exact ⟨succs, rfl, fun s hs => succOK2_sound (hv2 s hs), Int.toNat_of_nonneg hr.1⟩
  refine ⟨?_, ?_, ?_, hstep, ?_⟩
  · intro pc pc' id r r' h1 h2
    have m1 := entryTab_mem.mpr ⟨r, h1⟩
    have m2 := entryTab_mem.mpr ⟨r', h2⟩
    have e1 := hu id pc m1
    have e2 := hu id pc' m2
    rw [e1] at e2
    exact Option.some.inj e2
  · cases h0 : scopeAt S.code 0 with
    | none => rw [h0] at hroot; simp at hroot
    | some r =>
      rw [h0] at hroot
      obtain ⟨id0, r'⟩ := r
      simp only [Bool.and_eq_true, List.all_eq_true, beq_iff_eq, List.isEmpty_iff] at hroot
      exact ⟨id0, r', rfl, hroot.1, hroot.2⟩
  · intro pc id r hs xi hxi
    have m := entryTab_mem.mpr ⟨r, hs⟩
    have := hasm id pc m xi.1 xi.2 hxi
    simp only [Bool.and_eq_true, bne_iff_ne, ne_eq, List.contains_iff_mem, decide_eq_true_eq] at this
    exact ⟨this.1.1.1, this.1.1.2, by simpa using this.1.2, this.2⟩
  · intro pc ins hc hsc
    have hr := codeAt_range hc
    have hlt : pc.toNat < S.code.size := by unfold SC.size at hr; omega
    have hv := hall pc.toNat hlt
    have hc' := hc
    unfold codeAt at hc'
    simp only [hr.1, if_true] at hc'
    unfold verifyAt2 at hv
    rw [hc'] at hv
    have hannsz : pc.toNat < Ct.ann.size := by rw [hsz]; exact hlt
    cases hann : Ct.ann[pc.toNat]? with
    | none =>
      have := Array.getElem?_eq_none_iff.mp hann
      omega
    | some oa =>
      rw [hann] at hv
      cases oa with
      | none => simp [hsc] at hv
      | some a =>
        have hA : ann2At Ct pc = some a := by unfold ann2At; simp [hr.1, hann]
        exact ⟨a, hA, (hstep pc a ins hA hc).1 hsc⟩

/-! ## dynamic -/

/-- the protected region of a persistent stack: slots at or below it are never overwritten while
    it does not shrink (`push` writes at `max(index, limit) + 1`) -/
def Rg (s : Stack Scope) : Int := max s.index s.limit

/-- the end of the variable range of a frame -/
def endOf (S : SC) (sc : Scope) : Int := sc.offset + (((S.tab.lookup sc.id).getD 0 : Nat) : Int)

structure RegInv (S : SC) (Ct : Cert) (e : Env) : Prop where
  reg : ∀ j : Int, 0 ≤ j → j ≤ Rg e.scopes → ∃ sc, blockAt e.scopes.data j = some sc ∧ sc.outerindex ≤ sc.saveindex ∧
    sc.saveindex < j ∧ Good S Ct e.scopes.data e.values (.v sc.id sc.outerindex)
  o1 : ∀ (j : Int) (sc : Scope), j ≤ Rg e.scopes → blockAt e.scopes.data j = some sc → endOf S sc ≤ e.offset
  o2 : ∀ (j j' : Int) (sc sc' : Scope), j < j' → j' ≤ Rg e.scopes → blockAt e.scopes.data j = some sc →
    blockAt e.scopes.data j' = some sc' → endOf S sc ≤ sc'.offset
  o3 : ∀ f ∈ e.forks, ∀ (j : Int) (sc : Scope), j ≤ max f.scopeindex f.scopelimit →
    blockAt e.scopes.data j = some sc → endOf S sc ≤ f.offset

/-- a value of an annotated kind, for an activation whose frame is at slot `jt` -/
def KOK (S : SC) (Ct : Cert) (d : Array (Block Scope)) (vs : Array V) (k : Kind) (v : V) (jt : Int) : Prop :=
  match k with
  | .any => True
  | .arr => Good S Ct d vs (.g .arr v (jt - 1))
  | .clo => Good S Ct d vs (.g .clo v (jt - 1))
  | .cloL => Good S Ct d vs (.g .clo v jt)

/-- the annotated slots of the frame `sc` at slot `j` hold good values -/
def SlotCl (S : SC) (Ct : Cert) (d : Array (Block Scope)) (vs : Array V) (j : Int) (sc : Scope) (sl : List Kind) : Prop :=
  ∀ (i : Nat) (k : Kind), sl[i]? = some k → k ≠ .any → Good S Ct d vs (.s j sc (i : Int) k)

/-- the annotated top entries of the data stack hold good values -/
def StackCl (S : SC) (Ct : Cert) (d : Array (Block Scope)) (vs : Array V) (jt : Int) (ks : List Kind)
    (stk : List (Int × V)) : Prop :=
  ∀ (n : Nat) (k : Kind), ks[n]? = some k → k ≠ .any → ∃ p, stk[n]? = some p ∧ KOK S Ct d vs k p.2 jt

/-- only stable kinds are claimed -/
def StableSl (Ct : Cert) (id : Int) (sl : List Kind) : Prop :=
  ∀ (i : Nat) (k : Kind), sl[i]? = some k → k = .any ∨ k = Ct.stabOf (id, (i : Int))

/-- the suspended activations below a frame whose return address is `r` -/
def Susp (S : SC) (Ct : Cert) (d : Array (Block Scope)) (vs : Array V) : Int → List (Int × Scope) → Prop
  | _, [] => True
  | r, (j, sc) :: rest => ∃ a2, ann2At Ct (r + 1) = some a2 ∧ idOf S a2.fn = some sc.id ∧
      (StableSl Ct sc.id a2.sl ∧ ∀ (n : Nat) (k : Kind), a2.ks[n]? = some k → k = .any) ∧
      SlotCl S Ct d vs j sc a2.sl ∧ Susp S Ct d vs sc.pc rest

/-- the current activation -/
def Cur (S : SC) (Ct : Cert) (d : Array (Block Scope)) (vs : Array V) (a2 : Abs2) (stk : List (Int × V))
    (frames : List (Int × Scope)) : Prop :=
  ∃ j sc rest, frames = (j, sc) :: rest ∧ idOf S a2.fn = some sc.id ∧ SlotCl S Ct d vs j sc a2.sl ∧
    StackCl S Ct d vs j a2.ks stk ∧ Susp S Ct d vs sc.pc rest

/-- the activation a fork restores: the slots keep their stable kinds, nothing is claimed of the stack -/
def FCur (S : SC) (Ct : Cert) (d : Array (Block Scope)) (vs : Array V) (a2 : Abs2) (frames : List (Int × Scope)) : Prop :=
  ∃ j sc rest, frames = (j, sc) :: rest ∧ idOf S a2.fn = some sc.id ∧ SlotCl S Ct d vs j sc (resume Ct sc.id a2.sl) ∧
    Susp S Ct d vs sc.pc rest

def BConf2 (S : SC) (Ct : Cert) (d : Array (Block Scope)) (vs : Array V) (pc : Int) (frames : List (Int × Scope)) : Prop :=
  match codeAt S pc with
  | some (.fork _) | some (.forkalt _) | some (.forktrybegin _) | some .iter =>
    ∃ a2, ann2At Ct pc = some a2 ∧ FCur S Ct d vs a2 frames
  | _ => True

def ForksConf2 (S : SC) (Ct : Cert) (d : Array (Block Scope)) (vs : Array V) (fs : List FView) : Prop :=
  ∀ f ∈ fs, BConf2 S Ct d vs f.pc f.frames

/-- at a `scope` instruction of scope `idt` -/
structure EntryConf2 (S : SC) (Ct : Cert) (l : L) (e : Env) (A : AView) (idt : Int) (nargs : Nat) : Prop where
  outer : Good S Ct e.scopes.data e.values
    (.v idt (match blockAt e.scopes.data l.index with | some sc => effOuter sc l.index idt | none => l.index))
  olt : l.index ≤ Rg e.scopes
  /-- the outer frame lies at or below the frame the new frame returns to -/
  ole : (0 ≤ l.callpc → (match blockAt e.scopes.data l.index with | some sc => effOuter sc l.index idt | none => l.index) ≤ e.scopes.index) ∧
    (l.callpc = -1 → ∀ j sc rest, A.frames = (j, sc) :: rest →
      (match blockAt e.scopes.data l.index with | some sc => effOuter sc l.index idt | none => l.index) ≤ sc.saveindex)
  args : ∀ n : Nat, n < nargs → ∃ p, A.stk[n + 1]? = some p ∧ Good S Ct e.scopes.data e.values (.g .clo p.2 e.scopes.index)
  susp : (0 ≤ l.callpc ∧ Susp S Ct e.scopes.data e.values l.callpc A.frames) ∨
    (l.callpc = -1 ∧ nargs = 0 ∧ ∃ j sc rest, A.frames = (j, sc) :: rest ∧ Susp S Ct e.scopes.data e.values sc.pc rest)

def NMode2 (S : SC) (Ct : Cert) (l : L) (e : Env) (A : AView) : Prop :=
  ∃ a2 ins, ann2At Ct l.pc = some a2 ∧ codeAt S l.pc = some ins ∧
    (if isScope ins = true then
      ∃ idt nv na, scopeAt S.code l.pc.toNat = some (idt, nv, na) ∧ EntryConf2 S Ct l e A idt na
     else Cur S Ct e.scopes.data e.values a2 A.stk A.frames)

def BMode2 (S : SC) (Ct : Cert) (l : L) (e : Env) (A : AView) : Prop :=
  l.pc = S.size ∨ BConf2 S Ct e.scopes.data e.values l.pc A.frames

def Inv2 (S : SC) (Ct : Cert) (l : L) (e : Env) : Prop :=
  ∃ A, View e A ∧ RegInv S Ct e ∧ ForksConf2 S Ct e.scopes.data e.values A.forks ∧
    (if l.backtrack = true then BMode2 S Ct l e A else NMode2 S Ct l e A)

/-- the sites layer 2 covers -/
def covered2 : Site → Bool
  | .envIndex | .assertClosure | .assertArray => true
  | _ => false

def Post2 (S : SC) (Ct : Cert) (r : Ctl × L) (e' : Env) : Prop :=
  ∃ A', View e' A' ∧ RegInv S Ct e' ∧ ForksConf2 S Ct e'.scopes.data e'.values A'.forks ∧
    match r.1 with
    | .fall => NMode2 S Ct { r.2 with pc := r.2.pc + 1 } e' A'
    | .jump => NMode2 S Ct r.2 e' A'
    | .brk => A'.forks = [] → r.2.err ≠ none → BConf2 S Ct e'.scopes.data e'.values r.2.pc A'.frames
    | .ret _ => True

def WP2 {α : Type} (m : M α) (Q : α → Env → Prop) (e : Env) : Prop :=
  match m e with
  | .ok a e' => Q a e'
  | .panic s => covered2 s = false
  | .stuck _ => True

end Gojq.SafeVM

/-
  Helper lemmas for C19 (Props/C19.lean): the bit arithmetic of arity masks and the wrapper
  chain that `withFunction` builds.
-/
import Gojq.Model.Options
namespace Gojq.Options

theorem accept_eq_testBit (m n : Nat) : accept m n = m.testBit n := by
  unfold accept
  by_cases h : m.testBit n = true
  · have h1 : (m &&& 2^n).testBit n = true := by simp [Nat.testBit_and, h]
    have hne : m &&& 2^n ≠ 0 := by intro h0; rw [h0] at h1; simp at h1
    simp [h, hne]
  · have h0 : m &&& 2^n = 0 := by
      apply Nat.eq_of_testBit_eq; intro i
      simp only [Nat.testBit_and, Nat.testBit_two_pow, Nat.zero_testBit]
      by_cases hi : n = i
      · subst hi; simp at h; simp [h]
      · simp [hi]
    simp at h
    simp [h0, h]

/-- bit `n` of `1<<(mx+1) - 1<<mn` is set exactly for `mn ≤ n ≤ mx` -/
theorem argcount_testBit (mn mx n : Nat) (h : mn ≤ mx) :
    (argcount mn mx).testBit n = (decide (mn ≤ n) && decide (n ≤ mx)) := by
  have e : argcount mn mx = 2 ^ mn * (2 ^ (mx + 1 - mn) - 1) := by
    simp only [argcount, Nat.mul_sub, Nat.mul_one, ← Nat.pow_add]
    congr 2; omega
  rw [e, Nat.testBit_two_pow_mul, Nat.testBit_two_pow_sub_one]
  by_cases h1 : mn ≤ n <;> by_cases h2 : n ≤ mx <;> simp [h1, h2] <;> omega

theorem argcount_lt (mn mx : Nat) (h : mx ≤ 30) : argcount mn mx < 2 ^ 31 := by
  have : 2 ^ (mx + 1) ≤ 2 ^ 31 := Nat.pow_le_pow_right (by omega) (by omega)
  have : 0 < 2 ^ mn := Nat.two_pow_pos mn
  unfold argcount; omega

/-- one registration: id and the arity range -/
structure Reg where
  id : Nat
  mn : Nat
  mx : Nat
  deriving Repr, DecidableEq

def Reg.covers (r : Reg) (n : Nat) : Bool := decide (r.mn ≤ n) && decide (n ≤ r.mx)

/-- the entry after the registrations `L` (newest first) -/
def build (iter : Bool) : List Reg → Entry
  | [] => ⟨0, iter, []⟩
  | r :: rest =>
    ⟨argcount r.mn r.mx ||| (build iter rest).mask, iter, (r.id, argcount r.mn r.mx) :: (build iter rest).chain⟩

theorem build_iter (iter : Bool) (L : List Reg) : (build iter L).iter = iter := by
  cases L <;> rfl

theorem register_first (id : Nat) (mn mx : Int) (iter : Bool) (h : validArity mn mx = true) :
    register none id mn mx iter = .ok (build iter [⟨id, mn.toNat, mx.toNat⟩]) := by
  simp [register, h, build]

theorem register_next (L : List Reg) (id : Nat) (mn mx : Int) (iter : Bool) (h : validArity mn mx = true) :
    register (some (build iter L)) id mn mx iter = .ok (build iter (⟨id, mn.toNat, mx.toNat⟩ :: L)) := by
  simp [register, h, build, build_iter]

theorem mask_build (iter : Bool) (L : List Reg) (hL : ∀ r ∈ L, r.mn ≤ r.mx) (n : Nat) :
    accept (build iter L).mask n = L.any (·.covers n) := by
  rw [accept_eq_testBit]
  induction L with
  | nil => simp [build]
  | cons r rest ih =>
    simp only [build, Nat.testBit_or, List.any_cons]
    rw [argcount_testBit _ _ _ (hL r (by simp)), ih (fun r hr => hL r (by simp [hr]))]
    rfl

theorem dispatch_build (iter : Bool) (L : List Reg) (hL : ∀ r ∈ L, r.mn ≤ r.mx) (n : Nat)
    (hany : L.any (·.covers n) = true) :
    dispatch (build iter L).chain n = (L.find? (·.covers n)).map (·.id) := by
  induction L with
  | nil => simp at hany
  | cons r rest ih =>
    cases rest with
    | nil =>
      simp only [List.any_cons, List.any_nil, Bool.or_false] at hany
      simp [build, dispatch, List.find?, hany]
    | cons r' rest' =>
      have hr : r.mn ≤ r.mx := hL r (by simp)
      by_cases hc : r.covers n = true
      · have : accept (argcount r.mn r.mx) n = true := by
          rw [accept_eq_testBit, argcount_testBit _ _ _ hr]; exact hc
        simp only [build, dispatch, this, if_true, List.find?, hc, Option.map]
      · have hc' : r.covers n = false := by simpa using hc
        have : accept (argcount r.mn r.mx) n = false := by
          rw [accept_eq_testBit, argcount_testBit _ _ _ hr]; exact hc'
        have hany' : (r' :: rest').any (·.covers n) = true := by
          simpa [List.any_cons, hc'] using hany
        have := ih (fun r hr => hL r (by simp [hr])) hany'
        simp only [build] at this
        simp only [build, dispatch, ‹accept (argcount r.mn r.mx) n = false›, List.find?, hc']
        exact this

/-- which registration answers a call with `n` arguments: the newest one whose range holds
    `n`; no registration covers `n` ⇒ the call is rejected -/
theorem call_build (iter : Bool) (L : List Reg) (hL : ∀ r ∈ L, r.mn ≤ r.mx) (n : Nat) :
    call (build iter L) n = (L.find? (·.covers n)).map (·.id) := by
  unfold call
  rw [mask_build iter L hL n]
  by_cases hany : L.any (·.covers n) = true
  · simp only [hany, if_true]; exact dispatch_build iter L hL n hany
  · have hnone : L.find? (·.covers n) = none := by
      rw [List.find?_eq_none]; intro x hx hc
      exact hany (List.any_eq_true.mpr ⟨x, hx, hc⟩)
    simp [hany, hnone]

/-! ### variables -/

theorem storeAll_length {α} : ∀ (names : List String) (st : List α) (env : List (String × α)),
    names.length ≤ st.length → (storeAll names st env).2 = st.drop names.length
  | [], st, env, _ => by simp [storeAll]
  | n :: ns, [], env, h => by simp at h
  | n :: ns, v :: st, env, h => by
    simp only [storeAll, List.length_cons, List.drop_succ_cons]
    exact storeAll_length ns st _ (by simpa using h)

end Gojq.Options

/-
  The image of the reference parser has the operator shape `precOK`: whatever token list it is
  given, the operator tree `pClimb` builds is one the printer can write without parentheses
  (the converse of the parenthesisation half of the round trip).
-/
import Gojq.Proofs.RoundTripFollow
namespace Gojq.RefTerm
open Gojq

/-- the loop would stop here: no operator of level ≥ `min`, no `as` it may take -/
def LoopStop (item : Bool) (min : Nat) (rest : List Tok) : Prop :=
  (∀ x o, rest.head? = some x → binopOfTok x = some o → o.lv < min) ∧
  (rest.head? = some (.kw .as_) → item = false)

/-- after a query that ends in a binding / definition / label no operator and no `as` follows -/
def OpenStop (q : Query) (rest : List Tok) : Prop :=
  closedQ q = false → (∀ x o, rest.head? = some x → binopOfTok x = some o → False) ∧ rest.head? ≠ some (.kw .as_)

/-- what the loop knows about the left operand parsed so far -/
def LhsInv (item : Bool) (min : Nat) (lhs : Query) (ts : List Tok) : Prop :=
  precOK item min lhs = true ∧ OpenStop lhs ts ∧
  (∀ x o, ts.head? = some x → binopOfTok x = some o → min ≤ o.lv → precOK false o.lmin lhs = true) ∧
  (ts.head? = some (.kw .as_) → item = true → precOK false 3 lhs = true)

def ImgC (f : Nat) : Prop := ∀ (item : Bool) (min : Nat) (ts : List Tok) (q : Query) (rest : List Tok),
  pClimb f item min ts = some (q, rest) → (item = true → min ≤ 3) →
    precOK item min q = true ∧ LoopStop item min rest ∧ OpenStop q rest

def ImgL (f : Nat) : Prop := ∀ (item : Bool) (min : Nat) (lhs : Query) (ts : List Tok) (q : Query) (rest : List Tok),
  pLoop f item min lhs ts = some (q, rest) → (item = true → min ≤ 3) → LhsInv item min lhs ts →
    precOK item min q = true ∧ LoopStop item min rest ∧ OpenStop q rest

theorem lmin_of_follow (o2 o : BOp) (h : o2.lv < o.rmin) (hc : ¬ (o.assoc = .non ∧ o2.lv = o.lv)) :
    o2.lmin ≤ o.lv := by
  cases o <;> cases o2 <;> revert h hc <;> decide

theorem loopStop_open (item : Bool) (min : Nat) (rest : List Tok) (h : LoopStop true 1 rest) : LoopStop item min rest := by
  refine ⟨fun x o hx ho => ?_, fun hx => ?_⟩
  · have := h.1 x o hx ho
    have := lv_pos o
    omega
  · exact absurd (h.2 hx) (by decide)

theorem openStop_of_loopStop (q : Query) (rest : List Tok) (h : LoopStop true 1 rest) : OpenStop q rest := by
  intro _
  refine ⟨fun x o hx ho => ?_, fun hx => ?_⟩
  · have := h.1 x o hx ho
    have := lv_pos o
    omega
  · exact absurd (h.2 hx) (by decide)

theorem precOK_term (item : Bool) (min : Nat) (t : Term) : precOK item min (.term t) = true := by simp [precOK]

theorem lhsInv_term (item : Bool) (min : Nat) (t : Term) (ts : List Tok) : LhsInv item min (.term t) ts :=
  ⟨precOK_term _ _ _, fun h => by simp [closedQ] at h, fun _ _ _ _ _ => precOK_term _ _ _, fun _ _ => precOK_term _ _ _⟩

theorem imgC_step (f : Nat) (hC : ImgC f) (hL : ImgL f) : ImgC (f + 1) := by
  intro item min ts q rest h hmin
  unfold pClimb at h
  split at h
  · -- def
    split at h
    · next hi =>
      simp only [Option.bind_eq_bind, Option.bind_eq_some_iff] at h
      obtain ⟨⟨fd, ts1⟩, _, ⟨q', ts2⟩, h2, h3⟩ := h
      simp only [Option.some.injEq, Prod.mk.injEq] at h3
      obtain ⟨rfl, rfl⟩ := h3
      obtain ⟨p1, p2, _⟩ := hC true 1 ts1 q' ts2 h2 (by intro _; omega)
      subst hi
      exact ⟨by simp [precOK, p1], loopStop_open _ _ _ p2, openStop_of_loopStop _ _ p2⟩
    · cases h
  · -- label
    split at h
    · next hi =>
      simp only [Option.bind_eq_bind, Option.bind_eq_some_iff] at h
      obtain ⟨⟨b, ts2⟩, h2, h3⟩ := h
      simp only [Option.some.injEq, Prod.mk.injEq] at h3
      obtain ⟨rfl, rfl⟩ := h3
      obtain ⟨p1, p2, _⟩ := hC true 1 _ b ts2 h2 (by intro _; omega)
      subst hi
      exact ⟨by simp [precOK, p1], loopStop_open _ _ _ p2, openStop_of_loopStop _ _ p2⟩
    · cases h
  · -- a term, then the loop
    simp only [Option.bind_eq_bind, Option.bind_eq_some_iff] at h
    obtain ⟨⟨t, ts1⟩, _, h2⟩ := h
    exact hL item min (.term t) ts1 q rest h2 hmin (lhsInv_term _ _ _ _)

theorem imgL_step (f : Nat) (hC : ImgC f) (hL : ImgL f) : ImgL (f + 1) := by
  intro item min lhs ts q rest h hmin hinv
  obtain ⟨hok, hopen, hext, has⟩ := hinv
  unfold pLoop at h
  split at h
  · -- end of the tokens
    simp only [Option.some.injEq, Prod.mk.injEq] at h
    obtain ⟨rfl, rfl⟩ := h
    exact ⟨hok, ⟨fun _ _ hx => by simp at hx, fun hx => by simp at hx⟩, fun _ => ⟨fun _ _ hx => by simp at hx, by simp⟩⟩
  · next x rest' =>
    split at h
    · next o ho =>
      split at h
      · -- an operator below `min`: stop
        next hlt =>
        simp only [Option.some.injEq, Prod.mk.injEq] at h
        obtain ⟨rfl, rfl⟩ := h
        refine ⟨hok, ⟨fun y o' hy ho' => ?_, fun hy => ?_⟩, hopen⟩
        · simp at hy; subst hy; rw [ho] at ho'; cases ho'; exact hlt
        · simp at hy; subst hy; simp [binopOfTok] at ho
      · -- an operator of level ≥ `min`
        next hge =>
        have hge' : min ≤ o.lv := by omega
        simp only [Option.bind_eq_bind, Option.bind_eq_some_iff] at h
        obtain ⟨⟨rhs, ts'⟩, h1, h2⟩ := h
        have hritem : (decide (o.lv ≤ 2) = true → o.rmin ≤ 3) := by
          intro hd; simp at hd; cases o <;> simp_all [BOp.lv, BOp.rmin, BOp.assoc, assocOfLv]
        obtain ⟨r1, r2, r3⟩ := hC _ _ _ rhs ts' h1 hritem
        split at h2
        · cases h2
        · next hcl =>
          have hl : precOK false o.lmin lhs = true := hext x o rfl ho hge'
          have hclosed : closedQ lhs = true := by
            cases hc : closedQ lhs
            · exact absurd ho (by intro ho'; exact (hopen hc).1 x o rfl ho')
            · rfl
          have hnew : precOK item min (.binop o lhs rhs) = true := by
            simp [precOK, hge', hl, hclosed, r1]
          refine hL item min (.binop o lhs rhs) ts' q rest h2 hmin ⟨hnew, ?_, ?_, ?_⟩
          · intro hc; simp only [closedQ] at hc; exact r3 hc
          · intro y o2 hy ho2 _
            have h21 := r2.1 y o2 hy ho2
            have hnc : ¬ (o.assoc = .non ∧ o2.lv = o.lv) := by
              intro ⟨ha, he⟩
              apply hcl
              cases ts' with
              | nil => simp at hy
              | cons z zs =>
                simp at hy; subst hy
                simp [ha, clash, ho2, he]
            simp [precOK, lmin_of_follow o2 o h21 hnc, hl, hclosed, r1]
          · intro hy _
            have := r2.2 hy
            have h3 : 3 ≤ o.lv := by simp at this; omega
            simp [precOK, h3, hl, hclosed, r1]
    · next hno =>
      split at h
      · -- `as`
        split at h
        · next hi =>
          simp only [Option.bind_eq_bind, Option.bind_eq_some_iff] at h
          obtain ⟨⟨p, ts1⟩, _, ⟨ps, ts2⟩, _, ts3, _, ⟨b, ts4⟩, h4, h5⟩ := h
          simp only [Option.some.injEq, Prod.mk.injEq] at h5
          obtain ⟨rfl, rfl⟩ := h5
          obtain ⟨p1, p2, _⟩ := hC true 1 ts3 b ts4 h4 (by intro _; omega)
          subst hi
          have h3 := hmin rfl
          have hs := has rfl rfl
          exact ⟨by simp [precOK, h3, hs, p1], loopStop_open _ _ _ p2, openStop_of_loopStop _ _ p2⟩
        · next hi =>
          simp only [Option.some.injEq, Prod.mk.injEq] at h
          obtain ⟨rfl, rfl⟩ := h
          have hi' : item = false := by simpa using hi
          refine ⟨hok, ⟨fun y o' hy ho' => ?_, fun _ => hi'⟩, hopen⟩
          simp at hy; subst hy; simp [binopOfTok] at ho'
      · -- anything else: stop
        next hx =>
        simp only [Option.some.injEq, Prod.mk.injEq] at h
        obtain ⟨rfl, rfl⟩ := h
        refine ⟨hok, ⟨fun y o' hy ho' => ?_, fun hy => ?_⟩, hopen⟩
        · simp at hy; subst hy; rw [hno] at ho'; cases ho'
        · simp at hy; subst hy; exact absurd rfl (hx)

theorem img_all : ∀ f, ImgC f ∧ ImgL f := by
  intro f
  induction f with
  | zero => exact ⟨fun _ _ _ _ _ h => by simp [pClimb] at h, fun _ _ _ _ _ _ h => by simp [pLoop] at h⟩
  | succ f ih => exact ⟨imgC_step f ih.1 ih.2, imgL_step f ih.1 ih.2⟩

/-- THE PARSER NEVER BUILDS A TREE THE PRINTER WOULD HAVE TO PARENTHESISE: whatever the tokens,
    a query the reference parser returns has the operator shape `precOK` -/
theorem refParse_precOK (f : Nat) (ts : List Tok) (q : Query) (h : refParseQ f ts = some q) :
    precOK true 1 q = true := by
  unfold refParseQ at h
  split at h
  · next q' heq =>
    simp only [Option.some.injEq] at h
    subst h
    exact ((img_all f).1 true 1 ts q' [] heq (by intro _; omega)).1
  · cases h

/-- Printable implies the operator shape -/
theorem precOK_of_okQ : ∀ (q : Query) (item : Bool) (min : Nat), okQ item min q = true → precOK item min q = true
  | .term _, _, _, _ => by simp [precOK]
  | .binop o l r, item, min, h => by
    rw [okQ_binop] at h
    simp only [Bool.and_eq_true, decide_eq_true_eq] at h
    simp [precOK, h.1.1.1, h.1.2, precOK_of_okQ l _ _ h.1.1.2, precOK_of_okQ r _ _ h.2]
  | .bind s [] b, item, min, h => by rw [okQ_bind_nil] at h; cases h
  | .bind s (p :: ps) b, item, min, h => by
    rw [okQ_bind] at h
    simp only [Bool.and_eq_true, decide_eq_true_eq] at h
    simp [precOK, h.1.1.1.1, h.1.1.1.2, precOK_of_okQ s _ _ h.1.1.2, precOK_of_okQ b _ _ h.2]
  | .def_ fd q, item, min, h => by
    rw [okQ_def] at h
    simp only [Bool.and_eq_true] at h
    simp [precOK, h.1.1, precOK_of_okQ q _ _ h.2]
  | .label v b, item, min, h => by
    rw [okQ_label] at h
    simp only [Bool.and_eq_true] at h
    simp [precOK, h.1.1, precOK_of_okQ b _ _ h.2]

end Gojq.RefTerm

/-
  Lexing, part 7: arbitrary white space between tokens (`lex_respace` for white gaps).  A text is
  a list of tokens each preceded by a gap, and a trailing gap; under the decidable condition
  `gapsOK` (gaps are white space, none inside an interpolated string literal, every token
  well-formed and `stops` before what follows it — which is automatic when the following gap is not
  empty) the tokenizer returns the tokens.  Hence two spacings of the same tokens that both satisfy
  it lex alike.
-/
import Gojq.Proofs.SpacedSafe
namespace Gojq.RefTerm
open Gojq Gojq.Lexer Gojq.Printer

/-- the text: every token preceded by its gap, then the trailing gap `tw` -/
def joinG (tw : Bytes) : List (Bytes × Tok) → Bytes
  | [] => tw
  | (g, t) :: r => g ++ (t.spell ++ joinG tw r)

/-- the adjacency condition for arbitrary white gaps (decidable) -/
def gapsOK (tw : Bytes) : Bool → List Nat → List (Bytes × Tok) → Bool
  | inStr, _, [] => !inStr && tw.all isWhite
  | inStr, stk, (g, t) :: r =>
    g.all isWhite && (!inStr || g.isEmpty) && t.wf && (t.inStrTok == inStr) && stops t (joinG tw r) &&
      gapsOK tw (if (stepStk t stk).2 then true else t.modeAfter) (stepStk t stk).1 r

theorem LexStep_whites (g X : Bytes) (t : Tok) (fol : Bytes) (m : Bool) (hg : ∀ w ∈ g, isWhite w = true)
    (h : LexStep false X t fol m) : LexStep false (g ++ X) t fol m := by
  unfold LexStep at h ⊢
  rw [lx_whites g X hg]; exact h

/-- LEXING UNDER ARBITRARY WHITE GAPS -/
theorem lex_gaps (tw : Bytes) : ∀ (l : List (Bytes × Tok)) (inStr : Bool) (stk : List Nat) (f : Nat),
    gapsOK tw inStr stk l = true → l.length < f → tkz f (joinG tw l) inStr stk = l.map (·.2) := by
  intro l
  induction l with
  | nil =>
    intro inStr stk f hok hf
    simp only [gapsOK, Bool.and_eq_true, Bool.not_eq_true', List.all_eq_true] at hok
    obtain ⟨hm, htw⟩ := hok
    subst hm
    obtain ⟨k, rfl⟩ : ∃ k, f = k + 1 := ⟨f - 1, by simp at hf; omega⟩
    have h1 : lx tw false = lx [] false := by
      have := lx_whites tw [] htw
      simpa using this
    simp only [joinG, List.map_nil, tkz, h1, lx_nil, beq_self_eq_true, if_true]
  | cons p r ih =>
    intro inStr stk f hok hf
    obtain ⟨g, t⟩ := p
    simp only [List.length_cons] at hf
    obtain ⟨k, rfl⟩ : ∃ k, f = k + 1 := ⟨f - 1, by omega⟩
    simp only [gapsOK, Bool.and_eq_true, Bool.or_eq_true, Bool.not_eq_true', beq_iff_eq, List.all_eq_true,
      List.isEmpty_iff] at hok
    obtain ⟨⟨⟨⟨⟨hg, hin⟩, hwf⟩, hm⟩, hst⟩, hr⟩ := hok
    have h0 := step_tok t (joinG tw r) hwf hst
    rw [hm] at h0
    have hstep : LexStep inStr (joinG tw ((g, t) :: r)) t (joinG tw r) t.modeAfter := by
      simp only [joinG]
      rcases hin with hin | hin
      · subst hin; exact LexStep_whites g _ t _ _ hg h0
      · subst hin; simpa using h0
    rw [tkz_step k inStr _ t _ _ stk hstep (Tok.wf_notBad t hwf), ih _ _ k hr (by omega)]
    rfl

/-- the tokens of a source given as tokens with gaps -/
theorem tokensOf_gaps (tw : Bytes) (l : List (Bytes × Tok)) (h : gapsOK tw false [] l = true) :
    tokensOf (joinG tw l) = l.map (·.2) := by
  rw [tokensOf_tkz]
  refine lex_gaps tw l false [] _ h ?_
  have hlen : ∀ (l : List (Bytes × Tok)) (m : Bool) (stk : List Nat), gapsOK tw m stk l = true →
      l.length ≤ (joinG tw l).length := by
    intro l
    induction l with
    | nil => intros; simp
    | cons p r ih =>
      intro m stk hok
      obtain ⟨g, t⟩ := p
      simp only [gapsOK, Bool.and_eq_true] at hok
      have := ih _ _ hok.2
      have := Tok.wf_spell_ne t hok.1.1.1.2
      simp only [joinG, List.length_cons, List.length_append]
      omega
  have := hlen l false [] h
  omega

/-- LEX_RESPACE (white space): two spacings of the same token sequence that both satisfy the
    adjacency condition have the same tokens -/
theorem lex_respace_white (tw1 tw2 : Bytes) (l1 l2 : List (Bytes × Tok)) (hsame : l1.map (·.2) = l2.map (·.2))
    (h1 : gapsOK tw1 false [] l1 = true) (h2 : gapsOK tw2 false [] l2 = true) :
    tokensOf (joinG tw1 l1) = tokensOf (joinG tw2 l2) := by
  rw [tokensOf_gaps tw1 l1 h1, tokensOf_gaps tw2 l2 h2, hsame]

/-- A NON-EMPTY WHITE GAP ALWAYS SEPARATES: every scanner stops before a white byte, so the
    adjacency condition constrains a token only where no white space follows it -/
theorem stops_white (t : Tok) (w : UInt8) (X : Bytes) (hw : isWhite w = true) (hwf : t.wf = true)
    (hn : t.inStrTok = false) (hs : t ≠ .strStart) : stops t (w :: X) = true := by
  have hp : isIdent w true = false ∧ isIdent w false = false ∧ isNumber w = false ∧ w ≠ 61 ∧ w ≠ 46 ∧ w ≠ 47 ∧
      w ≠ 58 := by
    simp only [isWhite, Bool.or_eq_true, beq_iff_eq] at hw
    rcases hw with ((hw | hw) | hw) | hw <;> subst hw <;> decide
  obtain ⟨h1, h2, h3, h4, h5, h6, h7⟩ := hp
  cases t with
  | ch c =>
    rcases okCh_cases c hwf with rfl | rfl | rfl | rfl | rfl | rfl | rfl | rfl | rfl | rfl | rfl | rfl | rfl | rfl |
      rfl | rfl | rfl <;> simp [stops, isSolo, isEqExt, peek_cons, h1, h2, h3, h4, h5, h6, h7]
  | op o => cases o <;> simp [stops, peek_cons, h4]
  | ident s | kw k | var s =>
    simp only [stops, peek_cons, h1, Bool.not_false, Bool.true_and]
    split
    · next heq => injection heq with e _; exact absurd e h7
    · rfl
  | _ => simp_all [stops, Tok.wf, Tok.inStrTok, peek_cons]

/-! ### comments as gaps -/

/-- skipping a prefix that `next` skips -/
theorem lx_skip (pre X : Bytes) (hX : X ≠ []) (hpre : pre ≠ [])
    (hnext : next (pre ++ X) = shiftNext pre.length (next X)) : lx (pre ++ X) false = lx X false := by
  have hb := next_bounds X hX
  have hne : (pre ++ X).isEmpty = false := by cases pre <;> simp_all
  have hXe : X.isEmpty = false := by cases X <;> simp_all
  unfold lx lex
  simp only [hne, hXe, Bool.false_eq_true, if_false, hnext]
  cases hn : next X with
  | panic => rw [hn] at hb; exact hb.elim
  | eof m => simp [shiftNext, commit, Nat.add_comm m]
  | char c m => simp [shiftNext, commit, Nat.add_comm m, Nat.add_assoc]

/-- the body of a comment without line ends and backslashes is skipped up to its line feed -/
theorem nextAux_comment (body X : Bytes) (hb : ∀ ch ∈ body, ch ≠ 10 ∧ ch ≠ 13 ∧ ch ≠ 92) : ∀ n,
    nextAux .comment (body ++ 10 :: X) n =
      if X.isEmpty then .eof (n + body.length + 1) else nextAux .normal X (n + body.length + 1) := by
  induction body with
  | nil => intro n; simp [nextAux]
  | cons ch r ih =>
    intro n
    obtain ⟨h1, h2, h3⟩ := hb ch (by simp)
    have := ih (fun x hx => hb x (by simp [hx])) (n + 1)
    rw [List.cons_append, nextAux]
    simp only [h1, h2, h3, this]
    simp [Nat.add_assoc, Nat.add_comm 1, h1, h2, h3]

/-- A `#` COMMENT UP TO ITS LINE FEED IS A GAP: the lexer returns the same token, value, unread
    source and mode as without it (comment bodies without `\` and CR; gojq's backslash
    continuation is not covered) -/
theorem lx_comment (body X : Bytes) (hb : ∀ ch ∈ body, ch ≠ 10 ∧ ch ≠ 13 ∧ ch ≠ 92) :
    lx (35 :: (body ++ 10 :: X)) false = lx X false := by
  have hn : next (35 :: (body ++ 10 :: X)) =
      if X.isEmpty then .eof (body.length + 2) else nextAux .normal X (body.length + 2) := by
    simp only [next]
    rw [nextAux]
    simp only [beq_self_eq_true, if_true, nextAux_comment body X hb]
    simp [Nat.add_comm 1, Nat.add_assoc]
  cases X with
  | nil =>
    simp only [List.isEmpty_nil, if_true] at hn
    have hne : (35 :: (body ++ [10])).isEmpty = false := rfl
    simp [lx, lex, hn, commit, List.drop_eq_nil_iff]
  | cons x X' =>
    simp only [List.isEmpty_cons, Bool.false_eq_true, if_false] at hn
    have e : 35 :: (body ++ 10 :: x :: X') = (35 :: (body ++ [10])) ++ (x :: X') := by simp
    rw [e]
    refine lx_skip _ _ (by simp) (by simp) ?_
    rw [← e, hn]
    have := nextAux_shift (body.length + 2) (x :: X') .normal 0
    simp only [Nat.zero_add] at this
    simp [next, this]

/-- `commentEnd mode c`: read in mode `mode` of `skipComment` (inside a comment / just after a
    backslash / after backslash CR), `c` is exactly the rest of the comment up to and including the
    line end (LF or CR) that terminates it — gojq's rules: inside a comment a backslash consumes a
    following backslash, LF, CR or CR LF (decidable) -/
def commentEnd : Mode → Bytes → Bool
  | _, [] => false
  | mode, c :: r =>
    if (mode == .afterBs && (c == 92 || c == 10)) || (mode == .afterBsCR && c == 10) then commentEnd .comment r
    else if mode == .afterBs && c == 13 then commentEnd .afterBsCR r
    else if c == 92 then commentEnd .afterBs r
    else if c == 10 || c == 13 then r.isEmpty
    else commentEnd .comment r

theorem nextAux_commentEnd : ∀ (body : Bytes) (mode : Mode), mode ≠ .normal → commentEnd mode body = true →
    ∀ (X : Bytes) (n : Nat), nextAux mode (body ++ X) n =
      if X.isEmpty then .eof (n + body.length) else nextAux .normal X (n + body.length) := by
  intro body
  induction body with
  | nil => intro mode _ h; simp [commentEnd] at h
  | cons c r ih =>
    intro mode hm h X n
    have hm' : (mode == Mode.normal) = false := by cases mode <;> simp_all
    rw [List.cons_append, nextAux]
    · simp only [hm', Bool.false_eq_true, if_false]
      unfold commentEnd at h
      have e1 : n + 1 + r.length = n + (r.length + 1) := by omega
      split at h
      · next hc => simp only [hc, if_true, List.length_cons]; rw [ih .comment (by simp) h X (n + 1), e1]
      · next hc =>
        simp only [hc, Bool.false_eq_true, if_false] at h ⊢
        split at h
        · next hc2 => simp only [hc2, if_true, List.length_cons]; rw [ih .afterBsCR (by simp) h X (n + 1), e1]
        · next hc2 =>
          simp only [hc2, Bool.false_eq_true, if_false]
          split at h
          · next hc3 => simp only [hc3, if_true, List.length_cons]; rw [ih .afterBs (by simp) h X (n + 1), e1]
          · next hc3 =>
            simp only [hc3, Bool.false_eq_true, if_false]
            split at h
            · next hc4 =>
              have hr : r = [] := by simpa using h
              subst hr
              simp only [hc4, if_true, List.nil_append, List.length_cons, List.length_nil]
            · next hc4 =>
              simp only [hc4, Bool.false_eq_true, if_false, List.length_cons]
              rw [ih .comment (by simp) h X (n + 1), e1]

/-- ANY `#` COMMENT UP TO THE LINE END THAT TERMINATES IT IS A GAP, backslash continuations and CR
    included -/
theorem lx_commentEnd (body X : Bytes) (hb : commentEnd .comment body = true) :
    lx (35 :: (body ++ X)) false = lx X false := by
  have hn : next (35 :: (body ++ X)) =
      if X.isEmpty then .eof (body.length + 1) else nextAux .normal X (body.length + 1) := by
    simp only [next]
    rw [nextAux]
    simp only [beq_self_eq_true, if_true, nextAux_commentEnd body .comment (by simp) hb]
    simp [Nat.add_comm 1]
  cases X with
  | nil =>
    simp only [List.isEmpty_nil, if_true] at hn
    simp only [List.append_nil] at hn ⊢
    simp [lx, lex, hn, commit, List.drop_eq_nil_iff]
  | cons x X' =>
    simp only [List.isEmpty_cons, Bool.false_eq_true, if_false] at hn
    have e : 35 :: (body ++ x :: X') = (35 :: body) ++ (x :: X') := by simp
    rw [e]
    refine lx_skip _ _ (by simp) (by simp) ?_
    rw [← e, hn]
    have := nextAux_shift (body.length + 1) (x :: X') .normal 0
    simp only [Nat.zero_add] at this
    simp [next, this]

/-- gaps: white space and `#` comments up to their line end (`comment`: the simple case, a body
    without backslash and CR up to a line feed; `commentG`: gojq's full rule, `commentEnd`) -/
inductive IsGap : Bytes → Prop where
  | nil : IsGap []
  | white (w : UInt8) (g : Bytes) : isWhite w = true → IsGap g → IsGap (w :: g)
  | comment (body g : Bytes) : (∀ ch ∈ body, ch ≠ 10 ∧ ch ≠ 13 ∧ ch ≠ 92) → IsGap g → IsGap (35 :: (body ++ 10 :: g))
  | commentG (body g : Bytes) : commentEnd .comment body = true → IsGap g → IsGap (35 :: (body ++ g))

/-- THE GAP BEFORE A TOKEN IS IRRELEVANT, comments included -/
theorem lx_gap (g X : Bytes) (hg : IsGap g) : lx (g ++ X) false = lx X false := by
  induction hg with
  | nil => rfl
  | white w g hw _ ih => rw [List.cons_append, lx_white w _ hw, ih]
  | comment body g hb _ ih =>
    have e : 35 :: (body ++ 10 :: g) ++ X = 35 :: (body ++ 10 :: (g ++ X)) := by simp
    rw [e, lx_comment body _ hb, ih]
  | commentG body g hb _ ih =>
    have e : 35 :: (body ++ g) ++ X = 35 :: (body ++ (g ++ X)) := by simp
    rw [e, lx_commentEnd body _ hb, ih]

/-- the adjacency condition with comments allowed in the gaps -/
def GapsOK (tw : Bytes) : Bool → List Nat → List (Bytes × Tok) → Prop
  | inStr, _, [] => inStr = false ∧ IsGap tw
  | inStr, stk, (g, t) :: r =>
    IsGap g ∧ (inStr = true → g = []) ∧ t.wf = true ∧ t.inStrTok = inStr ∧ stops t (joinG tw r) = true ∧
      GapsOK tw (if (stepStk t stk).2 then true else t.modeAfter) (stepStk t stk).1 r

/-- LEXING UNDER ARBITRARY GAPS (white space and comments) -/
theorem lex_gaps_comments (tw : Bytes) : ∀ (l : List (Bytes × Tok)) (inStr : Bool) (stk : List Nat) (f : Nat),
    GapsOK tw inStr stk l → l.length < f → tkz f (joinG tw l) inStr stk = l.map (·.2) := by
  intro l
  induction l with
  | nil =>
    intro inStr stk f hok hf
    obtain ⟨hm, htw⟩ := hok
    subst hm
    obtain ⟨k, rfl⟩ : ∃ k, f = k + 1 := ⟨f - 1, by simp at hf; omega⟩
    have h1 : lx tw false = lx [] false := by
      have := lx_gap tw [] htw
      simpa using this
    simp only [joinG, List.map_nil, tkz, h1, lx_nil, beq_self_eq_true, if_true]
  | cons p r ih =>
    intro inStr stk f hok hf
    obtain ⟨g, t⟩ := p
    simp only [List.length_cons] at hf
    obtain ⟨k, rfl⟩ : ∃ k, f = k + 1 := ⟨f - 1, by omega⟩
    obtain ⟨hg, hin, hwf, hm, hst, hr⟩ := hok
    have h0 := step_tok t (joinG tw r) hwf hst
    rw [hm] at h0
    have hstep : LexStep inStr (joinG tw ((g, t) :: r)) t (joinG tw r) t.modeAfter := by
      simp only [joinG]
      cases inStr with
      | false => unfold LexStep at h0 ⊢; rw [lx_gap g _ hg]; exact h0
      | true => rw [hin rfl]; simpa using h0
    rw [tkz_step k inStr _ t _ _ stk hstep (Tok.wf_notBad t hwf), ih _ _ k hr (by omega)]
    rfl

theorem tokensOf_gaps_comments (tw : Bytes) (l : List (Bytes × Tok)) (h : GapsOK tw false [] l) :
    tokensOf (joinG tw l) = l.map (·.2) := by
  rw [tokensOf_tkz]
  refine lex_gaps_comments tw l false [] _ h ?_
  have hlen : ∀ (l : List (Bytes × Tok)) (m : Bool) (stk : List Nat), GapsOK tw m stk l →
      l.length ≤ (joinG tw l).length := by
    intro l
    induction l with
    | nil => intros; simp
    | cons p r ih =>
      intro m stk hok
      obtain ⟨g, t⟩ := p
      obtain ⟨_, _, hwf, _, _, hr⟩ := hok
      have := ih _ _ hr
      have := Tok.wf_spell_ne t hwf
      simp only [joinG, List.length_cons, List.length_append]
      omega
  have := hlen l false [] h
  omega

/-- LEX_RESPACE: two spacings (white space, comments) of the same token sequence that both
    satisfy the adjacency condition have the same tokens -/
theorem lex_respace_gaps (tw1 tw2 : Bytes) (l1 l2 : List (Bytes × Tok)) (hsame : l1.map (·.2) = l2.map (·.2))
    (h1 : GapsOK tw1 false [] l1) (h2 : GapsOK tw2 false [] l2) :
    tokensOf (joinG tw1 l1) = tokensOf (joinG tw2 l2) := by
  rw [tokensOf_gaps_comments tw1 l1 h1, tokensOf_gaps_comments tw2 l2 h2, hsame]

end Gojq.RefTerm

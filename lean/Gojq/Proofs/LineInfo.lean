/-
  Helper lemmas for C17 (Props/C17.lean): specification vocabulary for line terminators and lines,
  what `scanNext` / `lineLoop` / `trimLastInvalidRune` / `excerpt` compute, and the invariant of the
  window bookkeeping of `jsonInputIter`.
-/
import Gojq.Model.Cli.Window
namespace Gojq.Cli
open Gojq

/-! ## Specification vocabulary (independent of the code's loop structure) -/

def isNL (b : UInt8) : Bool := b == LF || b == CR

/-- a line terminator (LF, CRLF or a lone CR) has its LAST byte at index `i` of `s` -/
def termEndsAt (s : Bytes) (i : Nat) : Bool :=
  s[i]? == some LF || (s[i]? == some CR && s[i+1]? != some LF)

/-- number of line terminators that end at or before byte index `p` -/
def termsBefore (s : Bytes) : Nat → Nat
  | 0 => 0
  | e + 1 => termsBefore s e + (if termEndsAt s e then 1 else 0)

/-- start of the line byte `p` lies on: the end of the last terminator ending at or before `p` -/
def lineStart (s : Bytes) : Nat → Nat
  | 0 => 0
  | e + 1 => if termEndsAt s e then e + 1 else lineStart s e

/-- the text of the line byte `p` lies on, without its terminator -/
def trueLine (s : Bytes) (p : Nat) : Bytes := (s.drop (lineStart s p)).takeWhile (fun b => !isNL b)

def firstNL : Bytes → Option Nat
  | [] => none
  | b :: rest => if isNL b then some 0 else (firstNL rest).map (· + 1)


theorem indexNewline_cons (b : UInt8) (rest : Bytes) :
    indexNewline (b :: rest) = if isNL b then some 0 else (indexNewline rest).map (· + 1) := by
  unfold indexNewline isNL
  by_cases h1 : b = LF
  · subst h1; simp [indexByte]
  · by_cases h2 : b = CR
    · subst h2
      have hne : (CR == LF) = false := by decide
      cases hL : indexByte LF rest <;> simp [indexByte, hne, hL]
    · have e1 : (b == LF) = false := by simpa using h1
      have e2 : (b == CR) = false := by simpa using h2
      simp only [indexByte, e1, e2, Bool.false_or, Bool.false_eq_true, if_false]
      cases hL : indexByte LF rest with
      | none =>
        simp only [Option.map_none, indexByte, e2, Bool.false_eq_true, if_false]
        cases hC : indexByte CR rest <;> simp
      | some i =>
        simp only [Option.map_some, List.take_succ_cons, indexByte, e2, Bool.false_eq_true, if_false]
        cases hC : indexByte CR (List.take i rest) <;> simp

theorem indexNewline_eq_firstNL (s : Bytes) : indexNewline s = firstNL s := by
  induction s with
  | nil => rfl
  | cons b rest ih => rw [indexNewline_cons, firstNL, ih]

end Gojq.Cli

namespace Gojq.Cli
open Gojq

/-! ### index shifting -/

theorem termEndsAt_drop (s : Bytes) (n i : Nat) : termEndsAt (s.drop n) i = termEndsAt s (n + i) := by
  simp [termEndsAt, List.getElem?_drop, Nat.add_assoc]

theorem termsBefore_add (s : Bytes) (a d : Nat) :
    termsBefore s (a + d) = termsBefore s a + termsBefore (s.drop a) d := by
  induction d with
  | zero => simp [termsBefore]
  | succ d ih =>
    rw [← Nat.add_assoc]; simp only [termsBefore, ih, termEndsAt_drop]; omega

theorem lineStart_le (s : Bytes) (p : Nat) : lineStart s p ≤ p := by
  induction p with
  | zero => simp [lineStart]
  | succ e ih => simp only [lineStart]; split <;> omega

theorem lineStart_add (s : Bytes) (a d : Nat) (h : lineStart s a = a) :
    lineStart s (a + d) = a + lineStart (s.drop a) d := by
  induction d with
  | zero => simp [lineStart, h]
  | succ d ih =>
    rw [← Nat.add_assoc]; simp only [lineStart, ih, termEndsAt_drop]
    split <;> omega

theorem no_terms (s : Bytes) (e : Nat) (h : ∀ j, j < e → termEndsAt s j = false) :
    termsBefore s e = 0 ∧ lineStart s e = 0 := by
  induction e with
  | zero => simp [termsBefore, lineStart]
  | succ e ih =>
    have := ih (fun j hj => h j (by omega))
    simp [termsBefore, lineStart, h e (by omega), this]

/-! ### what `firstNL` finds -/

theorem firstNL_none (s : Bytes) (h : firstNL s = none) : ∀ b, b ∈ s → isNL b = false := by
  induction s with
  | nil => simp
  | cons a rest ih =>
    simp only [firstNL] at h
    split at h
    · simp at h
    · rename_i hn
      intro b hb
      rcases List.mem_cons.mp hb with rfl | hb
      · simpa using hn
      · exact ih (by simpa using h) b hb

theorem firstNL_some (s : Bytes) (i : Nat) (h : firstNL s = some i) :
    (∃ b, s[i]? = some b ∧ isNL b = true) ∧ (∀ j b, j < i → s[j]? = some b → isNL b = false) ∧
    s.takeWhile (fun b => !isNL b) = s.take i := by
  induction s generalizing i with
  | nil => simp [firstNL] at h
  | cons a rest ih =>
    simp only [firstNL] at h
    split at h
    · rename_i hn
      have : i = 0 := by simpa using h.symm
      subst this
      refine ⟨⟨a, by simp, hn⟩, by omega, by simp [List.takeWhile, hn]⟩
    · rename_i hn
      cases hr : firstNL rest with
      | none => simp [hr] at h
      | some i' =>
        have : i = i' + 1 := by simpa [hr] using h.symm
        subst this
        obtain ⟨h1, h2, h3⟩ := ih i' hr
        refine ⟨by simpa using h1, ?_, ?_⟩
        · intro j b hj hb
          cases j with
          | zero => simp at hb; subst hb; simpa using hn
          | succ j => exact h2 j b (by omega) (by simpa using hb)
        · have : (!isNL a) = true := by simpa using hn
          simp [List.takeWhile, this, h3]

theorem takeWhile_all (s : Bytes) (h : ∀ b, b ∈ s → isNL b = false) : s.takeWhile (fun b => !isNL b) = s := by
  induction s with
  | nil => rfl
  | cons a rest ih =>
    have : (!isNL a) = true := by simp [h a (by simp)]
    simp only [List.takeWhile, this]
    rw [ih (fun b hb => h b (by simp [hb]))]

theorem not_termEndsAt_of_not_nl (s : Bytes) (j : Nat) (h : ∀ b, s[j]? = some b → isNL b = false) :
    termEndsAt s j = false := by
  unfold termEndsAt
  cases hj : s[j]? with
  | none => simp
  | some b =>
    have := h b hj
    simp only [isNL, Bool.or_eq_false_iff] at this
    have h1 : b ≠ LF := by simpa using this.1
    have h2 : b ≠ CR := by simpa using this.2
    simp [h1, h2]

theorem hasPrefixCRLF_eq (l : Bytes) : hasPrefixCRLF l = (l[0]? == some CR && l[1]? == some LF) := by
  cases l with
  | nil => rfl
  | cons x t => cases t with
    | nil => simp [hasPrefixCRLF]
    | cons y t => simp [hasPrefixCRLF]

/-- what `scanNext` does on a non-empty rest, in terms of terminator positions -/
theorem scanNext_spec (rest : Bytes) (hne : rest ≠ []) :
    ∃ adv, scanNext rest = some ((rest.takeWhile (fun b => !isNL b)), adv) ∧ 1 ≤ adv ∧ adv ≤ rest.length ∧
      (∀ j, j + 1 < adv → termEndsAt rest j = false) ∧
      ((rest.takeWhile (fun b => !isNL b)).length < adv ∧ termEndsAt rest (adv - 1) = true ∨
       (rest.takeWhile (fun b => !isNL b)) = rest ∧ adv = rest.length ∧ ∀ j, termEndsAt rest j = false) := by
  cases rest with
  | nil => exact absurd rfl hne
  | cons a r =>
    simp only [scanNext, indexNewline_eq_firstNL]
    cases hf : firstNL (a :: r) with
    | none =>
      have hall := firstNL_none _ hf
      refine ⟨(a :: r).length, by rw [takeWhile_all _ hall], by simp, Nat.le_refl _, ?_, Or.inr ⟨takeWhile_all _ hall, rfl, ?_⟩⟩
      · intro j _
        exact not_termEndsAt_of_not_nl _ j (fun b hb => hall b (List.mem_of_getElem? hb))
      · intro j
        exact not_termEndsAt_of_not_nl _ j (fun b hb => hall b (List.mem_of_getElem? hb))
    | some i =>
      obtain ⟨⟨b, hb, hnl⟩, hbefore, htw⟩ := firstNL_some _ i hf
      have hi : i < (a :: r).length := by
        have := List.getElem?_eq_some_iff.mp hb; exact this.1
      have hlen : ((a :: r).take i).length = i := by
        rw [List.length_take]; exact Nat.min_eq_left (Nat.le_of_lt hi)
      have hlow : ∀ j, j < i → termEndsAt (a :: r) j = false := fun j hj =>
        not_termEndsAt_of_not_nl _ j (fun b' hb' => hbefore j b' hj hb')
      rw [htw]
      have hpre : hasPrefixCRLF ((a :: r).drop i) = ((a :: r)[i]? == some CR && (a :: r)[i+1]? == some LF) := by
        rw [hasPrefixCRLF_eq]; simp [List.getElem?_drop]
      by_cases hcrlf : hasPrefixCRLF ((a :: r).drop i) = true
      · -- CRLF
        have hh := hcrlf
        rw [hpre] at hh
        simp only [Bool.and_eq_true, beq_iff_eq] at hh
        obtain ⟨g0, g1⟩ := hh
        have hi1 : i + 1 < (a :: r).length := (List.getElem?_eq_some_iff.mp g1).1
        refine ⟨i + 1 + 1, by simp [hcrlf], by omega, by omega, ?_, Or.inl ⟨by omega, ?_⟩⟩
        · intro j hj
          by_cases hji : j < i
          · exact hlow j hji
          · have : j = i := by omega
            subst this
            have hne' : (CR == LF) = false := by decide
            simp [termEndsAt, g0, g1, hne']
        · simp [termEndsAt, g1]
      · -- LF or lone CR
        have hcr : hasPrefixCRLF ((a :: r).drop i) = false := by simpa using hcrlf
        refine ⟨i + 1, by simp [hcr], by omega, by omega, fun j hj => hlow j (by omega), Or.inl ⟨by omega, ?_⟩⟩
        rw [hpre, hb] at hcr
        simp only [Nat.add_sub_cancel, termEndsAt, hb]
        simp only [isNL, Bool.or_eq_true, beq_iff_eq] at hnl
        rcases hnl with rfl | rfl
        · simp
        · have hne' : (CR == LF) = false := by decide
          have hne2 : (some CR == some LF) = false := by decide
          simp only [beq_self_eq_true, Bool.true_and] at hcr
          have hcr' : ¬ r[i]? = some LF := by simpa using hcr
          simp [hne2, hcr']

end Gojq.Cli

namespace Gojq.Cli
open Gojq

theorem lineLoop_nil (fuel : Nat) (start : Nat) (offset : Int) (line : Nat) (ls : Bytes) :
    lineLoop fuel [] start offset line ls = (ls, line, offset) := by
  cases fuel <;> simp [lineLoop, scanNext]

theorem lineLoop_spec (fuel : Nat) : ∀ (rest : Bytes) (start q : Nat) (line : Nat) (ls : Bytes),
    rest ≠ [] → rest.length ≤ fuel →
    ∃ rel : Int, lineLoop (fuel + 1) rest start ((start : Int) + 1 + q) line ls =
        (trueLine rest (min q (rest.length - 1)), line + 1 + termsBefore rest (min q (rest.length - 1)), rel) ∧
      min (max (rel - 1) 0).toNat (trueLine rest (min q (rest.length - 1))).length =
        min (q - lineStart rest (min q (rest.length - 1))) (trueLine rest (min q (rest.length - 1))).length := by
  induction fuel with
  | zero => intro rest _ _ _ _ hne hlen; cases rest <;> simp_all
  | succ f ih =>
    intro rest start q line ls hne hlen
    obtain ⟨adv, hscan, hadv1, hadvle, hlow, hcase⟩ := scanNext_spec rest hne
    have htwlen : (rest.takeWhile (fun b => !isNL b)).length ≤ rest.length := (List.takeWhile_prefix _).length_le
    rw [lineLoop, hscan]
    simp only
    by_cases hbrk : ((start + adv : Nat) : Int) ≥ (start : Int) + 1 + q
    · -- the offending byte is on this line (or on its terminator)
      rw [if_pos hbrk]
      have hq : q < adv := by omega
      have hp : min q (rest.length - 1) = q := by omega
      obtain ⟨h0, h1⟩ := no_terms rest q (fun j hj => hlow j (by omega))
      refine ⟨(start : Int) + 1 + q - start, ?_, ?_⟩
      · rw [hp, h0, trueLine, h1]; rfl
      · rw [hp, h1]; congr 1; omega
    · rw [if_neg hbrk]
      have hq : adv ≤ q := by omega
      by_cases hd : rest.drop adv = []
      · -- last line of the text, the offset lies beyond it
        rw [hd, lineLoop_nil]
        have hadv : adv = rest.length := by
          have := congrArg List.length hd; simp at this; omega
        have hp : min q (rest.length - 1) = adv - 1 := by omega
        obtain ⟨h0, h1⟩ := no_terms rest (adv - 1) (fun j hj => hlow j (by omega))
        refine ⟨(start : Int) + 1 + q, ?_, ?_⟩
        · rw [hp, h0, trueLine, h1]; rfl
        · rw [hp, h1, trueLine, h1, List.drop_zero]; omega
      · -- continue with the next line
        have hdl : (rest.drop adv).length = rest.length - adv := List.length_drop
        have hdpos : 0 < (rest.drop adv).length := List.length_pos_iff.mpr hd
        have hterm : termEndsAt rest (adv - 1) = true := by
          rcases hcase with ⟨_, h⟩ | ⟨_, h, _⟩
          · exact h
          · omega
        have hoffs : ((start : Int) + 1 + q) = ((start + adv : Nat) : Int) + 1 + ((q - adv : Nat) : Int) := by omega
        obtain ⟨rel, heq, hrel⟩ := ih (rest.drop adv) (start + adv) (q - adv) (line + 1) (rest.takeWhile (fun b => !isNL b)) hd (by omega)
        have hp : min q (rest.length - 1) = adv + min (q - adv) ((rest.drop adv).length - 1) := by omega
        obtain ⟨h0, h1⟩ := no_terms rest (adv - 1) (fun j hj => hlow j (by omega))
        have hta : termsBefore rest adv = 1 := by
          have : adv = (adv - 1) + 1 := by omega
          rw [this, termsBefore, h0]; simp [hterm]
        have hla : lineStart rest adv = adv := by
          have : adv = (adv - 1) + 1 := by omega
          rw [this, lineStart]; simp [hterm]
        have htl : trueLine rest (adv + min (q - adv) ((rest.drop adv).length - 1))
            = trueLine (rest.drop adv) (min (q - adv) ((rest.drop adv).length - 1)) := by
          rw [trueLine, trueLine, lineStart_add _ _ _ hla, List.drop_drop]
        rw [hoffs]
        refine ⟨rel, ?_, ?_⟩
        · rw [heq, hp, termsBefore_add, hta, htl]
          simp only [Prod.mk.injEq, true_and, and_true]; omega
        · rw [hp, htl, lineStart_add _ _ _ hla, hrel, Nat.sub_sub]

end Gojq.Cli

namespace Gojq.Cli
open Gojq

/-- `trimLoop` returns a prefix of `s` that is `s` itself or ends within the positions visited -/
theorem trimLoop_spec (s : Bytes) : ∀ (steps i1 : Nat), i1 ≤ s.length →
    ∃ n, trimLoop s steps i1 = s.take n ∧ n ≤ s.length ∧ (n = s.length ∨ (i1 ≤ n + steps ∧ n ≤ i1)) := by
  intro steps
  induction steps with
  | zero => intro i1 _; exact ⟨s.length, by simp [trimLoop], Nat.le_refl _, Or.inl rfl⟩
  | succ st ih =>
    intro i1 hi
    cases i1 with
    | zero => exact ⟨s.length, by simp [trimLoop], Nat.le_refl _, Or.inl rfl⟩
    | succ i =>
      rw [trimLoop]
      cases hb : s[i]? with
      | none => exact ⟨s.length, by simp, Nat.le_refl _, Or.inl rfl⟩
      | some b =>
        simp only
        split
        · exact ⟨i + 1, rfl, hi, Or.inr ⟨by omega, Nat.le_refl _⟩⟩
        · split
          · split
            · exact ⟨i, rfl, by omega, Or.inr ⟨by omega, by omega⟩⟩
            · exact ⟨s.length, by simp, Nat.le_refl _, Or.inl rfl⟩
          · obtain ⟨n, h1, h2, h3⟩ := ih i (by omega)
            exact ⟨n, h1, h2, by omega⟩

/-- `trimLastInvalidRune s` is a prefix of `s` that drops at most 3 bytes -/
theorem trim_spec (s : Bytes) : ∃ n, trimLastInvalidRune s = s.take n ∧ n ≤ s.length ∧ s.length ≤ n + 3 := by
  obtain ⟨n, h1, h2, h3⟩ := trimLoop_spec s 3 s.length (Nat.le_refl _)
  exact ⟨n, h1, h2, by omega⟩

theorem trim_length (s : Bytes) : (trimLastInvalidRune s).length ≤ s.length ∧ s.length ≤ (trimLastInvalidRune s).length + 3 := by
  obtain ⟨n, h1, h2, h3⟩ := trim_spec s
  rw [h1, List.length_take]; omega

theorem trim_prefix (s : Bytes) : trimLastInvalidRune s = s.take (trimLastInvalidRune s).length := by
  obtain ⟨n, h1, h2, _⟩ := trim_spec s
  rw [h1, List.length_take, Nat.min_eq_left h2]

/-- What `excerpt` guarantees for every byte string and every offset. `o0` is the position of the
    offending byte within the line (clamped to the line end). -/
theorem excerpt_spec (L : Bytes) (off : Int) :
    ∃ a : Nat,
      let o0 := min (max (off - 1) 0).toNat L.length
      let ex := (excerpt L off).1
      let k := (excerpt L off).2
      ex = (L.drop a).take ex.length ∧ a + ex.length ≤ L.length ∧
      a ≤ o0 ∧ (o0 ≤ 48 → a = 0) ∧ (48 < o0 → o0 ≤ a + 51 ∧ a + 48 ≤ o0) ∧
      ex.length ≤ 64 ∧ (64 ≤ L.length - a → 61 ≤ ex.length) ∧ (L.length - a < 64 → L.length ≤ a + ex.length + 3) ∧
      k ≤ ex.length ∧ a + k ≤ o0 ∧ (o0 ≤ a + k + 3 ∨ k = ex.length) := by
  -- name the intermediate values of the Go code
  generalize ho : min (max (off - 1) 0).toNat L.length = o
  have hoL : o ≤ L.length := by omega
  generalize hskip : (if o > 48 then (trimLastInvalidRune (L.take (o - 48))).length else 0) = skip
  have hsk : (o ≤ 48 → skip = 0) ∧ (48 < o → o ≤ skip + 51 ∧ skip + 48 ≤ o) := by
    constructor
    · intro h; rw [← hskip, if_neg (by omega)]
    · intro h
      rw [← hskip, if_pos h]
      have := trim_length (L.take (o - 48))
      rw [List.length_take] at this
      omega
  generalize hL2 : trimLastInvalidRune ((L.drop skip).take (min 64 (L.drop skip).length)) = L2
  have hL2len := trim_length ((L.drop skip).take (min 64 (L.drop skip).length))
  have hL2pre := trim_prefix ((L.drop skip).take (min 64 (L.drop skip).length))
  rw [hL2] at hL2len hL2pre
  rw [List.length_take, List.length_drop] at hL2len
  generalize hk : (if o - skip < L2.length then (trimLastInvalidRune (L2.take (o - skip))).length else L2.length) = k
  have hex : excerpt L off = (L2, k) := by
    simp only [excerpt, ho, hskip, hL2, hk]
  refine ⟨skip, ?_⟩
  simp only [hex]
  have hk' : k ≤ L2.length ∧ skip + k ≤ o ∧ (o ≤ skip + k + 3 ∨ k = L2.length) := by
    rw [← hk]
    split
    · rename_i hlt
      have := trim_length (L2.take (o - skip))
      rw [List.length_take] at this
      omega
    · omega
  refine ⟨?_, by omega, by omega, hsk.1, hsk.2, by omega, by omega, by omega, hk'.1, hk'.2.1, hk'.2.2⟩
  rw [hL2pre, List.take_take, List.length_take]
  congr 1
  omega

end Gojq.Cli

namespace Gojq.Cli
open Gojq

theorem countLF_append (a b : Bytes) : countLF (a ++ b) = countLF a + countLF b := by
  induction a with
  | nil => simp [countLF]
  | cons x xs ih => simp only [List.cons_append, countLF, ih]; omega

/-- What the window bookkeeping is supposed to maintain, relative to the whole input `inp`
    and the end offset `lastEnd` of the last value the decoder returned. -/
structure WinInv (inp : Bytes) (s : Win) (lastEnd : Nat) : Prop where
  /-- `offset` is the absolute offset of `buf[0]`: `buf = inp[offset : offset + |buf|]` -/
  buf_eq : s.buf = (inp.drop s.offset).take s.buf.length
  rest_eq : s.rest = inp.drop (s.offset + s.buf.length)
  bound : s.offset + s.buf.length ≤ inp.length
  /-- `line` is the number of `'\n'` before `offset` -/
  line_eq : s.line = countLF (inp.take s.offset)
  /-- nothing the decoder can still complain about has been discarded -/
  le_end : s.offset ≤ lastEnd
  end_le : lastEnd ≤ s.offset + s.buf.length

/-- event sequences a decoder can produce: a value's end offset is monotone and lies within what
    has been read (`rp` = number of bytes read so far, `le` = end of the previous value) -/
def traceOK (inpLen : Nat) : Nat → Nat → List Ev → Prop
  | _, _, [] => True
  | rp, le, .read n :: es => traceOK inpLen (min (rp + n) inpLen) le es
  | rp, le, .decoded e :: es => le ≤ e ∧ e ≤ rp ∧ traceOK inpLen rp e es

def traceEnd : Nat → List Ev → Nat
  | le, [] => le
  | le, .read _ :: es => traceEnd le es
  | _, .decoded e :: es => traceEnd e es

theorem WinInv.init (inp : Bytes) : WinInv inp (Win.init inp) 0 := by
  constructor <;> simp [Win.init, countLF]

theorem WinInv.read {inp : Bytes} {s : Win} {le : Nat} (h : WinInv inp s le) (n : Nat) :
    ∃ s', Win.step thr s (.read n) = some s' ∧ WinInv inp s' le ∧
      s'.offset + s'.buf.length = min (s.offset + s.buf.length + n) inp.length := by
  refine ⟨_, rfl, ?_, ?_⟩
  · have hr := h.rest_eq
    have hlen : (s.rest.take n).length = min n (inp.length - (s.offset + s.buf.length)) := by
      rw [hr, List.length_take, List.length_drop]
    constructor
    · show s.buf ++ s.rest.take n = (inp.drop s.offset).take (s.buf ++ s.rest.take n).length
      rw [List.length_append, List.take_add, ← h.buf_eq, List.drop_drop, ← hr]
      congr 1
      rw [List.length_take]
      by_cases hc : n ≤ s.rest.length
      · rw [Nat.min_eq_left hc]
      · rw [Nat.min_eq_right (by omega), List.take_of_length_le (by omega), List.take_of_length_le (Nat.le_refl _)]
    · show s.rest.drop n = inp.drop (s.offset + (s.buf ++ s.rest.take n).length)
      rw [List.length_append, hlen, hr, List.drop_drop]
      by_cases hc : n ≤ inp.length - (s.offset + s.buf.length)
      · rw [Nat.min_eq_left hc]; congr 1; omega
      · rw [Nat.min_eq_right (by omega)]
        rw [List.drop_of_length_le (by omega), List.drop_of_length_le (by have := h.bound; omega)]
    · show s.offset + (s.buf ++ s.rest.take n).length ≤ inp.length
      rw [List.length_append, hlen]; have := h.bound; omega
    · exact h.line_eq
    · exact h.le_end
    · show le ≤ s.offset + (s.buf ++ s.rest.take n).length
      rw [List.length_append]; have := h.end_le; omega
  · show s.offset + (s.buf ++ s.rest.take n).length = _
    rw [List.length_append, h.rest_eq, List.length_take, List.length_drop]
    have := h.bound; omega

theorem WinInv.decoded {inp : Bytes} {s : Win} {le : Nat} (h : WinInv inp s le) (e : Nat)
    (h1 : le ≤ e) (h2 : e ≤ s.offset + s.buf.length) :
    ∃ s', Win.step thr s (.decoded e) = some s' ∧ WinInv inp s' e ∧
      s'.offset + s'.buf.length = s.offset + s.buf.length := by
  have hoe : s.offset ≤ e := Nat.le_trans h.le_end h1
  simp only [Win.step]
  split
  · rw [if_neg (by omega)]
    refine ⟨_, rfl, ?_, ?_⟩
    · have hn : s.offset + (e - s.offset) = e := by omega
      constructor
      · show s.buf.drop (e - s.offset) = (inp.drop (s.offset + (e - s.offset))).take (s.buf.drop (e - s.offset)).length
        rw [List.length_drop]
        conv => lhs; rw [h.buf_eq]
        rw [List.drop_take, List.drop_drop]
      · show s.rest = inp.drop (s.offset + (e - s.offset) + (s.buf.drop (e - s.offset)).length)
        rw [List.length_drop, h.rest_eq]; congr 1; omega
      · show s.offset + (e - s.offset) + (s.buf.drop (e - s.offset)).length ≤ inp.length
        rw [List.length_drop]; have := h.bound; omega
      · show s.line + countLF (s.buf.take (e - s.offset)) = countLF (inp.take (s.offset + (e - s.offset)))
        rw [List.take_add, countLF_append, ← h.line_eq]
        congr 2
        conv => lhs; rw [h.buf_eq]
        rw [List.take_take]; congr 1; omega
      · show s.offset + (e - s.offset) ≤ e
        omega
      · show e ≤ s.offset + (e - s.offset) + (s.buf.drop (e - s.offset)).length
        rw [List.length_drop]; omega
    · show s.offset + (e - s.offset) + (s.buf.drop (e - s.offset)).length = _
      rw [List.length_drop]; omega
  · exact ⟨s, rfl, ⟨h.buf_eq, h.rest_eq, h.bound, h.line_eq, hoe, h2⟩, rfl⟩

/-- the invariant holds along every event sequence a decoder can produce; the run never panics -/
theorem window_run {inp : Bytes} {thr : Nat} : ∀ (evs : List Ev) (s : Win) (le : Nat), WinInv inp s le →
    traceOK inp.length (s.offset + s.buf.length) le evs →
    ∃ s', Win.run (Win.step thr) s evs = some s' ∧ WinInv inp s' (traceEnd le evs) := by
  intro evs
  induction evs with
  | nil => intro s le h _; exact ⟨s, rfl, h⟩
  | cons ev es ih =>
    intro s le h hok
    cases ev with
    | read n =>
      obtain ⟨s', hs, hinv, hrp⟩ := h.read (thr := thr) n
      simp only [traceOK] at hok
      rw [← hrp] at hok
      obtain ⟨s'', hrun, hinv'⟩ := ih s' le hinv hok
      exact ⟨s'', by simp only [Win.run, hs, hrun], hinv'⟩
    | decoded e =>
      simp only [traceOK] at hok
      obtain ⟨s', hs, hinv, hrp⟩ := h.decoded (thr := thr) e hok.1 hok.2.1
      obtain ⟨s'', hrun, hinv'⟩ := ih s' e hinv (by rw [hrp]; exact hok.2.2)
      exact ⟨s'', by simp only [Win.run, hs, hrun], hinv'⟩

end Gojq.Cli

namespace Gojq.Cli
open Gojq

/-- no lone CR: every CR is followed by LF (texts with LF or CRLF terminators) -/
def NoLoneCR (s : Bytes) : Prop := ∀ j, s[j]? = some CR → s[j+1]? = some LF

theorem termEndsAt_noLoneCR (s : Bytes) (h : NoLoneCR s) (j : Nat) : termEndsAt s j = (s[j]? == some LF) := by
  unfold termEndsAt
  by_cases hc : s[j]? = some CR
  · have := h j hc
    have hne : (some CR == some LF) = false := by decide
    simp [hc, this, hne]
  · have : (s[j]? == some CR) = false := by simpa using hc
    simp [this]

theorem countLF_take_succ (s : Bytes) (e : Nat) :
    countLF (s.take (e + 1)) = countLF (s.take e) + (if s[e]? == some LF then 1 else 0) := by
  rw [List.take_add_one, countLF_append]
  cases h : s[e]? with
  | none => simp [countLF]
  | some b =>
    simp only [Option.toList, countLF]
    by_cases hb : b = LF
    · subst hb; simp
    · have h1 : (b == LF) = false := by simpa using hb
      have h2 : (some b == some LF) = false := by simpa using hb
      simp [h1, h2]

/-- with LF / CRLF terminators only, terminators before `e` are the `'\n'` bytes before `e` -/
theorem termsBefore_eq_countLF (s : Bytes) (h : NoLoneCR s) (e : Nat) : termsBefore s e = countLF (s.take e) := by
  induction e with
  | zero => simp [termsBefore, countLF]
  | succ e ih => rw [termsBefore, ih, countLF_take_succ, termEndsAt_noLoneCR s h]

theorem termEndsAt_take (s : Bytes) (m j : Nat) (h : j + 1 < m) : termEndsAt (s.take m) j = termEndsAt s j := by
  unfold termEndsAt
  rw [List.getElem?_take_of_lt (by omega), List.getElem?_take_of_lt h]

theorem termsBefore_take (s : Bytes) (m e : Nat) (h : e < m) : termsBefore (s.take m) e = termsBefore s e := by
  induction e with
  | zero => rfl
  | succ e ih => rw [termsBefore, termsBefore, ih (by omega), termEndsAt_take _ _ _ (by omega)]

/-- the line number `getLineByOffset` returns for a 1-based offset inside the text -/
theorem getLineByOffset_line (w : Nat → Nat) (str : Bytes) (q : Nat) (hq : q < str.length) :
    (getLineByOffset w str ((q : Int) + 1)).2.1 = 1 + termsBefore str q := by
  have hne : str ≠ [] := by intro h; subst h; simp at hq
  obtain ⟨rel, heq, _⟩ := lineLoop_spec str.length str 0 q 0 [] hne (Nat.le_refl _)
  have hmin : min q (str.length - 1) = q := by omega
  rw [hmin] at heq
  have hoff : ((q : Int) + 1) = ((0 : Nat) : Int) + 1 + q := by omega
  simp only [getLineByOffset, getLineByOffset']
  rw [hoff, heq]


/-- a window `contents = inp[pos : pos+m]` with `line` = number of LF before `pos`: the line number
    `jsonParseError.Error` prints for relative 1-based offset `q+1` is the line of byte `pos+q` of `inp` -/
theorem jsonReport_line (w : Nat → Nat) (inp contents : Bytes) (pos m line q : Nat)
    (hc : contents = (inp.drop pos).take m) (hl : line = countLF (inp.take pos)) (hq : q < contents.length)
    (hcr : NoLoneCR inp) :
    (jsonReport w contents line (.syntax ((q : Int) + 1))).line = 1 + termsBefore inp (pos + q) := by
  have hline := getLineByOffset_line w contents q hq
  simp only [jsonReport]
  show (getLineByOffset w contents ((q : Int) + 1)).2.1 + line = _
  have hqm : q < m := by
    have := congrArg List.length hc; rw [List.length_take] at this; omega
  rw [hline, hl, termsBefore_add, termsBefore_eq_countLF inp hcr pos]
  have : termsBefore contents q = termsBefore (inp.drop pos) q := by
    rw [hc, termsBefore_take _ _ _ hqm]
  rw [this]; omega

/-- **The window reports the right line.** Under the invariant, for an error the decoder raises
    at absolute 1-based offset `F` after the last decoded value and within what it has read, on a
    text with LF / CRLF terminators, the line number printed is the line of byte `F-1` in the whole
    input. -/
theorem window_report_line (w : Nat → Nat) {inp : Bytes} {s : Win} {le : Nat} (h : WinInv inp s le)
    (F : Nat) (h1 : le < F) (h2 : F ≤ s.offset + s.buf.length) (hcr : NoLoneCR inp) :
    (s.report w (.syntax F)).line = 1 + termsBefore inp (F - 1) := by
  have hoff := h.le_end
  obtain ⟨q, rfl⟩ : ∃ q, F = s.offset + q + 1 := ⟨F - 1 - s.offset, by omega⟩
  have hq : q < s.buf.length := by omega
  have hrel : (((s.offset + q + 1 : Nat) : Int) - (s.offset : Int)) = (q : Int) + 1 := by omega
  have hline := getLineByOffset_line w s.buf q hq
  simp only [Win.report, jsonReport]
  rw [hrel]
  show (getLineByOffset w s.buf ((q : Int) + 1)).2.1 + s.line = _
  rw [hline, h.line_eq, Nat.add_sub_cancel, termsBefore_add, termsBefore_eq_countLF inp hcr s.offset]
  have : termsBefore s.buf q = termsBefore (inp.drop s.offset) q := by
    rw [h.buf_eq, termsBefore_take _ _ _ hq]
  rw [this]; omega



theorem take_length_take (l : Bytes) (n : Nat) : l.take (l.take n).length = l.take n := by
  rw [List.length_take]
  by_cases hc : n ≤ l.length
  · rw [Nat.min_eq_left hc]
  · rw [Nat.min_eq_right (by omega), List.take_of_length_le (Nat.le_refl _), List.take_of_length_le (by omega)]

/-- loop invariant of `getContents`' chunked re-read -/
theorem rereadLoop_spec (bs : Nat) (hbs : 4 ≤ bs) (inp : Bytes) : ∀ (fuel pos : Nat) (off : Int) (line : Nat),
    pos ≤ inp.length → off.toNat ≤ fuel →
    ∃ pos' off' line', rereadLoop bs inp fuel pos off line = (pos', off', line') ∧
      pos ≤ pos' ∧ pos' ≤ inp.length ∧ (pos' : Int) + off' = pos + off ∧
      line' = line + countLF ((inp.drop pos).take (pos' - pos)) ∧
      (off' ≤ ((bs * 3 / 4 : Nat) : Int) ∨ pos' = inp.length) ∧
      (off' = off ∨ ((bs / 4 : Nat) : Int) ≤ off') := by
  intro fuel
  induction fuel with
  | zero =>
    intro pos off line hp hf
    exact ⟨pos, off, line, rfl, Nat.le_refl _, hp, rfl, by simp [countLF], Or.inl (by omega), Or.inl rfl⟩
  | succ f ih =>
    intro pos off line hp hf
    rw [rereadLoop]
    split
    · rename_i hbig
      simp only
      generalize hw : (min (bs : Int) (off - ((bs / 4 : Nat) : Int))).toNat = want
      have hwant : 1 ≤ want ∧ (want : Int) ≤ off - ((bs / 4 : Nat) : Int) ∧ want ≤ bs := by omega
      have hn : ((inp.drop pos).take want).length = min want (inp.length - pos) := by
        rw [List.length_take, List.length_drop]
      split
      · rename_i hz
        have hz' : ((inp.drop pos).take want).length = 0 := by simpa using hz
        refine ⟨pos, _, _, rfl, Nat.le_refl _, hp, ?_, ?_, Or.inr (by omega), Or.inl (by rw [hz']; simp)⟩
        · rw [hz']; simp
        · rw [List.length_eq_zero_iff.mp hz']; simp [countLF]
      · rename_i hz
        have hz' : 0 < ((inp.drop pos).take want).length := by
          rcases Nat.eq_zero_or_pos ((inp.drop pos).take want).length with h | h
          · exact absurd (by simpa using h) hz
          · exact h
        obtain ⟨pos', off', line', heq, h1, h2, h3, h4, h5, h6⟩ :=
          ih (pos + ((inp.drop pos).take want).length) (off - (((inp.drop pos).take want).length : Nat)) (line + countLF ((inp.drop pos).take want)) (by omega) (by omega)
        refine ⟨pos', off', line', heq, by omega, h2, by omega, ?_, h5, Or.inr ?_⟩
        · rw [h4, Nat.add_assoc, ← countLF_append]
          congr 1
          have e1 : pos' - pos = ((inp.drop pos).take want).length + (pos' - (pos + ((inp.drop pos).take want).length)) := by omega
          rw [e1, List.take_add, List.drop_drop, take_length_take]
        · rcases h6 with h6 | h6
          · rw [h6]; omega
          · exact h6
    · rename_i hsmall
      exact ⟨pos, off, line, rfl, Nat.le_refl _, hp, rfl, by simp [countLF], Or.inl (by omega), Or.inl rfl⟩

end Gojq.Cli

namespace Gojq.Cli
/-- **The re-read reports the right line** (seekable input, LF / CRLF terminators). -/
theorem seek_report_line (w : Nat → Nat) (bs : Nat) (hbs : 4 ≤ bs) (inp : Bytes) (F : Nat)
    (h1 : 1 ≤ F) (h2 : F ≤ inp.length) (hcr : NoLoneCR inp) :
    (seekReport w bs inp (.syntax F)).line = 1 + termsBefore inp (F - 1) := by
  obtain ⟨pos', off', line', heq, _, hp2, hsum, hline, hsmall, hlow⟩ :=
    rereadLoop_spec bs hbs inp ((F : Int).toNat + 1) 0 F 0 (Nat.zero_le _) (by omega)
  simp only [seekReport, getContentsSeek, heq]
  have hoff1 : 1 ≤ off' := by rcases hlow with h | h <;> omega
  obtain ⟨q, rfl⟩ : ∃ q : Nat, off' = (q : Int) + 1 := ⟨(off' - 1).toNat, by omega⟩
  have hq : q < ((inp.drop pos').take bs).length := by
    rw [List.length_take, List.length_drop]
    rcases hsmall with h | h <;> omega
  rw [jsonReport_line w inp _ pos' bs line' q rfl (by rw [hline]; simp) hq hcr]
  congr 2; omega
end Gojq.Cli

namespace Gojq.Cli
open Gojq

/-- `getLineByOffset'` in terms of the specification vocabulary: for a non-empty text and the
    1-based offset `q+1`, with `p` the offending byte clamped to the last byte of the text -/
theorem getLineByOffset'_spec (str : Bytes) (hne : str ≠ []) (q : Nat) :
    ∃ rel : Int,
      getLineByOffset' str ((q : Int) + 1) =
        ((excerpt (trueLine str (min q (str.length - 1))) rel).1, 1 + termsBefore str (min q (str.length - 1)),
         (excerpt (trueLine str (min q (str.length - 1))) rel).2) ∧
      min (max (rel - 1) 0).toNat (trueLine str (min q (str.length - 1))).length =
        min (q - lineStart str (min q (str.length - 1))) (trueLine str (min q (str.length - 1))).length := by
  obtain ⟨rel, heq, hrel⟩ := lineLoop_spec str.length str 0 q 0 [] hne (Nat.le_refl _)
  have hoff : ((q : Int) + 1) = ((0 : Nat) : Int) + 1 + q := by omega
  refine ⟨rel, ?_, hrel⟩
  simp only [getLineByOffset']
  rw [hoff, heq]

theorem trim_ascii (s : Bytes) (h : ∀ b, b ∈ s → b.toNat < 0x80) : trimLastInvalidRune s = s := by
  unfold trimLastInvalidRune
  rcases Nat.eq_zero_or_pos s.length with h0 | hpos
  · rw [h0]; simp [trimLoop]
  · obtain ⟨i, hi⟩ : ∃ i, s.length = i + 1 := ⟨s.length - 1, by omega⟩
    rw [hi, trimLoop]
    have hb : s[i]? = some s[i] := List.getElem?_eq_getElem (by omega)
    rw [hb]
    simp only
    rw [if_pos (h _ (List.getElem_mem _)), ← hi, List.take_length]

theorem runesAux_ascii (s : Bytes) (h : ∀ b, b ∈ s → b.toNat < 0x80) : ∀ fuel, s.length ≤ fuel →
    Utf8.runesAux fuel s = s.map (·.toNat) := by
  induction s with
  | nil => intro fuel _; cases fuel <;> rfl
  | cons a r ih =>
    intro fuel hf
    cases fuel with
    | zero => simp at hf
    | succ f =>
      have ha : a.toNat < 0x80 := h a (by simp)
      simp only [Utf8.runesAux, Utf8.decodeRune, ha, if_true]
      simp only [List.map_cons, Nat.max_self, List.drop_succ_cons, List.drop_zero]
      rw [ih (fun b hb => h b (by simp [hb])) f (by simpa using hf)]

/-- on ASCII text the caret column is the sum of the widths of the bytes before the caret -/
theorem strWidth_ascii (w : Nat → Nat) (s : Bytes) (h : ∀ b, b ∈ s → b.toNat < 0x80) :
    strWidth w s = (s.map (fun b => w b.toNat)).sum := by
  unfold strWidth Utf8.runes
  rw [runesAux_ascii s h _ (Nat.le_refl _), List.map_map]; rfl

/-- on an ASCII line the excerpt is exactly the 48-before / 64-long window and the caret stands
    exactly on the offending byte -/
theorem excerpt_ascii (L : Bytes) (h : ∀ b, b ∈ L → b.toNat < 0x80) (off : Int) :
    excerpt L off =
      ((L.drop (min (max (off - 1) 0).toNat L.length - 48)).take 64,
       min (min (max (off - 1) 0).toNat L.length - (min (max (off - 1) 0).toNat L.length - 48))
           ((L.drop (min (max (off - 1) 0).toNat L.length - 48)).take 64).length) := by
  generalize ho : min (max (off - 1) 0).toNat L.length = o
  have hoL : o ≤ L.length := by omega
  have hsub : ∀ (n : Nat) b, b ∈ L.take n → b.toNat < 0x80 := fun n b hb => h b (List.mem_of_mem_take hb)
  have hsubd : ∀ (n : Nat) b, b ∈ L.drop n → b.toNat < 0x80 := fun n b hb => h b (List.mem_of_mem_drop hb)
  have hskip : (if o > 48 then (trimLastInvalidRune (L.take (o - 48))).length else 0) = o - 48 := by
    split
    · rw [trim_ascii _ (hsub _), List.length_take]; omega
    · omega
  have hL2 : trimLastInvalidRune ((L.drop (o - 48)).take (min 64 (L.drop (o - 48)).length)) = (L.drop (o - 48)).take 64 := by
    rw [trim_ascii _ (fun b hb => hsubd _ b (List.mem_of_mem_take hb))]
    rw [List.take_eq_take_iff]; omega
  simp only [excerpt, ho, hskip, hL2]
  congr 1
  split
  · rename_i hlt
    rw [trim_ascii _ (fun b hb => hsubd _ b (List.mem_of_mem_take (List.mem_of_mem_take hb))), List.length_take]
  · omega

end Gojq.Cli

/-
  Helper lemmas for Props/C01Tie.lean, part 3: names and environments.  The mini reference
  evaluator looks functions up by index, the parameter in a closure chain `Clo` and variables in
  an association list that starts empty in every function body and argument expression;
  `Spec.eval` looks everything up by NAME in one lexical list of bindings.  `EnvRel` says when a
  `Spec` environment realises a mini environment; the lemmas show it is kept by binding a
  variable, calling a function and calling the parameter.
  Core Lean only.
-/
import Gojq.Proofs.MiniSpecRel
namespace Gojq.MiniSpec
open Gojq Gojq.MiniVM

/-! ### names -/

theorem toString_inj {a b : Nat} (h : toString a = toString b) : a = b := by
  have h1 := congrArg String.toList h
  simp only [Nat.toString_eq_repr, Nat.toList_repr] at h1
  have h2 := congrArg (fun l => Nat.ofDigitChars 10 l 0) h1
  simpa [Nat.ofDigitChars_ten_toDigits] using h2

theorem fname_inj {a b : Nat} (h : fname a = fname b) : a = b := by
  unfold fname at h
  have h1 := congrArg String.toList h
  simp only [String.toList_append, List.append_cancel_left_eq] at h1
  exact toString_inj (String.toList_inj.mp h1)

theorem vname_inj {a b : Nat} (h : vname a = vname b) : a = b := by
  unfold vname at h
  have h1 := congrArg String.toList h
  simp only [String.toList_append, List.append_cancel_left_eq] at h1
  exact toString_inj (String.toList_inj.mp h1)

theorem vname_ne_pname (x : Nat) : vname x ≠ pname := by
  intro h
  have := congrArg String.toList h
  simp [vname, pname] at this

theorem vname_ne_empty (x : Nat) : vname x ≠ "empty" := by
  intro h
  have := congrArg String.toList h
  simp [vname] at this

theorem vname_ne_error (x : Nat) : vname x ≠ "error" := by
  intro h
  have := congrArg String.toList h
  simp [vname] at this

theorem pname_ne_empty : pname ≠ "empty" := by decide
theorem pname_ne_error : pname ≠ "error" := by decide

/-! ### the bindings of a translated program -/

/-- the top-level definitions `f0 … f(k-1)` with bodies `body` as `Spec` bindings (innermost first) -/
def E (body : Nat → Query) : Nat → List Spec.Binding
  | 0 => []
  | k+1 => .fn (fname k) [pname] (body k) false :: E body k

/-- the functions `f0 … f(k-1)` are visible, each closed over the definitions up to itself, and
    their bodies are well-scoped and are what the mini bodies are compiled from -/
def FnOK (defs : Name → Q) (body : Nat → Query) (k : Nat) (bs : List Spec.Binding) : Prop :=
  ∀ f, f < k →
    Spec.lookupCall (fname f) 1 bs = .fn [pname] (body f) (.mk (E body (f+1))) false ∧
    (defs f).Closed (f+1) [] ∧ Tr (defs f) (body f)

/-- the bindings the translation creates -/
def BOK : Spec.Binding → Prop
  | .var n _ _ => ∃ x, n = vname x
  | .clo n _ _ => n = pname
  | .fn _ ps _ _ => ps.length = 1
  | .label _ _ => True

def BsOK (bs : List Spec.Binding) : Prop := ∀ b ∈ bs, BOK b

theorem BsOK.cons {b : Spec.Binding} {bs : List Spec.Binding} (hb : BOK b) (h : BsOK bs) : BsOK (b :: bs) := by
  intro c hc
  rcases List.mem_cons.mp hc with rfl | hc
  · exact hb
  · exact h c hc

theorem BsOK_E (body : Nat → Query) : ∀ k, BsOK (E body k)
  | 0 => by intro b hb; simp [E] at hb
  | k+1 => BsOK.cons (by simp [BOK]) (BsOK_E body k)

/-- a name that is neither a variable nor the parameter is not bound (arity 0) -/
theorem lookup_none (name : String) (hv : ∀ x, vname x ≠ name) (hp : pname ≠ name) :
    ∀ bs, BsOK bs → Spec.lookupCall name 0 bs = .none := by
  intro bs
  induction bs with
  | nil => intro _; rfl
  | cons b bs ih =>
    intro h
    have hb := h b (by simp)
    have ih := ih (fun c hc => h c (by simp [hc]))
    cases b with
    | var n v id =>
      obtain ⟨x, rfl⟩ := hb
      simp [Spec.lookupCall, hv x, ih]
    | fn n ps body bi =>
      have : ps.length = 1 := hb
      simp [Spec.lookupCall, this, ih]
    | clo n body env =>
      have : n = pname := hb
      subst this
      simp [Spec.lookupCall, hp, ih]
    | label n id => simp [Spec.lookupCall, ih]

theorem FnOK.mono {defs body k k' bs} (h : FnOK defs body k bs) (hk : k' ≤ k) : FnOK defs body k' bs :=
  fun f hf => h f (by omega)

theorem FnOK.push_var {defs body k bs} (h : FnOK defs body k bs) (n : String) (v : JV) (id : Spec.Ident) :
    FnOK defs body k (.var n v id :: bs) := by
  intro f hf
  have := h f hf
  simpa [Spec.lookupCall] using this

theorem FnOK.push_clo {defs body k bs} (h : FnOK defs body k bs) (n : String) (A : Query) (env : Spec.Env) :
    FnOK defs body k (.clo n A env :: bs) := by
  intro f hf
  have := h f hf
  simpa [Spec.lookupCall] using this

theorem FnOK_E (defs : Name → Q) (body : Nat → Query) :
    ∀ k, (∀ f, f < k → (defs f).Closed (f+1) [] ∧ Tr (defs f) (body f)) → FnOK defs body k (E body k)
  | 0 => by intro _ f hf; omega
  | k+1 => by
    intro hd f hf
    refine ⟨?_, hd f hf⟩
    by_cases hfk : f = k
    · subst hfk
      simp [E, Spec.lookupCall, pname]
    · have hne : fname k ≠ fname f := fun h => hfk (fname_inj h).symm
      have hd' : ∀ g, g < k → (defs g).Closed (g+1) [] ∧ Tr (defs g) (body g) :=
        fun g hg => hd g (Nat.lt_succ_of_lt hg)
      have hfk' : f < k := Nat.lt_of_le_of_ne (Nat.le_of_lt_succ hf) hfk
      have := (FnOK_E defs body k hd' f hfk').1
      simpa [E, Spec.lookupCall, hne] using this

theorem FnOK.toE {defs body k bs} (h : FnOK defs body k bs) {f : Nat} (hf : f < k) :
    FnOK defs body (f+1) (E body (f+1)) :=
  FnOK_E defs body (f+1) (fun g hg => (h g (Nat.lt_of_lt_of_le hg hf)).2)

/-! ### environments -/

/-- the parameter is bound to the closure the mini environment holds, recursively -/
def CloRel (defs : Name → Q) (body : Nat → Query) : Clo → List Spec.Binding → Prop
  | .none, _ => True
  | .mk _ a ρ', bs => ∃ A cbs k', Spec.lookupCall pname 0 bs = .clo A (.mk cbs) ∧ Tr a A ∧
      FnOK defs body k' cbs ∧ BsOK cbs ∧ a.Closed k' [] ∧ (a.HasParam → ρ' ≠ .none) ∧
      CloRel defs body ρ' cbs

structure EnvRel (defs : Name → Q) (body : Nat → Query) (k : Nat) (ρ : MiniVM.Env) (bs : List Spec.Binding) : Prop where
  fns : FnOK defs body k bs
  ok : BsOK bs
  vars : ∀ x w, MiniVM.lookup x ρ.vars = some w → ∃ id, Spec.lookupCall (vname x) 0 bs = .var w id
  clo : CloRel defs body ρ.clo bs

theorem CloRel.push_var {defs body c bs} (h : CloRel defs body c bs) (x : Nat) (v : JV) (id : Spec.Ident) :
    CloRel defs body c (.var (vname x) v id :: bs) := by
  cases c with
  | none => trivial
  | mk g a ρ' =>
    obtain ⟨A, cbs, k', h1, h2⟩ := h
    refine ⟨A, cbs, k', ?_, h2⟩
    simpa [Spec.lookupCall, vname_ne_pname x] using h1

/-- binding a variable -/
theorem EnvRel.push_var {defs body k ρ bs} (h : EnvRel defs body k ρ bs) (x : Nat) (w : JV) (id : Spec.Ident) :
    EnvRel defs body k ⟨ρ.clo, (x, w) :: ρ.vars⟩ (.var (vname x) w id :: bs) where
  fns := h.fns.push_var _ _ _
  ok := BsOK.cons ⟨x, rfl⟩ h.ok
  vars := by
    intro y u hy
    simp only [MiniVM.lookup] at hy
    by_cases hxy : x = y
    · subst hxy
      simp only [if_true, Option.some.injEq] at hy
      subst hy
      exact ⟨id, by simp [Spec.lookupCall]⟩
    · simp only [hxy, if_false] at hy
      obtain ⟨id', h'⟩ := h.vars y u hy
      have hne : vname x ≠ vname y := fun e => hxy (vname_inj e)
      exact ⟨id', by simpa [Spec.lookupCall, hne] using h'⟩
  clo := h.clo.push_var x w id

/-- calling the parameter: the closure's environment realises the closure's mini environment -/
theorem EnvRel.of_clo {defs body k' ρ' cbs} (h2 : FnOK defs body k' cbs) (h3 : BsOK cbs)
    (h4 : CloRel defs body ρ' cbs) : EnvRel defs body k' ⟨ρ', []⟩ cbs where
  fns := h2
  ok := h3
  vars := by intro x w h; simp [MiniVM.lookup] at h
  clo := h4

/-- calling function `f` with argument `a` (jq: `A`) from an environment `bs` -/
theorem EnvRel.call {defs body k ρ bs} (h : EnvRel defs body k ρ bs) {f : Nat} (hf : f < k) {a : Q} {A : Query}
    (g : Option Name) (hA : Tr a A) (ha : a.Closed k []) (hp : a.HasParam → ρ.clo ≠ .none) :
    EnvRel defs body (f+1) ⟨.mk g a ρ.clo, []⟩ (.clo pname A (.mk bs) :: E body (f+1)) where
  fns := (h.fns.toE hf).push_clo _ _ _
  ok := BsOK.cons rfl (BsOK_E body (f+1))
  vars := by intro x w h; simp [MiniVM.lookup] at h
  clo := ⟨A, bs, k, by simp [Spec.lookupCall], hA, h.fns, h.ok, ha, hp, h.clo⟩

/-- a variable in scope is bound -/
theorem lookup_of_mem {α : Type} (x : Nat) : ∀ (l : List (Nat × α)), x ∈ l.map (·.1) → ∃ w, MiniVM.lookup x l = some w
  | [], h => by simp at h
  | (y, a) :: rest, h => by
    simp only [MiniVM.lookup]
    by_cases hyx : y = x
    · exact ⟨a, by simp [hyx]⟩
    · simp only [hyx, if_false]
      apply lookup_of_mem x rest
      simp only [List.map_cons, List.mem_cons] at h
      rcases h with h | h
      · exact absurd h.symm hyx
      · exact h

end Gojq.MiniSpec

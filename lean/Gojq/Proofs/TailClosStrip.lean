/-
  C04, the tail-call pass on programs WITH closures (Props/C04TailClos.lean): the STRIPPED codes.

  `strip` replaces `pushpc t` by `push null` (the same effect on the shape of the data stack) and
  `callpc` by `call 0` (so that the return address of a frame entered through a closure is the pc of a
  `call`, as the chain relation `SR` asks of kept frames).  For every code `c` that passes the shape scan `tailShapeCheck` (closures
  allowed) and the output `c'` of the pass without `callrec`, the stripped codes satisfy the static
  conditions `TailStatic` of the closure-free simulation — so its invariant and one-turn lemma can
  be used, through `step_sim_closures` (Proofs/TailClosTurn.lean), on every turn of `c` / `c'` at
  an instruction that `strip` keeps.
-/
import Gojq.Proofs.TailSimCheck
set_option linter.unusedSimpArgs false
set_option linter.unusedVariables false
namespace Gojq.TailVM
open Gojq Gojq.VM Gojq.OptVM

def strip : Instr → Instr
  | .pushpc _ => .push .null
  | .callpc => .call 0
  | i => i

/-- the instructions `strip` keeps -/
def kept : Instr → Bool
  | .pushpc _ | .callpc => false
  | _ => true

theorem strip_kept {a : Instr} (h : kept a = true) : strip a = a := by
  cases a <;> simp [kept] at h <;> rfl

/-- an instruction that is neither `push` nor `call` comes from itself -/
theorem strip_eq {a b : Instr} (h : strip a = b) (h1 : ∀ v, b ≠ .push v) (h2 : ∀ t, b ≠ .call t) : a = b := by
  cases a <;> simp only [strip] at h <;> first
    | exact h
    | exact absurd h.symm (h1 _)
    | exact absurd h.symm (h2 _)

theorem getElem?_strip (c : Array Instr) (i : Nat) : (c.map strip)[i]? = (c[i]?).map strip := by
  simp [Array.getElem?_map]

theorem strip_get {c : Array Instr} {i : Nat} {a : Instr} (h : (c.map strip)[i]? = some a) :
    ∃ a0, c[i]? = some a0 ∧ strip a0 = a := by
  rw [getElem?_strip] at h
  cases hc : c[i]? with
  | none => rw [hc] at h; simp at h
  | some a0 => rw [hc] at h; exact ⟨a0, rfl, by simpa using h⟩

theorem get_strip {c : Array Instr} {i : Nat} {a : Instr} (h : c[i]? = some a) : (c.map strip)[i]? = some (strip a) := by
  rw [getElem?_strip, h]; rfl

theorem JumpsToRet.strip {c : Array Instr} {pc : Int} (h : JumpsToRet c pc) : JumpsToRet (c.map strip) pc := by
  induction h with
  | ret h0 hr => exact .ret h0 (get_strip hr)
  | jump h0 hj _ ih => exact .jump h0 (get_strip hj) ih

theorem Dead.of_strip {c : Array Instr} {id : Int} (h : Dead (c.map Gojq.TailVM.strip) id) : Dead c id := by
  obtain ⟨j, hj⟩ := h
  obtain ⟨a0, h0, hs⟩ := strip_get hj
  have := strip_eq hs (by intro v h; cases h) (by intro t h; cases h)
  exact ⟨j, by rw [h0, this]⟩

/-- THE STATIC CONDITIONS HOLD OF THE STRIPPED CODES, for every shape-checked code (closures allowed)
    and the pass output without `callrec` -/
theorem tailStatic_strip {c c' : Array Instr} (hshape : tailShapeCheck c = true) (hopt : optTailV c = some c')
    (hnc : noCallrec c' = true) : TailStatic (c.map strip) (c'.map strip) := by
  have hs := shapeOK_of_check hshape
  obtain ⟨hsize, hsite⟩ := optTailV_spec hs.fwd hopt
  have hnc' : ∀ (pc : Nat) (t : Int), c'[pc]? ≠ some (.callrec t) := by
    intro pc t hpc
    unfold noCallrec at hnc
    simp only [List.all_eq_true, List.mem_range] at hnc
    have := hnc pc (Array.getElem?_eq_some_iff.mp hpc).1
    rw [hpc] at this
    simp [kindOf] at this
  refine ⟨by simp [hsize], by simp; exact hs.pos, ?_, ?_, ?_, ?_, ?_, ?_, ?_, ?_⟩
  · have := get_strip hs.last
    simpa [strip] using this
  · obtain ⟨id, v, n, h0⟩ := hs.first
    exact ⟨id, v, n, get_strip h0⟩
  · intro i a ha
    obtain ⟨a0, h0, rfl⟩ := strip_get ha
    rcases hsite i a0 h0 with h1 | ⟨j, id, v, h1, h2, h3, h4, h5⟩
    · exact .inl (get_strip h1)
    · rcases h5 with ⟨hv, h5⟩ | ⟨_, h5⟩
      · subst hv
        subst h1
        exact .inr ⟨j, id, rfl, h2, get_strip h3, get_strip h5, h4.strip⟩
      · exact absurd h5 (hnc' i j)
  · intro i t hi
    obtain ⟨a0, h0, hst⟩ := strip_get hi
    cases a0 <;> simp only [strip, Instr.call.injEq] at hst <;> try cases hst
    · have := hs.at_ i _ h0
      simp only [kindOf, shapeAtK, Bool.and_eq_true, decide_eq_true_eq] at this
      obtain ⟨id, v, n, hsc⟩ := isScopeK_map this.2
      exact ⟨this.1, id, v, n, get_strip hsc⟩
    · obtain ⟨id, v, n, hf⟩ := hs.first
      exact ⟨Int.le_refl _, id, v, n, get_strip hf⟩
  · intro i a ha
    obtain ⟨a0, h0, rfl⟩ := strip_get ha
    have h2 := hs.at_ i a0 h0
    refine ⟨?_, ?_, ?_⟩
    · intro t e; cases a0 <;> simp [strip] at e
    · intro e; cases a0 <;> simp [strip] at e
    · intro t e
      have e' := strip_eq e (by intro v h; cases h) (by intro t h; cases h)
      subst e'
      simp [kindOf, shapeAtK] at h2
  · intro t id v n ht h0
    obtain ⟨a0, h0', hst⟩ := strip_get ht
    have e := strip_eq hst (by intro v h; cases h) (by intro t h; cases h)
    subst e
    have := hs.at_ t _ h0'
    simp only [kindOf, shapeAtK, Bool.or_eq_true, beq_iff_eq] at this
    rcases this with h1 | h1
    · omega
    · obtain ⟨u, hu⟩ := isJumpK_map h1
      exact ⟨u, get_strip hu⟩
  · intro i a t ha htg
    rintro ⟨h0, id, v, n, hsc⟩
    obtain ⟨a0, h0', rfl⟩ := strip_get ha
    obtain ⟨s0, hs0, hst⟩ := strip_get hsc
    have e := strip_eq hst (by intro v h; cases h) (by intro t h; cases h)
    subst e
    have hsc' : ∃ id v n, c[t.toNat]? = some (.scope id v n) := ⟨id, v, n, hs0⟩
    have := hs.at_ i a0 h0'
    cases a0 <;> simp only [strip, targetOf] at htg <;> try cases htg
    all_goals
      simp only [kindOf, shapeAtK, Bool.and_eq_true, Bool.not_eq_true', decide_eq_true_eq, Bool.and_eq_false_iff,
        decide_eq_false_iff_not] at this
    all_goals first
      | (rcases this with h1 | h1
         · exact h1 h0
         · exact isScopeK_map_false h1 hsc')
      | exact isScopeK_map_false this.2 hsc'
  · intro i a id ha hv hd
    obtain ⟨a0, h0', rfl⟩ := strip_get ha
    have hd' := hd.of_strip
    have := hs.at_ i a0 h0'
    have hk : kindOf a0 = .var id := by
      cases a0 <;> simp only [strip, varId] at hv <;> try cases hv
      all_goals rfl
    rw [hk] at this
    simp only [shapeAtK, Bool.not_eq_true'] at this
    rw [dead_of_Dead hd'] at this
    cases this

/-- the stripped codes agree with the codes at every instruction `strip` keeps -/
theorem getD_eq (a : Array Instr) (i : Nat) : a.getD i .bad = (a[i]?).getD .bad := by
  by_cases hi : i < a.size
  · simp [Array.getD, hi]
  · simp [Array.getD, hi]

theorem strip_getD_kept (c : Array Instr) (i : Nat) (h : kept (c.getD i .bad) = true) :
    (c.map strip).getD i .bad = c.getD i .bad := by
  rw [getD_eq] at h ⊢
  rw [getD_eq, getElem?_strip]
  cases hc : c[i]? with
  | none => rfl
  | some a =>
    rw [hc] at h
    simp only [Option.getD_some, Option.map_some] at h ⊢
    exact strip_kept h

end Gojq.TailVM

/-
  Helper lemmas about the goyacc driver model (Model/LALR.lean): the driver touches the token
  source only through `next` and `onReduce` (invariants carry through a run), and two token
  sources that deliver the same tokens yield the same parse (simulation).  Core Lean only.
-/
import Gojq.Model.LALR
namespace Gojq.LALR

/-- what holds of the token-source state a run ends in -/
def Outcome.Ends {σ τ : Type} (P : σ → Prop) : Outcome σ τ → Prop
  | .accept _ s => P s
  | .reject _ _ s => P s
  | .stuck => True

section
variable {σ τ : Type} (src : Source σ τ) (P : σ → Prop) (hnext : ∀ s, P s → P (src.next s).2.2)
include hnext

theorem ensureLook_inv (look : Option (Int × τ)) (s : σ) (h : P s) : P (ensureLook src look s).2 := by
  unfold ensureLook; split
  · exact h
  · exact hnext s h

theorem shiftOf_inv (state : Int) (look : Option (Int × τ)) (s : σ) (h : P s) : P (shiftOf src state look s).2.1 := by
  have := ensureLook_inv src P hnext look s h
  simp only [shiftOf]
  repeat' split
  all_goals first | exact h | exact this

theorem defaultOf_inv (state : Int) (look : Option (Int × τ)) (s : σ) (h : P s) : P (defaultOf src state look s).2.1 := by
  have := ensureLook_inv src P hnext look s h
  simp only [defaultOf]
  split
  · exact this
  · exact h
end

/-- the driver touches the token source only through `next` and `onReduce`: any property those
    two preserve holds of the state a run ends in -/
theorem run_invariant {σ τ : Type} (src : Source σ τ) (P : σ → Prop)
    (hnext : ∀ s, P s → P (src.next s).2.2) (hred : ∀ r s, P s → P (src.onReduce r s)) :
    ∀ fuel stack look s, P s → (run src fuel stack look s).Ends P := by
  intro fuel
  induction fuel with
  | zero => intro _ _ _ _; simp [run, Outcome.Ends]
  | succ fuel ih =>
    intro stack look s hs
    unfold run
    split
    · trivial
    · rename_i state top _
      have h1 := shiftOf_inv src P hnext state look s hs
      split
      · rename_i heq; rw [heq] at h1; exact ih _ _ _ h1
      · trivial
      · rename_i look1 s1 heq
        rw [heq] at h1
        have h2 := defaultOf_inv src P hnext state look1 s1 h1
        split
        · trivial
        · rename_i heq2
          rw [heq2] at h2
          repeat' split
          all_goals first
            | trivial
            | exact h2
            | exact ih _ _ _ (hred _ _ h2)

/-- two outcomes agree on everything but the token-source state -/
def Outcome.Same {σ₁ σ₂ τ : Type} : Outcome σ₁ τ → Outcome σ₂ τ → Prop
  | .accept t _, .accept t' _ => t = t'
  | .reject st lk _, .reject st' lk' _ => st = st' ∧ lk = lk'
  | .stuck, .stuck => True
  | _, _ => False

section
variable {σ₁ σ₂ τ : Type} (src₁ : Source σ₁ τ) (src₂ : Source σ₂ τ) (R : σ₁ → σ₂ → Prop)
  (hnext : ∀ a b, R a b → (src₁.next a).1 = (src₂.next b).1 ∧ (src₁.next a).2.1 = (src₂.next b).2.1 ∧
      R (src₁.next a).2.2 (src₂.next b).2.2)
include hnext

theorem ensureLook_sim (look : Option (Int × τ)) (a : σ₁) (b : σ₂) (h : R a b) :
    (ensureLook src₁ look a).1 = (ensureLook src₂ look b).1 ∧ R (ensureLook src₁ look a).2 (ensureLook src₂ look b).2 := by
  unfold ensureLook
  cases look with
  | some lk => exact ⟨rfl, h⟩
  | none =>
    obtain ⟨h1, h2, h3⟩ := hnext a b h
    exact ⟨by simp only [h1, h2], h3⟩

theorem shiftOf_sim (state : Int) (look : Option (Int × τ)) (a : σ₁) (b : σ₂) (h : R a b) :
    (shiftOf src₁ state look a).1 = (shiftOf src₂ state look b).1 ∧
    R (shiftOf src₁ state look a).2.1 (shiftOf src₂ state look b).2.1 ∧
    (shiftOf src₁ state look a).2.2 = (shiftOf src₂ state look b).2.2 := by
  obtain ⟨h1, h2⟩ := ensureLook_sim src₁ src₂ R hnext look a b h
  simp only [shiftOf, h1]
  repeat' split
  all_goals exact ⟨rfl, by first | exact h | exact h2, rfl⟩

theorem defaultOf_sim (state : Int) (look : Option (Int × τ)) (a : σ₁) (b : σ₂) (h : R a b) :
    (defaultOf src₁ state look a).1 = (defaultOf src₂ state look b).1 ∧
    R (defaultOf src₁ state look a).2.1 (defaultOf src₂ state look b).2.1 ∧
    (defaultOf src₁ state look a).2.2 = (defaultOf src₂ state look b).2.2 := by
  obtain ⟨h1, h2⟩ := ensureLook_sim src₁ src₂ R hnext look a b h
  simp only [defaultOf, h1]
  split
  · exact ⟨rfl, h2, rfl⟩
  · exact ⟨rfl, h, rfl⟩
end

/-- THE PARSE IS A FUNCTION OF THE TOKEN SEQUENCE: two token sources that deliver the same tokens
    (code and semantic value) and react alike to the parser's feedback produce the same tree, or
    are rejected in the same state on the same token — whatever else differs in their states
    (offsets, white space, comments). -/
theorem run_simulation {σ₁ σ₂ τ : Type} (src₁ : Source σ₁ τ) (src₂ : Source σ₂ τ) (R : σ₁ → σ₂ → Prop)
    (hnext : ∀ a b, R a b → (src₁.next a).1 = (src₂.next b).1 ∧ (src₁.next a).2.1 = (src₂.next b).2.1 ∧
      R (src₁.next a).2.2 (src₂.next b).2.2)
    (hred : ∀ r a b, R a b → R (src₁.onReduce r a) (src₂.onReduce r b)) :
    ∀ fuel stack look a b, R a b → (run src₁ fuel stack look a).Same (run src₂ fuel stack look b) := by
  intro fuel
  induction fuel with
  | zero => intro _ _ _ _ _; simp [run, Outcome.Same]
  | succ fuel ih =>
    intro stack look a b hab
    unfold run
    cases stack with
    | nil => simp [Outcome.Same]
    | cons top rest =>
      obtain ⟨state, tree⟩ := top
      simp only []
      obtain ⟨e1, e2, e3⟩ := shiftOf_sim src₁ src₂ R hnext state look a b hab
      rcases hs1 : shiftOf src₁ state look a with ⟨l1, s1, n1⟩
      rcases hs2 : shiftOf src₂ state look b with ⟨l2, s2, n2⟩
      rw [hs1, hs2] at e1 e2 e3
      simp only at e1 e2 e3
      subst e1 e3
      cases n1 with
      | some n =>
        cases l1 with
        | some lk => exact ih _ _ _ _ e2
        | none => simp [Outcome.Same]
      | none =>
        simp only []
        obtain ⟨d1, d2, d3⟩ := defaultOf_sim src₁ src₂ R hnext state l1 s1 s2 e2
        rcases hd1 : defaultOf src₁ state l1 s1 with ⟨k1, t1, r1⟩
        rcases hd2 : defaultOf src₂ state l1 s2 with ⟨k2, t2, r2⟩
        rw [hd1, hd2] at d1 d2 d3
        simp only at d1 d2 d3
        subst d1 d3
        cases r1 with
        | none => simp [Outcome.Same]
        | some r =>
          simp only []
          repeat' split
          all_goals first
            | (simp [Outcome.Same]; done)
            | exact ih _ _ _ _ (hred _ _ _ d2)

open Gojq.Generated.Lalr

/-- `P` holds of the final state; a rejection moreover happens only after a token was read (`Q`) -/
def Outcome.Ends2 {σ τ : Type} (P Q : σ → Prop) : Outcome σ τ → Prop
  | .accept _ s => P s
  | .reject _ _ s => P s ∧ Q s
  | .stuck => True

section
variable {σ τ : Type} (src : Source σ τ) (P Q : σ → Prop)
  (hnext : ∀ s, P s → P (src.next s).2.2 ∧ Q (src.next s).2.2)
include hnext

theorem ensureLook_spec (look : Option (Int × τ)) (s : σ) (h : P s) (hq : look.isSome → Q s) :
    P (ensureLook src look s).2 ∧ Q (ensureLook src look s).2 := by
  unfold ensureLook; split
  · exact ⟨h, hq rfl⟩
  · exact hnext s h

theorem shiftOf_spec (state : Int) (look : Option (Int × τ)) (s : σ) (h : P s) (hq : look.isSome → Q s) :
    P (shiftOf src state look s).2.1 ∧ ((shiftOf src state look s).1.isSome → Q (shiftOf src state look s).2.1) ∧
    ((shiftOf src state look s).1 = none → get yyPact state ≤ yyFlag) := by
  have := ensureLook_spec src P Q hnext look s h hq
  simp only [shiftOf]
  repeat' split
  all_goals first
    | exact ⟨h, hq, fun _ => ‹_›⟩
    | exact ⟨this.1, fun _ => this.2, fun h => by simp at h⟩

theorem defaultOf_spec (state : Int) (look : Option (Int × τ)) (s : σ) (h : P s) (hq : look.isSome → Q s) :
    P (defaultOf src state look s).2.1 ∧ ((defaultOf src state look s).1.isSome → Q (defaultOf src state look s).2.1) ∧
    ((defaultOf src state look s).1 = none → look = none ∧ (defaultOf src state look s).2.2 = some (get yyDef state)) := by
  have := ensureLook_spec src P Q hnext look s h hq
  simp only [defaultOf]
  split
  · exact ⟨this.1, fun _ => this.2, fun h => by simp at h⟩
  · exact ⟨h, hq, fun h => ⟨h, rfl⟩⟩
end

/-- as `run_invariant`, and: when the tables never make a simple state (one that reads no
    look-ahead) an error state, a run is rejected only after a token has been read -/
theorem run_invariant_look {σ τ : Type} (src : Source σ τ) (P Q : σ → Prop)
    (hnext : ∀ s, P s → P (src.next s).2.2 ∧ Q (src.next s).2.2)
    (hred : ∀ r s, P s → P (src.onReduce r s)) (hredQ : ∀ r s, Q s → Q (src.onReduce r s))
    (htab : ∀ state : Int, get yyPact state ≤ yyFlag → get yyDef state ≠ 0) :
    ∀ fuel stack look s, P s → (look.isSome → Q s) → (run src fuel stack look s).Ends2 P Q := by
  intro fuel
  induction fuel with
  | zero => intro _ _ _ _ _; simp [run, Outcome.Ends2]
  | succ fuel ih =>
    intro stack look s hs hq
    unfold run
    split
    · trivial
    · rename_i state top _
      obtain ⟨h1, h1q, h1n⟩ := shiftOf_spec src P Q hnext state look s hs hq
      split
      · rename_i heq; rw [heq] at h1; exact ih _ _ _ h1 (fun h => by simp at h)
      · trivial
      · rename_i look1 s1 heq
        rw [heq] at h1 h1q h1n
        simp only at h1 h1q h1n
        obtain ⟨h2, h2q, h2n⟩ := defaultOf_spec src P Q hnext state look1 s1 h1 h1q
        split
        · trivial
        · rename_i look2 s2 r heq2
          rw [heq2] at h2 h2q h2n
          simp only at h2 h2q h2n
          repeat' split
          all_goals first
            | trivial
            | exact h2
            | exact ih _ _ _ (hred _ _ h2) (fun h => hredQ _ _ (h2q h))
            | exact ⟨h2, h2q rfl⟩
            | (exfalso
               obtain ⟨hl1, hr⟩ := h2n rfl
               have hp := h1n hl1
               have := htab state hp
               simp at hr
               simp_all)

theorem simple_states_reduce_fin :
    ∀ s ∈ List.range yyPact.length, get yyPact (s : Nat) ≤ yyFlag → get yyDef (s : Nat) ≠ 0 := by decide +kernel

theorem get_eq_zero_of_oob (l : List Int) (i : Int) (h : i < 0 ∨ l.length ≤ i.toNat) : get l i = 0 := by
  unfold get
  split
  · rfl
  · rcases h with h | h
    · omega
    · simp [List.getD, List.getElem?_eq_none h]

/-- a state that takes its default action without reading a look-ahead (`yyPact[s] <= yyFlag`)
    never has the error action as its default — for EVERY integer `state` (out-of-range reads are 0) -/
theorem simple_states_reduce (state : Int) (h : get yyPact state ≤ yyFlag) : get yyDef state ≠ 0 := by
  have hflag : yyFlag < 0 := by decide
  by_cases hneg : state < 0
  · rw [get_eq_zero_of_oob _ _ (Or.inl hneg)] at h; omega
  · by_cases hlen : yyPact.length ≤ state.toNat
    · rw [get_eq_zero_of_oob _ _ (Or.inr hlen)] at h; omega
    · have hs : state = (state.toNat : Int) := by omega
      rw [hs] at h ⊢
      exact simple_states_reduce_fin state.toNat (List.mem_range.mpr (by omega)) h

end Gojq.LALR

/-
  Lexing printed text, part 1: `Lex` seen from outside (`lx`: token code, semantic value, unread
  source, string flag — a function of the unread source and the flag only), the tokenizer in those
  terms (`tkz`), and white space before a token.
-/
import Gojq.Proofs.Lexer
import Gojq.Model.RefTermParser
namespace Gojq.RefTerm
open Gojq Gojq.Lexer Gojq.Generated.Lalr

/-- one call of `Lex` on the unread source `r`: token code, `*lval`, what is left unread, `inString` -/
def lx (r : Bytes) (inStr : Bool) : Int × LVal × Bytes × Bool :=
  let x := lex { offset := 0, rest := r, inString := inStr }
  (x.1, x.2.1, x.2.2.rest, x.2.2.inString)

theorem lex_lx (s : LState) :
    ((lex s).1, (lex s).2.1, (lex s).2.2.rest, (lex s).2.2.inString) = lx s.rest s.inString := by
  unfold lx lex
  simp only []
  split
  · simp [commit]
  · split
    · simp [commit]
    · split <;> simp [commit]

/-- `tokenize` on the unread source and the flag -/
def tkz : Nat → Bytes → Bool → List Nat → List Tok
  | 0, _, _, _ => [.bad 0]
  | fuel + 1, r, inStr, stk =>
    let x := lx r inStr
    if x.1 == eof then [] else
    let t := classify inStr x.1 x.2.1
    if t.isBad then [t] else
    let st := stepStk t stk
    t :: tkz fuel x.2.2.1 (if st.2 then true else x.2.2.2) st.1

theorem tokenize_tkz (fuel : Nat) : ∀ (s : LState) (stk : List Nat),
    tokenize fuel s stk = tkz fuel s.rest s.inString stk := by
  induction fuel with
  | zero => intro s stk; rfl
  | succ fuel ih =>
    intro s stk
    have h1 : (lx s.rest s.inString).1 = (lex s).1 := by rw [← lex_lx]
    have h2 : (lx s.rest s.inString).2.1 = (lex s).2.1 := by rw [← lex_lx]
    have h3 : (lx s.rest s.inString).2.2.1 = (lex s).2.2.rest := by rw [← lex_lx]
    have h4 : (lx s.rest s.inString).2.2.2 = (lex s).2.2.inString := by rw [← lex_lx]
    unfold tokenize tkz
    simp only [h1, h2, h3, h4, ih]
    split
    · rfl
    · split
      · rfl
      · split <;> simp_all

theorem tokensOf_tkz (src : Bytes) : tokensOf src = tkz (src.length + 2) src false [] := by
  simp [tokensOf, tokenize_tkz, LState.init]

end Gojq.RefTerm

/-
  `delay` emits no instruction (C01.3): the code of a query / a program is the code of the query /
  program without its `delay`s (`Q.strip`, `Prog.strip`) — so the mini programs with `delay`s that the
  relation `Tr` of Model/MiniSpec.lean reads for object constructions run on exactly the code the
  `mini` stream compares with the real compiler's.  Core Lean only.
-/
import Gojq.Proofs.MiniVMProg
namespace Gojq.MiniVM
variable [IterMsg]
set_option linter.unusedSectionVars false

theorem strip_entries_length : ∀ (sp : Q), sp.IsSpine → sp.strip.entries.length = sp.entries.length := by
  intro sp
  induction sp with
  | objStart => intro _; rfl
  | objSnoc init k v ih _ _ => intro h; simp only [Q.IsSpine] at h; simp [Q.strip, Q.entries, ih h]
  | objSnocC init key v ih _ => intro h; simp only [Q.IsSpine] at h; simp [Q.strip, Q.entries, ih h]
  | _ => intro h; simp [Q.IsSpine] at h

/-- every object construction is applied to a spine -/
def Q.SpinesOK : Q → Prop
  | .pipe a b => a.SpinesOK ∧ b.SpinesOK
  | .comma a b => a.SpinesOK ∧ b.SpinesOK
  | .arr q => q.SpinesOK
  | .call1 _ a => a.SpinesOK
  | .try_ b => b.SpinesOK
  | .tryCatch b h => b.SpinesOK ∧ h.SpinesOK
  | .ite c a b => c.SpinesOK ∧ a.SpinesOK ∧ b.SpinesOK
  | .alt l r => l.SpinesOK ∧ r.SpinesOK
  | .bind _ s b => s.SpinesOK ∧ b.SpinesOK
  | .reduce _ src init upd => src.SpinesOK ∧ init.SpinesOK ∧ upd.SpinesOK
  | .foreach _ src init upd ext => src.SpinesOK ∧ init.SpinesOK ∧ upd.SpinesOK ∧ ext.SpinesOK
  | .obj sp => sp.SpinesOK ∧ sp.IsSpine
  | .objSnoc init k v => init.SpinesOK ∧ k.SpinesOK ∧ v.SpinesOK
  | .objSnocC init _ v => init.SpinesOK ∧ v.SpinesOK
  | .delay q => q.SpinesOK
  | _ => True

theorem closed_spinesOK {nf : Nat} : ∀ (q : Q) (vs : List Nat), q.Closed nf vs → q.SpinesOK := by
  intro q
  induction q with
  | pipe a b iha ihb => intro vs h; exact ⟨iha vs h.1, ihb vs h.2⟩
  | comma a b iha ihb => intro vs h; exact ⟨iha vs h.1, ihb vs h.2⟩
  | arr q ih => intro vs h; exact ih vs h
  | call1 f a ih => intro vs h; exact ih [] h.2
  | try_ b ih => intro vs h; exact ih vs h
  | tryCatch b h' ihb ihh => intro vs h; exact ⟨ihb vs h.1, ihh vs h.2⟩
  | ite c a b ihc iha ihb => intro vs h; exact ⟨ihc vs h.1, iha vs h.2.1, ihb vs h.2.2⟩
  | alt l r ihl ihr => intro vs h; exact ⟨ihl vs h.1, ihr vs h.2⟩
  | bind x s b ihs ihb => intro vs h; exact ⟨ihs vs h.1, ihb _ h.2⟩
  | reduce x src init upd i1 i2 i3 => intro vs h; exact ⟨i1 vs h.1, i2 vs h.2.1, i3 _ h.2.2⟩
  | «foreach» x src init upd ext i1 i2 i3 i4 => intro vs h; exact ⟨i1 vs h.1, i2 vs h.2.1, i3 _ h.2.2.1, i4 _ h.2.2.2⟩
  | obj sp ih => intro vs h; exact ⟨ih vs h.1, h.2.1⟩
  | objSnoc init k v i1 i2 i3 => intro vs h; exact ⟨i1 vs h.1, i2 vs h.2.1, i3 vs h.2.2⟩
  | objSnocC init key v i1 i2 => intro vs h; exact ⟨i1 vs h.1, i2 vs h.2⟩
  | delay q ih => intro vs h; exact ih vs h
  | _ => intro vs h; trivial

theorem size_strip : ∀ (q : Q), q.strip.size = q.size := by
  intro q
  induction q <;> simp_all [Q.strip, Q.size]

/-- `delay` emits no instruction: the code of a query is the code of the query without its `delay`s -/
theorem compile_strip (entry : Name → Nat) : ∀ (q : Q), q.SpinesOK → ∀ (g : Ctx) (e p : Nat),
    compile entry g e p q.strip = compile entry g e p q := by
  intro q
  induction q with
  | pipe a b iha ihb => intro h g e p; simp [Q.strip, compile, iha h.1, ihb h.2]
  | comma a b iha ihb => intro h g e p; simp [Q.strip, compile, iha h.1, ihb h.2]
  | arr q ih => intro h g e p; simp [Q.strip, compile, ih h]
  | call1 f a ih => intro h g e p; simp [Q.strip, compile, ih h]
  | try_ b ih => intro h g e p; simp [Q.strip, compile, ih h]
  | tryCatch b h' ihb ihh => intro h g e p; simp [Q.strip, compile, ihb h.1, ihh h.2]
  | ite c a b ihc iha ihb => intro h g e p; simp [Q.strip, compile, ihc h.1, iha h.2.1, ihb h.2.2]
  | alt l r ihl ihr => intro h g e p; simp [Q.strip, compile, ihl h.1, ihr h.2]
  | bind x s b ihs ihb => intro h g e p; simp [Q.strip, compile, ihs h.1, ihb h.2]
  | reduce x src init upd i1 i2 i3 => intro h g e p; simp [Q.strip, compile, i1 h.1, i2 h.2.1, i3 h.2.2]
  | «foreach» x src init upd ext i1 i2 i3 i4 =>
    intro h g e p; simp [Q.strip, compile, i1 h.1, i2 h.2.1, i3 h.2.2.1, i4 h.2.2.2]
  | obj sp ih => intro h g e p; simp [Q.strip, compile, ih h.1, strip_entries_length sp h.2]
  | objSnoc init k v i1 i2 i3 => intro h g e p; simp [Q.strip, compile, i1 h.1, i2 h.2.1, i3 h.2.2]
  | objSnocC init key v i1 i2 => intro h g e p; simp [Q.strip, compile, i1 h.1, i2 h.2]
  | delay q ih => intro h g e p; simp [Q.strip, compile, ih h]
  | _ => intro _ g e p; rfl


theorem funcsLen_strip (qs : List Q) : funcsLen (qs.map Q.strip) = funcsLen qs := by
  induction qs with
  | nil => rfl
  | cons q qs ih => rw [List.map_cons, funcsLen_cons, funcsLen_cons, ih, size_strip]

theorem entryOf_strip (qs : List Q) : entryOf (qs.map Q.strip) = entryOf qs := by
  funext f
  simp only [entryOf, ← List.map_take, funcsLen_strip]

theorem compileFuncs_strip (entry : Name → Nat) : ∀ (qs : List Q) (f start : Nat), (∀ q ∈ qs, q.SpinesOK) →
    compileFuncs entry f start (qs.map Q.strip) = compileFuncs entry f start qs
  | [], _, _, _ => rfl
  | q :: qs, f, start, h => by
    simp only [List.map_cons, compileFuncs, compileFunc, size_strip,
      compile_strip entry q (h q (by simp)), compileFuncs_strip entry qs _ _ (fun q' hq' => h q' (by simp [hq']))]

/-- the compiled program does not depend on the `delay`s -/
theorem compileProg_strip (p : Prog) (hwf : p.WF) : compileProg p.strip = compileProg p := by
  have hd : ∀ q ∈ p.defs, q.SpinesOK := fun q hq => closed_spinesOK q [] (hwf.defs_closed q hq)
  have hm : p.main.SpinesOK := closed_spinesOK _ [] hwf.main_closed
  simp only [compileProg, Prog.strip, funcsLen_strip, entryOf_strip, size_strip,
    compileFuncs_strip _ _ _ _ hd, compile_strip _ _ hm]

end Gojq.MiniVM

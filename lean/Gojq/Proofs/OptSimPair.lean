/-
  The two pair rewrites of the peephole pass on the interpreter:
    `push/dup/load ; pop`     ≈ `nop ; nop`
    `push/dup/load ; const v` ≈ `nop ; push v`
  From related environments (`EnvRel`), whenever the original pair does not fail, the rewritten pair
  reaches a related environment with the same locals; nothing is emitted in between.
-/
import Gojq.Proofs.OptSimExec
import Gojq.Proofs.VMReentry
set_option linter.unusedSimpArgs false
set_option linter.unusedVariables false
namespace Gojq.OptVM
open Gojq Gojq.VM

/-! ## the persistent stack: a pushed value popped again, a popped value pushed again -/

theorem SRel.push_pop_left {a b : Stack V} {fa fb : List Fork} (h : SRel a fa b fb) (v : V) :
    ∃ a', (a.push v).pop? = some (v, a') ∧ SRel a' fa b fb := by
  obtain ⟨⟨xs, c1, c2⟩, hf, la, lb, fwa, fwb⟩ := h
  obtain ⟨a1, a2, a3, a4, a5⟩ := push_spec a v la.1 la.2 c1.index_lt
  refine ⟨{ a.push v with index := a.index }, ?_, ⟨xs, ?_, c2⟩, ?_, ?_, lb, ?_, fwb⟩
  · unfold Stack.pop? Stack.blockAt?
    rw [a1]
    have : 0 ≤ max a.index a.limit + 1 := by omega
    simp [this, a3]
  · exact c1.frame (fun j hj => a4 j (by omega))
  · exact hf.frame (FW.index_le fwa) (FW.index_le fwb) (fun j hj => a4 j (by omega)) (fun j _ => rfl)
  · show -1 ≤ (a.push v).limit ∧ (a.push v).limit < (a.push v).data.size
    rw [a2]; exact ⟨la.1, by omega⟩
  · show FW fa (a.push v).limit
    rw [a2]; exact fwa

theorem SRel.pop_push_left {a b : Stack V} {fa fb : List Fork} (h : SRel a fa b fb) {v : V} {ap : Stack V}
    (hp : a.pop? = some (v, ap)) : SRel (ap.push v) fa b fb := by
  obtain ⟨⟨xs, c1, c2⟩, hf, la, lb, fwa, fwb⟩ := h
  cases c1 with
  | nil hi =>
    unfold Stack.pop? Stack.blockAt? at hp
    simp [Int.not_le.mpr hi] at hp
  | @cons _ v' nx xs' h0 hb hn ct =>
    unfold Stack.pop? Stack.blockAt? at hp
    simp [h0, hb] at hp
    obtain ⟨rfl, rfl⟩ := hp
    have hlt : a.index < a.data.size := by
      have := (Array.getElem?_eq_some_iff.mp hb).1
      omega
    obtain ⟨a1, a2, a3, a4, a5⟩ := push_spec { a with index := nx } v' la.1 la.2 (by show nx < (a.data.size : Int); omega)
    simp only at a1 a2 a3 a4 a5
    refine ⟨⟨v' :: xs', ?_, c2⟩, ?_, ?_, lb, ?_, fwb⟩
    · rw [a1]
      exact .cons (by omega) a3 (by omega) (ct.frame (fun j hj => a4 j (by omega)))
    · exact hf.frame (FW.index_le fwa) (FW.index_le fwb) (fun j hj => a4 j (by omega)) (fun j _ => rfl)
    · rw [a2]; exact ⟨la.1, by omega⟩
    · rw [a2]; exact fwa

/-! ## the first instruction -/

/-- between the two instructions of a pair: popping what the first instruction pushed gives an
    environment related to the one of the rewritten run (which executed `nop`) -/
def Mid (e1 e' : Env) : Prop := ∃ v e1p, pop e1 = .ok v e1p ∧ EnvRel e1p e'

theorem pop_ok_inv {e e1 : Env} {v : V} (h : pop e = .ok v e1) :
    ∃ ap, e.stack.pop? = some (v, ap) ∧ e1 = { e with stack := ap } := by
  unfold VM.pop at h
  cases hp : e.stack.pop? with
  | none => simp [hp] at h
  | some p =>
    obtain ⟨w, ap⟩ := p
    simp [hp] at h
    exact ⟨ap, by rw [h.1], h.2.symm⟩

theorem mid_of_push {e e' : Env} (h : EnvRel e e') (v : V) : Mid { e with stack := e.stack.push v } e' := by
  obtain ⟨st, fk, rfl, hs⟩ := h.elim
  obtain ⟨a', h1, h2⟩ := hs.push_pop_left v
  refine ⟨v, { e with stack := a' }, ?_, EnvRel.mk' (e := { e with stack := a' }) h2⟩
  simp only [VM.pop, h1]

theorem envIndex_ok' {a b k : Int} {e e2 : Env} (h : envIndex a b e = .ok k e2) : e2 = e := by
  unfold VM.envIndex at h; split at h <;> simp at h; exact h.2.symm

theorem getValue_ok' {i : Int} {v : V} {e e2 : Env} (h : getValue i e = .ok v e2) : e2 = e := by
  unfold VM.getValue at h
  split at h
  · split at h <;> simp at h; exact h.2.symm
  · simp at h

/-- `push` / `dup` / `load` falls through, keeps the locals, and leaves the mid-pair relation -/
theorem pushlike_mid (a : Instr) (ha : isPushLike a = true) (x : ExtRec) (l : L) {e e' : Env}
    (h : EnvRel e e') {ctl : Ctl} {l1 : L} {e1 : Env} (hx : exec a x l e = .ok (ctl, l1) e1) :
    ctl = .fall ∧ l1 = l ∧ Mid e1 e' := by
  cases a <;> simp [isPushLike] at ha
  · -- push
    rename_i v
    simp only [exec] at hx
    obtain ⟨_, e2, h1, h2⟩ := bind_ok hx
    rw [push_ok] at h1
    simp at h1; subst h1
    obtain ⟨h3, rfl⟩ := pure_ok h2
    simp at h3
    exact ⟨h3.1.symm, h3.2.symm, mid_of_push h _⟩
  · -- dup
    simp only [exec] at hx
    obtain ⟨v, e2, h1, h2⟩ := bind_ok hx
    obtain ⟨_, e3, h3, h4⟩ := bind_ok h2
    obtain ⟨_, e4, h5, h6⟩ := bind_ok h4
    obtain ⟨ap, hp, rfl⟩ := pop_ok_inv h1
    rw [push_ok] at h3 h5
    simp at h3 h5; subst h3; subst h5
    obtain ⟨h7, rfl⟩ := pure_ok h6
    simp at h7
    refine ⟨h7.1.symm, h7.2.symm, ?_⟩
    obtain ⟨st, fk, rfl, hs⟩ := h.elim
    have hs' := hs.pop_push_left hp
    exact mid_of_push (e := { e with stack := ap.push v }) (EnvRel.mk' (e := { e with stack := ap.push v }) hs') v
  · -- load
    rename_i id i
    simp only [exec] at hx
    obtain ⟨k, e2, h1, h2⟩ := bind_ok hx
    obtain ⟨v, e3, h3, h4⟩ := bind_ok h2
    obtain ⟨_, e4, h5, h6⟩ := bind_ok h4
    have := envIndex_ok' h1; subst this
    have := getValue_ok' h3; subst this
    rw [push_ok] at h5
    simp at h5; subst h5
    obtain ⟨h7, rfl⟩ := pure_ok h6
    simp at h7
    exact ⟨h7.1.symm, h7.2.symm, mid_of_push h _⟩

/-! ## the second instruction -/

theorem pop_after_mid (x : ExtRec) (l : L) {e1 e' : Env} (hm : Mid e1 e') :
    ∃ e2, exec .pop x l e1 = .ok (.fall, l) e2 ∧ EnvRel e2 e' := by
  obtain ⟨v, e1p, hp, hr⟩ := hm
  refine ⟨e1p, ?_, hr⟩
  simp only [exec]
  show M.bind pop (fun _ => M.pure (Ctl.fall, l)) e1 = _
  unfold M.bind
  rw [hp]; rfl

theorem const_after_mid (w : JV) (x : ExtRec) (l : L) {e1 e' : Env} (hm : Mid e1 e') :
    ∃ e2, exec (.const w) x l e1 = .ok (.fall, l) e2 ∧
      EnvRel e2 { e' with stack := e'.stack.push (.jv w) } := by
  obtain ⟨v, e1p, hp, hr⟩ := hm
  refine ⟨{ e1p with stack := e1p.stack.push (.jv w) }, ?_, ?_⟩
  · simp only [exec]
    show M.bind pop (fun _ => M.bind (push (.jv w)) (fun _ => M.pure (Ctl.fall, l))) e1 = _
    unfold M.bind
    rw [hp]; rfl
  · have := Cong.push (.jv w) e1p e' hr
    exact this.2

theorem exec_nop (x : ExtRec) (l : L) (e : Env) : exec .nop x l e = .ok (.fall, l) e := rfl

theorem exec_push (w : JV) (x : ExtRec) (l : L) (e : Env) :
    exec (.push w) x l e = .ok (.fall, l) { e with stack := e.stack.push (.jv w) } := rfl

/-! ## the pair, on `exec` -/

/-- `X ; pop` (X ∈ push, dup, load) against `nop ; nop`: if the original pair does not fail, both
    fall through twice with unchanged locals, into related environments -/
theorem pair_pop_exec (a : Instr) (ha : isPushLike a = true) (x y : ExtRec) (l : L) {e e' : Env}
    (h : EnvRel e e') {ctl : Ctl} {l1 : L} {e1 : Env} (hx : exec a x l e = .ok (ctl, l1) e1) (lb : L) :
    ctl = .fall ∧ l1 = l ∧ ∃ e2, exec .pop y lb e1 = .ok (.fall, lb) e2 ∧
      exec .nop x l e' = .ok (.fall, l) e' ∧ exec .nop y lb e' = .ok (.fall, lb) e' ∧ EnvRel e2 e' := by
  obtain ⟨h1, h2, hm⟩ := pushlike_mid a ha x l h hx
  obtain ⟨e2, h3, h4⟩ := pop_after_mid y lb hm
  exact ⟨h1, h2, e2, h3, rfl, rfl, h4⟩

/-- `X ; const v` against `nop ; push v` -/
theorem pair_const_exec (a : Instr) (ha : isPushLike a = true) (w : JV) (x y : ExtRec) (l : L) {e e' : Env}
    (h : EnvRel e e') {ctl : Ctl} {l1 : L} {e1 : Env} (hx : exec a x l e = .ok (ctl, l1) e1) (lb : L) :
    ctl = .fall ∧ l1 = l ∧ ∃ e2 e2', exec (.const w) y lb e1 = .ok (.fall, lb) e2 ∧
      exec .nop x l e' = .ok (.fall, l) e' ∧ exec (.push w) y lb e' = .ok (.fall, lb) e2' ∧ EnvRel e2 e2' := by
  obtain ⟨h1, h2, hm⟩ := pushlike_mid a ha x l h hx
  obtain ⟨e2, h3, h4⟩ := const_after_mid w y lb hm
  exact ⟨h1, h2, e2, _, h3, rfl, rfl, h4⟩

end Gojq.OptVM

/-
  Round trip, part 3: the query level — a term as a query, binary operators (precedence and
  associativity: the printer writes NO parentheses, the shape invariant `okQ` makes that right),
  `as` bindings, `def`, `label`.  Each lemma takes the statements of the immediate constituents as
  hypotheses; Proofs/RoundTripAll.lean ties the knot.
-/
import Gojq.Proofs.RoundTripFollow
namespace Gojq.RefTerm
open Gojq

theorem pClimb_term (f : Nat) (item : Bool) (min : Nat) (x : Tok) (r : List Tok) (hs : termStart x) :
    pClimb (f + 1) item min (x :: r) = (do
      let (t, ts) ← pTerm f (x :: r)
      pLoop f item min (.term t) ts) := by
  simp only [pClimb]
  split <;> first | rfl | simp_all [termStart, termStartB]

theorem pSuf_done (f : Nat) (t : Term) (rest : List Tok) (hf : 1 ≤ f) (h : noSuf rest.head? = true) :
    pSuf f t rest = some (t, rest) := by
  obtain ⟨f, rfl⟩ : ∃ g, f = g + 1 := ⟨f - 1, by omega⟩
  unfold pSuf
  split <;> simp_all [noSuf]

@[simp] theorem toks_opSep (o : BOp) : toks (opSep o) = [] := by
  cases o <;> rfl

/-- a term as a query -/
theorem rt_term (t : Term) (ih : RTT t) : RTQ (.term t) := by
  intro item min rest hok hfol
  rw [okQ_term] at hok
  simp only [followQ, Bool.and_eq_true] at hfol
  obtain ⟨d, F, h⟩ := ih rest hok hfol.1
  refine ⟨1, d + F + 1, fun f hf => ?_⟩
  obtain ⟨x, r, hx, hs⟩ := toksT_head t
  obtain ⟨g, rfl⟩ : ∃ g, f = g + d := ⟨f - d, by omega⟩
  have e : toks (itemsQ (.term t)) ++ rest = x :: (r ++ rest) := by simp [itemsQ, hx]
  rw [e, pClimb_term _ item min x _ hs, ← e]
  have e2 : toks (itemsQ (.term t)) = toks (itemsT t) := by simp [itemsQ]
  rw [e2, h g (by omega), pSuf_done g t rest (by omega) hfol.2]
  rfl

/-- BINARY OPERATORS: `l o r` printed without parentheses parses back to `binop o l r` whenever the
    operands have the shape the precedence table demands -/
theorem rt_binop (o : BOp) (l r : Query) (ihl : RTQ l) (ihr : RTQ r) : RTQ (.binop o l r) := by
  intro item min rest hok hfol
  rw [okQ_binop] at hok
  simp only [Bool.and_eq_true, decide_eq_true_eq] at hok
  obtain ⟨⟨⟨h1, h2⟩, h3⟩, h4⟩ := hok
  simp only [followQ, Bool.and_eq_true] at hfol
  obtain ⟨hfr, hof⟩ := hfol
  have hl' : okQ item min l = true :=
    okQ_item l item min (okQ_mono l false o.lmin min (Nat.le_trans h1 (lv_le_lmin o)) h2)
  obtain ⟨dl, Fl, hl⟩ := ihl item min (opTok o :: (toks (itemsQ r) ++ rest)) hl'
    (by simpa using followQ_left o l false o.lmin h2 h3 (Nat.le_refl _))
  obtain ⟨dr, Fr, hr⟩ := ihr (decide (o.lv ≤ 2)) o.rmin rest h4 hfr
  refine ⟨dl + 1, Fl + dr + Fr + 1, fun f hf => ?_⟩
  have e : toks (itemsQ (.binop o l r)) ++ rest = toks (itemsQ l) ++ opTok o :: (toks (itemsQ r) ++ rest) := by
    simp [itemsQ]
  have e2 : f + (dl + 1) = (f + 1) + dl := by omega
  rw [e, e2, hl (f + 1) (by omega), pLoop_op f item min l (opTok o) o _ (binopOfTok_opTok o) h1]
  obtain ⟨g, rfl⟩ : ∃ g, f = g + dr := ⟨f - dr, by omega⟩
  rw [hr g (by omega), pLoop_done g _ o.rmin r rest (by omega) (opFollow_hop o rest hof) (opFollow_has o rest hof)]
  simp only [Option.bind_eq_bind, Option.bind_some, opFollow_noclash o rest hof, Bool.false_eq_true, if_false]

theorem openFollow_hop (rest : List Tok) (h : openFollow rest.head? = true) (m : Nat) :
    ∀ x o', rest.head? = some x → binopOfTok x = some o' → o'.lv < m := by
  intro x o' hx ho
  rw [hx] at h
  simp [openFollow, ho] at h

theorem openFollow_has (rest : List Tok) (h : openFollow rest.head? = true) (item : Bool) :
    rest.head? = some (.kw .as_) → item = false := by
  intro hx
  rw [hx] at h
  simp [openFollow] at h

/-- `src as p₁ ?// p₂ … | body` -/
theorem rt_bind (s : Query) (p : Pattern) (ps : List Pattern) (b : Query)
    (ihs : RTQ s) (ihp : RTP p) (ihps : RTAltT ps) (ihb : RTQ b) : RTQ (.bind s (p :: ps) b) := by
  intro item min rest hok hfol
  rw [okQ_bind] at hok
  simp only [Bool.and_eq_true, decide_eq_true_eq] at hok
  obtain ⟨⟨⟨⟨hi, hm⟩, hs⟩, hp, hps⟩, hb⟩ := hok
  subst hi
  simp only [followQ, Bool.and_eq_true] at hfol
  obtain ⟨hfb, hof⟩ := hfol
  obtain ⟨ds, Fs, hS⟩ := ihs true min
    (.kw .as_ :: (toks (itemsP p) ++ (toks (itemsAltT ps) ++ .ch 124 :: (toks (itemsQ b) ++ rest))))
    (okQ_item s true min (okQ_mono s false 3 min hm hs)) (by simpa using followQ_as s 3 (Nat.le_refl _) hs)
  obtain ⟨Fp, hP⟩ := ihp (toks (itemsAltT ps) ++ .ch 124 :: (toks (itemsQ b) ++ rest)) hp
  obtain ⟨Fa, hA⟩ := ihps (.ch 124 :: (toks (itemsQ b) ++ rest)) hps (by simp)
  obtain ⟨db, Fb, hB⟩ := ihb true 1 rest hb hfb
  refine ⟨ds, Fs + Fp + Fa + db + Fb + 2, fun f hf => ?_⟩
  have e : toks (itemsQ (.bind s (p :: ps) b)) ++ rest = toks (itemsQ s) ++ .kw .as_ ::
      (toks (itemsP p) ++ (toks (itemsAltT ps) ++ .ch 124 :: (toks (itemsQ b) ++ rest))) := by
    simp [itemsQ]
  rw [e, hS f (by omega)]
  obtain ⟨g, rfl⟩ : ∃ g, f = (g + db) + 1 := ⟨f - 1 - db, by omega⟩
  rw [pLoop_as, hP _ (by omega)]
  simp only [Option.bind_eq_bind, Option.bind_some]
  rw [hA _ (by omega)]
  simp only [Option.bind_some, expect, if_true]
  rw [hB g (by omega), pLoop_done g true 1 b rest (by omega) (openFollow_hop rest hof 1) (openFollow_has rest hof true)]
  simp only [Option.bind_some]
  rw [pLoop_done _ true min _ rest (by omega) (openFollow_hop rest hof min)]
  intro hx; have := openFollow_has rest hof true hx; exact absurd this (by decide)

theorem pClimb_def (f : Nat) (min : Nat) (rest : List Tok) :
    pClimb (f + 1) true min (.kw .def_ :: rest) = (do
      let (fd, ts) ← pFuncDef f rest
      let (q, ts) ← pClimb f true 1 ts
      some (.def_ fd q, ts)) := by
  simp [pClimb]

theorem pClimb_label (f : Nat) (min : Nat) (v : Bytes) (rest : List Tok) :
    pClimb (f + 1) true min (.kw .label_ :: .var v :: .ch 124 :: rest) = (do
      let (b, ts) ← pClimb f true 1 rest
      some (.label v b, ts)) := by
  simp [pClimb]

theorem toksFD_head (fd : FuncDef) : toks (itemsFD fd) = .kw .def_ :: (toks (itemsFD fd)).drop 1 := by
  cases fd; simp [itemsFD]

/-- `def f: …; q` -/
theorem rt_def (fd : FuncDef) (q : Query) (ihfd : RTFD fd) (ihq : RTQ q) : RTQ (.def_ fd q) := by
  intro item min rest hok hfol
  rw [okQ_def] at hok
  simp only [Bool.and_eq_true] at hok
  obtain ⟨⟨hi, hfd⟩, hq⟩ := hok
  subst hi
  simp only [followQ, Bool.and_eq_true] at hfol
  obtain ⟨hfq, hof⟩ := hfol
  obtain ⟨Ff, hF⟩ := ihfd (toks (itemsQ q) ++ rest) hfd
  obtain ⟨dq, Fq, hQ⟩ := ihq true 1 rest hq hfq
  refine ⟨1, Ff + dq + Fq + 2, fun f hf => ?_⟩
  have e : toks (itemsQ (.def_ fd q)) ++ rest =
      .kw .def_ :: ((toks (itemsFD fd)).drop 1 ++ (toks (itemsQ q) ++ rest)) := by
    simp only [itemsQ, toks_append, toks_sp, List.append_assoc]
    rw [toksFD_head fd]; simp
  obtain ⟨g, rfl⟩ : ∃ g, f = g + dq := ⟨f - dq, by omega⟩
  rw [e, pClimb_def, hF _ (by omega)]
  simp only [Option.bind_eq_bind, Option.bind_some]
  rw [hQ g (by omega), pLoop_done g true 1 q rest (by omega) (openFollow_hop rest hof 1) (openFollow_has rest hof true)]
  simp only [Option.bind_some]
  rw [pLoop_done _ true min _ rest (by omega) (openFollow_hop rest hof min)]
  intro hx; have := openFollow_has rest hof true hx; exact absurd this (by decide)

/-- `label $x | body` -/
theorem rt_label (v : Bytes) (b : Query) (ihb : RTQ b) : RTQ (.label v b) := by
  intro item min rest hok hfol
  rw [okQ_label] at hok
  simp only [Bool.and_eq_true] at hok
  obtain ⟨⟨hi, _⟩, hb⟩ := hok
  subst hi
  simp only [followQ, Bool.and_eq_true] at hfol
  obtain ⟨hfb, hof⟩ := hfol
  obtain ⟨db, Fb, hB⟩ := ihb true 1 rest hb hfb
  refine ⟨1, db + Fb + 2, fun f hf => ?_⟩
  have e : toks (itemsQ (.label v b)) ++ rest = .kw .label_ :: .var v :: .ch 124 :: (toks (itemsQ b) ++ rest) := by
    simp [itemsQ]
  obtain ⟨g, rfl⟩ : ∃ g, f = g + db := ⟨f - db, by omega⟩
  rw [e, pClimb_label, hB g (by omega),
    pLoop_done g true 1 b rest (by omega) (openFollow_hop rest hof 1) (openFollow_has rest hof true)]
  simp only [Option.bind_eq_bind, Option.bind_some]
  rw [pLoop_done _ true min _ rest (by omega) (openFollow_hop rest hof min)]
  intro hx; have := openFollow_has rest hof true hx; exact absurd this (by decide)

end Gojq.RefTerm

/-
  The call-indexed oracle of Model/OptVM.lean (`stepC`, `loopC`, `historyC`) and the poll-indexed
  oracle of Model/VM.lean (`step`, `loop`, `history`, under a context that is never cancelled)
  describe the same runs: each is an explicit re-indexing of the other.
-/
import Gojq.Proofs.OptSimLocal
set_option linter.unusedSimpArgs false
set_option linter.unusedVariables false
namespace Gojq.OptVM
open Gojq Gojq.VM

/-- a turn that is not at an answer-consuming instruction does not look at the oracle record -/
theorem stepE_tick0 (c : Array Instr) (x y : ExtRec) (l : L) (e : Env) (h : tickAt c l = 0) :
    stepE c x l e = stepE c y l e := by
  unfold tickAt at h
  by_cases hr : 0 ≤ l.pc ∧ l.pc < (c.size : Int)
  · have hu : usesExt (c.getD l.pc.toNat .bad) = false := by
      cases hu : usesExt (c.getD l.pc.toNat .bad) with
      | false => rfl
      | true => rw [if_pos ⟨hr.1, hr.2, hu⟩] at h; cases h
    exact stepE_ext_irrelevant c x y l e hu
  · unfold stepE
    by_cases h1 : l.pc < (c.size : Int)
    · have h0 : l.pc < 0 := by
        by_cases h0 : l.pc < 0
        · exact h0
        · exact absurd ⟨Int.not_lt.mp h0, h1⟩ hr
      simp only [h1, h0, if_true]
    · simp only [h1, if_false]

theorem tickAt_le (c : Array Instr) (l : L) : tickAt c l = 0 ∨ tickAt c l = 1 := by
  unfold tickAt; split <;> simp

theorem consumed_eq (code : Array Instr) (ext : Nat → ExtRec) (fuel : Nat) (l : L) (s : St) :
    consumed code ext fuel l s =
      (if tickAt code l = 1 then [ext s.polls] else []) ++
      match step ⟨code, never, ext⟩ l s with
      | .fin _ _ => []
      | .cont l' s' =>
        match fuel with
        | 0 => []
        | fuel + 1 => consumed code ext fuel l' s' := by
  rw [consumed] <;> rfl

theorem pollRecs_eq (code : Array Instr) (extC : Nat → ExtRec) (fuel : Nat) (l : L) (s : St) :
    pollRecs code extC fuel l s =
      (if 0 ≤ l.pc ∧ l.pc < code.size then [extC s.polls] else []) ++
      match stepC code extC l s with
      | .fin _ _ => []
      | .cont l' s' =>
        match fuel with
        | 0 => []
        | fuel + 1 => pollRecs code extC fuel l' s' := by
  rw [pollRecs] <;> rfl

/-- what it means for an oracle `o` to present the list `rs` from position `k0` on -/
def Presents (o : Nat → ExtRec) (k0 : Nat) (rs : List ExtRec) : Prop :=
  ∀ (j : Nat) (h : j < rs.length), o (k0 + j) = rs[j]

theorem Presents.append_left {o : Nat → ExtRec} {k0 : Nat} {a b : List ExtRec} (h : Presents o k0 (a ++ b)) :
    Presents o k0 a := by
  intro j hj
  have := h j (by rw [List.length_append]; omega)
  rw [this, List.getElem_append_left hj]

theorem Presents.append_right {o : Nat → ExtRec} {k0 : Nat} {a b : List ExtRec} (h : Presents o k0 (a ++ b)) :
    Presents o (k0 + a.length) b := by
  intro j hj
  have := h (a.length + j) (by rw [List.length_append]; omega)
  rw [Nat.add_assoc, this, List.getElem_append_right (by omega)]
  simp

theorem presents_getD (rs : List ExtRec) : Presents (fun k => rs.getD k {}) 0 rs := by
  intro j hj
  simp [List.getD_eq_getElem?_getD, hj]

/-! ## poll-indexed run → call-indexed run -/

theorem loopC_of_loop (code : Array Instr) (ext : Nat → ExtRec) : ∀ (fuel : Nat) (l : L) (s : St) (k0 : Nat)
    (extC : Nat → ExtRec), Presents extC k0 (consumed code ext fuel l s) →
    (loopC code extC fuel l ⟨s.env, k0⟩).1 = (loop ⟨code, never, ext⟩ fuel l s).1 ∧
    (loopC code extC fuel l ⟨s.env, k0⟩).2.env = (loop ⟨code, never, ext⟩ fuel l s).2.env ∧
    (loopC code extC fuel l ⟨s.env, k0⟩).2.polls = k0 + (consumed code ext fuel l s).length := by
  intro fuel
  induction fuel with
  | zero =>
    intro l s k0 extC hP
    rw [consumed_eq] at hP ⊢
    rw [loopC_zero, loop_zero, stepC_eq, step_eq_stepE _ _ _ rfl]
    have hx : stepE code (extC k0) l s.env = stepE code (ext s.polls) l s.env := by
      rcases tickAt_le code l with ht | ht
      · exact stepE_tick0 _ _ _ _ _ ht
      · have := hP.append_left 0 (by simp [ht])
        simp [ht] at this
        rw [this]
    simp only
    rw [hx]
    cases hs : stepE code (ext s.polls) l s.env with
    | fin o e' =>
      refine ⟨rfl, rfl, ?_⟩
      simp only [StepE.toStep, List.append_nil]
      rcases tickAt_le code l with ht | ht <;> simp [ht]
    | cont l' e' =>
      refine ⟨rfl, rfl, ?_⟩
      simp only [StepE.toStep, List.append_nil, St.save]
      rcases tickAt_le code l with ht | ht <;> simp [ht]
  | succ n ih =>
    intro l s k0 extC hP
    rw [consumed_eq] at hP ⊢
    rw [loopC_succ, loop_succ, stepC_eq, step_eq_stepE _ _ _ rfl]
    have hx : stepE code (extC k0) l s.env = stepE code (ext s.polls) l s.env := by
      rcases tickAt_le code l with ht | ht
      · exact stepE_tick0 _ _ _ _ _ ht
      · have := hP.append_left 0 (by simp [ht])
        simp [ht] at this
        rw [this]
    simp only
    rw [hx]
    rw [step_eq_stepE _ _ _ rfl] at hP
    cases hs : stepE code (ext s.polls) l s.env with
    | fin o e' =>
      refine ⟨rfl, rfl, ?_⟩
      simp only [StepE.toStep, List.append_nil]
      rcases tickAt_le code l with ht | ht <;> simp [ht]
    | cont l' e' =>
      rw [hs] at hP
      simp only [StepE.toStep] at hP ⊢
      have hlen : (if tickAt code l = 1 then [ext s.polls] else []).length = tickAt code l := by
        rcases tickAt_le code l with ht | ht <;> simp [ht]
      have hrest := hP.append_right
      rw [hlen] at hrest
      obtain ⟨h1, h2, h3⟩ := ih l' ⟨e', _⟩ (k0 + tickAt code l) extC hrest
      refine ⟨h1, h2, ?_⟩
      rw [h3, List.length_append, hlen]
      omega

theorem entry_code (code : Array Instr) (e1 e2 : Nat → ExtRec) (c1 c2 : Nat → Bool) (s s' : St)
    (h : s'.env = s.env) : entry ⟨code, c1, e1⟩ s' = entry ⟨code, c2, e2⟩ s := by
  unfold entry; rw [h]

theorem historyC_of_history (code : Array Instr) (ext : Nat → ExtRec) (fuel : Nat) : ∀ (n : Nat) (s : St)
    (k0 : Nat) (extC : Nat → ExtRec), Presents extC k0 (consumedH code ext fuel n s) →
    historyC code extC fuel n ⟨s.env, k0⟩ = history ⟨code, never, ext⟩ fuel n s := by
  intro n
  induction n with
  | zero => intro s k0 extC _; rfl
  | succ n ih =>
    intro s k0 extC hP
    simp only [consumedH] at hP
    simp only [historyC, history]
    have he : entry ⟨code, never, extC⟩ ⟨s.env, k0⟩ = entry ⟨code, never, ext⟩ s := entry_code _ _ _ _ _ _ _ rfl
    obtain ⟨h1, h2, h3⟩ := loopC_of_loop code ext fuel (entry ⟨code, never, ext⟩ s) s k0 extC hP.append_left
    have hn : nextC code extC fuel ⟨s.env, k0⟩ = loopC code extC fuel (entry ⟨code, never, ext⟩ s) ⟨s.env, k0⟩ := by
      unfold nextC; rw [he]
    rw [hn]
    have hst : (loopC code extC fuel (entry ⟨code, never, ext⟩ s) ⟨s.env, k0⟩).2 =
        ⟨(next ⟨code, never, ext⟩ fuel s).2.env, k0 + (consumed code ext fuel (entry ⟨code, never, ext⟩ s) s).length⟩ := by
      cases hh : (loopC code extC fuel (entry ⟨code, never, ext⟩ s) ⟨s.env, k0⟩).2 with
      | mk e p => rw [hh] at h2 h3; simp only at h2 h3; rw [h2, h3]; rfl
    rw [hst, h1]
    congr 1
    exact ih _ _ extC hP.append_right

/-- EVERY poll-indexed run (never cancelled) is the call-indexed run under `callOracle`: the same
    history, call after call -/
theorem historyC_callOracle (code : Array Instr) (ext : Nat → ExtRec) (fuel n : Nat) (s : St) :
    historyC code (callOracle code ext fuel n s) fuel n ⟨s.env, 0⟩ = history ⟨code, never, ext⟩ fuel n s :=
  historyC_of_history code ext fuel n s 0 _ (presents_getD _)

/-! ## call-indexed run → poll-indexed run -/

theorem loop_of_loopC (code : Array Instr) (extC : Nat → ExtRec) : ∀ (fuel : Nat) (l : L) (s : St) (p0 : Nat)
    (ext : Nat → ExtRec), Presents ext p0 (pollRecs code extC fuel l s) →
    (loop ⟨code, never, ext⟩ fuel l ⟨s.env, p0⟩).1 = (loopC code extC fuel l s).1 ∧
    (loop ⟨code, never, ext⟩ fuel l ⟨s.env, p0⟩).2.env = (loopC code extC fuel l s).2.env ∧
    (loop ⟨code, never, ext⟩ fuel l ⟨s.env, p0⟩).2.polls = p0 + (pollRecs code extC fuel l s).length := by
  intro fuel
  induction fuel with
  | zero =>
    intro l s p0 ext hP
    rw [pollRecs_eq] at hP ⊢
    rw [loopC_zero, loop_zero, stepC_eq, step_eq_stepE _ _ _ rfl]
    have hx : stepE code (ext p0) l s.env = stepE code (extC s.polls) l s.env := by
      by_cases hr : 0 ≤ l.pc ∧ l.pc < (code.size : Int)
      · have := hP.append_left 0 (by simp [hr])
        simp [hr] at this
        rw [this]
      · apply stepE_tick0
        unfold tickAt
        rw [if_neg (fun h => hr ⟨h.1, h.2.1⟩)]
    simp only
    rw [hx]
    cases hs : stepE code (extC s.polls) l s.env with
    | fin o e' =>
      refine ⟨rfl, rfl, ?_⟩
      simp only [StepE.toStep, List.append_nil]
      by_cases hr : 0 ≤ l.pc ∧ l.pc < (code.size : Int) <;> simp [hr]
    | cont l' e' =>
      refine ⟨rfl, rfl, ?_⟩
      simp only [StepE.toStep, List.append_nil, St.save]
      by_cases hr : 0 ≤ l.pc ∧ l.pc < (code.size : Int) <;> simp [hr]
  | succ n ih =>
    intro l s p0 ext hP
    rw [pollRecs_eq] at hP ⊢
    rw [loopC_succ, loop_succ, stepC_eq, step_eq_stepE _ _ _ rfl]
    have hx : stepE code (ext p0) l s.env = stepE code (extC s.polls) l s.env := by
      by_cases hr : 0 ≤ l.pc ∧ l.pc < (code.size : Int)
      · have := hP.append_left 0 (by simp [hr])
        simp [hr] at this
        rw [this]
      · apply stepE_tick0
        unfold tickAt
        rw [if_neg (fun h => hr ⟨h.1, h.2.1⟩)]
    simp only
    rw [hx]
    rw [stepC_eq] at hP
    cases hs : stepE code (extC s.polls) l s.env with
    | fin o e' =>
      refine ⟨rfl, rfl, ?_⟩
      simp only [StepE.toStep, List.append_nil]
      by_cases hr : 0 ≤ l.pc ∧ l.pc < (code.size : Int) <;> simp [hr]
    | cont l' e' =>
      rw [hs] at hP
      simp only [StepE.toStep] at hP ⊢
      have hlen : (if 0 ≤ l.pc ∧ l.pc < (code.size : Int) then [extC s.polls] else []).length =
          (if 0 ≤ l.pc ∧ l.pc < (code.size : Int) then 1 else 0) := by
        by_cases hr : 0 ≤ l.pc ∧ l.pc < (code.size : Int) <;> simp [hr]
      have hrest := hP.append_right
      rw [hlen] at hrest
      have hp' : (if 0 ≤ l.pc ∧ l.pc < (code.size : Int) then p0 + 1 else p0) =
          p0 + (if 0 ≤ l.pc ∧ l.pc < (code.size : Int) then 1 else 0) := by
        by_cases hr : 0 ≤ l.pc ∧ l.pc < (code.size : Int) <;> simp [hr]
      rw [hp']
      obtain ⟨h1, h2, h3⟩ := ih l' ⟨e', s.polls + tickAt code l⟩ _ ext hrest
      refine ⟨h1, h2, ?_⟩
      rw [h3, List.length_append, hlen]
      omega

theorem history_of_historyC (code : Array Instr) (extC : Nat → ExtRec) (fuel : Nat) : ∀ (n : Nat) (s : St)
    (p0 : Nat) (ext : Nat → ExtRec), Presents ext p0 (pollRecsH code extC fuel n s) →
    history ⟨code, never, ext⟩ fuel n ⟨s.env, p0⟩ = historyC code extC fuel n s := by
  intro n
  induction n with
  | zero => intro s p0 ext _; rfl
  | succ n ih =>
    intro s p0 ext hP
    simp only [pollRecsH] at hP
    simp only [historyC, history]
    have he : entry ⟨code, never, ext⟩ ⟨s.env, p0⟩ = entry ⟨code, never, extC⟩ s := entry_code _ _ _ _ _ _ _ rfl
    obtain ⟨h1, h2, h3⟩ := loop_of_loopC code extC fuel (entry ⟨code, never, extC⟩ s) s p0 ext hP.append_left
    have hn : next ⟨code, never, ext⟩ fuel ⟨s.env, p0⟩ =
        loop ⟨code, never, ext⟩ fuel (entry ⟨code, never, extC⟩ s) ⟨s.env, p0⟩ := by
      unfold next; rw [he]
    rw [hn]
    have hst : (loop ⟨code, never, ext⟩ fuel (entry ⟨code, never, extC⟩ s) ⟨s.env, p0⟩).2 =
        ⟨(nextC code extC fuel s).2.env, p0 + (pollRecs code extC fuel (entry ⟨code, never, extC⟩ s) s).length⟩ := by
      cases hh : (loop ⟨code, never, ext⟩ fuel (entry ⟨code, never, extC⟩ s) ⟨s.env, p0⟩).2 with
      | mk e p => rw [hh] at h2 h3; simp only at h2 h3; rw [h2, h3]; rfl
    rw [hst, h1]
    have hnc : nextC code extC fuel s = loopC code extC fuel (entry ⟨code, never, extC⟩ s) s := rfl
    rw [← hnc]
    congr 1
    have := ih (nextC code extC fuel s).2 (p0 + (pollRecs code extC fuel (entry ⟨code, never, extC⟩ s) s).length) ext
      hP.append_right
    exact this

/-! ## the records of `callOracle` are records of the original oracle -/

theorem consumed_mem (code : Array Instr) (ext : Nat → ExtRec) : ∀ (fuel : Nat) (l : L) (s : St) (r : ExtRec),
    r ∈ consumed code ext fuel l s → ∃ k, r = ext k := by
  intro fuel
  induction fuel with
  | zero =>
    intro l s r hr
    rw [consumed_eq] at hr
    simp only [List.mem_append] at hr
    rcases hr with hr | hr
    · split at hr
      · simp at hr; exact ⟨_, hr⟩
      · simp at hr
    · cases hs : step ⟨code, never, ext⟩ l s <;> rw [hs] at hr <;> simp at hr
  | succ n ih =>
    intro l s r hr
    rw [consumed_eq] at hr
    simp only [List.mem_append] at hr
    rcases hr with hr | hr
    · split at hr
      · simp at hr; exact ⟨_, hr⟩
      · simp at hr
    · cases hs : step ⟨code, never, ext⟩ l s with
      | fin o s' => rw [hs] at hr; simp at hr
      | cont l' s' => rw [hs] at hr; exact ih l' s' r hr

theorem consumedH_mem (code : Array Instr) (ext : Nat → ExtRec) (fuel : Nat) : ∀ (n : Nat) (s : St) (r : ExtRec),
    r ∈ consumedH code ext fuel n s → ∃ k, r = ext k := by
  intro n
  induction n with
  | zero => intro s r hr; simp [consumedH] at hr
  | succ n ih =>
    intro s r hr
    simp only [consumedH, List.mem_append] at hr
    rcases hr with hr | hr
    · exact consumed_mem code ext fuel _ s r hr
    · exact ih _ r hr

/-- every record of `callOracle` is a record of the original oracle, or the empty record -/
theorem callOracle_mem (code : Array Instr) (ext : Nat → ExtRec) (fuel n : Nat) (s : St) (k : Nat) :
    (∃ j, callOracle code ext fuel n s k = ext j) ∨ (callOracle code ext fuel n s k).call = none := by
  unfold callOracle
  by_cases hk : k < (consumedH code ext fuel n s).length
  · left
    have : (consumedH code ext fuel n s).getD k {} = (consumedH code ext fuel n s)[k] := by
      simp [List.getD_eq_getElem?_getD, hk]
    rw [this]
    exact consumedH_mem code ext fuel n s _ (List.getElem_mem hk)
  · right
    have : (consumedH code ext fuel n s).getD k {} = {} := by
      simp [List.getD_eq_getElem?_getD, List.getElem?_eq_none (Nat.le_of_not_lt hk)]
    rw [this]

/-- EVERY call-indexed run is the poll-indexed run (`VM.history`, never cancelled) under `pollOracle` -/
theorem history_pollOracle (code : Array Instr) (extC : Nat → ExtRec) (fuel n : Nat) (s : St) :
    history ⟨code, never, pollOracle code extC fuel n s⟩ fuel n ⟨s.env, 0⟩ = historyC code extC fuel n s :=
  history_of_historyC code extC fuel n s 0 _ (presents_getD _)

end Gojq.OptVM

/-
  `compile_yields`, the cases of the parameter `g` and of calls `f(a)` (C01.3).  Core Lean only.
-/
import Gojq.Proofs.MiniVMRefine
namespace Gojq.MiniVM
variable [IterMsg]
set_option linter.unusedSectionVars false

theorem cy_param {code defs entry nf n} (hfun : FuncsOK code defs entry nf) (ihn : CY code defs entry nf n)  :
    CYq code defs entry nf (n+1) .param := by
  intro g e p hep hseg _ ρ v S F R fr o cp P htop hge hpar hP henv hoff hnd
  simp only [compile] at hseg hoff ⊢
  have h0 : code[p]? = some (.load (scopeOf entry g) 1) := by have := hseg 0 (by simp); simpa using this
  have h1 : code[p+1]? = some .callpc := by have := hseg 1 (by simp); simpa using this
  simp only [List.length_cons, List.length_nil]
  obtain ⟨ρc, ρv⟩ := ρ
  obtain ⟨henvc, _⟩ := henv
  simp only [] at henvc hpar
  cases ρc with
  | none => exact absurd rfl (hpar (by simp [Q.HasParam]))
  | mk h q' ρ' =>
    obtain ⟨f, dg, pcL, d', fd, hr, hp, _, hdd, hfd, hfid, hl, hcl', hpar', hrec⟩ := EnvRel.inv_mk henvc
    simp only [eval] at hnd ⊢
    obtain ⟨l0, l1, l2, l3⟩ := hl
    have hr' : resolve (scopeOf entry g) fr (fr.length - 1) = some (f, dg) := hr
    let lq := (compile entry ⟨h, []⟩ pcL (pcL+1) q').length
    let lam : Frame := ⟨pcL, p+1, o, F.length, some d'⟩
    have hdg := resolve_lt _ _ _ _ _ hr
    have hfne : fd.id ≠ pcL := by omega
    have start : Steps code (.run p (.v v :: S) F false none R fr o cp)
        (.run (pcL + 1) (.v v :: S) F false none R (lam :: fr) (o + (lq + 1)) (p+1, some d')) := by
      refine .head (c' := .run (p+1) (.clo pcL d' :: .v v :: S) F false none R fr o cp)
        (by simp [step, h0, hr', hp]) ?_
      refine .head (c' := .run pcL (.v v :: S) F false none R fr o (p+1, some d')) (by simp [step, h1]) ?_
      refine Steps.one ?_
      rw [step_scope l0 rfl hfd, if_neg hfne]
    have henv' : EnvRel code entry nf P R (lam :: fr) ((lam :: fr).length - 1) ρ' h := by
      have := hrec.lam lam (by omega) (by simp only [lam]; omega) rfl
      simpa using this
    have yb := ihn q' ⟨h, []⟩ pcL (pcL+1) (by omega) l1 hcl' ⟨ρ', []⟩ v S F R (lam :: fr) (o + (lq + 1)) (p+1, some d') P
      ⟨lam, fr, rfl, rfl⟩ (by simp only [scopeOf]; omega) hpar' (fun a ha => by have := hP a ha; simp only [lam, base]; omega)
      ⟨henv', fun x r hx => by simp [lookup] at hx⟩
      (by simp only [lam, base, lq]; omega) hnd
    have yb' : Yields code (Own o pcL (pcL + 1) lq) P (o + (lq + 1)) (lam :: fr) F (pcL + 1 + lq) S
        (.run (pcL + 1) (.v v :: S) F false none R (lam :: fr) (o + (lq + 1)) (p+1, some d'))
        (eval defs n ⟨h, []⟩ ⟨ρ', []⟩ q' v).outs (eval defs n ⟨h, []⟩ ⟨ρ', []⟩ q' v).stop.toErr := yb
    have yc := call_of_body (o := o) (fm := lam) (n := lq + 1) (Ob := Own o pcL (pcL + 1) lq) (P := P) (P' := P) htop.ne_nil rfl rfl
      (by intro a h; obtain ⟨j, j1, j2, j3⟩ := h; omega) (fun a h => Or.inl h) l2 yb'
    exact Yields.steps_left start EqOff.refl (yc.mono (fun _ h => h.elim) (fun a h => Or.inr (Or.inl h)) (Nat.le_refl _))

theorem cy_call1 {code defs entry nf n} (hfun : FuncsOK code defs entry nf) (ihn : CY code defs entry nf n) (f : Name) (a : Q) :
    CYq code defs entry nf (n+1) (.call1 f a) := by
  intro g e p hep hseg hcl ρ v S F R fr o cp P htop hge hpar hP henv hoff hnd
  simp only [compile] at hseg hoff ⊢
  simp only [Q.Closed] at hcl
  simp only [Q.HasParam] at hpar
  obtain ⟨hf, hcla⟩ := hcl
  obtain ⟨ft, hres, hbase, hftop, hftid⟩ := htop.resolve
  have hne := htop.ne_nil
  have htd := topDepth_of_ne_nil hne
  generalize hca : compile entry ⟨g.fn, []⟩ (p+2) (p+3) a = ca at hseg hoff ⊢
  have c0 : code[p]? = some (.store e (p - e)) := by have := hseg 0 (by simp); simpa using this
  have c1 : code[p+1]? = some (.jump (p + 4 + ca.length)) := by have := hseg 1 (by simp); simpa using this
  have c2 : code[p+2]? = some (.scope (p+2) (ca.length + 1) 0) := by have := hseg 2 (by simp); simpa using this
  have hsa : Seg code (p+3) ca := by
    have := Seg.append_right (a := [Instr.store e (p - e), .jump (p + 4 + ca.length), .scope (p+2) (ca.length + 1) 0]) (b := ca) (Seg.append_left hseg)
    simpa using this
  have htail := Seg.append_right (a := [Instr.store e (p - e), .jump (p + 4 + ca.length), .scope (p+2) (ca.length + 1) 0] ++ ca) hseg
  have hpe : p + ([Instr.store e (p - e), .jump (p + 4 + ca.length), .scope (p+2) (ca.length + 1) 0] ++ ca).length = p + 3 + ca.length := by
    simp; omega
  rw [hpe] at htail
  have t0 : code[p + 3 + ca.length]? = some .ret := by have := htail 0 (by simp); simpa using this
  have t1 : code[p + 3 + ca.length + 1]? = some (.pushpc (p+2)) := by have := htail 1 (by simp); simpa using this
  have t2 : code[p + 3 + ca.length + 2]? = some (.load e (p - e)) := by have := htail 2 (by simp); simpa using this
  have t3 : code[p + 3 + ca.length + 3]? = some (.call (entry f)) := by have := htail 3 (by simp); simpa using this
  have hlen : ([Instr.store e (p - e), .jump (p + 4 + ca.length), .scope (p+2) (ca.length + 1) 0] ++ ca ++
      [Instr.ret, .pushpc (p+2), .load e (p - e), .call (entry f)]).length = 3 + ca.length + 4 := by
    simp; omega
  rw [hlen] at hoff ⊢
  have hlam : LamAt code entry (p+2) g.fn a := by
    refine ⟨?_, ?_, ?_, by simp only [scopeOf] at hge; omega⟩
    · rw [hca]; exact c2
    · rw [hca]; exact hsa
    · rw [hca]; have : p + 2 + 1 + ca.length = p + 3 + ca.length := by omega
      rw [this]; exact t0
  simp only [eval] at hnd ⊢
  let lb := (compile entry ⟨some f, []⟩ (entry f) (entry f + 4) (defs f)).length
  let r := ft.base + (p - e)
  let R0 := R.set r (.v v)
  let R1 := R0.set o (.v v)
  let R2 := R1.set (o + 1) (.clo (p+2) (fr.length - 1))
  -- the `outerindex` the real VM computes for the callee's frame (never consulted in this fragment)
  let oo : Option Nat := if ft.id = entry f then ft.outer else some (fr.length - 1)
  let cal : Frame := ⟨entry f, p + 3 + ca.length + 3, o, F.length, oo⟩
  have hlenpos : 0 < fr.length := by cases fr <;> simp_all
  have hrc : resolve (entry f) (cal :: fr) ((cal :: fr).length - 1) = some (cal, fr.length) := by simp [resolve, cal]
  have start : Steps code (.run p (.v v :: S) F false none R fr o cp)
      (.run (entry f + 4) (.v v :: S) F false none R2 (cal :: fr) (o + (lb + 4)) (p + 3 + ca.length + 3, some (fr.length - 1))) := by
    refine .head (c' := .run (p+1) S F false none R0 fr o cp) (by simp [step, c0, hres, R0, r]) ?_
    refine .head (c' := .run (p + 4 + ca.length) S F false none R0 fr o cp) (by simp [step, c1]) ?_
    have e4 : p + 4 + ca.length = p + 3 + ca.length + 1 := by omega
    rw [e4]
    refine .head (c' := .run (p + 3 + ca.length + 2) (.clo (p+2) (fr.length - 1) :: S) F false none R0 fr o cp)
      (by simp [step, t1, htd]) ?_
    refine .head (c' := .run (p + 3 + ca.length + 3) (.v v :: .clo (p+2) (fr.length - 1) :: S) F false none R0 fr o cp)
      (by simp [step, t2, hres, R0, r, Regs.set]) ?_
    refine .head (c' := .run (entry f) (.v v :: .clo (p+2) (fr.length - 1) :: S) F false none R0 fr o
      (p + 3 + ca.length + 3, some (fr.length - 1))) (by simp [step, t3, htd]) ?_
    refine .head (c' := .run (entry f + 1) (.v v :: .clo (p+2) (fr.length - 1) :: S) F false none R0 (cal :: fr) (o + (lb + 4))
      (p + 3 + ca.length + 3, some (fr.length - 1))) (by rw [step_scope (hfun.scope f hf) rfl hftop]) ?_
    refine .head (c' := .run (entry f + 2) (.clo (p+2) (fr.length - 1) :: S) F false none R1 (cal :: fr) (o + (lb + 4))
      (p + 3 + ca.length + 3, some (fr.length - 1))) (by rw [step_store (hfun.st0 f hf) hrc]; rfl) ?_
    refine .head (c' := .run (entry f + 3) S F false none R2 (cal :: fr) (o + (lb + 4))
      (p + 3 + ca.length + 3, some (fr.length - 1))) (by rw [step_store (hfun.st1 f hf) hrc]) ?_
    refine Steps.one ?_
    rw [step_load (hfun.ld0 f hf) hrc]
    simp [cal, R2, R1, Regs.set]
  let P' : Nat → Prop := fun x => P x ∨ x = o + 1
  have hRR2 : EqOn P R R2 := by
    intro x hx
    have := hP x hx
    have h1 : x ≠ r := by simp only [r]; omega
    have h2 : x ≠ o := by omega
    have h3 : x ≠ o + 1 := by omega
    simp [R2, R1, R0, Regs.set, h1, h2, h3]
  have henv' : EnvRel code entry nf P' R2 (cal :: fr) ((cal :: fr).length - 1) (.mk g.fn a ρ.clo) (some f) := by
    have hres' : resolve (scopeOfFn entry (some f)) (cal :: fr) fr.length = some (cal, fr.length) := by
      simp [resolve, cal, scopeOfFn]
    have hfa : frameAt (cal :: fr) (fr.length - 1) = some ft := by
      rw [frameAt_push _ _ _ (by omega)]; exact hftop
    have := EnvRel.mk (code := code) (entry := entry) (nf := nf) (P := P') (R := R2) hres'
      (by simp [cal, R2, Regs.set]) (Or.inr (by simp [cal])) (by omega)
      hfa (by omega) hlam hcla hpar (((henv.1.congr hRR2).monoP (fun x hx => Or.inl hx)).push cal (by omega))
    simpa using this
  have yb := ihn (defs f) ⟨some f, []⟩ (entry f) (entry f + 4) (by omega) (hfun.body f hf) (hfun.closed f hf)
    ⟨.mk g.fn a ρ.clo, []⟩ v S F R2
    (cal :: fr) (o + (lb + 4)) (p + 3 + ca.length + 3, some (fr.length - 1)) P'
    ⟨cal, fr, rfl, rfl⟩ (Nat.le_refl _) (fun _ => by simp)
    (fun x hx => by
      simp only [cal, base]
      rcases hx with hx | hx
      · have := hP x hx; omega
      · omega)
    ⟨henv', fun x r hx => by simp [lookup] at hx⟩ (by simp only [cal, base, lb]; omega) hnd
  have yb' : Yields code (Own o (entry f) (entry f + 4) lb) P' (o + (lb + 4)) (cal :: fr) F (entry f + 4 + lb) S
      (.run (entry f + 4) (.v v :: S) F false none R2 (cal :: fr) (o + (lb + 4)) (p + 3 + ca.length + 3, some (fr.length - 1)))
      (eval defs n ⟨some f, []⟩ ⟨.mk g.fn a ρ.clo, []⟩ (defs f) v).outs
      (eval defs n ⟨some f, []⟩ ⟨.mk g.fn a ρ.clo, []⟩ (defs f) v).stop.toErr := yb
  have yc := call_of_body (o := o) (fm := cal) (n := lb + 4) (Ob := Own o (entry f) (entry f + 4) lb) (P := P) (P' := P') hne rfl rfl
    (by intro a h; obtain ⟨j, j1, j2, j3⟩ := h; omega)
    (by intro x hx; rcases hx with hx | hx
        · exact Or.inl hx
        · exact Or.inr (by omega))
    (hfun.ret f hf) yb'
  have hexit : cal.ret + 1 = p + (3 + ca.length + 4) := by simp only [cal]; omega
  rw [hexit] at yc
  refine Yields.steps_left start ?_ (yc.mono (fun _ h => h.elim) (fun a h => Or.inr (Or.inl h)) (Nat.le_refl _))
  intro i hi
  have hne1 : i ≠ r := by
    intro h; apply hi; left; exact ⟨p, by omega, by omega, by simp [h, r, hbase]⟩
  have hne2 : i ≠ o := by
    intro h; apply hi; right; omega
  have hne3 : i ≠ o + 1 := by
    intro h; apply hi; right; omega
  simp [R2, R1, R0, Regs.set, hne1, hne2, hne3]

end Gojq.MiniVM

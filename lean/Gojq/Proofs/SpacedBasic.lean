/-
  The printer's output satisfies the adjacency condition, part 1: the condition relative to the
  text that follows (`itemsOKF`), composition over `++`, the state after a sequence (`endLast`,
  `endMode`), and the bytes before which every scanner stops (`safeB`).
-/
import Gojq.Proofs.RoundTripLexItems
namespace Gojq.RefTerm
open Gojq Gojq.Lexer Gojq.Printer

/-- the last byte written after the items -/
def endLast : Option UInt8 → List Item → Option UInt8
  | last, [] => last
  | last, .t t :: r => endLast (lastOr t.spell last) r
  | _, .sp :: r => endLast (some 32) r
  | _, .nl :: r => endLast (some 10) r
  | last, .soft :: r =>
    match last with
    | some ch => if isDotOrDigit ch then endLast (some 32) r else endLast last r
    | none => endLast none r

/-- lexer mode and parenthesis stack after the items -/
def endMode : Bool → List Nat → List Item → Bool × List Nat
  | m, stk, [] => (m, stk)
  | _, stk, .t t :: r => endMode (if (stepStk t stk).2 then true else t.modeAfter) (stepStk t stk).1 r
  | _, stk, _ :: r => endMode false stk r

/-- `itemsOK` when the bytes `fol` follow the rendered items -/
def itemsOKF (fol : Bytes) : Option UInt8 → Bool → List Nat → List Item → Bool
  | _, _, _, [] => true
  | last, inStr, stk, .t t :: r =>
    t.wf && (t.inStrTok == inStr) && stops t (render (lastOr t.spell last) r ++ fol) &&
      itemsOKF fol (lastOr t.spell last) (if (stepStk t stk).2 then true else t.modeAfter) (stepStk t stk).1 r
  | _, inStr, stk, .sp :: r => !inStr && itemsOKF fol (some 32) false stk r
  | _, inStr, stk, .nl :: r => !inStr && itemsOKF fol (some 10) false stk r
  | last, inStr, stk, .soft :: r =>
    !inStr &&
      (match last with
       | some ch => if isDotOrDigit ch then itemsOKF fol (some 32) false stk r else itemsOKF fol last false stk r
       | none => itemsOKF fol none false stk r)

theorem itemsOKF_nil : ∀ (items : List Item) (last : Option UInt8) (m : Bool) (stk : List Nat),
    itemsOKF [] last m stk items = itemsOK last m stk items := by
  intro items
  induction items with
  | nil => intros; rfl
  | cons it r ih =>
    intro last m stk
    cases it <;> simp only [itemsOKF, itemsOK, ih, List.append_nil]
    cases last <;> simp only [ih]

theorem render_append : ∀ (a b : List Item) (last : Option UInt8),
    render last (a ++ b) = render last a ++ render (endLast last a) b := by
  intro a
  induction a with
  | nil => intros; rfl
  | cons it r ih =>
    intro b last
    cases it <;> simp only [List.cons_append, render, endLast, ih, List.append_assoc]
    cases last with
    | none => simp only [ih]
    | some ch => simp only []; split <;> simp [ih]

theorem endLast_append : ∀ (a b : List Item) (last : Option UInt8),
    endLast last (a ++ b) = endLast (endLast last a) b := by
  intro a
  induction a with
  | nil => intros; rfl
  | cons it r ih =>
    intro b last
    cases it <;> simp only [List.cons_append, endLast, ih]
    cases last with
    | none => simp only [ih]
    | some ch => simp only []; split <;> simp [ih]

theorem endMode_append : ∀ (a b : List Item) (m : Bool) (stk : List Nat),
    endMode m stk (a ++ b) = endMode (endMode m stk a).1 (endMode m stk a).2 b := by
  intro a
  induction a with
  | nil => intros; rfl
  | cons it r ih => intro b m stk; cases it <;> simp only [List.cons_append, endMode, ih]

/-- composition: the first part is followed by the rendering of the second -/
theorem itemsOKF_append : ∀ (a b : List Item) (fol : Bytes) (last : Option UInt8) (m : Bool) (stk : List Nat),
    itemsOKF fol last m stk (a ++ b) =
      (itemsOKF (render (endLast last a) b ++ fol) last m stk a &&
        itemsOKF fol (endLast last a) (endMode m stk a).1 (endMode m stk a).2 b) := by
  intro a
  induction a with
  | nil => intros; simp [itemsOKF, endLast, endMode]
  | cons it r ih =>
    intro b fol last m stk
    cases it with
    | t t =>
      simp only [List.cons_append, itemsOKF, endLast, endMode, render_append, List.append_assoc, ih, Bool.and_assoc]
    | sp => simp only [List.cons_append, itemsOKF, endLast, endMode, ih, Bool.and_assoc]
    | nl => simp only [List.cons_append, itemsOKF, endLast, endMode, ih, Bool.and_assoc]
    | soft =>
      simp only [List.cons_append, itemsOKF, endLast, endMode]
      cases last with
      | none => simp only [ih, Bool.and_assoc]
      | some ch => simp only []; split <;> simp only [ih, Bool.and_assoc]

/-! ### bytes before which every scanner stops -/

/-- `fol` starts with a byte that continues no token whose last byte is `lb`: white space, a
    closing or opening bracket, `,` `;` `?`, a `:` not followed by `:`, or a `.` when `lb` is
    neither `.` nor a digit -/
def safeB (lb : Option UInt8) : Bytes → Bool
  | [] => true
  | ch :: r =>
    ch == 32 || ch == 10 || ch == 41 || ch == 93 || ch == 125 || ch == 44 || ch == 59 || ch == 91 || ch == 63 ||
      ch == 40 || (ch == 58 && !(r.head? == some 58)) ||
      (ch == 46 && !(match lb with | some b => isDotOrDigit b | none => false))

end Gojq.RefTerm

/-
  C08 (bytecode checker): the paths stack.  Between `pathbegin` and `pathend` it holds SEGMENTS:
  `pathValue`s with a non-nil path on top of the marker `pathValue{nil, v}` on top of the saved
  `expdepth` (an `int`).  `POK` is that shape; `segs` counts the segments.
-/
import Gojq.Proofs.SafeVMView
set_option linter.unusedSimpArgs false
set_option linter.unusedVariables false
namespace Gojq.SafeVM
open Gojq Gojq.VM

/-- the shape of the paths stack -/
inductive POK : List (Int × V) → Prop
  | nil : POK []
  | pv {j : Int} {p w : V} {r : List (Int × V)} : p ≠ .jv .null → r ≠ [] → POK r → POK ((j, .pv p w) :: r)
  | seg {j1 j2 : Int} {w : V} {d : Int} {r : List (Int × V)} : POK r →
      POK ((j1, .pv (.jv .null) w) :: (j2, .jv (.num (.int d))) :: r)

def isMarker : V → Bool
  | .pv (.jv .null) _ => true
  | _ => false

/-- number of segments -/
def segs (l : List (Int × V)) : Nat := (l.filter fun x => isMarker x.2).length

theorem POK.top_pv {l : List (Int × V)} (h : POK l) (hne : l ≠ []) : ∃ j p w r, l = (j, .pv p w) :: r := by
  cases h with
  | nil => exact absurd rfl hne
  | pv _ _ _ => exact ⟨_, _, _, _, rfl⟩
  | seg _ => exact ⟨_, _, _, _, rfl⟩

theorem isMarker_of_ne {p w : V} (h : p ≠ .jv .null) : isMarker (.pv p w) = false := by
  cases p with
  | jv j => cases j <;> first | rfl | exact absurd rfl h
  | _ => rfl

theorem segs_pv {j : Int} {p w : V} {r : List (Int × V)} (h : p ≠ .jv .null) :
    segs ((j, .pv p w) :: r) = segs r := by
  simp [segs, List.filter_cons, isMarker_of_ne h]

theorem segs_seg {j1 j2 : Int} {w : V} {d : Int} {r : List (Int × V)} :
    segs ((j1, .pv (.jv .null) w) :: (j2, .jv (.num (.int d))) :: r) = segs r + 1 := by
  simp [segs, List.filter_cons, isMarker]

theorem segs_int {j : Int} {d : Int} {r : List (Int × V)} : segs ((j, .jv (.num (.int d))) :: r) = segs r := by
  simp [segs, List.filter_cons, isMarker]

/-! ## primitives -/

theorem pathsPush_view {e : Env} {A : AView} (hV : View e A) (v : V) :
    View { e with paths := e.paths.push v } { A with paths := ((e.paths.push v).index, v) :: A.paths } :=
  ⟨hV.stack, hV.scopes, hV.paths.push v, hV.pcs⟩

theorem pathsPop_spec {e : Env} {A : AView} (hV : View e A) {j : Int} {v : V} {r : List (Int × V)}
    (hA : A.paths = (j, v) :: r) :
    ∃ nx, pathsPop e = .ok v { e with paths := { e.paths with index := nx } } ∧
      View { e with paths := { e.paths with index := nx } } { A with paths := r } := by
  have hs := hV.paths
  rw [hA] at hs
  obtain ⟨nx, hp, hv, _, _⟩ := hs.pop_cons
  refine ⟨nx, ?_, ⟨hV.stack, hV.scopes, hv, hV.pcs⟩⟩
  unfold pathsPop; rw [hp]

theorem pathsTop_spec {e : Env} {A : AView} (hV : View e A) {j : Int} {v : V} {r : List (Int × V)}
    (hA : A.paths = (j, v) :: r) : pathsTop e = .ok v e := by
  have hs := hV.paths
  rw [hA] at hs
  unfold pathsTop; rw [hs.top_cons]

/-- `tracking` answers `true` only on a non-empty paths stack -/
theorem tracking_spec {e : Env} {A : AView} (hV : View e A) :
    ∃ b, tracking e = .ok b e ∧ (b = true → A.paths ≠ []) := by
  refine ⟨_, rfl, ?_⟩
  intro hb hA
  have hs := hV.paths
  rw [hA] at hs
  have := hs.index_nil
  simp only [Bool.and_eq_true, Bool.not_eq_true', Stack.empty, decide_eq_false_iff_not] at hb
  omega

/-- `pathIntact` on a non-empty, well-shaped paths stack: an answer or a gap of the model, no panic -/
theorem pathIntact_spec {e : Env} {A : AView} (hV : View e A) (hP : POK A.paths) (hne : A.paths ≠ [])
    (x : ExtRec) : (∃ b, pathIntact x e = .ok b e) ∨ (∃ w, pathIntact x e = .stuck w) := by
  obtain ⟨j, p, w, r, hA⟩ := hP.top_pv hne
  have ht := pathsTop_spec hV hA
  unfold pathIntact
  show (∃ b, M.bind pathsTop _ e = .ok b e) ∨ (∃ w, M.bind pathsTop _ e = .stuck w)
  simp only [M.bind, ht]
  cases hx : x.intact with
  | some b => exact .inl ⟨b, rfl⟩
  | none => exact .inr ⟨_, rfl⟩

/-! ## the data stack as a list -/

theorem ChainI.length_le {α : Type} {d : Array (Block α)} {i : Int} {xs : List (Int × α)} (h : ChainI d i xs) :
    xs.length ≤ (i + 1).toNat := by
  induction h with
  | nil hi => simp
  | cons h0 hb hn _ ih => simp only [List.length_cons]; omega

theorem chainVals_eq {d : Array (Block V)} {i : Int} {xs : List (Int × V)} (h : ChainI d i xs) :
    ∀ (n : Nat), xs.length ≤ n → chainVals d n i = xs.map (·.2) := by
  induction h with
  | nil hi =>
    intro n _
    cases n with
    | zero => rfl
    | succ n => simp [chainVals, Int.not_le.mpr hi]
  | cons h0 hb hn _ ih =>
    intro n hlen
    cases n with
    | zero => simp at hlen
    | succ n =>
      simp only [chainVals, h0, if_true, hb, List.map_cons]
      rw [ih n (by simp at hlen; omega)]

theorem stackList_view {e : Env} {A : AView} (hV : View e A) : stackList e.stack = A.stk.map (·.2) := by
  have hc := hV.stack.chain
  have h1 := hc.length_le
  have h2 := hc.index_lt
  exact chainVals_eq hc _ (by omega)

/-! ## more primitives on a well-shaped paths stack -/

theorem pathsPush_eq0 (v : V) (e : Env) : pathsPush v e = .ok () { e with paths := e.paths.push v } := rfl

/-- `for _, p := range ps { env.paths.push(pathValue{p, w}) }` with non-null `p`s -/
theorem pushPaths_spec {e : Env} {A : AView} (hV : View e A) (hP : POK A.paths) (hne : A.paths ≠ []) (w : V) :
    ∀ (ps : List JV) (e : Env) (A : AView), View e A → POK A.paths → A.paths ≠ [] → JV.null ∉ ps →
    ∃ e' pa', pushPaths w ps e = .ok () e' ∧ Fr e e' ∧ View e' { A with paths := pa' } ∧ POK pa' ∧ pa' ≠ [] ∧
      segs pa' = segs A.paths := by
  intro ps
  induction ps with
  | nil =>
    intro e A hV hP hne _
    exact ⟨e, A.paths, rfl, Fr.refl e, hV, hP, hne, rfl⟩
  | cons p ps ih =>
    intro e A hV hP hne hnull
    have hp : (V.jv p) ≠ .jv .null := by
      intro h; injection h with h; exact hnull (by rw [h]; simp)
    have hV1 := pathsPush_view hV (.pv (.jv p) w)
    obtain ⟨e', pa', h1, h2, h3, h4, h5, h6⟩ := ih _ _ hV1 (POK.pv hp hne hP) (by simp)
      (fun h => hnull (by simp [h]))
    refine ⟨e', pa', ?_, ?_, h3, h4, h5, ?_⟩
    · unfold pushPaths
      show M.bind (pathsPush _) _ e = _
      simp only [M.bind, pathsPush_eq0]
      exact h1
    · exact Fr.trans ⟨rfl, rfl, rfl, rfl, rfl⟩ h2
    · rw [h6]; exact segs_pv hp

/-- what `poppaths` establishes -/
def PopPost (A : AView) (e : Env) : Res (List JV) → Prop
  | .ok _ e' => Fr e e' ∧ ∃ j d r, View e' { A with paths := (j, .jv (.num (.int d))) :: r } ∧ POK r ∧
      segs r + 1 = segs A.paths
  | .panic s => covered s = false
  | .stuck _ => True

/-- `poppaths` on a non-empty, well-shaped paths stack pops exactly the top segment's path entries
    and its marker; the saved `expdepth` is then on top -/
theorem poppathsLoop_spec : ∀ (n : Nat) (acc : List JV) (e : Env) (A : AView), View e A → POK A.paths → A.paths ≠ [] →
    PopPost A e (poppathsLoop n acc e) := by
  intro n
  induction n with
  | zero => intro acc e A _ _ _; exact trivial
  | succ n ih =>
    intro acc e A hV hP hne
    generalize hpa : A.paths = pa at hP hne
    cases hP with
    | nil => exact absurd rfl hne
    | @pv j p w r hp hr hPr =>
      obtain ⟨nx, hpop, hV1⟩ := pathsPop_spec hV hpa
      unfold poppathsLoop
      show PopPost A e (M.bind pathsPop _ e)
      simp only [M.bind, hpop]
      have key : ∀ acc', PopPost A e (poppathsLoop n acc' { e with paths := { e.paths with index := nx } }) := by
        intro acc'
        have := ih acc' _ _ hV1 hPr hr
        revert this
        cases poppathsLoop n acc' _ with
        | ok a e' =>
          rintro ⟨f1, j', d, r', h1, h2, h3⟩
          refine ⟨Fr.trans ⟨rfl, rfl, rfl, rfl, rfl⟩ f1, j', d, r', h1, h2, ?_⟩
          rw [h3, hpa]; exact (segs_pv hp).symm
        | panic s => exact id
        | stuck w => exact id
      cases p with
      | jv jp =>
        cases jp <;> first
          | exact absurd rfl hp
          | (simp only [asJV, bind, M.bind, pure, M.pure]; exact key _)
      | _ => simp only [asJV]; exact trivial
    | @seg j1 j2 w d r hPr =>
      obtain ⟨nx, hpop, hV1⟩ := pathsPop_spec hV hpa
      unfold poppathsLoop
      show PopPost A e (M.bind pathsPop _ e)
      simp only [M.bind, hpop]
      refine ⟨⟨rfl, rfl, rfl, rfl, rfl⟩, j2, d, r, hV1, hPr, ?_⟩
      rw [hpa]; exact segs_seg.symm

theorem poppaths_spec {e : Env} {A : AView} (hV : View e A) (hP : POK A.paths) (hne : A.paths ≠ []) :
    PopPost A e (poppaths e) :=
  poppathsLoop_spec _ _ _ _ hV hP hne

theorem take_map1 {α β : Type} (f : α → β) (q0 : α) (rest : List α) (n : Nat) (h : 1 ≤ n) :
    ((q0 :: rest).take n).map f = f q0 :: (rest.take (n - 1)).map f := by
  obtain ⟨m, rfl⟩ : ∃ m, n = m + 1 := ⟨n - 1, by omega⟩
  simp

theorem take_map2 {α β : Type} (f : α → β) (q0 q1 : α) (rest : List α) (n : Nat) (h : 2 ≤ n) :
    ((q0 :: q1 :: rest).take n).map f = f q0 :: f q1 :: (rest.take (n - 2)).map f := by
  obtain ⟨m, rfl⟩ : ∃ m, n = m + 2 := ⟨n - 2, by omega⟩
  simp

theorem take_map3 {α β : Type} (f : α → β) (q0 q1 q2 : α) (rest : List α) (n : Nat) (h : 3 ≤ n) :
    ((q0 :: q1 :: q2 :: rest).take n).map f = f q0 :: f q1 :: f q2 :: (rest.take (n - 3)).map f := by
  obtain ⟨m, rfl⟩ : ∃ m, n = m + 3 := ⟨n - 3, by omega⟩
  simp

end Gojq.SafeVM

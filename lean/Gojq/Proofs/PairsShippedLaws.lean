/-
  Helper lemmas for Props/C13Shipped.lean, part 6: the laws of C13 END TO END about the shipped
  definitions — `fromstream(tostream)`, `[paths] == [path(..)] - [[]]`, `getpath` at the events of
  `tostream` — by composing the universal ties (`eval_tostreamQ`, `eval_pathsQ`,
  `eval_pathRecurseQ`, `foreachLoop_fromstream`) with the value-level theorems.
-/
import Gojq.Proofs.PairsShippedTostream
import Gojq.Proofs.Fromstream
namespace Gojq.Pairs
open Gojq Gojq.Spec Gojq.Pairs.Tie

/-! ### `fromstream(tostream)` -/

/-- `fromstream(tostream)` -/
def fromstreamTostreamQ : Query := (Query.term [] (Term.mk (TermCore.func "fromstream" [tostreamQ]) []))

theorem qFromstreamTostream_eq : qFromstreamTostream = (Query.term [] (Term.mk (TermCore.array (some fromstreamTostreamQ)) [])) := rfl

/-- `fromstream(tostream)` through both shipped definitions: what `Stream.fromstreamSpec` makes of
    `Stream.streamSpec v` -/
theorem eval_fromstreamTostreamQ (m : Nat) (env : Env) (v : JV) (id : Ident) (hn : Stream.nodup v) (hs : Rebuildable v)
    (hv : IntsOK v) (hm : 10 * depth v + 80 ≤ m)
    (hF : lookupCall "fromstream" 1 env.bs = .none) (hT : lookupCall "tostream" 0 env.bs = .none) :
    match Stream.fromstreamSpec (Stream.streamSpec v) with
    | .ok outs => ∃ res, eval m cfgGo env fromstreamTostreamQ { v := v, id := id } = ⟨res, .done⟩ ∧ res.map (·.v) = outs
    | .error _ => ∃ res e, eval m cfgGo env fromstreamTostreamQ { v := v, id := id } = ⟨res, .err e⟩ := by
  obtain ⟨n, rfl⟩ : ∃ n, m = n + 15 := ⟨m - 15, by omega⟩
  let envF : Env := .mk [.clo "f" tostreamQ env, .fn "fromstream" ["f"] fromstreamBody true]
  have hsrc : eval (n + 7) cfgGo envF (varQ "f") { v := v, id := id } =
      ⟨(Stream.streamSpec v).map fun ev => { v := ev, id := .fresh }, .done⟩ := by
    simp only [envF, varQ, eval_term, Env.defs, List.foldl_nil, evalTerm_succ, evalTermRev, List.reverse_nil, evalCore_succ,
      evalCall_succ, List.length_nil, Env.bs, lookupCall, beq_self_eq_true, Bool.and_self, if_true]
    exact eval_tostreamQ (n + 3) env v id hn hs.indexable hv (by omega) hT
  have hsts : ∀ st ∈ (Stream.streamSpec v).map (fun ev => ({ v := ev, id := .fresh } : St)),
      st.pend = false ∧ st.ctx = none ∧ eventOK st.v = true := by
    intro st hst
    obtain ⟨ev, hev, rfl⟩ := List.mem_map.mp hst
    exact ⟨rfl, rfl, List.all_eq_true.mp (streamSpec_ok v hs) ev hev⟩
  have hloop := foreachLoop_fromstream (n + 7) (by omega)
    [.clo "f" tostreamQ env, .fn "fromstream" ["f"] fromstreamBody true] rfl rfl rfl _ hsts .null .fresh ⟨.null, false⟩
    Rep.null [] [] rfl
  have hmap : ((Stream.streamSpec v).map fun ev => ({ v := ev, id := .fresh } : St)).map (·.v) = Stream.streamSpec v := by
    rw [List.map_map]; exact List.map_id _
  rw [hmap] at hloop
  have hcall : eval (n + 15) cfgGo env fromstreamTostreamQ { v := v, id := id } =
      foreachFrom (n + 7) cfgGo envF (varQ "f") (.var "$pv") updateQ (some extractQ) { v := v, id := id }
        { v := .null, id := .fresh } := by
    simp only [fromstreamTostreamQ, eval_term, Env.defs, List.foldl_nil, evalTerm_succ, evalTermRev, List.reverse_nil,
      evalCore_succ]
    rw [evalCall_fromstream (n + 10) env _ _ hF, eval_fromstreamBody (n + 4)]
  rw [hcall]
  simp only [foreachFrom, hsrc]
  simp only [Stream.fromstreamSpec] at hloop ⊢
  exact hloop

/-- **`fromstream(tostream)` AS SHIPPED yields exactly the value** -/
theorem eval_fromstreamTostreamQ_id (m : Nat) (env : Env) (v : JV) (id : Ident) (hw : v.wf = true) (hs : Rebuildable v)
    (hv : IntsOK v) (hm : 10 * depth v + 80 ≤ m)
    (hF : lookupCall "fromstream" 1 env.bs = .none) (hT : lookupCall "tostream" 0 env.bs = .none) :
    (eval m cfgGo env fromstreamTostreamQ { v := v, id := id }).outs.map (·.v) = [v] ∧
    (eval m cfgGo env fromstreamTostreamQ { v := v, id := id }).stop = .done := by
  have h := eval_fromstreamTostreamQ m env v id (Stream.nodup_wf v hw) hs hv hm hF hT
  have hspec : Stream.fromstreamSpec (Stream.streamSpec v) = .ok [v] := by
    have := Stream.rebuild_docs [v] (by intro w hw'; rw [List.mem_singleton.mp hw']; exact Stream.nodup_wf v hw)
      ⟨.null, false⟩ (Or.inr rfl) []
    simpa [Stream.fromstreamSpec, Stream.streamSpecDocs, Stream.canon_wf v hw] using this
  rw [hspec] at h
  obtain ⟨res, hres, hvals⟩ := h
  rw [hres]
  exact ⟨hvals, rfl⟩

/-! ### `[paths] == [path(..)] - [[]]` -/

/-- `[q]` collects the values of a run that ends normally -/
theorem eval_collect (n : Nat) (env : Env) (q : Query) (s : St) (outs : List St)
    (h : eval n cfgGo env q s = ⟨outs, .done⟩) :
    eval (n + 3) cfgGo env (Query.term [] (Term.mk (TermCore.array (some q)) [])) s = .one (computed s (.arr (outs.map (·.v)))) := by
  simp only [eval_term, Env.defs, List.foldl_nil, evalTerm_succ, evalTermRev, List.reverse_nil, evalCore_succ, h]

theorem qPaths_eq : qPaths = (Query.term [] (Term.mk (TermCore.array (some pathsQ)) [])) := rfl
theorem qPathRecurse_eq : qPathRecurse = (Query.term [] (Term.mk (TermCore.array (some pathRecurseQ)) [])) := rfl

/-- `[paths]` as shipped -/
theorem eval_qPaths (m : Nat) (env : Env) (s : St) (hv : IntsOK s.v) (hm : 10 * depth s.v + 50 ≤ m)
    (h : lookupCall "paths" 0 env.bs = .none) :
    eval m cfgGo env qPaths s = .one (computed s (pathsJV (allPaths s.v))) := by
  obtain ⟨n, rfl⟩ : ∃ n, m = n + 3 := ⟨m - 3, by omega⟩
  rw [qPaths_eq, eval_collect n env pathsQ s _ (eval_pathsQ n env s hv (by omega) h), List.map_map]
  rfl

/-- `[path(..)]` as shipped -/
theorem eval_qPathRecurse (m : Nat) (env : Env) (s : St) (hv : IntsOK s.v) (hm : 10 * depth s.v + 40 ≤ m)
    (hP : lookupCall "path" 1 env.bs = .none) (hR : lookupCall "recurse" 0 env.bs = .none) :
    eval m cfgGo env qPathRecurse s = .one (computed s (pathsJV (recPaths s.v))) := by
  obtain ⟨n, rfl⟩ : ∃ n, m = n + 3 := ⟨m - 3, by omega⟩
  rw [qPathRecurse_eq, eval_collect n env pathRecurseQ s _ (eval_pathRecurseQ n env s hv (by omega) hP hR), List.map_map]
  rfl

/-- `[path(..)] - [[]]` as shipped -/
theorem eval_qPathRecurseMinusRoot (m : Nat) (env : Env) (v : JV) (id : Ident) (hv : IntsOK v) (hm : 10 * depth v + 50 ≤ m)
    (hP : lookupCall "path" 1 env.bs = .none) (hR : lookupCall "recurse" 0 env.bs = .none) :
    ∃ i, eval m cfgGo env qPathRecurseMinusRoot { v := v, id := id } = .one { v := recPathsMinusRoot v, id := i } := by
  obtain ⟨n, rfl⟩ : ∃ n, m = n + 10 := ⟨m - 10, by omega⟩
  have hne : ("_subtract" == "_add") = false := by decide
  have hq : qPathRecurseMinusRoot = Query.binop [] Op.sub qPathRecurse
      (Query.term [] (Term.mk (TermCore.array (some (Query.term [] (Term.mk (TermCore.array none) [])))) [])) := rfl
  have hl : ∀ c pd, eval (n + 8) cfgGo env qPathRecurse { v := v, id := id, ctx := c, pend := pd } =
      .one (computed { v := v, id := id, ctx := c, pend := pd } (pathsJV (recPaths v))) :=
    fun c pd => eval_qPathRecurse (n + 8) env _ hv (by simp only; omega) hP hR
  rw [hq]
  simp only [eval_binop, Env.defs, List.foldl_nil, evalBinNative_eq, eval_term, evalTerm_succ, evalTermRev, List.reverse_nil,
    evalCore_succ, computed, Res.one, List.map, one_bind_mk, hl, Res.bind, Res.bindList, binApply, hne, Bool.false_and,
    Bool.false_eq_true, if_false]
  exact ⟨_, rfl⟩

/-! ### `getpath` at the events of `tostream` -/

/-- every two-element event `[p, leaf]` of `streamSpec v`: the evaluator's `getpath(p)` on `v` is `leaf` -/
theorem streamSpec_getpathV (v : JV) (hn : Stream.nodup v) (hs : Indexable v) (p : List JV) (leaf : JV)
    (h : JV.arr [.arr p, leaf] ∈ Stream.streamSpec v) : getpathV v p = .ok leaf := by
  obtain ⟨q, hq, hl⟩ := spec_loc v [] p leaf h hn hs
  simp only [List.reverse_nil, List.nil_append] at hq
  subst hq
  exact getpathV_of_Loc _ v leaf hl

/-! ### the sub-values `..` emits, and witnesses for the hypotheses -/

/-- the values `..` emits: every node of the value, depth first, a node before its children -/
def subvalues (v : JV) : List JV := (nodes false [] v).map (·.2)

/-- is the stop `unmodelled` (the reference evaluator could not decide) -/
def isUnmodelled : Stop → Bool
  | .unmodelled _ => true
  | _ => false

/-- did the run end for lack of fuel -/
def isFuel : Stop → Bool
  | .fuel => true
  | _ => false

/-- `2^63`, the first integer a Go `int` cannot hold -/
def bigInt : JV := .num (.int 9223372036854775808)

/-- an association list with a repeated key (not a value the library can hold) -/
def dupObj : JV := .obj [([97], jvInt 1), ([97], jvInt 2)]

/-- `[[[[[[null]]]]]]` -/
def deep6 : JV := .arr [.arr [.arr [.arr [.arr [.arr [.null]]]]]]

end Gojq.Pairs

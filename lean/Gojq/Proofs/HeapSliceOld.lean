/-
  The slice step of `update` as it was BEFORE bcc8a71 (`updateArraySlice` did not unregister the array
  `u` that carried the new elements), kept only to state the witness of the defect this model found:
  `Props/C05Slices.lean`, `dead_registration_before_bcc8a71`.  Core Lean only.
-/
import Gojq.Model.HeapSlice
namespace Gojq.Heap
open Gojq

/-- `plugSlice` without `freeU` -/
def plugSlice0 (sf : SFocus) (r : T × List Nat × Nat × Log) : Option (T × List Nat × Nat × Log) :=
  match r.1 with
  | .node _ false _ uks =>
    let kids := sf.pre ++ uks ++ sf.post
    match sf.cell with
    | some (id, c) =>
      if uks.length = sf.mid.length ∧ id ∈ r.2.1 then
        some (.node id false c kids, r.2.1, r.2.2.1,
          (if sf.pre.isEmpty then rebase id sf.post r.2.2.2 else r.2.2.2) ++ (if uks.isEmpty then [] else [(id, kids)]))
      else some (.node r.2.2.1 false kids.length kids, regFresh r.2.2.1 kids (r.2.1.filter (· ≠ id)), r.2.2.1 + 1, r.2.2.2)
    | none => some (.node r.2.2.1 false kids.length kids, regFresh r.2.2.1 kids r.2.1, r.2.2.1 + 1, r.2.2.2)
  | _ => none

/-- `updS` with the slice step of the tree before bcc8a71 -/
def updS0 (A : List Nat) (f : Nat) : PathS → T → T → Option (T × List Nat × Nat × Log)
  | [], _, n => some (n, A, f, [])
  | .key k :: p, v, n =>
    match enter (.key k) v with
    | none => none
    | some (cell, o, fo) => (updS0 A f p fo.child n).map (plugE cell o fo)
  | .idx i :: p, v, n =>
    match enter (.idx i) v with
    | none => none
    | some (cell, o, fo) => (updS0 A f p fo.child n).map (plugE cell o fo)
  | .slice s e :: p, v, n =>
    match enterSlice s e v with
    | none => none
    | some sf => (updS0 A (viewLabel sf f).2 p (view sf f) n).bind (plugSlice0 sf)

end Gojq.Heap

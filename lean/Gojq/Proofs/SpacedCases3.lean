/-
  The printer's output satisfies the adjacency condition, part 8: suffixes, strings, lists,
  objects, patterns, `if`, `reduce`, `foreach`, calls, definitions.
-/
import Gojq.Proofs.SpacedCases2
namespace Gojq.RefTerm
open Gojq Gojq.Lexer Gojq.Printer

/-! ### suffixes -/

/-- the printer's `soft` space followed by a token: whatever was written before -/
theorem itemsOKF_soft (fol : Bytes) (last : Option UInt8) (stk : List Nat) (r : List Item)
    (h : ∀ L, itemsOKF fol L false stk r = true) : itemsOKF fol last false stk (.soft :: r) = true := by
  simp only [itemsOKF, Bool.not_false, Bool.true_and]
  cases last with
  | none => exact h _
  | some b => simp only []; split <;> exact h _

theorem endLast_soft_tok (last : Option UInt8) (t : Tok) (r : List Item) (hwf : t.wf = true) :
    endLast last (.soft :: .t t :: r) = endLast t.spell.getLast? r := by
  simp only [endLast]
  cases last with
  | none => simp only [lastOr_wf t _ hwf]
  | some b => simp only []; split <;> simp only [endLast, lastOr_wf t _ hwf]

theorem sp_sufName (n : Bytes) : SPSuf (.name n) := by
  intro dot last stk fol hok hf
  simp only [okSuf] at hok
  have hwf : (Tok.index n).wf = true := hok
  have e : itemsSuf dot (.name n) = [.soft, .t (.index n)] := by cases dot <;> rfl
  rw [e] at hf ⊢
  rw [endLast_soft_tok _ _ _ hwf] at hf
  simp only [endLast] at hf
  refine itemsOKF_soft _ _ _ _ (fun L => ?_)
  rw [itemsOKF_index]
  simp [hwf, Tok.inStrTok, render, stops_of_safe (.index n) fol hwf rfl (by simp) hf]

theorem sp_sufStr (s : Str) (ih : SPS s) : SPSuf (.str s) := by
  intro dot last stk fol hok _
  simp only [okSuf] at hok
  refine itemsOKF_soft _ _ _ _ (fun L => ?_)
  have hh : ∃ r, render (some 46) (itemsS s) ++ fol = 34 :: r := by
    cases s <;> simp [itemsS, render, Tok.spell, encodeString]
  obtain ⟨r, e⟩ := hh
  simp [okCh, e, stops, isSolo, isIdent, isNumber, Tok.spell, ih (some 46) stk fol hok]

theorem sp_sufOpt : SPSuf .opt := by
  intro dot last stk fol _ hf
  simp only [itemsSuf, endLast, Tok.spell, lastOr_single] at hf
  simp [itemsSuf, okCh, render, stops_last (.ch 63) last fol rfl rfl (by simp) (by simpa [Tok.spell] using hf)]

theorem sp_sufIter : SPSuf .iter := by
  intro dot last stk fol _ _
  simp [itemsSuf, okCh, isSolo, stops, render, Tok.spell]

/-- the dot the printer writes before a bracket suffix of an identity term -/
theorem itemsOKF_dotPrefix (dot : Bool) (fol : Bytes) (last : Option UInt8) (stk : List Nat) (r : List Item)
    (h : ∀ L, itemsOKF fol L false stk (c 91 :: r) = true) :
    itemsOKF fol last false stk ((if dot then [Item.soft, c 46] else []) ++ (c 91 :: r)) = true := by
  cases dot
  · simpa using h last
  · simp only [if_true, List.cons_append, List.nil_append]
    refine itemsOKF_soft _ _ _ _ (fun L => ?_)
    have := h (some 46)
    simp [okCh, stops, isSolo, isIdent, isNumber, render, Tok.spell] at this ⊢
    exact this

theorem sp_sufAt (q : Query) (ih : SPQ q) : SPSuf (.at q) := by
  intro dot last stk fol hok _
  simp only [okSuf] at hok
  simp only [itemsSuf]
  refine itemsOKF_dotPrefix dot _ _ _ _ (fun L => ?_)
  simp [itemsOKF_append, endQ, okCh, isSolo, stops, render, Tok.spell]
  exact ih _ _ _ (OkQ_of _ _ _ hok) (safeB_safeHead _ 93 _ rfl)

theorem sp_sufFrom (q : Query) (ih : SPQ q) : SPSuf (.sliceFrom q) := by
  intro dot last stk fol hok _
  simp only [okSuf] at hok
  simp only [itemsSuf]
  refine itemsOKF_dotPrefix dot _ _ _ _ (fun L => ?_)
  simp [itemsOKF_append, endQ, okCh, isSolo, stops, render, Tok.spell]
  exact ih _ _ _ (OkQ_of _ _ _ hok) (by simp [safeB])

theorem sp_sufTo (q : Query) (ih : SPQ q) : SPSuf (.sliceTo q) := by
  intro dot last stk fol hok _
  simp only [okSuf] at hok
  simp only [itemsSuf]
  refine itemsOKF_dotPrefix dot _ _ _ _ (fun L => ?_)
  simp [itemsOKF_append, endQ, okCh, isSolo, stops, render, Tok.spell]
  exact ih _ _ _ (OkQ_of _ _ _ hok) (safeB_safeHead _ 93 _ rfl)

theorem sp_sufSlice (a b : Query) (iha : SPQ a) (ihb : SPQ b) : SPSuf (.slice a b) := by
  intro dot last stk fol hok _
  simp only [okSuf, Bool.and_eq_true] at hok
  simp only [itemsSuf]
  refine itemsOKF_dotPrefix dot _ _ _ _ (fun L => ?_)
  simp [itemsOKF_append, endQ, okCh, isSolo, stops, render, render_append, Tok.spell]
  refine ⟨iha _ _ _ (OkQ_of _ _ _ hok.1) ?_, ihb _ _ _ (OkQ_of _ _ _ hok.2) (safeB_safeHead _ 93 _ rfl)⟩
  exact safeB_colon _ _ (startsOK_append _ _ (startsQ b (some 58) (OkQ_of _ _ _ hok.2)))

/-- the first byte of a printed suffix may follow whatever the term before it ends with -/
theorem safeB_suf (lb : Option UInt8) (dot : Bool) (s : Suffix) (fol : Bytes) :
    safeB lb (render lb (itemsSuf dot s) ++ fol) = true := by
  have hsoft : ∀ (t : Tok) (r : List Item) (tl : Bytes), t.spell = 46 :: tl →
      safeB lb (render lb (.soft :: .t t :: r) ++ fol) = true := by
    intro t r tl e
    simp only [render]
    cases lb with
    | none => simp [safeB, e]
    | some b =>
      simp only []
      split
      · simp [safeB]
      · next hd => simp [safeB, e, hd]
  cases s with
  | name n => exact hsoft _ _ n rfl
  | str s => exact hsoft _ _ [] rfl
  | «at» q => cases dot <;> first | exact hsoft _ _ [] rfl | simp [itemsSuf, render, Tok.spell, safeB]
  | sliceFrom q => cases dot <;> first | exact hsoft _ _ [] rfl | simp [itemsSuf, render, Tok.spell, safeB]
  | sliceTo q => cases dot <;> first | exact hsoft _ _ [] rfl | simp [itemsSuf, render, Tok.spell, safeB]
  | slice a b => cases dot <;> first | exact hsoft _ _ [] rfl | simp [itemsSuf, render, Tok.spell, safeB]
  | iter => simp [itemsSuf, render, Tok.spell, safeB]
  | opt => simp [itemsSuf, render, Tok.spell, safeB]

theorem sp_suf (t : Term) (s : Suffix) (iht : SPT t) (ihs : SPSuf s) : SPT (.suf t s) := by
  intro last stk fol hok hf
  simp only [okT, Bool.and_eq_true] at hok
  simp only [itemsT, endLast_append] at hf
  simp only [itemsT, itemsOKF_append, endT, Bool.and_eq_true]
  exact ⟨iht _ _ _ hok.1.1 (safeB_suf _ _ _ _), ihs _ _ _ _ hok.2 hf⟩

theorem sp_index (i : Suffix) (ih : SPSuf i) : SPT (.index i) := by
  intro last stk fol hok hf
  simp only [okT, Bool.and_eq_true] at hok
  simpa [itemsT] using ih true last stk fol hok.2 (by simpa [itemsT] using hf)

/-! ### strings -/

theorem partsShape_tail (p : Part) (ps : List Part) (h : partsShape (p :: ps) = true) : partsShape ps = true := by
  cases p with
  | q q => simpa [partsShape] using h
  | lit v =>
    cases ps with
    | nil => rfl
    | cons p2 ps' =>
      cases p2 with
      | lit w => simp [partsShape] at h
      | q q => simpa [partsShape] using h

theorem sp_partsNil : SPParts [] := by
  intro last stk fol _ _
  simp [itemsParts, itemsOKF_strEnd, Tok.wf, Tok.inStrTok, stops]

theorem sp_partsLit (v : Bytes) (ps : List Part) (ih : SPParts ps) : SPParts (.lit v :: ps) := by
  intro last stk fol hok hsh
  simp only [okParts, okPart, Bool.and_eq_true] at hok
  have hst : stops (.chunk v) (render (lastOr (Tok.chunk v).spell last) (itemsParts ps ++ [.t .strEnd]) ++ fol) = true := by
    cases ps with
    | nil => simp [itemsParts, render, Tok.spell, stops]
    | cons p ps' =>
      cases p with
      | lit w => simp [partsShape] at hsh
      | q q => simp [itemsParts, itemsPart, render, Tok.spell, stops]
  simp only [itemsParts, itemsPart, List.cons_append, List.nil_append]
  rw [itemsOKF_chunk]
  simp [Tok.wf, Tok.inStrTok, hok.1.1, hok.1.2, hst, ih _ _ _ hok.2 (partsShape_tail _ _ hsh)]

theorem sp_partsQ (q : Query) (ps : List Part) (ihq : SPQ q) (ih : SPParts ps) : SPParts (.q q :: ps) := by
  intro last stk fol hok hsh
  simp only [okParts, okPart, Bool.and_eq_true] at hok
  simp only [itemsParts, itemsPart, List.cons_append, List.append_assoc, List.nil_append]
  simp [itemsOKF_append, endQ, render, Tok.spell, ih _ _ _ hok.2 (partsShape_tail _ _ hsh)]
  exact ihq _ _ _ (OkQ_of _ _ _ hok.1) (safeB_safeHead _ 41 _ rfl)

/-- after the opening quote of an interpolated string the lexer meets `\(` before any closing quote -/
theorem stops_strStart (ps : List Part) (last : Option UInt8) (fol : Bytes) (hsh : partsShape ps = true)
    (hq : hasQ ps = true) : stops .strStart (render last (itemsParts ps ++ [.t .strEnd]) ++ fol) = true := by
  cases ps with
  | nil => simp [hasQ] at hq
  | cons p ps' =>
    cases p with
    | q q =>
      simp only [itemsParts, itemsPart, List.cons_append, render, Tok.spell, stops]
      rw [scanString.eq_def]; simp
    | lit v =>
      cases ps' with
      | nil => simp [hasQ] at hq
      | cons p2 ps'' =>
        cases p2 with
        | lit w => simp [partsShape] at hsh
        | q q =>
          simp only [itemsParts, itemsPart, List.cons_append, List.nil_append, render, Tok.spell, stops,
            List.append_assoc]
          rw [scan_encodeBody, scanString.eq_def]; simp

theorem sp_strLit (v : Bytes) : SPS (.lit v) := by
  intro last stk fol hok
  simp only [okS] at hok
  simp [itemsS, itemsOKF_str, Tok.wf, Tok.inStrTok, hok]

theorem sp_strI (ps : List Part) (ih : SPParts ps) : SPS (.interp ps) := by
  intro last stk fol hok
  simp only [okS, Bool.and_eq_true] at hok
  simp only [itemsS]
  rw [itemsOKF_strStart]
  simp [Tok.wf, Tok.inStrTok, Tok.spell, stops_strStart ps _ fol hok.1.1 hok.1.2, ih _ _ _ hok.2 hok.1.1]

end Gojq.RefTerm

/-
  `compile_yields`, the cases `if c then a else b end` and `l // r` (C01.3).  Core Lean only.
-/
import Gojq.Proofs.MiniVMRefine
namespace Gojq.MiniVM
variable [IterMsg]
set_option linter.unusedSectionVars false

theorem cy_ite {code defs entry nf n} (hfun : FuncsOK code defs entry nf) (ihn : CY code defs entry nf n) (c : Q) (a : Q) (b : Q) :
    CYq code defs entry nf (n+1) (.ite c a b) := by
  intro g e p hep hseg hcl ρ v S F R fr o cp P htop hge hpar hP henv hoff hnd
  simp only [compile] at hseg hoff ⊢
  simp only [Q.Closed] at hcl
  simp only [Q.HasParam] at hpar
  generalize hcc : compile entry g e (p+2) c = cc at hseg hoff ⊢
  generalize hca : compile entry g e (p + 2 + cc.length + 2) a = ca at hseg hoff ⊢
  generalize hpl : p + 2 + cc.length + 2 + ca.length + 1 = pl at hseg hoff ⊢
  generalize hcb : compile entry g e pl b = cb at hseg hoff ⊢
  have h0 : code[p]? = some .dup := by have := hseg 0 (by simp); simpa using this
  have h1 : code[p+1]? = some .expbegin := by have := hseg 1 (by simp); simpa using this
  have hsc : Seg code (p+2) cc := by
    have := Seg.append_right (a := [Instr.dup, .expbegin]) (b := cc)
      (Seg.append_left (Seg.append_left (Seg.append_left (Seg.append_left hseg))))
    simpa using this
  have hmid := Seg.append_right (a := [Instr.dup, .expbegin] ++ cc) (b := [Instr.expend, .jumpifnot pl])
    (Seg.append_left (Seg.append_left (Seg.append_left hseg)))
  have hpm : p + ([Instr.dup, .expbegin] ++ cc).length = p + 2 + cc.length := by simp; omega
  rw [hpm] at hmid
  have m0 : code[p + 2 + cc.length]? = some .expend := by have := hmid 0 (by simp); simpa using this
  have m1 : code[p + 2 + cc.length + 1]? = some (.jumpifnot pl) := by have := hmid 1 (by simp); simpa using this
  have hsa : Seg code (p + 2 + cc.length + 2) ca := by
    have := Seg.append_right (a := [Instr.dup, .expbegin] ++ cc ++ [Instr.expend, .jumpifnot pl]) (b := ca)
      (Seg.append_left (Seg.append_left hseg))
    have e2 : p + ([Instr.dup, .expbegin] ++ cc ++ [Instr.expend, .jumpifnot pl]).length = p + 2 + cc.length + 2 := by simp; omega
    rw [e2] at this; exact this
  have hjmp : code[p + 2 + cc.length + 2 + ca.length]? = some (.jump (pl + cb.length)) := by
    have := Seg.append_right (a := [Instr.dup, .expbegin] ++ cc ++ [Instr.expend, .jumpifnot pl] ++ ca) (b := [Instr.jump (pl + cb.length)])
      (Seg.append_left hseg)
    have e2 : p + ([Instr.dup, .expbegin] ++ cc ++ [Instr.expend, .jumpifnot pl] ++ ca).length = p + 2 + cc.length + 2 + ca.length := by simp; omega
    rw [e2] at this; exact Seg.head this
  have hsb : Seg code pl cb := by
    have := Seg.append_right (a := [Instr.dup, .expbegin] ++ cc ++ [Instr.expend, .jumpifnot pl] ++ ca ++ [Instr.jump (pl + cb.length)]) (b := cb) hseg
    have e2 : p + ([Instr.dup, .expbegin] ++ cc ++ [Instr.expend, .jumpifnot pl] ++ ca ++ [Instr.jump (pl + cb.length)]).length = pl := by simp; omega
    rw [e2] at this; exact this
  have hlen : ([Instr.dup, .expbegin] ++ cc ++ [Instr.expend, .jumpifnot pl] ++ ca ++ [Instr.jump (pl + cb.length)] ++ cb).length
      = 2 + cc.length + 2 + ca.length + 1 + cb.length := by simp; omega
  rw [hlen] at hoff ⊢
  have hexit : p + (2 + cc.length + 2 + ca.length + 1 + cb.length) = pl + cb.length := by omega
  rw [hexit]
  have hndc : ND (eval defs n g ρ c v).stop := eval_ite_nd_left hnd
  rw [eval_ite_of_nd hndc] at hnd ⊢
  have start : Steps code (.run p (.v v :: S) F false none R fr o cp) (.run (p+2) (.v v :: .v v :: S) F false none R fr o cp) :=
    .head (c' := .run (p+1) (.v v :: .v v :: S) F false none R fr o cp) (by simp [step, h0]) (Steps.one (by simp [step, h1]))
  refine Yields.steps_left start EqOff.refl ?_
  have yc := ihn c g e (p+2) (by omega) (hcc ▸ hsc) hcl.1 ρ v (.v v :: S) F R fr o cp P htop hge
    (fun h => hpar (Or.inl h)) (fun a h => by have := hP a h; omega) henv (by rw [hcc]; omega) hndc
  rw [hcc] at yc
  have := Yields.bind (f := fun w => if falsy w then eval defs n g ρ b v else eval defs n g ρ a v) (R0 := R)
    (Oa := Own (base fr) e (p+2) cc.length)
    (Ob := Own (base fr) e (p + 2 + cc.length + 2) (ca.length + 1 + cb.length))
    (O := Own (base fr) e p (2 + cc.length + 2 + ca.length + 1 + cb.length))
    (p' := pl + cb.length) (S := S)
    (by intro i h; obtain ⟨j, h1, h2, h3⟩ := h; exact ⟨j, by omega, by omega, h3⟩)
    (by intro i h; obtain ⟨j, h1, h2, h3⟩ := h; exact ⟨j, by omega, by omega, h3⟩)
    (by intro i h h'; obtain ⟨j, h1, h2, h3⟩ := h; obtain ⟨k, k1, k2, k3⟩ := h'; omega)
    (by intro i h; obtain ⟨j, h1, h2, h3⟩ := h; omega)
    (by intro i h; have := hP i h; refine ⟨by omega, ?_⟩; intro h'; obtain ⟨j, h1, h2, h3⟩ := h'; omega)
    yc
    (fun x G R' o1 cp' ho1 hR' hx => by
      by_cases hfx : falsy x = true
      · -- else branch
        simp only [hfx, if_true] at hx ⊢
        have yb := ihn b g e pl (by omega) (hcb ▸ hsb) hcl.2.2 ρ v S G R' fr o1 cp' P htop hge
          (fun h => hpar (Or.inr (Or.inr h))) (fun a h => by have := hP a h; omega) (henv.congr hR') (by rw [hcb]; omega) hx
        rw [hcb] at yb
        refine Yields.steps_left (c' := .run pl (.v v :: S) G false none R' fr o1 cp') ?_ EqOff.refl
          (yb.mono (fun i h => by obtain ⟨j, h1, h2, h3⟩ := h; exact Or.inl ⟨j, by omega, by omega, h3⟩)
            (fun a h => Or.inr (Or.inl h)) (Nat.le_refl _))
        exact .head (c' := .run (p + 2 + cc.length + 1) (.v x :: .v v :: S) G false none R' fr o1 cp') (by simp [step, m0])
          (Steps.one (by simp [step, m1, hfx]))
      · -- then branch, then `jump END`
        have hfx' : falsy x = false := by cases h : falsy x <;> simp_all
        simp only [hfx', Bool.false_eq_true, if_false] at hx ⊢
        have ya := ihn a g e (p + 2 + cc.length + 2) (by omega) (hca ▸ hsa) hcl.2.1 ρ v S G R' fr o1 cp' P htop hge
          (fun h => hpar (Or.inr (Or.inl h))) (fun a h => by have := hP a h; omega) (henv.congr hR') (by rw [hca]; omega) hx
        rw [hca] at ya
        have ya' := Yields.exit_steps (p2 := pl + cb.length)
          (fun w G R o1 cp => ⟨cp, Steps.one (by simp [step, hjmp])⟩) ya
        refine Yields.steps_left (c' := .run (p + 2 + cc.length + 2) (.v v :: S) G false none R' fr o1 cp') ?_ EqOff.refl
          (ya'.mono (fun i h => by obtain ⟨j, h1, h2, h3⟩ := h; exact Or.inl ⟨j, by omega, by omega, h3⟩)
            (fun a h => Or.inr (Or.inl h)) (Nat.le_refl _))
        exact .head (c' := .run (p + 2 + cc.length + 1) (.v x :: .v v :: S) G false none R' fr o1 cp') (by simp [step, m0])
          (Steps.one (by simp [step, m1, hfx'])))
    (eval defs n g ρ c v).stop rfl EqOn.refl hnd
  exact this

theorem cy_alt {code defs entry nf n} (hfun : FuncsOK code defs entry nf) (ihn : CY code defs entry nf n) (l : Q) (r : Q) :
    CYq code defs entry nf (n+1) (.alt l r) := by
  intro g e p hep hseg hcl ρ v S F R fr o cp P htop hge hpar hP henv hoff hnd
  simp only [compile] at hseg hoff ⊢
  simp only [Q.Closed] at hcl
  simp only [Q.HasParam] at hpar
  obtain ⟨ft, hres, hbase, _, _⟩ := htop.resolve
  generalize hcl' : compile entry g e (p+3) l = cl at hseg hoff ⊢
  generalize hpa : p + 3 + cl.length = pa at hseg hoff ⊢
  generalize hcr : compile entry g e (pa + 11) r = cr at hseg hoff ⊢
  have h0 : code[p]? = some (.push (.bool false)) := by have := hseg 0 (by simp); simpa using this
  have h1 : code[p+1]? = some (.store e (p - e)) := by have := hseg 1 (by simp); simpa using this
  have h2 : code[p+2]? = some (.fork (pa + 7)) := by have := hseg 2 (by simp); simpa using this
  have hsl : Seg code (p+3) cl := by
    have := Seg.append_right (a := [Instr.push (.bool false), .store e (p - e), .fork (pa + 7)]) (b := cl)
      (Seg.append_left (Seg.append_left hseg))
    simpa using this
  have hmid := Seg.append_right (a := [Instr.push (.bool false), .store e (p - e), .fork (pa + 7)] ++ cl)
    (Seg.append_left hseg)
  have hpm : p + ([Instr.push (.bool false), .store e (p - e), .fork (pa + 7)] ++ cl).length = pa := by simp; omega
  rw [hpm] at hmid
  have m0 : code[pa]? = some .dup := by have := hmid 0 (by simp); simpa using this
  have m1 : code[pa+1]? = some (.jumpifnot (pa+5)) := by have := hmid 1 (by simp); simpa using this
  have m2 : code[pa+2]? = some (.push (.bool true)) := by have := hmid 2 (by simp); simpa using this
  have m3 : code[pa+3]? = some (.store e (p - e)) := by have := hmid 3 (by simp); simpa using this
  have m4 : code[pa+4]? = some (.jump (pa + 11 + cr.length)) := by have := hmid 4 (by simp); simpa using this
  have m5 : code[pa+5]? = some .pop := by have := hmid 5 (by simp); simpa using this
  have m6 : code[pa+6]? = some .backtrack := by have := hmid 6 (by simp); simpa using this
  have m7 : code[pa+7]? = some (.load e (p - e)) := by have := hmid 7 (by simp); simpa using this
  have m8 : code[pa+8]? = some (.jumpifnot (pa + 11)) := by have := hmid 8 (by simp); simpa using this
  have m9 : code[pa+9]? = some .backtrack := by have := hmid 9 (by simp); simpa using this
  have hsr : Seg code (pa + 11) cr := by
    have := Seg.append_right (a := [Instr.push (.bool false), .store e (p - e), .fork (pa + 7)] ++ cl ++
      [Instr.dup, .jumpifnot (pa + 5), .push (.bool true), .store e (p - e), .jump (pa + 11 + cr.length),
       .pop, .backtrack, .load e (p - e), .jumpifnot (pa + 11), .backtrack, .pop]) (b := cr) hseg
    have e2 : p + ([Instr.push (.bool false), .store e (p - e), .fork (pa + 7)] ++ cl ++
      [Instr.dup, .jumpifnot (pa + 5), .push (.bool true), .store e (p - e), .jump (pa + 11 + cr.length),
       .pop, .backtrack, .load e (p - e), .jumpifnot (pa + 11), .backtrack, .pop]).length = pa + 11 := by simp; omega
    rw [e2] at this; exact this
  have hlen : ([Instr.push (.bool false), .store e (p - e), .fork (pa + 7)] ++ cl ++
      [Instr.dup, .jumpifnot (pa + 5), .push (.bool true), .store e (p - e), .jump (pa + 11 + cr.length),
       .pop, .backtrack, .load e (p - e), .jumpifnot (pa + 11), .backtrack, .pop] ++ cr).length = 3 + cl.length + 11 + cr.length := by
    simp; omega
  rw [hlen] at hoff ⊢
  have hexit : p + (3 + cl.length + 11 + cr.length) = pa + 11 + cr.length := by omega
  rw [hexit]
  let r' := ft.base + (p - e)
  let R0 := R.set r' (.v (.bool false))
  have hrP : ¬ P r' := by intro h; have := hP _ h; simp only [r'] at this; omega
  have hRR0 : EqOn P R R0 := by
    intro a ha; simp only [R0, Regs.set]; split
    · rename_i h; subst h; exact absurd ha hrP
    · rfl
  have start : Steps code (.run p (.v v :: S) F false none R fr o cp)
      (.run (p+3) (.v v :: S) (⟨p+2, .v v :: S, fr, o⟩ :: F) false none R0 fr o cp) := by
    refine .head (c' := .run (p+1) (.v (.bool false) :: .v v :: S) F false none R fr o cp) (by simp [step, h0]) ?_
    refine .head (c' := .run (p+2) (.v v :: S) F false none R0 fr o cp) (by rw [step_store h1 hres]) ?_
    exact Steps.one (by simp [step, h2])
  simp only [eval] at hnd ⊢
  have hndl : ND (eval defs n g ρ l v).stop := by
    generalize eval defs n g ρ l v = rl at hnd
    rcases rl with ⟨ol, sl⟩
    cases sl <;> simp_all [ND]
  have yl := ihn l g e (p+3) (by omega) (hcl' ▸ hsl) hcl.1 ρ v S (⟨p+2, .v v :: S, fr, o⟩ :: F) R0 fr o cp P htop hge
    (fun h => hpar (Or.inl h)) (fun a h => by have := hP a h; omega) (henv.congr hRR0) (by rw [hcl']; omega) hndl
  rw [hcl', hpa] at yl
  have hrO : Own (base fr) e p (3 + cl.length + 11 + cr.length) r' := ⟨p, by omega, by omega, by simp [r', hbase]⟩
  have hrl : ¬ Own (base fr) e (p+3) cl.length r' := by
    intro h; obtain ⟨j, j1, j2, j3⟩ := h; simp only [r'] at j3; omega
  have hrlt : r' < o := by simp only [r']; omega
  have hOl : ∀ a, Own (base fr) e (p+3) cl.length a → Own (base fr) e p (3 + cl.length + 11 + cr.length) a := by
    intro a h; obtain ⟨j, h1, h2, h3⟩ := h; exact ⟨j, by omega, by omega, h3⟩
  have hOr : ∀ a, Own (base fr) e (pa + 11) cr.length a →
      Own (base fr) e p (3 + cl.length + 11 + cr.length) a ∨ (o ≤ a ∧ a < o) := by
    intro a h; obtain ⟨j, h1, h2, h3⟩ := h; exact Or.inl ⟨j, by omega, by omega, h3⟩
  have hPd : ∀ a, P a → ¬ Wr (Own (base fr) e (p+3) cl.length) o a := by
    intro a h hw
    have := hP a h
    rcases hw with hw | hw
    · obtain ⟨j, j1, j2, j3⟩ := hw; omega
    · omega
  have hPr : ∀ a, P a → a ≠ r' := fun a h he => hrP (he ▸ h)
  refine Yields.steps_left start ?_ ?_
  · intro a ha
    have hne : a ≠ r' := fun h => ha (Or.inl (h ▸ hrO))
    simp [R0, Regs.set, hne]
  -- what happens when `l` is exhausted
  have tailFound : ∀ (R' : Regs), R' r' = .v (.bool true) →
      Steps code (.fail (⟨p+2, .v v :: S, fr, o⟩ :: F) none R') (.fail F none R') := by
    intro R' hR'
    refine .head (c' := .run (p+2) (.v v :: S) F true none R' fr o 0) (by simp [step]) ?_
    refine .head (c' := .run (pa+7) (.v v :: S) F false none R' fr o 0) (by simp [step, h2]) ?_
    refine .head (c' := .run (pa+8) (.v (.bool true) :: .v v :: S) F false none R' fr o 0) (by rw [step_load m7 hres, hR']) ?_
    refine .head (c' := .run (pa+9) (.v v :: S) F false none R' fr o 0) (by simp [step, m8, falsy]) ?_
    exact Steps.one (by simp [step, m9])
  have tailNot : ∀ (R' : Regs), R' r' = .v (.bool false) →
      Steps code (.fail (⟨p+2, .v v :: S, fr, o⟩ :: F) none R') (.run (pa+11) (.v v :: S) F false none R' fr o 0) := by
    intro R' hR'
    refine .head (c' := .run (p+2) (.v v :: S) F true none R' fr o 0) (by simp [step]) ?_
    refine .head (c' := .run (pa+7) (.v v :: S) F false none R' fr o 0) (by simp [step, h2]) ?_
    refine .head (c' := .run (pa+8) (.v (.bool false) :: .v v :: S) F false none R' fr o 0) (by rw [step_load m7 hres, hR']) ?_
    exact Steps.one (by simp [step, m8, falsy])
  generalize hrl' : eval defs n g ρ l v = rl at hnd yl ⊢
  rcases rl with ⟨ol, sl⟩
  cases sl with
  | diverge => simp [ND] at hnd
  | err ee =>
    simp only [Stop.toErr] at yl ⊢
    have := alt_left_aux yl (O := Own (base fr) e p (3 + cl.length + 11 + cr.length)) (K := P)
      (out2 := []) (e2 := some ee) (Rref := R0) false _ rfl rfl h2 m0 m1 m2 m3 m4 m5 m6 hres
      hrO hrl hrP hrlt hOl (fun _ h => Or.inr h) hPd hPr EqOn.refl (by simp [R0, Regs.set, r'])
      (fun R' _ _ => .done (e := some ee)
        (.head (c' := .run (p+2) (.v v :: S) F true (some (.plain ee)) R' fr o 0) (by simp [step])
          (Steps.one (by simp [step, h2])))
        EqOff.refl)
    simpa using this
  | done =>
    simp only [Stop.toErr] at yl hnd ⊢
    by_cases hany : ol.any (fun w => !falsy w) = true
    · have hne : (ol.filter (fun w => !falsy w)).isEmpty = false := by
        rw [filter_isEmpty_eq_not_any, hany]; rfl
      simp only [hne] at hnd ⊢
      have := alt_left_aux yl (O := Own (base fr) e p (3 + cl.length + 11 + cr.length)) (K := P)
        (out2 := []) (e2 := none) (Rref := R0) false true (by simp [hany]) rfl h2 m0 m1 m2 m3 m4 m5 m6 hres
        hrO hrl hrP hrlt hOl (fun _ h => Or.inr h) hPd hPr EqOn.refl (by simp [R0, Regs.set, r'])
        (fun R' _ hb' => .done (e := none) (tailFound R' hb') EqOff.refl)
      simpa using this
    · have hany' : ol.any (fun w => !falsy w) = false := by
        cases h : ol.any (fun w => !falsy w) <;> simp_all
      have hne : (ol.filter (fun w => !falsy w)).isEmpty = true := by
        rw [filter_isEmpty_eq_not_any, hany']; rfl
      have hfil : ol.filter (fun w => !falsy w) = [] := List.isEmpty_iff.mp hne
      simp only [hne, if_true] at hnd ⊢
      have yr := fun R' (hR' : EqOn P R0 R') => ihn r g e (pa + 11) (by omega) (hcr ▸ hsr) hcl.2 ρ v S F R' fr o 0 P htop hge
        (fun h => hpar (Or.inr h)) (fun a h => by have := hP a h; omega) ((henv.congr hRR0).congr hR') (by rw [hcr]; omega) hnd
      rw [hcr] at yr
      have := alt_left_aux yl (O := Own (base fr) e p (3 + cl.length + 11 + cr.length)) (K := P)
        (out2 := (eval defs n g ρ r v).outs) (e2 := (eval defs n g ρ r v).stop.toErr) (Rref := R0)
        false false (by simp [hany']) rfl h2 m0 m1 m2 m3 m4 m5 m6 hres
        hrO hrl hrP hrlt hOl (fun _ h => Or.inr h) hPd hPr EqOn.refl (by simp [R0, Regs.set, r'])
        (fun R' hR' hb' => Yields.steps_left (c' := .run (pa+11) (.v v :: S) F false none R' fr o 0)
          (tailNot R' hb') EqOff.refl
          ((yr R' hR').mono hOr (fun a h => Or.inr (Or.inl h)) (Nat.le_refl _)))
      simpa [hfil, Stop.toErr] using this

end Gojq.MiniVM

/-
  From turn-level diagrams to whole calls and call histories.

  `SimStep` is the stuttering-simulation diagram between the run of the original code `c` and the
  run of the rewritten code `c'` under the SAME call-indexed oracle: from related states, either
  `c` ends the call and `c'` ends it the same way; or both make one turn; or `c` makes two turns
  and `c'` two (a merged pair) or one (a threaded jump).  `c` failing improperly (Go panic, model
  gap) inside a unit releases `c'` from any obligation.  The fuel induction is done once here.
-/
import Gojq.Proofs.OptSimLocal
set_option linter.unusedSimpArgs false
set_option linter.unusedVariables false
namespace Gojq.OptVM
open Gojq Gojq.VM

/-- the diagram; `I` relates the two runs between units, `F` after a call has ended -/
def SimStep (c c' : Array Instr) (ext : Nat → ExtRec) (I : L → St → St → Prop) (F : St → St → Prop) : Prop :=
  ∀ l s s', I l s s' →
    match stepC c ext l s with
    | .fin o sf => o.proper = true → ∃ sf', stepC c' ext l s' = .fin o sf' ∧ F sf sf'
    | .cont l1 s1 =>
      (∃ s1', stepC c' ext l s' = .cont l1 s1' ∧ I l1 s1 s1') ∨
      (match stepC c ext l1 s1 with
       | .fin o _ => o.proper = false
       | .cont l2 s2 =>
         (∃ l1' s1' s2', stepC c' ext l s' = .cont l1' s1' ∧ stepC c' ext l1' s1' = .cont l2 s2' ∧ I l2 s2 s2') ∨
         (∃ s2', stepC c' ext l s' = .cont l2 s2' ∧ I l2 s2 s2'))

theorem proper_ne_outOfFuel {o : Outcome} (h : o.proper = true) : o ≠ .outOfFuel := by
  intro e; subst e; simp [Outcome.proper] at h

/-- a call: if the original ends properly, the rewritten code ends the same way at the same fuel -/
theorem loopC_sim {c c' : Array Instr} {ext : Nat → ExtRec} {I : L → St → St → Prop} {F : St → St → Prop}
    (hsim : SimStep c c' ext I F) : ∀ (n fuel : Nat), fuel ≤ n → ∀ (l : L) (s s' : St), I l s s' →
    (loopC c ext fuel l s).1.proper = true →
    (loopC c' ext fuel l s').1 = (loopC c ext fuel l s).1 ∧ F (loopC c ext fuel l s).2 (loopC c' ext fuel l s').2 := by
  intro n
  induction n with
  | zero =>
    intro fuel hf l s s' hI hp
    have hf0 : fuel = 0 := by omega
    subst hf0
    have hd := hsim l s s' hI
    rw [loopC_zero] at hp ⊢
    rw [loopC_zero]
    cases hs : stepC c ext l s with
    | fin o sf =>
      rw [hs] at hp hd
      simp only at hp hd
      obtain ⟨sf', h1, h2⟩ := hd hp
      rw [h1]; exact ⟨rfl, h2⟩
    | cont l1 s1 => rw [hs] at hp; simp [Outcome.proper] at hp
  | succ n ih =>
    intro fuel hf l s s' hI hp
    have hd := hsim l s s' hI
    cases fuel with
    | zero =>
      rw [loopC_zero] at hp ⊢
      rw [loopC_zero]
      cases hs : stepC c ext l s with
      | fin o sf =>
        rw [hs] at hp hd
        simp only at hp hd
        obtain ⟨sf', h1, h2⟩ := hd hp
        rw [h1]; exact ⟨rfl, h2⟩
      | cont l1 s1 => rw [hs] at hp; simp [Outcome.proper] at hp
    | succ m =>
      rw [loopC_succ] at hp ⊢
      rw [loopC_succ]
      cases hs : stepC c ext l s with
      | fin o sf =>
        rw [hs] at hp hd
        simp only at hp hd
        obtain ⟨sf', h1, h2⟩ := hd hp
        rw [h1]; exact ⟨rfl, h2⟩
      | cont l1 s1 =>
        rw [hs] at hp hd
        simp only at hp hd ⊢
        rcases hd with ⟨s1', h1, h2⟩ | hd
        · rw [h1]
          exact ih m (by omega) l1 s1 s1' h2 hp
        · -- the original makes a second turn
          cases m with
          | zero =>
            rw [loopC_zero] at hp
            cases hs2 : stepC c ext l1 s1 with
            | fin o sf => rw [hs2] at hp hd; simp only at hp hd; rw [hd] at hp; simp at hp
            | cont l2 s2 => rw [hs2] at hp; simp [Outcome.proper] at hp
          | succ k =>
            rw [loopC_succ] at hp ⊢
            cases hs2 : stepC c ext l1 s1 with
            | fin o sf => rw [hs2] at hp hd; simp only at hp hd; rw [hd] at hp; simp at hp
            | cont l2 s2 =>
              rw [hs2] at hp hd
              simp only at hp hd ⊢
              rcases hd with ⟨l1', s1', s2', h1, h2, h3⟩ | ⟨s2', h1, h3⟩
              · rw [h1]; simp only
                rw [loopC_succ, h2]
                exact ih k (by omega) l2 s2 s2' h3 hp
              · rw [h1]; simp only
                have := ih k (by omega) l2 s2 s2' h3 hp
                have hne : (loopC c' ext k l2 s2').1 ≠ .outOfFuel := by
                  rw [this.1]; exact proper_ne_outOfFuel hp
                rw [loopC_fuel_mono c' ext k l2 s2' hne]
                exact this

/-- call histories: if every call of the original ends properly, the rewritten code gives the same
    history -/
theorem historyC_sim {c c' : Array Instr} {ext : Nat → ExtRec} {I : L → St → St → Prop} {F : St → St → Prop}
    (hsim : SimStep c c' ext I F)
    (hentry : ∀ s s', F s s' → I (entry ⟨c, never, ext⟩ s) s s' ∧ entry ⟨c', never, ext⟩ s' = entry ⟨c, never, ext⟩ s)
    (fuel : Nat) : ∀ (n : Nat) (s s' : St), F s s' →
    (∀ o ∈ historyC c ext fuel n s, o.proper = true) →
    historyC c' ext fuel n s' = historyC c ext fuel n s ∧ F (afterC c ext fuel n s) (afterC c' ext fuel n s') := by
  intro n
  induction n with
  | zero => intro s s' hF _; exact ⟨rfl, hF⟩
  | succ n ih =>
    intro s s' hF hp
    obtain ⟨hI, he⟩ := hentry s s' hF
    simp only [historyC, List.mem_cons, forall_eq_or_imp] at hp
    have h1 := loopC_sim hsim fuel fuel (Nat.le_refl _) _ s s' hI hp.1
    have hn : nextC c' ext fuel s' = loopC c' ext fuel (entry ⟨c, never, ext⟩ s) s' := by
      unfold nextC; rw [he]
    have h2 := ih (nextC c ext fuel s).2 (nextC c' ext fuel s').2 (by rw [hn]; exact h1.2) hp.2
    simp only [historyC, afterC]
    refine ⟨?_, h2.2⟩
    rw [h2.1, hn, h1.1]
    rfl

end Gojq.OptVM

/-
  The invariant of the loop of `Next` that makes the re-entry of `opforklabel` after an error safe
  (`EnvInv2` = `EnvInv` of Proofs/VMReentry.lean plus: every pending fork pushed by an `opforklabel`
  points at the label's slot; if the BOTTOM pending fork was pushed by an `opforklabel`, the label's
  block is protected by every limit above it and links to a block beneath), and what a call that
  returns an error leaves behind (`ReentryOK2`).  For arbitrary code; the only hypothesis is the
  run-time guard `labelGuard` (Model/LabelShape.lean) at the turns of the run.
-/
import Gojq.Proofs.VMAfterErrorKeeps
import Gojq.Model.LabelShape
set_option linter.unusedSimpArgs false
set_option linter.unusedVariables false
namespace Gojq.VM

/-! ## small facts -/

theorem list_snoc_cases {α : Type} (l : List α) : l = [] ∨ ∃ a b, l = a ++ [b] := by
  induction l with
  | nil => exact .inl rfl
  | cons x xs ih =>
    refine .inr ?_
    rcases ih with rfl | ⟨a, b, rfl⟩
    · exact ⟨[], x, rfl⟩
    · exact ⟨x :: a, b, rfl⟩

theorem snoc_inj {α : Type} {a b : List α} {x y : α} (h : a ++ [x] = b ++ [y]) : a = b ∧ x = y := by
  have := List.append_inj' h rfl
  exact ⟨this.1, by simpa using this.2⟩

/-- the instruction at `pc` is an `opforklabel` -/
def LabelAt (P : Params) (pc : Int) : Prop := ∃ a b, P.code[pc.toNat]? = some (.forklabel a b)

theorem isLabel_iff (ins : Instr) : isLabel ins = true ↔ ∃ a b, ins = .forklabel a b := by
  cases ins <;> simp [isLabel]

theorem labelAt_ins {P : Params} {pc : Int} {ins : Instr} (h : P.code[pc.toNat]? = some ins) :
    LabelAt P pc ↔ isLabel ins = true := by
  unfold LabelAt
  rw [h, isLabel_iff]
  constructor
  · rintro ⟨a, b, hab⟩; exact ⟨a, b, by simpa using hab⟩
  · rintro ⟨a, b, rfl⟩; exact ⟨a, b, rfl⟩

theorem isLabelPc_of {P : Params} {pc : Int} {ins : Instr} (h0 : 0 ≤ pc) (h : P.code[pc.toNat]? = some ins)
    (hl : isLabel ins = true) : isLabelPc P.code pc = true := by
  simp [isLabelPc, h0, h, hl]

/-- the top block exists and links to a block: two pops will succeed -/
def Beneath (s : Stack V) : Prop := 0 ≤ s.index ∧ ∃ b, s.data[s.index.toNat]? = some b ∧ 0 ≤ b.next

theorem pop_beneath {e e' : Env} {v : V} (hb : Beneath e.stack) (hw : StackWF e.stack) (h : pop e = .ok v e') :
    TopOK e'.stack := by
  obtain ⟨h0, b, hb1, hb2⟩ := hb
  unfold pop Stack.pop? Stack.blockAt? at h
  simp only [h0, if_true, hb1] at h
  simp at h
  obtain ⟨_, rfl⟩ := h
  obtain ⟨hlt, hbe⟩ := Array.getElem?_eq_some_iff.mp hb1
  have := hw.2.2.2.2 _ hlt
  rw [hbe] at this
  exact ⟨hb2, this.2⟩

theorem Stack.push_top (s : Stack V) (v : V) (hw : StackWF s) :
    (s.push v).index = max s.index s.limit + 1 ∧ (s.push v).limit = s.limit ∧
    (s.push v).data[(max s.index s.limit + 1).toNat]? = some ⟨v, s.index⟩ := by
  obtain ⟨h1, h2, h3, h4, h5⟩ := hw
  have hi0 : 0 ≤ max s.index s.limit + 1 := by omega
  unfold Stack.push
  simp only
  split
  · rename_i hlt
    refine ⟨rfl, rfl, ?_⟩
    simp only
    rw [Array.getElem?_setIfInBounds]
    simp [hlt]
  · rename_i hge
    have heq : (max s.index s.limit + 1).toNat = s.data.size := by
      have : ¬ (max s.index s.limit + 1 < s.data.size) := fun h => hge ((Int.toNat_lt hi0).mpr h)
      have h' : max s.index s.limit + 1 = s.data.size := by omega
      rw [h']; simp
    refine ⟨rfl, rfl, ?_⟩
    simp only
    rw [heq, Array.getElem?_push]
    simp

/-- `push v; pushfork pc; pop`: the fork saves the slot of `v`, which becomes the limit; the block
    in that slot is `v` linked to the old top; the index is back where it was -/
theorem pushforkOver_inv {v : V} {pc : Int} {e e1 : Env} (hw : StackWF e.stack)
    (h : pushforkOver v pc e = .ok () e1) :
    ∃ f, e1.forks = f :: e.forks ∧ f.pc = pc ∧ 0 ≤ f.stackindex ∧ f.stackindex = e1.stack.limit ∧
      e1.stack.data[f.stackindex.toNat]? = some ⟨v, e.stack.index⟩ := by
  obtain ⟨hidx, hlim, hdat⟩ := Stack.push_top e.stack v hw
  obtain ⟨hw1, ht1⟩ := Stack.push_wf e.stack v hw
  unfold pushforkOver at h
  obtain ⟨_, e2, h1, h2⟩ := bind_ok h
  rw [push_ok] at h1
  simp at h1; subst h1
  obtain ⟨_, e3, h3, h4⟩ := bind_ok h2
  obtain ⟨_, e4, h5, h6⟩ := bind_ok h4
  have := (pure_ok h6).2; subst this
  simp only [pushfork, modifyEnv] at h3
  simp at h3
  subst h3
  unfold pop at h5
  split at h5
  · rename_i w s' hp
    simp at h5
    obtain ⟨_, rfl⟩ := h5
    have hsave : (e.stack.push v).save.2 = { e.stack.push v with limit := (e.stack.push v).index } := by
      unfold Stack.save
      have : (e.stack.push v).index > (e.stack.push v).limit := by rw [hidx, hlim]; omega
      simp [this]
    simp only [hsave] at hp
    have hdl := Stack.pop?_spec _ _ _ hp ⟨hw1.1, hw1.2.1, hw1.1, hw1.2.1, hw1.2.2.2.2⟩
    refine ⟨_, rfl, rfl, ?_, ?_, ?_⟩
    · show 0 ≤ (e.stack.push v).save.1.1
      simp only [Stack.save]; exact ht1.1
    · show (e.stack.push v).save.1.1 = s'.limit
      rw [hdl.2.1]; simp only [Stack.save]
    · show s'.data[((e.stack.push v).save.1.1).toNat]? = _
      rw [hdl.1]
      simp only [Stack.save]
      rw [hidx]; exact hdat
  · simp at h5

theorem envIndex_ok {a b : Int} {k : Int} {e e' : Env} (h : envIndex a b e = .ok k e') : e' = e := by
  unfold envIndex at h; split at h <;> simp at h; exact h.2.symm

theorem setValue_ok {i : Int} {v : V} {e e' : Env} (h : setValue i v e = .ok () e') :
    e'.stack = e.stack ∧ e'.forks = e.forks := by
  unfold setValue at h; split at h <;> simp at h
  rw [← h]; exact ⟨rfl, rfl⟩

/-! ## `opforklabel`, inverted -/

/-- forward: the data stack index is untouched, one fork is pushed; it saves the label's slot,
    which is the new limit, and the label's block links to the old top -/
theorem forklabel_fw {a b : Int} {x : ExtRec} {l : L} {e : Env} {r : Ctl × L} {e' : Env}
    (hbt : l.backtrack = false) (hw : StackWF e.stack) (h : exec (.forklabel a b) x l e = .ok r e') :
    ∃ f, e'.forks = f :: e.forks ∧ f.pc = l.pc ∧ 0 ≤ f.stackindex ∧ f.stackindex = e'.stack.limit ∧
      ∃ blk, e'.stack.data[f.stackindex.toNat]? = some blk ∧ blk.next = e.stack.index := by
  simp only [exec, hbt] at h
  simp only [Bool.false_eq_true, if_false] at h
  obtain ⟨e0, e1, h1, h2⟩ := bind_ok h
  simp only [getEnv] at h1
  simp at h1
  obtain ⟨rfl, rfl⟩ := h1
  obtain ⟨_, e2, h3, h4⟩ := bind_ok h2
  obtain ⟨k, e3, h5, h6⟩ := bind_ok h4
  obtain ⟨_, e4, h7, h8⟩ := bind_ok h6
  obtain ⟨_, e5, h9, h10⟩ := bind_ok h8
  have := (pure_ok h10).2; subst this
  have := envIndex_ok h5; subst this
  obtain ⟨s1, s2⟩ := setValue_ok h7
  simp only [modifyEnv] at h9
  simp at h9
  subst h9
  obtain ⟨f, f1, f2, f3, f4, f5⟩ := pushforkOver_inv hw h3
  refine ⟨f, ?_, f2, f3, ?_, ?_⟩
  · show e4.forks = _; rw [s2, f1]
  · show _ = e4.stack.limit; rw [s1]; exact f4
  · exact ⟨_, (by show e4.stack.data[_]? = _; rw [s1]; exact f5), rfl⟩

/-- backtracking: one pop, then `break loop`; an error is only ever kept or cleared -/
theorem forklabel_bt {a b : Int} {x : ExtRec} {l : L} {e : Env} {ctl : Ctl} {l' : L} {e' : Env}
    (hbt : l.backtrack = true) (h : exec (.forklabel a b) x l e = .ok (ctl, l') e') :
    (∃ v, pop e = .ok v e') ∧ ctl = .brk ∧ (l'.err.isSome = true → l.err.isSome = true) := by
  simp only [exec, hbt, if_true] at h
  obtain ⟨lab, e1, h1, h2⟩ := bind_ok h
  have fin : ∀ {l2 : L}, (pure (Ctl.brk, l2) : M (Ctl × L)) e1 = .ok (ctl, l') e' →
      (∃ v, pop e = .ok v e') ∧ ctl = .brk ∧ l' = l2 := by
    intro l2 hp
    obtain ⟨hp1, hp2⟩ := pure_ok hp
    subst hp2
    simp at hp1
    obtain ⟨rfl, rfl⟩ := hp1
    exact ⟨⟨lab, h1⟩, rfl, rfl⟩
  cases herr : l.err with
  | none =>
    simp only [herr] at h2
    obtain ⟨a1, a2, a3⟩ := fin h2
    exact ⟨a1, a2, fun h => by rw [a3, herr] at h; exact h⟩
  | some er =>
    cases er with
    | brk n w =>
      simp only [herr] at h2
      cases hgo : goEq w lab with
      | eq bb =>
        cases bb with
        | true =>
          simp only [hgo] at h2
          obtain ⟨a1, a2, a3⟩ := fin h2
          exact ⟨a1, a2, fun _ => rfl⟩
        | false =>
          simp only [hgo] at h2
          obtain ⟨a1, a2, a3⟩ := fin h2
          exact ⟨a1, a2, fun _ => rfl⟩
      | panic => simp only [hgo] at h2; simp [panic] at h2
      | unknown => simp only [hgo] at h2; simp [stuck] at h2
    | _ =>
      simp only [herr] at h2
      obtain ⟨a1, a2, a3⟩ := fin h2
      exact ⟨a1, a2, fun _ => rfl⟩

/-! ## the invariant -/

/-- every pending fork pushed by an `opforklabel` points at a slot (the label's) -/
def LabelForksOK (P : Params) (e : Env) : Prop := ∀ f ∈ e.forks, LabelAt P f.pc → 0 ≤ f.stackindex

/-- if the bottom pending fork was pushed by an `opforklabel`: the label's slot lies under the
    current limit and under the limit saved by every fork above, and the label's block links to a
    block beneath (the value that was on top when `opforklabel` was executed) -/
def BottomOK (P : Params) (e : Env) : Prop :=
  ∀ above f0, e.forks = above ++ [f0] → LabelAt P f0.pc →
    f0.stackindex ≤ e.stack.limit ∧ (∀ g ∈ above, f0.stackindex ≤ g.stacklimit) ∧
    ∃ b, e.stack.data[f0.stackindex.toNat]? = some b ∧ 0 ≤ b.next

def EnvInv2 (P : Params) (e : Env) : Prop := EnvInv P e ∧ LabelForksOK P e ∧ BottomOK P e

/-- an error carried in backtrack mode to an `opforklabel` with no fork left finds the label AND a
    block beneath it -/
def LInv2 (P : Params) (l : L) (e : Env) : Prop :=
  l.err.isSome = true → e.forks = [] → LabelAt P l.pc → Beneath e.stack

/-- what an error return guarantees: `ReentryOK`, no fork is left, and if the saved pc is an
    `opforklabel` the data stack has a poppable top -/
def ReentryOK2 (P : Params) (e : Env) : Prop :=
  ReentryOK P e ∧ e.forks = [] ∧ (LabelAt P e.pc → TopOK e.stack)

/-- the clauses added to `StepInv` -/
def StepExtra (P : Params) : Step → Prop
  | .cont l' s' => LabelForksOK P s'.env ∧ BottomOK P s'.env ∧ LInv2 P l' s'.env
  | .fin o s' => LabelForksOK P s'.env ∧ BottomOK P s'.env ∧
      ∀ e, o = .error e → s'.env.forks = [] ∧ (LabelAt P s'.env.pc → TopOK s'.env.stack)

def StepInv2 (P : Params) : Step → Prop
  | .cont l' s' => EnvInv2 P s'.env ∧ LInv P l' s'.env ∧ LInv2 P l' s'.env
  | .fin o s' => EnvInv2 P s'.env ∧ ∀ e, o = .error e → ReentryOK2 P s'.env

theorem StepInv2.mk' {P : Params} {st : Step} (h1 : StepInv P st) (h2 : StepExtra P st) : StepInv2 P st := by
  cases st with
  | cont l' s' => exact ⟨⟨h1.1, h2.1, h2.2.1⟩, h1.2, h2.2.2⟩
  | fin o s' => exact ⟨⟨h1.1, h2.1, h2.2.1⟩, fun e he => ⟨h1.2 e he, h2.2.2 e he⟩⟩

theorem EnvInv2.save {P : Params} {s : St} (h : EnvInv2 P s.env) (pc : Int) : EnvInv2 P (s.save pc).env := h

/-- one instruction keeps the two new clauses; and when an `opforklabel` breaks the loop with an
    error and no fork is left, the stack still has a poppable top -/
theorem exec_extra (P : Params) (l : L) (e : Env) (ins : Instr) (x : ExtRec) (ctl : Ctl) (l' : L) (e' : Env)
    (hE : EnvInv2 P e) (hL : LInv P l e) (hL2 : LInv2 P l e) (h0 : 0 ≤ l.pc)
    (hins : P.code[l.pc.toNat]? = some ins) (hg : labelGuard P.code l e = true)
    (hex : exec ins x l e = .ok (ctl, l') e') :
    LabelForksOK P e' ∧ BottomOK P e' ∧
      (e'.forks = [] → l'.err.isSome = true → isLabel ins = true → TopOK e'.stack) := by
  obtain ⟨hEI, hLF, hBO⟩ := hE
  have hl : l.err.isSome = true → l.backtrack = true ∧ forkLike ins = true := by
    intro he
    obtain ⟨hb, ins', _, hc, hd, _⟩ := hL he
    rw [hins] at hc; simp at hc; subst hc
    exact ⟨hb, hd⟩
  obtain ⟨⟨hw', hsz, new, hfk, hnew⟩, hpost⟩ := exec_ok ins x l e ctl l' e' hEI.1 hl hex
  -- a new fork at an `opforklabel` pc: this instruction is that `opforklabel`, executed forward
  have newlabel : ∀ f ∈ new, LabelAt P f.pc → ∃ a b, ins = .forklabel a b ∧ l.backtrack = false := by
    intro f hf hla
    have hpc : f.pc = l.pc := (hnew f hf).1
    rw [hpc, labelAt_ins hins, isLabel_iff] at hla
    obtain ⟨a, b, rfl⟩ := hla
    refine ⟨a, b, rfl, ?_⟩
    cases hbt : l.backtrack with
    | false => rfl
    | true =>
      exfalso
      obtain ⟨⟨v, hp⟩, _, _⟩ := forklabel_bt hbt hex
      have := (pop_ok hp hEI.1).2
      rw [hfk] at this
      have hlen := congrArg List.length this
      simp at hlen
      subst hlen
      simp at hf
  refine ⟨?_, ?_, ?_⟩
  · -- LabelForksOK
    intro f hf hla
    rw [hfk] at hf
    rcases List.mem_append.mp hf with hf | hf
    · obtain ⟨a, b, rfl, hbt⟩ := newlabel f hf hla
      obtain ⟨f1, g1, g2, g3, g4, _⟩ := forklabel_fw hbt hEI.1 hex
      rw [hfk] at g1
      have : new = [f1] := by
        have h2 : new ++ e.forks = [f1] ++ e.forks := g1
        exact List.append_cancel_right h2
      rw [this] at hf
      simp at hf
      rw [hf]; exact g3
    · exact hLF f hf hla
  · -- BottomOK
    intro above f0 hdec hla
    rcases list_snoc_cases e.forks with hnil | ⟨above0, f00, hsn⟩
    · -- the first fork: pushed by this very `opforklabel`, forward, with no fork pending
      rw [hfk, hnil, List.append_nil] at hdec
      have hmem : f0 ∈ new := by rw [hdec]; simp
      obtain ⟨a, b, rfl, hbt⟩ := newlabel f0 hmem hla
      obtain ⟨f1, g1, g2, g3, g4, blk, g5, g6⟩ := forklabel_fw hbt hEI.1 hex
      rw [hnil] at g1
      have h2 : above ++ [f0] = [] ++ [f1] := by rw [← hdec, ← List.append_nil new, ← hnil, ← hfk, g1, hnil]; rfl
      obtain ⟨rfl, rfl⟩ := snoc_inj h2
      refine ⟨by rw [g4]; exact Int.le_refl _, by simp, blk, g5, ?_⟩
      rw [g6]
      have hlp := isLabelPc_of (P := P) h0 hins rfl
      simp only [labelGuard, hlp, hbt, hnil] at hg
      simpa using hg
    · -- the bottom fork was already pending: its slots are protected
      rw [hfk, hsn, ← List.append_assoc] at hdec
      obtain ⟨habove, rfl⟩ := snoc_inj hdec
      have hla0 : f00 ∈ e.forks := by rw [hsn]; simp
      obtain ⟨b1, b2, blk, b3, b4⟩ := hBO above0 f00 hsn hla
      have hk0 : 0 ≤ f00.stackindex := hLF f00 hla0 hla
      obtain ⟨_, k1, _, k3, new', k4, k5⟩ := exec_keeps_ok f00.stackindex ins x l e (ctl, l') e' hEI.1 b1 hex
      have hnn : new' = new := by
        rw [hfk] at k4
        exact (List.append_cancel_right k4).symm
      refine ⟨k1, ?_, blk, ?_, b4⟩
      · intro g hg
        rw [← habove] at hg
        rcases List.mem_append.mp hg with hg | hg
        · exact k5 g (by rw [hnn]; exact hg)
        · exact b2 g hg
      · rw [k3 _ (by rw [Int.toNat_of_nonneg hk0]; exact Int.le_refl _)]
        exact b3
  · -- an `opforklabel` that breaks with an error and leaves no fork
    intro hf he hlab
    obtain ⟨a, b, rfl⟩ := (isLabel_iff ins).mp hlab
    cases hbt : l.backtrack with
    | false =>
      obtain ⟨f1, g1, _⟩ := forklabel_fw hbt hEI.1 hex
      rw [hf] at g1; simp at g1
    | true =>
      obtain ⟨⟨v, hp⟩, _, herr⟩ := forklabel_bt hbt hex
      have hfe : e.forks = [] := by rw [← (pop_ok hp hEI.1).2]; exact hf
      exact pop_beneath (hL2 (herr he) hfe ((labelAt_ins hins).mpr rfl)) hEI.1 hp

/-- after `break loop`: the new clauses survive a fork pop, and an error return leaves no fork and,
    at an `opforklabel`, a poppable top -/
theorem unwind_extra (P : Params) (l : L) (s : St) (hLF : LabelForksOK P s.env) (hBO : BottomOK P s.env)
    (hT : s.env.forks = [] → l.err.isSome = true → LabelAt P l.pc → TopOK s.env.stack) :
    StepExtra P (unwind P l s) := by
  unfold unwind
  split
  · rename_i hf
    unfold finish
    cases he1 : l.err with
    | none => exact ⟨hLF, hBO, fun e he => by simp at he⟩
    | some e1 => exact ⟨hLF, hBO, fun e he => ⟨hf, hT hf (by simp [he1])⟩⟩
  · rename_i f rest hf
    have hLF' : ∀ g ∈ rest, LabelAt P g.pc → 0 ≤ g.stackindex :=
      fun g hg => hLF g (by rw [hf]; exact List.mem_cons_of_mem _ hg)
    refine ⟨hLF', ?_, ?_⟩
    · intro above f0 hdec hla
      have hdec' : rest = above ++ [f0] := hdec
      obtain ⟨b1, b2, b3⟩ := hBO (f :: above) f0 (by rw [hf, hdec']; rfl) hla
      exact ⟨b2 f (by simp), fun g hg => b2 g (List.mem_cons_of_mem _ hg), b3⟩
    · intro _ hrest hla
      have hrest' : rest = [] := hrest
      obtain ⟨b1, b2, blk, b3, b4⟩ := hBO [] f (by rw [hf, hrest']; rfl) hla
      have h0 : 0 ≤ f.stackindex := hLF f (by rw [hf]; simp) hla
      exact ⟨h0, blk, b3, b4⟩

/-- one turn keeps the new clauses -/
theorem step_extra (P : Params) (l : L) (s : St) (hE : EnvInv2 P s.env) (hL : LInv P l s.env)
    (hL2 : LInv2 P l s.env) (hg : labelGuard P.code l s.env = true) : StepExtra P (step P l s) := by
  unfold step
  by_cases h1 : l.pc < P.code.size
  · by_cases h0 : l.pc < 0
    · simp only [h1, h0, if_true]
      exact ⟨hE.2.1, hE.2.2, fun e h => by simp at h⟩
    · have h0' : 0 ≤ l.pc := Int.not_lt.mp h0
      simp only [h1, h0, if_true, if_false]
      split
      · -- cancelled: no fork is left
        exact ⟨fun f hf => by simp [St.save] at hf, fun above f0 hd => by simp [St.save] at hd,
          fun e h => by simp at h⟩
      · have hins := getD_some P.code l.pc h0' h1
        generalize hI : P.code.getD l.pc.toNat .bad = ins at hins
        have hl : l.err.isSome = true → l.backtrack = true ∧ forkLike ins = true := by
          intro he
          obtain ⟨hb, ins', _, hc, hd, _⟩ := hL he
          rw [hins] at hc; simp at hc; subst hc
          exact ⟨hb, hd⟩
        split
        · exact ⟨hE.2.1, hE.2.2, fun e h => by simp at h⟩
        · exact ⟨hE.2.1, hE.2.2, fun e h => by simp at h⟩
        · rename_i ctl l' env' hex
          obtain ⟨x1, x2, x3⟩ := exec_extra P l s.env ins _ ctl l' env' hE hL hL2 h0' hins hg hex
          obtain ⟨_, hpost⟩ := exec_ok ins _ l s.env ctl l' env' hE.1.1 hl hex
          split
          · simp only [Post] at hpost
            exact ⟨x1, x2, fun he => by simp [hpost] at he⟩
          · simp only [Post] at hpost
            exact ⟨x1, x2, fun he => by simp [hpost] at he⟩
          · exact ⟨x1, x2, fun e h => by simp at h⟩
          · simp only [Post] at hpost
            apply unwind_extra P l' _ x1 x2
            intro hf he hla
            rw [hpost.1] at hla
            exact x3 hf he ((labelAt_ins hins).mp hla)
  · simp only [h1, if_false]
    apply unwind_extra P l s hE.2.1 hE.2.2
    intro _ he _
    exfalso
    obtain ⟨_, ins', i0, hc, _⟩ := hL he
    have : l.pc.toNat < P.code.size := (Array.getElem?_eq_some_iff.mp hc).1
    exact h1 ((Int.toNat_lt i0).mp this)

/-- one turn keeps the invariant; an error return leaves a state whose re-entry is safe -/
theorem step_inv2 (P : Params) (l : L) (s : St) (hE : EnvInv2 P s.env) (hL : LInv P l s.env)
    (hL2 : LInv2 P l s.env) (hg : labelGuard P.code l s.env = true) : StepInv2 P (step P l s) :=
  StepInv2.mk' (step_inv P l s hE.1 hL) (step_extra P l s hE hL hL2 hg)

/-! ## the loop, a call, a run -/

theorem loopGuard_zero (P : Params) (l : L) (s : St) :
    loopGuard P 0 l s = (labelGuard P.code l s.env &&
      match step P l s with
      | .fin _ _ => true
      | .cont _ _ => true) := by
  rw [loopGuard]; rfl

theorem loopGuard_succ (P : Params) (n : Nat) (l : L) (s : St) :
    loopGuard P (n + 1) l s = (labelGuard P.code l s.env &&
      match step P l s with
      | .fin _ _ => true
      | .cont l' s' => loopGuard P n l' s') := by
  rw [loopGuard]; rfl

theorem loop_inv2 (P : Params) : ∀ (fuel : Nat) (l : L) (s : St), EnvInv2 P s.env → LInv P l s.env →
    LInv2 P l s.env → loopGuard P fuel l s = true →
    EnvInv2 P (loop P fuel l s).2.env ∧
      ∀ e, (loop P fuel l s).1 = .error e → ReentryOK2 P (loop P fuel l s).2.env := by
  intro fuel
  induction fuel with
  | zero =>
    intro l s hE hL hL2 hg
    rw [loopGuard_zero, Bool.and_eq_true] at hg
    have := step_inv2 P l s hE hL hL2 hg.1
    rw [loop_zero]
    cases hs : step P l s with
    | fin o s' => rw [hs] at this; exact this
    | cont l' s' => rw [hs] at this; exact ⟨this.1.save _, fun e h => by simp at h⟩
  | succ n ih =>
    intro l s hE hL hL2 hg
    rw [loopGuard_succ, Bool.and_eq_true] at hg
    have := step_inv2 P l s hE hL hL2 hg.1
    rw [loop_succ]
    cases hs : step P l s with
    | fin o s' => rw [hs] at this; exact this
    | cont l' s' =>
      rw [hs] at this
      have hg2 := hg.2
      rw [hs] at hg2
      exact ih l' s' this.1 this.2.1 this.2.2 hg2

theorem entry_linv2 (P : Params) (s : St) : LInv2 P (entry P s) s.env := by
  intro h; simp [entry] at h

theorem initSt_inv2 (P : Params) (input : V) (vars : List V) : EnvInv2 P (initSt input vars).env := by
  have h := initSt_inv P input vars
  have hf : (initSt input vars).env.forks = [] := by
    have : ∀ (vs : List V) (e : Env), e.forks = [] →
        (vs.foldl (fun e v => { e with stack := e.stack.push v }) e).forks = [] := by
      intro vs
      induction vs with
      | nil => intro e h; exact h
      | cons v vs ih => intro e h; exact ih _ h
    exact this _ _ rfl
  refine ⟨h, fun f hf' => ?_, fun above f0 hd => ?_⟩
  · rw [hf] at hf'; simp at hf'
  · rw [hf] at hd; simp at hd

theorem next_inv2 (P : Params) (fuel : Nat) (s : St) (h : EnvInv2 P s.env) (hg : nextGuard P fuel s = true) :
    EnvInv2 P (next P fuel s).2.env :=
  (loop_inv2 P fuel _ s h (entry_linv P s) (entry_linv2 P s) hg).1

theorem after_inv2 (P : Params) (fuel : Nat) : ∀ (n : Nat) (s : St), EnvInv2 P s.env →
    historyGuard P fuel n s = true → EnvInv2 P (after P fuel n s).env := by
  intro n
  induction n with
  | zero => intro s h _; exact h
  | succ n ih =>
    intro s h hg
    simp only [historyGuard, Bool.and_eq_true] at hg
    exact ih _ (next_inv2 P fuel s h hg.1) hg.2

theorem historyGuard_succ (P : Params) (fuel : Nat) : ∀ (n : Nat) (s : St),
    historyGuard P fuel (n + 1) s = true →
    historyGuard P fuel n s = true ∧ nextGuard P fuel (after P fuel n s) = true := by
  intro n
  induction n with
  | zero =>
    intro s h
    simp only [historyGuard, Bool.and_eq_true] at h
    exact ⟨rfl, h.1⟩
  | succ n ih =>
    intro s h
    have h' : nextGuard P fuel s = true ∧ historyGuard P fuel (n + 1) (next P fuel s).2 = true := by
      simpa only [historyGuard, Bool.and_eq_true] using h
    obtain ⟨a, b⟩ := ih _ h'.2
    refine ⟨?_, ?_⟩
    · simp only [historyGuard, Bool.and_eq_true]
      exact ⟨h'.1, by simpa only [historyGuard, Bool.and_eq_true] using a⟩
    · simpa only [after] using b

end Gojq.VM

/-
  The printer's output satisfies the adjacency condition, part 6: the first byte of a printed
  term / query is neither `=` nor `:` (so a sign is not extended to `-=` and `a:` `:b` does not
  become `a::b`).
-/
import Gojq.Proofs.SpacedCases
namespace Gojq.RefTerm
open Gojq Gojq.Lexer Gojq.Printer

/-- a byte a printed term can start with (after an optional space) -/
def startByte (ch : UInt8) : Prop := ch ≠ 61 ∧ ch ≠ 58

theorem identName_startByte (n : Bytes) (h : isIdentName n = true) : ∃ ch r, n = ch :: r ∧ startByte ch := by
  obtain ⟨c0, s', e, h0, _⟩ := identName_split n h
  obtain ⟨_, _, _, _, _, _, h58⟩ := isIdent_props c0 false h0
  refine ⟨c0, s', e, ?_, by simpa using h58⟩
  intro e'; subst e'; exact absurd h0 (by decide)

theorem name_startByte (n : Bytes) (h : (isPlainIdent n || isModIdent n || isVarName n || isModVar n) = true) :
    ∃ ch r, n = ch :: r ∧ startByte ch := by
  simp only [Bool.or_eq_true] at h
  rcases h with ((h | h) | h) | h
  · simp only [isPlainIdent, Bool.and_eq_true] at h
    exact identName_startByte n h.1
  · obtain ⟨c0, a', b, e, h0, _⟩ := modIdent_split n h
    obtain ⟨_, _, _, _, _, _, h58⟩ := isIdent_props c0 false h0
    exact ⟨c0, _, e, by intro e'; subst e'; exact absurd h0 (by decide), by simpa using h58⟩
  · unfold isVarName at h
    split at h
    · exact ⟨36, _, rfl, by decide, by decide⟩
    · cases h
  · unfold isModVar at h
    split at h
    · exact ⟨36, _, rfl, by decide, by decide⟩
    · cases h

theorem number_startByte (s : Bytes) (h : okNumber s = true) : ∃ ch r, s = ch :: r ∧ startByte ch := by
  unfold okNumber at h
  split at h
  · cases h
  · next b r =>
    simp only [Bool.or_eq_true, Bool.and_eq_true, beq_iff_eq] at h
    rcases h with ⟨hb, _⟩ | ⟨⟨hb, _⟩, _⟩
    · refine ⟨b, r, rfl, ?_, ?_⟩ <;> (intro e; subst e; exact absurd hb (by decide))
    · subst hb; exact ⟨46, r, rfl, by decide, by decide⟩

/-- the rendering starts with a start byte, possibly after the printer's soft space -/
def StartsOK (bytes : Bytes) : Prop := ∃ ch r, bytes = ch :: r ∧ (startByte ch ∨ ch = 32)

theorem startsOK_append (a b : Bytes) (h : StartsOK a) : StartsOK (a ++ b) := by
  obtain ⟨ch, r, e, hs⟩ := h
  exact ⟨ch, r ++ b, by rw [e]; rfl, hs⟩

theorem startsOK_soft (last : Option UInt8) (t : Tok) (r : List Item) (h : ∃ ch s, t.spell = ch :: s ∧ startByte ch) :
    StartsOK (render last (.soft :: .t t :: r)) := by
  obtain ⟨ch, s, e, hs⟩ := h
  simp only [render]
  cases last with
  | none => exact ⟨ch, _, by rw [e]; rfl, Or.inl hs⟩
  | some b =>
    simp only []
    split
    · exact ⟨32, _, rfl, Or.inr rfl⟩
    · exact ⟨ch, _, by simp only [render, e]; rfl, Or.inl hs⟩

theorem startsOK_tok (last : Option UInt8) (t : Tok) (r : List Item) (h : ∃ ch s, t.spell = ch :: s ∧ startByte ch) :
    StartsOK (render last (.t t :: r)) := by
  obtain ⟨ch, s, e, hs⟩ := h
  exact ⟨ch, _, by simp only [render, e]; rfl, Or.inl hs⟩

theorem kw_startByte (w : Kw) : ∃ ch s, (Tok.kw w).spell = ch :: s ∧ startByte ch := by
  cases w <;> exact ⟨_, _, rfl, by decide, by decide⟩

theorem ch_startByte (b : UInt8) (h1 : b ≠ 61) (h2 : b ≠ 58) : ∃ ch s, (Tok.ch b).spell = ch :: s ∧ startByte ch :=
  ⟨b, [], rfl, h1, h2⟩

theorem startsT : ∀ (t : Term) (last : Option UInt8), okT t = true → StartsOK (render last (itemsT t))
  | .suf t s, last, h => by
    simp only [okT, Bool.and_eq_true] at h
    simp only [itemsT, render_append]
    exact startsOK_append _ _ (startsT t last h.1.1)
  | .identity, last, _ => startsOK_tok last _ _ (ch_startByte 46 (by decide) (by decide))
  | .recurse, last, _ => startsOK_tok last _ _ ⟨46, [46], rfl, by decide, by decide⟩
  | .null, last, _ => startsOK_tok last _ _ (kw_startByte _)
  | .true_, last, _ => startsOK_tok last _ _ (kw_startByte _)
  | .false_, last, _ => startsOK_tok last _ _ (kw_startByte _)
  | .index (.name n), last, _ => startsOK_soft last _ _ ⟨46, n, rfl, by decide, by decide⟩
  | .index (.str s), last, _ => startsOK_soft last _ _ (ch_startByte 46 (by decide) (by decide))
  | .index (.at q), last, _ => startsOK_soft last _ _ (ch_startByte 46 (by decide) (by decide))
  | .index (.sliceFrom q), last, _ => startsOK_soft last _ _ (ch_startByte 46 (by decide) (by decide))
  | .index (.sliceTo q), last, _ => startsOK_soft last _ _ (ch_startByte 46 (by decide) (by decide))
  | .index (.slice a b), last, _ => startsOK_soft last _ _ (ch_startByte 46 (by decide) (by decide))
  | .index .iter, last, h => by simp [okT, isIndexForm] at h
  | .index .opt, last, h => by simp [okT, isIndexForm] at h
  | .func n [], last, h => by
    simp only [okT] at h
    obtain ⟨ch, r, e, hs⟩ := name_startByte n h
    refine startsOK_tok last _ _ ⟨ch, r, ?_, hs⟩
    rw [← e]; unfold nameTok; split <;> split <;> rfl
  | .func n (_ :: _), last, h => by
    simp only [okT, Bool.and_eq_true] at h
    obtain ⟨ch, r, e, hs⟩ := name_startByte n (by simp only [Bool.or_eq_true] at h ⊢; exact Or.inl (Or.inl h.1.1))
    refine startsOK_tok last _ _ ⟨ch, r, ?_, hs⟩
    rw [← e]; unfold nameTok; split <;> split <;> rfl
  | .object [], last, _ => startsOK_tok last _ _ (ch_startByte 123 (by decide) (by decide))
  | .object (_ :: _), last, _ => startsOK_tok last _ _ (ch_startByte 123 (by decide) (by decide))
  | .arrayEmpty, last, _ => startsOK_tok last _ _ (ch_startByte 91 (by decide) (by decide))
  | .array _, last, _ => startsOK_tok last _ _ (ch_startByte 91 (by decide) (by decide))
  | .number s, last, h => by
    simp only [okT] at h
    obtain ⟨ch, r, e, hs⟩ := number_startByte s h
    exact startsOK_tok last _ _ ⟨ch, r, e, hs⟩
  | .unary true _, last, _ => startsOK_tok last _ _ (ch_startByte 45 (by decide) (by decide))
  | .unary false _, last, _ => startsOK_tok last _ _ (ch_startByte 43 (by decide) (by decide))
  | .format f, last, h => by
    simp only [okT] at h
    unfold okFormat at h
    split at h
    · exact startsOK_tok last _ _ ⟨64, _, rfl, by decide, by decide⟩
    · cases h
  | .formatStr f s, last, h => by
    simp only [okT, Bool.and_eq_true] at h
    have h1 := h.1
    unfold okFormat at h1
    split at h1
    · exact startsOK_tok last _ _ ⟨64, _, rfl, by decide, by decide⟩
    · cases h1
  | .str (.lit v), last, _ => startsOK_tok last _ _ ⟨34, _, rfl, by decide, by decide⟩
  | .str (.interp ps), last, _ => startsOK_tok last _ _ ⟨34, _, rfl, by decide, by decide⟩
  | .if_ _ _ _, last, _ => startsOK_tok last _ _ (kw_startByte _)
  | .try_ _, last, _ => startsOK_tok last _ _ (kw_startByte _)
  | .tryCatch _ _, last, _ => startsOK_tok last _ _ (kw_startByte _)
  | .reduce _ _ _ _, last, _ => startsOK_tok last _ _ (kw_startByte _)
  | .foreach _ _ _ _, last, _ => startsOK_tok last _ _ (kw_startByte _)
  | .foreach3 _ _ _ _ _, last, _ => startsOK_tok last _ _ (kw_startByte _)
  | .break_ _, last, _ => startsOK_tok last _ _ (kw_startByte _)
  | .paren _, last, _ => startsOK_tok last _ _ (ch_startByte 40 (by decide) (by decide))

theorem startsQ : ∀ (q : Query) (last : Option UInt8), OkQ q → StartsOK (render last (itemsQ q))
  | .term t, last, h => by
    have hok' : okT t = true := by
      rcases h with ⟨i, m, h⟩ | h
      · rwa [okQ_term] at h
      · simpa [okOV] using h
    simpa [itemsQ] using startsT t last hok'
  | .binop o l r, last, h => by
    simp only [itemsQ, render_append]
    exact startsOK_append _ _ (startsQ l last (OkQ_binop o l r h).1)
  | .bind s [] b, last, h => by
    rcases h with ⟨i, m, h⟩ | h
    · rw [okQ_bind_nil] at h; cases h
    · simp [okOV] at h
  | .bind s (p :: ps) b, last, h => by
    simp only [itemsQ, render_append]
    refine startsOK_append _ _ (startsQ s last ?_)
    rcases h with ⟨i, m, h⟩ | h
    · rw [okQ_bind] at h
      simp only [Bool.and_eq_true] at h
      exact OkQ_of _ _ _ h.1.1.2
    · simp [okOV] at h
  | .def_ (.mk _ _ _) _, last, _ => startsOK_tok last _ _ (kw_startByte _)
  | .label _ _, last, _ => startsOK_tok last _ _ (kw_startByte _)

end Gojq.RefTerm

/-
  The printer's output satisfies the adjacency condition, part 9: `if`, `reduce`, `foreach`,
  calls, objects, patterns, definitions.
-/
import Gojq.Proofs.SpacedCases3
namespace Gojq.RefTerm
open Gojq Gojq.Lexer Gojq.Printer

/-! ### `if` -/

theorem render_if_head (r : IfRest) (last : Option UInt8) (fol : Bytes) :
    ∃ rest, render last (itemsIf r) ++ fol = 32 :: rest := by
  cases r <;> exact ⟨_, rfl⟩

theorem endLast_if : ∀ (r : IfRest) (last : Option UInt8), endLast last (itemsIf r) = some 100
  | .end_, _ => rfl
  | .else_ e, last => by simp [itemsIf, endLast, endLast_append, Tok.spell, Kw.text, lastOr]
  | .elif_ c t r, last => by simp [itemsIf, endLast, endLast_append, endLast_if r]

@[simp] theorem stops_solo_40 (X : Bytes) : stops (.ch 40) X = true := rfl
@[simp] theorem stops_solo_41 (X : Bytes) : stops (.ch 41) X = true := rfl
@[simp] theorem stops_solo_91 (X : Bytes) : stops (.ch 91) X = true := rfl
@[simp] theorem stops_solo_93 (X : Bytes) : stops (.ch 93) X = true := rfl
@[simp] theorem stops_solo_123 (X : Bytes) : stops (.ch 123) X = true := rfl
@[simp] theorem stops_solo_125 (X : Bytes) : stops (.ch 125) X = true := rfl
@[simp] theorem stops_solo_44 (X : Bytes) : stops (.ch 44) X = true := rfl
@[simp] theorem stops_solo_58 (X : Bytes) : stops (.ch 58) X = true := rfl
@[simp] theorem stops_solo_59 (X : Bytes) : stops (.ch 59) X = true := rfl

/-- a query followed by a safe byte -/
theorem spq_head (q : Query) (ih : SPQ q) (hok : OkQ q) (ch : UInt8) (hs : safeHead ch = true) :
    ∀ (L : Option UInt8) (stk' : List Nat) (rest : Bytes), itemsOKF (ch :: rest) L false stk' (itemsQ q) = true :=
  fun _ _ _ => ih _ _ _ hok (safeB_safeHead _ ch _ hs)

theorem spp_head (p : Pattern) (ih : SPP p) (hok : okP p = true) (ch : UInt8) (hs : safeHead ch = true) :
    ∀ (L : Option UInt8) (stk' : List Nat) (rest : Bytes), itemsOKF (ch :: rest) L false stk' (itemsP p) = true :=
  fun _ _ _ => ih _ _ _ hok (safeB_safeHead _ ch _ hs)

theorem stops_end (fol : Bytes) (h : safeB (some 100) fol = true) : stops (.kw .end_) fol = true :=
  stops_last (.kw .end_) none fol rfl rfl (by simp) h

theorem sp_ifEnd : SPIf .end_ := by
  intro last stk fol _ hf
  simp [itemsIf, itemsOKF_kw, Tok.wf, Tok.inStrTok, render, stops_end fol hf]

theorem sp_ifElse (e : Query) (ih : SPQ e) : SPIf (.else_ e) := by
  intro last stk fol hok hf
  simp only [okIf] at hok
  simp [itemsIf, itemsOKF_kw, itemsOKF_append, endQ, Tok.wf, Tok.inStrTok, render, Tok.spell, stops_end fol hf]
  exact ih _ _ _ (OkQ_of _ _ _ hok) (safeB_safeHead _ 32 _ rfl)

theorem sp_ifElif (cnd t : Query) (r : IfRest) (ihc : SPQ cnd) (iht : SPQ t) (ihr : SPIf r) : SPIf (.elif_ cnd t r) := by
  intro last stk fol hok hf
  simp only [okIf, Bool.and_eq_true] at hok
  obtain ⟨rest, e⟩ := render_if_head r (endLast (some 32) (itemsQ t)) fol
  simp [itemsIf, itemsOKF_kw, itemsOKF_append, endQ, Tok.wf, Tok.inStrTok, render, render_append, Tok.spell,
    ihr _ _ _ hok.2 hf]
  refine ⟨ihc _ _ _ (OkQ_of _ _ _ hok.1.1) (safeB_safeHead _ 32 _ rfl), iht _ _ _ (OkQ_of _ _ _ hok.1.2) ?_⟩
  rw [e]; exact safeB_safeHead _ 32 _ rfl

theorem sp_if (cnd t : Query) (r : IfRest) (ihc : SPQ cnd) (iht : SPQ t) (ihr : SPIf r) : SPT (.if_ cnd t r) := by
  intro last stk fol hok hf
  simp only [okT, Bool.and_eq_true] at hok
  simp only [itemsT, endLast, endLast_append, endLast_if] at hf
  obtain ⟨rest, e⟩ := render_if_head r (endLast (some 32) (itemsQ t)) fol
  simp [itemsT, itemsOKF_kw, itemsOKF_append, endQ, Tok.wf, Tok.inStrTok, render, render_append, Tok.spell,
    ihr _ _ _ hok.2 hf]
  refine ⟨ihc _ _ _ (OkQ_of _ _ _ hok.1.1) (safeB_safeHead _ 32 _ rfl), iht _ _ _ (OkQ_of _ _ _ hok.1.2) ?_⟩
  rw [e]; exact safeB_safeHead _ 32 _ rfl

/-! ### `reduce`, `foreach` -/

theorem sp_reduce (s : Query) (p : Pattern) (a u : Query) (ihs : SPQ s) (ihp : SPP p) (iha : SPQ a) (ihu : SPQ u) :
    SPT (.reduce s p a u) := by
  intro last stk fol hok _
  simp only [okT, Bool.and_eq_true] at hok
  obtain ⟨⟨⟨hs, hp⟩, ha⟩, hu⟩ := hok
  have h1 := spq_head s ihs (OkQ_of _ _ _ hs) 32 rfl
  have h2 := spp_head p ihp hp 32 rfl
  have h3 := spq_head a iha (OkQ_of _ _ _ ha) 59 rfl
  have h4 := spq_head u ihu (OkQ_of _ _ _ hu) 41 rfl
  simp [itemsT, itemsOKF_kw, itemsOKF_append, endQ, endP, Tok.wf, Tok.inStrTok, render, render_append, Tok.spell,
    okCh, isSolo, h1, h2, h3, h4]

theorem sp_foreach (s : Query) (p : Pattern) (a u : Query) (ihs : SPQ s) (ihp : SPP p) (iha : SPQ a) (ihu : SPQ u) :
    SPT (.foreach s p a u) := by
  intro last stk fol hok _
  simp only [okT, Bool.and_eq_true] at hok
  obtain ⟨⟨⟨hs, hp⟩, ha⟩, hu⟩ := hok
  have h1 := spq_head s ihs (OkQ_of _ _ _ hs) 32 rfl
  have h2 := spp_head p ihp hp 32 rfl
  have h3 := spq_head a iha (OkQ_of _ _ _ ha) 59 rfl
  have h4 := spq_head u ihu (OkQ_of _ _ _ hu) 41 rfl
  simp [itemsT, itemsOKF_kw, itemsOKF_append, endQ, endP, Tok.wf, Tok.inStrTok, render, render_append, Tok.spell,
    okCh, isSolo, h1, h2, h3, h4]

theorem sp_foreach3 (s : Query) (p : Pattern) (a u e : Query) (ihs : SPQ s) (ihp : SPP p) (iha : SPQ a)
    (ihu : SPQ u) (ihe : SPQ e) : SPT (.foreach3 s p a u e) := by
  intro last stk fol hok _
  simp only [okT, Bool.and_eq_true] at hok
  obtain ⟨⟨⟨⟨hs, hp⟩, ha⟩, hu⟩, he⟩ := hok
  have h1 := spq_head s ihs (OkQ_of _ _ _ hs) 32 rfl
  have h2 := spp_head p ihp hp 32 rfl
  have h3 := spq_head a iha (OkQ_of _ _ _ ha) 59 rfl
  have h4 := spq_head u ihu (OkQ_of _ _ _ hu) 59 rfl
  have h5 := spq_head e ihe (OkQ_of _ _ _ he) 41 rfl
  simp [itemsT, itemsOKF_kw, itemsOKF_append, endQ, endP, Tok.wf, Tok.inStrTok, render, render_append, Tok.spell,
    okCh, isSolo, h1, h2, h3, h4, h5]

/-! ### calls -/

theorem render_argsT_head (qs : List Query) (last : Option UInt8) (fol : Bytes) :
    ∃ ch rest, render last (itemsArgsT qs) ++ 41 :: fol = ch :: rest ∧ safeHead ch = true := by
  cases qs with
  | nil => exact ⟨41, fol, rfl, rfl⟩
  | cons q qs => exact ⟨59, _, rfl, rfl⟩

theorem sp_argsNil : SPArgsT [] := by intro _ _ _ _; rfl

theorem sp_argsCons (q : Query) (qs : List Query) (ihq : SPQ q) (ih : SPArgsT qs) : SPArgsT (q :: qs) := by
  intro last stk fol hok
  simp only [okQs, Bool.and_eq_true] at hok
  obtain ⟨ch, rest, e, hs⟩ := render_argsT_head qs (endLast (some 32) (itemsQ q)) fol
  simp [itemsArgsT, itemsOKF_append, endQ, okCh, isSolo, stops, render, Tok.spell, ih _ _ _ hok.2]
  refine ihq _ _ _ (OkQ_of _ _ _ hok.1) ?_
  rw [e]; exact safeB_safeHead _ _ _ hs

theorem sp_call (n : Bytes) (a : Query) (as : List Query) (iha : SPQ a) (ihas : SPArgsT as) : SPT (.func n (a :: as)) := by
  intro last stk fol hok _
  simp only [okT, Bool.and_eq_true] at hok
  obtain ⟨⟨hn, ha⟩, has⟩ := hok
  have hwf := wf_nameTok n (by simp only [Bool.or_eq_true] at hn ⊢; exact Or.inl (Or.inl hn))
  obtain ⟨ch, rest, e, hs⟩ := render_argsT_head as (endLast (some 40) (itemsQ a)) fol
  simp only [itemsT]
  rw [itemsOKF_nameTok]
  simp [hwf, render, Tok.spell, itemsOKF_append, endQ, endArgsT, render_append, ihas _ _ _ has]
  refine iha _ _ _ (OkQ_of _ _ _ ha) ?_
  rw [e]; exact safeB_safeHead _ _ _ hs

/-! ### objects -/

theorem render_kvsT_head (kvs : List KV) (last : Option UInt8) (fol : Bytes) :
    ∃ ch rest, render last (itemsKVsT kvs) ++ 32 :: fol = ch :: rest ∧ safeHead ch = true := by
  cases kvs with
  | nil => exact ⟨32, fol, rfl, rfl⟩
  | cons kv kvs => exact ⟨44, _, rfl, rfl⟩

theorem sp_kvNameVal (n : Bytes) (v : Query) (ih : SPQ v) : SPKV (.nameVal n v) := by
  intro last stk fol hok hf
  simp only [okKV, Bool.and_eq_true] at hok
  simp only [itemsKV, endLast] at hf
  simp only [itemsKV]
  rw [itemsOKF_keyTok]
  simp [wf_keyTok n hok.1, render, Tok.spell, okCh, isSolo, ih _ _ _ (Or.inr hok.2) hf]

theorem sp_kvStrVal (s : Str) (v : Query) (ihs : SPS s) (ih : SPQ v) : SPKV (.strVal s v) := by
  intro last stk fol hok hf
  simp only [okKV, Bool.and_eq_true] at hok
  simp only [itemsKV, endLast, endLast_append] at hf
  simp [itemsKV, itemsOKF_append, endS, render, Tok.spell, okCh, isSolo, stops, ihs _ _ _ hok.1,
    ih _ _ _ (Or.inr hok.2) hf]

theorem sp_kvQVal (kq v : Query) (ihq : SPQ kq) (ih : SPQ v) : SPKV (.qVal kq v) := by
  intro last stk fol hok hf
  simp only [okKV, Bool.and_eq_true] at hok
  simp only [itemsKV, endLast, endLast_append] at hf
  simp [itemsKV, itemsOKF_append, endQ, render, Tok.spell, okCh, isSolo, stops, ih _ _ _ (Or.inr hok.2) hf]
  exact ihq _ _ _ (OkQ_of _ _ _ hok.1) (safeB_safeHead _ 41 _ rfl)

theorem sp_kvName (n : Bytes) : SPKV (.name n) := by
  intro last stk fol hok hf
  simp only [okKV] at hok
  simp only [itemsKV, endLast] at hf
  simp only [itemsKV]
  rw [itemsOKF_keyTok]
  simp [wf_keyTok n hok, render,
    stops_last (keyTok n) last fol (wf_keyTok n hok) (inStrTok_keyTok n) (keyTok_ne_strStart n) hf]

theorem sp_kvStr (s : Str) (ihs : SPS s) : SPKV (.str s) := by
  intro last stk fol hok _
  simp only [okKV] at hok
  simpa [itemsKV] using ihs last stk fol hok

theorem sp_kvsNil : SPKVsT [] := by intro _ _ _ _; rfl

theorem sp_kvsCons (kv : KV) (kvs : List KV) (ihkv : SPKV kv) (ih : SPKVsT kvs) : SPKVsT (kv :: kvs) := by
  intro last stk fol hok
  simp only [okKVs, Bool.and_eq_true] at hok
  obtain ⟨ch, rest, e, hs⟩ := render_kvsT_head kvs (endLast (some 32) (itemsKV kv)) fol
  simp [itemsKVsT, itemsOKF_append, endKV, okCh, isSolo, stops, render, Tok.spell, ih _ _ _ hok.2]
  refine ihkv _ _ _ hok.1 ?_
  rw [e]; exact safeB_safeHead _ _ _ hs

theorem sp_object (kv : KV) (kvs : List KV) (ihkv : SPKV kv) (ih : SPKVsT kvs) : SPT (.object (kv :: kvs)) := by
  intro last stk fol hok _
  simp only [okT, okKVs, Bool.and_eq_true] at hok
  obtain ⟨ch, rest, e, hs⟩ := render_kvsT_head kvs (endLast (some 32) (itemsKV kv)) (125 :: fol)
  simp [itemsT, itemsOKF_append, endKV, endKVsT, okCh, isSolo, stops, render, render_append, Tok.spell,
    ih _ _ _ hok.2]
  refine ihkv _ _ _ hok.1 ?_
  rw [e]; exact safeB_safeHead _ _ _ hs

/-! ### patterns -/

theorem sp_patVar (n : Bytes) : SPP (.var n) := by
  intro last stk fol hok hf
  simp only [okP] at hok
  simp only [itemsP, endLast] at hf
  simp only [itemsP]
  rw [itemsOKF_var]
  simp [Tok.wf, Tok.inStrTok, hok, render, stops_last (.var n) last fol hok rfl (by simp) hf]

theorem render_psT_head (ps : List Pattern) (last : Option UInt8) (fol : Bytes) :
    ∃ ch rest, render last (itemsPsT ps) ++ 93 :: fol = ch :: rest ∧ safeHead ch = true := by
  cases ps with
  | nil => exact ⟨93, fol, rfl, rfl⟩
  | cons p ps => exact ⟨44, _, rfl, rfl⟩

theorem sp_psNil : SPPsT [] := by intro _ _ _ _; rfl

theorem sp_psCons (p : Pattern) (ps : List Pattern) (ihp : SPP p) (ih : SPPsT ps) : SPPsT (p :: ps) := by
  intro last stk fol hok
  simp only [okPs, Bool.and_eq_true] at hok
  obtain ⟨ch, rest, e, hs⟩ := render_psT_head ps (endLast (some 32) (itemsP p)) fol
  simp [itemsPsT, itemsOKF_append, endP, okCh, isSolo, stops, render, Tok.spell, ih _ _ _ hok.2]
  refine ihp _ _ _ hok.1 ?_
  rw [e]; exact safeB_safeHead _ _ _ hs

theorem sp_patArr (p : Pattern) (ps : List Pattern) (ihp : SPP p) (ih : SPPsT ps) : SPP (.arr (p :: ps)) := by
  intro last stk fol hok _
  simp only [okP, okPs, Bool.and_eq_true] at hok
  obtain ⟨ch, rest, e, hs⟩ := render_psT_head ps (endLast (some 91) (itemsP p)) fol
  simp [itemsP, itemsOKF_append, endP, endPsT, okCh, isSolo, stops, render, render_append, Tok.spell,
    ih _ _ _ hok.2.2]
  refine ihp _ _ _ hok.2.1 ?_
  rw [e]; exact safeB_safeHead _ _ _ hs

theorem sp_altNil : SPAltT [] := by intro _ _ _ _; rfl

theorem sp_altCons (p : Pattern) (ps : List Pattern) (ihp : SPP p) (ih : SPAltT ps) : SPAltT (p :: ps) := by
  intro last stk fol hok
  simp only [okPs, Bool.and_eq_true] at hok
  simp only [itemsAltT]
  rw [itemsOKF_destAlt]
  simp [Tok.wf, Tok.inStrTok, render, Tok.spell, itemsOKF_append, endP, ih _ _ _ hok.2]
  exact ihp _ _ _ hok.1 (safeB_safeHead _ 32 _ rfl)

theorem render_pkvsT_head (kvs : List PKV) (last : Option UInt8) (fol : Bytes) :
    ∃ ch rest, render last (itemsPKVsT kvs) ++ 125 :: fol = ch :: rest ∧ safeHead ch = true := by
  cases kvs with
  | nil => exact ⟨125, fol, rfl, rfl⟩
  | cons kv kvs => exact ⟨44, _, rfl, rfl⟩

theorem sp_pkvNameVal (n : Bytes) (p : Pattern) (ih : SPP p) : SPPKV (.nameVal n p) := by
  intro last stk fol hok hf
  simp only [okPKV, Bool.and_eq_true] at hok
  simp only [itemsPKV, endLast] at hf
  simp only [itemsPKV]
  rw [itemsOKF_keyTok]
  simp [wf_keyTok n hok.1, render, Tok.spell, okCh, isSolo, ih _ _ _ hok.2 hf]

theorem sp_pkvStrVal (s : Str) (p : Pattern) (ihs : SPS s) (ih : SPP p) : SPPKV (.strVal s p) := by
  intro last stk fol hok hf
  simp only [okPKV, Bool.and_eq_true] at hok
  simp only [itemsPKV, endLast, endLast_append] at hf
  simp [itemsPKV, itemsOKF_append, endS, render, Tok.spell, okCh, isSolo, stops, ihs _ _ _ hok.1, ih _ _ _ hok.2 hf]

theorem sp_pkvQVal (kq : Query) (p : Pattern) (ihq : SPQ kq) (ih : SPP p) : SPPKV (.qVal kq p) := by
  intro last stk fol hok hf
  simp only [okPKV, Bool.and_eq_true] at hok
  simp only [itemsPKV, endLast, endLast_append] at hf
  simp [itemsPKV, itemsOKF_append, endQ, render, Tok.spell, okCh, isSolo, stops, ih _ _ _ hok.2 hf]
  exact ihq _ _ _ (OkQ_of _ _ _ hok.1) (safeB_safeHead _ 41 _ rfl)

theorem sp_pkvName (n : Bytes) : SPPKV (.name n) := by
  intro last stk fol hok hf
  simp only [okPKV] at hok
  have hk : okKey n = true := by simp [okKey, hok]
  simp only [itemsPKV, endLast] at hf
  simp only [itemsPKV]
  rw [itemsOKF_keyTok]
  simp [wf_keyTok n hk, render,
    stops_last (keyTok n) last fol (wf_keyTok n hk) (inStrTok_keyTok n) (keyTok_ne_strStart n) hf]

theorem sp_pkvsNil : SPPKVsT [] := by intro _ _ _ _; rfl

theorem sp_pkvsCons (kv : PKV) (kvs : List PKV) (ihkv : SPPKV kv) (ih : SPPKVsT kvs) : SPPKVsT (kv :: kvs) := by
  intro last stk fol hok
  simp only [okPKVs, Bool.and_eq_true] at hok
  obtain ⟨ch, rest, e, hs⟩ := render_pkvsT_head kvs (endLast (some 32) (itemsPKV kv)) fol
  simp [itemsPKVsT, itemsOKF_append, endPKV, okCh, isSolo, stops, render, Tok.spell, ih _ _ _ hok.2]
  refine ihkv _ _ _ hok.1 ?_
  rw [e]; exact safeB_safeHead _ _ _ hs

theorem sp_patObj (kv : PKV) (kvs : List PKV) (ihkv : SPPKV kv) (ih : SPPKVsT kvs) : SPP (.obj (kv :: kvs)) := by
  intro last stk fol hok _
  simp only [okP, okPKVs, Bool.and_eq_true] at hok
  obtain ⟨ch, rest, e, hs⟩ := render_pkvsT_head kvs (endLast (some 123) (itemsPKV kv)) fol
  simp [itemsP, itemsOKF_append, endPKV, endPKVsT, okCh, isSolo, stops, render, render_append, Tok.spell,
    ih _ _ _ hok.2.2]
  refine ihkv _ _ _ hok.2.1 ?_
  rw [e]; exact safeB_safeHead _ _ _ hs

/-! ### definitions -/

theorem okParam_key (p : Bytes) (h : (isPlainIdent p || isVarName p) = true) : okKey p = true := by
  simp only [Bool.or_eq_true] at h
  rcases h with h | h
  · simp only [isPlainIdent, Bool.and_eq_true] at h; simp [okKey, h.1]
  · simp [okKey, h]

theorem sp_params (ps : List Bytes) (hps : ps.all (fun p => isPlainIdent p || isVarName p) = true)
    (fol : Bytes) (last : Option UInt8) (stk : List Nat) (R : List Item)
    (hR : ∀ L, itemsOKF fol L false stk (c 41 :: R) = true) :
    itemsOKF fol last false stk (ps.flatMap (fun p => [c 59, Item.sp, Item.t (keyTok p)]) ++ (c 41 :: R)) = true ∧
    ∃ ch rest, render last (ps.flatMap (fun p => [c 59, Item.sp, Item.t (keyTok p)]) ++ (c 41 :: R)) ++ fol = ch :: rest ∧
      safeHead ch = true := by
  induction ps generalizing last with
  | nil => exact ⟨by simpa using hR last, 41, _, rfl, rfl⟩
  | cons p ps ih =>
    simp only [List.all_cons, Bool.and_eq_true] at hps
    obtain ⟨h1, ch, rest, e, hs⟩ := ih hps.2 (lastOr (keyTok p).spell (some 32))
    refine ⟨?_, 59, _, rfl, rfl⟩
    simp only [List.flatMap_cons, List.cons_append, List.nil_append, List.append_assoc]
    simp [okCh, isSolo, stops, render, Tok.spell]
    rw [itemsOKF_keyTok]
    simp [wf_keyTok p (okParam_key p hps.1), h1]
    rw [e]
    exact stops_keyTok_s p ch rest hs

theorem sp_funcDef (name : Bytes) (params : List Bytes) (body : Query) (ih : SPQ body) :
    SPFD (.mk name params body) := by
  intro last stk fol hok
  simp only [okFD, Bool.and_eq_true] at hok
  obtain ⟨⟨hn, hps⟩, hb⟩ := hok
  have hbody : ∀ L stk', itemsOKF (32 :: fol) L false stk' (c 58 :: Item.sp :: (itemsQ body ++ [c 59])) = true := by
    intro L stk'
    simp [itemsOKF_append, endQ, okCh, isSolo, stops, render, Tok.spell]
    exact ih _ _ _ (OkQ_of _ _ _ hb) (safeB_safeHead _ 59 _ rfl)
  cases params with
  | nil =>
    simp only [itemsFD, List.nil_append]
    rw [itemsOKF_kw]
    simp only [Tok.wf, Tok.inStrTok, render, Tok.spell, itemsOKF_sp]
    rw [itemsOKF_ident]
    simp [Tok.wf, Tok.inStrTok, hn, render, Tok.spell, hbody]
  | cons p ps =>
    simp only [List.all_cons, Bool.and_eq_true] at hps
    have hR : ∀ L, itemsOKF (32 :: fol) L false (openStk stk)
        (c 41 :: (c 58 :: Item.sp :: (itemsQ body ++ [c 59]))) = true := by
      intro L; simp [hbody, stops, isSolo, render, Tok.spell]
    obtain ⟨h1, ch, rest, e, hs⟩ := sp_params ps hps.2 (32 :: fol) (lastOr (keyTok p).spell (some 40)) (openStk stk) _ hR
    simp only [itemsFD, List.cons_append, List.append_assoc]
    rw [itemsOKF_kw]
    simp only [Tok.wf, Tok.inStrTok, render, Tok.spell, itemsOKF_sp]
    rw [itemsOKF_ident]
    simp [Tok.wf, Tok.inStrTok, hn, render, Tok.spell]
    rw [itemsOKF_keyTok]
    simp [wf_keyTok p (okParam_key p hps.1), h1]
    rw [e]
    exact stops_keyTok_s p ch rest hs

end Gojq.RefTerm

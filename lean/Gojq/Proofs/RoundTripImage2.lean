/-
  The image of the reference parser is Printable, part 1: notions.  `Good ts` — every token is
  one the lexer can deliver (`Tok.wf`) and the tokens of interpolated strings come in the order the
  lexer delivers them (`shapeOK`) —, the statements per parser function, and what successful parses
  leave behind (`SufStop`, `CatchStop`, `LoopStop`, `OpenStop`).
-/
import Gojq.Proofs.RoundTripImage
import Gojq.Proofs.RoundTripNames
namespace Gojq.RefTerm
open Gojq Gojq.Lexer

/-- a token list the lexer can have produced, as far as the parser's image is concerned -/
def Good (ts : List Tok) : Prop := (∀ t ∈ ts, t.wfI = true) ∧ shapeOK ts = true

theorem good_of_goodB (ts : List Tok) (h : goodB ts = true) : Good ts := by
  simp only [goodB, Bool.and_eq_true, List.all_eq_true] at h
  exact ⟨h.1, h.2⟩

theorem shapeOK_tail (x : Tok) (r : List Tok) (h : shapeOK (x :: r) = true) : shapeOK r = true := by
  cases x <;> simp only [shapeOK] at h <;> (try exact h)
  all_goals (split at h <;> first | exact h | cases h)

theorem Good.tail {x : Tok} {r : List Tok} (h : Good (x :: r)) : Good r :=
  ⟨fun t ht => h.1 t (by simp [ht]), shapeOK_tail x r h.2⟩

theorem Good.head {x : Tok} {r : List Tok} (h : Good (x :: r)) : x.wfI = true := h.1 x (by simp)

theorem Good.tail2 {x y : Tok} {r : List Tok} (h : Good (x :: y :: r)) : Good r := h.tail.tail
theorem Good.tail3 {x y z : Tok} {r : List Tok} (h : Good (x :: y :: z :: r)) : Good r := h.tail.tail.tail

/-- the suffix loop would stop here -/
def SufStop (ts : List Tok) : Prop := ∀ (f : Nat) (t : Term), pSuf (f + 1) t ts = some (t, ts)

/-- no `catch` follows -/
def CatchStop (ts : List Tok) : Prop := ∀ r, ts ≠ .kw .catch_ :: r

/-- what the loop knows about the left operand parsed so far (Printable version) -/
def LhsInvQ (item : Bool) (min : Nat) (lhs : Query) (ts : List Tok) : Prop :=
  okQ item min lhs = true ∧ OpenStop lhs ts ∧
  (∀ x o, ts.head? = some x → binopOfTok x = some o → min ≤ o.lv → okQ false o.lmin lhs = true) ∧
  (ts.head? = some (.kw .as_) → item = true → okQ false 3 lhs = true)

/-- how the pieces of an interpolated string reflect the tokens -/
def FirstQ (ts : List Tok) (ps : List Part) : Prop :=
  (∀ r, ts = .strQuery :: r → ∃ q ps', ps = .q q :: ps') ∧
  (∀ v r, ts = .chunk v :: .strQuery :: r → ∃ q ps', ps = .lit v :: .q q :: ps') ∧
  (∀ v ps', ps = .lit v :: ps' → ∃ r, ts = .chunk v :: r)

structure IH (f : Nat) : Prop where
  climb : ∀ (item : Bool) (min : Nat) (ts : List Tok) (q : Query) (rest : List Tok),
    pClimb f item min ts = some (q, rest) → Good ts → (item = true → min ≤ 3) →
      okQ item min q = true ∧ Good rest ∧ LoopStop item min rest ∧ OpenStop q rest
  loop : ∀ (item : Bool) (min : Nat) (lhs : Query) (ts : List Tok) (q : Query) (rest : List Tok),
    pLoop f item min lhs ts = some (q, rest) → Good ts → (item = true → min ≤ 3) → LhsInvQ item min lhs ts →
      okQ item min q = true ∧ Good rest ∧ LoopStop item min rest ∧ OpenStop q rest
  funcDef : ∀ (ts : List Tok) (fd : FuncDef) (rest : List Tok),
    pFuncDef f ts = some (fd, rest) → Good ts → okFD fd = true ∧ Good rest
  term : ∀ (ts : List Tok) (t : Term) (rest : List Tok),
    pTerm f ts = some (t, rest) → Good ts →
      okT t = true ∧ Good rest ∧ SufStop rest ∧ (openTryT t = true → CatchStop rest)
  suf : ∀ (t : Term) (ts : List Tok) (t' : Term) (rest : List Tok),
    pSuf f t ts = some (t', rest) → Good ts → okT t = true → (suffixable t = true ∨ SufStop ts) →
      (openTryT t = true → CatchStop ts) →
      okT t' = true ∧ Good rest ∧ SufStop rest ∧ (openTryT t' = true → CatchStop rest)
  bracket : ∀ (ts : List Tok) (s : Suffix) (rest : List Tok),
    pBracket f ts = some (s, rest) → Good ts → okSuf s = true ∧ Good rest ∧ (isIndexForm s = true ∨ s = .iter)
  primary : ∀ (ts : List Tok) (t : Term) (rest : List Tok),
    pPrimary f ts = some (t, rest) → Good ts →
      okT t = true ∧ Good rest ∧ (suffixable t = true ∨ SufStop rest) ∧ (openTryT t = true → CatchStop rest)
  parts : ∀ (ts : List Tok) (ps : List Part) (rest : List Tok),
    pParts f ts = some (ps, rest) → Good ts →
      okParts ps = true ∧ Good rest ∧ partsShape ps = true ∧ FirstQ ts ps
  argsT : ∀ (ts : List Tok) (qs : List Query) (rest : List Tok),
    pArgsT f ts = some (qs, rest) → Good ts → okQs qs = true ∧ Good rest
  objVal : ∀ (ts : List Tok) (v : Query) (rest : List Tok),
    pObjVal f ts = some (v, rest) → Good ts → okOV v = true ∧ Good rest
  kv : ∀ (ts : List Tok) (kv : KV) (rest : List Tok),
    pKV f ts = some (kv, rest) → Good ts → okKV kv = true ∧ Good rest
  kvsT : ∀ (ts : List Tok) (kvs : List KV) (rest : List Tok),
    pKVsT f ts = some (kvs, rest) → Good ts → okKVs kvs = true ∧ Good rest
  pattern : ∀ (ts : List Tok) (p : Pattern) (rest : List Tok),
    pPattern f ts = some (p, rest) → Good ts → okP p = true ∧ Good rest
  psT : ∀ (ts : List Tok) (ps : List Pattern) (rest : List Tok),
    pPsT f ts = some (ps, rest) → Good ts → okPs ps = true ∧ Good rest
  altT : ∀ (ts : List Tok) (ps : List Pattern) (rest : List Tok),
    pAltT f ts = some (ps, rest) → Good ts → okPs ps = true ∧ Good rest
  pkv : ∀ (ts : List Tok) (kv : PKV) (rest : List Tok),
    pPKV f ts = some (kv, rest) → Good ts → okPKV kv = true ∧ Good rest
  pkvsT : ∀ (ts : List Tok) (kvs : List PKV) (rest : List Tok),
    pPKVsT f ts = some (kvs, rest) → Good ts → okPKVs kvs = true ∧ Good rest
  ifRest : ∀ (ts : List Tok) (r : IfRest) (rest : List Tok),
    pIfRest f ts = some (r, rest) → Good ts → okIf r = true ∧ Good rest

/-! ### small facts -/

theorem expect_some {t : Tok} {ts ts' : List Tok} (h : expect t ts = some ts') : ts = t :: ts' := by
  cases ts with
  | nil => simp [expect] at h
  | cons x r =>
    simp only [expect] at h
    split at h
    · next e => simp at h; subst e; subst h; rfl
    · cases h

theorem wf_keyOfTok {t : Tok} {n : Bytes} (hwf : t.wfI = true) (h : keyOfTok t = some n) : okKey n = true := by
  cases t <;> simp [keyOfTok] at h
  · subst h
    simp only [Tok.wfI, Tok.wf, isPlainIdent, Bool.and_eq_true] at hwf
    simp [okKey, hwf.1]
  · subst h; simp [okKey, show isVarName _ = true from hwf]
  · subst h
    rename_i w
    cases w <;> decide

theorem wf_paramOfTok {t : Tok} {n : Bytes} (hwf : t.wfI = true) (h : paramOfTok t = some n) :
    (isPlainIdent n || isVarName n) = true := by
  cases t <;> simp [paramOfTok] at h
  · subst h; simp [show isPlainIdent _ = true from hwf]
  · subst h; simp [show isVarName _ = true from hwf]

theorem okOV_of_okQ3 : ∀ (e : Query), okQ false 3 e = true → okOV e = true
  | .term t, h => by rw [okQ_term] at h; simpa [okOV] using h
  | .binop o l r, h => by
    rw [okQ_binop] at h
    simp only [Bool.and_eq_true, decide_eq_true_eq] at h
    have hne : o ≠ .pipe := by intro e; subst e; have := h.1.1.1; simp [BOp.lv] at this
    have hd : decide (o.lv ≤ 2) = false := by simp; omega
    rw [hd] at h
    simp [okOV, hne, h.1.1.1, h.1.1.2, h.1.2, h.2]
  | .bind _ [] _, h => by rw [okQ_bind_nil] at h; cases h
  | .bind _ (_ :: _) _, h => by rw [okQ_bind] at h; simp at h
  | .def_ _ _, h => by rw [okQ_def] at h; simp at h
  | .label _ _, h => by rw [okQ_label] at h; simp at h

theorem pParamsT_img : ∀ (ts : List Tok) (ps : List Bytes) (rest : List Tok), pParamsT ts = some (ps, rest) →
    Good ts → ps.all (fun p => isPlainIdent p || isVarName p) = true ∧ Good rest := by
  intro ts
  induction ts using pParamsT.induct with
  | case1 r =>
    intro ps rest h hg
    simp [pParamsT] at h
    obtain ⟨rfl, rfl⟩ := h
    exact ⟨rfl, hg.tail⟩
  | case2 t r p hp ps' r' hrec ih =>
    intro ps rest h hg
    simp [pParamsT, hp, hrec] at h
    obtain ⟨rfl, rfl⟩ := h
    obtain ⟨a1, a2⟩ := ih ps' r' hrec hg.tail2
    exact ⟨by simp [wf_paramOfTok hg.tail.head hp, a1], a2⟩
  | case3 t r p hp hrec => intro ps rest h _; simp [pParamsT, hp, hrec] at h
  | case4 t r hp => intro ps rest h _; simp [pParamsT, hp] at h
  | case5 ts h1 h2 => intro ps rest h _; rw [pParamsT] at h; cases h; all_goals (intros; simp_all)

end Gojq.RefTerm

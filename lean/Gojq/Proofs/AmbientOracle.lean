/-
  Every world-derived run (Model/Ambient.lean) is a run of the interpreter model Model/VM.lean under
  an oracle: the records the derived run consults, laid out by poll number (`extOfRun`).  So the
  runs of Props/C19VM.lean are among the runs the theorems of C07/C08/C04 quantify over and the
  `vm`/`lockstep` streams validate.  Core Lean only.
-/
import Gojq.Proofs.Ambient
namespace Gojq.Ambient
open Gojq Gojq.VM

def stepPolls : Step → Nat
  | .cont _ s => s.polls
  | .fin _ s => s.polls

theorem unwind_polls (P : Params) (l : L) (s : St) : stepPolls (unwind P l s) = s.polls := by
  unfold unwind finish
  split
  · split <;> rfl
  · rfl

theorem step_polls (P : Params) (l : L) (s : St) :
    stepPolls (step P l s) = s.polls + (if 0 ≤ l.pc ∧ l.pc < P.code.size then 1 else 0) := by
  by_cases hp : 0 ≤ l.pc ∧ l.pc < P.code.size
  · rw [if_pos hp]
    unfold step
    rw [if_pos hp.2, if_neg (by omega)]
    split
    · rfl
    · split
      · rfl
      · rfl
      · split
        · rfl
        · rfl
        · rfl
        · rw [unwind_polls]
  · rw [if_neg hp]
    unfold step
    by_cases h1 : l.pc < P.code.size
    · rw [if_pos h1, if_pos (by omega)]; rfl
    · rw [if_neg h1, unwind_polls]; rfl

variable {W H : Type}

def AgreeFrom (k : Nat) (a b : Nat → ExtRec) : Prop := ∀ p, k ≤ p → a p = b p

theorem codeOf_size (nc : NCode) : (codeOf nc).size = nc.size := by simp [codeOf]

def tick (nc : NCode) (l : L) : Nat := if polling nc l then 1 else 0

theorem step_polls' (nc : NCode) (cancelled : Nat → Bool) (ext : Nat → ExtRec) (l : L) (s : St) :
    stepPolls (step ⟨codeOf nc, cancelled, ext⟩ l s) = s.polls + tick nc l := by
  rw [step_polls]
  simp only [tick, polling, codeOf_size]
  by_cases h : 0 ≤ l.pc ∧ l.pc < (nc.size : Int) <;> simp [h]

theorem step_ext_at (nc : NCode) (cancelled : Nat → Bool) (ext : Nat → ExtRec) (x : ExtRec) (l : L) (s : St)
    (h : polling nc l = true → ext s.polls = x) :
    step ⟨codeOf nc, cancelled, ext⟩ l s = step ⟨codeOf nc, cancelled, fun _ => x⟩ l s := by
  by_cases hp : polling nc l = true
  · have hx := h hp
    unfold step unwind finish
    simp only [hx]
  · unfold step
    by_cases h1 : l.pc < ((codeOf nc).size : Int)
    · have : l.pc < 0 := by
        simp only [polling, decide_eq_true_eq] at hp
        rw [codeOf_size] at h1
        omega
      simp only [if_pos h1, if_pos this]
    · simp only [if_neg h1]; rfl

/-- the rest of the oracle after the current turn -/
def restOf (sem : Sem W H) (w : W) (nc : NCode) (cancelled : Nat → Bool) (dflt : Nat → ExtRec)
    (fuel : Nat) (l : L) (s : St) (hid : Hid H) : Nat → ExtRec :=
  match stepW sem w nc cancelled l s hid with
  | (.fin _ _, _) => dflt
  | (.cont l' s', hid') =>
    match fuel with
    | 0 => dflt
    | fuel + 1 => extOfLoop sem w nc cancelled dflt fuel l' s' hid'

theorem extOfLoop_eq (sem : Sem W H) (w : W) (nc : NCode) (cancelled : Nat → Bool) (dflt : Nat → ExtRec)
    (fuel : Nat) (l : L) (s : St) (hid : Hid H) :
    extOfLoop sem w nc cancelled dflt fuel l s hid =
      if polling nc l then fun p => if p = s.polls then (recordAt sem w nc cancelled l s hid).1
        else restOf sem w nc cancelled dflt fuel l s hid p
      else restOf sem w nc cancelled dflt fuel l s hid := by
  rw [extOfLoop]
  rfl

theorem extOfLoop_at (sem : Sem W H) (w : W) (nc : NCode) (cancelled : Nat → Bool) (dflt : Nat → ExtRec)
    (fuel : Nat) (l : L) (s : St) (hid : Hid H) (hp : polling nc l = true) :
    extOfLoop sem w nc cancelled dflt fuel l s hid s.polls = (recordAt sem w nc cancelled l s hid).1 := by
  rw [extOfLoop_eq, if_pos hp]; simp

theorem extOfLoop_after (sem : Sem W H) (w : W) (nc : NCode) (cancelled : Nat → Bool) (dflt : Nat → ExtRec)
    (fuel : Nat) (l : L) (s : St) (hid : Hid H) (p : Nat) (hp : s.polls + tick nc l ≤ p) :
    extOfLoop sem w nc cancelled dflt fuel l s hid p = restOf sem w nc cancelled dflt fuel l s hid p := by
  rw [extOfLoop_eq]
  unfold tick at hp
  by_cases h : polling nc l = true
  · rw [if_pos h] at hp ⊢
    rw [if_neg (by omega)]
  · rw [if_neg h]

/-- one call: the VM loop under an oracle that agrees with the derived one from the current poll on
    is the world-derived loop; afterwards the oracle agrees with the default -/
theorem loop_extOfLoop (sem : Sem W H) (w : W) (nc : NCode) (cancelled : Nat → Bool) (dflt : Nat → ExtRec) :
    ∀ (fuel : Nat) (l : L) (s : St) (hid : Hid H) (ext : Nat → ExtRec),
      AgreeFrom s.polls ext (extOfLoop sem w nc cancelled dflt fuel l s hid) →
      loop ⟨codeOf nc, cancelled, ext⟩ fuel l s = (loopW sem w nc cancelled fuel l s hid).1 ∧
      AgreeFrom (loopW sem w nc cancelled fuel l s hid).1.2.polls ext dflt := by
  intro fuel
  induction fuel with
  | zero =>
    intro l s hid ext hag
    have hstep : step ⟨codeOf nc, cancelled, ext⟩ l s = (stepW sem w nc cancelled l s hid).1 := by
      unfold stepW
      apply step_ext_at
      intro hp
      rw [hag _ (Nat.le_refl _), extOfLoop_at _ _ _ _ _ _ _ _ _ hp]
    have hpolls := step_polls' nc cancelled ext l s
    have hrest : ∀ p, s.polls + tick nc l ≤ p → ext p = restOf sem w nc cancelled dflt 0 l s hid p := by
      intro p hp
      rw [hag p (by omega), extOfLoop_after _ _ _ _ _ _ _ _ _ _ hp]
    unfold loop loopW
    rw [hstep] at hpolls ⊢
    unfold restOf at hrest
    cases hs : stepW sem w nc cancelled l s hid with
    | mk st hid' =>
      rw [hs] at hpolls hrest
      cases st with
      | fin o s' =>
        refine ⟨rfl, ?_⟩
        intro p hp
        exact hrest p (by simp only [stepPolls] at hpolls; simp only at hp; omega)
      | cont l' s' =>
        refine ⟨rfl, ?_⟩
        intro p hp
        exact hrest p (by simp only [stepPolls] at hpolls; simp only [St.save] at hp; omega)
  | succ n ih =>
    intro l s hid ext hag
    have hstep : step ⟨codeOf nc, cancelled, ext⟩ l s = (stepW sem w nc cancelled l s hid).1 := by
      unfold stepW
      apply step_ext_at
      intro hp
      rw [hag _ (Nat.le_refl _), extOfLoop_at _ _ _ _ _ _ _ _ _ hp]
    have hpolls := step_polls' nc cancelled ext l s
    have hrest : ∀ p, s.polls + tick nc l ≤ p → ext p = restOf sem w nc cancelled dflt (n + 1) l s hid p := by
      intro p hp
      rw [hag p (by omega), extOfLoop_after _ _ _ _ _ _ _ _ _ _ hp]
    unfold loop loopW
    rw [hstep] at hpolls ⊢
    unfold restOf at hrest
    cases hs : stepW sem w nc cancelled l s hid with
    | mk st hid' =>
      rw [hs] at hpolls hrest
      cases st with
      | fin o s' =>
        refine ⟨rfl, ?_⟩
        intro p hp
        exact hrest p (by simp only [stepPolls] at hpolls; simp only at hp; omega)
      | cont l' s' =>
        simp only
        apply ih
        intro p hp
        exact hrest p (by simp only [stepPolls] at hpolls; omega)

/-- `n` calls: the VM history under an oracle that agrees with the derived one is the derived run -/
theorem history_extOfRun (sem : Sem W H) (w : W) (nc : NCode) (cancelled : Nat → Bool) (fuel : Nat) :
    ∀ (n : Nat) (s : St) (hid : Hid H) (ext : Nat → ExtRec),
      AgreeFrom s.polls ext (extOfRun sem w nc cancelled fuel n s hid) →
      history ⟨codeOf nc, cancelled, ext⟩ fuel n s = (runW sem w nc cancelled fuel n s hid).1 := by
  intro n
  induction n with
  | zero => intro s hid ext _; rfl
  | succ n ih =>
    intro s hid ext hag
    simp only [extOfRun] at hag
    obtain ⟨h1, h2⟩ := loop_extOfLoop sem w nc cancelled _ fuel _ s hid ext hag
    have hnext : next ⟨codeOf nc, cancelled, ext⟩ fuel s = (nextW sem w nc cancelled fuel s hid).1 := h1
    simp only [history, runW, hnext]
    congr 1
    exact ih _ _ ext h2

end Gojq.Ambient
